"""check <property> --tier quick|thorough [--replay file]   (DESIGN.md §5)

1. regenerate Schc/Gen from /repo   2. lake build (proof obligations + driver)   3. audit axioms
4. correspondence streams (implementation vs Lean model) + oracle (implementation vs property)
5. verdict, evidence, replay files.
"""
import os, sys, json, time, subprocess, random, re, fcntl, importlib, argparse, hashlib, collections
from . import common
from .common import VERIF, LEAN, REPO

PY = sys.executable
ALLOWED_AXIOMS = {'propext', 'Classical.choice', 'Quot.sound'}
FORBIDDEN = re.compile(r'\b(sorry|admit|native_decide|bv_decide|implemented_by|unsafe)\b|^axiom |maxHeartbeats 0')

# which streams serve which property (module name under harness/, and the property filter passed to gen)
STREAMS = {
    'C05': ['bufstream'], 'C06': ['bufstream'], 'C13': ['bufstream'], 'C16': ['bufstream', 'histstream'],
    'C07': ['parsestream'], 'C08': ['parsestream'], 'C14': ['parsestream'], 'C19': ['parsestream', 'schcstream'], 'C09': ['parsestream', 'schcstream'],
    'C12': ['jsonstream'],
    'C01': ['schcstream'], 'C02': ['schcstream'], 'C03': ['schcstream'], 'C04': ['schcstream', 'histstream'], 'C10': ['schcstream', 'histstream'],
    'C11': ['schcstream', 'histstream'], 'C15': ['schcstream', 'histstream'], 'C17': ['schcstream'], 'C18': ['schcstream', 'histstream'], 'C20': ['schcstream'],
}

def load_json(path, default):
    try:
        with open(path) as f:
            return json.load(f)
    except FileNotFoundError:
        return default

def strip_comments(src):
    src = re.sub(r'/-.*?-/', '', src, flags=re.S)
    return re.sub(r'--.*', '', src)

class Run:
    def __init__(self, prop, tier, seed):
        self.prop, self.tier, self.seed = prop, tier, seed
        self.t0 = time.time()
        self.notes = []
        self.broken = []          # broken obligations / ties: dicts
        self.violations = []      # failing inputs: dicts
        self.known_hits = collections.Counter()
        self.cov = common.Coverage()
        self.obligations = []
        self.discharged = []
        self.axioms = {}
        self.disagreements = 0

    # ------------------------------------------------------------------ steps 1-3
    def regenerate(self):
        p = subprocess.run([PY, os.path.join(VERIF, 'translator', 'gen.py')], capture_output=True, text=True, env=dict(os.environ, VERIF_REPO=REPO))
        try:
            info = json.loads(p.stdout.strip().splitlines()[-1])
        except Exception:
            info = {'changed': [], 'errors': [f'translator crashed: {p.stderr[-500:]}']}
        for e in info['errors']:
            self.broken.append({'kind': 'translator', 'what': e})
        self.gen_changed = info['changed']

    def build(self, targets):
        p = subprocess.run(['lake', 'build'] + targets, cwd=LEAN, capture_output=True, text=True)
        return p.returncode == 0, (p.stdout + p.stderr)

    def build_all(self, ledger):
        ok_driver, log = self.build(['driver'])
        self.driver_ok = ok_driver
        if not ok_driver:
            self.broken.append({'kind': 'model-build', 'what': 'the Lean model/driver no longer builds against the regenerated tables', 'lean_error': self._errs(log)})
        mods = ledger.get('modules', [])
        self.proofs_ok = True
        if mods:
            ok, log = self.build(mods)
            if not ok:
                self.proofs_ok = False
                self.broken.append({'kind': 'proof', 'what': 'lake build failed in the cone of ' + ', '.join(mods), 'lean_error': self._errs(log)})

    @staticmethod
    def _errs(log):
        lines = [l for l in log.splitlines() if 'error' in l.lower()]
        return '\n'.join(lines[:12])[:3000]

    def audit(self, ledger):
        names = [t['name'] for t in ledger.get('theorems', [])]
        self.obligations = names
        if not names:
            return
        if not self.proofs_ok:
            return
        src = 'import ' + '\nimport '.join(ledger['modules']) + '\n' + ''.join(f'#print axioms {n}\n' for n in names)
        path = os.path.join(LEAN, '.lake', f'audit_{self.prop}_{os.getpid()}.lean')
        with open(path, 'w') as f:
            f.write(src)
        p = subprocess.run(['lake', 'env', 'lean', path], cwd=LEAN, capture_output=True, text=True)
        os.unlink(path)
        out = p.stdout + p.stderr
        # "'Schc.X' depends on axioms: [a, b]"  /  "'Schc.X' does not depend on any axioms"
        for n in names:
            m = re.search(r"'" + re.escape(n) + r"' depends on axioms: \[([^\]]*)\]", out, flags=re.S)
            if m:
                ax = [a.strip() for a in m.group(1).replace('\n', ' ').split(',') if a.strip()]
            elif re.search(r"'" + re.escape(n) + r"' does not depend on any axioms", out):
                ax = []
            else:
                self.broken.append({'kind': 'audit', 'theorem': n, 'what': 'theorem not found in the built environment', 'lean_error': out[-600:]})
                continue
            self.axioms[n] = ax
            extra = [a for a in ax if a not in ALLOWED_AXIOMS]
            if extra:
                self.broken.append({'kind': 'audit', 'theorem': n, 'what': 'depends on axioms outside the allowed set: ' + ', '.join(extra)})
            else:
                self.discharged.append(n)
        # source grep for forbidden constructs (outside comments)
        for root, _, files in os.walk(os.path.join(LEAN, 'Schc')):
            for fn in files:
                if fn.endswith('.lean'):
                    src = strip_comments(open(os.path.join(root, fn)).read())
                    for line in src.splitlines():
                        if FORBIDDEN.search(line):
                            self.broken.append({'kind': 'audit', 'what': f'forbidden construct in {fn}: {line.strip()[:120]}'})
        if self.tier == 'thorough' and ledger.get('modules'):
            p = subprocess.run(['lake', 'env', 'leanchecker'] + ledger['modules'], cwd=LEAN, capture_output=True, text=True)
            self.notes.append('leanchecker exit %d' % p.returncode)
            if p.returncode != 0:
                self.broken.append({'kind': 'audit', 'what': 'leanchecker rejected the compiled modules', 'lean_error': (p.stdout + p.stderr)[-800:]})

    # ------------------------------------------------------------------ step 4
    def run_stream(self, modname, tier, seed, judge_model=True, first=None):
        mod = importlib.import_module('harness.' + modname)
        rng = random.Random(seed * 1000003 + hash(modname) % 1000)
        rng = random.Random(f'{seed}/{modname}/{self.prop}')
        lines = list(first or []) + list(mod.gen([self.prop], tier, rng))
        res = common.run_impl('harness.' + modname, 'evaluate', lines)
        model = None
        if judge_model and self.driver_ok:
            try:
                model = common.run_driver([mod.model_line(l) for l in lines] if hasattr(mod, 'model_line') else lines)
            except Exception as e:
                self.broken.append({'kind': 'driver', 'stream': modname, 'what': str(e)[:500]})
        known = self.known
        for i, (line, (out, viols)) in enumerate(zip(lines, res)):
            if 'hang-budget-exhausted' in out:
                self.cov.branches['skipped-after-hangs'] += 1
                continue
            if out.startswith('harness-error:'):
                # our own oracle / codec failed on this line: not a verdict; counted, shown, and the line is not judged
                self.cov.branches['harness-error'] += 1
                if self.cov.branches['harness-error'] <= 3:
                    self.notes.append(f'harness error on `{line[:160]}`: {out[14:200]}')
                continue
            self.cov.note(line, mod.nontrivial(line), mod.branch(line, out))
            mine = [m for (p, m) in viols if p == self.prop]
            if mine:
                kf = next((k for k in known if k['status'] == 'known' and k['property'] == self.prop and mod.in_domain(k['domain'], line)), None) if hasattr(mod, 'in_domain') else None
                if kf:
                    self.known_hits[kf['id']] += 1
                elif len(self.violations) < 50:
                    self.violations.append({'stream': modname, 'op': line, 'implementation': out, 'problems': mine,
                                            'model': model[i] if model else None, 'seed': seed})
            if model is not None and model[i] == 'err:unmodelled':
                self.cov.branches['model:unmodelled'] += 1
            elif model is not None and not (mod.model_agrees(out, model[i]) if hasattr(mod, 'model_agrees') else model[i] == out):
                self.disagreements += 1
                if sum(1 for b in self.broken if b['kind'] == 'correspondence') < 5:
                    self.broken.append({'kind': 'correspondence', 'stream': modname, 'op': line, 'implementation': out, 'model': model[i]})
        return lines

    # ------------------------------------------------------------------ step 5
    def finish(self):
        ev_dir = os.path.join(VERIF, 'evidence')
        os.makedirs(os.path.join(ev_dir, 'replay'), exist_ok=True)
        exit_code = 0
        out_lines = []
        for kid, n in sorted(self.known_hits.items()):
            k = next(k for k in self.known if k['id'] == kid)
            out_lines.append(f"KNOWN-FINDING: property={self.prop} {k['what']} [{kid}; {n} inputs in its domain this run]")
        replay = None
        if self.violations:
            exit_code = 1
            replay = os.path.join('evidence', 'replay', f'{self.prop}-1.json')
            v = min(self.violations, key=lambda v: len(v['op']))
            json.dump({'property': self.prop, 'kind': 'failing-input', 'stream': v['stream'], 'seed': v['seed'], 'op': v['op'],
                       'implementation': v['implementation'], 'model': v['model'], 'violates': v['problems'],
                       'all_failing_inputs_this_run': [x['op'] for x in self.violations[:20]],
                       'broken_obligations': self.broken[:10],
                       'rerun': f"./check {self.prop} --replay {replay}"}, open(os.path.join(VERIF, replay), 'w'), indent=1)
            out_lines.append(f'VIOLATION property={self.prop} replay={replay}')
        elif self.broken:
            exit_code = 1
            replay = os.path.join('evidence', 'replay', f'{self.prop}-1.json')
            json.dump({'property': self.prop, 'kind': 'no-failing-input-found', 'broken': self.broken[:20],
                       'searched': {'evaluations': self.cov.evaluations, 'seeds': self.search_seeds},
                       'rerun': f"./check {self.prop}"}, open(os.path.join(VERIF, replay), 'w'), indent=1)
            out_lines.append(f'VIOLATION property={self.prop} replay={replay} no-failing-input-found')
        else:
            stale = os.path.join(ev_dir, 'replay', f'{self.prop}-1.json')   # a replay file of an earlier, different tree
            if os.path.exists(stale):
                os.remove(stale)
        ledger = self.ledger
        level = ledger.get('level', 'other')
        cov = {
            'obligations': len(self.obligations), 'discharged': len(self.discharged),
            'checker_cmd': 'lake build ' + ' '.join(ledger.get('modules', [])) + ' && lake env lean <#print axioms of every ledger theorem>' + (' && lake env leanchecker' if self.tier == 'thorough' else ''),
            'trusted_base': ['Lean 4.33 kernel', 'axioms: ' + ', '.join(sorted({a for ax in self.axioms.values() for a in ax}) or ['none']),
                             'translator/gen.py (tables regenerated from /repo)', 'correspondence harness (impl vs Lean model, this run)',
                             'hand-written Lean model Schc.Py.* of the Python code (tied by correspondence only)'],
            'theorems': [{'name': t['name'], 'kind': t.get('kind', 'full'), 'statement': t.get('statement', ''), 'axioms': self.axioms.get(t['name'])} for t in ledger.get('theorems', [])],
            'evaluations': self.cov.evaluations, 'distinct_nontrivial': len(self.cov.distinct),
            'rule': ledger.get('rule', 'inputs enumerated/generated by the streams of this property; non-trivial = at least one operand of non-zero length; distinct = distinct op lines (hashed)'),
            'samples': self.cov.samples or ['(none)'],
            'explanation': ledger.get('explanation', ''),
            'correspondence_disagreements': self.disagreements,
            'branch_hits': dict(sorted(self.cov.branches.items())[:400]),
            'broken': self.broken[:10],
            'known_findings_hit': dict(self.known_hits),
            'streams': STREAMS.get(self.prop, []),
            'notes': self.notes,
        }
        if level != 'proof' or not self.obligations:
            cov['explanation'] = cov['explanation'] or 'model and correspondence only; theorems pending'
        ev = {'property_id': self.prop, 'tier': self.tier, 'seed': self.seed, 'level': level if self.obligations or level != 'proof' else 'other',
              'coverage': cov, 'assumptions': ledger.get('assumptions', []), 'wall_s': round(time.time() - self.t0, 2),
              'violations': len(self.violations) + (1 if (self.broken and not self.violations) else 0)}
        json.dump(ev, open(os.path.join(ev_dir, f'{self.prop}.json'), 'w'), indent=1)
        for l in out_lines:
            print(l)
        print(f"{self.prop} {self.tier}: {len(self.discharged)}/{len(self.obligations)} theorems, {self.cov.evaluations} evaluations, "
              f"{self.disagreements} model disagreements, {len(self.violations)} failing inputs, {len(self.broken)} broken obligations, {ev['wall_s']} s"
              + (f" [{self.cov.branches['harness-error']} lines skipped after an error in the harness itself, see notes in the evidence file]" if self.cov.branches.get('harness-error') else ''))
        return exit_code

def main(argv=None):
    ap = argparse.ArgumentParser()
    ap.add_argument('prop')
    ap.add_argument('--tier', default=os.environ.get('VERIF_TIER', 'quick'), choices=['quick', 'thorough'])
    ap.add_argument('--replay')
    a = ap.parse_args(argv)
    seed = int(os.environ.get('VERIF_SEED', '0') or 0)
    if a.replay:
        return replay(a.prop, a.replay)
    run = Run(a.prop, a.tier, seed)
    run.ledger = load_json(os.path.join(VERIF, 'obligations.json'), {}).get(a.prop, {})
    run.known = load_json(os.path.join(VERIF, 'known_findings.json'), [])
    run.search_seeds = [seed]
    os.makedirs(os.path.join(LEAN, '.lake'), exist_ok=True)
    with open(os.path.join(LEAN, '.lake', 'verif.lock'), 'w') as lock:
        fcntl.flock(lock, fcntl.LOCK_EX)
        run.regenerate()
        run.build_all(run.ledger)
        run.audit(run.ledger)
    corpus = load_json(os.path.join(VERIF, 'corpus', f'{a.prop}.json'), {})
    for s in STREAMS.get(a.prop, []):
        # corpus of minimised past failures and the witnesses of the listed findings are replayed first
        first = list(corpus.get(s, [])) + [k['witness'] for k in run.known if k['property'] == a.prop and k.get('stream') == s and k.get('witness')]
        run.run_stream(s, a.tier, seed, first=first)
    for k in run.known:
        if k['property'] == a.prop and k['status'] == 'known' and not run.known_hits.get(k['id']):
            run.notes.append(f"finding {k['id']} did not reproduce on this run (witness no longer fails)")
    if run.broken and not run.violations:
        # §5.3: a proof obligation or the tie no longer checks -> search the implementation for a failing input
        # other seeds at this tier's scale first, then the thorough scale; the quick tier stops searching after ~5 minutes
        plan = [('quick', seed + 1), ('quick', seed + 2), ('thorough', seed + 3)] if a.tier == 'quick' else [('thorough', seed + k) for k in (1, 2, 3)]
        budget = 300 if a.tier == 'quick' else 3600
        t_search = time.time()
        for scale, extra in plan:
            if time.time() - t_search > budget:
                run.notes.append(f'failing-input search stopped after {int(time.time() - t_search)} s (budget {budget} s)')
                break
            run.search_seeds.append(extra)
            for s in STREAMS.get(a.prop, []):
                run.run_stream(s, scale, extra, judge_model=False)
            if run.violations:
                break
    return run.finish()

def replay(prop, path):
    r = json.load(open(path if os.path.isabs(path) else os.path.join(VERIF, path)))
    if r.get('kind') != 'failing-input':
        print(json.dumps(r, indent=1)); return 1
    mod = importlib.import_module('harness.' + r['stream'])
    out, viols = mod.evaluate(r['op'])
    model = common.run_driver([r['op']])[0] if os.path.exists(common.DRIVER) else None
    print('op            :', r['op']); print('implementation:', out); print('model         :', model)
    mine = [m for p, m in viols if p == prop]
    print('violates      :', mine)
    if mine:
        print(f'VIOLATION property={prop} replay={path}')
    return 1 if mine else 0

if __name__ == '__main__':
    sys.exit(main())
