"""Streams `parse`, `compute`: header / stack parsers (C07, C08, C14), CoAP semantic view (C19), compute functions (C09)."""
import struct
from . import spec, packets, rulegen
from .codec import *
from .common import guarded

CONFIGS = ['IPv6-UDP-CoAP', 'IPv4-UDP-CoAP', 'IPv4', 'IPv6', 'UDP', 'CoAP', 'SCTP']
CLASSES = {'IPv4Parser': 'microschc.protocol.ipv4', 'IPv6Parser': 'microschc.protocol.ipv6', 'UDPParser': 'microschc.protocol.udp',
           'CoAPParser': 'microschc.protocol.coap', 'SCTPParser': 'microschc.protocol.sctp'}

def split_meta(line):
    if ' # ' in line:
        a, b = line.split(' # ', 1); return a, b.split()
    return line, []

def model_line(line): return split_meta(line)[0]

def mk_parser(cls, predict, mode):
    import importlib
    from microschc.protocol.coap import CoAPOptionMode
    C = getattr(importlib.import_module(CLASSES[cls]), cls)
    if cls == 'CoAPParser':
        return C(predict_next=predict, interpret_options=CoAPOptionMode.SEMANTIC if mode == 'sem' else CoAPOptionMode.SYNTACTIC)
    return C(predict_next=predict)

def impl(line):
    body, _ = split_meta(line)
    t = body.split(); stream, op = t[0], t[1]
    def run():
        from microschc.protocol.registry import factory
        if stream == 'parse' and op == 'stack':
            pid = unesc(t[2]); b = mk_buf(t[3])
            before = show_buf(b)
            p = factory(pid).parse(b)
            assert show_buf(b) == before, 'input buffer modified'
            return f'{show_fields(p.fields)} / {show_buf(p.payload)}'
        if stream == 'parse' and op == 'header':
            cls, pr, mode, b = t[2], t[3] == '1', t[4], mk_buf(t[5])
            h = mk_parser(cls, pr, mode).parse(b)
            return f'{h.length} {show_fields(h.fields)}'
        if stream == 'parse' and op == 'unparse':
            b = mk_buf(t[2]); p = mk_parser('CoAPParser', False, 'sem')
            h = p.parse(b)
            return show_pairs(p.unparse([(f.id, f.value) for f in h.fields]))
        if stream == 'parse' and op == 'unparseraw':
            n = int(t[2]); fs = [(unesc(t[3 + 2 * i]), mk_buf(t[4 + 2 * i])) for i in range(n)]
            return show_pairs(mk_parser('CoAPParser', False, 'sem').unparse(fs))
        if stream == 'compute' and op == 'call':
            from microschc.protocol import ComputeFunctions
            fid = unesc(t[2]); pos = int(t[3]); n = int(t[4])
            fs = [(unesc(t[5 + 2 * i]), mk_buf(t[6 + 2 * i])) for i in range(n)]
            return show_buf(ComputeFunctions[fid][0](fs, pos))
        raise ValueError('bad op')
    # "did not terminate" is a wall-clock verdict: the budget grows with the input (the walks re-slice what is left at every
    # step, quadratic in the packet size: ~1 s for 5 KB on an idle core) so that long inputs on a busy machine are not hangs
    k, v = guarded(run, 3.0 + len(line) / 1500.0)
    return v if k == 'ok' else 'err:' + v

def parse_fields(s):
    out = []
    for tok in s.split():
        i, p, b = tok.split('|')
        out.append((unesc(i), int(p), b))
    return out

def oracle(line, out):
    body, meta = split_meta(line)
    t = body.split(); stream, op = t[0], t[1]
    v = []
    err = out[4:] if out.startswith('err:') else None
    if stream == 'parse' and op in ('stack', 'header'):
        inp = t[3] if op == 'stack' else t[5]
        semantic = op == 'header' and t[4] == 'sem'
        # C14: terminate, and reject only with ParserError
        if err and err != 'ParserError':
            v.append(('C14', f'parser raised {err}' if err != 'hang' else 'parser did not terminate'))
        if not err and not semantic:
            # C07: fields (+ payload) tile the input; header length = total field length
            if op == 'stack':
                fs, pl = out.split(' / ')
                fields = parse_fields(fs); got = ''.join(b[2:] for _, _, b in fields) + pl[2:]
                if got != inp[2:]: v.append(('C07', 'fields + payload differ from the input buffer'))
            else:
                hl, _, fs = out.partition(' ')
                fields = parse_fields(fs); tot = ''.join(b[2:] for _, _, b in fields)
                if int(hl) != len(tot): v.append(('C07', f'header length {hl} != total field length {len(tot)}'))
                if tot != inp[2:][:int(hl)] or int(hl) > len(inp) - 2: v.append(('C07', 'fields differ from the first header-length bits of the input'))
        if 'wf' in meta:
            # C08: exactly the field list the RFC layout prescribes
            exp = EXPECT.get(line)
            if exp is not None:
                if err: v.append(('C08', f'well-formed packet rejected with {err}'))
                else:
                    fs = out.split(' / ')[0] if op == 'stack' else out.partition(' ')[2]
                    got = [(i, p, b[2:]) for i, p, b in parse_fields(fs)]
                    if got != exp:
                        k = next((j for j, (a, b) in enumerate(zip(got, exp)) if a != b), min(len(got), len(exp)))
                        v.append(('C08', f'field #{k}: got {got[k] if k < len(got) else None}, RFC layout says {exp[k] if k < len(exp) else None}'))
    elif stream == 'parse' and op == 'unparse':
        exp = EXPECT.get(line)
        if exp is not None:
            if err: v.append(('C19', f'semantic parse/unparse raised {err}'))
            else:
                got = [(unesc(x.split('|')[0]), x.split('|')[1][2:]) for x in out.split()]
                want = [(i, b) for i, _, b in exp]
                if got != want:
                    k = next((j for j, (a, b) in enumerate(zip(got, want)) if a != b), min(len(got), len(want)))
                    v.append(('C19', f'field #{k}: unparse gives {got[k] if k < len(got) else None}, syntactic view has {want[k] if k < len(want) else None}'))
    elif stream == 'compute':
        exp = EXPECT.get(line)
        if exp is not None and (err or out[2:] != exp):
            v.append(('C09', f'{unesc(t[2])} computed as {out}, RFC value is {exp}'))
    return v

EXPECT = {}   # line -> expected value, filled by the generator in the same process (workers are forked after gen)

def evaluate(line):
    out = impl(line)
    return out, oracle(line, out)

def nontrivial(line): return len(line) > 60
def branch(line, out):
    t = line.split()
    b = f'{t[0]}:{t[1]}:{t[2] if t[1] != "unparse" else ""}'
    if out.startswith('err:'): b += ':' + out[4:]
    return b

# ------------------------------------------------------------------------------------------------ generators

def lbits(data): return 'L:' + packets.bits_of(data)

def table_values(name):
    """the next-protocol numbers the library declares (read from /repo at run time, so that new entries get exercised)"""
    try:
        import importlib
        mod, attr = name
        return [int(x) for x in getattr(importlib.import_module(mod), attr)]
    except Exception:
        return []

def gen_wellformed(rng, config):
    """(bytes, expected fields) for a parser configuration"""
    if config in ('IPv6-UDP-CoAP', 'IPv4-UDP-CoAP', 'CoAP', 'SCTP'):
        d, e, _ = packets.gen_stack_packet(rng, config, correct=rng.random() < 0.7); return d, e
    if config == 'UDP':   # predictive: chains to CoAP on port 5683, to SCTP on 132
        kind = rng.choice(['coap', 'sctp', 'other'])
        if kind == 'coap': pd, pe, _ = packets.gen_coap(rng); port = 5683
        elif kind == 'sctp': pd, pe = packets.build_sctp(rng); port = 132
        else:
            known = {5683, 132}
            extra = [x for x in table_values(('microschc.protocol.udp', 'UDP_SUPPORTED_PAYLOAD_PROTOCOLS')) if x not in known]
            pd, pe, port = bytes(rng.randrange(256) for _ in range(rng.randrange(0, 12))), [], rng.choice([1, 80, 5684, 131] + extra * 3)
        # responses come FROM the well-known port: the source port must play no part in the prediction
        sport = rng.choice([None, None, 5683, 132] + [x for x in table_values(('microschc.protocol.udp', 'UDP_SUPPORTED_PAYLOAD_PROTOCOLS'))])
        h, e = packets.build_udp(rng, pd, dport=port, correct=False, sport=sport)
        return h + pd, e + pe
    v6 = config == 'IPv6'
    kind = rng.choice(['udp-coap', 'udp-other', 'sctp', 'other'])
    if kind == 'sctp':
        pd, pe = packets.build_sctp(rng); proto = 132
    elif kind == 'other':
        extra = [x for x in table_values(('microschc.protocol.ipv6' if v6 else 'microschc.protocol.ipv4', 'IPV6_SUPPORTED_PAYLOAD_PROTOCOLS' if v6 else 'IPV4_SUPPORTED_PAYLOAD_PROTOCOLS')) if x not in (17, 132) and x < 256]
        pd, pe, proto = bytes(rng.randrange(256) for _ in range(rng.randrange(0, 30))), [], rng.choice([6, 1, 58, 0, 255] + extra * 3)
    else:
        if kind == 'udp-coap': cd, ce, _ = packets.gen_coap(rng); port = 5683
        else: cd, ce, port = bytes(rng.randrange(256) for _ in range(rng.randrange(0, 12))), [], rng.choice([1, 80, 5684])
        uh, ue = packets.build_udp(rng, cd, dport=port, correct=False, sport=rng.choice([None, None, 5683, 132]))
        pd, pe, proto = uh + cd, ue + ce, 17
    ih, ie, _, _ = (packets.build_ipv6 if v6 else packets.build_ipv4)(rng, pd, proto, rng.random() < 0.5)
    return ih + pd, ie + pe

def malformed(rng, data):
    """truncations, bit flips, zero / huge length fields, random bytes, non byte-aligned lengths"""
    k = rng.choice(['trunc', 'trunc', 'flip', 'flip3', 'zero16', 'ff16', 'rand', 'bits', 'zerobyte', 'same'])
    b = bytearray(data)
    if k == 'trunc': return bytes(b[:rng.randrange(0, len(b) + 1)]), None
    if k == 'flip' and b: b[rng.randrange(len(b))] ^= 1 << rng.randrange(8)
    elif k == 'flip3' and b:
        for _ in range(3): b[rng.randrange(len(b))] ^= 1 << rng.randrange(8)
    elif k == 'zero16' and len(b) > 2: i = rng.randrange(len(b) - 1); b[i:i + 2] = b'\x00\x00'
    elif k == 'ff16' and len(b) > 2: i = rng.randrange(len(b) - 1); b[i:i + 2] = b'\xff\xff'
    elif k == 'zerobyte' and b: b[rng.randrange(len(b))] = rng.choice([0, 1, 2, 3, 0xd0, 0xe0, 0x0d, 0x0e, 0xdd, 0xee, 0xff, 0xf0])
    elif k == 'rand': return bytes(rng.randrange(256) for _ in range(rng.randrange(0, 80))), None
    elif k == 'bits': return bytes(b), rng.randrange(0, 8 * len(b) + 1)
    return bytes(b), None

def gen(props, tier, rng):
    props = set(props); q = tier == 'quick'
    if props & {'C07', 'C08', 'C14'}:
        N = 60 if q else 600
        for cfg in CONFIGS:
            for _ in range(N):
                data, exp = gen_wellformed(rng, cfg)
                line = f'parse stack {esc(cfg)} {lbits(data)} # wf'
                EXPECT[line] = exp; yield line
                if props & {'C07', 'C14'}:
                    for _ in range(6 if q else 10):
                        m, nb = malformed(rng, data)
                        bits = packets.bits_of(m) if nb is None else packets.bits_of(m)[:nb]
                        yield f'parse stack {esc(cfg)} L:{bits}'
                    # the same bytes in a RIGHT-padded Buffer, cut at a bit that is not a byte boundary: what is left after the
                    # headers keeps its side
                    full = packets.bits_of(data)
                    for cut in (len(full), max(0, len(full) - rng.randrange(1, 8)), max(0, len(full) - rng.randrange(9, 40))):
                        yield f'parse stack {esc(cfg)} R:{full[:cut]}'
        # header parsers directly (header length is observable), every class, with and without prediction
        for cls, cfg in [('IPv6Parser', 'IPv6'), ('IPv4Parser', 'IPv4'), ('UDPParser', 'UDP'), ('CoAPParser', 'CoAP'), ('SCTPParser', 'SCTP')]:
            for _ in range(N):
                data, exp = gen_wellformed(rng, cfg)
                for pr in (0, 1):
                    line = f'parse header {cls} {pr} syn {lbits(data)} # ' + ('wf' if pr == 1 else '')
                    if pr == 1: EXPECT[line] = exp
                    yield line
                    if props & {'C07', 'C14'}:
                        for _ in range(3 if q else 6):
                            m, nb = malformed(rng, data)
                            bits = packets.bits_of(m) if nb is None else packets.bits_of(m)[:nb]
                            yield f'parse header {cls} {pr} syn L:{bits}'
        if 'C14' in props:
            # every truncation point of a few packets, exhaustive small byte strings for CoAP / SCTP after a fixed prefix
            for cfg in CONFIGS:
                data, _ = gen_wellformed(rng, cfg)
                for n in range(len(data) + 1):
                    yield f'parse stack {esc(cfg)} {lbits(data[:n])}'
            sctp_hdr = bytes(12); coap_hdr = bytes.fromhex('40011234')
            for a in range(256):
                for tail in (b'', b'\x00', b'\x00\x00\x00', b'\x00\x04', b'\x00\x00\x04\x00\x00\x00'):
                    yield f'parse header SCTPParser 0 syn {lbits(sctp_hdr + bytes([a]) + tail)}'
                    yield f'parse header CoAPParser 0 syn {lbits(coap_hdr + bytes([a]) + tail)}'
                    yield f'parse header CoAPParser 0 sem {lbits(coap_hdr + bytes([a]) + tail)}'
            for _ in range(300 if q else 3000):
                data, _ = gen_wellformed(rng, 'CoAP'); m, nb = malformed(rng, data)
                yield f'parse header CoAPParser 0 sem L:{packets.bits_of(m)}'
            # length fields that disagree with the bytes that are there: every small / huge announced UDP, IPv6-payload and
            # IPv4-total length, in front of every next-layer choice the library's tables offer, cut at and around header ends
            ports = sorted(set(table_values(('microschc.protocol.udp', 'UDP_SUPPORTED_PAYLOAD_PROTOCOLS')))) + [4242]
            tails = (b'', b'\x00', bytes.fromhex('40011234'), bytes(12), bytes.fromhex('40011234b161ff61'))
            lens = list(range(0, 10)) + [12, 16, 0xffff]
            for dst in ports:
                for L in lens:
                    for tail in tails:
                        udp = bytes([rng.randrange(256), rng.randrange(256)]) + dst.to_bytes(2, 'big') + L.to_bytes(2, 'big') + bytes(2) + tail
                        yield f'parse stack UDP {lbits(udp)}'
                        yield f'parse header UDPParser 1 syn {lbits(udp)}'
                        for L2 in (len(udp), L):
                            v6 = bytes([0x60, 0, 0, 0]) + (L2 & 0xffff).to_bytes(2, 'big') + bytes([17, 64]) + bytes(32) + udp
                            v4 = bytes([0x45, 0]) + ((20 + L2) & 0xffff).to_bytes(2, 'big') + bytes([0, 0, 0, 0, 64, 17, 0, 0]) + bytes(8) + udp
                            yield f'parse stack IPv6 {lbits(v6)}'
                            yield f'parse stack IPv4 {lbits(v4)}'
            # SCTP: announced chunk and parameter lengths at and around every boundary, for every chunk type, in front of
            # short and long remainders
            sctp_common = bytes(12)
            edge = [0, 1, 3, 4, 5, 7, 8, 16, 20, 0xfffb, 0xfffc, 0xfffd, 0xfffe, 0xffff]
            for ctype in list(range(0, 16)) + [63, 64, 192, 255]:
                for ln in edge:
                    for body in (b'', bytes(4), bytes(16), bytes(40)):
                        yield f'parse header SCTPParser 0 syn {lbits(sctp_common + bytes([ctype, 0]) + ln.to_bytes(2, "big") + body)}'
            for ctype, fixed in ((1, 16), (2, 16), (4, 0), (5, 0), (6, 0), (9, 0)):     # chunks that carry parameters
                for pl in edge:
                    for tail in (b'', bytes(4), bytes(12)):
                        params = (7).to_bytes(2, 'big') + pl.to_bytes(2, 'big') + tail
                        clen = 4 + fixed + len(params)
                        chunk = bytes([ctype, 0]) + clen.to_bytes(2, 'big') + bytes(fixed) + params
                        yield f'parse header SCTPParser 0 syn {lbits(sctp_common + chunk)}'
                        yield f'parse stack SCTP {lbits(sctp_common + chunk)}'
            # lists longer than the interpreter's recursion limit: parameters in one chunk, chunks in one packet, gap blocks and
            # duplicate TSNs in one SACK, options in one CoAP message (a walk written recursively dies there)
            import sys
            many = sys.getrecursionlimit() + 200
            for ctype, fixed in ((1, 16), (2, 16), (4, 0), (5, 0), (6, 0), (9, 0)):
                params = (bytes([0, 7, 0, 4]) if ctype not in (6, 9) else bytes([0, 1, 0, 4])) * many
                chunk = bytes([ctype, 0]) + (4 + fixed + len(params)).to_bytes(2, 'big') + bytes(fixed) + params
                yield f'parse header SCTPParser 0 syn {lbits(sctp_common + chunk)}'
            yield f'parse stack SCTP {lbits(sctp_common + bytes([14, 0, 0, 4]) * many)}'
            for ngap, ndup in ((many, 0), (0, many)):
                sack = bytes(8) + ngap.to_bytes(2, 'big') + ndup.to_bytes(2, 'big') + bytes(4) * ngap + bytes(4) * ndup
                yield f'parse header SCTPParser 0 syn {lbits(sctp_common + bytes([3, 0]) + (4 + len(sack)).to_bytes(2, "big") + sack)}'
            for mode in ('syn', 'sem'):
                yield f'parse header CoAPParser 0 {mode} {lbits(bytes([0x40, 1, 0, 1]) + bytes([0x10]) * many)}'
                yield f'parse header CoAPParser 0 {mode} {lbits(bytes([0x40, 1, 0, 1]) + bytes([0x01, 0x61]) * many + bytes([0xff, 1]))}'
            # a header type that is its own next protocol (tunnels): nesting deeper than the interpreter's recursion limit
            depth = sys.getrecursionlimit() + 200
            for cfg, mod, attr, own, v6 in (('IPv4', 'microschc.protocol.ipv4', 'IPV4_SUPPORTED_PAYLOAD_PROTOCOLS', (4,), False),
                                            ('IPv6', 'microschc.protocol.ipv6', 'IPV6_SUPPORTED_PAYLOAD_PROTOCOLS', (41,), True)):
                for proto in [x for x in table_values((mod, attr)) if x in own or x in (4, 41)]:
                    if v6: one = bytes([0x60, 0, 0, 0, 0, 0, proto, 64]) + bytes(32)
                    else: one = bytes([0x45, 0, 0, 20, 0, 0, 0, 0, 64, proto, 0, 0]) + bytes(8)
                    yield f'parse stack {esc(cfg)} {lbits(one * depth)}'
    if 'C19' in props:
        N = 400 if q else 4000
        for i in range(N):
            style = ['small', 'mixed', 'boundary', 'big', 'repeat', 'none'][i % 6]
            # semantic ids: option numbers known and unknown; deltas of every class; zero-length values
            data, exp, _ = packets.gen_coap(rng, style=style)
            line = f'parse unparse {lbits(data)} # wf'
            EXPECT[line] = exp; yield line
    if 'C19' in props:
        # the un-parser on field lists no parse produced: fixed ids, named options in any order, unknown-option ids, ids it
        # does not know (UnparserError — or UnboundLocalError when no option came before: the `finally` clause runs first)
        names = ['CoAP:Version', 'CoAP:Token', 'CoAP:Payload Marker', 'CoAP:Option Uri-Path', 'CoAP:Option Uri-Host', 'CoAP:Option Size1',
                 'CoAP:Option Max-Age', 'CoAPFields.OPTION_UNKNOWN(6)', 'CoAPFields.OPTION_UNKNOWN(300)', 'CoAPFields.OPTION_UNKNOWN(70000)',
                 'CoAPFields.OPTION_UNKNOWN()', 'CoAP:Option Nonsense', 'UDP:Length', 'x']
        for _ in range(150 if q else 1500):
            k = rng.randrange(0, 6)
            fs = [(rng.choice(names), abuf(''.join(rng.choice('01') for _ in range(8 * rng.choice([0, 0, 1, 2, 13, 14, 269]))))) for _ in range(k)]
            yield f"parse unparseraw {len(fs)} " + ' '.join(f'{esc(i)} {v}' for i, v in fs)
    if 'C09' in props:
        yield from gen_compute(rng, q)

def field_list(exp, payload_bits):
    return [(i, b) for i, _, b in exp] + [('Payload', payload_bits)]

def gen_compute(rng, q):
    """each compute function on parsed packets (+Payload), against the RFC reference; constructed wrap-around / 0x0000 / 0xFFFF cases"""
    N = 120 if q else 1200
    def emit(fid, exp, payload_bits, want):
        fl = field_list(exp, payload_bits)
        pos = next(k for k, (i, _) in enumerate(fl) if i == fid)
        fl[pos] = (fid, '0' * len(fl[pos][1]))     # the decompressor's placeholder: zeros of the declared length
        line = f"compute call {esc(fid)} {pos} {len(fl)} " + ' '.join(f'{esc(i)} {abuf(b)}' for i, b in fl)
        EXPECT[line] = want
        return line
    for n in range(N):
        v6 = n % 2 == 0
        style = rng.choice(['empty', 'odd', 'even', 'ones', 'wrap', 'rand'])
        L = {'empty': 0, 'odd': rng.choice([1, 3, 5, 17]), 'even': rng.choice([2, 4, 16])}.get(style, rng.randrange(0, 40))
        pl = bytes([0xff] * L) if style in ('ones', 'wrap') else bytes(rng.randrange(256) for _ in range(L))
        if v6: ih, ie, src, dst = packets.build_ipv6(rng, bytes(8) + pl, 17, True)
        else: ih, ie, src, dst = packets.build_ipv4(rng, bytes(8) + pl, 17, True)
        uh, ue = packets.build_udp(rng, pl, src, dst, v6=v6, dport=rng.choice([1000, 2000]), correct=True)
        exp = ie + ue; plb = packets.bits_of(pl)
        fd = dict((i, b) for i, _, b in exp)
        yield emit('UDP:Checksum', exp, plb, fd['UDP:Checksum'])
        yield emit('UDP:Length', exp, plb, fd['UDP:Length'])
        if v6: yield emit('IPv6:Payload Length', exp, plb, fd['IPv6:Payload Length'])
        else:
            yield emit('IPv4:Total Length', exp, plb, fd['IPv4:Total Length'])
            yield emit('IPv4:Header Checksum', exp, plb, fd['IPv4:Header Checksum'])
    # constructed: UDP checksum that comes out as 0x0000 (sent as 0xFFFF) and as 0xFFFF; IPv4 header checksum 0x0000 / 0xFFFF
    for n in range(40 if q else 300):
        v6 = n % 2 == 0
        pl = bytearray(rng.randrange(256) for _ in range(rng.choice([2, 4, 6, 7])))
        if v6: ih, ie, src, dst = packets.build_ipv6(rng, bytes(8) + pl, 17, True)
        else: ih, ie, src, dst = packets.build_ipv4(rng, bytes(8) + pl, 17, True)
        sport, dport = rng.randrange(65536), 1234
        target = rng.choice([0xffff, 0x0000, 0x0001, 0xfffe])
        # choose the first payload word so that the one's complement sum becomes `target`
        pl[0:2] = b'\x00\x00'
        udp0 = struct.pack('!HHHH', sport, dport, 8 + len(pl), 0) + bytes(pl)
        ph = (src + dst + struct.pack('!I', len(udp0)) + b'\x00\x00\x00\x11') if v6 else (src + dst + b'\x00\x11' + struct.pack('!H', len(udp0)))
        s = packets.inet_sum(ph + udp0)
        need = (target - s) % 0xffff
        pl[0:2] = struct.pack('!H', need if need or s else 0)
        uh, ue = packets.build_udp(rng, bytes(pl), src, dst, v6=v6, dport=dport, correct=True, sport=sport)
        exp = ie + ue
        fd = dict((i, b) for i, _, b in exp)
        yield emit('UDP:Checksum', exp, packets.bits_of(bytes(pl)), fd['UDP:Checksum'])
    for n in range(40 if q else 300):
        pl = bytes(rng.randrange(256) for _ in range(rng.randrange(0, 12)))
        target = rng.choice([0xffff, 0x0000, 0xfffe, 0x0001])
        ih, ie, src, dst = packets.build_ipv4(rng, pl, 17, True, ident=0)
        s = packets.inet_sum(ih[:10] + b'\x00\x00' + ih[12:])
        need = (target - s) % 0xffff
        ih2 = bytearray(ih); ih2[4:6] = struct.pack('!H', need if need or s else 0)
        ih2[10:12] = b'\x00\x00'; ck = packets.inet_checksum(bytes(ih2)); ih2[10:12] = struct.pack('!H', ck)
        exp = packets.cut(packets.IPV4, packets.bits_of(bytes(ih2)))
        yield emit('IPv4:Header Checksum', exp, packets.bits_of(pl), format(ck, '016b'))
    # sums whose single fold carries again: the raw 16-bit word sum S has (S & 0xffff) + (S >> 16) >= 0x10000
    for n in range(40 if q else 400):
        v6 = n % 2 == 0
        pl = bytearray([0xff, 0xfe] * rng.randrange(4, 20) + [rng.randrange(256) for _ in range(rng.choice([0, 1]))])
        sport, dport = rng.randrange(65536), rng.choice([1000, 2000])
        if v6: ih, ie, src, dst = packets.build_ipv6(rng, bytes(8) + pl, 17, True)
        else: ih, ie, src, dst = packets.build_ipv4(rng, bytes(8) + pl, 17, True)
        pl[0:2] = b'\x00\x00'
        udp0 = struct.pack('!HHHH', sport, dport, 8 + len(pl), 0) + bytes(pl)
        words = udp0 + (b'\x00' if len(udp0) % 2 else b'')
        S0 = sum(struct.unpack('!%dH' % (len(words) // 2), words))
        w = (0xffff - (S0 & 0xffff) - rng.choice([0, 0, 1, 2])) & 0xffff
        pl[0:2] = struct.pack('!H', w)
        uh, ue = packets.build_udp(rng, bytes(pl), src, dst, v6=v6, dport=dport, correct=True, sport=sport)
        exp = ie + ue
        fd = dict((i, b) for i, _, b in exp)
        yield emit('UDP:Checksum', exp, packets.bits_of(bytes(pl)), fd['UDP:Checksum'])
    for n in range(N // 2):
        data, exp = packets.build_sctp(rng, correct=True)
        fd = dict((i, b) for i, _, b in exp[:4])
        yield emit('SCTP:Checksum', exp, '', fd['SCTP:Checksum'])
