"""Python reference oracles on plain bit strings ('0'/'1' str), written from the property texts and the
RFCs, independent of the library. They judge the implementation during the failing-input search;
the Lean `Schc.Spec` layer states the same things for the theorems."""

def bits_of_bytes(bs):
    return ''.join(f'{b:08b}' for b in bs)

def ctor_bits(content: bytes, length: int, side: str) -> str:
    """bits denoted by Buffer(content, length, side): the zero-extended content's last (L) / first (R) bits"""
    s = bits_of_bytes(content)
    if side == 'L':
        s = '0' * max(0, length - len(s)) + s
        return s[len(s) - length:]
    s = s + '0' * max(0, length - len(s))
    return s[:length]

def canonical_content(bits: str, side: str) -> bytes:
    n = len(bits)
    if n == 0:
        return b''
    pl = (8 - n % 8) % 8
    v = int(bits, 2)
    if side == 'R':
        v <<= pl
    return v.to_bytes((n + 7) // 8, 'big')

def pad_len(n):
    return (8 - n % 8) % 8

def py_slice(bits, start, stop):
    return bits[slice(start, stop)]

def shift(bits, s):
    if s < 0:
        return bits + '0' * (-s)
    return bits[:max(0, len(bits) - s)]

def bitwise(op, a, b):
    f = {'and': lambda x, y: x & y, 'or': lambda x, y: x | y, 'xor': lambda x, y: x ^ y}[op]
    return ''.join(str(f(int(x), int(y))) for x, y in zip(a, b))

def invert(a):
    return ''.join('1' if x == '0' else '0' for x in a)

def value(a):
    return int(a, 2) if a else 0

def chunks(bits, n, pad):
    """consecutive n-bit pieces; the empty sequence gives one piece (empty / n zeros), as the library does"""
    out = [bits[i:i + n] for i in range(0, len(bits), n)] or ['']
    if pad and len(out[-1]) < n:
        out[-1] = out[-1] + '0' * (n - len(out[-1]))
    return out

# =====================================================================================================
# RFC 8724 reference on plain structures (dict fields / rules as produced by harness.codec.p_*)
# =====================================================================================================

def enc_len(n):
    """RFC 8724 §7.4.2 size prefix"""
    assert 0 <= n < 65536
    if n < 15: return format(n, '04b')
    if n < 255: return '1111' + format(n, '08b')
    return '1' * 12 + format(n, '016b')

def dec_len(s):
    """(size, prefix width) read at the start of s; missing bits read as the shorter number the library reads"""
    a = int(s[0:4] or '0', 2)
    if a < 15: return a, 4
    b = int(s[4:12] or '0', 2)
    if b < 255: return b, 12
    return int(s[12:28] or '0', 2), 28

def tvb(tok): return tok[2:]

def dir_applies(pdir, d): return d == pdir or d == 'B'

def field_matches(pf, rf):
    """matching operators of RFC 8724 §7.3 as the property states them"""
    v = tvb(pf['value'])
    if pf['id'] != rf['id']: return False
    mo = rf['mo']
    if mo == 'ig': return True
    if mo == 'eq': return rf['tv'][0] == 'b' and v == tvb(rf['tv'][1])
    if mo == 'msb':
        pat = tvb(rf['tv'][1])
        if rf['len'] != 0 and rf['len'] != len(v): return False
        return len(pat) <= len(v) and v[:len(pat)] == pat
    if mo == 'mm':
        return any(tvb(val) == v for val, _ in rf['tv'][1])
    raise ValueError(mo)

def applicable(packet, rule):
    if rule['nature'] == 'n': return True
    rfs = [f for f in rule['fields'] if dir_applies(packet['dir'], f['dir'])]
    return len(rfs) == len(packet['fields']) and all(field_matches(pf, rf) for pf, rf in zip(packet['fields'], rfs))

def residue(pf, rf):
    """RFC 8724 §7.4 residue of one field (with its size prefix when FL = 0)"""
    v = tvb(pf['value']); cda = rf['cda']
    if cda in ('ns', 'co'): return ''
    if cda == 'vs': r = v
    elif cda == 'lsb': r = v[len(tvb(rf['tv'][1])):]
    elif cda == 'ms':
        r = next(tvb(i) for val, i in rf['tv'][1] if tvb(val) == v)
        return r
    if rf['len'] == 0: return enc_len(len(r)) + r
    return r

def ref_compress(packet, rule, descriptors=None):
    """rule ID, one residue per rule field in rule order, payload (RFC 8724 §7.2 figure 7)"""
    out = tvb(rule['id'])
    if rule['nature'] == 'n':
        return out + ''.join(tvb(f['value']) for f in packet['fields']) + tvb(packet['payload'])
    rfs = rule['fields'] if descriptors is None else descriptors
    for pf, rf in zip(packet['fields'], rfs):
        out += residue(pf, rf)
    return out + tvb(packet['payload'])

def ref_decompress_fields(bits, rule):
    """[(id, bits)] + payload, compute fields as None placeholders"""
    s = bits[len(tvb(rule['id'])):]
    out = []
    for rf in rule['fields']:
        cda = rf['cda']
        if cda == 'ns': v = tvb(rf['tv'][1])
        elif cda == 'co': v = None
        elif cda in ('vs', 'lsb'):
            pre = tvb(rf['tv'][1]) if cda == 'lsb' else ''
            if rf['len'] != 0:
                k = rf['len'] - len(pre); v = pre + s[:k]; s = s[k:]
            else:
                k, p = dec_len(s); v = pre + s[p:p + k]; s = s[p + k:]
        elif cda == 'ms':
            hits = [(val, i) for val, i in rf['tv'][1] if len(tvb(i)) <= len(s) and s.startswith(tvb(i))]
            if hits:
                v = tvb(hits[0][0]); s = s[len(tvb(hits[0][1])):]
            else:
                v = ''
        out.append([rf['id'], v, rf['len']])
    out.append(['Payload', s, 0])
    return out

# =====================================================================================================
# Reference regeneration of computed fields, by field ids, from the RFCs (independent of the library's
# position arithmetic). `fields` = [[id, bits or None, declared length]] ending with ['Payload', bits, 0].
# =====================================================================================================

def _bytes_of_bits(b):
    b = b + '0' * ((8 - len(b) % 8) % 8)
    return int(b, 2).to_bytes(len(b) // 8, 'big') if b else b''

def ref_compute(fields):
    from . import packets
    fs = [list(f) for f in fields]
    ids = [f[0] for f in fs]
    def val(i): return fs[i][1] if fs[i][1] is not None else '0' * fs[i][2]
    def tail_bits(i): return ''.join(val(j) for j in range(i, len(fs)))
    def nbytes(bits): return (len(bits) + 7) // 8
    def first(name):
        return ids.index(name) if name in ids else None
    def todo(name):
        i = first(name)
        return i if i is not None and fs[i][1] is None else None
    # lengths first
    i = todo('IPv6:Payload Length')
    if i is not None:
        j = first('IPv6:Destination Address')
        fs[i][1] = format(nbytes(tail_bits(j + 1)) & 0xffff, '016b')
    i = todo('IPv4:Total Length')
    if i is not None:
        fs[i][1] = format(nbytes(tail_bits(first('IPv4:Version'))) & 0xffff, '016b')
    i = todo('UDP:Length')
    if i is not None:
        fs[i][1] = format(nbytes(tail_bits(first('UDP:Source Port'))) & 0xffff, '016b')
    i = todo('IPv4:Header Checksum')
    if i is not None:
        j = first('IPv4:Version')
        hdr = ''.join(val(k) for k in range(j, j + 12))
        fs[i][1] = format(packets.inet_checksum(_bytes_of_bits(hdr)), '016b')
    i = todo('UDP:Checksum')
    if i is not None:
        j = first('UDP:Source Port')
        udp = _bytes_of_bits(tail_bits(j))
        if 'IPv6:Source Address' in ids:
            src = _bytes_of_bits(val(first('IPv6:Source Address'))); dst = _bytes_of_bits(val(first('IPv6:Destination Address')))
            fs[i][1] = format(packets.udp_checksum_v6(src, dst, udp), '016b')
        else:
            src = _bytes_of_bits(val(first('IPv4:Source Address'))); dst = _bytes_of_bits(val(first('IPv4:Destination Address')))
            fs[i][1] = format(packets.udp_checksum_v4(src, dst, udp), '016b')
    i = todo('SCTP:Checksum')
    if i is not None:
        j = first('SCTP:Source Port')
        pkt = _bytes_of_bits(tail_bits(j))
        fs[i][1] = packets.bits_of(packets.sctp_checksum(pkt))
    return fs

def ref_decompress(bits, rule):
    fs = ref_decompress_fields(bits, rule)
    if any(f[1] is None for f in fs):
        fs = ref_compute(fs)
    return ''.join(f[1] for f in fs)

def compute_position_ok(rule_fields, k):
    """is the k-th descriptor a computable field sitting in its protocol's layout (all the ids the RFC formula needs present
    at the offsets the library's position arithmetic assumes)?"""
    ids = [f['id'] for f in rule_fields]
    i = ids[k]
    def at(off, name): return 0 <= k + off < len(ids) and ids[k + off] == name
    if i == 'IPv6:Payload Length': return at(-3, 'IPv6:Version') and at(4, 'IPv6:Destination Address')
    if i == 'IPv4:Total Length': return at(-3, 'IPv4:Version')
    if i == 'IPv4:Header Checksum': return at(-9, 'IPv4:Version') and at(2, 'IPv4:Destination Address')
    if i == 'UDP:Length': return at(-2, 'UDP:Source Port')
    if i == 'UDP:Checksum':
        return at(-3, 'UDP:Source Port') and k >= 4 and (ids[k - 4] in ('IPv6:Destination Address', 'IPv4:Destination Address')) and ids[k - 5].endswith('Source Address')
    if i == 'SCTP:Checksum': return at(-3, 'SCTP:Source Port')
    return False
