"""Python reference oracles on plain bit strings ('0'/'1' str), written from the property texts and the
RFCs, independent of the library. They judge the implementation during the failing-input search;
the Lean `Schc.Spec` layer states the same things for the theorems."""

def bits_of_bytes(bs):
    return ''.join(f'{b:08b}' for b in bs)

def ctor_bits(content: bytes, length: int, side: str) -> str:
    """bits denoted by Buffer(content, length, side): the zero-extended content's last (L) / first (R) bits"""
    s = bits_of_bytes(content)
    if side == 'L':
        s = '0' * max(0, length - len(s)) + s
        return s[len(s) - length:]
    s = s + '0' * max(0, length - len(s))
    return s[:length]

def canonical_content(bits: str, side: str) -> bytes:
    n = len(bits)
    if n == 0:
        return b''
    pl = (8 - n % 8) % 8
    v = int(bits, 2)
    if side == 'R':
        v <<= pl
    return v.to_bytes((n + 7) // 8, 'big')

def pad_len(n):
    return (8 - n % 8) % 8

def py_slice(bits, start, stop):
    return bits[slice(start, stop)]

def shift(bits, s):
    if s < 0:
        return bits + '0' * (-s)
    return bits[:max(0, len(bits) - s)]

def bitwise(op, a, b):
    f = {'and': lambda x, y: x & y, 'or': lambda x, y: x | y, 'xor': lambda x, y: x ^ y}[op]
    return ''.join(str(f(int(x), int(y))) for x, y in zip(a, b))

def invert(a):
    return ''.join('1' if x == '0' else '0' for x in a)

def value(a):
    return int(a, 2) if a else 0

def chunks(bits, n, pad):
    """consecutive n-bit pieces; the empty sequence gives one piece (empty / n zeros), as the library does"""
    out = [bits[i:i + n] for i in range(0, len(bits), n)] or ['']
    if pad and len(out[-1]) < n:
        out[-1] = out[-1] + '0' * (n - len(out[-1]))
    return out
