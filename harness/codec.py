"""Token codec between the line protocol and microschc objects (ABUF := L:bits | R:bits)."""
from . import spec

def esc(s): return str(s).replace(' ', '~')
def unesc(s): return s.replace('~', ' ')

def sid(x):
    """the plain string of a field id (str-Enum member or str)"""
    return x.value if hasattr(x, 'value') and isinstance(x.value, str) else str(x)

def abuf(bits, side='L'): return f'{side}:{bits}'
def abuf_bits(tok): return tok[2:]
def abuf_side(tok): return tok[0]

def mk_buf(tok):
    from microschc.binary.buffer import Buffer, Padding
    side, bits = tok[0], tok[2:]
    return Buffer(content=spec.canonical_content(bits, side), length=len(bits), padding=Padding.LEFT if side == 'L' else Padding.RIGHT)

def show_buf(b):
    from microschc.binary.buffer import Padding
    side = 'L' if b.padding is Padding.LEFT else 'R' if b.padding is Padding.RIGHT else '?'
    return f"{side}:{''.join(str(x) for x in b)}"

DIRS = {'U': 'Up', 'D': 'Dw', 'B': 'Bi'}
MOS = {'eq': 'equal', 'ig': 'ignore', 'msb': 'MSB', 'mm': 'match-mapping'}
CDAS = {'ns': 'not-sent', 'lsb': 'least-significant-bits', 'ms': 'mapping-sent', 'vs': 'value-sent', 'co': 'compute'}

class Toks:
    def __init__(self, toks): self.t = toks; self.i = 0
    def next(self): x = self.t[self.i]; self.i += 1; return x
    def nat(self): return int(self.next())
    def end(self): assert self.i == len(self.t), 'trailing tokens'

# ---- plain (library independent) structures: used by oracles and generators

def p_field(T): return {'id': unesc(T.next()), 'value': T.next(), 'pos': T.nat()}
def p_packet(T):
    d = T.next(); n = T.nat(); fs = [p_field(T) for _ in range(n)]; pl = T.next(); raw = T.next()
    return {'dir': d, 'fields': fs, 'payload': pl, 'raw': raw}
def p_tv(T):
    k = T.next()
    if k == 'b': return ('b', T.next())
    n = T.nat(); return ('m', [(T.next(), T.next()) for _ in range(n)])
def p_rfield(T):
    return {'id': unesc(T.next()), 'len': T.nat(), 'pos': T.nat(), 'dir': T.next(), 'mo': T.next(), 'cda': T.next(), 'tv': p_tv(T)}
def p_rule(T):
    i = T.next(); nat = T.next(); n = T.nat()
    return {'id': i, 'nature': nat, 'fields': [p_rfield(T) for _ in range(n)]}
def p_rules(T): n = T.nat(); return [p_rule(T) for _ in range(n)]
def p_context(T): return {'id': unesc(T.next()), 'iface': unesc(T.next()), 'parser': unesc(T.next()), 'rules': p_rules(T)}

def e_field(f): return f"{esc(f['id'])} {f['value']} {f['pos']}"
def e_packet(p): return f"{p['dir']} {len(p['fields'])} " + ''.join(e_field(f) + ' ' for f in p['fields']) + f"{p['payload']} {p['raw']}"
def e_tv(tv):
    if tv[0] == 'b': return f'b {tv[1]}'
    return f"m {len(tv[1])}" + ''.join(f' {v} {i}' for v, i in tv[1])
def e_rfield(r): return f"{esc(r['id'])} {r['len']} {r['pos']} {r['dir']} {r['mo']} {r['cda']} {e_tv(r['tv'])}"
def e_rule(r): return f"{r['id']} {r['nature']} {len(r['fields'])}" + ''.join(' ' + e_rfield(f) for f in r['fields'])
def e_rules(rs): return f"{len(rs)}" + ''.join(' ' + e_rule(r) for r in rs)
def e_context(c): return f"{esc(c['id'])} {esc(c['iface'])} {esc(c['parser'])} {e_rules(c['rules'])}"

# ---- real objects

def mk_field(f):
    from microschc.rfc8724 import FieldDescriptor
    return FieldDescriptor(id=f['id'], value=mk_buf(f['value']), position=f['pos'])

def mk_packet(p):
    from microschc.rfc8724 import PacketDescriptor, DirectionIndicator
    return PacketDescriptor(direction=DirectionIndicator(DIRS[p['dir']]), fields=[mk_field(f) for f in p['fields']],
                            payload=mk_buf(p['payload']), raw=mk_buf(p['raw']))

def mk_tv(tv):
    from microschc.rfc8724 import MatchMapping
    if tv[0] == 'b': return mk_buf(tv[1])
    return MatchMapping(forward_mapping={mk_buf(v): mk_buf(i) for v, i in tv[1]})

def mk_rfield(r):
    from microschc.rfc8724 import RuleFieldDescriptor, DirectionIndicator, MatchingOperator, CompressionDecompressionAction
    return RuleFieldDescriptor(id=r['id'], length=r['len'], position=r['pos'], direction=DirectionIndicator(DIRS[r['dir']]),
                               target_value=mk_tv(r['tv']), matching_operator=MatchingOperator(MOS[r['mo']]),
                               compression_decompression_action=CompressionDecompressionAction(CDAS[r['cda']]))

RELOAD = False   # when set, every rule is passed through its own JSON serialisation before use (enum members come back as plain str)

def mk_rule(r):
    from microschc.rfc8724 import RuleDescriptor, RuleNature
    if r['nature'] == 'n' and not r['fields']:
        rd = RuleDescriptor(id=mk_buf(r['id']), nature=RuleNature.NO_COMPRESSION)
    else:
        rd = RuleDescriptor(id=mk_buf(r['id']), nature=RuleNature.COMPRESSION if r['nature'] == 'c' else RuleNature.NO_COMPRESSION,
                            field_descriptors=[mk_rfield(f) for f in r['fields']])
    if RELOAD:
        rd = RuleDescriptor.from_json(rd.json())
    return rd

def mk_context(c):
    from microschc.rfc8724extras import Context
    return Context(id=c['id'], description='', interface_id=c['iface'], parser_id=c['parser'], ruleset=[mk_rule(r) for r in c['rules']])

def show_field(f): return f"{esc(sid(f.id))}|{f.position}|{show_buf(f.value)}"
def show_fields(fs): return ' '.join(show_field(f) for f in fs)
def show_pairs(ps): return ' '.join(f"{esc(sid(k))}|{show_buf(v)}" for k, v in ps)
