"""Shared harness machinery: driver process, parallel execution of the real code, evidence."""
import os, sys, json, subprocess, time, hashlib, random, signal, multiprocessing, collections

VERIF = os.path.normpath(os.path.join(os.path.dirname(os.path.abspath(__file__)), '..'))
REPO = os.environ.get('VERIF_REPO', '/repo')
LEAN = os.path.join(VERIF, 'lean')
DRIVER = os.path.join(LEAN, '.lake', 'build', 'bin', 'driver')

if REPO not in sys.path:
    sys.path.insert(0, REPO)

LIB_ERRORS = ('ParserError', 'UnparserError', 'RuleDescriptorMatchError', 'RuleIDMatchError')

class Hang(Exception):
    pass

_FIRED = False
def _alarm(signum, frame):
    global _FIRED
    _FIRED = True
    raise Hang()

HANGS = 0
HANG_BUDGET = 4

def guarded(f, seconds=5.0):
    """run f() under a watchdog; returns ('ok', value) | ('err', ExceptionClassName) | ('err', 'hang').
    After HANG_BUDGET time-outs in one process further calls are not attempted (reported as 'hang-budget-exhausted'):
    a change that makes the code loop is reported from the first hanging inputs instead of stalling the whole run."""
    global HANGS, _FIRED
    if HANGS >= HANG_BUDGET:
        return ('err', 'hang-budget-exhausted')
    _FIRED = False
    r = _guarded(f, seconds)
    if _FIRED:
        # the watchdog fired: the call did not finish in time, even if the code swallowed the watchdog's exception
        if r != ('err', 'hang'):
            HANGS += 1
        return ('err', 'hang')
    return r

def _guarded(f, seconds):
    global HANGS
    old = signal.signal(signal.SIGALRM, _alarm)
    signal.setitimer(signal.ITIMER_REAL, seconds)
    try:
        return ('ok', f())
    except Hang:
        HANGS += 1
        return ('err', 'hang')
    except RecursionError:
        return ('err', 'RecursionError')
    except BaseException as e:   # noqa — the class name is the observable
        if isinstance(e, (KeyboardInterrupt, SystemExit)):
            raise
        return ('err', type(e).__name__)
    finally:
        signal.setitimer(signal.ITIMER_REAL, 0)
        signal.signal(signal.SIGALRM, old)

def run_driver(lines):
    """pipe op lines through the compiled Lean driver; returns the list of result lines"""
    if not lines:
        return []
    data = ('\n'.join(lines) + '\n').encode()
    p = subprocess.run([DRIVER], input=data, stdout=subprocess.PIPE, stderr=subprocess.PIPE, timeout=3600)
    if p.returncode != 0:
        raise RuntimeError('driver failed: ' + p.stderr.decode()[-2000:])
    out = p.stdout.decode().split('\n')
    if out and out[-1] == '':
        out.pop()
    if len(out) != len(lines):
        raise RuntimeError(f'driver returned {len(out)} lines for {len(lines)} operations')
    return out

_WORKER_FN = None
def _worker_init(modname, fnname):
    global _WORKER_FN
    import importlib
    _WORKER_FN = getattr(importlib.import_module(modname), fnname)

def _worker_run(chunk):
    out = []
    for line in chunk:
        try:
            out.append(_WORKER_FN(line))
        except Exception as e:   # a bug in OUR oracle / codec must never look like a verdict about the code under test
            import traceback
            out.append((f'harness-error:{type(e).__name__}: {e} @ {traceback.extract_tb(e.__traceback__)[-1].name}', []))
    return out

def run_impl(modname, fnname, lines, procs=None):
    """evaluate `modname.fnname(line)` (which runs the real code) on every line, in worker processes"""
    procs = procs or min(16, os.cpu_count() or 1)
    if len(lines) < 2000 or procs == 1:
        _worker_init(modname, fnname)
        return _worker_run(lines)
    n = max(200, min(5000, len(lines) // (procs * 4) + 1))
    chunks = [lines[i:i + n] for i in range(0, len(lines), n)]
    with multiprocessing.get_context('fork').Pool(procs, initializer=_worker_init, initargs=(modname, fnname)) as pool:
        res = pool.map(_worker_run, chunks)
    return [x for r in res for x in r]

class Coverage:
    def __init__(self):
        self.evaluations = 0
        self.distinct = set()
        self.branches = collections.Counter()
        self.samples = []
    def note(self, line, nontrivial, branch=None):
        self.evaluations += 1
        if nontrivial:
            self.distinct.add(hashlib.blake2b(line.encode(), digest_size=8).digest())
        if branch:
            self.branches[branch] += 1
        if len(self.samples) < 6 and nontrivial and (self.evaluations % 997 == 1 or len(self.samples) < 2):
            self.samples.append(line)
