"""Protocol-aware packet builders written from RFC 791 / 8200 / 768 / 7252 / 9260.

Each builder returns (bytes, expected_fields) where expected_fields is the list of
(field id, position, bit string) the RFC layout prescribes — the independent reference for C08 —
and reference implementations of the checksums (RFC 1071, RFC 768, RFC 8200 §8.1, RFC 9260 App. A).
"""
import struct

def bits(v, n): return format(v, f'0{n}b') if n else ''
def bits_of(bs): return ''.join(f'{b:08b}' for b in bs)

# ------------------------------------------------------------------ checksums (independent references)

def inet_sum(data: bytes) -> int:
    """RFC 1071 one's complement sum of 16-bit words, odd length zero-padded; returns the folded sum"""
    if len(data) % 2: data += b'\x00'
    s = sum(struct.unpack('!%dH' % (len(data) // 2), data))
    while s >> 16: s = (s & 0xffff) + (s >> 16)
    return s

def inet_checksum(data: bytes) -> int:
    return (~inet_sum(data)) & 0xffff

def udp_checksum_v6(src: bytes, dst: bytes, udp: bytes) -> int:
    ph = src + dst + struct.pack('!I', len(udp)) + b'\x00\x00\x00\x11'
    c = inet_checksum(ph + udp)
    return c or 0xffff

def udp_checksum_v4(src: bytes, dst: bytes, udp: bytes) -> int:
    ph = src + dst + b'\x00\x11' + struct.pack('!H', len(udp))
    c = inet_checksum(ph + udp)
    return c or 0xffff

def crc32c_bitwise(data: bytes) -> int:
    """CRC-32c (Castagnoli), reflected polynomial 0x82F63B78, bit by bit (RFC 9260 App. A semantics)"""
    crc = 0xffffffff
    for b in data:
        crc ^= b
        for _ in range(8):
            crc = (crc >> 1) ^ (0x82F63B78 if crc & 1 else 0)
    return crc ^ 0xffffffff

def sctp_checksum(packet_with_zero_checksum: bytes) -> bytes:
    """the 4 bytes to store in the checksum field (least significant byte first)"""
    return struct.pack('<I', crc32c_bitwise(packet_with_zero_checksum))

# ------------------------------------------------------------------ IPv6 / IPv4 / UDP

IPV6 = [('IPv6:Version', 4), ('IPv6:Traffic Class', 8), ('IPv6:Flow Label', 20), ('IPv6:Payload Length', 16),
        ('IPv6:Next Header', 8), ('IPv6:Hop Limit', 8), ('IPv6:Source Address', 128), ('IPv6:Destination Address', 128)]
IPV4 = [('IPv4:Version', 4), ('IPv4:Header Length', 4), ('IPv4:Type of Service', 8), ('IPv4:Total Length', 16),
        ('IPv4:Identification', 16), ('IPv4:Flags', 3), ('IPv4:Fragment Offset', 13), ('IPv4:Time To Live', 8),
        ('IPv4:Protocol', 8), ('IPv4:Header Checksum', 16), ('IPv4:Source Address', 32), ('IPv4:Destination Address', 32)]
UDP = [('UDP:Source Port', 16), ('UDP:Destination Port', 16), ('UDP:Length', 16), ('UDP:Checksum', 16)]

def cut(layout, data_bits):
    out = []; i = 0
    for name, w in layout:
        out.append((name, 0, data_bits[i:i + w])); i += w
    return out

def build_ipv6(rng, payload: bytes, next_header=17, correct=True):
    tc, fl, hl = rng.randrange(256), rng.randrange(1 << 20), rng.randrange(256)
    src, dst = bytes(rng.randrange(256) for _ in range(16)), bytes(rng.randrange(256) for _ in range(16))
    plen = len(payload) if correct else rng.randrange(65536)
    w0 = (6 << 28) | (tc << 20) | fl
    hdr = struct.pack('!IHBB', w0, plen & 0xffff, next_header, hl) + src + dst
    return hdr, cut(IPV6, bits_of(hdr)), src, dst

def build_ipv4(rng, payload: bytes, protocol=17, correct=True, ident=None):
    tos, ttl = rng.randrange(256), rng.randrange(256)
    ident = rng.randrange(65536) if ident is None else ident
    flags, frag = rng.randrange(8), rng.randrange(1 << 13)
    src, dst = bytes(rng.randrange(256) for _ in range(4)), bytes(rng.randrange(256) for _ in range(4))
    tl = (20 + len(payload)) if correct else rng.randrange(65536)
    def mk(ck): return struct.pack('!BBHHHBBH', 0x45, tos, tl & 0xffff, ident, (flags << 13) | frag, ttl, protocol, ck) + src + dst
    ck = inet_checksum(mk(0)) if correct else rng.randrange(65536)
    hdr = mk(ck)
    return hdr, cut(IPV4, bits_of(hdr)), src, dst

def build_udp(rng, payload: bytes, src_ip=None, dst_ip=None, v6=True, dport=None, correct=True, sport=None):
    sport = rng.randrange(65536) if sport is None else sport
    dport = rng.choice([5683, rng.randrange(65536)]) if dport is None else dport
    ln = 8 + len(payload) if correct else rng.randrange(65536)
    udp0 = struct.pack('!HHHH', sport, dport, ln & 0xffff, 0)
    if correct and src_ip is not None:
        ck = (udp_checksum_v6 if v6 else udp_checksum_v4)(src_ip, dst_ip, udp0 + payload)
    else:
        ck = rng.randrange(65536)
    hdr = struct.pack('!HHHH', sport, dport, ln & 0xffff, ck)
    return hdr, cut(UDP, bits_of(hdr))

def build_double_carry_udp(rng, v6=True):
    """an IP/UDP packet (no upper layer) whose UDP checksum sum S — all 16-bit words of pseudo header, UDP header and data —
    needs a second fold: (S & 0xffff) + (S >> 16) >= 0x10000. Returns (bytes, expected fields, payload bytes)."""
    while True:
        pl = bytearray([0xff, rng.randrange(0xf0, 0x100)] * rng.randrange(4, 24) + [rng.randrange(256) for _ in range(rng.choice([0, 1]))])
        sport, dport = rng.randrange(65536), rng.choice([1000, 2000, 40000])
        if v6: ih, ie, src, dst = build_ipv6(rng, bytes(8) + pl, 17, True)
        else: ih, ie, src, dst = build_ipv4(rng, bytes(8) + pl, 17, True)
        pl[0:2] = b'\x00\x00'
        udp0 = struct.pack('!HHHH', sport, dport, 8 + len(pl), 0) + bytes(pl)
        ph = (src + dst + struct.pack('!I', len(udp0)) + b'\x00\x00\x00\x11') if v6 else (src + dst + b'\x00\x11' + struct.pack('!H', len(udp0)))
        words = ph + udp0 + (b'\x00' if len(udp0) % 2 else b'')
        S0 = sum(struct.unpack('!%dH' % (len(words) // 2), words))
        base = (0xffff - (S0 & 0xffff)) & 0xffff
        for w in [(base - k) & 0xffff for k in range(0, 64)]:
            T = S0 + w
            if (T & 0xffff) + (T >> 16) >= 0x10000:
                pl[0:2] = struct.pack('!H', w)
                uh, ue = build_udp(rng, bytes(pl), src, dst, v6=v6, dport=dport, correct=True, sport=sport)
                return ih + uh + bytes(pl), ie + ue, bytes(pl)

def build_double_carry_ipv4(rng):
    """an IPv4/UDP packet whose HEADER checksum sum needs a second fold ((S & 0xffff) + (S >> 16) >= 0x10000):
    (bytes, expected fields, payload bytes)"""
    while True:
        pl = bytes(rng.randrange(256) for _ in range(rng.randrange(0, 16)))
        for ident in rng.sample(range(65536), 400):
            ih, ie, src, dst = build_ipv4(rng, bytes(8) + pl, 17, True, ident=ident)
            words = ih[:10] + b'\x00\x00' + ih[12:]
            S = sum(struct.unpack('!10H', words))
            if (S & 0xffff) + (S >> 16) >= 0x10000:
                uh, ue = build_udp(rng, pl, src, dst, v6=False, dport=rng.choice([1000, 2000]), correct=True)
                return ih + uh + pl, ie + ue, pl

def build_zero_checksum_ipv4(rng):
    """an IPv4/UDP packet whose correct HEADER checksum is 0x0000 (the other header words sum to 0xFFFF; RFC 791 has no
    "zero is sent as all ones" rule — that is UDP's): (bytes, expected fields, payload bytes)"""
    pl = bytes(rng.randrange(256) for _ in range(rng.randrange(0, 16)))
    ih, ie, src, dst = build_ipv4(rng, bytes(8) + pl, 17, True, ident=0)
    s0 = inet_sum(ih[:10] + b'\x00\x00' + ih[12:])
    ident = (~s0) & 0xffff
    ih = ih[:4] + struct.pack('!H', ident) + ih[6:10] + b'\x00\x00' + ih[12:]
    assert inet_checksum(ih) == 0
    uh, ue = build_udp(rng, pl, src, dst, v6=False, dport=rng.choice([1000, 2000]), correct=True)
    return ih + uh + pl, cut(IPV4, bits_of(ih)) + ue, pl

# ------------------------------------------------------------------ CoAP (RFC 7252 §3, §3.1)

def coap_ext(v):
    """nibble and extension bytes for an option delta / length"""
    if v < 13: return v, b''
    if v < 269: return 13, bytes([v - 13])
    return 14, struct.pack('!H', v - 269)

def build_coap(rng, token: bytes, options, payload: bytes, tkl=None):
    """options: list of (delta, value bytes). Returns bytes and expected syntactic fields."""
    ver, typ, code, mid = 1, rng.randrange(4), rng.randrange(256), rng.randrange(65536)
    tkl = len(token) if tkl is None else tkl
    b0 = (ver << 6) | (typ << 4) | tkl
    data = bytes([b0, code]) + struct.pack('!H', mid) + token
    exp = [('CoAP:Version', 0, bits(ver, 2)), ('CoAP:Type', 0, bits(typ, 2)), ('CoAP:Token Length', 0, bits(tkl, 4)),
           ('CoAP:Code', 0, bits(code, 8)), ('CoAP:Message ID', 0, bits(mid, 16))]
    if tkl > 0: exp.append(('CoAP:Token', 0, bits_of(token)))
    n = {'d': 0, 'l': 0, 'de': 0, 'le': 0, 'v': 0}
    for delta, value in options:
        dn, de = coap_ext(delta); ln, le = coap_ext(len(value))
        data += bytes([(dn << 4) | ln]) + de + le + value
        n['d'] += 1; n['l'] += 1
        exp.append(('CoAP:Option Delta', n['d'], bits(dn, 4))); exp.append(('CoAP:Option Length', n['l'], bits(ln, 4)))
        if de: n['de'] += 1; exp.append(('CoAP:Option Delta Extended', n['de'], bits_of(de)))
        if le: n['le'] += 1; exp.append(('CoAP:Option Length Extended', n['le'], bits_of(le)))
        if value: n['v'] += 1; exp.append(('CoAP:Option Value', n['v'], bits_of(value)))
    if payload:
        data += b'\xff' + payload
        exp.append(('CoAP:Payload Marker', 0, '11111111'))
    return data, exp

def gen_coap_options(rng, style=None):
    """option (delta, value) lists covering every delta / length class and the boundaries"""
    style = style or rng.choice(['small', 'small', 'mixed', 'boundary', 'big', 'none', 'repeat'])
    D = {'small': [0, 1, 3, 4, 11, 12], 'mid': [13, 14, 20, 100, 268], 'big': [269, 270, 300, 1000, 65000, 65535 + 269]}
    Ls = {'small': [0, 1, 2, 5, 11, 12], 'mid': [13, 14, 50, 268], 'big': [269, 270, 400]}
    def val(n): return bytes(rng.randrange(256) for _ in range(n))
    if style == 'none': return []
    if style == 'small': return [(rng.choice(D['small']), val(rng.choice(Ls['small']))) for _ in range(rng.randrange(1, 6))]
    if style == 'repeat': return [(rng.choice([11, 0, 0, 4]), val(rng.randrange(0, 9))) for _ in range(rng.randrange(2, 7))]
    if style == 'boundary': return [(rng.choice([12, 13, 14, 268, 269, 270]), val(rng.choice([0, 11, 12, 13, 14, 268, 269, 270]))) for _ in range(rng.randrange(1, 4))]
    if style == 'big': return [(rng.choice(D['big'] + D['mid']), val(rng.choice(Ls['big'] + Ls['mid'] + Ls['small']))) for _ in range(rng.randrange(1, 3))]
    return [(rng.choice(D[rng.choice(list(D))]), val(rng.choice(Ls[rng.choice(['small', 'small', 'mid', 'big'])]))) for _ in range(rng.randrange(1, 5))]

def gen_coap(rng, with_payload=None, style=None):
    token = bytes(rng.randrange(256) for _ in range(rng.randrange(0, 9)))
    with_payload = rng.random() < 0.6 if with_payload is None else with_payload
    payload = bytes(rng.randrange(256) for _ in range(rng.randrange(1, 24))) if with_payload else b''
    if payload and payload[0] == 0xff and False: pass
    return build_coap(rng, token, gen_coap_options(rng, style), payload) + (payload,)

# ------------------------------------------------------------------ SCTP (RFC 9260 §3)

CHUNK = {'DATA': 0, 'INIT': 1, 'INIT_ACK': 2, 'SACK': 3, 'HEARTBEAT': 4, 'HEARTBEAT_ACK': 5, 'ABORT': 6, 'SHUTDOWN': 7,
         'SHUTDOWN_ACK': 8, 'ERROR': 9, 'COOKIE_ECHO': 10, 'COOKIE_ACK': 11, 'ECNE': 12, 'CWR': 13, 'SHUTDOWN_COMPLETE': 14}

def build_param(ptype, value: bytes):
    ln = 4 + len(value)
    pad = (4 - ln % 4) % 4
    data = struct.pack('!HH', ptype, ln) + value + bytes(pad)
    exp = [('SCTP:Parameter Type', 0, bits(ptype, 16)), ('SCTP:Parameter Length', 0, bits(ln, 16))]
    if value: exp.append(('SCTP:Parameter Value', 0, bits_of(value)))
    if pad: exp.append(('SCTP:Parameter Padding', 0, '0' * (8 * pad)))
    return data, exp

def gen_params(rng, nmax=3):
    data, exp = b'', []
    for _ in range(rng.randrange(0, nmax + 1)):
        d, e = build_param(rng.randrange(65536), bytes(rng.randrange(256) for _ in range(rng.choice([0, 1, 2, 3, 4, 5, 7, 8, 16, 21]))))
        data += d; exp += e
    return data, exp

def build_chunk(rng, kind):
    t = CHUNK.get(kind, kind if isinstance(kind, int) else 0)
    flags = rng.randrange(256)
    value, vexp = b'', []
    r32 = lambda: rng.randrange(1 << 32); r16 = lambda: rng.randrange(1 << 16)
    if kind == 'DATA':
        tsn, sid, ssn, ppid = r32(), r16(), r16(), r32()
        user = bytes(rng.randrange(256) for _ in range(rng.choice([1, 2, 3, 4, 5, 13, 16])))
        value = struct.pack('!IHHI', tsn, sid, ssn, ppid) + user
        vexp = [('SCTP:Data TSN', 0, bits(tsn, 32)), ('SCTP:Data Stream Identifier S', 0, bits(sid, 16)),
                ('SCTP:Data Stream Sequence Number n', 0, bits(ssn, 16)), ('SCTP:Data Payload Protocol Identifier', 0, bits(ppid, 32)),
                ('SCTP:Data Payload', 0, bits_of(user))]
    elif kind in ('INIT', 'INIT_ACK'):
        tag, rwnd, os_, is_, tsn = r32(), r32(), r16(), r16(), r32()
        pd, pe = gen_params(rng)
        value = struct.pack('!IIHHI', tag, rwnd, os_, is_, tsn) + pd
        pre = 'SCTP:Init ' if kind == 'INIT' else 'SCTP:Init Ack '
        vexp = [(pre + 'Initiate Tag', 0, bits(tag, 32)), (pre + 'Advertised Receiver Window Credit', 0, bits(rwnd, 32)),
                (pre + 'Number of Outbound Streams', 0, bits(os_, 16)), (pre + 'Number of Inbound Streams', 0, bits(is_, 16)),
                (pre + 'Initial TSN', 0, bits(tsn, 32))] + pe
    elif kind == 'SACK':
        cum, rwnd = r32(), r32()
        gaps = [(r16(), r16()) for _ in range(rng.randrange(0, 4))]
        dups = [r32() for _ in range(rng.randrange(0, 3))]
        value = struct.pack('!IIHH', cum, rwnd, len(gaps), len(dups)) + b''.join(struct.pack('!HH', a, b) for a, b in gaps) + b''.join(struct.pack('!I', d) for d in dups)
        vexp = [('SCTP:Selective Ack Cumulative TSN Ack', 0, bits(cum, 32)), ('SCTP:Selective Ack Advertised Receiver Window Credit', 0, bits(rwnd, 32)),
                ('SCTP:Selective Ack Number Gap Ack Blocks', 0, bits(len(gaps), 16)), ('SCTP:Selective Ack Number Duplicate TSNs', 0, bits(len(dups), 16))]
        for a, b in gaps: vexp += [('SCTP:Selective Ack Gap Ack BLock Start', 0, bits(a, 16)), ('SCTP:Selective Ack Gap Ack BLock End', 0, bits(b, 16))]
        for d in dups: vexp.append(('SCTP:Selective Ack Duplicate TSN', 0, bits(d, 32)))
    elif kind in ('HEARTBEAT', 'HEARTBEAT_ACK', 'ABORT', 'ERROR'):
        value, vexp = gen_params(rng, 2)
    elif kind == 'SHUTDOWN':
        cum = r32(); value = struct.pack('!I', cum); vexp = [('SCTP:Shutdown Cumulative TSN', 0, bits(cum, 32))]
    elif kind == 'COOKIE_ECHO':
        value = bytes(rng.randrange(256) for _ in range(rng.choice([1, 4, 7, 8, 20]))); vexp = [('SCTP:Cookie Echo Cookie', 0, bits_of(value))]
    elif kind in ('SHUTDOWN_ACK', 'COOKIE_ACK', 'SHUTDOWN_COMPLETE'):
        pass
    else:  # ECNE, CWR, unknown types: opaque value
        value = bytes(rng.randrange(256) for _ in range(rng.choice([0, 4, 5, 8]))); vexp = [('SCTP:Chunk Value', 0, bits_of(value))] if value else []
    ln = 4 + len(value)
    pad = (4 - ln % 4) % 4
    data = struct.pack('!BBH', t, flags, ln) + value + bytes(pad)
    exp = [('SCTP:Chunk Type', 0, bits(t, 8)), ('SCTP:Chunk Flags', 0, bits(flags, 8)), ('SCTP:Chunk Length', 0, bits(ln, 16))] + vexp
    if pad: exp.append(('SCTP:Chunk Padding', 0, '0' * (8 * pad)))
    return data, exp

def build_sctp(rng, kinds=None, correct=True):
    kinds = kinds if kinds is not None else [rng.choice(list(CHUNK) + [77, 200]) for _ in range(rng.randrange(1, 4))]
    sport, dport, tag = rng.randrange(65536), rng.randrange(65536), rng.randrange(1 << 32)
    body, bexp = b'', []
    for k in kinds:
        d, e = build_chunk(rng, k); body += d; bexp += e
    hdr0 = struct.pack('!HHI', sport, dport, tag)
    ck = sctp_checksum(hdr0 + b'\x00\x00\x00\x00' + body) if correct else bytes(rng.randrange(256) for _ in range(4))
    data = hdr0 + ck + body
    exp = [('SCTP:Source Port', 0, bits(sport, 16)), ('SCTP:Destination Port', 0, bits(dport, 16)),
           ('SCTP:Verification Tag', 0, bits(tag, 32)), ('SCTP:Checksum', 0, bits_of(ck))] + bexp
    return data, exp

# ------------------------------------------------------------------ whole packets

def gen_stack_packet(rng, stack, correct=True, coap_style=None):
    """stack in {'IPv6-UDP-CoAP','IPv4-UDP-CoAP','UDP','CoAP','SCTP','IPv6','IPv4'} -> (bytes, expected fields, payload bytes)"""
    if stack == 'CoAP':
        d, e, pl = gen_coap(rng, style=coap_style); return d, e, pl
    if stack == 'SCTP':
        d, e = build_sctp(rng, correct=correct); return d, e, b''
    if stack == 'UDP':
        pl = bytes(rng.randrange(256) for _ in range(rng.randrange(0, 20)))
        dport = rng.choice([1234, 80, 40000])
        h, e = build_udp(rng, pl, dport=dport, correct=True)   # no IP header: length correct, checksum arbitrary
        return h + pl, e, pl
    v6 = stack.startswith('IPv6')
    if stack in ('IPv6-UDP-CoAP', 'IPv4-UDP-CoAP'):
        cd, ce, cpl = gen_coap(rng, style=coap_style)
        if v6:
            ih, ie, src, dst = build_ipv6(rng, bytes(8) + cd, 17, correct)
        else:
            ih, ie, src, dst = build_ipv4(rng, bytes(8) + cd, 17, correct)
        uh, ue = build_udp(rng, cd, src, dst, v6=v6, dport=5683, correct=correct)
        return ih + uh + cd, ie + ue + ce, cpl
    raise ValueError(stack)
