"""Stream `json` (C12): every serialisable class through to-JSON / from-JSON; equality, re-dump, behaviour in use."""
import copy, json
from . import spec, rulegen, packets, schcstream
from .codec import *
from .common import guarded

RD = {v: k for k, v in DIRS.items()}; RM = {v: k for k, v in MOS.items()}; RC = {v: k for k, v in CDAS.items()}
def sv(x): return x.value if hasattr(x, 'value') else x

def show_tv(tv):
    from microschc.rfc8724 import MatchMapping
    if isinstance(tv, MatchMapping):
        return f"m {len(tv.forward)}" + ''.join(f' {show_buf(v)} {show_buf(i)}' for v, i in tv.forward.items())
    return f'b {show_buf(tv)}'
def show_rfield(f):
    return f"{esc(f.id)} {f.length} {f.position} {RD[sv(f.direction)]} {RM[sv(f.matching_operator)]} {RC[sv(f.compression_decompression_action)]} {show_tv(f.target_value)}"
def show_rule(r):
    from microschc.rfc8724 import RuleNature
    return f"{show_buf(r.id)} {'c' if r.nature is RuleNature.COMPRESSION else 'n'} {len(r.field_descriptors)}" + ''.join(' ' + show_rfield(f) for f in r.field_descriptors)
def show_context(c):
    return f"{esc(c.id)} {esc(c.interface_id)} {esc(c.parser_id)} {len(c.ruleset)}" + ''.join(' ' + show_rule(r) for r in c.ruleset)
def show_packet(p):
    return f"{RD[sv(p.direction)]} {len(p.fields)} " + ''.join(f"{esc(sid(f.id))} {show_buf(f.value)} {f.position} " for f in p.fields) + f"{show_buf(p.payload)} {show_buf(p.raw)}"

def impl(line):
    t = line.split(' # ')[0].split(); op, T = t[1], Toks(t[2:])
    def run():
        from microschc.binary.buffer import Buffer
        from microschc.rfc8724 import FieldDescriptor, RuleFieldDescriptor, RuleDescriptor, PacketDescriptor, DirectionIndicator
        from microschc.rfc8724extras import Context
        from microschc.manager.manager import ContextManager, MatchStrategy
        def rt(x, cls, show):
            j = x.json(); y = cls.from_json(j)
            return f"{show(y)} eq={'true' if (x == y) is True else 'false'} redump={'true' if y.json() == j else 'false'}"
        if op == 'buffer': return rt(mk_buf(T.next()), Buffer, show_buf)
        if op == 'field': return rt(mk_field(p_field(T)), FieldDescriptor, lambda f: f"{esc(sid(f.id))} {show_buf(f.value)} {f.position}")
        if op == 'rfield': return rt(mk_rfield(p_rfield(T)), RuleFieldDescriptor, show_rfield)
        if op == 'rule': return rt(mk_rule(p_rule(T)), RuleDescriptor, show_rule)
        if op == 'context': return rt(mk_context(p_context(T)), Context, show_context)
        if op == 'packet': return rt(mk_packet(p_packet(T)), PacketDescriptor, show_packet)
        if op == 'header':
            from microschc.rfc8724 import HeaderDescriptor
            hid = unesc(T.next()); ln = T.nat(); n = T.nat()
            h = HeaderDescriptor(id=hid, length=ln, fields=[mk_field(p_field(T)) for _ in range(n)])
            return rt(h, HeaderDescriptor, lambda h: f"{esc(h.id)} {h.length} {len(h.fields)}" + ''.join(f" {esc(sid(f.id))} {show_buf(f.value)} {f.position}" for f in h.fields))
        if op == 'mapping':
            from microschc.rfc8724 import MatchMapping
            return rt(mk_tv(p_tv(T)), MatchMapping, show_tv)
        if op == 'use':
            c = mk_context(p_context(T)); pk = T.next(); d = DirectionIndicator(DIRS[T.next()]); st = MatchStrategy.FIRST if T.next() == 'first' else MatchStrategy.BEST
            def use(ctx):
                def f():
                    cm = ContextManager(ctx); s = cm.compress(mk_buf(pk), direction=d, match_strategy=st); dd = cm.decompress(s)
                    return f'{show_buf(s)},{show_buf(dd)}'
                k, v = guarded(f, 5.0)
                return v if k == 'ok' else 'err:' + v
            return f'orig={use(c)} reloaded={use(Context.from_json(c.json()))}'
        raise ValueError(op)
    k, v = guarded(run, 8.0)
    return v if k == 'ok' else 'err:' + v

def oracle(line, out):
    t = line.split(' # ')[0].split(); op = t[1]
    v = []
    if out.startswith('err:'): return [('C12', f'{op}: JSON round trip raised {out[4:]}')]
    if op == 'use':
        a, b = out.split(' ')
        if a[5:] != b[9:]: v.append(('C12', f'reloaded context behaves differently: {a} vs {b}'))
        return v
    body = ' '.join(t[2:])
    shown, eq, redump = out.rsplit(' ', 2)
    if eq != 'eq=true': v.append(('C12', f'{op}: reloaded object does not compare equal to the original'))
    if redump != 'redump=true': v.append(('C12', f'{op}: reloaded object serialises differently'))
    if shown != body: v.append(('C12', f'{op}: reloaded object differs: {shown} vs {body}'))
    return v

def evaluate(line):
    out = impl(line); return out, oracle(line, out)
def nontrivial(line): return len(line) > 30
def branch(line, out): return 'json:' + line.split()[1] + (':err' if out.startswith('err:') else '')

def gen(props, tier, rng):
    q = tier == 'quick'
    for b in [''] + [rulegen.rbits(rng, n) for n in list(range(1, 20)) + [31, 32, 33, 64, 100] for _ in range(2)]:
        for s in 'LR': yield f'json buffer {s}:{b}'
    N = 80 if q else 800
    for i in range(N):
        pkt = rulegen.gen_generic_packet(rng) if i % 2 else rulegen.gen_stack(rng, schcstream.STACKS[i % 5])[1]
        rule = rulegen.derive_rule(rng, pkt, lossless=rng.random() < 0.6, allow_compute=True, mixed_index=rng.random() < 0.5)
        # the serialised forward mapping is the one Python built: duplicates (by bits) removed, insertion order kept
        yield f'json rule {e_rule(canon_rule(rule))}'
        for f in rule['fields'][:3]: yield f'json rfield {e_rfield(canon_rfield(f))}'
        if i < (12 if q else 60):
            # serialisation must not depend on the target-value type agreeing with the operator or the action: every
            # (MO, CDA) pair over a Buffer and over a mapping target value (ignore + mapping-sent is a working combination)
            for f in rule['fields'][:2]:
                for mo in ('eq', 'ig', 'msb', 'mm'):
                    for cda in ('ns', 'lsb', 'ms', 'vs', 'co'):
                        g = dict(canon_rfield(f)); g['mo'] = mo; g['cda'] = cda
                        yield f'json rfield {e_rfield(g)}'
        for f in pkt['fields'][:2]: yield f'json field {e_field(f)}'
        # header descriptors (a dataclass of its own) and match mappings through their own json() / from_json()
        k = rng.randrange(1, len(pkt['fields']) + 1); hf = pkt['fields'][:k]
        yield f"json header {esc(rng.choice(['IPv6', 'UDP', 'CoAP', 'my header']))} {sum(len(f['value']) - 2 for f in hf)} {len(hf)} " + ' '.join(e_field(f) for f in hf)
        for f in rule['fields']:
            if f['tv'][0] == 'm': yield f"json mapping {e_tv(canon_rfield(f)['tv'])}"
        yield f'json packet {e_packet(pkt)}'
        # descriptors whose fields + payload do not spell the raw packet (semantic CoAP view, right-padded raw buffers)
        p2 = copy.deepcopy(pkt)
        if len(p2['fields']) > 1: del p2['fields'][rng.randrange(len(p2['fields']))]
        if rng.random() < 0.5: p2['raw'] = 'R:' + p2['raw'][2:]
        yield f'json packet {e_packet(p2)}'
        rs = [canon_rule(r) for r in rulegen.gen_ruleset(rng, pkt, nmax=4)]
        ctx = {'id': f'ctx {i}', 'iface': 'if 0', 'parser': 'CoAP', 'rules': rs}
        yield f'json context {e_context(ctx)}'
    for i in range(30 if q else 300):
        stack = schcstream.STACKS[i % 5]
        data, pkt = rulegen.gen_stack(rng, stack)
        r = schcstream.stack_rule(rng, pkt, compute_prob=0.5)
        if i % 2:
            # Up / Dw alternative descriptors: a reloaded rule carries its directions as plain strings, and must select the same ones
            r = schcstream._with_directions(rng, r, pkt, every_position=i)
        rs = [canon_rule(x) for x in schcstream._ruleset_with(rng, pkt, r)]
        ctx = {'id': 'c', 'iface': 'i', 'parser': stack, 'rules': rs}
        for st in ('first', 'best'):
            yield f"json use {e_context(ctx)} L:{packets.bits_of(data)} {rng.choice('UD')} {st}"

def canon_rfield(f):
    f = dict(f)
    if f['tv'][0] == 'm':
        seen = {}; order = []
        for v, i in f['tv'][1]:
            if v[2:] not in seen: order.append(v[2:]); seen[v[2:]] = (v, i)
            else: seen[v[2:]] = (seen[v[2:]][0], i)
        f['tv'] = ('m', [seen[k] for k in order])
    return f
def canon_rule(r):
    r = dict(r); r['fields'] = [canon_rfield(f) for f in r['fields']]; return r
