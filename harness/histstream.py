"""Stream `hist` (C16 and every history-dependent behaviour): sequences of calls on ONE long-lived object,
compared call by call with fresh instances (oracle) and with the pure Lean model; every argument, rule and
context is snapshotted before and after each call."""
import copy
from . import spec, rulegen, packets, schcstream
from .codec import *
from .common import guarded
from .jsonstream import show_context, show_rule

def split_meta(line):
    if ' # ' in line:
        a, b = line.split(' # ', 1); return a, b.split()
    return line, []
def model_line(line): return split_meta(line)[0]
def model_view(out): return out.split(' | ')[0]
def model_agrees(out, model):
    a, b = out.split(' | ')[0].split(';'), model.split(';')
    return len(a) == len(b) and all(x == y or y == 'err:unmodelled' for x, y in zip(a, b))

def call(f):
    k, v = guarded(f, 5.0)
    return v if k == 'ok' else 'err:' + v

def impl(line):
    body, _ = split_meta(line)
    t = body.split(); op, T = t[1], Toks(t[2:])
    from microschc.manager.manager import ContextManager, MatchStrategy
    from microschc.rfc8724 import DirectionIndicator
    from microschc.rfc8724extras import Context
    from microschc.ruler.ruler import Ruler
    strat = lambda s: MatchStrategy.FIRST if s == 'first' else MatchStrategy.BEST
    mutated = []
    if op == 'manager':
        pid = unesc(T.next()); rules = p_rules(T); n = T.nat()
        ops = []
        for _ in range(n):
            k = T.next()
            ops.append(('c', T.next(), T.next(), T.next()) if k == 'c' else ('d', T.next()))
        def mkctx(): return Context(id='c', description='', interface_id='i', parser_id=pid, ruleset=[mk_rule(r) for r in rules])
        ctx = mkctx(); cm = ContextManager(ctx); snap = show_context(ctx)
        long, fresh = [], []
        for o in ops:
            def run(m):
                b = mk_buf(o[1]); before = show_buf(b)
                r = show_buf(m.compress(b, direction=DirectionIndicator(DIRS[o[2]]), match_strategy=strat(o[3]))) if o[0] == 'c' else show_buf(m.decompress(b))
                if show_buf(b) != before: mutated.append('argument buffer')
                return r
            long.append(call(lambda: run(cm)))
            if show_context(ctx) != snap: mutated.append('context'); snap = show_context(ctx)
            fresh.append(call(lambda: run(ContextManager(mkctx()))))
        return f"{';'.join(long)} | {';'.join(fresh)} | {','.join(sorted(set(mutated))) or '-'}"
    if op == 'ruler':
        rules = p_rules(T); n = T.nat(); pks = [p_packet(T) for _ in range(n)]
        def mkrs(): return [mk_rule(r) for r in rules]
        rs = mkrs(); ruler = Ruler(rs); snap = ' '.join(show_rule(r) for r in rs)
        long, fresh = [], []
        for p in pks:
            def run(ruler, rs):
                pd = mk_packet(p); before = (show_buf(pd.raw), [show_buf(f.value) for f in pd.fields])
                got = list(ruler.match_packet_descriptor(pd))
                if (show_buf(pd.raw), [show_buf(f.value) for f in pd.fields]) != before: mutated.append('packet descriptor')
                return ','.join(str(next(i for i, r in enumerate(rs) if r is g)) for g in got)
            long.append(call(lambda: run(ruler, rs)))
            if ' '.join(show_rule(r) for r in rs) != snap: mutated.append('rules'); snap = ' '.join(show_rule(r) for r in rs)
            rs2 = mkrs(); fresh.append(call(lambda: run(Ruler(rs2), rs2)))
        return f"{';'.join(long)} | {';'.join(fresh)} | {','.join(sorted(set(mutated))) or '-'}"
    if op == 'front':
        n = T.nat(); ctxs = [p_context(T) for _ in range(n)]; m = T.nat()
        ops = [(T.next(), T.next(), unesc(T.next())) for _ in range(m)]
        SCHC = schcstream.front_module().SCHC
        def mk(): return [mk_context(c) for c in ctxs]
        cs = mk(); fe = SCHC(contexts=cs); snap = ' '.join(show_context(c) for c in cs)
        long, fresh = [], []
        for k, pk, ifc in ops:
            def run(fe):
                b = mk_buf(pk); before = show_buf(b)
                r = show_buf(fe.compress(b, ifc) if k == 'c' else fe.decompress(b, ifc))
                if show_buf(b) != before: mutated.append('argument buffer')
                return r
            long.append(call(lambda: run(fe)))
            if ' '.join(show_context(c) for c in cs) != snap: mutated.append('contexts'); snap = ' '.join(show_context(c) for c in cs)
            fresh.append(call(lambda: run(SCHC(contexts=mk()))))
        return f"{';'.join(long)} | {';'.join(fresh)} | {','.join(sorted(set(mutated))) or '-'}"
    raise ValueError(op)

PROPS_OF = {'manager': ['C16', 'C10', 'C18', 'C11'], 'ruler': ['C16', 'C04', 'C18'], 'front': ['C16', 'C15']}

def oracle(line, out):
    body, meta = split_meta(line)
    op = body.split()[1]
    v = []
    if ' | ' not in out: return [('C16', 'harness error ' + out)]
    long, fresh, mut = out.split(' | ')
    if long != fresh:
        L, F = long.split(';'), fresh.split(';')
        k = next((i for i, (a, b) in enumerate(zip(L, F)) if a != b), 0)
        for p in PROPS_OF[op]:
            if p == 'C16' or p in meta:
                v.append((p, f'call #{k} on the long-lived instance gives {L[k][:80]}, a fresh instance gives {F[k][:80]}'))
    if mut != '-':
        v.append(('C16', f'modified by a call: {mut}'))
    return v

def evaluate(line):
    out = impl(line); return out, oracle(line, out)
def nontrivial(line): return True
def branch(line, out): return 'hist:' + line.split()[1]

def gen(props, tier, rng):
    props = set(props); q = tier == 'quick'
    tags = ' '.join(sorted(props & {'C04', 'C10', 'C11', 'C15', 'C18'}))
    H = 10 if q else 60
    LEN = 50 if q else 300
    if props & {'C16', 'C10', 'C18', 'C11'}:
        for h in range(H):
            stack = schcstream.STACKS[h % 5]
            pool = []
            rules_all = []
            ids = rulegen.prefix_free_codes(rng, 12, maxlen=8)
            htags = tags
            if h % 3 == 2:
                # rule IDs that are NOT prefix-free (some ID is a proper prefix of another, in either list order): several rules
                # claim one SCHC packet, a fresh ruler answers with the first in context order — and so must a used one
                for j in range(0, 12, 2):
                    if len(ids[j]) > 1: ids[j + 1] = ids[j][:max(1, len(ids[j]) - rng.randrange(1, 3))]
                htags = ' '.join(t for t in tags.split() if t != 'C11')
            for k in range(3):
                data, pkt = rulegen.gen_stack(rng, stack)
                pool.append('L:' + packets.bits_of(data))
                # one rule per direction for this packet (descriptors of that direction or Bi), different gains
                for j, dd in enumerate('UD'):
                    r = schcstream.stack_rule(rng, pkt, ids[3 * k + j], compute_prob=0.4)
                    for f in r['fields']:
                        if rng.random() < 0.5: f['dir'] = dd
                    if r['fields']: r['fields'][0]['dir'] = dd
                    rules_all.insert(rng.randrange(len(rules_all) + 1), schcstream.sanitize(r))
                # a more generic rule placed somewhere: FIRST and BEST differ
                g = {'id': abuf(ids[3 * k + 2]), 'nature': 'c', 'fields': [rulegen.derive_rfield(rng, f, pairing=('ig', 'vs'), variable=False) for f in pkt['fields']]}
                rules_all.insert(rng.randrange(len(rules_all) + 1), g)
            if rng.random() < 0.7: rules_all.append(rulegen.default_rule(ids[10]))
            ops = []
            schcs = []
            for _ in range(LEN):
                if schcs and rng.random() < 0.35:
                    ops.append(f'd {rng.choice(schcs)}')
                else:
                    pk = rng.choice(pool)
                    ops.append(f"c {pk} {rng.choice('UD')} {rng.choice(['first', 'best'])}")
                    if rng.random() < 0.3:
                        schcs.append('R:' + rulegen.rbits(rng, rng.randrange(1, 200)))
                    if len(schcs) < 24:
                        # a genuine SCHC packet of this rule set (computed by the reference; any bit string is fine for the history check)
                        s0 = ids[rng.randrange(0, 9)] + rulegen.rbits(rng, rng.randrange(0, 120))
                        schcs.append('R:' + s0)
                        # the same leading bytes again as a shorter packet and on the other padding side: what the ruler answers
                        # for one SCHC packet must not depend on the packets it was asked about before
                        k = rng.choice([1, 2, 3, 5, 8, 12, 16])
                        schcs.append('R:' + s0[:k])
                        schcs.append('L:' + s0[:max(1, len(s0) - len(s0) % 8 - 8 * rng.randrange(0, 2))][-max(1, rng.choice([4, 8, 12, 16])):])
                        schcs.append('R:' + '0' * rng.choice([1, 8, 16]))
            yield f"hist manager {esc(stack)} {e_rules(rules_all)} {len(ops)} {' '.join(ops)} # {htags}"
    if props & {'C16'}:
        # long-lived managers built on a next-header-PREDICTING parser ('IPv6', 'IPv4', 'UDP'), fed packets whose upper
        # protocol changes from call to call: the parse of one packet must not depend on the packets seen before
        from . import parsestream
        for h in range(H):
            stack = ['IPv6', 'IPv4', 'UDP'][h % 3]
            ids = rulegen.prefix_free_codes(rng, 8, maxlen=6)
            pool, rules_all, seen = [], [], set()
            for k in range(24):
                data, exp = parsestream.gen_wellformed(rng, stack)
                bits = packets.bits_of(data)
                used = sum(len(b) for _, _, b in exp)
                if used > len(bits): continue
                pkt = rulegen.packet_from_fields(exp, bits[used:], 'U')
                pool.append('L:' + bits)
                shape = tuple(i for i, _, _ in exp)
                if shape not in seen and len(seen) < 6:
                    seen.add(shape)
                    rules_all.append({'id': abuf(ids[len(seen) - 1]), 'nature': 'c',
                                      'fields': [rulegen.derive_rfield(rng, f, pairing=('ig', 'vs'), variable=False, allow_compute=False) for f in pkt['fields']]})
            rules_all.append(rulegen.default_rule(ids[7]))
            ops = [f"c {rng.choice(pool)} {rng.choice('UD')} {rng.choice(['first', 'best'])}" for _ in range(LEN)]
            yield f"hist manager {esc(stack)} {e_rules(rules_all)} {len(ops)} {' '.join(ops)} # {tags}"
    if props & {'C16', 'C04', 'C18'}:
        for h in range(H * 2):
            pkt = rulegen.gen_generic_packet(rng)
            rules = [rulegen.derive_rule(rng, pkt, allow_compute=False)] + [rulegen.near_miss(rng, rulegen.derive_rule(rng, pkt, allow_compute=False), pkt)[0] for _ in range(3)]
            rules.append(schcstream._with_directions(rng, rules[0], pkt))
            rules.append(rulegen.default_rule('1'))
            # packets with the SAME bits and field count but another direction / other field ids, and genuinely different packets
            variants = []
            for _ in range(LEN // 3):
                p2 = copy.deepcopy(pkt); p2['dir'] = rng.choice('UD')
                k = rng.random()
                if k < 0.3 and p2['fields']:
                    j = rng.randrange(len(p2['fields'])); p2['fields'][j]['id'] = p2['fields'][j]['id'] + 'x'
                elif k < 0.5:
                    p2 = rulegen.gen_generic_packet(rng)
                variants.append(p2)
            yield f"hist ruler {e_rules(rules)} {len(variants)} {' '.join(e_packet(p) for p in variants)} # {tags}"
    if props & {'C16', 'C15'}:
        for h in range(H):
            stackA, stackB = rng.sample(schcstream.STACKS, 2)
            ids = rulegen.prefix_free_codes(rng, 8, maxlen=6)
            dataA, pktA = rulegen.gen_stack(rng, stackA); dataB, pktB = rulegen.gen_stack(rng, stackA)
            rA = schcstream.stack_rule(rng, pktA, ids[0], compute_prob=0.0)
            rB = schcstream.stack_rule(rng, pktB, ids[1], compute_prob=0.0)
            gen_rule = {'id': abuf(ids[2]), 'nature': 'c', 'fields': [rulegen.derive_rfield(rng, f, pairing=('ig', 'vs'), variable=False) for f in pktA['fields']]}
            # context A matches only packet A; context B matches both A and B (a generic rule): order of contexts matters
            ctxs = [{'id': 'A', 'iface': 'if0', 'parser': stackA, 'rules': [rA]},
                    {'id': 'B', 'iface': 'if0', 'parser': stackA, 'rules': [rB, gen_rule]},
                    {'id': 'C', 'iface': 'if0', 'parser': stackB, 'rules': [rulegen.default_rule(ids[3])]},
                    {'id': 'D', 'iface': 'if1', 'parser': stackA, 'rules': [gen_rule]}]
            rng.shuffle(ctxs)
            pool = ['L:' + packets.bits_of(dataA), 'L:' + packets.bits_of(dataB), 'L:' + rulegen.rbits(rng, 8 * rng.randrange(1, 30))]
            ops = []
            for _ in range(LEN):
                if rng.random() < 0.3: ops.append(f"d R:{rng.choice(ids[:4])}{rulegen.rbits(rng, rng.randrange(0, 100))} {rng.choice(['if0', 'if0', 'if1'])}")
                else: ops.append(f"c {rng.choice(pool)} {rng.choice(['if0', 'if0', 'if1'])}")
            yield f"hist front {len(ctxs)} {' '.join(e_context(c) for c in ctxs)} {len(ops)} {' '.join(ops)} # {tags}"
