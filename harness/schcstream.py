"""Streams `len` and `schc`: compressor, decompressor, matcher, context manager, front end.

Each line is evaluated on the real code (`impl`), judged against the RFC-8724 reference on plain bit
strings (`oracle`, harness.spec) and compared with the Lean model through the driver.
Lines carry a leading tag `schc`/`len`; an optional trailing comment after ` # ` tells the oracle what the
generator guarantees about the input (e.g. which properties' quantifier it lies in)."""
import copy, importlib.util, os, sys, itertools
from . import spec, rulegen, packets
from .codec import *
from .common import guarded, REPO

_FRONT = None
def front_module():
    """/repo/microschc.py (the multi-context front end) is shadowed by the package: load it by path"""
    global _FRONT
    if _FRONT is None:
        s = importlib.util.spec_from_file_location('microschc_frontend', os.path.join(REPO, 'microschc.py'))
        _FRONT = importlib.util.module_from_spec(s); s.loader.exec_module(_FRONT)
    return _FRONT

def split_meta(line):
    if ' # ' in line:
        a, b = line.split(' # ', 1); return a, set(b.split())
    return line, set()

# ------------------------------------------------------------------------------------------------ explicit stacks, recipes

def mk_stack(stackspec):
    """`IPv6+UDP+CoAPs`: an explicit PacketParser; suffix `s` = CoAP options in semantic mode, `p` = predict_next"""
    from microschc.parser.parser import PacketParser
    from microschc.protocol.ipv4 import IPv4Parser
    from microschc.protocol.ipv6 import IPv6Parser
    from microschc.protocol.udp import UDPParser
    from microschc.protocol.coap import CoAPParser, CoAPOptionMode
    from microschc.protocol.sctp import SCTPParser
    cls = {'IPv4': IPv4Parser, 'IPv6': IPv6Parser, 'UDP': UDPParser, 'CoAP': CoAPParser, 'SCTP': SCTPParser}
    ps = []
    for tok in stackspec.split('+'):
        name = tok.rstrip('ps'); kw = {}
        flags = tok[len(name):]
        if 'p' in flags: kw['predict_next'] = True
        if 's' in flags: kw['interpret_options'] = CoAPOptionMode.SEMANTIC
        ps.append(cls[name](**kw))
    return PacketParser('explicit', ps)

def recipe_rule(fields, recipe, rid):
    """the rule a recipe denotes for a parsed packet: field k gets the pairing coded by recipe[k % len(recipe)] —
    v ignore/value-sent (variable length for CoAP options), n equal/not-sent, l MSB(first half)/LSB, m match-mapping
    {value: index 0}/mapping-sent, c ignore/compute on the computable ids (else v). `fields`: [(id, ABUF token, position)]"""
    out = []
    for k, (fid, val, pos) in enumerate(fields):
        code = recipe[k % len(recipe)]; L = len(val) - 2
        if code == 'c' and fid not in rulegen.COMPUTABLE: code = 'v'
        if code == 'n': f = {'mo': 'eq', 'cda': 'ns', 'tv': ('b', val), 'len': L}
        elif code == 'l': f = {'mo': 'msb', 'cda': 'lsb', 'tv': ('b', val[:2 + L // 2]), 'len': L}
        elif code == 'm': f = {'mo': 'mm', 'cda': 'ms', 'tv': ('m', [(val, 'L:0')]), 'len': L}
        elif code == 'c': f = {'mo': 'ig', 'cda': 'co', 'tv': ('b', 'L:'), 'len': L}
        else: f = {'mo': 'ig', 'cda': 'vs', 'tv': ('b', 'L:'), 'len': 0 if 'Option' in fid else L}
        f.update(id=fid, pos=pos, dir='B')
        out.append(f)
    return {'id': rid, 'nature': 'c', 'fields': out}

# ------------------------------------------------------------------------------------------------ impl

def impl(line):
    body, _ = split_meta(line)
    t = body.split()
    stream, op, T = t[0], t[1], Toks(t[2:])
    from microschc.compressor.compressor import compress, _encode_length
    from microschc.decompressor.decompressor import decompress, _decode_length
    from microschc.ruler.ruler import Ruler, _field_match
    from microschc.manager.manager import ContextManager, MatchStrategy
    from microschc.rfc8724 import DirectionIndicator
    from microschc.rfc8724extras import Context
    def run():
        if stream == 'len':
            if op == 'encode': return show_buf(_encode_length(T.nat()))
            if op == 'decode':
                k, p = _decode_length(mk_buf(T.next())); return f'{k} {p}'
        if op == 'compress':
            p = mk_packet(p_packet(T)); r = mk_rule(p_rule(T)); return show_buf(compress(p, r))
        if op == 'compress2':
            # one parsed packet compressed with a first rule, then the SAME descriptor object with a second rule: what the
            # second call returns must be what it returns on a fresh descriptor (the model line is `compress packet ruleB`)
            p = mk_packet(p_packet(T)); ra = mk_rule(p_rule(T)); rb = mk_rule(p_rule(T))
            compress(p, ra)
            return show_buf(compress(p, rb))
        if op == 'decompress':
            s = mk_buf(T.next()); r = mk_rule(p_rule(T)); return show_buf(decompress(s, r))
        if op == 'roundtrip':
            p = mk_packet(p_packet(T)); r = mk_rule(p_rule(T)); c = compress(p, r); d = decompress(c, r)
            return f'{show_buf(c)} {show_buf(d)}'
        if op == 'droundtrip':
            # the bare functions with the packet's direction passed to both (C18)
            p = mk_packet(p_packet(T)); r = mk_rule(p_rule(T))
            c = compress(p, r, direction=p.direction); d = decompress(c, r, direction=p.direction)
            return f'{show_buf(c)} {show_buf(d)}'
        if op == 'fieldmatch':
            f = mk_field(p_field(T)); rf = mk_rfield(p_rfield(T)); v = _field_match(f, rf)
            return 'true' if v is True else 'false' if v is False else repr(v)
        if op == 'matchall':
            rs = [mk_rule(r) for r in p_rules(T)]; p = mk_packet(p_packet(T))
            got = list(Ruler(rs).match_packet_descriptor(p))
            idx = []
            for g in got:
                k = next(i for i, r in enumerate(rs) if r is g); idx.append(str(k))
            return ' '.join(idx) + ';'
        if op == 'matchschc':
            rs = [mk_rule(r) for r in p_rules(T)]; s = mk_buf(T.next())
            g = Ruler(rs).match_schc_packet(s)
            return str(next(i for i, r in enumerate(rs) if r is g))
        def manager(pid, rules):
            return ContextManager(Context(id='c', description='', interface_id='i', parser_id=pid, ruleset=[mk_rule(r) for r in rules]))
        def strat(s): return MatchStrategy.FIRST if s == 'first' else MatchStrategy.BEST
        if op in ('mcompress', 'mroundtrip'):
            pid = unesc(T.next()); rules = p_rules(T); pk = mk_buf(T.next()); d = DirectionIndicator(DIRS[T.next()]); st = strat(T.next())
            cm = manager(pid, rules)
            c = cm.compress(pk, direction=d, match_strategy=st)
            if op == 'mcompress': return show_buf(c) if c is not None else 'None'
            dd = cm.decompress(c, direction=d)
            return f'{show_buf(c)} {show_buf(dd)}'
        if op == 'mpcompress':
            # manager logic on an already parsed packet: a parser stub returns the given descriptor
            rules = p_rules(T); pd = mk_packet(p_packet(T)); d = DirectionIndicator(DIRS[T.next()]); st = strat(T.next())
            from microschc.parser.parser import PacketParser
            class Stub(PacketParser):
                def __init__(self): super().__init__('stub', [])
                def parse(self, buffer): return pd
            cm = ContextManager(Context(id='c', description='', interface_id='i', parser_id='CoAP', ruleset=[mk_rule(r) for r in rules]), parser=Stub())
            c = cm.compress(pd.raw, direction=d, match_strategy=st)
            return show_buf(c) if c is not None else 'None'
        if op == 'mdecompress':
            rules = p_rules(T); s = mk_buf(T.next())
            return show_buf(manager('CoAP', rules).decompress(s))
        if op == 'mdecompressd':
            rules = p_rules(T); s = mk_buf(T.next()); d = DirectionIndicator(DIRS[T.next()])
            return show_buf(manager('CoAP', rules).decompress(s, direction=d))
        if op == 'mo':
            from microschc.matching import operators as MOps
            name = T.next(); f = mk_field(p_field(T))
            if name == 'ig': v = MOps.ignore(f)
            else:
                tv = mk_tv(p_tv(T))
                v = {'eq': MOps.equal, 'msb': MOps.most_significant_bits, 'mm': MOps.match_mapping}[name](f, tv)
            return 'true' if v is True else 'false' if v is False else repr(v)
        if op == 'act':
            from microschc.actions import compression as Acts
            name = T.next(); f = mk_field(p_field(T))
            if name == 'ns': return show_buf(Acts.not_sent(f))
            if name == 'vs': return show_buf(Acts.value_sent(f))
            if name == 'ms': return show_buf(Acts.mapping_sent(f, mk_tv(p_tv(T))))
            if name == 'lsb': return show_buf(Acts.least_significant_bits(f, T.nat()))
        if op == 'umcompress':
            # a ContextManager built on an explicit (semantic / predictive) PacketParser instead of a registry id
            sspec = T.next(); rules = p_rules(T); pk = mk_buf(T.next()); d = DirectionIndicator(DIRS[T.next()]); st = strat(T.next())
            # `id=<registry id>`: the parser given as a string, resolved by the manager through the registry
            pp = unesc(sspec[3:]) if sspec.startswith('id=') else mk_stack(sspec)
            cm = ContextManager(Context(id='c', description='', interface_id='i', parser_id='CoAP', ruleset=[mk_rule(r) for r in rules]), parser=pp)
            c = cm.compress(pk, direction=d, match_strategy=st)
            return show_buf(c) if c is not None else 'None'
        if op == 'uroundtrip':
            # explicit (possibly semantic) stack: parse, rule by recipe from the parsed fields, compress, decompress WITH the
            # parser as unparser (C01 through the un-parsing path, C19)
            pp = mk_stack(T.next()); recipe = T.next(); rid = T.next(); pk = mk_buf(T.next()); dtok = T.next()
            d = None if dtok == '-' else DirectionIndicator(DIRS[dtok])
            pd = pp.parse(pk)
            if d is not None: pd.direction = d
            rule = mk_rule(recipe_rule([(sid(f.id), show_buf(f.value), f.position) for f in pd.fields], recipe, rid))
            c = compress(pd, rule, direction=d)
            dd = decompress(c, rule, unparser=pp, direction=d)
            return f'{show_buf(c)} {show_buf(dd)}'
        if op in ('fcompress', 'fdecompress', 'froundtrip'):
            n = T.nat(); ctxs = [mk_context(p_context(T)) for _ in range(n)]; pk = mk_buf(T.next()); ifc = unesc(T.next())
            schc = front_module().SCHC(contexts=ctxs)
            if op == 'fcompress': return show_buf(schc.compress(pk, ifc))
            if op == 'fdecompress': return show_buf(schc.decompress(pk, ifc))
            c = schc.compress(pk, ifc); d = schc.decompress(c, ifc)
            return f'{show_buf(c)} {show_buf(d)}'
        raise ValueError('bad op ' + op)
    k, v = guarded(run, 5.0)
    return v if k == 'ok' else 'err:' + v

# ------------------------------------------------------------------------------------------------ oracle

LIB = ('ParserError', 'RuleDescriptorMatchError', 'RuleIDMatchError')

def lossless_rule(rule):
    return all((f['mo'], f['cda']) in (('eq', 'ns'), ('ig', 'vs'), ('msb', 'lsb'), ('mm', 'ms'), ('ig', 'co')) for f in rule['fields'])

def fits(packet, rule, descriptors):
    """C01's side conditions: FL of fixed ignore/value-sent equals the field length; residue sizes < 65536"""
    for pf, rf in zip(packet['fields'], descriptors):
        L = len(pf['value']) - 2
        if rf['cda'] in ('vs', 'co') and rf['len'] != 0 and rf['len'] != L: return False
        if rf['cda'] == 'lsb' and rf['len'] != 0 and rf['len'] != L: return False
        if L >= 65536: return False
    return True

def has_dir_specific(rule): return any(f['dir'] != 'B' for f in rule['fields'])

def oracle(line, out):
    body, meta = split_meta(line)
    t = body.split(); stream, op, T = t[0], t[1], Toks(t[2:])
    v = []
    err = out[4:] if out.startswith('err:') else None
    exp_meta = next((m for m in meta if m.startswith('expect=')), None)
    for_meta = next((m for m in meta if m.startswith('for=')), None)
    if exp_meta and for_meta and out != exp_meta.split('=', 1)[1]:
        for p in for_meta.split('=', 1)[1].split(','):
            v.append((p, f'got {out[:120]}, expected {exp_meta.split("=", 1)[1][:120]}'))
    if stream == 'len':
        if op == 'encode':
            n = T.nat()
            if n < 65536:
                if err: v.append(('C17', f'encode({n}) raised {err}'))
                elif out[2:] != spec.enc_len(n): v.append(('C17', f'size {n} announced as {out}, RFC 8724 §7.4.2 says {spec.enc_len(n)}'))
        elif op == 'decode' and 'valid' in meta:
            s = T.next()[2:]; n = int(next(m for m in meta if m.startswith('n=')).split('=')[1])
            exp = f'{n} {len(spec.enc_len(n))}'
            if out != exp: v.append(('C17', f'decode gives {out}, expected {exp}'))
        return v
    if op == 'compress':
        p = p_packet(T); r = p_rule(T)
        if 'aligned' in meta:
            exp = 'R:' + spec.ref_compress(p, r)
            if out != exp: v.append(('C02', f'SCHC packet {out} != reference {exp}'))
    elif op == 'compress2':
        p = p_packet(T); ra = p_rule(T); rb = p_rule(T)
        exp = 'R:' + spec.ref_compress(p, rb)
        if out != exp: v.append(('C02', f'second compress of the same parsed packet gives {out} != reference {exp}')); v.append(('C16', 'compress changed its packet descriptor'))
    elif op == 'decompress':
        s = T.next(); r = p_rule(T)
        if 'conforming' in meta:
            exp = spec.ref_decompress(s[2:], r)
            if err or out[2:] != exp: v.append(('C03', f'decompressed {out} != reference {exp}'))
        if 'total' in meta and err: v.append(('C20', f'decompress raised {err}'))
    elif op in ('roundtrip', 'droundtrip'):
        p = p_packet(T); r = p_rule(T)
        if 'c01' in meta:
            raw = p['raw'][2:]
            if err or out.split(' ')[1][2:] != raw:
                v.append(('C01', f'round trip gives {out}, packet is {raw}'))
            if not err and 'c17' in meta and out.split(' ')[1][2:] != raw: v.append(('C17', 'variable-length field did not round-trip'))
            if err and 'c17' in meta: v.append(('C17', f'variable-length field round trip raised {err}'))
        if 'c18' in meta:
            raw = p['raw'][2:]
            descr = [f for f in r['fields'] if spec.dir_applies(p['dir'], f['dir'])]
            exp_c = 'R:' + spec.ref_compress(p, r, descr)
            if err or out.split(' ')[0] != exp_c or out.split(' ')[1][2:] != raw:
                v.append(('C18', f'direction {p["dir"]}: got {out}, expected SCHC {exp_c} and packet {raw}'))
        if 'c09' in meta:
            raw = p['raw'][2:]
            if err or out.split(' ')[1][2:] != raw: v.append(('C09', f'computed fields not regenerated: {out} vs {raw}'))
    elif op == 'mo':
        name = T.next(); f = p_field(T); val = f['value'][2:]
        if name == 'ig': exp = True
        else:
            tv = p_tv(T)
            if name == 'eq': exp = val == tv[1][2:]
            elif name == 'msb': exp = len(tv[1]) - 2 <= len(val) and val.startswith(tv[1][2:])
            else: exp = any(k[2:] == val for k, _ in tv[1])
        if out != ('true' if exp else 'false'):
            v.append(('C04', f'matching operator {name} gives {out}, the operator holds: {exp}'))
    elif op == 'act':
        name = T.next(); f = p_field(T); val = f['value'][2:]
        if name == 'ns': exp = ''
        elif name == 'vs': exp = val
        elif name == 'ms':
            tv = p_tv(T); hit = [i for k, i in tv[1] if k[2:] == val]
            exp = hit[0][2:] if hit else None
        else:
            n = T.nat(); exp = val[len(val) - n:] if n <= len(val) else None
        if exp is not None and (err or out[2:] != exp):
            v.append(('C02', f'compression action {name} gives {out}, residue is {exp!r}'))
    elif op == 'umcompress':
        if err and err not in LIB: v.append(('C15', f'manager on an explicit stack raised {err}'))
        if out == 'None': v.append(('C15', 'manager returned None'))
        if 'nomatch' in meta and out not in ('err:RuleDescriptorMatchError', 'err:ParserError'): v.append(('C15', f'no rule in the set: got {out}'))
    elif op == 'uroundtrip':
        T.next(); T.next(); T.next(); pk = T.next()
        if err and err not in LIB and 'c15u' in meta: v.append(('C15', f'explicit stack raised {err}'))
        if 'c01u' in meta and (err or out.split(' ')[1][2:] != pk[2:]):
            v.append(('C01', f'round trip through the unparser gives {out} for {pk}'))
            v.append(('C19', f'round trip through the unparser gives {out} for {pk}'))
            if 'c09u' in meta: v.append(('C09', f'round trip through the unparser (compute fields) gives {out} for {pk}'))
    elif op == 'matchall':
        rs = p_rules(T); p = p_packet(T)
        exp = ' '.join(str(i) for i, r in enumerate(rs) if spec.applicable(p, r)) + ';'
        if out != exp:
            v.append(('C04', f'rules offered {out} != expected {exp}'))
            if any(has_dir_specific(r) for r in rs): v.append(('C18', f'rules offered {out} != expected {exp}'))
    elif op == 'fieldmatch':
        f = p_field(T); rf = p_rfield(T)
        exp = 'true' if spec.field_matches(f, rf) else 'false'
        if out != exp: v.append(('C04', f'field match {out} != {exp}'))
    elif op == 'matchschc':
        rs = p_rules(T); s = T.next()[2:]
        hits = [i for i, r in enumerate(rs) if s.startswith(r['id'][2:])]
        if 'prefixfree' in meta and rs:
            exp = str(hits[0]) if hits else 'err:RuleIDMatchError'
            if out != exp: v.append(('C11', f'dispatch gives {out}, expected {exp}'))
    elif op in ('mpcompress',):
        rs = p_rules(T); p = p_packet(T); d = T.next(); st = T.next()
        p = dict(p, dir=d)
        app = [r for r in rs if spec.applicable(p, r)]
        if 'c10' in meta:
            if not app:
                if out != 'err:RuleDescriptorMatchError':
                    v.append(('C15', f'no rule matches: got {out}')); v.append(('C10', f'no rule matches: got {out}'))
            else:
                try:
                    outs = [spec.ref_compress(p, r) for r in app]
                except (StopIteration, AssertionError, KeyError, ValueError):
                    # an applicable rule that cannot encode the packet (e.g. ignore + mapping-sent for a value the mapping
                    # lacks): outside C10's quantifier, nothing to demand of the strategy on this input
                    return v
                if st == 'first': exp = outs[0]
                else: exp = min(outs, key=len)   # first among the shortest
                if err or out[2:] != exp and not (st == 'best' and not err and len(out[2:]) == len(exp) and out[2:] in outs):
                    v.append(('C10', f'{st}: got {out}, expected {exp}'))
                if rs and rs[-1]['nature'] == 'n' and not err and st == 'best' and len(out) - 2 > len(rs[-1]['id']) - 2 + len(p['raw']) - 2:
                    v.append(('C10', 'BEST longer than default rule output'))
    elif op in ('mcompress', 'mroundtrip'):
        pid = unesc(T.next()); rs = p_rules(T); pk = T.next(); d = T.next(); st = T.next()
        if err and err not in LIB: v.append(('C15', f'manager raised {err}'))
        if out == 'None': v.append(('C15', 'manager returned None'))
        if 'nomatch' in meta and out != 'err:RuleDescriptorMatchError': v.append(('C15', f'no rule matches: got {out}'))
        if 'unparsable' in meta and out != 'err:ParserError': v.append(('C15', f'unparsable packet: got {out}'))
        if op == 'mroundtrip' and 'c01' in meta:
            if err or out.split(' ')[1][2:] != pk[2:]: v.append(('C01', f'manager round trip gives {out} for {pk}'))
        if op == 'mroundtrip' and 'c01cut' in meta:
            if err and err != 'ParserError': v.append(('C01', f'manager round trip of a packet cut inside a byte raised {err}'))
            if not err and out.split(' ')[1][2:] != pk[2:]: v.append(('C01', f'manager round trip gives {out} for {pk}'))
        if op == 'mroundtrip' and 'c18m' in meta:
            if err or out.split(' ')[1][2:] != pk[2:]: v.append(('C18', f'manager round trip with direction-specific descriptors gives {out} for {pk}'))
        if op == 'mroundtrip' and 'c09' in meta:
            if err or out.split(' ')[1][2:] != pk[2:]: v.append(('C09', f'computed fields not regenerated: {out} vs {pk}'))
        if 'default' in meta and err: v.append(('C10', f'default rule present but compress raised {err}'))
    elif op in ('mdecompress', 'mdecompressd'):
        rs = p_rules(T); s = T.next()[2:]
        if 'conformingd' in meta:
            # one rule, a direction: the descriptors of that direction are the rule (RFC 8724 §7.1), the rest as C03 states
            d = T.next(); r1 = dict(rs[0], fields=[f for f in rs[0]['fields'] if f['dir'] in (d, 'B')])
            exp = spec.ref_decompress(s, r1)
            if err or out[2:] != exp: v.append(('C03', f'decompressed {out} != reference {exp} (direction {d})'))
        if 'total' in meta:
            if err and err != 'RuleIDMatchError': v.append(('C20', f'decompress raised {err}')); v.append(('C15', f'decompress raised {err}'))
        if 'prefixfree' in meta:
            hits = [r for r in rs if s.startswith(r['id'][2:])]
            if not hits and out != 'err:RuleIDMatchError':
                v.append(('C15', f'no rule id matches: got {out}')); v.append(('C11', f'no rule id matches: got {out}'))
            if hits and out == 'err:RuleIDMatchError':
                v.append(('C15', 'rule-ID error although a rule ID is a prefix of the packet')); v.append(('C11', 'rule-ID error although a rule ID is a prefix of the packet'))
    elif op in ('fcompress', 'fdecompress', 'froundtrip'):
        n = T.nat(); ctxs = [p_context(T) for _ in range(n)]; pk = T.next(); ifc = unesc(T.next())
        if err: v.append(('C15', f'front end raised {err}'))
        if op == 'froundtrip' and 'c15rt' in meta and not err:
            if out.split(' ')[1][2:] != pk[2:]: v.append(('C15', f'front end round trip gives {out} for {pk}'))
    return v

def evaluate(line):
    out = impl(line)
    v = oracle(line, out)
    if line.startswith('schc '):
        # the same operation with every rule first passed through its own JSON serialisation: a reloaded rule carries its
        # direction / operator / action as plain strings, and every property quantifies over such rules too
        from . import codec
        codec.RELOAD = True
        try: out2 = impl(line)
        finally: codec.RELOAD = False
        if out2 != out:
            v = v + [(p, 'with the rules reloaded from their own JSON: ' + m) for (p, m) in oracle(line, out2)]
    return out, v

def nontrivial(line):
    return len(line) > 40

def branch(line, out):
    t = line.split()
    b = f'{t[0]}:{t[1]}'
    if out.startswith('err:'): b += ':' + out[4:]
    return b

def model_line(line):
    """what the (pure) model is asked for this line"""
    body = split_meta(line)[0]
    if body.startswith('schc compress2 '):
        T = Toks(body.split()[2:]); p = p_packet(T); ra = p_rule(T); rb = p_rule(T)
        return f'schc compress {e_packet(p)} {e_rule(rb)}'
    return body

# ------------------------------------------------------------------------------------------------ generators

STACKS = ['IPv6-UDP-CoAP', 'IPv4-UDP-CoAP', 'UDP', 'CoAP', 'SCTP']

def _flip(rng, bits, k):
    b = list(bits)
    for _ in range(k):
        if b:
            i = rng.randrange(len(b)); b[i] = '1' if b[i] == '0' else '0'
    return ''.join(b)

def stack_rule(rng, pkt, rid=None, compute_prob=0.5, lossless=True):
    """a rule matching a parsed stack packet; compute only where the RFC formula has its inputs"""
    r = rulegen.derive_rule(rng, pkt, rid, lossless=lossless, allow_compute=False)
    for k, f in enumerate(r['fields']):
        if f['id'] in rulegen.COMPUTABLE and spec.compute_position_ok(r['fields'], k) and rng.random() < compute_prob:
            L = len(pkt['fields'][k]['value']) - 2
            r['fields'][k] = {'id': f['id'], 'len': L, 'pos': f['pos'], 'dir': 'B', 'mo': 'ig', 'cda': 'co', 'tv': ('b', 'L:')}
    return r

def all_prefix_free_sets(total):
    """all non-empty prefix-free sets of non-empty bit strings with total length <= total (as sorted tuples)"""
    words = [format(v, f'0{k}b') for k in range(1, total + 1) for v in range(1 << k)]
    out = []
    def rec(start, cur, used):
        if cur: out.append(tuple(cur))
        for i in range(start, len(words)):
            w = words[i]
            if used + len(w) > total: continue
            if any(w.startswith(c) or c.startswith(w) for c in cur): continue
            rec(i + 1, cur + [w], used + len(w))
    rec(0, [], 0)
    return out

def gen(props, tier, rng):
    props = set(props)
    q = tier == 'quick'
    # ---------------------------------------------------------------- C17
    if 'C17' in props:
        for n in range(65536):
            yield f'len encode {n}'
        step = 1
        for n in range(0, 65536, step):
            rest = rulegen.rbits(rng, rng.choice([0, 1, 3, 8, 17, 40]))
            yield f"len decode {rng.choice('LR')}:{spec.enc_len(n)}{rest} # valid n={n}"
        sizes = [0, 1, 7, 13, 14, 15, 16, 100, 253, 254, 255, 256, 257, 1000, 4095, 4096] + ([] if q else [20000, 65534, 65535])
        for n in sizes:
            for patlen in [0, 1, 5, 8, 13]:
                for kind in ('vs', 'lsb'):
                    for _ in range(1 if q else 3):
                        before = rulegen.rbits(rng, rng.choice([0, 3, 8, 11])); after = rulegen.rbits(rng, rng.choice([0, 5, 8, 24]))
                        total = n + (patlen if kind == 'lsb' else 0)
                        val = rulegen.rbits(rng, total)
                        fields = [('a', 0, before), ('v', 0, val), ('z', 0, after)]
                        pkt = rulegen.packet_from_fields(fields, rulegen.rbits(rng, rng.choice([0, 7, 16])))
                        rf = [{'id': 'a', 'len': len(before), 'pos': 0, 'dir': 'B', 'mo': 'ig', 'cda': 'vs', 'tv': ('b', 'L:')},
                              {'id': 'v', 'len': 0, 'pos': 0, 'dir': 'B', 'mo': 'ig' if kind == 'vs' else 'msb', 'cda': kind, 'tv': ('b', 'L:' + (val[:patlen] if kind == 'lsb' else ''))},
                              {'id': 'z', 'len': len(after), 'pos': 0, 'dir': 'B', 'mo': 'ig', 'cda': 'vs', 'tv': ('b', 'L:')}]
                        rule = {'id': abuf(rulegen.rbits(rng, rng.choice([1, 3, 8]))), 'nature': 'c', 'fields': rf}
                        yield f'schc roundtrip {e_packet(pkt)} {e_rule(rule)} # c01 c17'
        # the variable-length residue as the LAST bits of the SCHC packet (nothing sent after it, empty or tiny payload), every
        # small size: the size announcement must be read from exactly the bits that are there
        for n in list(range(0, 17)) + [254, 255, 256]:
            for kind in ('vs', 'lsb'):
                for paylen in (0, 0, 1, 3):
                    patlen = rng.choice([0, 2, 8]) if kind == 'lsb' else 0
                    val = rulegen.rbits(rng, n + patlen); z = rulegen.rbits(rng, rng.choice([3, 8]))
                    pkt = rulegen.packet_from_fields([('v', 0, val), ('z', 0, z)], rulegen.rbits(rng, paylen))
                    rf = [{'id': 'v', 'len': 0, 'pos': 0, 'dir': 'B', 'mo': 'ig' if kind == 'vs' else 'msb', 'cda': kind, 'tv': ('b', 'L:' + val[:patlen])},
                          {'id': 'z', 'len': len(z), 'pos': 0, 'dir': 'B', 'mo': 'eq', 'cda': 'ns', 'tv': ('b', 'L:' + z)}]
                    rule = {'id': abuf(rulegen.rbits(rng, rng.choice([1, 3, 8]))), 'nature': 'c', 'fields': rf}
                    yield f'schc roundtrip {e_packet(pkt)} {e_rule(rule)} # c01 c17'
    # ---------------------------------------------------------------- packets and rules shared by C01/C02/C03/C09/C20
    need_pk = props & {'C01', 'C02', 'C03', 'C09', 'C18', 'C20'}
    if need_pk:
        NG = 150 if q else 1500
        NS = 60 if q else 500
        for i in range(NG):
            pkt = rulegen.gen_generic_packet(rng)
            for _ in range(2):
                if 'C02' in props:
                    r = rulegen.derive_rule(rng, pkt, lossless=rng.random() < 0.5, allow_compute=False)
                    yield f'schc compress {e_packet(pkt)} {e_rule(r)} # aligned'
                    if i % 3 == 0:
                        # first everything value-sent behind rule IDs of 8 / 16 / 3 bits (fields land on and off byte boundaries),
                        # then a rule that takes least-significant bits of the same descriptor's fields
                        ra = {'id': abuf(rulegen.rbits(rng, rng.choice([8, 16, 3]))), 'nature': 'c',
                              'fields': [rulegen.derive_rfield(rng, f, pairing=('ig', 'vs'), variable=False, allow_compute=False) for f in pkt['fields']]}
                        rb = {'id': abuf(rulegen.rbits(rng, rng.choice([1, 4, 8]))), 'nature': 'c',
                              'fields': [rulegen.derive_rfield(rng, f, pairing=('msb', 'lsb') if len(f['value']) > 3 else ('ig', 'vs'), variable=False, allow_compute=False) for f in pkt['fields']]}
                        yield f'schc compress2 {e_packet(pkt)} {e_rule(ra)} {e_rule(rb)}'
                r = rulegen.derive_rule(rng, pkt, allow_compute=False, mixed_index=rng.random() < 0.5)
                # widths at the size-class boundaries for variable fields
                if 'C01' in props:
                    yield f'schc roundtrip {e_packet(pkt)} {e_rule(r)} # c01'
                if 'C03' in props:
                    s = spec.ref_compress(pkt, r)
                    side = rng.choice('LR')      # a SCHC packet is any bit string: either padding side, any length
                    yield f'schc decompress {side}:{s} {e_rule(r)} # conforming'
                if 'C20' in props:
                    s = spec.ref_compress(pkt, r)
                    rs = [r]
                    for m in _mutants(rng, s, 6 if q else 12):
                        yield f'schc mdecompress {e_rules(rs)} {m} # total'
                        if rng.random() < 0.3: yield f"schc mdecompressd {e_rules(rs)} {m} {rng.choice('UD')} # total"
                        yield f'schc decompress {m} {e_rule(r)} # total'
        if 'C03' in props:
            # a mapping residue as the very last bits of the packet, for every small prefix-free index set in every dict order
            for code in all_prefix_free_sets(5 if q else 6):
                if len(code) < 2: continue
                orders = list(itertools.permutations(code)) if len(code) <= 3 else [code, tuple(reversed(code))]
                for order in orders:
                    vals = rng.sample(range(16), len(order))
                    mp = [(abuf(format(v, '04b'), rng.choice('LLR')), abuf(c, rng.choice('LLLR'))) for v, c in zip(vals, order)]
                    rule = {'id': abuf(rulegen.rbits(rng, rng.choice([1, 3, 8]))), 'nature': 'c', 'fields': [
                        {'id': 'a', 'len': 3, 'pos': 0, 'dir': 'B', 'mo': 'ig', 'cda': 'vs', 'tv': ('b', 'L:')},
                        {'id': 'w', 'len': 4, 'pos': 0, 'dir': 'B', 'mo': 'mm', 'cda': 'ms', 'tv': ('m', mp)}]}
                    for v, c in zip(vals, order):
                        pkt = rulegen.packet_from_fields([('a', 0, rulegen.rbits(rng, 3)), ('w', 0, format(v, '04b'))], rng.choice(['', '', rulegen.rbits(rng, 3)]))
                        sc = spec.ref_compress(pkt, rule)
                        yield f"schc decompress {rng.choice('LR')}:{sc} {e_rule(rule)} # conforming"
            # conforming peers use sizes the library's own compressor may never produce: boundaries of §7.4.2
            for n in [0, 14, 15, 254, 255, 256, 300] + ([] if q else [4095, 65535]):
                for cda in ('vs', 'lsb'):
                    pat = rulegen.rbits(rng, rng.choice([0, 3, 8])) if cda == 'lsb' else ''
                    val = pat + rulegen.rbits(rng, n)
                    pkt = rulegen.packet_from_fields([('v', 0, val), ('w', 0, rulegen.rbits(rng, 5))], rulegen.rbits(rng, rng.choice([0, 3, 8])))
                    mp = rulegen.gen_mapping(rng, pkt['fields'][1]['value'][2:], mixed=True, kmax=3)
                    rule = {'id': abuf(rulegen.rbits(rng, 4)), 'nature': 'c', 'fields': [
                        {'id': 'v', 'len': 0, 'pos': 0, 'dir': 'B', 'mo': 'ig' if cda == 'vs' else 'msb', 'cda': cda, 'tv': ('b', 'L:' + pat)},
                        {'id': 'w', 'len': 5, 'pos': 0, 'dir': 'B', 'mo': 'mm', 'cda': 'ms', 'tv': ('m', mp)}]}
                    s = spec.ref_compress(pkt, rule)
                    yield f"schc decompress {rng.choice('LR')}:{s} {e_rule(rule)} # conforming"
        for i in range(NS):
            stack = STACKS[i % len(STACKS)]
            data, pkt = rulegen.gen_stack(rng, stack, correct=True)
            raw = 'L:' + packets.bits_of(data)
            r = stack_rule(rng, pkt, compute_prob=0.6)
            if 'C02' in props: yield f'schc compress {e_packet(pkt)} {e_rule(r)} # aligned'
            if 'C02' in props:
                # the action functions themselves (actions/compression.py), on left-padded parsed fields
                for pf, rf in list(zip(pkt['fields'], r['fields']))[:6]:
                    L = len(pf['value']) - 2
                    yield f"schc act ns {e_field(pf)}"
                    yield f"schc act vs {e_field(pf)}"
                    yield f"schc act lsb {e_field(pf)} {rng.randrange(0, L + 1)}"
                    if rf['tv'][0] == 'm': yield f"schc act ms {e_field(pf)} {e_tv(rf['tv'])}"
            if 'C01' in props or 'C09' in props:
                tags = ('c01 ' if 'C01' in props else '') + ('c09' if 'C09' in props and any(f['cda'] == 'co' for f in r['fields']) else '')
                yield f'schc roundtrip {e_packet(pkt)} {e_rule(r)} # {tags}'
                rs = _ruleset_with(rng, pkt, r)
                for st in ('first', 'best'):
                    d = rng.choice('UD')
                    # the strategies may pick another matching rule of the set: all of them are lossless and fitting by construction
                    yield f'schc mroundtrip {esc(stack)} {e_rules(rs)} {raw} {d} {st} # {tags}'
            if 'C01' in props and stack in ('UDP', 'CoAP', 'IPv6-UDP-CoAP', 'IPv4-UDP-CoAP') and len(data) * 8 > 8:
                # the same packet cut inside its last byte (the parsers take what is there), in a LEFT- and in a RIGHT-padded
                # Buffer — IP parsers accept only left padding —: no computed fields (the lengths no longer hold), every descriptor lossless
                cutbits = packets.bits_of(data)[:len(data) * 8 - rng.randrange(1, 8)]
                side = rng.choice('LR') if stack in ('UDP', 'CoAP') else 'L'
                rplain = {'id': abuf(rulegen.rbits(rng, rng.randrange(1, 7))), 'nature': 'n', 'fields': []}
                yield f"schc mroundtrip {esc(stack)} {e_rules([rplain])} {side}:{cutbits} {rng.choice('UD')} {rng.choice(['first', 'best'])} # c01cut"
            if props & {'C01', 'C09', 'C18'}:
                # Up / Dw alternatives in front of (and between) compute fields: positions of the compute fields count
                # in the list of descriptors of the packet's direction, not in the whole rule
                rd = _with_directions(rng, r, pkt, every_position=i)
                co = any(f['cda'] == 'co' for f in rd['fields'])
                tags = ('c01 ' if 'C01' in props else '') + ('c18 ' if 'C18' in props else '') + ('c09' if 'C09' in props and co else '')
                for d in 'UD':
                    yield f'schc droundtrip {e_packet(dict(pkt, dir=d))} {e_rule(rd)} # {tags}'
                rsd = _ruleset_with(rng, pkt, rd)
                for st in ('first', 'best'):
                    yield f"schc mroundtrip {esc(stack)} {e_rules(rsd)} {raw} {rng.choice('UD')} {st} # {tags.replace('c18 ', 'c18m ')}"
                # the rule alone in its set: whichever strategy, both sides must use the descriptors of the direction
                for st in ('first', 'best'):
                    for d in 'UD':
                        yield f"schc mroundtrip {esc(stack)} {e_rules([rd])} {raw} {d} {st} # {tags.replace('c18 ', 'c18m ')}"
            if 'C03' in props:
                s = spec.ref_compress(pkt, r)
                yield f"schc decompress {rng.choice('LR')}:{s} {e_rule(r)} # conforming"
                # … and a rule with Up / Dw alternatives (also in front of compute fields), decompressed for one direction
                rd = _with_directions(rng, r, pkt, every_position=i)
                for d in 'UD':
                    rfs = [f for f in rd['fields'] if f['dir'] in (d, 'B')]
                    sd = spec.ref_compress(dict(pkt, dir=d), rd, descriptors=rfs)
                    yield f"schc mdecompressd {e_rules([rd])} {rng.choice('LR')}:{sd} {d} # conformingd"
            if 'C20' in props:
                s = spec.ref_compress(pkt, r)
                rs = _ruleset_with(rng, pkt, r)
                for m in _mutants(rng, s, 8 if q else 20):
                    yield f'schc mdecompress {e_rules(rs)} {m} # total prefixfree'
                for _ in range(3 if q else 10):
                    yield f"schc mdecompress {e_rules(rs)} {rng.choice('LR')}:{rulegen.rbits(rng, rng.randrange(0, 2000))} # total prefixfree"
                    yield f"schc mdecompressd {e_rules(rs)} {rng.choice('LR')}:{rulegen.rbits(rng, rng.randrange(0, 600))} {rng.choice('UD')} # total prefixfree"
    if props & {'C01', 'C15', 'C11'}:
        # SCHC packets that consist of the rule ID only: every field elided, empty payload
        for i in range(20 if q else 200):
            stack = ['UDP', 'CoAP'][i % 2]
            if stack == 'UDP':
                h, e = packets.build_udp(rng, b'', dport=rng.choice([1, 2000]), correct=True); data = h; exp = e
            else:
                data, exp = packets.build_coap(rng, bytes(rng.randrange(256) for _ in range(rng.randrange(0, 4))), [], b'')
            pkt = rulegen.packet_from_fields(exp, '', 'U')
            ids = rulegen.prefix_free_codes(rng, 3, maxlen=rng.choice([2, 4, 9, 16]))
            r = {'id': abuf(ids[0], rng.choice('LR')), 'nature': 'c', 'fields': [rulegen.derive_rfield(rng, f, pairing=('eq', 'ns')) for f in pkt['fields']]}
            other = {'id': abuf(ids[1]), 'nature': 'c', 'fields': [rulegen.derive_rfield(rng, f, pairing=('ig', 'vs'), variable=False) for f in pkt['fields']]}
            rs = [r, other] if rng.random() < 0.5 else [other, r]
            raw = 'L:' + packets.bits_of(data)
            for st in ('first', 'best'):
                if 'C01' in props: yield f'schc mroundtrip {esc(stack)} {e_rules(rs)} {raw} U {st} # c01'
            if props & {'C15', 'C11'}:
                yield f"schc mdecompress {e_rules(rs)} {rng.choice('LR')}:{ids[0]} # prefixfree total"
                ctx = {'id': 'c', 'iface': 'if0', 'parser': stack, 'rules': [r]}
                if 'C15' in props: yield f'schc froundtrip 1 {e_context(ctx)} {raw} if0 # c15rt'
    if 'C01' in props:
        for n in [254, 255, 256, 300, 1000] + ([] if q else [4095, 40000, 65535]):
            for patlen in [0, 3, 8]:
                for kind in ('vs', 'lsb'):
                    # the residue (whole value for value-sent, value minus the pattern for LSB) has exactly n bits: n = 65535 is the
                    # largest size RFC 8724 §7.4.2 can announce (beyond it the library's AssertionError is C17's subject, not C01's)
                    val = rulegen.rbits(rng, n + (patlen if kind == 'lsb' else 0))
                    pkt = rulegen.packet_from_fields([('a', 0, rulegen.rbits(rng, 5)), ('v', 0, val), ('z', 0, rulegen.rbits(rng, 9))], rulegen.rbits(rng, rng.choice([0, 7, 16])))
                    rf = [{'id': 'a', 'len': 5, 'pos': 0, 'dir': 'B', 'mo': 'ig', 'cda': 'vs', 'tv': ('b', 'L:')},
                          {'id': 'v', 'len': 0, 'pos': 0, 'dir': 'B', 'mo': 'ig' if kind == 'vs' else 'msb', 'cda': kind, 'tv': ('b', 'L:' + (val[:patlen] if kind == 'lsb' else ''))},
                          {'id': 'z', 'len': 9, 'pos': 0, 'dir': 'B', 'mo': 'eq', 'cda': 'ns', 'tv': ('b', pkt['fields'][2]['value'])}]
                    yield f"schc roundtrip {e_packet(pkt)} {e_rule({'id': abuf('101'), 'nature': 'c', 'fields': rf})} # c01"
    # ---------------------------------------------------------------- C04
    if 'C04' in props or 'C18' in props:
        N = 120 if q else 1200
        for i in range(N):
            pkt = rulegen.gen_generic_packet(rng) if i % 3 else rulegen.gen_stack(rng, STACKS[i % 5])[1]
            base = rulegen.derive_rule(rng, pkt, allow_compute=False)
            rules = [base]
            for _ in range(rng.randrange(2, 8)):
                rules.append(rulegen.near_miss(rng, rulegen.derive_rule(rng, pkt, allow_compute=False), pkt)[0])
            if rng.random() < 0.5: rules.append(rulegen.default_rule(rulegen.rbits(rng, 5)))
            if rng.random() < 0.5: rules.append(_with_directions(rng, base, pkt))
            # one unsatisfied descriptor of a given operator in an otherwise matching rule; and the converse: an
            # `ignore` descriptor whose declared length is not the field's (ignore always holds)
            sm = rulegen.single_miss(rng, base, pkt, ('eq', 'msb', 'mm')[i % 3])
            if sm is not None: rules.append(sm)
            if base['fields'] and i % 2:
                ig = copy.deepcopy(base); f = rng.choice(ig['fields'])
                f.update(mo='ig', cda='vs', tv=('b', 'L:'), len=rng.choice([0, f['len'] + 8, max(1, f['len'] // 2), 1]))
                rules.append(ig)
            rng.shuffle(rules)
            for d in 'UD':
                p2 = dict(pkt, dir=d)
                yield f'schc matchall {e_rules(rules)} {e_packet(p2)}'
            for r in rules[:3]:
                for pf, rf in zip(pkt['fields'], r['fields']):
                    if rng.random() < 0.3: yield f'schc fieldmatch {e_field(pf)} {e_rfield(rf)}'
                    if 'C04' in props and rng.random() < 0.3:
                        # the operator functions themselves (matching/operators.py)
                        yield f"schc mo ig {e_field(pf)}"
                        if rf['tv'][0] == 'b':
                            yield f"schc mo eq {e_field(pf)} {e_tv(rf['tv'])}"
                            yield f"schc mo msb {e_field(pf)} {e_tv(rf['tv'])}"
                            yield f"schc mo eq {e_field(pf)} b {pf['value'][0]}:{pf['value'][2:]}"
                            yield f"schc mo msb {e_field(pf)} b {rng.choice('LR')}:{pf['value'][2:2 + rng.randrange(0, len(pf['value']) - 1)]}"
                        else:
                            yield f"schc mo mm {e_field(pf)} {e_tv(rf['tv'])}"
    # ---------------------------------------------------------------- C18
    if 'C18' in props:
        N = 60 if q else 600
        for i in range(N):
            pkt = rulegen.gen_generic_packet(rng)
            r = _with_directions(rng, rulegen.derive_rule(rng, pkt, allow_compute=False), pkt, every_position=i)
            for d in 'UD':
                yield f'schc droundtrip {e_packet(dict(pkt, dir=d))} {e_rule(r)} # c18'
    if 'C18' in props:
        # rule sets whose rules are each for ONE direction (all descriptors Up-or-Bi / Dw-or-Bi): selection through the manager, both strategies
        for i in range(40 if q else 400):
            stack = STACKS[i % 5]
            data, pkt = rulegen.gen_stack(rng, stack)
            ids = rulegen.prefix_free_codes(rng, 5, maxlen=6)
            rules = []
            for k, dd in enumerate('UDUD'):
                r = stack_rule(rng, pkt, ids[k], compute_prob=0.0)
                for f in r['fields']:
                    if rng.random() < 0.5: f['dir'] = dd
                if all(f['dir'] == 'B' for f in r['fields']) and r['fields']: r['fields'][0]['dir'] = dd
                rules.append(r)
            rng.shuffle(rules)
            if rng.random() < 0.5: rules.append(rulegen.default_rule(ids[4]))
            raw = 'L:' + packets.bits_of(data)
            for d in 'UD':
                p2 = dict(pkt, dir=d)
                app = [r for r in rules if spec.applicable(p2, r)]
                for st in ('first', 'best'):
                    if app:
                        outs = [spec.ref_compress(p2, r, [f for f in r['fields'] if spec.dir_applies(d, f['dir'])]) for r in app]
                        exp = 'R:' + (outs[0] if st == 'first' else min(outs, key=len))
                    else:
                        exp = 'err:RuleDescriptorMatchError'
                    yield f'schc mcompress {esc(stack)} {e_rules(rules)} {raw} {d} {st} # expect={exp} for=C18'
    # ---------------------------------------------------------------- C10
    if 'C10' in props:
        N = 150 if q else 1500
        for i in range(N):
            pkt = rulegen.gen_generic_packet(rng)
            rs = rulegen.gen_ruleset(rng, pkt, nmax=8, allow_compute=False)
            if rng.random() < 0.15:
                rs = [r for r in rs if not spec.applicable(dict(pkt, dir='U'), r)] or rs
            for st in ('first', 'best'):
                for d in 'UD':
                    yield f'schc mpcompress {e_rules(rs)} {e_packet(pkt)} {d} {st} # c10'
        for i in range(20 if q else 200):
            stack = STACKS[i % 5]
            data, pkt = rulegen.gen_stack(rng, stack)
            rs = rulegen.gen_ruleset(rng, pkt, nmax=5, with_default=True, allow_compute=False)
            for st in ('first', 'best'):
                yield f"schc mcompress {esc(stack)} {e_rules(rs)} L:{packets.bits_of(data)} {rng.choice('UD')} {st} # default"
    # ---------------------------------------------------------------- C11
    if 'C11' in props:
        total = 5 if q else 6
        maxs = 6 if q else 8
        strings = [format(v, f'0{k}b') if k else '' for k in range(maxs + 1) for v in range(1 << k)]
        for code in all_prefix_free_sets(total):
            perms = list(itertools.permutations(code)) if len(code) <= 3 else [code, tuple(reversed(code))] + [tuple(rng.sample(code, len(code))) for _ in range(2)]
            for perm in perms:
                rules = [rulegen.default_rule(c) if rng.random() < 0.3 else {'id': abuf(c, rng.choice('LR')), 'nature': 'c', 'fields': []} for c in perm]
                er = e_rules(rules)
                for s in (strings if len(code) <= 2 or not q else rng.sample(strings, 40)):
                    yield f"schc matchschc {er} {rng.choice('LR')}:{s} # prefixfree"
                # the same question put to the manager (its own entry point), on the shortest strings: shorter than a rule ID,
                # equal to a rule ID read as a number, empty
                for s in [x for x in strings if len(x) <= 4]:
                    yield f"schc mdecompress {er} {rng.choice('LR')}:{s} # prefixfree total"
        for _ in range(300 if q else 3000):
            n = rng.randrange(1, 9)
            codes = rulegen.prefix_free_codes(rng, n, maxlen=16)
            rules = [{'id': abuf(c, rng.choice('LR')), 'nature': 'c', 'fields': []} for c in codes]
            s = rng.choice(codes + [rulegen.rbits(rng, rng.randrange(0, 20))]) + rulegen.rbits(rng, rng.randrange(0, 60))
            if rng.random() < 0.2: s = s[:rng.randrange(0, len(s) + 1)]
            yield f"schc matchschc {e_rules(rules)} {rng.choice('LR')}:{s} # prefixfree"
            yield f"schc mdecompress {e_rules(rules)} {rng.choice('LR')}:{s} # prefixfree"
        # rule IDs that are whole bytes (8, 16, 24 bits, alone or mixed with other widths) in front of packets of every length
        # modulo 8, on either padding side: the head of the packet is then a byte-aligned slice of an unaligned Buffer
        for _ in range(150 if q else 1500):
            n = rng.randrange(1, 6)
            w = rng.choice([8, 8, 16, 24])
            codes = rulegen.prefix_free_codes(rng, n, fixed_width=w)
            if rng.random() < 0.3 and n > 1:        # one ID shortened to a bit prefix no other ID shares, one lengthened
                codes[0] = codes[0] + rulegen.rbits(rng, rng.randrange(1, 9))
            rules = [{'id': abuf(c, rng.choice('LR')), 'nature': 'c', 'fields': []} for c in codes]
            head = rng.choice(codes) if rng.random() < 0.8 else rulegen.rbits(rng, w)
            s = head + rulegen.rbits(rng, rng.randrange(0, 40))
            if rng.random() < 0.1: s = s[:rng.randrange(0, len(s) + 1)]
            yield f"schc matchschc {e_rules(rules)} {rng.choice('LR')}:{s} # prefixfree"
            yield f"schc mdecompress {e_rules(rules)} {rng.choice('LR')}:{s} # prefixfree"
    # ---------------------------------------------------------------- compute descriptors where the RFC formula lacks its inputs
    if props & {'C09', 'C20'}:
        # outside every property's quantifier (rule sets are well-formed there): model and implementation are only compared
        for i in range(40 if q else 400):
            ids = [rng.choice(rulegen.COMPUTABLE + ['UDP:Source Port', 'IPv6:Source Address', 'IPv4:Source Address', 'f0']) for _ in range(rng.randrange(1, 5))]
            fields = [{'id': x, 'len': 16, 'pos': 0, 'dir': 'B', 'mo': 'ig', 'cda': 'co' if x in rulegen.COMPUTABLE and rng.random() < 0.7 else 'vs', 'tv': ('b', 'L:')} for x in ids]
            r = {'id': abuf(rulegen.rbits(rng, 3)), 'nature': 'c', 'fields': fields}
            yield f"schc decompress {rng.choice('LR')}:{r['id'][2:]}{rulegen.rbits(rng, rng.randrange(0, 80))} {e_rule(r)}"
    # ---------------------------------------------------------------- checksums whose one's-complement sum folds twice
    if props & {'C01', 'C03', 'C09', 'C20'}:
        for i in range(12 if q else 120):
            hdr4 = i % 4 >= 2        # half of them on the IPv4 HEADER checksum: the sum that folds twice, and the checksum that is 0x0000
            data, exp, pl = (packets.build_double_carry_ipv4(rng) if i % 4 == 2 else packets.build_zero_checksum_ipv4(rng)) if hdr4 else packets.build_double_carry_udp(rng, v6=(i % 2 == 0))
            pkt = rulegen.packet_from_fields(exp, packets.bits_of(pl), rng.choice('UD'))
            r = stack_rule(rng, pkt, compute_prob=0.3)
            for k, f in enumerate(r['fields']):
                if f['id'] == ('IPv4:Header Checksum' if hdr4 else 'UDP:Checksum'):
                    r['fields'][k] = {'id': f['id'], 'len': 16, 'pos': f['pos'], 'dir': 'B', 'mo': 'ig', 'cda': 'co', 'tv': ('b', 'L:')}
            sc = spec.ref_compress(pkt, r)
            if props & {'C01', 'C09'}:
                yield f"schc roundtrip {e_packet(pkt)} {e_rule(r)} # {'c01 ' if 'C01' in props else ''}{'c09' if 'C09' in props else ''}"
            if 'C03' in props: yield f"schc decompress {rng.choice('LR')}:{sc} {e_rule(r)} # conforming"
            if 'C20' in props:
                yield f"schc mdecompress {e_rules([r])} {rng.choice('LR')}:{sc} # total prefixfree"
                yield f"schc decompress {rng.choice('LR')}:{sc} {e_rule(r)} # total"
    # ---------------------------------------------------------------- IP in UDP in IP: two IP and two UDP headers in one field list
    if props & {'C01', 'C09'}:
        for i in range(24 if q else 200):
            v6 = i % 2 == 0; build_ip = packets.build_ipv6 if v6 else packets.build_ipv4
            pl = bytes(rng.randrange(256) for _ in range(rng.randrange(0, 24)))
            ih2, ie2, s2, d2 = build_ip(rng, bytes(8) + pl, 17, True)
            uh2, ue2 = packets.build_udp(rng, pl, s2, d2, v6=v6, dport=rng.choice([1000, 2000]), correct=True)
            inner = ih2 + uh2 + pl
            ih1, ie1, s1, d1 = build_ip(rng, bytes(8) + inner, 17, True)
            uh1, ue1 = packets.build_udp(rng, inner, s1, d1, v6=v6, dport=rng.choice([4000, 4789]), correct=True)
            pkt = rulegen.packet_from_fields(ie1 + ue1 + ie2 + ue2, packets.bits_of(pl), rng.choice('UD'))
            r = rulegen.derive_rule(rng, pkt, allow_compute=False)
            # ONE computed field per rule, outer or inner: it is regenerated from its own header's neighbourhood (the nearest IP
            # header in front of a UDP checksum). Several computed fields on repeated headers are left out on purpose: the
            # library orders compute functions by field id (`compute_function_sort`), which cannot tell the two headers apart.
            ks = [k for k, f in enumerate(r['fields']) if f['id'] in rulegen.COMPUTABLE]
            k = ks[(i // 2) % len(ks)]; f = r['fields'][k]      # every computable position, outer and inner, in turn
            r['fields'][k] = {'id': f['id'], 'len': 16, 'pos': f['pos'], 'dir': 'B', 'mo': 'ig', 'cda': 'co', 'tv': ('b', 'L:')}
            if props & {'C01', 'C09'}:
                yield f"schc roundtrip {e_packet(pkt)} {e_rule(r)} # {'c01 ' if 'C01' in props else ''}{'c09' if 'C09' in props else ''}"
    # ---------------------------------------------------------------- the un-parsing path (C01, C19, C09)
    if props & {'C01', 'C19', 'C09'}:
        yield from _gen_unparser(rng, q, props)
    # ---------------------------------------------------------------- C15
    if 'C15' in props:
        yield from _gen_c15(rng, q)

def _mutants(rng, s, n):
    """truncations, flips, id only, sizes announcing more bits than present"""
    out = []
    for _ in range(n):
        k = rng.choice(['trunc', 'trunc', 'flip1', 'flip3', 'rand', 'grow', 'same', 'ones', 'zeros'])
        if k == 'trunc': m = s[:rng.randrange(0, len(s) + 1)]
        elif k == 'flip1': m = _flip(rng, s, 1)
        elif k == 'flip3': m = _flip(rng, s, 3)
        elif k == 'rand': m = rulegen.rbits(rng, rng.randrange(0, 300))
        elif k == 'grow': m = s[:rng.randrange(0, len(s) + 1)] + '1' * rng.randrange(4, 30)
        elif k == 'ones': m = s[:rng.randrange(0, min(len(s), 24) + 1)] + '1' * rng.randrange(28, 120)     # every size prefix at its escape value
        elif k == 'zeros': m = s[:rng.randrange(0, min(len(s), 24) + 1)] + '0' * rng.randrange(0, 120)
        else: m = s
        out.append(f"{'L' if len(m) % 8 == 0 and rng.random() < 0.5 else 'R'}:{m}")
    return out

def sanitize(rule):
    """keep a rule well-formed (RuleSet.WF): compute only on computable ids sitting in their protocol layout"""
    for k, f in enumerate(rule['fields']):
        if f['cda'] == 'co' and not (f['id'] in rulegen.COMPUTABLE and spec.compute_position_ok(rule['fields'], k)):
            f['cda'] = 'vs'; f['mo'] = 'ig'; f['tv'] = ('b', 'L:')
    return rule

def _ruleset_with(rng, pkt, rule):
    """a rule set with prefix-free ids containing `rule`; every other rule that applies to the packet is lossless and fitting"""
    n = rng.randrange(1, 6)
    ids = rulegen.prefix_free_codes(rng, n + 1, maxlen=10)
    rs = []
    k = rng.randrange(n)
    for i in range(n):
        if i == k:
            r = copy.deepcopy(rule); r['id'] = abuf(ids[i], rule['id'][0])
        else:
            cand = sanitize(rulegen.near_miss(rng, stack_rule(rng, pkt, ids[i], compute_prob=0.3), pkt)[0])
            r = cand if not (spec.applicable(dict(pkt, dir='U'), cand) or spec.applicable(dict(pkt, dir='D'), cand)) else stack_rule(rng, pkt, ids[i], compute_prob=0.3)
        rs.append(r)
    if rng.random() < 0.5: rs.append(rulegen.default_rule(ids[n]))
    return rs

def _with_directions(rng, rule, pkt, every_position=None):
    """replace some descriptors by an Up/Dw pair with different target values and actions (C18)"""
    r = copy.deepcopy(rule)
    out = []
    n = len(r['fields'])
    chosen = {every_position % n} if every_position is not None and n else set()
    for k, f in enumerate(r['fields']):
        if k in chosen or rng.random() < 0.3:
            pf = pkt['fields'][k]
            up = rulegen.derive_rfield(rng, pf, direction='U', allow_compute=False)
            dw = rulegen.derive_rfield(rng, pf, direction='D', allow_compute=False)
            pair = [up, dw] if rng.random() < 0.5 else [dw, up]
            out += pair
        else:
            out.append(f)
    r['fields'] = out
    return r

UNPARSER_SPECS = 12

def _gen_unparser(rng, q, props):
    """explicit stacks with CoAP options in semantic mode (and predictive single parsers), rule by recipe, decompress with
    the parser as unparser: every option-number / delta / length class, with and without payload, compute fields included"""
    N = 40 if q else 400
    specs = [('IPv6+UDP+CoAPs', 'IPv6-UDP-CoAP', True), ('IPv4+UDP+CoAPs', 'IPv4-UDP-CoAP', True), ('CoAPs', 'CoAP', False),
             ('IPv6p', 'IPv6-UDP-CoAP', True), ('IPv4p', 'IPv4-UDP-CoAP', True), ('IPv6+UDPp', 'IPv6-UDP-CoAP', True),
             ('IPv6+UDP+CoAP', 'IPv6-UDP-CoAP', True), ('SCTP', 'SCTP', True),
             # a header class listed twice: IPv6-in-IPv6 tunnel, every field must come back exactly once
             ('IPv6+IPv6+UDP+CoAPs', 'tunnel6', False), ('IPv6+IPv6+UDP+CoAP', 'tunnel6', False),
             # the same header classes again AFTER the transport header (IPv6 in UDP in IPv6): each checksum takes the addresses
             # of the nearest IP header in front of it
             ('IPv6+UDP+IPv6+UDP', 'udptunnel6', False), ('IPv4+UDP+IPv4+UDP', 'udptunnel4', False)][:UNPARSER_SPECS]
    recipes = ['v', 'n', 'vn', 'nlv', 'vlm', 'mnv', 'cv', 'cn', 'cvl', 'l']
    styles = ['small', 'mixed', 'boundary', 'big', 'repeat', 'none']
    for i in range(N):
        stackspec, cfg, ip = specs[i % len(specs)]
        rec = recipes[(i // len(specs)) % len(recipes)] if i % 3 else ''.join(rng.choice('vnlmc') for _ in range(rng.randrange(1, 7)))
        if stackspec.endswith('CoAPs') and ip and (i // len(specs)) % 2 == 0 and 'c' not in rec: rec = 'c' + rec   # lengths / checksums over re-encoded options
        if 'c' in rec and not ip: rec = rec.replace('c', 'v')
        if 'C09' in props and 'C01' not in props and 'C19' not in props and 'c' not in rec: rec = 'c' + rec
        if cfg in ('udptunnel6', 'udptunnel4'):
            v6 = cfg.endswith('6'); build_ip = packets.build_ipv6 if v6 else packets.build_ipv4
            pl = bytes(rng.randrange(256) for _ in range(rng.randrange(0, 24)))
            ih2, _, s2, d2 = build_ip(rng, bytes(8) + pl, 17, True)
            uh2, _ = packets.build_udp(rng, pl, s2, d2, v6=v6, dport=rng.choice([1000, 2000]), correct=True)
            inner = ih2 + uh2 + pl
            ih1, _, s1, d1 = build_ip(rng, bytes(8) + inner, 17, True)
            uh1, _ = packets.build_udp(rng, inner, s1, d1, v6=v6, dport=rng.choice([4000, 4789]), correct=True)
            data = ih1 + uh1 + inner
        elif cfg == 'tunnel6':
            inner, _, _ = packets.gen_stack_packet(rng, 'IPv6-UDP-CoAP', correct=True, coap_style=styles[i % len(styles)])
            outer, _, _, _ = packets.build_ipv6(rng, inner, 41, True)
            data = outer + inner
        else:
            data, _, _ = packets.gen_stack_packet(rng, cfg, correct=True, coap_style=styles[i % len(styles)])
        rid = abuf(rulegen.rbits(rng, rng.randrange(1, 9)), rng.choice('LLR'))
        tags = 'c01u' + (' c09u' if 'c' in rec else '')
        yield f"schc uroundtrip {stackspec} {rec} {rid} L:{packets.bits_of(data)} {rng.choice('UD-')} # {tags}"

def _gen_c15_explicit(rng, q):
    """well-formed and damaged packets through explicit stacks (CoAP options in semantic mode, next-header prediction):
    whatever happens, only the library's own errors may come out"""
    specs = [('IPv6+UDP+CoAPs', 'IPv6-UDP-CoAP'), ('IPv4+UDP+CoAPs', 'IPv4-UDP-CoAP'), ('CoAPs', 'CoAP'), ('IPv6p', 'IPv6-UDP-CoAP'), ('UDPp', 'UDP'),
             ('id=IPv6-UDP-CoAP', 'IPv6-UDP-CoAP'), ('id=IPv4', 'IPv4-UDP-CoAP')]
    for i in range(30 if q else 300):
        stackspec, cfg = specs[i % len(specs)]
        data, _, _ = packets.gen_stack_packet(rng, cfg, correct=True, coap_style=['small', 'mixed', 'boundary', 'none'][i % 4])
        dflt = [rulegen.default_rule(rulegen.rbits(rng, rng.randrange(1, 6)))]
        variants = [data, data[:rng.randrange(0, len(data) + 1)], data[:rng.randrange(0, len(data) + 1)]]
        # option bytes with the reserved nibble 15 (not the 0xFF marker), alone and after real options; damaged tails
        cut = len(data) - rng.randrange(0, 6)
        variants += [data[:cut] + bytes([0xf0 | rng.randrange(0, 15)]) + bytes(rng.randrange(256) for _ in range(rng.randrange(0, 4))),
                     data[:cut] + bytes([rng.randrange(0, 15) << 4 | 0x0f]) + bytes(rng.randrange(0, 3)),
                     data[:cut] + bytes(rng.randrange(256) for _ in range(rng.randrange(1, 5)))]
        # header bytes that announce something else than what follows: every value of the first byte's nibbles (version, IPv4
        # header length with options), other next-header / protocol numbers, lengths, and one random byte anywhere in the headers
        if data:
            variants += [bytes([data[0] & 0xf0 | rng.randrange(16)]) + data[1:], bytes([rng.randrange(16) << 4 | data[0] & 0x0f]) + data[1:]]
            for _ in range(3):
                k = rng.randrange(0, min(len(data), 60))
                variants.append(data[:k] + bytes([rng.choice([0, 1, 6, 17, 41, 132, 255, rng.randrange(256)])]) + data[k + 1:])
        if cfg != 'UDP':
            base = {'IPv6-UDP-CoAP': 48, 'IPv4-UDP-CoAP': 28, 'CoAP': 0}[cfg]
            for a in (0xf1, 0xf7, 0xe0, 0xd0, 0x1f):
                variants.append(data[:base + 4] + bytes([a, 0x41]))          # right after a token-less CoAP fixed header
        for m in variants:
            bits = 'L:' + packets.bits_of(m)
            yield f"schc umcompress {stackspec} {e_rules(dflt)} {bits} {rng.choice('UD')} {rng.choice(['first', 'best'])}"
            yield f"schc umcompress {stackspec} 0 {bits} {rng.choice('UD')} {rng.choice(['first', 'best'])} # nomatch"
            if not stackspec.startswith('id='): yield f"schc uroundtrip {stackspec} {rng.choice(['v', 'vn', 'nl'])} L:1 {bits} {rng.choice('UD-')} # c15u"

def _gen_c15(rng, q):
    yield from _gen_c15_explicit(rng, q)
    # every SCHC packet of at most 4 bits against every small prefix-free rule-ID set, through the manager: packets shorter
    # than a rule ID, equal to one read as a number, empty — the rule-ID error or a rule whose ID is a prefix, nothing else
    short = [format(v, f'0{k}b') if k else '' for k in range(5) for v in range(1 << k)]
    for code in all_prefix_free_sets(4 if q else 5):
        rules = [rulegen.default_rule(c) if rng.random() < 0.3 else {'id': abuf(c, rng.choice('LR')), 'nature': 'c', 'fields': []} for c in code]
        for sbits in (short if len(code) <= 2 else rng.sample(short, 8)):
            yield f"schc mdecompress {e_rules(rules)} {rng.choice('LR')}:{sbits} # prefixfree total"
    N = 60 if q else 500
    for i in range(N):
        stack = STACKS[i % 5]
        data, pkt = rulegen.gen_stack(rng, stack)
        raw = 'L:' + packets.bits_of(data)
        good = stack_rule(rng, pkt, compute_prob=0.0)
        miss = [r for r in (rulegen.near_miss(rng, stack_rule(rng, pkt, compute_prob=0.0), pkt)[0] for _ in range(4)) if not spec.applicable(dict(pkt, dir='U'), r) and not spec.applicable(dict(pkt, dir='D'), r)]
        ids = rulegen.prefix_free_codes(rng, 8, maxlen=8)
        for k, r in enumerate(miss): r['id'] = abuf(ids[k])
        # one descriptor of each operator kind that the packet does not satisfy, everything else matching
        for kind in ('eq', 'msb', 'mm'):
            sm = rulegen.single_miss(rng, good, pkt, kind)
            if sm is not None and not spec.applicable(dict(pkt, dir='U'), sm) and not spec.applicable(dict(pkt, dir='D'), sm):
                yield f"schc mcompress {esc(stack)} {e_rules([sm])} {raw} {rng.choice('UD')} {rng.choice(['first', 'best'])} # nomatch"
        for st in ('first', 'best'):
            if miss: yield f"schc mcompress {esc(stack)} {e_rules(miss)} {raw} {rng.choice('UD')} {st} # nomatch"
            short = raw[:2 + rng.choice([0, 8, 16, 24])]
            yield f"schc mcompress {esc(stack)} {e_rules(miss or [good])} {short} U {st} # unparsable"
        yield f"schc mdecompress {e_rules(miss or [good])} R:{rulegen.rbits(rng, rng.randrange(0, 40))} # total"
        # front end: 1..4 contexts on one interface; the packet matches the first, a later or no context
        good['id'] = abuf(ids[5]); good_u = copy.deepcopy(good)
        nctx = rng.randrange(1, 5)
        where = rng.choice(['first', 'later', 'none'])
        pos = 0 if where == 'first' else rng.randrange(1, nctx) if (where == 'later' and nctx > 1) else None
        ctxs = []
        for c in range(nctx):
            if pos is not None and c == pos:
                ctxs.append({'id': f'ctx{c}', 'iface': 'if0', 'parser': stack, 'rules': (miss[:1] if rng.random() < 0.5 else []) + [good_u]})
            elif rng.random() < 0.5 and miss:
                ctxs.append({'id': f'ctx{c}', 'iface': 'if0', 'parser': stack, 'rules': miss[:2]})
            else:
                # another stack for which the packet is too short to parse, with rule ids that collide with nothing
                other = 'IPv6-UDP-CoAP' if len(data) < 40 else None
                if other and other != stack:
                    ctxs.append({'id': f'ctx{c}', 'iface': 'if0', 'parser': other, 'rules': [rulegen.default_rule(ids[6])]})
                elif miss:
                    ctxs.append({'id': f'ctx{c}', 'iface': 'if0', 'parser': stack, 'rules': miss[:1]})
                else:
                    ctxs.append({'id': f'ctx{c}', 'iface': 'if0', 'parser': stack, 'rules': [good_u]}); pos = c if pos is None else min(pos, c)
        ctxs.append({'id': 'other', 'iface': 'if1', 'parser': stack, 'rules': [good_u]})
        # expected: the first context (in order) that parses and has a matching rule
        firsthit = next((c for c in ctxs if c['iface'] == 'if0' and c['parser'] == stack and any(spec.applicable(dict(pkt, dir='U'), r) for r in c['rules'])), None)
        if firsthit:
            r0 = next(r for r in firsthit['rules'] if spec.applicable(dict(pkt, dir='U'), r))
            exp = 'R:' + spec.ref_compress(dict(pkt, dir='U'), r0)
        else:
            exp = raw
        enc = f"{len(ctxs)} " + ' '.join(e_context(c) for c in ctxs)
        yield f'schc fcompress {enc} {raw} if0 # expect={exp} for=C15'
        yield f"schc froundtrip {enc} {raw} if0 # {'c15rt' if firsthit else 'nohit'}"
        yield f"schc fdecompress {enc} R:{rulegen.rbits(rng, rng.randrange(0, 64))} if0"

def in_domain(domain, line):
    body, meta = split_meta(line)
    t = body.split()
    if domain == 'rule_has_descriptor_not_applicable_to_direction':
        if t[1] not in ('roundtrip', 'droundtrip') or 'c18' not in meta: return False
        T = Toks(t[2:]); p = p_packet(T); r = p_rule(T)
        return any(not spec.dir_applies(p['dir'], f['dir']) for f in r['fields'])
    return False
