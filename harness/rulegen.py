"""Generators of packets (plain dict form), rules derived from them, near-miss edits, rule sets."""
import copy
from . import packets, spec
from .codec import abuf

COMPUTABLE = ['IPv4:Total Length', 'IPv4:Header Checksum', 'IPv6:Payload Length', 'UDP:Length', 'UDP:Checksum', 'SCTP:Checksum']

def rbits(rng, n): return ''.join(rng.choice('01') for _ in range(n))

def packet_from_fields(fields, payload_bits, direction='U', side='L'):
    """fields: [(id, pos, bits)] -> plain packet dict (left-padded field values, raw = concatenation)"""
    raw = ''.join(b for _, _, b in fields) + payload_bits
    return {'dir': direction, 'fields': [{'id': i, 'pos': p, 'value': abuf(b, side)} for i, p, b in fields],
            'payload': abuf(payload_bits, side), 'raw': abuf(raw, side)}

def gen_generic_packet(rng, nmax=6):
    """a generic field list (ids f0..fn), lengths over all residues mod 8, payload possibly empty / unaligned"""
    n = rng.randrange(1, nmax + 1)
    fields = [(f'f{i}', 0, rbits(rng, rng.choice([1, 2, 3, 4, 5, 7, 8, 9, 12, 16, 17, 24, 31, 32, 40]))) for i in range(n)]
    payload = rbits(rng, rng.choice([0, 0, 1, 5, 8, 13, 16, 64]))
    return packet_from_fields(fields, payload, rng.choice('UD'))

def gen_stack(rng, stack, correct=True, coap_style=None):
    data, exp, pl = packets.gen_stack_packet(rng, stack, correct=correct, coap_style=coap_style)
    return data, packet_from_fields(exp, packets.bits_of(pl), rng.choice('UD'))

def prefix_free_codes(rng, n, fixed_width=None, maxlen=6):
    """n distinct prefix-free bit strings; fixed width or mixed widths (a random binary code tree)"""
    if fixed_width is not None:
        if fixed_width == 0: return ['']            # one entry, sent on zero bits: {''} is prefix-free
        vals = rng.sample(range(1 << fixed_width), n)
        return [format(v, f'0{fixed_width}b') for v in vals]
    leaves = ['']
    while len(leaves) < n:
        splittable = [l for l in leaves if len(l) < maxlen]
        l = rng.choice(splittable); leaves.remove(l); leaves += [l + '0', l + '1']
    rng.shuffle(leaves)
    return leaves[:n]

def gen_mapping(rng, value_bits, mixed=False, kmax=3, side=None):
    """forward mapping [(value tok, index tok)] containing value_bits at a random place"""
    k = rng.randrange(0, kmax + 1)
    n = rng.randrange(1, (1 << k) + 1)
    L = len(value_bits)
    n = min(n, 1 << min(L, 10)) if L > 0 else 1
    vals = {value_bits}
    guard = 0
    while len(vals) < n and guard < 200:
        vals.add(rbits(rng, L)); guard += 1
    vals = list(vals); rng.shuffle(vals)
    n = len(vals)
    if mixed and n > 1:
        codes = prefix_free_codes(rng, n)
    else:
        w = max(k, (n - 1).bit_length())
        codes = prefix_free_codes(rng, n, fixed_width=w)
    sd = lambda: side or rng.choice('LLR')
    return [(abuf(v, sd()), abuf(c, sd())) for v, c in zip(vals, codes)]

LOSSLESS = [('eq', 'ns'), ('ig', 'vs'), ('msb', 'lsb'), ('mm', 'ms')]
ALL_MO = ['eq', 'ig', 'msb', 'mm']

def derive_rfield(rng, f, direction='B', pairing=None, allow_compute=True, variable=None, mixed_index=False, tv_side=None, pos_in_stack_ok=True):
    """a rule field descriptor that matches packet field f"""
    v = f['value'][2:]; L = len(v)
    if pairing is None:
        pairing = rng.choice(LOSSLESS)
        if allow_compute and f['id'] in COMPUTABLE and pos_in_stack_ok and rng.random() < 0.5:
            pairing = ('ig', 'co')
    mo, cda = pairing
    variable = (rng.random() < 0.3) if variable is None else variable
    fl = 0 if (variable and cda in ('vs', 'lsb')) else L
    if cda in ('ms', 'ns') and rng.random() < 0.2:
        fl = 0          # declared variable-length: no size is sent for these actions (RFC 8724 §7.4.2), the index / nothing is
    sd = tv_side or rng.choice('LLLR')
    if mo == 'mm' or cda == 'ms':
        tv = ('m', gen_mapping(rng, v, mixed=mixed_index))
    elif mo == 'msb' or cda == 'lsb':
        x = rng.choice([0, L, rng.randrange(0, L + 1), rng.randrange(0, L + 1), max(0, L - 1), min(L, 1), min(L, 8), max(0, L - 8)])
        tv = ('b', abuf(v[:x], sd))
    elif mo == 'eq' or cda == 'ns':
        tv = ('b', abuf(v, sd))
    else:
        tv = ('b', abuf(rng.choice(['', v, rbits(rng, L)]), sd))
    if cda == 'co':
        fl = L
    return {'id': f['id'], 'len': fl, 'pos': f['pos'], 'dir': direction, 'mo': mo, 'cda': cda, 'tv': tv}

def derive_rule(rng, packet, rule_id=None, lossless=True, allow_compute=True, mixed_index=False, stack_positions_ok=True):
    rid = rule_id if rule_id is not None else rbits(rng, rng.randrange(1, 17))
    fs = []
    for f in packet['fields']:
        pairing = None if lossless else (rng.choice(ALL_MO), rng.choice(['ns', 'vs', 'lsb', 'ms']))
        if pairing is not None:
            # keep the target-value type consistent with what the library's asserts demand
            mo, cda = pairing
            if (mo == 'mm') != (cda == 'ms'):
                pairing = rng.choice(LOSSLESS)
        fs.append(derive_rfield(rng, f, pairing=pairing, allow_compute=allow_compute, mixed_index=mixed_index, pos_in_stack_ok=stack_positions_ok))
    return {'id': abuf(rid, rng.choice('LLR')), 'nature': 'c', 'fields': fs}

def default_rule(rid): return {'id': abuf(rid, 'L'), 'nature': 'n', 'fields': []}

def near_miss(rng, rule, packet):
    """one or two edits of a matching rule (C04): returns (edited rule, description)"""
    r = copy.deepcopy(rule)
    def edit():
        if not r['fields']: return 'none'
        k = rng.randrange(len(r['fields'])); f = r['fields'][k]
        choice = rng.choice(['flip', 'longer', 'shorter', 'drop', 'dup', 'swap', 'dir', 'id', 'fl', 'mapdel', 'longer0'])
        if choice == 'flip' and f['tv'][0] == 'b' and len(f['tv'][1]) > 2:
            t = f['tv'][1]; i = rng.randrange(2, len(t)); f['tv'] = ('b', t[:i] + ('1' if t[i] == '0' else '0') + t[i + 1:])
        elif choice == 'longer' and f['mo'] == 'msb':
            f['tv'] = ('b', f['tv'][1] + rng.choice('01'))
        elif choice == 'longer0' and f['mo'] == 'msb':
            # the pattern continued with the packet's own next bits or with zeros
            v = packet['fields'][min(k, len(packet['fields']) - 1)]['value'][2:]
            f['tv'] = ('b', f['tv'][1][:2] + v + '0' * rng.randrange(1, 9))
        elif choice == 'shorter' and f['mo'] == 'msb' and len(f['tv'][1]) > 2:
            f['tv'] = ('b', f['tv'][1][:-1])
        elif choice == 'drop': del r['fields'][k]
        elif choice == 'dup': r['fields'].insert(k, copy.deepcopy(f))
        elif choice == 'swap' and len(r['fields']) > 1:
            j = (k + 1) % len(r['fields']); r['fields'][k], r['fields'][j] = r['fields'][j], r['fields'][k]
        elif choice == 'dir': f['dir'] = rng.choice('UDB')
        elif choice == 'id': f['id'] = f['id'] + 'x' if rng.random() < 0.5 else r['fields'][(k + 1) % len(r['fields'])]['id']
        elif choice == 'fl': f['len'] = rng.choice([0, f['len'] + 1, max(0, f['len'] - 1), f['len'] + 8])
        elif choice == 'mapdel' and f['tv'][0] == 'm' and len(f['tv'][1]) > 1:
            m = list(f['tv'][1]); del m[rng.randrange(len(m))]; f['tv'] = ('m', m)
        else:
            return 'none'
        return choice
    d = [edit() for _ in range(rng.choice([1, 1, 2]))]
    return r, '+'.join(d)

def single_miss(rng, rule, packet, kind):
    """a matching rule with ONE descriptor replaced by one of the given operator that the packet's field does not
    satisfy (kind: 'eq' target differs in one bit, 'msb' pattern differs in one bit, 'mm' mapping without the value);
    None when the packet has no non-empty field"""
    ks = [k for k, f in enumerate(packet['fields']) if len(f['value']) > 2 and k < len(rule['fields'])]
    if not ks: return None
    r = copy.deepcopy(rule)
    k = rng.choice(ks); pf = packet['fields'][k]; v = pf['value'][2:]; L = len(v)
    i = rng.randrange(L); w = v[:i] + ('1' if v[i] == '0' else '0') + v[i + 1:]
    f = r['fields'][k]
    # the same NUMBER on another width is another value: v with zeros in front, or without its leading zeros
    same_number = ['0' * rng.randrange(1, 17) + v] + ([v.lstrip('0') or '0'] if v.startswith('0') and len(v) > 1 else [])
    if kind == 'eq':
        if rng.random() < 0.3: w = rng.choice(same_number)
        f.update(mo='eq', cda='ns', tv=('b', abuf(w, rng.choice('LLR'))), len=rng.choice([L, len(w)]))
    elif kind == 'msb':
        x = rng.randrange(i + 1, L + 1)
        f.update(mo='msb', cda='lsb', tv=('b', abuf(w[:x], rng.choice('LLR'))), len=rng.choice([L, L, 0]))
    else:
        m = [(val, idx) for (val, idx) in gen_mapping(rng, w) if val[2:] != v]
        if rng.random() < 0.5:
            x = rng.choice(same_number)
            m = [(val, idx) for (val, idx) in gen_mapping(rng, x, side='L' if rng.random() < 0.7 else None) if val[2:] != v]
        f.update(mo='mm', cda='ms', tv=('m', m), len=L)
    return r

def gen_ruleset(rng, packet, nmax=8, with_default=None, stack_ok=True, allow_compute=True):
    """1..nmax rules with prefix-free ids; some match the packet (different gains), some do not"""
    n = rng.randrange(1, nmax + 1)
    ids = prefix_free_codes(rng, n + 1, maxlen=10) if rng.random() < 0.6 else prefix_free_codes(rng, n + 1, fixed_width=rng.randrange(max(1, n.bit_length()), 9))
    rules = []
    for i in range(n):
        kind = rng.choice(['match', 'match', 'miss', 'sendall', 'sparse'])
        if kind == 'match':
            r = derive_rule(rng, packet, ids[i], allow_compute=allow_compute, stack_positions_ok=stack_ok)
        elif kind == 'sendall':
            r = {'id': abuf(ids[i]), 'nature': 'c', 'fields': [derive_rfield(rng, f, pairing=('ig', 'vs'), variable=rng.random() < 0.5) for f in packet['fields']]}
        elif kind == 'sparse':
            r = {'id': abuf(ids[i]), 'nature': 'c', 'fields': [derive_rfield(rng, f, pairing=rng.choice([('eq', 'ns'), ('eq', 'ns'), ('ig', 'vs')]), variable=False) for f in packet['fields']]}
        else:
            r, _ = near_miss(rng, derive_rule(rng, packet, ids[i], allow_compute=allow_compute, stack_positions_ok=stack_ok), packet)
        rules.append(r)
    with_default = (rng.random() < 0.5) if with_default is None else with_default
    if with_default:
        rules.append(default_rule(ids[n]))
    return rules
