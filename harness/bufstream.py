"""Stream `buf`: every Buffer operation, on the real code, against the bit-string oracle and the Lean model.

Line protocol (same lines go to the Lean driver):  buf <op> <args…>, operands as hex:len:side.
Result lines: buffers as hex:len:side:padlen ('-' for empty content), errors as err:<Class>.
"""
import itertools, random
from . import spec
from .common import guarded

OPS_BY_PROP = {
    'C05': ['new', 'iter', 'copy', 'getslice', 'getbit', 'setslice', 'setbit', 'add', 'pad'],
    'C06': ['shift', 'and', 'or', 'xor', 'invert', 'value', 'chunks'],
    'C13': ['eq', 'hash', 'eqbytes', 'hashset'],
    'C16': ['seq'],
}
PROP_OF_OP = {op: p for p, ops in OPS_BY_PROP.items() for op in ops}

# ---------------------------------------------------------------- encoding helpers

def enc(content: bytes, length: int, side: str) -> str:
    return f"{content.hex() or '-'}:{length}:{side}"

def enc_bits(bits: str, side: str) -> str:
    return enc(spec.canonical_content(bits, side), len(bits), side)

def dec(tok):
    h, n, s = tok.split(':')
    return (b'' if h == '-' else bytes.fromhex(h)), int(n), s

def tok_bits(tok):
    c, n, s = dec(tok)
    return spec.ctor_bits(c, n, s), s

def show(b):
    from microschc.binary.buffer import Padding
    side = 'L' if b.padding is Padding.LEFT else 'R' if b.padding is Padding.RIGHT else f'?{b.padding!r}'
    if len(b) != b.length: return f"len()={len(b)}-but-length={b.length}"
    return f"{b.content.hex() or '-'}:{b.length}:{side}:{b.padding_length}"

def mk(tok):
    from microschc.binary.buffer import Buffer, Padding
    c, n, s = dec(tok)
    return Buffer(content=c, length=n, padding=Padding.LEFT if s == 'L' else Padding.RIGHT)

# ---------------------------------------------------------------- the real code

def impl(line: str) -> str:
    from microschc.binary.buffer import Buffer, Padding
    t = line.split()
    assert t[0] == 'buf'
    op, a = t[1], t[2:]
    P = {'L': Padding.LEFT, 'R': Padding.RIGHT}
    def run():
        if op == 'new':
            return show(Buffer(content=b'' if a[0] == '-' else bytes.fromhex(a[0]), length=int(a[1]), padding=P[a[2]]))
        if op == 'iter':
            return ''.join(str(x) for x in mk(a[0]))
        if op == 'copy':
            b = mk(a[0]); r = b.copy()
            if r is b: return 'alias:copy() returned the operand object itself'
            return show(r)
        if op == 'getslice':
            s = None if a[1] == '-' else int(a[1]); e = None if a[2] == '-' else int(a[2])
            b = mk(a[0]); r = b[s:e]
            if r is b: return 'alias:slicing returned the operand object itself'
            return show(r)
        if op == 'getbit':
            return show(mk(a[0])[int(a[1])])
        if op == 'setslice':
            b = mk(a[0]); b[int(a[1]):int(a[2])] = mk(a[3]); return show(b)
        if op == 'seq':
            # one long-lived Buffer through a sequence of observations and in-place changes (tokens use ',' inside)
            b = mk(a[0]); obs = []
            for tok in a[1:]:
                k = tok.split(',')
                if k[0] == 'v': obs.append(str(b.value()))
                elif k[0] == 'h':
                    key = b.pad(Padding.LEFT, inplace=False).content
                    obs.append((key.hex() or '-') if hash(b) == hash(key) else 'hash-not-of-left-content')
                elif k[0] == 'i': obs.append(''.join(str(x) for x in b) or '-')
                elif k[0] == 'n': obs.append(str(len(b)))
                elif k[0] == 'e': obs.append('true' if b == mk(k[1]) else 'false')
                elif k[0] == 'g': obs.append(show(b[int(k[1]):int(k[2])]))
                elif k[0] == 'S': b[int(k[1]):int(k[2])] = mk(k[3])
                elif k[0] == 'B': b[int(k[1])] = mk(k[2])
                elif k[0] == 'H': b.shift(int(k[1]), inplace=True)
                elif k[0] == 'P': b.pad(P[k[1]], inplace=True)
                else: raise ValueError(tok)
            return '|'.join(obs) + ' ; ' + show(b)
        if op == 'setbit':
            b = mk(a[0]); b[int(a[1])] = mk(a[2]); return show(b)
        if op == 'add':
            x, y = mk(a[0]), mk(a[1]); r = x + y
            if r is x or r is y: return 'alias:a + b returned one of its operands (not a new Buffer)'
            return f"{show(r)} {show(x)} {show(y)}"
        if op == 'pad':
            b = mk(a[0]); r = b.pad(P[a[1]], inplace=(a[2] == '1'))
            if r is b and a[2] != '1': return 'alias:pad(inplace=False) returned the operand object itself'
            return f"{show(r)} {show(b)}"
        if op == 'shift':
            b = mk(a[0]); r = b.shift(int(a[1]), inplace=(a[2] == '1'))
            if r is b and a[2] != '1': return 'alias:shift(inplace=False) returned the operand object itself'
            return f"{show(r)} {show(b)}"
        if op in ('and', 'or', 'xor'):
            x, y = mk(a[0]), mk(a[1])
            r = (x & y) if op == 'and' else (x | y) if op == 'or' else (x ^ y)
            if r is x or r is y: return 'alias:bitwise operator returned one of its operands'
            return f"{show(r)} {show(y)}"
        if op == 'eq':
            x, y = mk(a[0]), mk(a[1]); r = (x == y)
            return f"{'true' if r else 'false'} {show(y)}"
        if op == 'eqbytes':
            return 'true' if mk(a[0]) == (b'' if a[1] == '-' else bytes.fromhex(a[1])) else 'false'
        if op == 'invert':
            b = mk(a[0]); r = ~b
            if r is b: return 'alias:~b returned the operand object itself'
            return show(r)
        if op == 'value':
            b = mk(a[0]); v = b.value(); return f"{v} {show(b)}"
        if op == 'hash':
            b = mk(a[0]); h = hash(b)
            # the model exposes the hashed key; the implementation only the hash: compare through a
            # canonical re-derivation (hash of the left-padded content) and report the key itself
            key = b.pad(Padding.LEFT, inplace=False).content
            ok = (h == hash(key))
            return f"{key.hex() or '-'} {show(b)}" if ok else f"hash-not-of-left-content {show(b)}"
        if op == 'chunks':
            b = mk(a[0]); cs = list(b.chunks(int(a[1]), padding=(a[2] == '1')))
            if any(c is b for c in cs): return 'alias:chunks() returned the operand object itself as a chunk'
            return ' '.join(show(c) for c in cs)
        if op == 'hashset':
            # a Buffer used as a key, then modified by slice assignment, then compared with a freshly built equal one
            b = mk(a[0]); hash(b); {b: 1}
            b[int(a[1]):int(a[2])] = mk(a[3])
            fresh = Buffer(content=b.content, length=b.length, padding=b.padding)
            other = fresh.pad(Padding.RIGHT if b.padding is Padding.LEFT else Padding.LEFT, inplace=False)
            ok_eq = (b == fresh) and (b == other)
            ok_hash = hash(b) == hash(fresh) == hash(other) and (b in {fresh: 1}) and (other in {b})
            return f"{'true' if ok_eq else 'false'} {'true' if ok_hash else 'false'}"
        raise ValueError('bad op ' + op)
    k, v = guarded(run, 3.0)
    return v if k == 'ok' else 'err:' + v

# ---------------------------------------------------------------- the oracle (property text on bit strings)

def _canon(tok4, bits=None, side=None):
    """problems of a result buffer hex:len:side:padlen against expected bits/side"""
    try:
        h, n, s, pl = tok4.split(':')
        n = int(n); pl = int(pl); c = b'' if h == '-' else bytes.fromhex(h)
    except Exception:
        return [f'malformed result {tok4}']
    out = []
    if bits is not None and n != len(bits):
        out.append(f'length {n} != {len(bits)}')
    if side is not None and s != side:
        out.append(f'side {s} != {side}')
    if pl != spec.pad_len(n):
        out.append(f'padding_length {pl} != {spec.pad_len(n)}')
    if s in ('L', 'R'):
        got = spec.ctor_bits(c, n, s)
        if len(c) != (n + 7) // 8 or c != spec.canonical_content(got, s):
            out.append(f'not canonical: {len(c)} bytes {c.hex()} for {n} bits')
        if bits is not None and got != bits:
            out.append(f'bits {got} != {bits}')
    return out

def _same(tok4, tok3):
    """operand post-state equals its pre-state"""
    c, n, s = dec(tok3)
    exp = f"{spec.canonical_content(spec.ctor_bits(c, n, s), s).hex() or '-'}:{n}:{s}:{spec.pad_len(n)}"
    return [] if tok4 == exp else [f'operand changed: {exp} -> {tok4}']

def oracle(line: str, out: str):
    """list of (property, message) the implementation's output violates"""
    t = line.split(); op, a = t[1], t[2:]
    prop = PROP_OF_OP[op]
    if out.startswith('alias:'):
        # object identity: a non-in-place operation must hand back a new Buffer (else a later in-place operation on the
        # result silently changes the operand); nothing is demanded of what an in-place operation returns
        return [(prop, out[6:]), ('C16', out[6:])]
    v = []
    def bad(p, msgs):
        v.extend((p, m) for m in msgs)
    if out.startswith('err:'):
        if op in ('and', 'or', 'xor') and tok_bits(a[0])[0].__len__() != tok_bits(a[1])[0].__len__() and out == 'err:ValueError':
            return v
        return [(prop, f'raised {out[4:]}')]
    r = out.split(' ')
    if op == 'new':
        c = b'' if a[0] == '-' else bytes.fromhex(a[0])
        bad('C05', _canon(r[0], spec.ctor_bits(c, int(a[1]), a[2]), a[2]))
    elif op == 'iter':
        if out != tok_bits(a[0])[0]: bad('C05', [f'iter {out} != {tok_bits(a[0])[0]}'])
    elif op == 'copy':
        b, s = tok_bits(a[0]); bad('C05', _canon(r[0], b, s))
    elif op == 'getslice':
        b, s = tok_bits(a[0]); st = None if a[1] == '-' else int(a[1]); en = None if a[2] == '-' else int(a[2])
        bad('C05', _canon(r[0], b[st:en], s))
    elif op == 'getbit':
        b, s = tok_bits(a[0]); bad('C05', _canon(r[0], b[int(a[1])], s))
    elif op == 'setslice':
        b, s = tok_bits(a[0]); vb, _ = tok_bits(a[3])
        bad('C05', _canon(r[0], b[:int(a[1])] + vb + b[int(a[2]):], s))
    elif op == 'seq':
        bits, side = tok_bits(a[0]); exp = []
        for tok in a[1:]:
            k = tok.split(',')
            if k[0] == 'v': exp.append(('C06', str(int(bits, 2) if bits else 0)))
            elif k[0] == 'h': exp.append(('C13', spec.canonical_content(bits, 'L').hex() or '-'))
            elif k[0] == 'i': exp.append(('C05', bits or '-'))
            elif k[0] == 'n': exp.append(('C05', str(len(bits))))
            elif k[0] == 'e': exp.append(('C13', 'true' if tok_bits(k[1])[0] == bits else 'false'))
            elif k[0] == 'g':
                g = bits[int(k[1]):int(k[2])]
                exp.append(('C05', f"{spec.canonical_content(g, side).hex() or '-'}:{len(g)}:{side}:{spec.pad_len(len(g))}"))
            elif k[0] == 'S': bits = bits[:int(k[1])] + tok_bits(k[3])[0] + bits[int(k[2]):]
            elif k[0] == 'B': bits = bits[:int(k[1])] + tok_bits(k[2])[0] + bits[int(k[1]) + 1:]
            elif k[0] == 'H': bits = spec.shift(bits, int(k[1]))
            elif k[0] == 'P': side = k[1]
        head, _, last = out.partition(' ; ')
        got = head.split('|') if head else []
        if len(got) != len(exp): bad('C16', [f'{len(got)} observations for {len(exp)} requested'])
        for (p, e), g in zip(exp, got):
            if e != g: bad(p, [f'after the earlier operations on the same Buffer: observed {g}, the bits spell {e}']); bad('C16', [f'history-dependent result: {g} instead of {e}'])
        m = _canon(last, bits, side); bad('C05', m)
    elif op == 'setbit':
        b, s = tok_bits(a[0]); vb, _ = tok_bits(a[2]); i = int(a[1])
        bad('C05', _canon(r[0], b[:i] + vb + b[i + 1:], s))
    elif op == 'add':
        x, sx = tok_bits(a[0]); y, _ = tok_bits(a[1])
        bad('C05', _canon(r[0], x + y, sx)); m = _same(r[1], a[0]) + _same(r[2], a[1]); bad('C05', m); bad('C16', m)
    elif op == 'pad':
        b, s = tok_bits(a[0]); side = a[1]
        bad('C05', _canon(r[0], b, side))
        if a[2] == '1': bad('C05', _canon(r[1], b, side))
        else: m = _same(r[1], a[0]); bad('C05', m); bad('C16', m)
    elif op == 'shift':
        b, s = tok_bits(a[0]); e = spec.shift(b, int(a[1]))
        bad('C06', _canon(r[0], e, s))
        if a[2] == '1': bad('C06', _canon(r[1], e, s))
        else: m = _same(r[1], a[0]); bad('C06', m); bad('C16', m)
    elif op in ('and', 'or', 'xor'):
        x, sx = tok_bits(a[0]); y, _ = tok_bits(a[1])
        if len(x) != len(y): bad('C06', ['unequal lengths accepted'])
        else: bad('C06', _canon(r[0], spec.bitwise(op, x, y), sx))
        m = _same(r[1], a[1]); bad('C16', m)
    elif op == 'invert':
        b, s = tok_bits(a[0]); bad('C06', _canon(r[0], spec.invert(b), s))
    elif op == 'value':
        b, s = tok_bits(a[0])
        if r[0] != str(spec.value(b)): bad('C06', [f'value {r[0]} != {spec.value(b)}'])
        m = _same(r[1], a[0]); bad('C16', m)
    elif op == 'chunks':
        b, s = tok_bits(a[0]); exp = spec.chunks(b, int(a[1]), a[2] == '1')
        if len(r) != len(exp): bad('C06', [f'{len(r)} chunks != {len(exp)}'])
        else:
            for got, e in zip(r, exp): bad('C06', _canon(got, e, s))
    elif op == 'eq':
        x, _ = tok_bits(a[0]); y, _ = tok_bits(a[1])
        if (r[0] == 'true') != (x == y): bad('C13', [f'eq gives {r[0]} for {x} vs {y}'])
        m = _same(r[1], a[1]); bad('C16', m)
    elif op == 'hash':
        b, s = tok_bits(a[0])
        # equal buffers must hash alike: the hashed key must be a function of the bits alone
        if r[0] != (spec.canonical_content(b, 'L').hex() or '-'): bad('C13', [f'hash key {r[0]} depends on more than the bits {b}'])
        m = _same(r[1], a[0]); bad('C16', m)
    elif op == 'hashset':
        if r[0] != 'true': bad('C13', ['a modified buffer does not equal a freshly built one with the same bits'])
        if r[1] != 'true': bad('C13', ['equal buffers hash differently after a slice assignment (stale hash)'])
    elif op == 'eqbytes':
        pass
    return v

def nontrivial(line):
    t = line.split()
    return any(':' in x and x.split(':')[1] not in ('0',) for x in t[2:])

def branch(line, out):
    t = line.split(); op = t[1]
    toks = [x for x in t[2:] if x.count(':') == 2]
    cls = '/'.join(f"{x.split(':')[2]}{int(x.split(':')[1]) % 8}" for x in toks[:2])
    return f'{op}:{cls}' + (':err' if out.startswith('err:') else '')

# ---------------------------------------------------------------- generators

def all_bits(n):
    for k in range(n + 1):
        for v in range(1 << k):
            yield format(v, f'0{k}b') if k else ''

def gen(props, tier, rng):
    """op lines serving the given properties; exhaustive for small sizes, then seeded random long strings"""
    ops = set()
    for p in props:
        ops.update(OPS_BY_PROP.get(p, []))
    if 'C16' in props:
        ops.update(['add', 'pad', 'shift', 'and', 'or', 'xor', 'value', 'eq', 'hash', 'getslice', 'chunks', 'invert', 'iter', 'copy'])
    N = 9 if tier == 'quick' else 12
    M = 5 if tier == 'quick' else 7
    singles = [(b, s) for b in all_bits(N) for s in 'LR']
    small = [(b, s) for b in all_bits(M) for s in 'LR']
    # long random operands: lengths around byte boundaries up to ~600 bits
    R = 150 if tier == 'quick' else 1200
    longs = []
    for _ in range(R):
        n = rng.choice([rng.randrange(10, 80), rng.randrange(80, 600), 8 * rng.randrange(1, 40), 8 * rng.randrange(1, 40) + rng.choice([1, 7])])
        longs.append((''.join(rng.choice('01') for _ in range(n)), rng.choice('LR')))
    def E(x): return enc_bits(*x)
    if 'new' in ops:
        for clen in (0, 1):
            for c in itertools.product(range(256), repeat=clen):
                for n in range(0, 18):
                    for s in 'LR':
                        yield f"buf new {bytes(c).hex() or '-'} {n} {s}"
        for _ in range(4000 if tier == 'quick' else 40000):
            c = bytes(rng.randrange(256) for _ in range(rng.randrange(2, 6)))
            yield f"buf new {c.hex()} {rng.randrange(0, 50)} {rng.choice('LR')}"
    for x in singles + longs:
        b, s = x; n = len(b); e = E(x)
        big = n > N
        if 'iter' in ops: yield f'buf iter {e}'
        if 'copy' in ops: yield f'buf copy {e}'
        if 'invert' in ops: yield f'buf invert {e}'
        if 'value' in ops: yield f'buf value {e}'
        if 'hash' in ops: yield f'buf hash {e}'
        if 'pad' in ops:
            for side in 'LR':
                for ip in '01': yield f'buf pad {e} {side} {ip}'
        if 'getslice' in ops:
            cuts = range(n + 1) if not big else sorted({0, n, *(rng.randrange(n + 1) for _ in range(6))})
            for i in cuts:
                for j in (range(i, n + 1) if not big else sorted({j for j in cuts if j >= i})):
                    yield f'buf getslice {e} {i} {j}'
                yield f'buf getslice {e} {i} -'
                yield f'buf getslice {e} {i} {n + 3}'
            yield f'buf getslice {e} - -'
            yield f'buf getslice {e} - {n // 2}'
        if 'getbit' in ops:
            for i in (range(n) if not big else [0, n - 1] + [rng.randrange(n) for _ in range(4)]):
                yield f'buf getbit {e} {i}'
        if 'shift' in ops:
            amounts = range(-(N + 8), N + 9) if not big else [-(n + 8), -9, -8, -7, -1, 0, 1, 7, 8, 9, n - 1, n, n + 8] + [rng.randrange(-40, n + 2) for _ in range(4)]
            for sh in amounts:
                for ip in '01': yield f'buf shift {e} {sh} {ip}'
        if 'chunks' in ops:
            sizes = range(1, 41) if (n <= 6 or big) else [1, 2, 3, 7, 8, 9, 15, 16, 17, 31, 32, 33, 40]
            if big: sizes = [1, 7, 8, 9, 16, 17, 32, 33, 40] if n < 120 else [8, 16, 32, 33, 40]
            for k in sizes:
                for p in '01': yield f'buf chunks {e} {k} {p}'
    pairs = [(x, y) for x in small for y in small]
    lp = [(rng.choice(longs), rng.choice(longs + small)) for _ in range(R)] + [(rng.choice(small), rng.choice(longs)) for _ in range(R // 3)]
    # equal-length long pairs for bitwise / eq
    for _ in range(R):
        x = rng.choice(longs); y = (''.join(rng.choice('01') for _ in x[0]), rng.choice('LR'))
        lp.append((x, y)); lp.append((x, (x[0], 'L' if x[1] == 'R' else 'R')))
    for x, y in pairs + lp:
        ex, ey = E(x), E(y)
        if 'add' in ops: yield f'buf add {ex} {ey}'
        if 'eq' in ops: yield f'buf eq {ex} {ey}'
        if 'and' in ops and (len(x[0]) == len(y[0]) or rng.random() < 0.02):
            yield f'buf and {ex} {ey}'; yield f'buf or {ex} {ey}'; yield f'buf xor {ex} {ey}'
    if 'eq' in ops or 'hash' in ops:
        # operands built from NON-canonical content (too long, too short, dirty padding bits, content for a zero-length buffer):
        # equality and hashing are about the bits the constructor keeps, not about the bytes it was handed
        junk = []
        for n in (0, 1, 3, 4, 7, 8, 9, 12):
            for sd in 'LR':
                for c in ('-', '00', 'ff', '0000', 'ffff', 'a5c3', '01', '80', 'f0f0f0'):
                    junk.append(f'{c}:{n}:{sd}')
        for a in junk:
            if 'hash' in ops: yield f'buf hash {a}'
            if 'eq' in ops:
                for b in rng.sample(junk, 6):
                    yield f'buf eq {a} {b}'
                c, n, sd = a.split(':')
                bits = spec.ctor_bits(b'' if c == '-' else bytes.fromhex(c), int(n), sd)
                yield f"buf eq {a} {enc_bits(bits, 'L')}"; yield f"buf eq {enc_bits(bits, 'R')} {a}"
    if 'eqbytes' in ops:
        for x in small:
            yield f"buf eqbytes {E(x)} {spec.canonical_content(x[0], x[1]).hex() or '-'}"
            yield f"buf eqbytes {E(x)} 06"
    if 'hashset' in ops:
        tiny = [(b, s) for b in all_bits(4) for s in 'LR']
        vals = [(b, s) for b in all_bits(2) for s in 'LR']
        for x in tiny:
            n = len(x[0])
            for i in range(n + 1):
                for j in range(i, n + 1):
                    for v in vals:
                        yield f'buf hashset {E(x)} {i} {j} {E(v)}'
    if 'setslice' in ops:
        K = 5 if tier == 'quick' else 6
        tiny = [(b, s) for b in all_bits(K) for s in 'LR']
        vals = [(b, s) for b in all_bits(3) for s in 'LR']
        for x in tiny:
            n = len(x[0])
            for i in range(n + 1):
                for j in range(i, n + 1):
                    for v in vals:
                        yield f'buf setslice {E(x)} {i} {j} {E(v)}'
        for _ in range(R):
            x = rng.choice(longs); n = len(x[0]); i = rng.randrange(n + 1); j = rng.randrange(i, n + 1)
            yield f'buf setslice {E(x)} {i} {j} {E(rng.choice(longs + vals))}'

    if props and set(props) & {'C05', 'C06', 'C13', 'C16'}:
        yield from gen_seq(rng, tier, E)
    if 'setbit' in ops:
        # `b[i] = v` with an integer index: the bit at i is replaced by the whole of v (a slice of width one)
        vals = [(b, s) for b in all_bits(3) for s in 'LR']
        for x in [(b, s) for b in all_bits(5) for s in 'LR']:
            for i in range(len(x[0])):
                for v in vals:
                    yield f'buf setbit {E(x)} {i} {E(v)}'
        for _ in range(R):
            x = rng.choice([l for l in longs if len(l[0]) > 0]); i = rng.randrange(len(x[0]))
            yield f'buf setbit {E(x)} {i} {E(rng.choice(longs + vals))}'

def gen_seq(rng, tier, E):
    """random op sequences on one Buffer: every observation between every kind of in-place change"""
    for _ in range(400 if tier == 'quick' else 6000):
        n = rng.choice([0, 1, 5, 8, 9, 12, 13, 16, 17, 24, 31, rng.randrange(0, 70)])
        bits = ''.join(rng.choice('01') for _ in range(n)); side = rng.choice('LR')
        toks = [E((bits, side))]
        for _ in range(rng.randrange(3, 9)):
            k = rng.choice(['v', 'h', 'i', 'n', 'e', 'g', 'S', 'S', 'B', 'H', 'P', 'v', 'h'])
            n = len(bits)
            if k in ('v', 'h', 'i', 'n'): toks.append(k)
            elif k == 'e':
                o = bits if rng.random() < 0.6 else ''.join(rng.choice('01') for _ in range(n))
                toks.append(f"e,{E((o, rng.choice('LR')))}")
            elif k == 'g':
                i = rng.randrange(n + 1); j = rng.randrange(i, n + 1); toks.append(f'g,{i},{j}')
            elif k == 'S':
                i = rng.randrange(n + 1); j = rng.randrange(i, n + 1); v = ''.join(rng.choice('01') for _ in range(rng.randrange(0, 12)))
                toks.append(f"S,{i},{j},{E((v, rng.choice('LR')))}"); bits = bits[:i] + v + bits[j:]
            elif k == 'B' and n > 0:
                i = rng.randrange(n); v = ''.join(rng.choice('01') for _ in range(rng.randrange(0, 4)))
                toks.append(f"B,{i},{E((v, rng.choice('LR')))}"); bits = bits[:i] + v + bits[i + 1:]
            elif k == 'H':
                sh = rng.choice([-9, -8, -3, -1, 1, 2, 7, 8, 9]); toks.append(f'H,{sh}'); bits = spec.shift(bits, sh)
            elif k == 'P':
                side = rng.choice('LR'); toks.append(f'P,{side}')
        toks.append(rng.choice(['v', 'h', 'i']))
        yield 'buf seq ' + ' '.join(toks)

def model_line(line):
    t = line.split()
    if t[1] == 'setbit': return f'buf setslice {t[2]} {t[3]} {int(t[3]) + 1} {t[4]}'
    return line

def evaluate(line):
    out = impl(line)
    return out, oracle(line, out)
