#!/usr/bin/env python3
"""obligations.json: which Lean theorems decide which property (the only place that says so). Edit HERE, then run."""
import json, os
V = os.path.dirname(os.path.dirname(os.path.abspath(__file__)))
NOTE = ("Trusted: Lean 4.33 kernel (+ leanchecker in the thorough tier); axioms limited to propext / Classical.choice / Quot.sound (audited per theorem on every run); "
        "translator/gen.py (tables regenerated from /repo); the correspondence harness. Modelled, not verified: Schc.Py.* is a hand-written rendering of the Python, "
        "tied to /repo only by differential correspondence (this run's streams) and by the regenerated tables.")
def T(name, kind, statement): return {'name': 'Schc.' + name, 'kind': kind, 'statement': statement}
L = {}
L['C17'] = dict(modules=['Schc.Properties.C17'], level='proof', technique='Lean 4 theorems (arithmetic on bit lists, all n) + exhaustive correspondence 0..65535',
    theorems=[T('C17_width', 'full', 'widths 4/12/28 and the exact bit patterns, for every n'),
              T('C17_encode', 'full', 'model of _encode_length = RFC pattern for every n < 65536'),
              T('C17_encode_reject', 'full', 'n >= 65536 raises AssertionError'),
              T('C17_decode_encode', 'full', 'decode (encode n ++ rest) = (n, width) for every n < 65536, every rest, either side')],
    level_text='Machine-checked for all sizes: the model of the encoder emits the RFC 8724 §7.4.2 announcement and the model of the decoder inverts it whatever follows. Field-level round trips for value-sent and LSB are C03_decompress / C01_roundtrip. The encoder and the prefix decoder are additionally compared with the real code exhaustively over 0..65535 on every run, so for this finite domain the tie itself is complete.',
    explanation='value-sent and LSB variable-length field round trips are theorems of C03/C01 (decompressField_residue); here: the prefix bijection')
L['C02'] = dict(modules=['Schc.Properties.C02'], level='proof', technique='Lean 4 refinement theorem: model of compress = RFC-shaped Spec.compress',
    theorems=[T('C02_layout', 'full', 'compress = rule ID ++ residues in rule order ++ payload (Spec.compress), right-padded, for every packet and every rule that can encode it (AllOK)'),
              T('C02_lsb', 'full', 'least_significant_bits (byte slicing + mask on the content) = last k bits, every k, left-padded fields'),
              T('C02_nocompression', 'full', 'no-compression rule: rule ID ++ packet')],
    level_text='Proved for all packets and rules: the model of compress (Python control flow, zip truncation, byte-level least_significant_bits, dict lookup, _encode_length) equals the declarative RFC 8724 §7 layout. Hypothesis AllOK = the rule can encode the packet (mapped value present, sizes < 2^16, LSB fields left-padded as parsers deliver them, pattern not longer than the field).')
L['C03'] = dict(modules=['Schc.Properties.C03'], level='proof', technique='Lean 4 induction over the descriptor list against a conforming-peer encoder',
    theorems=[T('C03_decompress', 'full', 'on rule ID ++ residues of ANY admissible values ++ payload, decompress consumes exactly the residues and rebuilds the values in rule order, payload last, then runs the compute functions'),
              T('C03_decompress_any_sort', 'full', 'the same with the compute functions run in the order of ANY sorted permutation of the entries, where the comparator orders them consistently (Rule.orderOk): list.sort is only assumed to sort'),
              T('C03_decompress_nocompute', 'full', 'without compute fields the result is values ++ payload, bit for bit'),
              T('C03_mapping_prefix', 'full', 'mapping index resolved by prefix for any prefix-free index set, any widths, any dict order')],
    level_text='Proved for every rule, every list of admissible values (all sizes across the 4/12/28-bit encodings, mappings with prefix-free indices of mixed width), every payload including empty and unaligned, either padding side of the SCHC packet. What compute functions return is C09.')
L['C01'] = dict(modules=['Schc.Properties.C01'], level='proof', technique='Lean 4 corollary of C02 + C03 + C04 + C10 + C11',
    theorems=[T('C01_roundtrip', 'full', 'bare compress/decompress round trip for every matched rule of lossless pairings that fit the packet'),
              T('C01_nocompression', 'full', 'no-compression rule round trip'),
              T('C01_manager', 'full', 'through the context manager, FIRST or BEST, prefix-free rule IDs, any mix of direction indicators: found again from the rule ID and restored (direction passed to decompress)'),
              T('C01_roundtrip_compute', 'full', 'round trip for rules with compute fields, given that the compute functions regenerate the elided values'),
              T('C01_ipv6_udp_compute', 'full', 'IPv6/UDP(/anything) packets with valid lengths and checksum: round trip with any subset of payload length, UDP length, UDP checksum computed'),
              T('C01_ipv4_udp_compute', 'full', 'IPv4/UDP(/anything) packets with valid total length, header checksum, UDP length, UDP checksum: round trip with any subset of the four computed'),
              T('C01_sctp_compute', 'full', 'SCTP packets with a valid CRC-32c: round trip with the checksum computed'),
              T('C01_unparser_roundtrip', 'full', 'decompress with an unparser returns the concatenation of what PacketParser.unparse makes of the parsed fields + payload (any unparser; lossless pairings, no compute)'),
              T('C01_end_to_end', 'full', 'from the bytes on the wire: every factory stack, every buffer its parser accepts, manager compress then decompress returns the buffer (C07 joined with C01_manager)'),
              T('C01_end_to_end_stack', 'full', 'end to end for ANY stack of header parsers without a semantic CoAP parser')],
    level_text='Proved over the model for all packets/rules/rule sets under the stated hypotheses: fields+payload spell the raw packet (C07), bare functions without the direction argument: descriptors all apply to the packet direction; with the argument (C18_roundtrip, C01_manager): any rule, pairings equal/not-sent, ignore/value-sent, MSB/LSB, match-mapping/mapping-sent with Fits. Compute fields: C01_roundtrip_compute reduces the round trip to the compute functions regenerating the elided values, and C01_ipv6_udp_compute / C01_ipv4_udp_compute discharge that for the IPv6/UDP and IPv4/UDP stacks (any subset of the computable fields, valid packets; concrete valid packets are kernel-checked examples). C01_sctp_compute does the same for the SCTP checksum. So every registered compute function is covered at its stack position. C01_end_to_end starts from the bytes on the wire (parser of any factory stack, manager compress, manager decompress). The path with an unparser (packets parsed with CoAP options in semantic mode) is C01_unparser_roundtrip and, joined with the parsers, C19_stack_roundtrip / C19_stack_roundtrip_compute / C19_stack_roundtrip_compute4; three genuine defects on that path were repaired in /repo (b58412f, 858b849, d76d13d).')
L['C04'] = dict(modules=['Schc.Properties.C04'], level='proof', technique='Lean 4 theorem: matcher = filter by the declarative applicability predicate',
    theorems=[T('C04_match', 'full', 'match_packet_descriptor = rules.filter Spec.applicable (soundness, completeness, order)'),
              T('C04_field', 'full', 'one field vs one descriptor, all four operators'), T('C04_first', 'full', 'the first yielded rule'),
              T('C04_msb_longer', 'full', 'pattern longer than the field never matches'), T('C04_default', 'full', 'no-compression rule always yielded')],
    level_text='Proved for all rule sets and packets, both directions. Hypothesis RuleTypeOK: target values have the type the library asserts (equal/MSB: Buffer, match-mapping: mapping); otherwise the real code raises AssertionError, which the model reproduces.')
L['C10'] = dict(modules=['Schc.Properties.C10'], level='proof', technique='Lean 4 theorems: loop invariant of the BEST loop, FIRST = find?',
    theorems=[T('C10_first', 'full', 'FIRST = compress with the first applicable rule'), T('C10_best_member', 'full', 'BEST output is the output of an applicable rule'),
              T('C10_best_min', 'full', 'no applicable rule is shorter'), T('C10_best_le_first', 'full', 'BEST <= FIRST'),
              T('C10_no_match', 'full', 'nothing applies -> rule-match error, both strategies'), T('C10_default', 'full', 'default rule last: always compressed; BEST <= |ID| + |packet|')],
    level_text='Proved for every rule set, packet, direction. The length bound is claimed for BEST only (a first matching rule that expands the packet is still the first matching rule); recorded in DESIGN.md §6.')
L['C11'] = dict(modules=['Schc.Properties.C11'], level='proof', technique='Lean 4 theorems on find? over prefix-free IDs',
    theorems=[T('C11_dispatch', 'full', 'the rule whose ID is a prefix is returned, any order, any lengths, whatever follows'),
              T('C11_no_match', 'full', 'no ID is a prefix (incl. shorter than every ID, empty) -> RuleIDMatchError'),
              T('C11_own_output', 'full', 'every output of compress with R is dispatched to R')],
    level_text='Proved for all prefix-free rule-ID sets and all bit strings. Hypothesis rules ≠ [] for the error case (the real code leaves a variable unbound on an empty rule set — outside the quantifier, reproduced by the model).')

L['C15'] = dict(modules=['Schc.Properties.C15'], level='proof', technique='Lean 4 theorems on the error discipline of manager and front end',
    theorems=[T('C15_no_rule', 'full', 'no applicable rule -> RuleDescriptorMatchError, FIRST and BEST'), T('C15_no_id', 'full', 'no rule ID is a prefix -> RuleIDMatchError'),
              T('C15_compress_errors', 'full', 'manager compress only lets out the parser\'s error and the rule-match error'),
              T('C15_frontend_fallthrough', 'full', 'all contexts signal ParserError / RuleDescriptorMatchError -> packet returned unchanged'),
              T('C15_frontend_first', 'full', 'output of the first context in order that does not signal such an error'),
              T('C15_frontend_decompress_fallthrough', 'full', 'decompress falls through on RuleIDMatchError'),
              T('C15_frontend_roundtrip', 'full', 'what a context compressed is decompressed by it when earlier contexts do not know the ID')],
    level_text='Proved over the model of manager.py and /repo/microschc.py for every interface configuration. That the parsers themselves raise only ParserError is C14. The round trip needs the stated hypothesis that earlier contexts of the interface raise the rule-ID error on the SCHC packet (IDs of one interface do not shadow one another) — without it no implementation can know which context compressed.')
L['C16'] = dict(modules=['Schc.Properties.C16'], level='proof', technique='Lean 4 purity theorems over a model with operand post-states + regenerated mutation-site tables (decide) + history correspondence',
    theorems=[T('C16_pure_shift', 'full', 'shift(inplace=False) leaves self unchanged'), T('C16_pure_pad', 'full', 'pad(inplace=False) leaves self unchanged'),
              T('C16_pure_value', 'full', 'value() leaves self unchanged'), T('C16_pure_and', 'full', '& leaves its right operand unchanged'),
              T('C16_pure_or', 'full', '| …'), T('C16_pure_xor', 'full', '^ …'), T('C16_pure_eq', 'full', '== leaves its operand unchanged'),
              T('C16_pure_hash', 'full', 'hash() leaves self unchanged'), T('C16_pure_add', 'full', '+ leaves both operands unchanged'),
              T('C16_buffer_sequence', 'full', 'any sequence of observations (value, hash, iteration, len, ==, slices) and in-place changes (slice assignment, in-place shift and pad) on one Buffer is simulated step by step by the bit-list interpreter; the Buffer stays canonical'),
              T('C16_buffer_history', 'full', 'results independent of history for Buffers: after two histories that spell the same bits on the same side, every further sequence returns the same observations'),
              T('C16_buffer_writes', 'full', 'the attribute writes in buffer.py are exactly the reviewed ones (regenerated table)'),
              T('C16_buffer_calls', 'full', 'every internal pad/shift call is not in-place or acts on a local copy (regenerated table)'),
              T('C16_sites', 'full', 'every mutation site of the SCHC-level modules (regenerated table) acts on a list literal / comprehension evaluated in the same call or is in the reviewed allow-list (inclusion: a site that disappears or a helper filling its own fresh list changes nothing)')],
    level_text='Part 1 (Buffer operands): theorems over the byte-level model whose methods return operand post-states, with the inplace flag of each internal call read from the source on this run. Part 2 (no shared object is written above the Buffer): the AST-derived table of every attribute/item assignment, mutating container call and in-place pad/shift must equal a reviewed allow-list — a new cache, memo or in-place call changes the table and breaks the obligation. Part 3 (history independence): the model is a pure function; the hist stream compares every call on long-lived manager / ruler / front end with fresh instances and snapshots all arguments.',
    explanation='aliasing is not modelled as a heap: part 2 is a checked syntactic table plus dynamic snapshots (DESIGN.md §6 C16, §7)')
L['C18'] = dict(modules=['Schc.Properties.C18', 'Schc.Properties.C01'], level='proof', technique='Lean 4: all three stages run on restrict r d (the descriptors marked d or bidirectional); round trip as a corollary of C01 on the restricted rule',
    theorems=[T('C18_matcher', 'full', 'the matcher uses exactly the descriptors marked d or Bi, in rule order'),
              T('C18_descriptors', 'full', 'restrict r d = the descriptors marked d or Bi in rule order; rule ID and nature kept'),
              T('C18_same_descriptors', 'full', 'compress and decompress with direction d run on that same list'),
              T('C18_manager', 'full', 'what the context manager sends was compressed with the descriptors of the direction it matched by'),
              T('C18_roundtrip', 'full', 'every rule (any mix of Up / Dw / Bi descriptors, any positions) round-trips every packet it is offered for, each direction with its own descriptors'),
              T('C01_manager', 'full', 'through the manager, either strategy, with the direction passed to decompress: no hypothesis on the direction indicators any more'),
              T('C18_all_apply', 'full', 'when every descriptor applies to d the argument changes nothing'),
              T('C18_witness_repaired', 'test', 'the former counter-example of F-C18-1 round-trips in both directions (kernel-evaluated)'),
              T('C18_no_direction', 'test', 'without the optional argument all descriptors are used, as before the repair (kernel-evaluated; recorded limit, not a violation)')],
    level_text='Proved for every rule and packet, both directions, every position of the direction-specific descriptors: with the direction passed (the manager always passes it to compress; decompress takes it as an optional argument) matching, compression and decompression use the same descriptor list, and the rule round-trips. The defect F-C18-1 (compressor and decompressor ignored the indicators) was repaired by fix commit d864896; callers who omit the optional argument get the pre-repair behaviour, which C18_no_direction records.')
L['C20'] = dict(modules=['Schc.Properties.C20'], level='proof', technique='Lean 4 totality theorems: residue walk + totality of the six compute functions at valid stack positions',
    theorems=[T('C20_total', 'full', 'bare decompress is total for every bit string, rules without compute fields'),
              T('C20_manager_total', 'full', 'manager decompress gives a buffer or RuleIDMatchError for every bit string, rule sets without compute fields'),
              T('C20_total_compute', 'full', 'bare decompress is total for rules WITH compute fields at valid stack positions (ComputeStackOK), inputs below the 64 KiB datagram limit'),
              T('C20_manager_total_compute', 'full', 'manager decompress: buffer or RuleIDMatchError, any well-formed rule set with compute fields'),
              T('C20_compute_functions', 'full', 'each of the six registered compute functions is total on any field list at a valid position and returns at most 32 bits')],
    level_text='Proved for every bit string (truncated, flipped, random, empty, id only, oversized announcements - the theorem does not look at how the string was made) and every rule set satisfying the decompressor\'s own type asserts (CdaTypeOK), with or without compute fields. For compute fields the hypotheses are: ComputeStackOK (decidable on the rule\'s id list; only udp._compute_checksum looks at its neighbours) and static bits + input length + 32 per field + 8 <= 2^19 (beyond 64 KiB the real to_bytes(2) raises OverflowError; the model reproduces it). compute_function_sort is modelled as insertion sort; totality is proved for every order of the entries, so it does not depend on that modelling choice.')

L['C07'] = dict(modules=['Schc.Properties.C07'], level='proof', technique='Lean 4 cursor invariants over the CoAP / SCTP walks + generated fixed layouts',
    theorems=[T('C07_header', 'full', 'every header parser, every accepted buffer: fields spell the first header-length bits; header length = total field length <= buffer length'),
              T('C07_packet', 'full', 'every parser configuration: fields ++ payload = input buffer, raw = input'),
              T('C07_any_stack', 'full', 'tiling for every hand-built stack without a semantic CoAP parser'),
              T('C07_nocompression_reproduces', 'full', 'a no-compression rule reproduces any parsed packet')],
    level_text='Proved over the model for every buffer any parser accepts (well-formed or not): fixed layouts by a generic contiguity lemma against the tables regenerated from the source, CoAP by the cursor invariant of the option loop (incl. the payload marker and truncated tokens), SCTP by the chunk/parameter walk invariants and the post-check that a chunk type\'s fields cover the chunk value, chaining by composition.')
L['C08'] = dict(modules=['Schc.Properties.C08'], level='proof', technique='Lean 4: `decide` on layouts regenerated from the parsers\' AST vs RFC tables; parse-of-encode theorem for the CoAP option walk; structured-generator correspondence for SCTP walks',
    theorems=[T('C08_ipv4_layout', 'full', 'IPv4 field boundaries extracted from the source = RFC 791'), T('C08_ipv6_layout', 'full', '= RFC 8200'),
              T('C08_udp_layout', 'full', '= RFC 768'), T('C08_coap_fixed_layout', 'full', 'first 32 bits = RFC 7252 §3'),
              T('C08_sctp_layouts', 'full', 'common header, chunk header, DATA / INIT / INIT ACK / SACK / SHUTDOWN fixed parts, parameter header = RFC 9260'),
              T('C08_chaining', 'full', 'next-protocol tables: 17/132 after IP, 5683/132 after UDP; explicit stacks'),
              T('C08_ipv6_fields', 'full', 'IPv6 parser returns exactly the RFC field list'), T('C08_ipv4_fields', 'full', 'IPv4 …'), T('C08_udp_fields', 'full', 'UDP …'),
              T('C08_coap_message', 'full', 'parse of ANY RFC 7252-encoded message (token 0..15 bytes as announced, any options, optional marker + payload) = fixed fields, token, per-option fields in wire order, marker; exact header length'),
              T('C08_coap_option', 'full', 'one option: slices cut = RFC fields, all delta/length classes'),
              T('C08_coap_positions', 'full', 'k-th field with a given id carries position k, for any accepted input'),
              T('C08_sctp_packet', 'full', 'parse of ANY RFC 9260-encoded packet (common header + any chunks of any types) = the RFC field list in wire order; whole packet is header'),
              T('C08_sctp_chunk', 'full', 'one chunk of any type: header, per-type value fields (DATA, INIT, INIT ACK, SACK, parameter lists, SHUTDOWN, value-less, COOKIE ECHO, opaque), chunk padding'),
              T('C08_sctp_parameters', 'full', 'parameter TLV list with 4-byte padding'),
              T('C08_sctp_value_tiles', 'full', 'the RFC fields of a chunk value spell its encoding (spec self-consistency)'),
              T('C08_factory', 'full', 'what factory() builds for the explicit stacks and the single-protocol ids'),
              T('C08_predict_agrees', 'full', 'the predicting IPv6 / IPv4 parser returns the same packet descriptor as the explicit IP/UDP/CoAP stack whenever next header = UDP and destination port = CoAP')],
    level_text='Fixed field boundaries of all five protocols and the chaining tables are machine-checked against tables written from the RFCs, on tables re-extracted from the source on every run (a moved boundary breaks a `decide`). The CoAP option walk is proved against RFC 7252 §3.1 written as an encoder (Spec.wireOption) and the SCTP chunk / parameter / SACK walks against RFC 9260 §3 written as an encoder (Spec.SctpChunk.wire): parse of the encoding of any option list / any chunk list gives the RFC field list, positions and header length. The encoders pad every parameter inside the chunk value (RFC 9260 also allows the last parameter padding to count as chunk padding; that variant is exercised by correspondence only). Agreement of the predicting parsers with the explicit stacks is C08_predict_agrees (chains through UDP to SCTP, which no explicit stack covers, are compared by correspondence).')
L['C14'] = dict(modules=['Schc.Properties.C14'], level='proof', technique='Lean 4 totality theorems with fuel (progress lemmas for every walk) + generated registry tables',
    theorems=[T('C14_total', 'full', 'every parser configuration, every bit string: a descriptor or ParserError — no hang, no foreign exception'),
              T('C14_header', 'full', 'each header parser, with/without prediction, CoAP in both option modes'),
              T('C14_any_stack', 'full', 'every hand-built stack of known header parsers: a descriptor or ParserError'),
              T('C14_coap_progress', 'full', 'each CoAP option iteration consumes >= 8 bits within the buffer'),
              T('C14_sctp_progress', 'full', 'each SCTP chunk consumes >= 32 bits'),
              T('C14_registry', 'full', 'every next-protocol number chained on has a registered parser (regenerated tables)')],
    level_text='Proved for every bit string of any length and alignment: with the linear fuel |b| + 2 the model never answers `hang` and never any error but ParserError. "Promptly" is a step bound (iterations <= |b|/8 + 1), not wall-clock time; the harness additionally runs the real parsers under a watchdog.')

L['C09'] = dict(modules=['Schc.Properties.C09', 'Schc.Properties.C01'], level='proof', technique='Lean 4: loop invariants for the one\'s-complement fold, xor-linearity of CRC-32c division, `decide +kernel` on the regenerated CRC table',
    theorems=[T('C09_fold', 'full', 'add-then-fold-each-step loop = RFC 1071 one\'s-complement sum (arithmetic, all word lists)'),
              T('C09_ipv4_header_checksum', 'full', 'IPv4 header checksum = complement of the sum of the header words; 0x0000 kept'),
              T('C09_udp_checksum', 'full', 'UDP checksum = complement of the sum over pseudo-header + UDP header + zero-padded payload; 0 -> 0xFFFF'),
              T('C09_pseudo_headers', 'full', 'pseudo-header layouts of RFC 8200 §8.1 and RFC 768'),
              T('C09_lengths', 'full', 'IPv6 payload length, IPv4 total length, UDP length in octets'),
              T('C09_crc_table', 'full', 'the 256-entry table in crc.py = eight reflected division steps by 0x82F63B78 (kernel-evaluated on the regenerated table)'),
              T('C09_crc_loop', 'full', 'table-driven byte loop = bit-by-bit CRC-32c, every buffer'),
              T('C09_sctp', 'full', 'SCTP checksum: init all ones, final complement, stored low byte first'),
              T('C09_order', 'full', 'compute entries already in dependency order are run in that order'),
              T('C09_compute_order_unique', 'full', 'where compute_function_sort orders the rule\'s compute entries consistently (Rule.orderOk, tested by the model driver on every line), ANY permutation of the entries that is sorted for the comparator equals the model\'s insertion sort: list.sort is only assumed to sort'),
              T('C09_compute_order_sorted', 'full', 'the model\'s sort returns a permutation of the entries, sorted for the comparator'),
              T('C09_order_test_covers_directions', 'full', 'the driver\'s test (Rule.orderOkAll) implies orderOk of the rule every direction= call works on'),
              T('C09_order_test_passes', 'full', 'a rule whose compute fields are written in dependency order (none before one it depends on) passes the driver\'s test, for every direction: the test never fires inside the properties\' quantifiers'),
              T('C09_protocol_order_forward', 'full', 'the computable fields in protocol layout order are in dependency order for the dependency sets regenerated from the source (decide +kernel)'),
              T('C09_order_test_passes_protocol', 'full', 'every rule whose compute fields follow the protocol layout (any subset) passes the test'),
              T('restore6', 'full', 'IPv6/UDP field list: whichever of payload length, UDP length, UDP checksum were elided (zero placeholders), running their compute functions at their stack positions, in the sorted order, regenerates the valid packet bits'),
              T('step_uc', 'full', 'udp._compute_checksum at position 11 of an IPv6/UDP list builds the pseudo-header from fields 6 and 7 and the computed UDP length'),
              T('restoreS', 'full', 'SCTP field list: the checksum compute function at position 3 regenerates the CRC-32c of a valid packet'),
              T('restore4', 'full', 'IPv4/UDP field list: total length, header checksum (after the total length), UDP length, UDP checksum (after the UDP length) regenerate the valid packet bits, any subset elided')],
    level_text='Proved over the model of the compute functions for all inputs. Where the code locates its inputs by relative position in the rebuilt field list (pos-2, pos-9 .. pos+3, search for the source address), the theorems are stated over those same positions; that a rule in protocol order puts the right fields there, and that a packet with correct fields is reproduced bit for bit, is checked on every run by the compute and schc correspondence streams against independent RFC 1071 / 768 / 8200 / 9260 implementations (constructed wrap-around, double-carry, 0x0000 and 0xFFFF cases).')

L['C12'] = dict(modules=['Schc.Properties.C12'], level='proof', technique='Lean 4 structural round-trip theorems (literal equality) over a JSON tree model',
    theorems=[T('C12_roundtrip_buffer', 'full', 'Buffer: from_json(to_json b) = b (bits and padding side), every buffer'),
              T('C12_roundtrip_mapping', 'full', 'MatchMapping with distinct values and prefix-free indices'),
              T('C12_roundtrip_rule_field', 'full', 'RuleFieldDescriptor, Buffer or mapping target value'),
              T('C12_roundtrip_rule', 'full', 'RuleDescriptor, compression and no-compression'),
              T('C12_roundtrip_context', 'full', 'Context'),
              T('C12_redump', 'full', 're-serialising the reloaded context gives the same JSON'),
              T('C12_same_behaviour', 'full', 'any function of the context (manager compress / decompress / matching) gives the same result on the reloaded context'),
              T('C12_pyEq', 'full', 'the reloaded context compares equal under the library\'s __eq__ methods'),
              T('C12_roundtrip_field', 'full', 'FieldDescriptor'), T('C12_roundtrip_header', 'full', 'HeaderDescriptor (id, length, fields) through json() / from_json()'),
              T('C12_roundtrip_packet', 'full', 'PacketDescriptor (direction, fields, payload, raw)')],
    level_text='Proved for all buffers (any length, alignment, side) and all contexts whose mappings are invertible (distinct values, prefix-free indices) and whose no-compression rules carry no descriptors. Equality is literal in a model that keeps everything the code can observe, so equal behaviour is congruence. Trusted: json.dumps/json.loads on a tree of dict/list/str/int; that enum members reloaded as plain str are only compared with == / in (watched by the json stream, which drives original and reloaded contexts through the real manager and compares SCHC packets and decompressed packets). FieldDescriptor, HeaderDescriptor and PacketDescriptor round trips are C12_roundtrip_field / C12_roundtrip_header / C12_roundtrip_packet; every class, MatchMapping and HeaderDescriptor included, also goes through its own json() / from_json() in the json stream.')

L['C13'] = dict(modules=['Schc.Properties.C13'], level='proof', technique='Lean 4 refinement of the byte-level Buffer model (constructor, shift loops, re-padding) to bit lists',
    theorems=[T('C13_canonical', 'full', 'every Buffer the constructor returns is the canonical Buffer of its bits, for ANY content'),
              T('C13_eq_iff', 'full', '== is bit equality for all four padding-side combinations (operand preservation: C16_pure_eq)'),
              T('C13_hash', 'full', 'equal Buffers hash alike (the hashed key is a function of the bits alone)'),
              T('C13_dict', 'full', 'dict lookup through any equal key'), T('C13_mapping_lookup', 'full', 'match-mapping lookups succeed across padding sides')],
    level_text='Proved for all bit strings of any length on both sides: the byte-level model of __eq__ (length test, re-pad copy through the carry loops of _shift_left/_shift_right, content compare) and of __hash__ is bit equality / a function of the bits. Python dicts are modelled as association lists looked up by hash-then-eq; 64-bit hash collisions between different contents are abstracted away (DESIGN.md §7).')

L['C05'] = dict(modules=['Schc.Properties.C05'], level='proof', technique='Lean 4 refinement of the byte-level Buffer model (constructor, __iter__, __getitem__, __setitem__, all nine __add__ branches, pad, copy) to bit lists',
    theorems=[T('C05_canonical_form', 'full', 'ofABuf is canonical: minimal content length, zero padding bits on the declared side'),
              T('C05_ctor', 'full', 'constructor normalises ANY byte content to the canonical Buffer of the bits it denotes'),
              T('C05_iter', 'full', 'iteration yields the bits'), T('C05_length', 'full', 'length'), T('C05_copy', 'full', 'copy'),
              T('C05_getitem_range', 'full', 'b[s:e] for all 0<=s<=e<=len, both sides, every alignment'),
              T('C05_getitem_slice', 'full', 'optional / negative / over-long bounds resolved as slice.indices'),
              T('C05_slice_clamp', 'full', 'a stop beyond the length is clamped'),
              T('C05_getitem_bit', 'full', 'b[i]'),
              T('C05_add', 'full', 'a + b for all operand pairs, all four side combinations, every alignment'),
              T('C05_add_operands', 'full', '… and both operands of + are left unchanged'),
              T('C05_pad', 'full', 'pad(side, inplace) both modes'),
              T('C05_setitem', 'full', 'b[s:e] = v'),
              T('C05_add_then_slice', 'full', 'composition: slicing a concatenation at the seam'),
              T('C05_split_join', 'full', 'cutting a Buffer anywhere and concatenating the parts gives it back')],
    level_text='Proved for bit strings of EVERY length, both padding sides of every operand, all cut points: each operation of the byte-level model of buffer.py (same loops, masks, carries, bytes() range checks, IndexError) applied to canonical Buffers returns the canonical Buffer of the list operation, and the operand post-states are the operands. The byte-level model is tied to buffer.py by the buf stream (every op, every byte of content/length/padding/padding_length and operand post-state compared) and the inplace flags are read from the source by the translator. Not modelled: start > stop slices (negative length) and step slices, which the property excludes.')

L['C06'] = dict(modules=['Schc.Properties.C06'], level='proof', technique='Lean 4 refinement of the byte-level Buffer model (_shift_left/_shift_right, & | ^ ~, value, chunks) to bit lists',
    theorems=[T('C06_shift', 'full', 'shift(s, inplace) for every integer s, both sides, both modes'),
              T('C06_shift_left_bits', 'full', 'left shift appends zeros'), T('C06_shift_right_bits', 'full', 'right shift drops the last bits'),
              T('C06_shift_right_all', 'full', 's >= length leaves the empty Buffer'),
              T('C06_and', 'full', '& over equal lengths, ValueError otherwise (operand preservation: C16_pure_and)'), T('C06_or', 'full', '|'), T('C06_xor', 'full', '^'),
              T('C06_invert', 'full', '~'), T('C06_value', 'full', 'value() is the big-endian integer (operand preservation: C16_pure_value)'),
              T('C06_chunks', 'full', 'chunks(n, padding) for every n >= 1'), T('C06_chunks_pieces', 'full', 'closed form of the pieces'),
              T('C06_chunks_zero', 'full', 'chunks(0) raises'),
              T('C06_chunks_tile', 'full', 'without padding the pieces concatenate to the Buffer, every chunk size'), T('C06_chunks_padded', 'full', 'with padding every piece has n bits and the pieces spell the bits followed by zeros'), T('C06_invert_twice', 'full', '~~b = b through the byte-level model'), T('C06_shift_left_right', 'full', 'shift left by s then right by s is the identity')],
    level_text='Proved for bit strings of every length, both sides, every shift amount (any integer) and every chunk size. Tie as for C05. Python ints are unbounded Nat in the model (exact).')

L['C19'] = dict(modules=['Schc.Properties.C19'], level='proof', technique='Lean 4 lockstep simulation of the two option walks of _parse_options, inversion of CoAPParser.unparse (tables read from coap.py), and the substring dispatch of PacketParser.unparse reduced to one segment per header parser (id facts decided on regenerated tables; a string lemma for OPTION_UNKNOWN(n), every n)',
    theorems=[T('C19_lossless', 'full', 'semantic parse then unparse = syntactic (id, value) sequence, for every LEFT-padded message with no reserved nibble 15; both parses succeed together on the same bytes'),
              T('C19_parse_decided', 'full', 'the syntactic parse terminates (ok or ParserError) with the fuel used'),
              T('C19_option', 'full', 'one option, all delta/length ranges and boundaries, empty and non-empty values'),
              T('C19_field_id', 'full', 'every option number (known or OPTION_UNKNOWN(n)) survives its field id; ids never collide with fixed fields'),
              T('C19_boundaries', 'test', 'boundary arithmetic 12/13, 268/269 (concrete values)'),
              T('C19_stack_unparse', 'full', 'IP/UDP/CoAP stack, options in semantic mode: PacketParser.unparse of the parsed fields + payload is the syntactic field sequence + payload (dispatch by parser name proved for every option id, named or OPTION_UNKNOWN(n))'),
              T('C19_single_unparse', 'full', 'the same for the CoAP parser alone'),
              T('C19_stack_roundtrip', 'full', 'parse with the semantic stack, compress with any fitting lossless rule, decompress with the parser as unparser: the packet, bit for bit'),
              T('C19_stack_roundtrip_compute', 'full', 'the same with IPv6 payload length / UDP length / UDP checksum as compute fields (any subset): un-parse first, then compute over the re-encoded options; valid packets come back bit for bit'),
              T('C19_unparse_identity', 'full', 'any stack without a semantic CoAP parser — header classes listed twice or again after another header, prediction: PacketParser.unparse is the identity (every field once, in order)'),
              T('C19_unparse_runs', 'full', 'the dispatch of PacketParser.unparse in general: any number of parsers, classes repeated or not, either CoAP mode — a field list made of one run per parser is un-parsed run by run, the rest kept'), T('C19_recipe_rules_fit', 'full', 'every rule the uroundtrip stream derives from a parsed packet (any recipe string) satisfies the hypotheses of the round-trip theorems'),
              T('C19_stack_roundtrip_compute4', 'full', 'the IPv4 variant: total length, header checksum, UDP length, UDP checksum as compute fields (any subset)')],
    level_text='Proved for messages of any length with any number of options, any option numbers (known and unknown to the library), any deltas and value lengths, with and without payload, under the hypothesis that no delta/length nibble is the reserved value 15 (RFC 7252 cannot encode such options; an example shows the hypothesis is needed). Values compared as (field id, Buffer) pairs, exactly. Trusted/abstracted: Python re.match and int() on the rendered OPTION_UNKNOWN(n) id are modelled by unknownOptionNumber (checked by the parse stream on unknown options); str(Enum) rendering is read from the running interpreter by the translator. PacketParser.unparse dispatch (parser.py) is covered by correspondence, not by this theorem.')
for k in L:
    L[k]['level_note'] = NOTE
    L[k]['design_ref'] = 'DESIGN.md §6 ' + k
json.dump(L, open(f'{V}/obligations.json', 'w'), indent=1, sort_keys=True)
print(sorted(L))
