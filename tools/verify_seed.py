#!/usr/bin/env python3
"""Confirm a seeded change: applies cleanly to /repo's HEAD in a scratch worktree, the 82 tests pass with it,
its demo exits 1 with it and 0 without it. On success copy it to /verif/seeded/<name>/."""
import os, sys, json, subprocess, shutil
def sh(cmd, **kw): return subprocess.run(cmd, shell=True, capture_output=True, text=True, **kw)
def main(src, name):
    wt = '/tmp/wt/verify'
    sh(f'git -C /repo worktree remove --force {wt}'); sh(f'git -C /repo worktree add -q --detach {wt} HEAD')
    try:
        env = dict(os.environ, PYTHONPATH=wt, PYTHONWARNINGS='ignore')
        pristine = sh(f'timeout 600 /venv/bin/python {src}/demo.py', env=env, cwd=wt)
        a = sh(f'git -C {wt} apply {src}/patch.diff')
        if a.returncode: return {'ok': False, 'why': 'patch does not apply: ' + a.stderr[:300]}
        files = sh(f'git -C {wt} diff --name-only').stdout.split()
        t = sh('timeout 900 /venv/bin/python -m pytest -q -p no:cacheprovider 2>&1 | tail -1', env=env, cwd=wt)
        changed = sh(f'timeout 600 /venv/bin/python {src}/demo.py', env=env, cwd=wt)
        res = {'tests': t.stdout.strip(), 'demo_pristine_exit': pristine.returncode, 'demo_changed_exit': changed.returncode, 'files': files}
        res['ok'] = ('82 passed' in t.stdout) and pristine.returncode == 0 and changed.returncode == 1
        if res['ok']:
            dst = f'/verif/seeded/{name}'
            os.makedirs(dst, exist_ok=True)
            shutil.copy(f'{src}/patch.diff', dst); shutil.copy(f'{src}/demo.py', dst)
            meta = json.load(open(f'{src}/meta.json')) if os.path.exists(f'{src}/meta.json') else {}
            meta.update({'confirmed': {'tests_with_change': t.stdout.strip(), 'demo_exit_without_change': 0, 'demo_exit_with_change': 1,
                                       'ran': 'tools/verify_seed.py: git apply in a scratch worktree of /repo HEAD, pytest, demo.py with PYTHONPATH=<worktree>'},
                         'changed_files': files})
            json.dump(meta, open(f'{dst}/meta.json', 'w'), indent=1)
        return res
    finally:
        sh(f'git -C /repo worktree remove --force {wt}')
if __name__ == '__main__':
    print(json.dumps(main(sys.argv[1], sys.argv[2])))
