#!/bin/sh
# run every registered check on the current tree: tools/run_all.sh [quick|thorough]
cd "$(dirname "$0")/.." || exit 2
tier=${1:-quick}; rc=0
for p in C01 C02 C03 C04 C05 C06 C07 C08 C09 C10 C11 C12 C13 C14 C15 C16 C17 C18 C19 C20; do
  ./check $p --tier $tier | grep -E "^(VIOLATION|KNOWN-FINDING|C[0-9]+ )" | cut -c1-220 || true
done
