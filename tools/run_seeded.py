#!/usr/bin/env python3
"""Apply every confirmed seeded change to /repo in turn, run the property's registered check, undo the change.
usage: tools/run_seeded.py [--tier quick|thorough] [name ...]       (results: seeded/RESULTS.json)"""
import os, sys, json, subprocess, time
def sh(cmd, **kw): return subprocess.run(cmd, shell=True, capture_output=True, text=True, **kw)
def main():
    args = sys.argv[1:]; tier = 'quick'
    if args[:1] == ['--tier']: tier = args[1]; args = args[2:]
    names = args or sorted(d for d in os.listdir('/verif/seeded') if os.path.isdir(f'/verif/seeded/{d}'))
    path = '/verif/seeded/RESULTS.json'
    results = json.load(open(path)) if os.path.exists(path) else {}
    assert sh('git -C /repo status --porcelain').stdout.strip() == '', '/repo is not clean'
    for n in names:
        prop = n[:3]
        a = sh(f'git -C /repo apply /verif/seeded/{n}/patch.diff')
        if a.returncode: results[n] = {'error': 'patch does not apply'}; continue
        try:
            t = time.time()
            r = sh(f'./check {prop} --tier {tier}', cwd='/verif', timeout=3600)
            lines = [l for l in r.stdout.splitlines() if l.startswith('VIOLATION')]
            results[n] = {'property': prop, 'tier': tier, 'exit': r.returncode, 'violation': lines[:1], 'wall_s': round(time.time() - t, 1),
                          'detected': r.returncode == 1 and bool(lines), 'with_failing_input': bool(lines) and 'no-failing-input-found' not in lines[0]}
            if lines and os.path.exists('/verif/evidence/replay/%s-1.json' % prop):
                rp = json.load(open('/verif/evidence/replay/%s-1.json' % prop))
                results[n]['replay_op'] = (rp.get('op') or json.dumps(rp.get('broken', [{}])[0]))[:300]
        finally:
            sh('git -C /repo checkout -- .')
        print(n, results[n].get('detected'), results[n].get('violation'), results[n].get('wall_s'), flush=True)
        json.dump(results, open(path, 'w'), indent=1, sort_keys=True)
    assert sh('git -C /repo status --porcelain').stdout.strip() == ''
    # the evidence files now describe the last patched tree: rewrite them from the clean tree
    for prop in sorted({n[:3] for n in names}):
        r = sh(f'./check {prop} --tier {tier}', cwd='/verif', timeout=3600)
        print('clean tree:', r.stdout.strip().splitlines()[-1] if r.stdout.strip() else r.stderr[-200:], flush=True)
if __name__ == '__main__':
    main()
