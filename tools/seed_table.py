#!/usr/bin/env python3
"""Rewrite the seeded-changes table of DESIGN.md from seeded/*/meta.json and seeded/RESULTS.json."""
import json, os, re
V = os.path.dirname(os.path.dirname(os.path.abspath(__file__)))
res = json.load(open(f'{V}/seeded/RESULTS.json'))
rows = ['| seed | what it changes | quick check |', '|---|---|---|']
for n in sorted(d for d in os.listdir(f'{V}/seeded') if os.path.isdir(f'{V}/seeded/{d}')):
    m = json.load(open(f'{V}/seeded/{n}/meta.json'))
    r = res.get(n, {})
    if r.get('detected') and r.get('with_failing_input'): verdict = 'caught: ' + (r.get('replay_op') or '')[:70].replace('|', '/')
    elif r.get('detected'): verdict = 'caught as broken obligation, no failing input found'
    else: verdict = 'MISSED' if r else 'not run'
    rows.append(f"| {n} | {m.get('summary', '')[:170].replace('|', '/')} | {verdict} |")
s = open(f'{V}/DESIGN.md').read()
a = s.index('| seed | what it changes | quick check |')
b = s.index('\n\n', a)
s = s[:a] + '\n'.join(rows) + s[b:]
open(f'{V}/DESIGN.md', 'w').write(s)
print(len(rows) - 2, 'seeds;', sum(1 for n in res if res[n].get('detected') and res[n].get('with_failing_input')), 'caught with failing input')
