#!/usr/bin/env python3
"""(Re)write MANIFEST.json from properties.jsonl + obligations.json (levels follow the ledger)."""
import json, os
V = os.path.dirname(os.path.dirname(os.path.abspath(__file__)))
props = [json.loads(l) for l in open(f'{V}/properties.jsonl')]
led = json.load(open(f'{V}/obligations.json'))
repo_commits = os.popen('git -C /repo log --format=%h 65334af..HEAD').read().split()
checks = []
for p in props:
    i = p['id']; L = led.get(i, {})
    level = L.get('level', 'other')
    checks.append({
        'property_id': i,
        'quick_cmd': f'./check {i} --tier quick',
        'thorough_cmd': f'./check {i} --tier thorough',
        'evidence_file': f'evidence/{i}.json',
        'replay_cmd_template': f'./check {i} --replay {{path}}',
        'engine': 'lean-proof+correspondence',
        'level_claimed': {'category': level, 'text': L.get('level_text', 'Executable Lean model of the code tied to /repo by regenerated tables and differential correspondence, with a Python bit-string oracle judging the implementation; theorems for this property are still pending, so no proof is claimed yet.'), 'design_ref': L.get('design_ref', 'DESIGN.md §6')},
        'level_note': L.get('level_note', 'Trusted: Lean 4.33 kernel; translator/gen.py; the correspondence harness; the hand-written model Schc.Py.* is tied to the code only by correspondence.'),
        'technique': L.get('technique', 'Lean 4 model + differential correspondence (theorems pending)'),
    })
m = {'version': 1,
     'setup_cmd': 'cd lean && { /venv/bin/python ../translator/gen.py; lake build Schc.All driver; echo "setup: warm-up build finished (exit status ignored: every check regenerates, rebuilds its own modules and reports what no longer builds)"; true; }',
     'hooks': {'guard': 'MICROSCHC_VERIF', 'enable': 'no hooks are needed: the checks import /repo\'s working tree as it is (PYTHONPATH=/repo) and read its sources with ast', 'baseline_off_cmd': 'cd /repo && /venv/bin/python -m pytest -ra -q -p no:cacheprovider --timeout=900 --continue-on-collection-errors', 'source_commits': [], 'add_only': True},
     'engines': [{'name': 'lean-proof+correspondence', 'path': 'check', 'serves_properties': [p['id'] for p in props],
                  'kind_free_text': 'Lean 4 model + theorems (lake build, #print axioms audit), translator-regenerated tables, compiled Lean driver compared line by line with the real code, Python RFC oracles for the failing-input search'}],
     'checks': checks,
     'not_applicable': [],
     'notes': 'fix: commits in /repo (genuine defects, see known_findings.json / DESIGN.md): ' + ' '.join(repo_commits)}
json.dump(m, open(f'{V}/MANIFEST.json', 'w'), indent=1)
print(len(checks), 'checks')
