#!/venv/bin/python
"""Which lines and branches of /repo/microschc do the correspondence streams execute?

usage: /venv/bin/python tools/impl_coverage.py [--tier quick|thorough] [--max-lines N] [Cxx ...]

Runs the implementation side of every stream of every property (same generators, same seed as the checks), in this
process, under coverage.py (branch mode, source = /repo/microschc) and prints per file the statements and branches
that no stream reached. It is a tool for whoever maintains the generators — a change hidden on a line the streams
never execute can only be seen by the proofs' side (translator tables), never by a failing input — and its summary
is copied into DESIGN.md. It is not one of the registered checks and decides nothing.
"""
import os, sys, json, random, importlib
VERIF = os.path.normpath(os.path.join(os.path.dirname(os.path.abspath(__file__)), '..'))
sys.path.insert(0, VERIF)
import coverage

def main():
    args = sys.argv[1:]
    tier, cap = 'quick', 6000
    while args and args[0].startswith('--'):
        if args[0] == '--tier': tier = args[1]
        elif args[0] == '--max-lines': cap = int(args[1])
        args = args[2:]
    from harness import common
    from harness.runner import STREAMS
    props = args or sorted(STREAMS)
    cov = coverage.Coverage(branch=True, source=[os.path.join(common.REPO, 'microschc')], data_file=None)
    cov.start()
    total = 0
    for prop in props:
        for modname in STREAMS[prop]:
            mod = importlib.import_module('harness.' + modname)
            rng = random.Random(f'0/{modname}/{prop}')
            lines = list(mod.gen([prop], tier, rng))
            if len(lines) > cap:                      # exhaustive small-scope enumerations: a spread sample is enough here
                step = len(lines) / cap
                lines = [lines[int(i * step)] for i in range(cap)]
            for l in lines:
                try:
                    mod.evaluate(l)
                except Exception:
                    pass
            total += len(lines)
            print(f'{prop} {modname}: {len(lines)} lines', file=sys.stderr, flush=True)
    cov.stop()
    data = cov.get_data()
    report = {}
    for f in sorted(data.measured_files()):
        an = cov._analyze(f)
        rel = os.path.relpath(f, common.REPO)
        missing = sorted(an.missing)
        mb = {k: v for k, v in an.missing_branch_arcs().items()}
        report[rel] = {'statements': len(an.statements), 'missing': missing,
                       'missing_branches': sorted((a, b) for a, bs in mb.items() for b in bs)}
    print(json.dumps({'tier': tier, 'lines_run': total, 'files': report}, indent=1))

if __name__ == '__main__':
    main()
