"""Witnesses of SCHC-level defects found at the pinned commit."""
import sys, signal, importlib.util
from microschc.binary.buffer import Buffer, Padding
from microschc.rfc8724 import *
from microschc.rfc8724extras import Context
from microschc.compressor.compressor import compress
from microschc.decompressor.decompressor import decompress
from microschc.ruler.ruler import Ruler, RuleDescriptorMatchError, RuleIDMatchError, _field_match
from microschc.manager.manager import ContextManager, MatchStrategy
from microschc.parser.parser import ParserError, PacketParser
from microschc.protocol.registry import factory
from microschc.protocol.coap import CoAPParser, CoAPOptionMode
from microschc.protocol.sctp import SCTPParser
from microschc.protocol import ComputeFunctions
L, R = Padding.LEFT, Padding.RIGHT
def bits(b): return ''.join(str(x) for x in b)
def B(s, pad=L):
    n = len(s); v = int(s, 2) if s else 0
    if pad == R: v <<= (8 - n % 8) % 8
    return Buffer(v.to_bytes((n + 7)//8, 'big'), n, pad)
res = []
class Hang(Exception): pass
def t(name, prop, f):
    def h(*a): raise Hang()
    signal.signal(signal.SIGALRM, h); signal.setitimer(signal.ITIMER_REAL, 3)
    try: ok = bool(f())
    except Hang: ok = False; name += ' [HANG]'
    except Exception as e: ok = False; name += f' [{type(e).__name__}]'
    finally: signal.setitimer(signal.ITIMER_REAL, 0)
    res.append((name, prop, ok))
def raises(exc, f):
    try: f()
    except exc: return True
    return False

ipv6udp = bytes.fromhex('60000000000c1140' + '20010db8000000000000000000000001' + '20010db8000000000000000000000002' + 'd1001633000c0000')
coap = bytes.fromhex('40011234')
t('ParserError can be raised', 'C14', lambda: raises(ParserError, lambda: factory('IPv6-UDP-CoAP').parse(Buffer(b'\x60', 8))))
def mk_ctx(rules): return Context(id='c', description='', interface_id='i', parser_id='CoAP', ruleset=rules)
rule_nomatch = RuleDescriptor(id=B('01'), field_descriptors=[RuleFieldDescriptor(id='CoAP:Version', length=2, position=0, direction=DI.BIDIRECTIONAL, target_value=B('11'), matching_operator=MO.EQUAL, compression_decompression_action=CDA.NOT_SENT)])
t('no matching rule, FIRST', 'C15', lambda: raises(RuleDescriptorMatchError, lambda: ContextManager(mk_ctx([rule_nomatch])).compress(Buffer(coap, 32))))
t('no matching rule, BEST', 'C15', lambda: raises(RuleDescriptorMatchError, lambda: ContextManager(mk_ctx([rule_nomatch])).compress(Buffer(coap, 32), match_strategy=MatchStrategy.BEST)))
# variable-length LSB
def f():
    pkt = PacketDescriptor(direction=DI.UP, fields=[FieldDescriptor(id='f', value=B('101100001111000011110000'), position=0)], payload=B('1'))
    rule = RuleDescriptor(id=B('1'), field_descriptors=[RuleFieldDescriptor(id='f', length=0, position=0, direction=DI.BIDIRECTIONAL, target_value=B('10110000'), matching_operator=MO.MSB, compression_decompression_action=CDA.LSB)])
    assert list(Ruler([rule]).match_packet_descriptor(pkt)) == [rule]
    return bits(decompress(compress(pkt, rule), rule)) == bits(pkt.raw)
t('variable-length LSB round trip', 'C17', f)
def f():
    pf = FieldDescriptor(id='f', value=B('01100001'), position=0)
    rf = RuleFieldDescriptor(id='f', length=0, position=0, direction=DI.BIDIRECTIONAL, target_value=B('0110000100000000'), matching_operator=MO.MSB, compression_decompression_action=CDA.LSB)
    return _field_match(pf, rf) is False
t('MSB pattern longer than the field', 'C04', f)
# IPv4 UDP checksum
def f():
    import struct
    hdr = bytes.fromhex('4500001c00004000401100000a0000010a000002'); udp = bytes.fromhex('1633163400080000')
    fields = factory('IPv4').parse(Buffer(hdr + udp, 224)).fields
    lst = [(f.id, f.value) for f in fields] + [('Payload', Buffer(b'', 0))]
    pos = [i for i, (k, _) in enumerate(lst) if k == 'UDP:Checksum'][0]
    got = ComputeFunctions['UDP:Checksum'][0](lst, pos).value()
    ps = hdr[12:20] + b'\x00\x11\x00\x08' + udp
    s = sum(struct.unpack('!%dH' % (len(ps)//2), ps)); s = (s & 0xffff) + (s >> 16); s = (s & 0xffff) + (s >> 16); exp = (~s) & 0xffff or 0xffff
    return got == exp
t('UDP checksum over the IPv4 pseudo-header', 'C09', f)
def f():
    hdr = bytes.fromhex('45000020b979400040110000c0a80001c0a80002')
    fields = factory('IPv4').parse(Buffer(hdr + bytes(12), 256)).fields
    lst = [(f.id, f.value) for f in fields]
    pos = [i for i, (k, _) in enumerate(lst) if k == 'IPv4:Header Checksum'][0]
    return ComputeFunctions['IPv4:Header Checksum'][0](lst, pos).value() == 0
t('IPv4 header checksum 0x0000 kept', 'C09', f)
# CoAP
def coap_parse(b, mode=CoAPOptionMode.SYNTACTIC): return CoAPParser(interpret_options=mode).parse(Buffer(b, len(b)*8))
def tiles(h, b):
    return ''.join(bits(f.value) for f in h.fields) == bits(Buffer(b, len(b)*8))[:h.length] and h.length <= len(b)*8
def f():
    b = bytes.fromhex('44011234aabb')   # token length 4, 2 bytes present
    try: h = coap_parse(b)
    except ParserError: return True
    return tiles(h, b)
t('CoAP truncated token', 'C07', f)
def f():
    b = bytes.fromhex('40011234' + 'b5aabb')   # option length 5, 2 bytes present
    try: h = coap_parse(b)
    except ParserError: return True
    return tiles(h, b)
t('CoAP truncated option value', 'C07', f)
def f():
    val = bytes(range(256)) + bytes(44)          # 300 bytes
    b = bytes.fromhex('40011234') + bytes([0xbe]) + (300 - 269).to_bytes(2, 'big') + val
    h = coap_parse(b)
    return [f.value.length for f in h.fields if f.id == 'CoAP:Option Value'] == [2400]
t('CoAP option value of 300 bytes', 'C08', f)
def sem_roundtrip(b):
    syn = [(str(f.id.value if hasattr(f.id, 'value') else f.id), bits(f.value)) for f in coap_parse(b).fields]
    p = CoAPParser(interpret_options=CoAPOptionMode.SEMANTIC)
    sem = p.parse(Buffer(b, len(b)*8)).fields
    un = p.unparse([(f.id, f.value) for f in sem])
    un = [(str(k.value if hasattr(k, 'value') else k), bits(v)) for k, v in un]
    return un == syn
H = bytes.fromhex('40011234')
t('C19 zero-length option value', 'C19', lambda: sem_roundtrip(H + bytes([0x50])))
t('C19 two options, second empty', 'C19', lambda: sem_roundtrip(H + bytes([0xb1, 0x61, 0x10])))
t('C19 value length 12', 'C19', lambda: sem_roundtrip(H + bytes([0xbc]) + bytes(12)))
t('C19 value length 13', 'C19', lambda: sem_roundtrip(H + bytes([0xbd, 0]) + bytes(13)))
t('C19 delta exactly 13', 'C19', lambda: sem_roundtrip(H + bytes([0xd1, 0, 0x41])))
t('C19 delta 14 (known option Max-Age)', 'C19', lambda: sem_roundtrip(H + bytes([0xd1, 1, 0x41])))
t('C19 unknown option 2', 'C19', lambda: sem_roundtrip(H + bytes([0x21, 0x41])))
t('C19 delta 300', 'C19', lambda: sem_roundtrip(H + bytes([0xe1]) + (300 - 269).to_bytes(2, 'big') + b'\x41'))
t('C19 delta 1000 (ext 0x02db)', 'C19', lambda: sem_roundtrip(H + bytes([0xe1]) + (1000 - 269).to_bytes(2, 'big') + b'\x41'))
t('C19 value length 600', 'C19', lambda: sem_roundtrip(H + bytes([0xbe]) + (600 - 269).to_bytes(2, 'big') + bytes(600)))
t('C19 with payload', 'C19', lambda: sem_roundtrip(H + bytes([0xb1, 0x61, 0xff, 1, 2])))
def f():
    p = PacketParser('x', [CoAPParser(interpret_options=CoAPOptionMode.SEMANTIC)])
    sem = p.parse(Buffer(H + bytes([0xb1, 0x61]), 48)).fields
    return len(p.unparse([(f.id, f.value) for f in sem])) > 0
t('PacketParser.unparse on (id, value) tuples', 'C19', f)
# SCTP
S = bytes.fromhex('0b59 0b59 00000000 00000000'.replace(' ', ''))
def sctp(b): return SCTPParser().parse(Buffer(b, len(b)*8))
def sctp_ok(b):
    try: h = sctp(b)
    except ParserError: return True
    return tiles(h, b) and h.length == sum(f.value.length for f in h.fields)
t('SCTP chunk length 0', 'C14', lambda: sctp_ok(S + bytes.fromhex('0e000000')))
t('SCTP parameter length 0', 'C14', lambda: sctp_ok(S + bytes.fromhex('04000008' + '00010000')))
t('SCTP truncated chunk header', 'C14', lambda: sctp_ok(S + bytes.fromhex('0e00')))
t('SCTP SACK with a gap block', 'C14', lambda: sctp_ok(S + bytes.fromhex('03000014' + '00000001' + '0000ffff' + '00010000' + '00020003')))
t('SCTP SACK with a gap block parses to 2 extra fields', 'C08', lambda: len(sctp(S + bytes.fromhex('03000014' + '00000001' + '0000ffff' + '00010000' + '00020003')).fields) == 4 + 3 + 4 + 2)
t('SCTP chunk length 2', 'C07', lambda: sctp_ok(S + bytes.fromhex('0e000002')))
t('SCTP parameter length 2', 'C07', lambda: sctp_ok(S + bytes.fromhex('0400000c' + '00010002' + '00000000')))
t('SCTP SHUTDOWN with surplus bytes', 'C07', lambda: sctp_ok(S + bytes.fromhex('0700000c' + '00000001' + 'deadbeef')))
t('SCTP SHUTDOWN ACK with surplus bytes', 'C07', lambda: sctp_ok(S + bytes.fromhex('08000008' + 'deadbeef')))
t('SCTP SACK with surplus bytes', 'C07', lambda: sctp_ok(S + bytes.fromhex('03000014' + '00000001' + '0000ffff' + '00000000' + 'deadbeef')))
# JSON
def f():
    mm = MatchMapping({B('0001'): B('0'), B('0010'): B('1')})
    rf = RuleFieldDescriptor(id='f', length=4, position=0, direction=DI.BIDIRECTIONAL, target_value=mm, matching_operator=MO.MATCH_MAPPING, compression_decompression_action=CDA.MAPPING_SENT)
    return RuleFieldDescriptor.from_json(rf.json()) == rf
t('reloaded rule field with a MatchMapping equals the original', 'C12', f)
def f():
    mm = MatchMapping({B('0001'): B('0'), B('0010'): B('1')})
    rf = RuleFieldDescriptor(id='f', length=4, position=0, direction=DI.BIDIRECTIONAL, target_value=mm, matching_operator=MO.MATCH_MAPPING, compression_decompression_action=CDA.VALUE_SENT)
    return RuleFieldDescriptor.from_json(rf.json()) == rf
t('match-mapping / value-sent rule field reloads', 'C12', f)
bad = [r for r in res if not r[2]]
for r in res: print(('ok   ' if r[2] else 'FAIL ') + r[1] + ' ' + r[0])
sys.exit(1 if bad else 0)
