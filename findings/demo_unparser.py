import sys, warnings
warnings.simplefilter('ignore')
from microschc.protocol.coap import CoAPParser, CoAPOptionMode
from microschc.protocol.ipv6 import IPv6Parser
from microschc.protocol.udp import UDPParser
from microschc.parser.parser import PacketParser
from microschc.protocol.registry import factory
from microschc.binary.buffer import Buffer, Padding
from microschc.rfc8724 import *
from microschc.rfc8724 import MatchingOperator as MO, CompressionDecompressionAction as CDA
from microschc.compressor.compressor import compress
from microschc.decompressor.decompressor import decompress
from microschc.ruler.ruler import Ruler
def csum(data):
    if len(data)%2: data+=b'\0'
    s=sum(int.from_bytes(data[i:i+2],'big') for i in range(0,len(data),2))
    while s>>16: s=(s&0xffff)+(s>>16)
    return (~s)&0xffff
coap=bytes.fromhex('40011234b161ff616263')
src=bytes(15)+b'\x01'; dst=bytes(15)+b'\x02'
ulen=8+len(coap)
udp0=bytes.fromhex('03e807d0')+ ulen.to_bytes(2,'big')+b'\x00\x00'
ck=csum(src+dst+ulen.to_bytes(4,'big')+bytes([0,0,0,17])+udp0+coap) or 0xffff
udp=udp0[:6]+ck.to_bytes(2,'big')
ip6=bytes.fromhex('60000000')+len(udp+coap).to_bytes(2,'big')+bytes([17,64])+src+dst
pkt=ip6+udp+coap
bad=0
for name,pp in (('semantic', PacketParser('x',[IPv6Parser(),UDPParser(),CoAPParser(interpret_options=CoAPOptionMode.SEMANTIC)])),
                ('predictive', factory('IPv6'))):
    buf=Buffer(content=pkt,length=len(pkt)*8)
    pd=pp.parse(buf)
    for compute in (False, True):
        fs=[]
        for f in pd.fields:
            if compute and f.id in ('IPv6:Payload Length','UDP:Length','UDP:Checksum'):
                fs.append(RuleFieldDescriptor(id=f.id,length=f.value.length,position=f.position,direction=DirectionIndicator.BIDIRECTIONAL,target_value=Buffer(content=b'',length=0),matching_operator=MO.IGNORE,compression_decompression_action=CDA.COMPUTE))
            else:
                fs.append(RuleFieldDescriptor(id=f.id,length=0 if 'Option' in f.id else f.value.length,position=f.position,direction=DirectionIndicator.BIDIRECTIONAL,target_value=Buffer(content=b'',length=0),matching_operator=MO.IGNORE,compression_decompression_action=CDA.VALUE_SENT))
        r=RuleDescriptor(id=Buffer(content=b'\x01',length=2),nature=RuleNature.COMPRESSION,field_descriptors=fs)
        assert list(Ruler([r]).match_packet_descriptor(pd))
        c=compress(pd,r)
        d=decompress(c,r,unparser=pp)
        ok = d==buf
        print(name, 'compute' if compute else 'no-compute', 'OK' if ok else f'WRONG: {d} expected {buf}')
        bad+= not ok
sys.exit(1 if bad else 0)
