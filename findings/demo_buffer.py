"""Witnesses of the Buffer defects found at the pinned commit (each line: id, property, passes?)."""
import sys
from microschc.binary.buffer import Buffer, Padding
L, R = Padding.LEFT, Padding.RIGHT
def bits(b): return ''.join(str(x) for x in b)
def canon(b):
    n = (b.length + 7)//8
    if len(b.content) != n: return False
    if b.length % 8 == 0: return True
    pl = 8 - b.length % 8
    return (b.content[0] >> (8-pl) == 0) if b.padding == L else (b.content[-1] & ((1<<pl)-1) == 0)
res = []
def t(name, prop, f):
    try: ok = bool(f())
    except Exception as e: ok = False; name += f' [{type(e).__name__}]'
    res.append((name, prop, ok))
t('ctor length 0 left keeps content', 'C05', lambda: Buffer(b'\x01\x02', 0).content == b'' and Buffer(b'\x01\x02', 0) == Buffer(b'', 0))
t('hash differs across padding side', 'C13', lambda: Buffer(b'\x01',4,L) == Buffer(b'\x10',4,R) and hash(Buffer(b'\x01',4,L)) == hash(Buffer(b'\x10',4,R)))
def f():
    b = Buffer(b'\xb0',4,R); b.value(); return b.padding is R and b.content == b'\xb0'
t('value() re-pads a right-padded operand', 'C16', f)
def f():
    a = Buffer(b'\x0b',4,L); b = Buffer(b'\xb0',4,R); a & b; a | b; a ^ b; return b.padding is R and b.content == b'\xb0'
t('and/or/xor re-pad `another`', 'C16', f)
def f():
    b = Buffer(b'\xb0',4,R).shift(1, inplace=False); return bits(b) == '101' and canon(b)
t('right shift of right-padded buffer', 'C06', f)
def f():
    b = Buffer(bytes(range(1,8)), 52, R); c = list(b.chunks(32, padding=True)); return [x.length for x in c] == [32, 32]
t('chunks(32, padding=True) leaves last chunk short', 'C06', f)
t('value() of empty buffer', 'C06', lambda: Buffer(b'',0).value() == 0)
t('~ of empty buffer', 'C06', lambda: (~Buffer(b'',0)).length == 0)
t('~ of empty right buffer', 'C06', lambda: (~Buffer(b'',0,R)).length == 0)
def f():
    b = Buffer.from_json(Buffer(b'\x05',5,L).json()); return b.padding is L and bits(b[0:3]) == '001'
t('from_json keeps padding as str', 'C12', f)
bad = [r for r in res if not r[2]]
for r in res: print(('ok   ' if r[2] else 'FAIL ') + r[1] + ' ' + r[0])
sys.exit(1 if bad else 0)
