#!/usr/bin/env python3
"""Translator: /repo working tree -> /verif/lean/Schc/Gen/*.lean (tables only, regenerated on every run).

Two means (DESIGN.md §4.1): import-and-dump for data tables, AST extraction for regular code.
Every extractor fails loudly (TranslatorError) when the source no longer has the shape it expects;
the caller treats that as a broken tie, never as a guess.
Files are rewritten only when their content changes, so an unchanged tree costs a no-op build.
"""
import ast, os, sys, json, importlib

REPO = os.environ.get('VERIF_REPO', '/repo')
OUT = os.path.join(os.path.dirname(os.path.abspath(__file__)), '..', 'lean', 'Schc', 'Gen')

class TranslatorError(Exception):
    pass

def lean_str(s):
    return '"' + s.replace('\\', '\\\\').replace('"', '\\"') + '"'

def lean_bool(b):
    return 'true' if b else 'false'

def write_if_changed(name, text):
    path = os.path.join(OUT, name)
    os.makedirs(OUT, exist_ok=True)
    old = open(path).read() if os.path.exists(path) else None
    if old != text:
        with open(path + '.tmp', 'w') as f:
            f.write(text)
        os.replace(path + '.tmp', path)
        return True
    return False

def parse(relpath):
    with open(os.path.join(REPO, relpath)) as f:
        tree = ast.parse(f.read(), filename=relpath)
    load_const_env(tree)      # constants of the module now being read (used by `_const_int`)
    return tree

def class_methods(tree, cls):
    for node in tree.body:
        if isinstance(node, ast.ClassDef) and node.name == cls:
            return {n.name: n for n in node.body if isinstance(n, ast.FunctionDef)}
    raise TranslatorError(f'class {cls} not found')


# ---------------------------------------------------------------------------------------------
# names → roles: the tables identify a receiver by what it IS in its function (self, the i-th parameter, the k-th local in
# order of first binding), not by what it is called, so that renaming a parameter or a local changes nothing
# ---------------------------------------------------------------------------------------------

def canon_names(fn):
    """name → role. `self`; other parameters `arg<i>`; a local is identified by the expression it is FIRST bound to
    (parameters inside it by role, other locals as `_`), so that neither renaming a variable nor adding another local
    changes the tables — while rebinding a receiver to something else does."""
    if not isinstance(fn, (ast.FunctionDef, ast.AsyncFunctionDef)):
        return {}
    m = {}
    a = fn.args
    params = [x.arg for x in a.posonlyargs + a.args] + ([a.vararg.arg] if a.vararg else []) + [x.arg for x in a.kwonlyargs] + ([a.kwarg.arg] if a.kwarg else [])
    for i, n in enumerate(params):
        m[n] = 'self' if (i == 0 and n == 'self') else f'arg{i}'
    binds = []   # (line, col, name, description of the bound expression)
    def targets(t, desc):
        if isinstance(t, ast.Name):
            binds.append((t.lineno, t.col_offset, t.id, desc))
        elif isinstance(t, (ast.Tuple, ast.List)):
            for i, e in enumerate(t.elts): targets(e, ('unpack', i, desc))
        elif isinstance(t, ast.Starred):
            targets(t.value, ('star', desc))
    for node in ast.walk(fn):
        if isinstance(node, ast.Assign):
            for t in node.targets: targets(t, node.value)
        elif isinstance(node, ast.AnnAssign) and node.value is not None:
            targets(node.target, node.value)
        elif isinstance(node, ast.AnnAssign):
            pass   # a bare annotation binds nothing
        elif isinstance(node, ast.AugAssign):
            targets(node.target, node.value)
        elif isinstance(node, (ast.For, ast.AsyncFor)):
            targets(node.target, ('iter', node.iter))
        elif isinstance(node, ast.comprehension):
            targets(node.target, ('iter', node.iter))
        elif isinstance(node, (ast.With, ast.AsyncWith)):
            for it in node.items:
                if it.optional_vars is not None: targets(it.optional_vars, ('with', it.context_expr))
        elif isinstance(node, ast.ExceptHandler) and node.name:
            binds.append((node.lineno, node.col_offset, node.name, 'exception'))
        elif isinstance(node, ast.NamedExpr):
            targets(node.target, node.value)
        elif isinstance(node, ast.arg) and node.arg not in m:
            binds.append((node.lineno, node.col_offset, node.arg, 'lambda-parameter'))
    first = {}
    for ln, col, n, desc in sorted(binds, key=lambda x: (x[0], x[1])):
        if n not in m and n not in first:
            first[n] = desc
    locals_ = set(first)
    def head(e, depth=0):
        """a short, stable description of an expression: its head constructor, receivers by role"""
        if isinstance(e, ast.Name):
            if e.id in m and not m[e.id].startswith('«'): return m[e.id]
            if e.id in locals_: return '_'
            return e.id
        if isinstance(e, ast.Attribute): return head(e.value, depth) + '.' + e.attr
        if isinstance(e, ast.Call): return head(e.func, depth) + '(…)'
        if isinstance(e, ast.Subscript): return head(e.value, depth) + '[…]'
        if isinstance(e, (ast.List, ast.Tuple, ast.Set)): return ('[]' if not e.elts else '[…]')
        if isinstance(e, ast.Dict): return ('{}' if not e.keys else '{…}')
        if isinstance(e, ast.IfExp): return head(e.body, depth) + ' if … else ' + head(e.orelse, depth)
        if isinstance(e, ast.UnaryOp): return type(e.op).__name__.lower() + ' …'
        if isinstance(e, ast.BinOp): return head(e.left, depth) + ' ' + type(e.op).__name__.lower() + ' …'
        if isinstance(e, ast.Constant): return type(e.value).__name__
        return type(e).__name__
    def show(desc):
        if isinstance(desc, ast.AST): return head(desc)
        if isinstance(desc, tuple):
            if desc[0] == 'unpack': return f'{show(desc[2])}[{desc[1]}]'
            return f'{desc[0]}({show(desc[1])})'
        return str(desc)
    descs = {n: '«' + show(desc).replace('"', "'") + '»' for n, desc in first.items()}
    m.update(descs)
    return m

class _Renamer(ast.NodeTransformer):
    def __init__(self, m): self.m = m
    def visit_Name(self, node):
        return ast.copy_location(ast.Name(id=self.m.get(node.id, node.id), ctx=node.ctx), node)

def canon_expr(expr, m):
    import copy
    return ast.unparse(_Renamer(m).visit(copy.deepcopy(expr)))

# ---------------------------------------------------------------------------------------------
# buffer.py: inplace flags of internal pad/shift call sites, attribute-write table
# ---------------------------------------------------------------------------------------------

def call_inplace(call, positional_index):
    """value of the `inplace` argument of a pad/shift call (default True)"""
    for kw in call.keywords:
        if kw.arg == 'inplace':
            if isinstance(kw.value, ast.Constant) and isinstance(kw.value.value, bool):
                return kw.value.value
            raise TranslatorError(f'line {call.lineno}: inplace is not a literal')
    if len(call.args) > positional_index:
        a = call.args[positional_index]
        if isinstance(a, ast.Constant) and isinstance(a.value, bool):
            return a.value
        raise TranslatorError(f'line {call.lineno}: inplace is not a literal')
    return True

def method_calls(fn, attr):
    out = []
    m = canon_names(fn)
    for node in ast.walk(fn):
        if isinstance(node, ast.Call) and isinstance(node.func, ast.Attribute) and node.func.attr == attr:
            recv = canon_expr(node.func.value, m)
            out.append((node.lineno, node.col_offset, recv, node))
    out.sort()
    return out

def attr_writes(fn):
    """(receiver, attribute) of every attribute assignment (incl. augmented) in a function"""
    out = []
    m = canon_names(fn)
    for node in ast.walk(fn):
        targets = []
        if isinstance(node, ast.Assign):
            targets = node.targets
        elif isinstance(node, (ast.AugAssign, ast.AnnAssign)):
            targets = [node.target]
        for t in targets:
            for sub in ast.walk(t):
                if isinstance(sub, ast.Attribute) and isinstance(sub.ctx, ast.Store):
                    out.append((canon_expr(sub.value, m), sub.attr))
                if isinstance(sub, ast.Subscript) and isinstance(sub.ctx, ast.Store):
                    out.append((canon_expr(sub.value, m), '[]'))
    return sorted(set(out))

BUFFER_SITES = [
    # (lean name, method, callee, receiver, occurrence index among such calls in the method)
    ('padShiftInplace', 'pad', 'shift', '«self.copy(…)»', 0),   # the copy of self made first thing in pad()
    ('valuePadInplace', 'value', 'pad', 'self', 0),
    ('addPadInplace1', '__add__', 'pad', '«arg1»', 0),        # `right`, the local alias of the second operand
    ('addPadInplace2', '__add__', 'pad', '«arg1»', 1),
    ('andPadInplace', '__and__', 'pad', 'arg1', 0),
    ('orPadInplace', '__or__', 'pad', 'arg1', 0),
    ('xorPadInplace', '__xor__', 'pad', 'arg1', 0),
    ('eqPadInplace', '__eq__', 'pad', 'arg1', 0),
    ('hashPadInplace', '__hash__', 'pad', 'self', 0),
]

def gen_buffer_sites():
    tree = parse('microschc/binary/buffer.py')
    methods = class_methods(tree, 'Buffer')
    lines = ['/- GENERATED by translator/gen.py from microschc/binary/buffer.py — do not edit. -/',
             'namespace Schc.Gen', '']
    expected_counts = {}
    for name, meth, callee, recv, k in BUFFER_SITES:
        expected_counts[(meth, callee)] = max(expected_counts.get((meth, callee), 0), k + 1)
    for name, meth, callee, recv, k in BUFFER_SITES:
        if meth not in methods:
            raise TranslatorError(f'Buffer.{meth} not found')
        calls = method_calls(methods[meth], callee)
        if len(calls) != expected_counts[(meth, callee)]:
            raise TranslatorError(f'Buffer.{meth}: expected {expected_counts[(meth, callee)]} calls of .{callee}(), found {len(calls)}')
        lineno, _, r, call = calls[k]
        if r != recv:
            raise TranslatorError(f'Buffer.{meth} line {lineno}: receiver of .{callee}() is {r}, expected {recv}')
        lines.append(f'/-- buffer.py line {lineno}: `{ast.unparse(call)}` -/')
        lines.append(f'def {name} : Bool := {lean_bool(call_inplace(call, 1))}')
    # every pad/shift/value/setitem call in buffer.py, per method (so that a NEW call site is seen)
    table = []
    for mname, fn in sorted(methods.items()):
        for callee in ('pad', 'shift', '_shift_left', '_shift_right', '_update_padding'):
            for lineno, _, recv, call in method_calls(fn, callee):
                ip = call_inplace(call, 1) if callee in ('pad', 'shift') else True
                table.append((mname, callee, recv, ip))
    lines.append('')
    lines.append('/-- every call of a (possibly) mutating Buffer method inside buffer.py: (method, callee, receiver, inplace) -/')
    lines.append('def bufferMutatingCalls : List (String × String × String × Bool) := [')
    lines.append(',\n'.join(f'  ({lean_str(a)}, {lean_str(b)}, {lean_str(c)}, {lean_bool(d)})' for a, b, c, d in table))
    lines.append(']')
    writes = []
    for mname, fn in sorted(methods.items()):
        for recv, attr in attr_writes(fn):
            writes.append((mname, recv, attr))
    lines.append('')
    lines.append('/-- every attribute / item assignment inside class Buffer: (method, receiver, attribute) -/')
    lines.append('def bufferAttrWrites : List (String × String × String) := [')
    lines.append(',\n'.join(f'  ({lean_str(a)}, {lean_str(b)}, {lean_str(c)})' for a, b, c in writes))
    lines.append(']')
    lines += ['', 'end Schc.Gen', '']
    return write_if_changed('BufferSites.lean', '\n'.join(lines))


# ---------------------------------------------------------------------------------------------
# import-and-dump tables
# ---------------------------------------------------------------------------------------------

def _import_repo():
    if REPO not in sys.path:
        sys.path.insert(0, REPO)
    for m in [m for m in sys.modules if m == 'microschc' or m.startswith('microschc.')]:
        del sys.modules[m]
    import warnings
    warnings.simplefilter('ignore')
    import microschc.protocol as proto
    return proto

def ident(s):
    return ''.join(ch if ch.isalnum() else '_' for ch in s)

def gen_tables():
    proto = _import_repo()
    from microschc.crypto.crc import CRC32C_TABLE
    from microschc.protocol import ComputeFunctions
    from microschc.protocol import ipv4, ipv6, udp, coap, sctp, registry
    from microschc.rfc8724 import DirectionIndicator, MatchingOperator, CompressionDecompressionAction, RuleNature
    from microschc.rfc8724extras import ParserDefinitions
    from microschc.binary.buffer import Padding
    from microschc.manager.manager import MatchStrategy
    L = ['/- GENERATED by translator/gen.py by importing /repo — do not edit. -/', 'namespace Schc.Gen', '']
    if len(CRC32C_TABLE) != 256:
        raise TranslatorError('CRC32C_TABLE does not have 256 entries')
    L.append('def crcTable : List Nat := [')
    L.append(',\n'.join('  ' + ', '.join(str(x) for x in CRC32C_TABLE[i:i + 8]) for i in range(0, 256, 8)))
    L.append(']')
    L.append('')
    # field id strings of every *Fields enum
    for modname, mod, enum in [('IPv4', ipv4, ipv4.IPv4Fields), ('IPv6', ipv6, ipv6.IPv6Fields), ('UDP', udp, udp.UDPFields),
                               ('CoAP', coap, coap.CoAPFields), ('SCTP', sctp, sctp.SCTPFields)]:
        L.append(f'namespace {modname}F')
        for m in enum:
            L.append(f'def {m.name} : String := {lean_str(m.value)}')
        L.append(f'def all : List String := [{", ".join(lean_str(m.value) for m in enum)}]')
        L.append(f'end {modname}F')
        L.append('')
    L.append(f'def ipv4HeaderId : String := {lean_str(ipv4.IPV4_HEADER_ID)}')
    L.append(f'def ipv6HeaderId : String := {lean_str(ipv6.IPV6_HEADER_ID)}')
    L.append(f'def udpHeaderId : String := {lean_str(udp.UDP_HEADER_ID)}')
    L.append(f'def coapHeaderId : String := {lean_str(coap.COAP_HEADER_ID)}')
    L.append(f'def sctpHeaderId : String := {lean_str(sctp.SCTP_HEADER_ID)}')
    L.append(f'def payloadId : String := {lean_str(ParserDefinitions.PAYLOAD.value)}')
    L.append('')
    # compute functions: key -> (function name, sorted dependency list)
    L.append('/-- `ComputeFunctions`: field id ↦ (python function, dependency set) in dict order -/')
    L.append('def computeFunctions : List (String × String × List String) := [')
    rows = []
    for k, (fn, deps) in ComputeFunctions.items():
        rows.append(f'  ({lean_str(str(k.value if hasattr(k, "value") else k))}, {lean_str(fn.__module__.split(".")[-1] + "." + fn.__name__)}, [{", ".join(lean_str(str(d.value if hasattr(d, "value") else d)) for d in sorted(deps, key=str))}])')
    L.append(',\n'.join(rows)); L.append(']'); L.append('')
    # registry
    L.append('def protocolIds : List (String × Nat) := [' + ', '.join(f'({lean_str(m.name)}, {int(m)})' for m in registry.ProtocolsIDs) + ']')
    L.append('def registeredParsers : List (Nat × String) := [' + ', '.join(f'({int(k)}, {lean_str(v.__name__)})' for k, v in sorted(registry.PARSERS.items(), key=lambda kv: int(kv[0]))) + ']')
    L.append('/-- `HeaderParser.name` of an instance of each registered parser class -/')
    L.append('def parserNames : List (String × String) := [' + ', '.join(f'({lean_str(v.__name__)}, {lean_str(str(v().name))})' for k, v in sorted(registry.PARSERS.items(), key=lambda kv: int(kv[0]))) + ']')
    L.append('def stacks : List (String × List Nat) := [' + ', '.join(f'({lean_str(str(k.value))}, [{", ".join(str(int(x)) for x in v)}])' for k, v in registry.STACKS.items()) + ']')
    L.append('def protocols : List (String × Nat) := [' + ', '.join(f'({lean_str(k)}, {int(v)})' for k, v in registry.PROTOCOLS.items()) + ']')
    L.append('def ipv4NextProtocols : List Nat := [' + ', '.join(str(int(x)) for x in ipv4.IPV4_SUPPORTED_PAYLOAD_PROTOCOLS) + ']')
    L.append('def ipv6NextProtocols : List Nat := [' + ', '.join(str(int(x)) for x in ipv6.IPV6_SUPPORTED_PAYLOAD_PROTOCOLS) + ']')
    L.append('def udpNextProtocols : List Nat := [' + ', '.join(str(int(x)) for x in udp.UDP_SUPPORTED_PAYLOAD_PROTOCOLS) + ']')
    L.append('def sctpNextProtocols : List Nat := [' + ', '.join(str(int(x)) for x in sctp.SCTP_SUPPORTED_PAYLOAD_PROTOCOLS) + ']')
    L.append('')
    # CoAP tables
    L.append('def coapOptionNames : List (Nat × String) := [' + ', '.join(f'({int(k)}, {lean_str(str(v.value))})' for k, v in coap.COAP_OPTIONS_NUMBER_TO_NAME.items()) + ']')
    L.append('def coapNameToNumber : List (String × Nat) := [' + ', '.join(f'({lean_str(str(k.value))}, {int(v)})' for k, v in coap.COAP_OPTIONS_NAME_TO_NUMBER.items()) + ']')
    for m in coap.CoAPDefinitions:
        L.append(f'def coap_{m.name} : List Nat := [{", ".join(str(b) for b in bytes(m.value))}]')
    # unknown-option field id as rendered by the interpreter that runs the harness (f-string over a str-Enum)
    rendered = f"{coap.CoAPFields.OPTION_UNKNOWN}"
    L.append(f'def coapUnknownPrefix : String := {lean_str(rendered)}')
    L.append('')
    L.append('def sctpChunkTypes : List (String × Nat) := [' + ', '.join(f'({lean_str(m.name)}, {int(m)})' for m in sctp.SCTPChunkTypes) + ']')
    L.append('')
    # enum string values (JSON uses them)
    for name, enum in [('padding', Padding), ('direction', DirectionIndicator), ('matchingOperator', MatchingOperator),
                       ('cda', CompressionDecompressionAction), ('ruleNature', RuleNature), ('matchStrategy', MatchStrategy)]:
        L.append(f'def {name}Values : List (String × String) := [' + ', '.join(f'({lean_str(m.name)}, {lean_str(str(m.value))})' for m in enum) + ']')
    L += ['', 'end Schc.Gen', '']
    return write_if_changed('Tables.lean', '\n'.join(L))

# ---------------------------------------------------------------------------------------------
# AST extraction: fixed-offset header layouts
# ---------------------------------------------------------------------------------------------

_CONST_ENV = {}     # module-level names bound once to a constant integer expression, of the module being read

def load_const_env(tree):
    """`NAME = 4`, `NAME: int = 8 * 5` at module level (a name assigned twice is dropped: not a constant)"""
    global _CONST_ENV
    _CONST_ENV = {}
    seen = set()
    for node in tree.body:
        tgt = val = None
        if isinstance(node, ast.Assign) and len(node.targets) == 1 and isinstance(node.targets[0], ast.Name):
            tgt, val = node.targets[0].id, node.value
        elif isinstance(node, ast.AnnAssign) and isinstance(node.target, ast.Name) and node.value is not None:
            tgt, val = node.target.id, node.value
        if tgt is None: continue
        if tgt in seen:
            _CONST_ENV.pop(tgt, None); continue
        seen.add(tgt)
        try:
            _CONST_ENV[tgt] = _const_int(val)
        except TranslatorError:
            pass

def _const_int(node):
    """evaluate a constant integer expression (literals, module-level integer constants, + - * // only)"""
    if isinstance(node, ast.Constant) and isinstance(node.value, int) and not isinstance(node.value, bool):
        return node.value
    if isinstance(node, ast.Name) and node.id in _CONST_ENV:
        return _CONST_ENV[node.id]
    if isinstance(node, ast.BinOp) and isinstance(node.op, (ast.Add, ast.Sub, ast.Mult, ast.FloorDiv)):
        a, b = _const_int(node.left), _const_int(node.right)
        return {ast.Add: a + b, ast.Sub: a - b, ast.Mult: a * b, ast.FloorDiv: a // b if b else 0}[type(node.op)]
    raise TranslatorError(f'line {getattr(node, "lineno", "?")}: not a constant integer: {ast.unparse(node)}')

def fixed_slices(fn, bufname='buffer'):
    """`x: Buffer = buffer[a:b]` / `x = buffer[a:b]` with constant bounds, in source order: {var: (a, b|None)}"""
    out = {}
    for node in ast.walk(fn):
        tgt = val = None
        if isinstance(node, ast.AnnAssign) and isinstance(node.target, ast.Name):
            tgt, val = node.target.id, node.value
        elif isinstance(node, ast.Assign) and len(node.targets) == 1 and isinstance(node.targets[0], ast.Name):
            tgt, val = node.targets[0].id, node.value
        if tgt and isinstance(val, ast.Subscript) and isinstance(val.value, ast.Name) and val.value.id == bufname and isinstance(val.slice, ast.Slice):
            try:
                lo = _const_int(val.slice.lower) if val.slice.lower is not None else 0
                hi = _const_int(val.slice.upper) if val.slice.upper is not None else None
            except TranslatorError:
                continue
            if tgt in out and out[tgt] != (lo, hi):
                raise TranslatorError(f'{fn.name}: variable {tgt} sliced twice')
            out[tgt] = (lo, hi)
    return out

def field_descriptor_list(fn, enum_name):
    """FieldDescriptor(id=<Enum>.<MEMBER>, position=0, value=<var>) calls in source order"""
    calls = []
    for node in ast.walk(fn):
        if isinstance(node, ast.Call) and isinstance(node.func, ast.Name) and node.func.id == 'FieldDescriptor':
            kw = {k.arg: k.value for k in node.keywords}
            if not {'id', 'value', 'position'} <= set(kw):
                raise TranslatorError(f'{fn.name} line {node.lineno}: FieldDescriptor without id/value/position keywords')
            i = kw['id']
            if not (isinstance(i, ast.Attribute) and isinstance(i.value, ast.Name) and i.value.id == enum_name):
                raise TranslatorError(f'{fn.name} line {node.lineno}: field id is not a {enum_name} member')
            if not isinstance(kw['value'], ast.Name):
                raise TranslatorError(f'{fn.name} line {node.lineno}: field value is not a variable')
            pos = _const_int(kw['position'])
            calls.append((node.lineno, node.col_offset, i.attr, kw['value'].id, pos))
    calls.sort()
    return [(m, v, p) for _, _, m, v, p in calls]

def min_length_guard(fn):
    """`if buffer.length < N: raise ParserError(...)` -> N"""
    for node in ast.walk(fn):
        if isinstance(node, ast.If) and isinstance(node.test, ast.Compare) and len(node.test.ops) == 1 and isinstance(node.test.ops[0], ast.Lt):
            l = node.test.left
            if isinstance(l, ast.Attribute) and l.attr == 'length' and isinstance(l.value, ast.Name) and l.value.id == 'buffer':
                if any(isinstance(s, ast.Raise) for s in node.body):
                    return _const_int(node.test.comparators[0])
    raise TranslatorError(f'{fn.name}: no minimum-length guard found')

def version_guard(fn):
    """`if version != b'\\x06': raise ParserError` -> [6]"""
    for node in ast.walk(fn):
        if isinstance(node, ast.If) and isinstance(node.test, ast.Compare) and isinstance(node.test.ops[0], ast.NotEq):
            l, r = node.test.left, node.test.comparators[0]
            if isinstance(l, ast.Name) and l.id == 'version' and isinstance(r, ast.Constant) and isinstance(r.value, bytes):
                if any(isinstance(s, ast.Raise) for s in node.body):
                    return list(r.value)
    raise TranslatorError(f'{fn.name}: no version guard found')

def header_length(fn):
    for node in ast.walk(fn):
        if isinstance(node, ast.Call) and isinstance(node.func, ast.Name) and node.func.id == 'HeaderDescriptor':
            for k in node.keywords:
                if k.arg == 'length':
                    return k.value
    raise TranslatorError(f'{fn.name}: no HeaderDescriptor(length=…)')

def layout_rows(enum_cls, fields, slices, ctx):
    rows = []
    for member, var, pos in fields:
        if var not in slices:
            raise TranslatorError(f'{ctx}: field {member} uses {var}, which is not a constant slice of the buffer')
        lo, hi = slices[var]
        rows.append((str(enum_cls[member].value), lo, hi, pos))
    return rows

def lean_layout(name, rows, doc):
    body = ',\n'.join(f'  ({lean_str(i)}, {lo}, {("some " + str(hi)) if hi is not None else "none"}, {pos})' for i, lo, hi, pos in rows)
    return [f'/-- {doc}: (field id, start bit, stop bit, position) in FieldDescriptor order -/',
            f'def {name} : List (String × Nat × Option Nat × Nat) := [', body, ']', '']

def gen_layouts():
    _import_repo()
    from microschc.protocol import ipv4, ipv6, udp, coap, sctp
    L = ['/- GENERATED by translator/gen.py from the AST of microschc/protocol/*.py — do not edit. -/', 'namespace Schc.Gen', '']
    for modname, relpath, cls, enum_name, enum_cls, has_version in [
            ('ipv4', 'microschc/protocol/ipv4.py', 'IPv4Parser', 'IPv4Fields', ipv4.IPv4Fields, True),
            ('ipv6', 'microschc/protocol/ipv6.py', 'IPv6Parser', 'IPv6Fields', ipv6.IPv6Fields, True),
            ('udp', 'microschc/protocol/udp.py', 'UDPParser', 'UDPFields', udp.UDPFields, False)]:
        fn = class_methods(parse(relpath), cls)['parse']
        rows = layout_rows(enum_cls, field_descriptor_list(fn, enum_name), fixed_slices(fn), f'{cls}.parse')
        L += lean_layout(f'{modname}Layout', rows, f'{cls}.parse')
        L.append(f'def {modname}MinLength : Nat := {min_length_guard(fn)}')
        L.append(f'def {modname}HeaderLength : Nat := {_const_int(header_length(fn))}')
        if has_version:
            L.append(f'def {modname}Version : List Nat := [{", ".join(str(b) for b in version_guard(fn))}]')
        L.append('')
    # SCTP: common header and the fixed part of each chunk type / parameter
    sm = class_methods(parse('microschc/protocol/sctp.py'), 'SCTPParser')
    fn = sm['parse']
    rows = layout_rows(sctp.SCTPFields, field_descriptor_list(fn, 'SCTPFields'), fixed_slices(fn), 'SCTPParser.parse')
    L += lean_layout('sctpCommonLayout', rows, 'SCTPParser.parse (common header)')
    L.append(f'def sctpMinLength : Nat := {min_length_guard(fn)}')
    L.append('')
    for meth, lname in [('_parse_chunk', 'sctpChunkHeaderLayout'), ('_parse_chunk_data', 'sctpDataLayout'), ('_parse_chunk_init', 'sctpInitLayout'),
                        ('_parse_chunk_init_ack', 'sctpInitAckLayout'), ('_parse_chunk_selective_ack', 'sctpSackLayout'),
                        ('_parse_chunk_shutdown', 'sctpShutdownLayout'), ('_parse_parameter', 'sctpParameterLayout')]:
        fn = sm[meth]
        sl = fixed_slices(fn)
        fds = [f for f in field_descriptor_list(fn, 'SCTPFields') if f[1] in sl]
        rows = layout_rows(sctp.SCTPFields, fds, sl, f'SCTPParser.{meth}')
        L += lean_layout(lname, rows, f'SCTPParser.{meth} (constant slices only)')
    # CoAP: first 32 bits
    fn = class_methods(parse('microschc/protocol/coap.py'), 'CoAPParser')['parse']
    sl = fixed_slices(fn)
    fds = [f for f in field_descriptor_list(fn, 'CoAPFields') if f[1] in sl]
    L += lean_layout('coapFixedLayout', layout_rows(coap.CoAPFields, fds, sl, 'CoAPParser.parse'), 'CoAPParser.parse (first 32 bits)')
    L.append(f'def coapMinLength : Nat := {min_length_guard(fn)}')
    L += ['', 'end Schc.Gen', '']
    return write_if_changed('Layouts.lean', '\n'.join(L))


# ---------------------------------------------------------------------------------------------
# C16 part 2: every place where the SCHC-level code could modify an object it did not create
# ---------------------------------------------------------------------------------------------

SCHC_MODULES = ['microschc/compressor/compressor.py', 'microschc/decompressor/decompressor.py', 'microschc/ruler/ruler.py',
                'microschc/matching/operators.py', 'microschc/actions/compression.py', 'microschc/manager/manager.py',
                'microschc/parser/parser.py', 'microschc/protocol/ipv4.py', 'microschc/protocol/ipv6.py', 'microschc/protocol/udp.py',
                'microschc/protocol/coap.py', 'microschc/protocol/sctp.py', 'microschc/protocol/registry.py', 'microschc/crypto/crc.py',
                'microschc.py']
MUTATING_METHODS = {'append', 'extend', 'insert', 'remove', 'pop', 'sort', 'clear', 'update', 'setdefault', 'reverse', 'add', 'discard',
                    '__setitem__', 'popitem'}

def iter_functions(tree):
    """(qualified name, node) of every function / method; module level statements as '<module>'"""
    out = []
    def visit(node, prefix):
        for n in ast.iter_child_nodes(node):
            if isinstance(n, (ast.FunctionDef, ast.AsyncFunctionDef)):
                out.append((prefix + n.name, n)); visit(n, prefix + n.name + '.')
            elif isinstance(n, ast.ClassDef):
                visit(n, prefix + n.name + '.')
    visit(tree, '')
    return out

def own_statements(fn):
    """nodes of a function excluding nested function bodies"""
    stack = list(ast.iter_child_nodes(fn))
    while stack:
        n = stack.pop()
        if isinstance(n, (ast.FunctionDef, ast.AsyncFunctionDef, ast.ClassDef)):
            continue
        yield n
        stack.extend(ast.iter_child_nodes(n))

def gen_mutation_sites():
    rows = []
    for rel in SCHC_MODULES:
        tree = parse(rel)
        mod = rel[:-3].replace('/', '.')
        scopes = iter_functions(tree) + [('<module>', tree)]
        for qn, fn in scopes:
            nodes = own_statements(fn) if qn != '<module>' else (n for n in ast.walk(tree) if False)
            if qn == '<module>':
                # module-level statements only (not inside defs/classes' functions)
                nodes = []
                stack = [n for n in tree.body if not isinstance(n, (ast.FunctionDef, ast.ClassDef))]
                while stack:
                    n = stack.pop(); nodes.append(n); stack.extend(ast.iter_child_nodes(n))
            cm = canon_names(fn)
            for node in nodes:
                targets = []
                if isinstance(node, ast.Assign): targets = node.targets
                elif isinstance(node, (ast.AugAssign, ast.AnnAssign)): targets = [node.target]
                elif isinstance(node, ast.Delete): targets = node.targets
                for t in targets:
                    for sub in ast.walk(t):
                        if isinstance(sub, ast.Attribute) and isinstance(sub.ctx, (ast.Store, ast.Del)):
                            rows.append((mod, qn, canon_expr(sub.value, cm), 'attr:' + sub.attr))
                        if isinstance(sub, ast.Subscript) and isinstance(sub.ctx, (ast.Store, ast.Del)):
                            rows.append((mod, qn, canon_expr(sub.value, cm), 'item'))
                if isinstance(node, ast.Call) and isinstance(node.func, ast.Attribute):
                    m = node.func.attr
                    recv = canon_expr(node.func.value, cm)
                    if m in ('pad', 'shift') :
                        if call_inplace(node, 1):
                            rows.append((mod, qn, recv, f'call:{m}(inplace=True)'))
                    elif m in MUTATING_METHODS:
                        rows.append((mod, qn, recv, 'call:' + m))
                if isinstance(node, ast.Global) or isinstance(node, ast.Nonlocal):
                    rows.append((mod, qn, ','.join(node.names), 'global'))
    rows = sorted(set(rows))
    L = ['/- GENERATED by translator/gen.py from the AST of the SCHC-level modules — do not edit. -/', 'namespace Schc.Gen', '',
         '/-- every assignment to an attribute / item, every call of a mutating method and every in-place pad/shift in the SCHC-level',
         '    modules: (module, function, receiver expression, kind) -/',
         'def schcMutationSites : List (String × String × String × String) := [',
         ',\n'.join(f'  ({lean_str(a)}, {lean_str(b)}, {lean_str(c)}, {lean_str(d)})' for a, b, c, d in rows), ']', '', 'end Schc.Gen', '']
    return write_if_changed('MutationSites.lean', '\n'.join(L))

GENERATORS = [('BufferSites', gen_buffer_sites), ('Tables', gen_tables), ('Layouts', gen_layouts), ('MutationSites', gen_mutation_sites)]

def main():
    changed = []
    errors = []
    for name, fn in GENERATORS:
        try:
            if fn():
                changed.append(name)
        except TranslatorError as e:
            errors.append(f'{name}: {e}')
        except Exception as e:  # the source does not even parse / import
            errors.append(f'{name}: {type(e).__name__}: {e}')
    print(json.dumps({'changed': changed, 'errors': errors}))
    return 1 if errors else 0

if __name__ == '__main__':
    sys.exit(main())
