import Schc.Spec.Bits
import Schc.Gen.BufferSites
import Schc.Py.Buffer
