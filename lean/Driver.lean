/- Line-protocol driver: `<stream> <op> args…` per line on stdin, one canonical result line each. -/
import Schc.Drv.BufStream
import Schc.Drv.SchcStream
import Schc.Drv.JsonStream
import Schc.Drv.HistStream

open Schc.Drv

def handle (line : String) : String :=
  match (line.trimAscii.toString.splitOn " ").filter (· ≠ "") with
  | "buf" :: rest => (bufOp rest).getD "bad-op"
  | "len" :: rest => (lenOp rest).getD "bad-op"
  | "schc" :: rest => (schcOp rest).getD "bad-op"
  | "parse" :: rest => (parseOp rest).getD "bad-op"
  | "compute" :: rest => (computeOp rest).getD "bad-op"
  | "json" :: rest => (jsonOp rest).getD "bad-op"
  | "hist" :: rest => (histOp rest).getD "bad-op"
  | _ => "bad-op"

partial def loop (h : IO.FS.Stream) (out : IO.FS.Stream) : IO Unit := do
  let line ← h.getLine
  if line.isEmpty then return ()
  out.putStrLn (handle line)
  loop h out

def main : IO Unit := do
  let out ← IO.getStdout
  loop (← IO.getStdin) out
  out.flush
