/- Driver for the streams `len`, `schc`, `parse`, `unparse`, `compute`. -/
import Schc.Drv.Tok
import Schc.Py.Unparse

namespace Schc.Drv
open Schc

def ruleIndex (rules : List Rule) (r : Rule) : String :=
  match rules.findIdx? (· == r) with
  | some i => toString i
  | none => "?"

/-- `IPv6+UDP+CoAPs`: explicit stack; suffix `s` = CoAP options in semantic mode, `p` = predict_next -/
def stackOfSpec (spec : String) : Option (List ParserInst) :=
  (spec.splitOn "+").mapM fun tok =>
    let cs := tok.toList
    let flags := (cs.reverse.takeWhile (fun c => c == 'p' || c == 's')).reverse
    let name := String.ofList (cs.take (cs.length - flags.length))
    if ["IPv4", "IPv6", "UDP", "CoAP", "SCTP"].contains name then
      some ⟨name ++ "Parser", flags.contains 'p', if flags.contains 's' then .semantic else .syntactic⟩
    else none

/-- the rule a recipe denotes for a parsed packet (mirrors `harness/schcstream.py: recipe_rule`) -/
def recipeRule (fields : List Field) (recipe : String) (rid : ABuf) : Rule :=
  let codes := recipe.toList
  let one (k : Nat) (f : Field) : RuleField :=
    let L := f.value.length
    let code := codes.getD (k % codes.length) 'v'
    let code := if code == 'c' && (Gen.computeFunctions.find? (·.1 == f.id)).isNone then 'v' else code
    if code == 'n' then ⟨f.id, L, f.position, .bi, .buf f.value, .equal, .notSent⟩
    else if code == 'l' then ⟨f.id, L, f.position, .bi, .buf (f.value.slice 0 (L / 2)), .msb, .lsb⟩
    else if code == 'm' then ⟨f.id, L, f.position, .bi, .map [(f.value, ⟨[false], .left⟩)], .matchMapping, .mappingSent⟩
    else if code == 'c' then ⟨f.id, L, f.position, .bi, .buf ⟨[], .left⟩, .ignore, .compute⟩
    else ⟨f.id, if strContains f.id "Option" then 0 else L, f.position, .bi, .buf ⟨[], .left⟩, .ignore, .valueSent⟩
  ⟨rid, .compression, (List.range fields.length).zipWith one fields⟩

def pDirOpt : P (Option Dir) := do
  match ← tok with
  | "-" => pure none
  | "U" => pure (some .up) | "D" => pure (some .dw) | "B" => pure (some .bi)
  | _ => failure

def lenOp (toks : List String) : Option String :=
  match toks with
  | ["encode", n] => do let n ← n.toNat?; pure (showPy showABuf (encodeLength n))
  | ["decode", b] => do
    let b ← runP (do let b ← pABuf; pEnd; pure b) [b]
    let (k, p) := decodeLength b
    pure s!"{k} {p}"
  | _ => none

def schcOp (toks : List String) : Option String :=
  match toks with
  | "compress" :: rest => do
    let (p, r) ← runP (do let p ← pPacket; let r ← pRule; pEnd; pure (p, r)) rest
    pure (showPy showABuf (compress p r))
  | "decompress" :: rest => do
    let (s, r) ← runP (do let s ← pABuf; let r ← pRule; pEnd; pure (s, r)) rest
    pure (showPy showABuf (decompressG s r))
  | "dfields" :: rest => do
    let (s, r) ← runP (do let s ← pABuf; let r ← pRule; pEnd; pure (s, r)) rest
    pure (showPy showPairs (decompressToFieldsG s r))
  | "roundtrip" :: rest => do
    let (p, r) ← runP (do let p ← pPacket; let r ← pRule; pEnd; pure (p, r)) rest
    pure (showPy (fun (c, d) => s!"{showABuf c} {showABuf d}") (do let c ← compress p r; let d ← decompressG c r; pure (c, d)))
  | "droundtrip" :: rest => do
    -- the bare functions with the packet's direction passed to both
    let (p, r) ← runP (do let p ← pPacket; let r ← pRule; pEnd; pure (p, r)) rest
    pure (showPy (fun (c, d) => s!"{showABuf c} {showABuf d}") (do
      let c ← compressD p r (some p.dir); let d ← decompressDG c r (some p.dir); pure (c, d)))
  | "mdecompressd" :: rest => do
    let (rs, s, d) ← runP (do let rs ← pRules; let s ← pABuf; let d ← pDir; pEnd; pure (rs, s, d)) rest
    pure (showPy showABuf (managerDecompressG rs s (some d)))
  | "fieldmatch" :: rest => do
    let (f, rf) ← runP (do let f ← pField; let rf ← pRField; pEnd; pure (f, rf)) rest
    pure (showPy (fun (b : Bool) => toString b) (fieldMatch f rf))
  | "matchall" :: rest => do
    let (rs, p) ← runP (do let rs ← pRules; let p ← pPacket; pEnd; pure (rs, p)) rest
    -- rules are reported by index (position in the rule set)
    let idxs : Py (List Nat) := (List.range rs.length).filterM fun i => match rs[i]? with
      | some r => ruleMatches p r
      | none => pure false
    pure (showPy (fun l => " ".intercalate (l.map toString) ++ ";") idxs)
  | "matchschc" :: rest => do
    let (rs, s) ← runP (do let rs ← pRules; let s ← pABuf; pEnd; pure (rs, s)) rest
    let r : Py Nat := match (List.range rs.length).find? (fun i => match rs[i]? with
        | some r => r.id.length ≤ s.length && r.id.beq (s.slice 0 r.id.length)
        | none => false) with
      | some i => pure i
      | none => if rs.isEmpty then throw .unboundLocal else throw .ruleIDMatchError
    pure (showPy toString r)
  | "mcompress" :: rest => do
    let (pid, rs, pk, d, st) ← runP (do let pid ← pId; let rs ← pRules; let pk ← pABuf; let d ← pDir; let st ← pStrategy; pEnd; pure (pid, rs, pk, d, st)) rest
    pure (showPy showABuf (do let ps ← factory pid; managerCompress ps rs pk d st))
  | "mpcompress" :: rest => do
    -- manager on an already parsed packet (generic field lists)
    let (rs, p, d, st) ← runP (do let rs ← pRules; let p ← pPacket; let d ← pDir; let st ← pStrategy; pEnd; pure (rs, p, d, st)) rest
    pure (showPy showABuf (managerCompressPacket rs p d st))
  | "mdecompress" :: rest => do
    let (rs, s) ← runP (do let rs ← pRules; let s ← pABuf; pEnd; pure (rs, s)) rest
    pure (showPy showABuf (managerDecompressG rs s))
  | "mroundtrip" :: rest => do
    let (pid, rs, pk, d, st) ← runP (do let pid ← pId; let rs ← pRules; let pk ← pABuf; let d ← pDir; let st ← pStrategy; pEnd; pure (pid, rs, pk, d, st)) rest
    pure (showPy (fun (c, d) => s!"{showABuf c} {showABuf d}") (do
      let ps ← factory pid; let c ← managerCompress ps rs pk d st; let dd ← managerDecompressG rs c (some d); pure (c, dd)))
  | "umcompress" :: rest => do
    let (spec, rs, pk, d, st) ← runP (do let spec ← tok; let rs ← pRules; let pk ← pABuf; let d ← pDir; let st ← pStrategy; pEnd; pure (spec, rs, pk, d, st)) rest
    -- `id=<registry id>`: `ContextManager(context, parser=<str>)`, the parser comes from `factory`
    if spec.startsWith "id=" then
      pure (showPy showABuf (do let ps ← factory (unesc (spec.drop 3).toString); managerCompress ps rs pk d st))
    else
      let ps ← stackOfSpec spec
      pure (showPy showABuf (managerCompress ps rs pk d st))
  | "uroundtrip" :: rest => do
    -- explicit (possibly semantic) stack; rule by recipe from the parsed fields; decompress WITH the parser as unparser
    let (spec, recipe, rid, pk, d) ← runP (do let spec ← tok; let recipe ← tok; let rid ← pABuf; let pk ← pABuf; let d ← pDirOpt; pEnd; pure (spec, recipe, rid, pk, d)) rest
    let ps ← stackOfSpec spec
    pure (showPy (fun (c, dd) => s!"{showABuf c} {showABuf dd}") (do
      let p0 ← packetParse (fuelFor pk) ps pk
      let p := match d with | some x => { p0 with dir := x } | none => p0
      let r := recipeRule p.fields recipe rid
      let c ← compressD p r d
      let dd ← guardRules [r] (decompressU c r (some ps) d)
      pure (c, dd)))
  | "mo" :: name :: rest => do
    -- the matching-operator functions of matching/operators.py called directly
    let (f, tv) ← runP (do let f ← pField; let tv ← (if name == "ig" then pure (TV.buf ⟨[], .left⟩) else pTV); pEnd; pure (f, tv)) rest
    match name, tv with
    | "eq", .buf t => pure (toString (f.value.beq t))
    | "ig", _ => pure "true"
    | "msb", .buf t => pure (toString (msbMatch f.value t))
    | "mm", .map fwd => pure (toString (dictGet fwd f.value).isSome)
    | _, _ => none
  | "act" :: name :: rest => do
    -- the compression-action functions of actions/compression.py called directly
    match name with
    | "ns" => do let _ ← runP (do let f ← pField; pEnd; pure f) rest; pure (showABuf (ABuf.empty .left))
    | "vs" => do let f ← runP (do let f ← pField; pEnd; pure f) rest; pure (showABuf f.value)
    | "ms" => do
      let (f, tv) ← runP (do let f ← pField; let tv ← pTV; pEnd; pure (f, tv)) rest
      match tv with
      | .map fwd => pure (showPy showABuf (match dictGet fwd f.value with | some i => pure i | none => throw .keyError))
      | _ => none
    | "lsb" => do
      let (f, n) ← runP (do let f ← pField; let n ← pNat; pEnd; pure (f, n)) rest
      pure (showPy showABuf (leastSignificantBits f.value n))
    | _ => none
  | "fcompress" :: rest => do
    let (cs, pk, ifc) ← runP (do let n ← pNat; let cs ← pRep n pContext; let pk ← pABuf; let ifc ← pId; pEnd; pure (cs, pk, ifc)) rest
    pure (showPy showABuf (frontCompress cs pk ifc))
  | "fdecompress" :: rest => do
    let (cs, pk, ifc) ← runP (do let n ← pNat; let cs ← pRep n pContext; let pk ← pABuf; let ifc ← pId; pEnd; pure (cs, pk, ifc)) rest
    pure (showPy showABuf (frontDecompressG cs pk ifc))
  | "froundtrip" :: rest => do
    let (cs, pk, ifc) ← runP (do let n ← pNat; let cs ← pRep n pContext; let pk ← pABuf; let ifc ← pId; pEnd; pure (cs, pk, ifc)) rest
    pure (showPy (fun (c, d) => s!"{showABuf c} {showABuf d}") (do let c ← frontCompress cs pk ifc; let d ← frontDecompressG cs c ifc; pure (c, d)))
  | _ => none

def pMode : P CoapMode := do
  match ← tok with | "syn" => pure .syntactic | "sem" => pure .semantic | _ => failure

def parseOp (toks : List String) : Option String :=
  match toks with
  | "stack" :: rest => do
    let (pid, b) ← runP (do let pid ← pId; let b ← pABuf; pEnd; pure (pid, b)) rest
    pure (showPy (fun (p : Packet) => s!"{showFields p.fields} / {showABuf p.payload}") (do let ps ← factory pid; packetParse (fuelFor b) ps b))
  | "header" :: rest => do
    let (cls, pr, mode, b) ← runP (do let cls ← pId; let pr ← pNat; let mode ← pMode; let b ← pABuf; pEnd; pure (cls, pr, mode, b)) rest
    pure (showPy (fun (h : Header) => s!"{h.length} {showFields h.fields}") (runParser (fuelFor b) ⟨cls, pr == 1, mode⟩ b))
  | "unparseraw" :: rest => do
    -- `CoAPParser(SEMANTIC).unparse` on an arbitrary (id, value) list
    let fs ← runP (do let n ← pNat; let fs ← pRep n (do let i ← pId; let v ← pABuf; pure (i, v)); pEnd; pure fs) rest
    pure (showPy showPairs (coapUnparse .semantic fs))
  | "unparse" :: rest => do
    -- CoAP: semantic parse, then unparse
    let b ← runP (do let b ← pABuf; pEnd; pure b) rest
    pure (showPy showPairs (do
      let h ← coapParse .semantic (fuelFor b) b
      coapUnparse .semantic (h.fields.map fun f => (f.id, f.value))))
  | _ => none

def computeOp (toks : List String) : Option String :=
  match toks with
  | "call" :: rest => do
    let (fid, pos, fs) ← runP (do
      let fid ← pId; let pos ← pNat; let n ← pNat
      let fs ← pRep n (do let i ← pId; let v ← pABuf; pure (i, v))
      pEnd; pure (fid, pos, fs)) rest
    pure (showPy showABuf (Compute.compute fid fs pos))
  | _ => none

end Schc.Drv
