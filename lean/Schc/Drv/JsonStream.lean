/- Driver for the `json` stream. -/
import Schc.Drv.Tok
import Schc.Py.Json

namespace Schc.Drv
open Schc

def showTV : TV → String
  | .buf b => s!"b {showABuf b}"
  | .map fwd => s!"m {fwd.length}" ++ String.join (fwd.map fun (v, i) => s!" {showABuf v} {showABuf i}")

def showDir : Dir → String | .up => "U" | .dw => "D" | .bi => "B"
def showMO : MO → String | .equal => "eq" | .ignore => "ig" | .msb => "msb" | .matchMapping => "mm"
def showCDA : CDA → String | .notSent => "ns" | .lsb => "lsb" | .mappingSent => "ms" | .valueSent => "vs" | .compute => "co"

def showRField (f : RuleField) : String :=
  s!"{esc f.id} {f.length} {f.position} {showDir f.dir} {showMO f.mo} {showCDA f.cda} {showTV f.tv}"
def showRule (r : Rule) : String :=
  s!"{showABuf r.id} {if r.nature == .compression then "c" else "n"} {r.fields.length}" ++ String.join (r.fields.map fun f => " " ++ showRField f)
def showRules (rs : List Rule) : String := s!"{rs.length}" ++ String.join (rs.map fun r => " " ++ showRule r)
def showContext (c : Context) : String := s!"{esc c.id} {esc c.interfaceId} {esc c.parserId} {showRules c.ruleset}"
def showPacket (p : Packet) : String :=
  s!"{showDir p.dir} {p.fields.length} " ++ String.join (p.fields.map fun f => s!"{esc f.id} {showABuf f.value} {f.position} ") ++ s!"{showABuf p.payload} {showABuf p.raw}"

def rt {α} (toJ : α → Json) (fromJ : Json → Py α) (eq : α → α → Bool) (sh : α → String) (x : α) : String :=
  showPy (fun (y : α) => s!"{sh y} eq={eq x y} redump={(toJ y).beq (toJ x)}") (fromJ (toJ x))

def jsonOp (toks : List String) : Option String :=
  match toks with
  | "buffer" :: rest => do let b ← runP (do let b ← pABuf; pEnd; pure b) rest; pure (rt ABuf.toJson ABuf.fromJson ABuf.beq showABuf b)
  | "field" :: rest => do let f ← runP (do let f ← pField; pEnd; pure f) rest; pure (rt Field.toJson Field.fromJson Field.pyEq (fun f => s!"{esc f.id} {showABuf f.value} {f.position}") f)
  | "rfield" :: rest => do let f ← runP (do let f ← pRField; pEnd; pure f) rest; pure (rt RuleField.toJson RuleField.fromJson RuleField.pyEq showRField f)
  | "rule" :: rest => do let r ← runP (do let r ← pRule; pEnd; pure r) rest; pure (rt Rule.toJson Rule.fromJson Rule.pyEq showRule r)
  | "context" :: rest => do let c ← runP (do let c ← pContext; pEnd; pure c) rest; pure (rt Context.toJson Context.fromJson Context.pyEq showContext c)
  | "packet" :: rest => do let p ← runP (do let p ← pPacket; pEnd; pure p) rest; pure (rt Packet.toJson Packet.fromJson Packet.pyEq showPacket p)
  | "header" :: rest => do
    let h ← runP (do let id ← pId; let len ← pNat; let n ← pNat; let fs ← pRep n pField; pEnd; pure (⟨id, len, fs⟩ : HeaderDesc)) rest
    pure (rt HeaderDesc.toJson HeaderDesc.fromJson HeaderDesc.pyEq
      (fun h => s!"{esc h.id} {h.length} {h.fields.length}" ++ String.join (h.fields.map fun f => s!" {esc f.id} {showABuf f.value} {f.position}")) h)
  | "mapping" :: rest => do
    let tv ← runP (do let tv ← pTV; pEnd; pure tv) rest
    match tv with
    | .map fwd => pure (rt mappingToJson mappingFromJson mappingEq (fun m => showTV (.map m)) fwd)
    | _ => none
  | "use" :: rest => do
    let (c, pk, d, st) ← runP (do let c ← pContext; let pk ← pABuf; let d ← pDir; let st ← pStrategy; pEnd; pure (c, pk, d, st)) rest
    let run (c : Context) : String :=
      let r : Py (ABuf × ABuf) := do
        let ps ← factory c.parserId; let s ← managerCompress ps c.ruleset pk d st; let dd ← managerDecompressG c.ruleset s; pure (s, dd)
      showPy (fun (s, dd) => s!"{showABuf s},{showABuf dd}") r
    let reloaded := match Context.fromJson c.toJson with
      | .ok c' => run c'
      | .error e => "err:" ++ errName e
    pure s!"orig={run c} reloaded={reloaded}"
  | _ => none

end Schc.Drv
