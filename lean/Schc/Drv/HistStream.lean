/- Driver for the `hist` stream: sequences of calls on one long-lived object. The model is a pure
   function of each call's arguments, so every call is evaluated on its own: "the k-th result of any
   sequence equals the result of the same call on a fresh instance" is what the implementation is
   compared against. -/
import Schc.Drv.Tok
import Schc.Drv.SchcStream

namespace Schc.Drv
open Schc

inductive MOp | c (pk : ABuf) (d : Dir) (st : Strategy) | d (s : ABuf)
inductive FOp | c (pk : ABuf) (ifc : String) | d (s : ABuf) (ifc : String)

def pMOp : P MOp := do
  match ← tok with
  | "c" => do let pk ← pABuf; let d ← pDir; let st ← pStrategy; pure (.c pk d st)
  | "d" => do let s ← pABuf; pure (.d s)
  | _ => failure

def pFOp : P FOp := do
  match ← tok with
  | "c" => do let pk ← pABuf; let i ← pId; pure (.c pk i)
  | "d" => do let s ← pABuf; let i ← pId; pure (.d s i)
  | _ => failure

def histOp (toks : List String) : Option String :=
  match toks with
  | "manager" :: rest => do
    let (pid, rs, ops) ← runP (do let pid ← pId; let rs ← pRules; let n ← pNat; let ops ← pRep n pMOp; pEnd; pure (pid, rs, ops)) rest
    let one : MOp → String
      | .c pk d st => showPy showABuf (do let ps ← factory pid; managerCompress ps rs pk d st)
      | .d s => showPy showABuf (managerDecompressG rs s)
    pure (";".intercalate (ops.map one))
  | "ruler" :: rest => do
    let (rs, ps) ← runP (do let rs ← pRules; let n ← pNat; let ps ← pRep n pPacket; pEnd; pure (rs, ps)) rest
    let one (p : Packet) : String :=
      let idxs : Py (List Nat) := (List.range rs.length).filterM fun i => match rs[i]? with
        | some r => ruleMatches p r
        | none => pure false
      showPy (fun l => ",".intercalate (l.map toString)) idxs
    pure (";".intercalate (ps.map one))
  | "front" :: rest => do
    let (cs, ops) ← runP (do let n ← pNat; let cs ← pRep n pContext; let m ← pNat; let ops ← pRep m pFOp; pEnd; pure (cs, ops)) rest
    let one : FOp → String
      | .c pk i => showPy showABuf (frontCompress cs pk i)
      | .d s i => showPy showABuf (frontDecompressG cs s i)
    pure (";".intercalate (ops.map one))
  | _ => none

end Schc.Drv
