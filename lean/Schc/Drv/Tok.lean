/- Token-level parser/printer for the SCHC-level streams (no Mathlib). -/
import Schc.Drv.Common
import Schc.Py.Manager
import Schc.Py.Order

namespace Schc.Drv
open Schc

abbrev P := StateT (List String) Option

def tok : P String := do
  match ← get with
  | [] => failure
  | t :: ts => set ts; pure t

def pNat : P Nat := do let t ← tok; match t.toNat? with | some n => pure n | none => failure
def pInt : P Int := do let t ← tok; match t.toInt? with | some n => pure n | none => failure

def unesc (s : String) : String := String.ofList (s.toList.map fun c => if c == '~' then ' ' else c)
def esc (s : String) : String := String.ofList (s.toList.map fun c => if c == ' ' then '~' else c)

def pId : P String := do let t ← tok; pure (unesc t)

def pABuf : P ABuf := do
  let t ← tok
  match t.toList with
  | 'L' :: ':' :: bs => pure ⟨bs.map (· == '1'), .left⟩
  | 'R' :: ':' :: bs => pure ⟨bs.map (· == '1'), .right⟩
  | _ => failure

def pDir : P Dir := do
  match ← tok with
  | "U" => pure .up | "D" => pure .dw | "B" => pure .bi | _ => failure

def pRep {α} (n : Nat) (p : P α) : P (List α) :=
  match n with
  | 0 => pure []
  | n + 1 => do let x ← p; let xs ← pRep n p; pure (x :: xs)

def pField : P Field := do
  let i ← pId; let v ← pABuf; let p ← pNat
  pure ⟨i, v, p⟩

def pPacket : P Packet := do
  let d ← pDir; let n ← pNat; let fs ← pRep n pField; let pl ← pABuf; let raw ← pABuf
  pure ⟨d, fs, pl, raw⟩

def pTV : P TV := do
  match ← tok with
  | "b" => do let b ← pABuf; pure (.buf b)
  | "m" => do
    let n ← pNat
    let es ← pRep n (do let v ← pABuf; let i ← pABuf; pure (v, i))
    pure (.map es)
  | _ => failure

def pMO : P MO := do
  match ← tok with
  | "eq" => pure .equal | "ig" => pure .ignore | "msb" => pure .msb | "mm" => pure .matchMapping | _ => failure

def pCDA : P CDA := do
  match ← tok with
  | "ns" => pure .notSent | "lsb" => pure .lsb | "ms" => pure .mappingSent | "vs" => pure .valueSent
  | "co" => pure .compute | _ => failure

def pRField : P RuleField := do
  let i ← pId; let l ← pNat; let p ← pNat; let d ← pDir; let mo ← pMO; let cda ← pCDA; let tv ← pTV
  pure ⟨i, l, p, d, tv, mo, cda⟩

def pRule : P Rule := do
  let i ← pABuf
  let nat ← (do match ← tok with | "c" => pure Nature.compression | "n" => pure Nature.noCompression | _ => failure)
  let n ← pNat; let fs ← pRep n pRField
  pure ⟨i, nat, fs⟩

def pRules : P (List Rule) := do let n ← pNat; pRep n pRule

def pStrategy : P Strategy := do
  match ← tok with | "first" => pure .first | "best" => pure .best | _ => failure

def pContext : P Context := do
  let i ← pId; let ifc ← pId; let pid ← pId; let rs ← pRules
  pure ⟨i, ifc, pid, rs⟩

def pEnd : P Unit := do
  match ← get with | [] => pure () | _ => failure

def showABuf (b : ABuf) : String := strOfPad b.side ++ ":" ++ Bits.toString b.bits

def showField (f : Field) : String := s!"{esc f.id}|{f.position}|{showABuf f.value}"

def showFields (fs : List Field) : String := " ".intercalate (fs.map showField)

def showPairs (fs : List (String × ABuf)) : String := " ".intercalate (fs.map fun f => s!"{esc f.1}|{showABuf f.2}")

def runP {α} (p : P α) (toks : List String) : Option α := (p.run toks).map (·.1)

/-! The model sorts the compute entries with a stable insertion sort, which is what `list.sort` returns only when
    `compute_function_sort` orders the entries consistently (one direction per pair, no cycle). On a rule where it does
    not (e.g. a checksum placed BEFORE the length it depends on and another length in between), CPython's result
    depends on the comparison schedule of its own algorithm: the model says so (`unmodelled`) instead of answering.
    The test is `Rule.orderOkAll` (Schc.Py.Order); `Schc.Proofs.SortUnique` proves that it makes the sorted order unique. -/
def guardRules {α} (rs : List Rule) (x : Py α) : Py α := if rs.all Rule.orderOkAll then x else throw .unmodelled

def decompressG (s : ABuf) (r : Rule) : Py ABuf := guardRules [r] (decompress s r)
def decompressToFieldsG (s : ABuf) (r : Rule) : Py Compute.Fields := guardRules [r] (decompressToFields s r)
def decompressDG (s : ABuf) (r : Rule) (d : Option Dir) : Py ABuf := guardRules [r] (decompressD s r d)
def managerDecompressG (rs : List Rule) (s : ABuf) (d : Option Dir := none) : Py ABuf := guardRules rs (managerDecompress rs s d)
def frontDecompressG (cs : List Context) (s : ABuf) (i : String) : Py ABuf :=
  guardRules (cs.flatMap (·.ruleset)) (frontDecompress cs s i)

end Schc.Drv
