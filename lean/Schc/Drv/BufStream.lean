/- Driver for the `buf` stream: one Buffer operation per line, canonical result per line. -/
import Schc.Drv.Common

namespace Schc.Drv
open Schc

def bitsStr (l : List Nat) : String := String.ofList (l.map fun x => if x == 0 then '0' else if x == 1 then '1' else '?')

def bufOp (toks : List String) : Option String :=
  match toks with
  | ["new", h, n, p] => do
    let c ← bytesOfHex h; let n ← n.toNat?; let p ← padOfStr p
    pure (showPy showBuf (Buf.new c n p))
  | ["iter", b] => do
    let b ← parseBuf b
    pure (showPy bitsStr (b >>= Buf.iter))
  | ["copy", b] => do
    let b ← parseBuf b
    pure (showPy showBuf (b >>= Buf.copy))
  | ["getslice", b, s, e] => do
    let b ← parseBuf b; let s ← parseOptInt s; let e ← parseOptInt e
    pure (showPy showBuf (b >>= fun b => b.getSlice s e))
  | ["getbit", b, i] => do
    let b ← parseBuf b; let i ← i.toNat?
    pure (showPy showBuf (b >>= fun b => b.getBit i))
  | ["setslice", b, s, e, v] => do
    let b ← parseBuf b; let s ← s.toNat?; let e ← e.toNat?; let v ← parseBuf v
    pure (showPy showBuf (do let b ← b; let v ← v; b.setRange s e v))
  | ["add", a, b] => do
    let a ← parseBuf a; let b ← parseBuf b
    pure (showPy (fun (r, a', b') => s!"{showBuf r} {showBuf a'} {showBuf b'}") (do let a ← a; let b ← b; Buf.add a b))
  | ["pad", b, p, ip] => do
    let b ← parseBuf b; let p ← padOfStr p; let ip ← parseBool ip
    pure (showPy (fun (r, s) => s!"{showBuf r} {showBuf s}") (b >>= fun b => b.pad p ip))
  | ["shift", b, s, ip] => do
    let b ← parseBuf b; let s ← s.toInt?; let ip ← parseBool ip
    pure (showPy (fun (r, s) => s!"{showBuf r} {showBuf s}") (b >>= fun b => b.shift s ip))
  | [op, a, b] =>
    if op == "and" ∨ op == "or" ∨ op == "xor" then do
      let a ← parseBuf a; let b ← parseBuf b
      let f := if op == "and" then Buf.band else if op == "or" then Buf.bor else Buf.bxor
      pure (showPy (fun (r, b') => s!"{showBuf r} {showBuf b'}") (do let a ← a; let b ← b; f a b))
    else if op == "eq" then do
      let a ← parseBuf a; let b ← parseBuf b
      pure (showPy (fun (r, b') => s!"{r} {showBuf b'}") (do let a ← a; let b ← b; Buf.eq a b))
    else if op == "eqbytes" then do
      let a ← parseBuf a; let h ← bytesOfHex b
      pure (showPy (fun (r : Bool) => s!"{r}") (do let a ← a; pure (a.eqBytes h)))
    else none
  | ["hashset", b, s, e, v] => do
    -- hash, slice-assign, hash again: the key after the assignment is that of a freshly built equal buffer
    let b ← parseBuf b; let s ← s.toNat?; let e ← e.toNat?; let v ← parseBuf v
    pure (showPy (fun (x : Bool × Bool) => s!"{x.1} {x.2}") (do
      let b ← b; let v ← v
      let _ ← b.hashKey
      let b' ← b.setRange s e v
      let fresh ← Buf.new b'.content b'.length b'.padding
      let (k1, _) ← b'.hashKey; let (k2, _) ← fresh.hashKey
      let (e1, _) ← Buf.eq b' fresh
      pure (e1, k1 == k2)))
  | ["invert", b] => do
    let b ← parseBuf b
    pure (showPy showBuf (b >>= Buf.invert))
  | ["value", b] => do
    let b ← parseBuf b
    pure (showPy (fun (v, s) => s!"{v} {showBuf s}") (b >>= Buf.value))
  | ["hash", b] => do
    let b ← parseBuf b
    pure (showPy (fun (k, s) => s!"{hexOfBytes k} {showBuf s}") (b >>= Buf.hashKey))
  | ["chunks", b, n, p] => do
    let b ← parseBuf b; let n ← n.toNat?; let p ← parseBool p
    pure (showPy (fun l => " ".intercalate (l.map showBuf)) (b >>= fun b => b.chunks n p))
  | _ => none

end Schc.Drv
