/- Driver for the `buf` stream: one Buffer operation per line, canonical result per line. -/
import Schc.Drv.Common

namespace Schc.Drv
open Schc

def bitsStr (l : List Nat) : String := String.ofList (l.map fun x => if x == 0 then '0' else if x == 1 then '1' else '?')

/-- one token of a `seq` line: (new state, observation) -/
def seqStep (b : Buf) (tok : String) : Option (Py (Buf × Option String)) :=
  match tok.splitOn "," with
  | ["v"] => some (do let (v, b') ← b.value; pure (b', some (toString v)))
  | ["h"] => some (do let (k, b') ← b.hashKey; pure (b', some (hexOfBytes k)))
  | ["i"] => some (do let l ← b.iter; pure (b, some (if l.isEmpty then "-" else bitsStr l)))
  | ["n"] => some (pure (b, some (toString b.length)))
  | ["e", o] => do
    let o ← parseBuf o
    pure (do let o ← o; let (r, _) ← Buf.eq b o; pure (b, some (toString r)))
  | ["g", s, e] => do
    let s ← s.toInt?; let e ← e.toInt?
    pure (do let r ← b.getSlice (some s) (some e); pure (b, some (showBuf r)))
  | ["S", i, j, v] => do
    let i ← i.toNat?; let j ← j.toNat?; let v ← parseBuf v
    pure (do let v ← v; let b' ← b.setRange i j v; pure (b', none))
  | ["B", i, v] => do
    let i ← i.toNat?; let v ← parseBuf v
    pure (do let v ← v; let b' ← b.setRange i (i + 1) v; pure (b', none))
  | ["H", k] => do
    let k ← k.toInt?
    pure (do let (_, b') ← b.shift k true; pure (b', none))
  | ["P", p] => do
    let p ← padOfStr p
    pure (do let (_, b') ← b.pad p true; pure (b', none))
  | _ => none

def seqRun : Buf → List String → List String → Option (Py (Buf × List String))
  | b, [], obs => some (pure (b, obs.reverse))
  | b, t :: ts, obs => do
    let r ← seqStep b t
    match r with
    | .error e => some (.error e)
    | .ok (b', o) => seqRun b' ts (match o with | some x => x :: obs | none => obs)

def bufOp (toks : List String) : Option String :=
  match toks with
  | "seq" :: b :: rest => do
    let b ← parseBuf b
    match b with
    | .error e => pure ("err:" ++ errName e)
    | .ok b =>
      let r ← seqRun b rest []
      pure (showPy (fun (x : Buf × List String) => "|".intercalate x.2 ++ " ; " ++ showBuf x.1) r)
  | ["new", h, n, p] => do
    let c ← bytesOfHex h; let n ← n.toNat?; let p ← padOfStr p
    pure (showPy showBuf (Buf.new c n p))
  | ["iter", b] => do
    let b ← parseBuf b
    pure (showPy bitsStr (b >>= Buf.iter))
  | ["copy", b] => do
    let b ← parseBuf b
    pure (showPy showBuf (b >>= Buf.copy))
  | ["getslice", b, s, e] => do
    let b ← parseBuf b; let s ← parseOptInt s; let e ← parseOptInt e
    pure (showPy showBuf (b >>= fun b => b.getSlice s e))
  | ["getbit", b, i] => do
    let b ← parseBuf b; let i ← i.toNat?
    pure (showPy showBuf (b >>= fun b => b.getBit i))
  | ["setslice", b, s, e, v] => do
    let b ← parseBuf b; let s ← s.toNat?; let e ← e.toNat?; let v ← parseBuf v
    pure (showPy showBuf (do let b ← b; let v ← v; b.setRange s e v))
  | ["add", a, b] => do
    let a ← parseBuf a; let b ← parseBuf b
    pure (showPy (fun (r, a', b') => s!"{showBuf r} {showBuf a'} {showBuf b'}") (do let a ← a; let b ← b; Buf.add a b))
  | ["pad", b, p, ip] => do
    let b ← parseBuf b; let p ← padOfStr p; let ip ← parseBool ip
    pure (showPy (fun (r, s) => s!"{showBuf r} {showBuf s}") (b >>= fun b => b.pad p ip))
  | ["shift", b, s, ip] => do
    let b ← parseBuf b; let s ← s.toInt?; let ip ← parseBool ip
    pure (showPy (fun (r, s) => s!"{showBuf r} {showBuf s}") (b >>= fun b => b.shift s ip))
  | [op, a, b] =>
    if op == "and" ∨ op == "or" ∨ op == "xor" then do
      let a ← parseBuf a; let b ← parseBuf b
      let f := if op == "and" then Buf.band else if op == "or" then Buf.bor else Buf.bxor
      pure (showPy (fun (r, b') => s!"{showBuf r} {showBuf b'}") (do let a ← a; let b ← b; f a b))
    else if op == "eq" then do
      let a ← parseBuf a; let b ← parseBuf b
      pure (showPy (fun (r, b') => s!"{r} {showBuf b'}") (do let a ← a; let b ← b; Buf.eq a b))
    else if op == "eqbytes" then do
      let a ← parseBuf a; let h ← bytesOfHex b
      pure (showPy (fun (r : Bool) => s!"{r}") (do let a ← a; pure (a.eqBytes h)))
    else none
  | ["hashset", b, s, e, v] => do
    -- hash, slice-assign, hash again: the key after the assignment is that of a freshly built equal buffer
    let b ← parseBuf b; let s ← s.toNat?; let e ← e.toNat?; let v ← parseBuf v
    pure (showPy (fun (x : Bool × Bool) => s!"{x.1} {x.2}") (do
      let b ← b; let v ← v
      let _ ← b.hashKey
      let b' ← b.setRange s e v
      let fresh ← Buf.new b'.content b'.length b'.padding
      let (k1, _) ← b'.hashKey; let (k2, _) ← fresh.hashKey
      let (e1, _) ← Buf.eq b' fresh
      pure (e1, k1 == k2)))
  | ["invert", b] => do
    let b ← parseBuf b
    pure (showPy showBuf (b >>= Buf.invert))
  | ["value", b] => do
    let b ← parseBuf b
    pure (showPy (fun (v, s) => s!"{v} {showBuf s}") (b >>= Buf.value))
  | ["hash", b] => do
    let b ← parseBuf b
    pure (showPy (fun (k, s) => s!"{hexOfBytes k} {showBuf s}") (b >>= Buf.hashKey))
  | ["chunks", b, n, p] => do
    let b ← parseBuf b; let n ← n.toNat?; let p ← parseBool p
    pure (showPy (fun l => " ".intercalate (l.map showBuf)) (b >>= fun b => b.chunks n p))
  | _ => none

end Schc.Drv
