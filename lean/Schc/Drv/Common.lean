/- Line-protocol helpers shared by the driver's streams (no Mathlib). -/
import Schc.Py.Buffer

namespace Schc.Drv

def errName : PyErr → String
  | .parserError => "ParserError" | .unparserError => "UnparserError"
  | .ruleDescriptorMatchError => "RuleDescriptorMatchError" | .ruleIDMatchError => "RuleIDMatchError"
  | .indexError => "IndexError" | .typeError => "TypeError" | .valueError => "ValueError"
  | .keyError => "KeyError" | .overflowError => "OverflowError" | .attributeError => "AttributeError"
  | .unboundLocal => "UnboundLocalError" | .stopIteration => "StopIteration"
  | .assertionError => "AssertionError" | .zeroDivision => "ZeroDivisionError"
  | .hang => "hang" | .unmodelled => "unmodelled"

def hexDigit (n : Nat) : Char := "0123456789abcdef".toList.getD n '?'

def hexOfBytes (l : List Nat) : String :=
  if l.isEmpty then "-" else String.ofList (l.flatMap fun b => [hexDigit ((b / 16) % 16), hexDigit (b % 16)])

def hexVal (c : Char) : Option Nat :=
  if '0' ≤ c ∧ c ≤ '9' then some (c.toNat - '0'.toNat)
  else if 'a' ≤ c ∧ c ≤ 'f' then some (c.toNat - 'a'.toNat + 10)
  else none

def bytesOfHex (s : String) : Option (List Nat) :=
  if s == "-" then some [] else
  let rec go : List Char → Option (List Nat)
    | [] => some []
    | [_] => none
    | a :: b :: rest => do
      let x ← hexVal a; let y ← hexVal b; let r ← go rest
      pure ((x * 16 + y) :: r)
  go s.toList

def padOfStr : String → Option Pad
  | "L" => some .left | "R" => some .right | _ => none

def strOfPad : Pad → String
  | .left => "L" | .right => "R"

def showBuf (b : Buf) : String :=
  s!"{hexOfBytes b.content}:{b.length}:{strOfPad b.padding}:{b.padLen}"

def showPy {α} (f : α → String) : Py α → String
  | .ok a => f a
  | .error e => "err:" ++ errName e

/-- operand `hex:len:side`, built through the modelled constructor -/
def parseBuf (s : String) : Option (Py Buf) :=
  match s.splitOn ":" with
  | [h, n, p] => do
    let c ← bytesOfHex h; let n ← n.toNat?; let p ← padOfStr p
    pure (Buf.new c n p)
  | _ => none

def parseOptInt (s : String) : Option (Option Int) :=
  if s == "-" then some none else (s.toInt?).map some

def parseBool : String → Option Bool
  | "1" => some true | "0" => some false | _ => none

end Schc.Drv
