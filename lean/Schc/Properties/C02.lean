/-
C02 — SCHC packet layout produced by compress follows RFC 8724 section 7.
-/
import Schc.Proofs.Compress

namespace Schc

/-- For every packet and every rule whose descriptors can encode the packet's fields (`AllOK`), the
    model of `compress` returns, right-padded, exactly: rule ID, one residue per rule field in rule
    order (empty / whole value / bits after the pattern / mapping index, size-prefixed when FL = 0),
    payload — the RFC-shaped `Spec.compress`. -/
theorem C02_layout (p : Packet) (r : Rule) (h : r.nature = .compression → AllOK p.fields r.fields) :
    ∃ bits, Spec.compress p r = some bits ∧ compress p r = .ok ⟨bits, .right⟩ := by
  unfold Spec.compress compress
  cases hn : r.nature
  · obtain ⟨rs, h1, h2⟩ := compressFields_spec p.fields r.fields ((ABuf.empty .right).add r.id) (h hn)
    refine ⟨r.id.bits ++ rs ++ p.payload.bits, by simp [h1], ?_⟩
    simp only [h2, bind, Except.bind, pure, Except.pure]
    simp [ABuf.add, ABuf.empty]
  · refine ⟨_, rfl, ?_⟩
    simp only [pure, Except.pure]
    have : ∀ (fs : List Field) (acc : ABuf), fs.foldl (fun acc f => acc.add f.value) acc = ⟨acc.bits ++ fs.flatMap (·.value.bits), acc.side⟩ := by
      intro fs; induction fs with
      | nil => intro acc; simp
      | cons f fs ih => intro acc; rw [List.foldl_cons, ih]; simp [ABuf.add, List.append_assoc]
    rw [this]
    simp [ABuf.add, ABuf.empty]

/-- the byte-slicing / bitmask code of `least_significant_bits` returns the last k bits of a left-padded field, for all k -/
theorem C02_lsb (v : ABuf) (k : Nat) (hs : v.side = .left) (hk : k ≤ v.length) :
    leastSignificantBits v k = .ok ⟨v.bits.drop (v.length - k), .left⟩ :=
  leastSignificantBits_left v k hs hk

/-- a no-compression rule yields rule ID followed by the packet -/
theorem C02_nocompression (p : Packet) (r : Rule) (h : r.nature = .noCompression) :
    compress p r = .ok ⟨r.id.bits ++ p.fields.flatMap (·.value.bits) ++ p.payload.bits, .right⟩ := by
  obtain ⟨bits, h1, h2⟩ := C02_layout p r (by intro hc; rw [h] at hc; cases hc)
  simp only [Spec.compress, h, Option.some.injEq] at h1
  rw [h2, ← h1]

/-- non-vacuity: a two-field packet with an MSB/LSB variable-length field and a mapping -/
example :
    let v : ABuf := ⟨[true, false, true, true, false], .left⟩
    let w : ABuf := ⟨[false, true], .left⟩
    let p : Packet := ⟨.up, [⟨"a", v, 0⟩, ⟨"b", w, 0⟩], ⟨[true], .left⟩, ⟨[], .left⟩⟩
    let r : Rule := ⟨⟨[true, true], .left⟩, .compression,
      [⟨"a", 0, 0, .bi, .buf ⟨[true, false], .left⟩, .msb, .lsb⟩, ⟨"b", 2, 0, .bi, .map [(w, ⟨[false], .left⟩)], .matchMapping, .mappingSent⟩]⟩
    AllOK p.fields r.fields ∧ compress p r = .ok ⟨[true, true] ++ [false, false, true, true] ++ [true, true, false] ++ [false] ++ [true], .right⟩ := by
  refine ⟨⟨⟨rfl, by decide, by intro _; decide⟩, ⟨⟨_, List.mem_singleton.mpr rfl, rfl⟩, trivial⟩⟩, by decide⟩

end Schc
