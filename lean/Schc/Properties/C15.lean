/-
C15 — Failures raise the library's own errors, so contexts can fall through.
-/
import Schc.Proofs.Total

namespace Schc

/-- compressing a packet no rule of the context matches raises the rule-match error, FIRST and BEST alike -/
theorem C15_no_rule (rules : List Rule) (p : Packet) (d : Dir) (st : Strategy) (h : ∀ r ∈ rules, RuleTypeOK r)
    (hn : ∀ r ∈ rules, Spec.applicable { p with dir := d } r = false) :
    managerCompressPacket rules p d st = .error .ruleDescriptorMatchError := by
  cases st
  · rw [first_spec rules p d h]
    have : rules.find? (Spec.applicable { p with dir := d }) = none := by
      rw [List.find?_eq_none]; intro r hr; simp [hn r hr]
    rw [this]
  · rw [best_spec]
    obtain ⟨res, hres⟩ := bestLoop_total { p with dir := d } rules none h (fun r hr ha => by rw [hn r hr] at ha; cases ha)
    rw [hres]
    cases res with
    | none => rfl
    | some c =>
      rcases (bestLoop_spec _ rules none h _ hres).1 c rfl with h1 | ⟨r, hr, ha, _⟩
      · cases h1
      · rw [hn r hr] at ha; cases ha

/-- decompressing a SCHC packet whose first bits match no rule ID raises the rule-ID error -/
theorem C15_no_id (rules : List Rule) (s : ABuf) (hne : rules ≠ []) (h : ∀ r ∈ rules, ¬ r.id.bits <+: s.bits) :
    managerDecompress rules s = .error .ruleIDMatchError := by
  unfold managerDecompress; rw [matchSchc_miss rules s hne h]; rfl

/-- the only errors `ContextManager.compress` lets out are the parser's own and the rule-match error, provided
    every applicable rule can encode the packet (never StopIteration, None or another built-in exception) -/
theorem C15_compress_errors (ps : List ParserInst) (rules : List Rule) (pk : ABuf) (d : Dir) (st : Strategy) (e : PyErr)
    (hT : ∀ r ∈ rules, RuleTypeOK r)
    (hc : ∀ pd, packetParse (fuelFor pk) ps pk = .ok pd → ∀ r ∈ rules, Spec.applicable { pd with dir := d } r = true →
        ∃ o, compressD { pd with dir := d } r (some d) = .ok o)
    (he : managerCompress ps rules pk d st = .error e) :
    packetParse (fuelFor pk) ps pk = .error e ∨ e = .ruleDescriptorMatchError := by
  unfold managerCompress at he
  cases hp : packetParse (fuelFor pk) ps pk with
  | error e' => left; simp only [hp, bind, Except.bind] at he; cases he; rfl
  | ok pd =>
    right
    simp only [hp, bind, Except.bind] at he
    cases st
    · rw [first_spec rules pd d hT] at he
      cases hf : rules.find? (Spec.applicable { pd with dir := d }) with
      | none => simp only [hf] at he; cases he; rfl
      | some r =>
        simp only [hf] at he
        obtain ⟨o, ho⟩ := hc pd hp r (List.mem_of_find?_eq_some hf) (List.find?_some hf)
        rw [ho] at he; cases he
    · rw [best_spec] at he
      obtain ⟨res, hres⟩ := bestLoop_total { pd with dir := d } rules none hT (hc pd hp)
      rw [hres] at he
      cases res with
      | none => cases he; rfl
      | some c => cases he

/-- the front end tries the contexts of the interface in order, skips those that raise the parser error or the
    rule-match error, and returns the packet unchanged when none applies -/
theorem C15_frontend_fallthrough (cs : List Context) (pk : ABuf)
    (h : ∀ c ∈ cs, ∃ ps, factory c.parserId = .ok ps ∧
      (managerCompress ps c.ruleset pk .up .first = .error .parserError ∨ managerCompress ps c.ruleset pk .up .first = .error .ruleDescriptorMatchError)) :
    frontCompress.go pk cs = .ok pk := by
  induction cs with
  | nil => rfl
  | cons c cs ih =>
    obtain ⟨ps, hf, hm⟩ := h c (by simp)
    unfold frontCompress.go
    simp only [hf, bind, Except.bind]
    rcases hm with hm | hm <;> rw [hm] <;> exact ih (fun x hx => h x (List.mem_cons_of_mem _ hx))

/-- … and otherwise returns the output of the first context, in order, that does not raise such an error -/
theorem C15_frontend_first (pre : List Context) (c : Context) (post : List Context) (pk s : ABuf) (ps : List ParserInst)
    (hpre : ∀ x ∈ pre, ∃ ps, factory x.parserId = .ok ps ∧
      (managerCompress ps x.ruleset pk .up .first = .error .parserError ∨ managerCompress ps x.ruleset pk .up .first = .error .ruleDescriptorMatchError))
    (hf : factory c.parserId = .ok ps) (hc : managerCompress ps c.ruleset pk .up .first = .ok s) :
    frontCompress.go pk (pre ++ c :: post) = .ok s := by
  induction pre with
  | nil =>
    unfold frontCompress.go
    simp only [List.nil_append, hf, bind, Except.bind, hc]
    rfl
  | cons x pre ih =>
    obtain ⟨psx, hfx, hm⟩ := hpre x (by simp)
    simp only [List.cons_append]
    unfold frontCompress.go
    simp only [hfx, bind, Except.bind]
    rcases hm with hm | hm <;> rw [hm] <;> exact ih (fun y hy => hpre y (List.mem_cons_of_mem _ hy))

/-- decompression falls through on the rule-ID error and returns the packet as it is when no context knows the ID -/
theorem C15_frontend_decompress_fallthrough (cs : List Context) (pk : ABuf)
    (h : ∀ c ∈ cs, managerDecompress c.ruleset pk = .error .ruleIDMatchError) : frontDecompress.go pk cs = .ok pk := by
  induction cs with
  | nil => rfl
  | cons c cs ih =>
    unfold frontDecompress.go
    rw [h c (by simp)]
    exact ih (fun x hx => h x (List.mem_cons_of_mem _ hx))

/-- what the front end compresses it also decompresses back, when the rule IDs of the interface's contexts do not
    shadow one another: every earlier context raises the rule-ID error on this SCHC packet -/
theorem C15_frontend_roundtrip (pre : List Context) (c : Context) (post : List Context) (s raw : ABuf)
    (hpre : ∀ x ∈ pre, managerDecompress x.ruleset s = .error .ruleIDMatchError)
    (hc : managerDecompress c.ruleset s = .ok raw) :
    frontDecompress.go s (pre ++ c :: post) = .ok raw := by
  induction pre with
  | nil => unfold frontDecompress.go; simp only [List.nil_append]; rw [hc]; rfl
  | cons x pre ih =>
    simp only [List.cons_append]
    unfold frontDecompress.go
    rw [hpre x (by simp)]
    exact ih (fun y hy => hpre y (List.mem_cons_of_mem _ hy))

/-- non-vacuity: two contexts on one interface; the first does not match, the second does -/
example :
    let miss : Rule := ⟨⟨[false], .left⟩, .compression, [⟨"UDP:Source Port", 16, 0, .bi, .buf ⟨[], .left⟩, .equal, .notSent⟩]⟩
    let dflt : Rule := ⟨⟨[true], .left⟩, .noCompression, []⟩
    let pk : ABuf := ⟨List.replicate 64 true, .left⟩
    frontCompress [⟨"a", "if0", "UDP", [miss]⟩, ⟨"b", "if0", "UDP", [dflt]⟩] pk "if0" = .ok ⟨true :: List.replicate 64 true, .right⟩ ∧
    frontCompress [⟨"a", "if0", "UDP", [miss]⟩] pk "if0" = .ok pk ∧
    frontCompress [⟨"a", "if0", "UDP", [miss]⟩] ⟨[true], .left⟩ "if0" = .ok ⟨[true], .left⟩ := by decide

end Schc
