/-
C07 — Parsed fields tile the packet: nothing lost, nothing invented, order kept.
(Semantic CoAP option mode deliberately exposes a different, non-tiling view; it is not a configuration of this
property — its losslessness is C19.)
-/
import Schc.Proofs.Tiling
import Schc.Proofs.Roundtrip

namespace Schc

/-- every header parser (IPv4, IPv6, UDP with or without next-protocol prediction, CoAP in syntactic mode, SCTP),
    every buffer it accepts — well-formed or truncated / flipped / random: the concatenation of the field values
    in order is bit for bit the first `length` bits of the input, the reported header length is the total length
    of the fields, and it does not exceed the buffer -/
theorem C07_header (fuel : Nat) (p : ParserInst) (hm : p.coapMode = .syntactic) (b : ABuf) (h : Header)
    (hp : runParser fuel p b = .ok h) :
    h.fields.flatMap (·.value.bits) = b.bits.take h.length ∧ h.length = sumFieldBits h.fields ∧ h.length ≤ b.length := by
  obtain ⟨t1, t2⟩ := runParser_tiles fuel p hm b h hp
  refine ⟨t1, ?_, t2⟩
  rw [sumFieldBits_eq, t1, List.length_take]
  simp only [ABuf.length] at t2; omega

/-- every stack / predictive configuration `factory` builds: fields in order followed by the payload are the input
    buffer, and `raw` is the input -/
theorem C07_packet (cfg : String) (hcfg : cfg ∈ supportedConfigs) (b : ABuf) (ps : List ParserInst) (hf : factory cfg = .ok ps)
    (p : Packet) (hp : packetParse (fuelFor b) ps b = .ok p) :
    p.fields.flatMap (·.value.bits) ++ p.payload.bits = b.bits ∧ p.raw = b := by
  have hm : ∀ q ∈ ps, q.coapMode = .syntactic := by
    have htab : supportedConfigs.all (fun c => match factory c with | .ok l => l.all (fun q => q.coapMode == .syntactic) | .error _ => false) = true := by decide
    have := List.all_eq_true.mp htab cfg hcfg
    rw [hf] at this
    intro q hq
    simpa using List.all_eq_true.mp this q hq
  exact packetParse_tiles (fuelFor b) ps hm b p hp

/-- the same for every stack a caller builds by hand (any list of header parsers, classes repeated, prediction on or
    off), as long as no CoAP parser is in semantic mode -/
theorem C07_any_stack (ps : List ParserInst) (hm : ∀ q ∈ ps, q.coapMode = .syntactic) (b : ABuf) (p : Packet)
    (hp : packetParse (fuelFor b) ps b = .ok p) :
    p.fields.flatMap (·.value.bits) ++ p.payload.bits = b.bits ∧ p.raw = b :=
  packetParse_tiles (fuelFor b) ps hm b p hp

/-- consequently a no-compression rule reproduces any parsed packet -/
theorem C07_nocompression_reproduces (cfg : String) (hcfg : cfg ∈ supportedConfigs) (b : ABuf) (ps : List ParserInst) (hf : factory cfg = .ok ps)
    (p : Packet) (hp : packetParse (fuelFor b) ps b = .ok p) (r : Rule) (hn : r.nature = .noCompression) (hfs : r.fields = []) :
    ∃ c, compress p r = .ok c ∧ decompress c r = .ok ⟨b.bits, .right⟩ := by
  obtain ⟨t1, t2⟩ := C07_packet cfg hcfg b ps hf p hp
  have hraw : p.raw.bits = p.fields.flatMap (·.value.bits) ++ p.payload.bits := by rw [t2, t1]
  obtain ⟨c, h1, h2⟩ : ∃ c, compress p r = .ok c ∧ decompress c r = .ok ⟨p.raw.bits, .right⟩ := by
    refine ⟨_, C02_nocompression' p r hn, ?_⟩
    unfold decompress decompressToFields
    simp only [hfs, decompressFields, bind, Except.bind, pure, Except.pure, sortEntries, List.foldl_nil, runComputes, List.nil_append,
      List.foldl_cons, ABuf.add, ABuf.empty, ABuf.from_, ABuf.length]
    rw [hraw]
    simp [List.append_assoc]
  exact ⟨c, h1, by rw [h2, t2]⟩

/-- non-vacuity: a truncated CoAP message (token announced longer than the buffer) is accepted and still tiles -/
example :
    let b : ABuf := ⟨Bits.ofNat 32 0x44011234 ++ Bits.ofNat 16 0xaabb, .left⟩
    (coapParse .syntactic 60 b).map (fun h => (h.length, h.fields.flatMap (·.value.bits) == b.bits.take h.length)) = .ok (48, true) := by
  decide +kernel

end Schc
