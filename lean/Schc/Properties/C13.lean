/-
C13 — Buffer equality is bit equality and hashing agrees with it.

Byte-level model of buffer.py (`Schc.Buf`) against bit lists: `Buf.ofABuf a` is THE canonical Buffer of the
abstract buffer `a = ⟨bits, side⟩` (minimal content, zero padding bits); by `C13_canonical` every Buffer the
constructor returns is of this form, whatever content it was given.
-/
import Schc.Proofs.BufEq

namespace Schc

/-- every constructed Buffer is the canonical Buffer of the bits it denotes -/
theorem C13_canonical (c : List Nat) (n : Nat) (p : Pad) (hc : AllBytes c) : Buf.new c n p = .ok (Buf.ofABuf (ABuf.ofBytes c n p)) :=
  new_spec c n p hc

/-- two Buffers compare equal exactly when they have the same length and the same bits, for all four padding-side
    combinations (that the comparison leaves its operand untouched is C16's `C16_pure_eq`) -/
theorem C13_eq_iff (a b : ABuf) : (Buf.eq (Buf.ofABuf a) (Buf.ofABuf b)).map (·.1) = .ok (decide (a.bits = b.bits)) := by
  rw [eq_val]
  congr 1
  simp only [ABuf.beq]
  by_cases h : a.bits = b.bits <;> simp [h]

/-- equal Buffers have equal hashes: what is hashed is a function of the bits alone -/
theorem C13_hash (a b : ABuf) (h : a.bits = b.bits) :
    ∃ k, (Buf.ofABuf a).hashKey.map (·.1) = .ok k ∧ (Buf.ofABuf b).hashKey.map (·.1) = .ok k := by
  refine ⟨(⟨a.bits, .left⟩ : ABuf).content, hash_val a, ?_⟩
  rw [hash_val b, h]

/-- a Buffer stored as a dictionary key is found again through any equal Buffer, whatever the padding side of the
    stored key or of the probe (dict = insertion-ordered association list looked up by hash-then-eq; by `C13_hash`
    and `C13_eq_iff` that is lookup by bits) -/
theorem C13_dict (d : List (ABuf × ABuf)) (k k' : ABuf) (h : k.bits = k'.bits) : dictGet d k = dictGet d k' := by
  unfold dictGet ABuf.beq; rw [h]

/-- match-mapping therefore succeeds for a field value on either side against keys stored on either side -/
theorem C13_mapping_lookup (fwd : List (ABuf × ABuf)) (v : ABuf) (e : ABuf × ABuf) (he : e ∈ fwd) (hv : e.1.bits = v.bits) :
    (dictGet fwd v).isSome = true := by
  unfold dictGet
  rw [Option.isSome_map, List.find?_isSome]
  exact ⟨e, he, by simp [ABuf.beq, hv]⟩

/-- non-vacuity: 0001 on the left and on the right are equal and hash alike; 0001 and 00010 are not equal -/
example :
    let a : Buf := ⟨[0x01], 4, .left, 4⟩
    let b : Buf := ⟨[0x10], 4, .right, 4⟩
    a = Buf.ofABuf ⟨[false, false, false, true], .left⟩ ∧ b = Buf.ofABuf ⟨[false, false, false, true], .right⟩ ∧
    (Buf.eq a b).map (·.1) = .ok true ∧ (a.hashKey.map (·.1)) = (b.hashKey.map (·.1)) ∧
    (Buf.eq a ⟨[0x02], 5, .left, 3⟩).map (·.1) = .ok false := by decide

end Schc
