/-
C20 — Decompression is total: any bit string gives a buffer or the rule-ID error.

`C20_total` / `C20_manager_total`: rules without compute fields, every descriptor list that satisfies the
decompressor's own type asserts (`CdaTypeOK`), every bit string, either padding side.
`C20_total_compute` / `C20_manager_total_compute`: rules WITH compute fields (any of the six registered compute
functions, in any order `compute_function_sort` leaves them), provided each compute field sits at a position where
its function can run (`ComputeStackOK`, a decidable condition on the rule's id list: only the UDP checksum looks
at its neighbours — four fields back an IPv4/IPv6 field, and that header's source address before it) and the
input is short of the 64 KiB datagram limit (the real `to_bytes(2)` of the length functions overflows beyond it;
the quantifier's strings are 0..2000 bits).
-/
import Schc.Proofs.ComputeTotal
import Schc.Proofs.Direction

namespace Schc

/-- bare decompress, rules without compute fields: always a buffer -/
theorem C20_total (s : ABuf) (r : Rule) (h : ∀ rf ∈ r.fields, CdaTypeOK rf) (hnc : ∀ rf ∈ r.fields, rf.cda ≠ .compute) :
    ∃ d, decompress s r = .ok d :=
  decompress_total_nocompute s r h hnc

/-- through the context manager, with or without the optional direction (`dir`): a buffer or the rule-ID error, nothing
    else, for every bit string. The hypotheses are about the descriptors the call works on (`restrictO r dir` = the
    rule itself when no direction is given, its descriptors for that direction otherwise). -/
theorem C20_manager_total (rules : List Rule) (s : ABuf) (dir : Option Dir) (hne : rules ≠ [])
    (h : ∀ r ∈ rules, (∀ rf ∈ (restrictO r dir).fields, CdaTypeOK rf) ∧ (∀ rf ∈ (restrictO r dir).fields, rf.cda ≠ .compute)) :
    (∃ d, managerDecompress rules s dir = .ok d) ∨ managerDecompress rules s dir = .error .ruleIDMatchError := by
  unfold managerDecompress matchSchc
  cases hf : rules.find? (fun r => decide (r.id.length ≤ s.length) && r.id.beq (s.slice 0 r.id.length)) with
  | none =>
    right
    have : rules.isEmpty = false := by cases rules <;> simp_all
    simp [this, bind, Except.bind, throw, throwThe, MonadExceptOf.throw]
  | some r =>
    left
    have hr := List.mem_of_find?_eq_some hf
    obtain ⟨d, hd⟩ := decompress_total_nocompute s (restrictO r dir) (h r hr).1 (h r hr).2
    exact ⟨d, by simp [bind, Except.bind, pure, Except.pure, decompressD_eq, hd]⟩

/-- bare decompress, rules with compute fields at valid stack positions: always a buffer -/
theorem C20_total_compute (s : ABuf) (r : Rule) (h : ∀ rf ∈ r.fields, CdaTypeOK rf) (hstack : ComputeStackOK r)
    (hsize : staticBits r.fields + s.length + 32 * r.fields.length + 8 ≤ 2 ^ 19) : ∃ d, decompress s r = .ok d :=
  decompress_total_compute s r h hstack hsize

/-- through the context manager, any well-formed rule set (compute fields included): a buffer or the rule-ID error -/
theorem C20_manager_total_compute (rules : List Rule) (s : ABuf) (dir : Option Dir) (hne : rules ≠ [])
    (h : ∀ r ∈ rules, (∀ rf ∈ (restrictO r dir).fields, CdaTypeOK rf) ∧ ComputeStackOK (restrictO r dir) ∧
      staticBits (restrictO r dir).fields + s.length + 32 * (restrictO r dir).fields.length + 8 ≤ 2 ^ 19) :
    (∃ d, managerDecompress rules s dir = .ok d) ∨ managerDecompress rules s dir = .error .ruleIDMatchError := by
  unfold managerDecompress matchSchc
  cases hf : rules.find? (fun r => decide (r.id.length ≤ s.length) && r.id.beq (s.slice 0 r.id.length)) with
  | none =>
    right
    have : rules.isEmpty = false := by cases rules <;> simp_all
    simp [this, bind, Except.bind, throw, throwThe, MonadExceptOf.throw]
  | some r =>
    left
    have hr := List.mem_of_find?_eq_some hf
    obtain ⟨d, hd⟩ := decompress_total_compute s (restrictO r dir) (h r hr).1 (h r hr).2.1 (h r hr).2.2
    exact ⟨d, by simp [bind, Except.bind, pure, Except.pure, decompressD_eq, hd]⟩

/-- each registered compute function alone: total on any field list at a valid position -/
theorem C20_compute_functions (fid : String) (fs : Compute.Fields) (pos : Nat) (hpos : pos < fs.length)
    (hok : computeOK (fs.map (·.1)) pos fid = true) (hsz : totalBits fs + 8 ≤ 2 ^ 19) :
    ∃ v, Compute.compute fid fs pos = .ok v ∧ v.length ≤ 32 :=
  compute_total fid fs pos hpos hok hsz

/-- non-vacuity for compute rules: the IPv6/UDP rule shape (payload length, UDP length and checksum computed)
    satisfies the hypotheses, and a truncated SCHC packet decompresses to a buffer -/
example :
    let b0 : TV := .buf ⟨[], .left⟩
    let r : Rule := ⟨⟨[true, false], .left⟩, .compression,
      [⟨Gen.IPv6F.VERSION, 4, 0, .bi, .buf ⟨[false, true, true, false], .left⟩, .equal, .notSent⟩,
       ⟨Gen.IPv6F.TRAFFIC_CLASS, 8, 0, .bi, b0, .ignore, .valueSent⟩,
       ⟨Gen.IPv6F.FLOW_LABEL, 20, 0, .bi, b0, .ignore, .valueSent⟩,
       ⟨Gen.IPv6F.PAYLOAD_LENGTH, 16, 0, .bi, b0, .ignore, .compute⟩,
       ⟨Gen.IPv6F.NEXT_HEADER, 8, 0, .bi, b0, .ignore, .valueSent⟩,
       ⟨Gen.IPv6F.HOP_LIMIT, 8, 0, .bi, b0, .ignore, .valueSent⟩,
       ⟨Gen.IPv6F.SRC_ADDRESS, 128, 0, .bi, b0, .ignore, .valueSent⟩,
       ⟨Gen.IPv6F.DST_ADDRESS, 128, 0, .bi, b0, .ignore, .valueSent⟩,
       ⟨Gen.UDPF.SOURCE_PORT, 16, 0, .bi, b0, .ignore, .valueSent⟩,
       ⟨Gen.UDPF.DESTINATION_PORT, 16, 0, .bi, b0, .ignore, .valueSent⟩,
       ⟨Gen.UDPF.LENGTH, 16, 0, .bi, b0, .ignore, .compute⟩,
       ⟨Gen.UDPF.CHECKSUM, 16, 0, .bi, b0, .ignore, .compute⟩]⟩
    computeStackOKb r = true ∧ staticBits r.fields + 40 + 32 * r.fields.length + 8 ≤ 2 ^ 19 ∧
    (managerDecompress [r] ⟨[true, false, true, true, false, true], .right⟩).map (·.length) = .ok 56 := by
  refine ⟨by decide +kernel, by decide +kernel, by decide +kernel⟩

/-- non-vacuity: truncated and empty inputs against a rule with variable-length, mapping and LSB fields -/
example :
    let r : Rule := ⟨⟨[true], .left⟩, .compression,
      [⟨"a", 0, 0, .bi, .buf ⟨[], .left⟩, .ignore, .valueSent⟩, ⟨"b", 2, 0, .bi, .map [(⟨[true, true], .left⟩, ⟨[true], .left⟩)], .matchMapping, .mappingSent⟩,
       ⟨"c", 8, 0, .bi, .buf ⟨[true, false], .left⟩, .msb, .lsb⟩]⟩
    (∀ rf ∈ r.fields, CdaTypeOK rf) ∧ managerDecompress [r] ⟨[true, true, true, true, true], .right⟩ = .ok ⟨[true, false], .right⟩
      ∧ managerDecompress [r] ⟨[], .left⟩ = .error .ruleIDMatchError := by
  refine ⟨?_, by decide, by decide⟩
  intro rf hrf; simp at hrf; rcases hrf with h | h | h <;> subst h <;> simp [CdaTypeOK, ABuf.length]

end Schc
