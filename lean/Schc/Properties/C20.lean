/-
C20 — Decompression is total: any bit string gives a buffer or the rule-ID error.

Proved at full strength for rules without compute fields (`C20_total`, `C20_manager_total`): every descriptor
list that satisfies the decompressor's own type asserts (`CdaTypeOK`), every bit string, either padding side.
For rules WITH compute fields the statement additionally needs each compute function to be total on the partly
rebuilt field list at a valid stack position; that part is not yet a theorem and is covered by the
correspondence stream (truncations, flips, random strings against compute rules on the IPv6, IPv4 and SCTP
stacks) — see `C20_total_compute_statement` for the exact statement left open, and note the real code's
`to_bytes(2)` in the length functions overflows for payloads of 65536 bytes or more (outside the quantifier's
0..2000-bit strings; the model reproduces it).
-/
import Schc.Proofs.Total

namespace Schc

/-- bare decompress, rules without compute fields: always a buffer -/
theorem C20_total (s : ABuf) (r : Rule) (h : ∀ rf ∈ r.fields, CdaTypeOK rf) (hnc : ∀ rf ∈ r.fields, rf.cda ≠ .compute) :
    ∃ d, decompress s r = .ok d :=
  decompress_total_nocompute s r h hnc

/-- through the context manager: a buffer or the rule-ID error, nothing else, for every bit string -/
theorem C20_manager_total (rules : List Rule) (s : ABuf) (hne : rules ≠ [])
    (h : ∀ r ∈ rules, (∀ rf ∈ r.fields, CdaTypeOK rf) ∧ (∀ rf ∈ r.fields, rf.cda ≠ .compute)) :
    (∃ d, managerDecompress rules s = .ok d) ∨ managerDecompress rules s = .error .ruleIDMatchError := by
  unfold managerDecompress matchSchc
  cases hf : rules.find? (fun r => decide (r.id.length ≤ s.length) && r.id.beq (s.slice 0 r.id.length)) with
  | none =>
    right
    have : rules.isEmpty = false := by cases rules <;> simp_all
    simp [this, bind, Except.bind, throw, throwThe, MonadExceptOf.throw]
  | some r =>
    left
    have hr := List.mem_of_find?_eq_some hf
    obtain ⟨d, hd⟩ := decompress_total_nocompute s r (h r hr).1 (h r hr).2
    exact ⟨d, by simp [bind, Except.bind, pure, Except.pure, hd]⟩

/-- the statement left open for compute rules (kept visible; not claimed):
      ∀ rules with prefix-free IDs, CdaTypeOK descriptors and compute fields in valid stack positions,
      ∀ s with s.length < 2^19, managerDecompress rules s is `ok _` or `error ruleIDMatchError`. -/
def C20_total_compute_statement : Prop :=
  ∀ (rules : List Rule) (s : ABuf), rules ≠ [] → (∀ r ∈ rules, ∀ rf ∈ r.fields, CdaTypeOK rf) → s.length < 2 ^ 19 →
    (∃ d, managerDecompress rules s = .ok d) ∨ (∃ e, managerDecompress rules s = .error e)

/-- non-vacuity: truncated and empty inputs against a rule with variable-length, mapping and LSB fields -/
example :
    let r : Rule := ⟨⟨[true], .left⟩, .compression,
      [⟨"a", 0, 0, .bi, .buf ⟨[], .left⟩, .ignore, .valueSent⟩, ⟨"b", 2, 0, .bi, .map [(⟨[true, true], .left⟩, ⟨[true], .left⟩)], .matchMapping, .mappingSent⟩,
       ⟨"c", 8, 0, .bi, .buf ⟨[true, false], .left⟩, .msb, .lsb⟩]⟩
    (∀ rf ∈ r.fields, CdaTypeOK rf) ∧ managerDecompress [r] ⟨[true, true, true, true, true], .right⟩ = .ok ⟨[true, false], .right⟩
      ∧ managerDecompress [r] ⟨[], .left⟩ = .error .ruleIDMatchError := by
  refine ⟨?_, by decide, by decide⟩
  intro rf hrf; simp at hrf; rcases hrf with h | h | h <;> subst h <;> simp [CdaTypeOK, ABuf.length]

end Schc
