/-
C16 — Operations are pure: inputs never modified, results independent of history.

Three parts (DESIGN.md §6 C16):
 1. Buffer operations that are not explicitly in-place: theorems over the byte-level model, whose methods return
    the post-state of their operands; the `inplace` flag of every internal `pad`/`shift` call is the one the
    translator read from buffer.py on this run (`Schc.Gen.BufferSites`).
 2. Everything above the Buffer can only modify a shared object through one of the sites the translator
    tabulates from the AST on every run; the table must equal the reviewed allow-list below.
 3. The model above the Buffer is a pure function of (rules, packet): it has no state a history could change.
    "Call k on a long-lived manager = the same call on a fresh one" is therefore what the `hist` correspondence
    stream compares the real code against, call by call, with snapshots of every argument, rule and context.
-/
import Schc.Proofs.Purity
import Schc.Proofs.BufSeq
import Schc.Gen.MutationSites

namespace Schc

/-! ### part 1 — Buffer operands are left unchanged -/

theorem C16_pure_shift (b : Buf) (s : Int) (r b' : Buf) (h : b.shift s false = .ok (r, b')) : b' = b := Buf.shift_pure b s r b' h
theorem C16_pure_pad (b : Buf) (p : Pad) (r b' : Buf) (h : b.pad p false = .ok (r, b')) : b' = b := Buf.pad_pure b p r b' h
theorem C16_pure_value (b : Buf) (v : Nat) (b' : Buf) (h : b.value = .ok (v, b')) : b' = b := Buf.value_pure b v b' h
theorem C16_pure_and (a b r b' : Buf) (h : Buf.band a b = .ok (r, b')) : b' = b := Buf.band_pure a b r b' h
theorem C16_pure_or (a b r b' : Buf) (h : Buf.bor a b = .ok (r, b')) : b' = b := Buf.bor_pure a b r b' h
theorem C16_pure_xor (a b r b' : Buf) (h : Buf.bxor a b = .ok (r, b')) : b' = b := Buf.bxor_pure a b r b' h
theorem C16_pure_eq (a b : Buf) (v : Bool) (b' : Buf) (h : Buf.eq a b = .ok (v, b')) : b' = b := Buf.eq_pure a b v b' h
theorem C16_pure_hash (b : Buf) (k : List Nat) (b' : Buf) (h : b.hashKey = .ok (k, b')) : b' = b := Buf.hashKey_pure b k b' h
theorem C16_pure_add (a b r a' b' : Buf) (h : Buf.add a b = .ok (r, a', b')) : a' = a ∧ b' = b := Buf.add_pure a b r a' b' h

/-! ### part 1b — one Buffer through a history of observations and in-place changes -/

/-- any sequence of `value()`, hash, iteration, `len`, `==`, slices, slice assignments, in-place shifts and in-place
    pads on a Buffer the constructor returned behaves like the same sequence on the bit list (`aseq`): every
    observation is the one the bits spelled so far give, the Buffer stays canonical -/
theorem C16_buffer_sequence (a : ABuf) (ops : List BOp) (h : SeqOK a ops) :
    cseq (Buf.ofABuf a) ops = .ok (Buf.ofABuf (aseq a ops).1, (aseq a ops).2) := cseq_sim a ops h

/-- results independent of history, for Buffers: after two histories that spell the same bits on the same side, every
    further sequence of operations returns the same observations -/
theorem C16_buffer_history (a₁ a₂ : ABuf) (h₁ h₂ ops : List BOp) (ok₁ : SeqOK a₁ (h₁ ++ ops)) (ok₂ : SeqOK a₂ (h₂ ++ ops))
    (same : (aseq a₁ h₁).1 = (aseq a₂ h₂).1) :
    (cseq (Buf.ofABuf a₁) (h₁ ++ ops)).map (fun r => r.2.drop h₁.length) =
    (cseq (Buf.ofABuf a₂) (h₂ ++ ops)).map (fun r => r.2.drop h₂.length) :=
  history_independent a₁ a₂ h₁ h₂ ops ok₁ ok₂ same

/-- non-vacuity: hash, overwrite bits 0..3, hash again, shift, value — on a 13-bit right-padded Buffer -/
example :
    let a : ABuf := ⟨[true, false, true, true, false, false, true, false, true, true, true, false, true], .right⟩
    let ops := [BOp.hash, .setRange 0 3 ⟨[false, false], .left⟩, .hash, .shiftIn 2, .value, .padIn .left, .iter]
    SeqOK a ops ∧ (aseq a ops).1 = ⟨[false, false, true, false, false, true, false, true, true, true], .left⟩ := by
  refine ⟨⟨trivial, ⟨by decide, by decide⟩, trivial, trivial, trivial, trivial, trivial, trivial⟩, by decide⟩

/-- slicing, iteration, inversion, copy and chunking are modelled as functions that cannot assign to their
    operand; that buffer.py contains no other assignment is obligation `C16_buffer_writes` -/
theorem C16_buffer_writes : Gen.bufferAttrWrites =
    [("__init__", "self", "content"), ("__init__", "self", "length"), ("__init__", "self", "padding"), ("__init__", "self", "padding_length"),
     ("__setitem__", "self", "content"), ("__setitem__", "self", "length"), ("__setitem__", "self", "padding_length"),
     ("_shift_left", "self", "content"), ("_shift_left", "self", "length"), ("_shift_right", "self", "content"), ("_shift_right", "self", "length"),
     ("_update_padding", "self", "padding_length"),
     ("pad", "self", "content"), ("pad", "self", "length"), ("pad", "self", "padding"),
     ("pad", "«_.shift(…)»", "length"), ("pad", "«_.shift(…)»", "padding"), ("pad", "«_.shift(…)»", "padding_length"),
     ("pad", "«self.copy(…)»", "length"), ("pad", "«self.copy(…)»", "padding")] := by
  decide

/-- every call of a possibly mutating Buffer method inside buffer.py is either not in-place, or acts on a copy
    made in the same method (`pad` shifts `«self.copy(…)»`; `shift` works on `«self if … else self.copy(…)»`, i.e. on
    `self` only when `inplace` — receivers are identified by role: `self`, `arg<i>` = i-th parameter, a local by the
    head of the expression it is first bound to, so that neither renaming a variable nor adding a local changes the
    table), or is one of the in-place primitives -/
theorem C16_buffer_calls : Gen.bufferMutatingCalls.all (fun c =>
    c.2.2.2 == false || (c.1 == "pad" && c.2.2.1 == "«self.copy(…)»") || (c.1 == "shift" && c.2.2.1 == "«self if … else self.copy(…)»")
      || c.1 == "_shift_left" || c.1 == "_shift_right") = true := by
  decide

/-! ### part 2 — the SCHC-level code has no other mutation site than the reviewed ones -/

/-- reviewed allow-list: (module, function, receiver, kind, why the receiver is not a shared object) -/
def allowedMutationSites : List (String × String × String × String × String) := [
  ("microschc", "SCHC.__init__", "self", "attr:context_managers", "constructor initialises its own object"),
  ("microschc", "SCHC.__init__", "self.context_managers", "item", "constructor initialises its own object"),
  ("microschc", "SCHC.__init__", "self.context_managers[«iter(arg1)».interface_id]", "call:append", "constructor initialises its own object"),
  ("microschc.decompressor.decompressor", "ComputeEntry.__init__", "self", "attr:dependencies", "constructor initialises its own object"),
  ("microschc.decompressor.decompressor", "ComputeEntry.__init__", "self", "attr:field_id", "constructor initialises its own object"),
  ("microschc.decompressor.decompressor", "ComputeEntry.__init__", "self", "attr:field_position", "constructor initialises its own object"),
  ("microschc.decompressor.decompressor", "ComputeEntry.__init__", "self", "attr:function", "constructor initialises its own object"),
  ("microschc.decompressor.decompressor", "decompress", "«[]»", "call:append", "local container created in this call"),
  ("microschc.decompressor.decompressor", "decompress", "«[]»", "call:sort", "local container created in this call"),
  ("microschc.decompressor.decompressor", "decompress", "«[]»", "item", "local container created in this call"),
  ("microschc.decompressor.decompressor", "decompress", "«arg0[…]»", "call:pad(inplace=True)", "fresh slice of the SCHC packet created in this call"),
  ("microschc.manager.manager", "ContextManager.__init__", "self", "attr:context", "constructor initialises its own object"),
  ("microschc.manager.manager", "ContextManager.__init__", "self", "attr:parser", "constructor initialises its own object"),
  ("microschc.manager.manager", "ContextManager.__init__", "self", "attr:ruler", "constructor initialises its own object"),
  ("microschc.manager.manager", "ContextManager.compress", "«self.parser.parse(…)»", "attr:direction", "descriptor freshly returned by parser.parse in this call"),
  ("microschc.parser.parser", "HeaderParser.__init__", "self", "attr:name", "constructor initialises its own object"),
  ("microschc.parser.parser", "HeaderParser.__init__", "self", "attr:predict_next", "constructor initialises its own object"),
  ("microschc.parser.parser", "PacketParser.__init__", "self", "attr:name", "constructor initialises its own object"),
  ("microschc.parser.parser", "PacketParser.__init__", "self", "attr:parsers", "constructor initialises its own object"),
  ("microschc.parser.parser", "PacketParser.parse", "«[]»", "call:append", "local container created in this call"),
  ("microschc.parser.parser", "PacketParser.unparse", "«[]»", "call:extend", "local container created in this call"),
  ("microschc.protocol.coap", "CoAPParser.__init__", "self", "attr:interpret_options", "constructor initialises its own object"),
  ("microschc.protocol.coap", "CoAPParser.__init__", "self", "attr:unknown_option_pattern", "constructor initialises its own object"),
  ("microschc.protocol.coap", "CoAPParser.parse", "«[…]»", "call:append", "local container created in this call"),
  ("microschc.protocol.coap", "CoAPParser.unparse", "«[]»", "call:append", "local container created in this call"),
  ("microschc.protocol.coap", "_parse_options", "«DictComp»", "item", "local container created in this call"),
  ("microschc.protocol.coap", "_parse_options", "«[]»", "call:append", "local container created in this call"),
  ("microschc.protocol.ipv4", "IPv4Parser.parse", "«HeaderDescriptor(…)»", "attr:length", "HeaderDescriptor freshly built in this call"),
  ("microschc.protocol.ipv4", "IPv4Parser.parse", "«HeaderDescriptor(…)».fields", "call:extend", "HeaderDescriptor freshly built in this call"),
  ("microschc.protocol.ipv6", "IPv6Parser.parse", "«HeaderDescriptor(…)»", "attr:length", "HeaderDescriptor freshly built in this call"),
  ("microschc.protocol.ipv6", "IPv6Parser.parse", "«HeaderDescriptor(…)».fields", "call:extend", "HeaderDescriptor freshly built in this call"),
  ("microschc.protocol.registry", "REGISTER_PARSER", "PARSERS", "item", "import-time registration in the module table"),
  ("microschc.protocol.sctp", "SCTPParser._parse_chunk", "«[]»", "call:append", "local container created in this call"),
  ("microschc.protocol.sctp", "SCTPParser._parse_chunk", "«[]»", "call:extend", "local container created in this call"),
  ("microschc.protocol.sctp", "SCTPParser._parse_chunk_abort", "«[]»", "call:extend", "local container created in this call"),
  ("microschc.protocol.sctp", "SCTPParser._parse_chunk_cookie_echo", "«[]»", "call:append", "local container created in this call"),
  ("microschc.protocol.sctp", "SCTPParser._parse_chunk_data", "«[]»", "call:append", "local container created in this call"),
  ("microschc.protocol.sctp", "SCTPParser._parse_chunk_data", "«[]»", "call:extend", "local container created in this call"),
  ("microschc.protocol.sctp", "SCTPParser._parse_chunk_error", "«[]»", "call:extend", "local container created in this call"),
  ("microschc.protocol.sctp", "SCTPParser._parse_chunk_heartbeat", "«[]»", "call:extend", "local container created in this call"),
  ("microschc.protocol.sctp", "SCTPParser._parse_chunk_heartbeat_ack", "«[]»", "call:extend", "local container created in this call"),
  ("microschc.protocol.sctp", "SCTPParser._parse_chunk_init", "«[]»", "call:extend", "local container created in this call"),
  ("microschc.protocol.sctp", "SCTPParser._parse_chunk_init_ack", "«[]»", "call:extend", "local container created in this call"),
  ("microschc.protocol.sctp", "SCTPParser._parse_chunk_selective_ack", "«[]»", "call:extend", "local container created in this call"),
  ("microschc.protocol.sctp", "SCTPParser._parse_chunk_shutdown", "«[]»", "call:append", "local container created in this call"),
  ("microschc.protocol.sctp", "SCTPParser._parse_parameter", "«[]»", "call:append", "local container created in this call"),
  ("microschc.protocol.sctp", "SCTPParser._parse_parameter", "«[]»", "call:extend", "local container created in this call"),
  ("microschc.protocol.sctp", "SCTPParser.parse", "«[…]»", "call:extend", "local container created in this call"),
  ("microschc.protocol.udp", "UDPParser.__init__", "self", "attr:predict_next", "constructor initialises its own object"),
  ("microschc.protocol.udp", "UDPParser.parse", "«HeaderDescriptor(…)»", "attr:length", "HeaderDescriptor freshly built in this call"),
  ("microschc.protocol.udp", "UDPParser.parse", "«HeaderDescriptor(…)».fields", "call:extend", "HeaderDescriptor freshly built in this call"),
  ("microschc.ruler.ruler", "Ruler.__init__", "self", "attr:rules", "constructor initialises its own object")
]

/-- a receiver that is a list literal or a comprehension evaluated in the same call: whatever is done to that container
    (append, extend, item assignment, sort) cannot reach an object the caller holds -/
def freshContainer (receiver : String) : Bool := receiver == "«[]»" || receiver == "«[…]»" || receiver == "«DictComp»"

/-- every mutation site the translator finds in the SCHC-level code acts on a container created in the same call, or is one
    of the reviewed sites. (Stated as an inclusion: a site that disappears, or a new helper that fills its own fresh list,
    changes nothing; a new site on `self`, on a parameter or on anything reached from them has to be reviewed.) -/
theorem C16_sites : Gen.schcMutationSites.all (fun s =>
    freshContainer s.2.2.1 || (allowedMutationSites.map (fun a => (a.1, a.2.1, a.2.2.1, a.2.2.2.1))).contains s) = true := by
  decide +kernel

/-- non-vacuity of part 1: a right-padded operand survives value(), &, ==, hash and + unchanged -/
example :
    let a : Buf := ⟨[0x0b], 4, .left, 4⟩
    let b : Buf := ⟨[0xb0], 4, .right, 4⟩
    (b.value.map (·.2)) = .ok b ∧ ((Buf.band a b).map (·.2)) = .ok b ∧ ((Buf.eq a b).map (·.2)) = .ok b ∧
    (b.hashKey.map (·.2)) = .ok b ∧ ((Buf.add a b).map (·.2)) = .ok (a, b) := by decide

end Schc
