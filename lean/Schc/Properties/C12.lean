/-
C12 — Contexts, rules and buffers survive the JSON round trip unchanged in behaviour.

The model distinguishes everything the code can observe of these objects (bits, padding side, dict order of
mappings, every descriptor attribute), so the round-trip theorems are literal equalities: the reloaded object IS
the original, hence compares equal, re-serialises identically and is indistinguishable in use (any model function
gives the same result on it). The JSON text layer (`json.dumps` / `json.loads`) is the standard library's and is
trusted; str-Enum members vs plain strings are compared by the code only with `==` / `in` (never `is`) above the
Buffer, and `Buffer.from_json` rebuilds the `Padding` member — both facts are watched by the `json` correspondence
stream, which drives original and reloaded contexts through the real manager.
-/
import Schc.Proofs.JsonRoundtrip

namespace Schc

theorem C12_roundtrip_buffer (b : ABuf) : ABuf.fromJson b.toJson = .ok b := abuf_roundtrip b

theorem C12_roundtrip_mapping (fwd : List (ABuf × ABuf)) (h : MappingWF fwd) : mappingFromJson (mappingToJson fwd) = .ok fwd :=
  mapping_roundtrip fwd h

theorem C12_roundtrip_rule_field (f : RuleField) (h : TvWF f.tv) : RuleField.fromJson f.toJson = .ok f := rulefield_roundtrip f h

theorem C12_roundtrip_rule (r : Rule) (h : RuleWF r) : Rule.fromJson r.toJson = .ok r := rule_roundtrip r h

/-- parsed descriptors: a field descriptor and a whole packet descriptor (direction, fields, payload, raw) come back
    literally (the serialised `length` is redundant with `raw` and is not read back) -/
theorem C12_roundtrip_field (f : Field) : Field.fromJson f.toJson = .ok f := field_roundtrip f

theorem C12_roundtrip_header (h : HeaderDesc) : HeaderDesc.fromJson h.toJson = .ok h := header_roundtrip h

theorem C12_roundtrip_packet (p : Packet) : Packet.fromJson p.toJson = .ok p := packet_roundtrip p

theorem C12_roundtrip_context (c : Context) (h : ∀ r ∈ c.ruleset, RuleWF r) : Context.fromJson c.toJson = .ok c := context_roundtrip c h

/-- serialising the reloaded context gives the same JSON again -/
theorem C12_redump (c : Context) (h : ∀ r ∈ c.ruleset, RuleWF r) : (Context.fromJson c.toJson).map Context.toJson = .ok c.toJson := by
  rw [context_roundtrip c h]; rfl

/-- a context manager built from the reloaded context selects the same rules and produces the same SCHC packets
    and decompressed packets: any function of the context gives the same result -/
theorem C12_same_behaviour {α} (c : Context) (h : ∀ r ∈ c.ruleset, RuleWF r) (use : Context → α) :
    (Context.fromJson c.toJson).map use = .ok (use c) := by
  rw [context_roundtrip c h]; rfl

theorem beq_refl' (b : ABuf) : b.beq b = true := by simp [ABuf.beq]

theorem mappingEq_refl (fwd : List (ABuf × ABuf)) (h : MappingWF fwd) : mappingEq fwd fwd = true := by
  unfold mappingEq
  simp only [beq_self_eq_true, Bool.true_and, List.all_eq_true]
  intro e he
  have : dictGet fwd e.1 = some e.2 := by
    unfold dictGet
    rw [find_unique fwd _ e he (by simp [ABuf.beq]) (fun x hx hpx => h.2.1 x hx e he (by simpa [ABuf.beq] using hpx))]
    rfl
  obtain ⟨k, v⟩ := e
  simp only at this ⊢
  rw [this]; exact beq_refl' v

theorem listEq_refl {α} (f : α → α → Bool) (l : List α) (h : ∀ x ∈ l, f x x = true) : listEq f l l = true := by
  unfold listEq
  simp only [beq_self_eq_true, Bool.true_and, List.all_eq_true]
  intro p hp
  obtain ⟨a, b⟩ := p
  have := List.of_mem_zip hp
  have hab : a = b := by
    clear this
    induction l with
    | nil => simp at hp
    | cons x xs ih =>
      simp only [List.zip_cons_cons, List.mem_cons, Prod.mk.injEq] at hp
      rcases hp with ⟨h1, h2⟩ | hp
      · rw [h1, h2]
      · exact ih (fun y hy => h y (List.mem_cons_of_mem _ hy)) hp
  subst hab
  exact h a this.1

/-- the reloaded context compares equal to the original with the library's own `__eq__` methods -/
theorem C12_pyEq (c : Context) (h : ∀ r ∈ c.ruleset, RuleWF r) : (Context.fromJson c.toJson).map (c.pyEq ·) = .ok true := by
  rw [context_roundtrip c h]
  simp only [Except.map]
  congr 1
  unfold Context.pyEq
  simp only [beq_self_eq_true, Bool.true_and]
  apply listEq_refl
  intro r hr
  unfold Rule.pyEq
  simp only [beq_refl', beq_self_eq_true, Bool.true_and]
  apply listEq_refl
  intro f hf
  unfold RuleField.pyEq
  simp only [beq_self_eq_true, Bool.true_and, Bool.and_true]
  have := (h r hr).1 f hf
  cases htv : f.tv with
  | buf b => simp [TV.pyEq, beq_refl']
  | map fwd => rw [htv] at this; simp [TV.pyEq, mappingEq_refl fwd this]

/-- non-vacuity: a context with a non byte-aligned rule ID, both padding sides, a mapping, a no-compression rule -/
example :
    let m : List (ABuf × ABuf) := [(⟨[true, true, false], .left⟩, ⟨[true, false], .right⟩), (⟨[false, false, true], .right⟩, ⟨[false], .left⟩)]
    let c : Context := ⟨"ctx 1", "if 0", "CoAP", [⟨⟨[true, false, true], .right⟩, .compression,
      [⟨"CoAP:Code", 8, 0, .up, .buf ⟨[true, false, true, true, false], .left⟩, .msb, .lsb⟩, ⟨"CoAP:Type", 3, 0, .bi, .map m, .matchMapping, .mappingSent⟩]⟩,
      ⟨⟨[false], .left⟩, .noCompression, []⟩]⟩
    ((Context.fromJson c.toJson).map fun c' => decide (c' = c)) = .ok true := by decide +kernel

end Schc
