/-
C01 — Compress then decompress returns the original packet, bit for bit.
-/
import Schc.Proofs.Roundtrip

namespace Schc

/-- Bare functions. For every packet whose fields and payload spell its raw bits (what parsers return, C07) and
    every compression rule the matcher selects for it (`Spec.applicable`) whose descriptors all apply to the
    packet's direction and are lossless pairings that fit the fields (`AllFits`: equal/not-sent,
    ignore/value-sent, MSB/LSB, match-mapping/mapping-sent; fixed or variable length; any pattern length; any
    invertible mapping): compress succeeds and decompress of its output is the original packet, same bits, same
    length (right-padded). Corollary of C02 (layout), C03 (decompress on any conforming packet) and C04. -/
theorem C01_roundtrip (p : Packet) (r : Rule) (hn : r.nature = .compression)
    (hdir : ∀ rf ∈ r.fields, Spec.dirApplies p.dir rf.dir = true)
    (happ : Spec.applicable p r = true) (hfit : AllFits p.fields r.fields)
    (hraw : p.raw.bits = p.fields.flatMap (·.value.bits) ++ p.payload.bits) :
    ∃ c, compress p r = .ok c ∧ decompress c r = .ok ⟨p.raw.bits, .right⟩ :=
  roundtrip_compression p r hn hdir happ hfit hraw

/-- a no-compression rule reproduces the packet -/
theorem C01_nocompression (p : Packet) (r : Rule) (hn : r.nature = .noCompression) (hf : r.fields = [])
    (hraw : p.raw.bits = p.fields.flatMap (·.value.bits) ++ p.payload.bits) :
    ∃ c, compress p r = .ok c ∧ decompress c r = .ok ⟨p.raw.bits, .right⟩ := by
  refine ⟨_, C02_nocompression' p r hn, ?_⟩
  unfold decompress decompressToFields
  simp only [hf, decompressFields, bind, Except.bind, pure, Except.pure, sortEntries, List.foldl_nil, runComputes, List.nil_append,
    List.foldl_cons, ABuf.add, ABuf.empty, ABuf.from_, ABuf.length]
  rw [hraw]
  simp [List.append_assoc]

/-- Through a context manager, either strategy: if every rule of the set that applies to the packet is such a
    rule (or a no-compression rule) and the rule IDs are prefix-free, whatever rule the strategy picks is found
    again from the rule ID and the packet comes back. Uses C10 (the output is the output of an applicable rule
    of the set) and C11 (it is dispatched to that rule). -/
theorem C01_manager (rules : List Rule) (p : Packet) (d : Dir) (st : Strategy)
    (hT : ∀ r ∈ rules, RuleTypeOK r) (hpf : PrefixFreeIds rules)
    (hgood : ∀ r ∈ rules, Spec.applicable { p with dir := d } r = true →
      (r.nature = .compression ∧ (∀ rf ∈ r.fields, Spec.dirApplies d rf.dir = true) ∧ AllFits p.fields r.fields)
      ∨ (r.nature = .noCompression ∧ r.fields = []))
    (hraw : p.raw.bits = p.fields.flatMap (·.value.bits) ++ p.payload.bits)
    (c : ABuf) (hc : managerCompressPacket rules p d st = .ok c) :
    managerDecompress rules c = .ok ⟨p.raw.bits, .right⟩ := by
  obtain ⟨r, hr, ha, hcr⟩ := selected_rule rules p d st hT c hc
  have hdisp : matchSchc rules c = .ok r := by
    apply matchSchc_hit rules c r hr _ hpf
    -- every output of `compress` starts with the rule ID
    rcases hgood r hr ha with ⟨hn, hdir, hfit⟩ | ⟨hn, _⟩
    · obtain ⟨c', h1, _⟩ := roundtrip_compression { p with dir := d } r hn hdir ha hfit hraw
      rw [hcr] at h1; cases h1
      obtain ⟨bits, _, h3⟩ : ∃ bits, True ∧ compress { p with dir := d } r = .ok ⟨r.id.bits ++ bits, .right⟩ := by
        unfold Spec.applicable at ha; rw [hn] at ha
        have hfilter : r.fields.filter (fun f => Spec.dirApplies d f.dir) = r.fields := by rw [List.filter_eq_self]; exact hdir
        simp only [hfilter, Bool.and_eq_true, beq_iff_eq] at ha
        obtain ⟨_, hok, _, _⟩ := all_of_match p.fields r.fields ha.1 ha.2 hfit
        obtain ⟨rs, _, h2⟩ := compressFields_spec p.fields r.fields ((ABuf.empty .right).add r.id) hok
        refine ⟨rs ++ p.payload.bits, trivial, ?_⟩
        unfold compress
        simp only [hn, h2, bind, Except.bind, pure, Except.pure]
        simp [ABuf.add, ABuf.empty]
      rw [hcr] at h3; cases h3; exact List.prefix_append _ _
    · have := C02_nocompression' { p with dir := d } r hn
      rw [hcr] at this; cases this
      simp [List.append_assoc]
  unfold managerDecompress
  simp only [hdisp, bind, Except.bind]
  rcases hgood r hr ha with ⟨hn, hdir, hfit⟩ | ⟨hn, hf⟩
  · obtain ⟨c', h1, h2⟩ := roundtrip_compression { p with dir := d } r hn hdir ha hfit hraw
    rw [hcr] at h1; cases h1; exact h2
  · obtain ⟨c', h1, h2⟩ := C01_nocompression { p with dir := d } r hn hf hraw
    rw [hcr] at h1; cases h1; exact h2

/-- non-vacuity: all four lossless pairings, a variable-length LSB field, 3-bit rule ID, unaligned payload -/
example :
    let a : ABuf := ⟨[true, false, true, true, false], .left⟩
    let b : ABuf := ⟨[false, true], .left⟩
    let c : ABuf := ⟨[true, true, true], .left⟩
    let e : ABuf := ⟨[false, false, false, true], .left⟩
    let p : Packet := ⟨.up, [⟨"a", a, 0⟩, ⟨"b", b, 0⟩, ⟨"c", c, 0⟩, ⟨"e", e, 0⟩], ⟨[true, false, true], .left⟩,
      ⟨a.bits ++ b.bits ++ c.bits ++ e.bits ++ [true, false, true], .left⟩⟩
    let r : Rule := ⟨⟨[true, true, false], .left⟩, .compression,
      [⟨"a", 0, 0, .bi, .buf ⟨[true, false], .left⟩, .msb, .lsb⟩, ⟨"b", 2, 0, .up, .map [(⟨[true, true], .left⟩, ⟨[true], .left⟩), (b, ⟨[false], .left⟩)], .matchMapping, .mappingSent⟩,
       ⟨"c", 3, 0, .bi, .buf c, .equal, .notSent⟩, ⟨"e", 0, 0, .bi, .buf ⟨[], .left⟩, .ignore, .valueSent⟩]⟩
    Spec.applicable p r = true ∧ ((compress p r).bind fun s => decompress s r) = .ok ⟨p.raw.bits, .right⟩ := by
  decide

end Schc
