/-
C01 — Compress then decompress returns the original packet, bit for bit.
-/
import Schc.Proofs.Roundtrip
import Schc.Proofs.Tiling
import Schc.Proofs.UnparseRoundtrip
import Schc.Proofs.Direction
import Schc.Proofs.StackRoundtrip
import Schc.Proofs.StackRoundtrip4
import Schc.Proofs.StackRestoreSctp

namespace Schc

/-- Bare functions. For every packet whose fields and payload spell its raw bits (what parsers return, C07) and
    every compression rule the matcher selects for it (`Spec.applicable`) whose descriptors all apply to the
    packet's direction and are lossless pairings that fit the fields (`AllFits`: equal/not-sent,
    ignore/value-sent, MSB/LSB, match-mapping/mapping-sent; fixed or variable length; any pattern length; any
    invertible mapping): compress succeeds and decompress of its output is the original packet, same bits, same
    length (right-padded). Corollary of C02 (layout), C03 (decompress on any conforming packet) and C04. -/
theorem C01_roundtrip (p : Packet) (r : Rule) (hn : r.nature = .compression)
    (hdir : ∀ rf ∈ r.fields, Spec.dirApplies p.dir rf.dir = true)
    (happ : Spec.applicable p r = true) (hfit : AllFits p.fields r.fields)
    (hraw : p.raw.bits = p.fields.flatMap (·.value.bits) ++ p.payload.bits) :
    ∃ c, compress p r = .ok c ∧ decompress c r = .ok ⟨p.raw.bits, .right⟩ :=
  roundtrip_compression p r hn hdir happ hfit hraw

/-- a no-compression rule reproduces the packet -/
theorem C01_nocompression (p : Packet) (r : Rule) (hn : r.nature = .noCompression) (hf : r.fields = [])
    (hraw : p.raw.bits = p.fields.flatMap (·.value.bits) ++ p.payload.bits) :
    ∃ c, compress p r = .ok c ∧ decompress c r = .ok ⟨p.raw.bits, .right⟩ := by
  refine ⟨_, C02_nocompression' p r hn, ?_⟩
  unfold decompress decompressToFields
  simp only [hf, decompressFields, bind, Except.bind, pure, Except.pure, sortEntries, List.foldl_nil, runComputes, List.nil_append,
    List.foldl_cons, ABuf.add, ABuf.empty, ABuf.from_, ABuf.length]
  rw [hraw]
  simp [List.append_assoc]

/-- Through a context manager, either strategy, ANY mix of direction indicators in the rules: if every rule of the
    set that applies to the packet is a compression rule whose descriptors for the packet's direction are lossless
    pairings that fit (or a no-compression rule) and the rule IDs are prefix-free, whatever rule the strategy picks
    is found again from the rule ID and, with the direction passed to `decompress`, the packet comes back. Uses C10
    (the output is the output of an applicable rule of the set), C11 (it is dispatched to that rule) and C18 (both
    sides use the descriptors of that direction). -/
theorem C01_manager (rules : List Rule) (p : Packet) (d : Dir) (st : Strategy)
    (hT : ∀ r ∈ rules, RuleTypeOK r) (hpf : PrefixFreeIds rules)
    (hgood : ∀ r ∈ rules, Spec.applicable { p with dir := d } r = true →
      (r.nature = .compression ∧ AllFits p.fields (restrict r d).fields)
      ∨ (r.nature = .noCompression ∧ r.fields = []))
    (hraw : p.raw.bits = p.fields.flatMap (·.value.bits) ++ p.payload.bits)
    (c : ABuf) (hc : managerCompressPacket rules p d st = .ok c) :
    managerDecompress rules c (some d) = .ok ⟨p.raw.bits, .right⟩ := by
  obtain ⟨r, hr, ha, hcr⟩ := selected_rule rules p d st hT c hc
  have hcr' : compress { p with dir := d } (restrict r d) = .ok c := hcr
  have ha' : Spec.applicable { p with dir := d } (restrict r d) = true := by
    have := applicable_restrict { p with dir := d } r
    simp only at this
    rw [this]; exact ha
  have hdisp : matchSchc rules c = .ok r := by
    apply matchSchc_hit rules c r hr _ hpf
    -- every output of `compress` starts with the rule ID (which `restrict` keeps)
    rcases hgood r hr ha with ⟨hn, hfit⟩ | ⟨hn, _⟩
    · obtain ⟨bits, _, h3⟩ : ∃ bits, True ∧ compress { p with dir := d } (restrict r d) = .ok ⟨r.id.bits ++ bits, .right⟩ := by
        have ha2 := ha'
        unfold Spec.applicable at ha2; rw [restrict_nature, hn] at ha2
        have hfilter : (restrict r d).fields.filter (fun f => Spec.dirApplies d f.dir) = (restrict r d).fields := by
          rw [List.filter_eq_self]; exact restrict_dirs r d
        simp only [hfilter, Bool.and_eq_true, beq_iff_eq] at ha2
        obtain ⟨_, hok, _, _⟩ := all_of_match p.fields (restrict r d).fields ha2.1 ha2.2 hfit
        obtain ⟨rs, _, h2⟩ := compressFields_spec p.fields (restrict r d).fields ((ABuf.empty .right).add r.id) hok
        refine ⟨rs ++ p.payload.bits, trivial, ?_⟩
        unfold compress
        simp only [restrict_nature, hn, restrict_id, h2, bind, Except.bind, pure, Except.pure]
        simp [ABuf.add, ABuf.empty]
      rw [hcr'] at h3; cases h3; exact List.prefix_append _ _
    · have := C02_nocompression' { p with dir := d } (restrict r d) hn
      rw [hcr'] at this; cases this
      simp [restrict_id, List.append_assoc]
  unfold managerDecompress
  simp only [hdisp, bind, Except.bind, decompressD]
  rcases hgood r hr ha with ⟨hn, hfit⟩ | ⟨hn, hf⟩
  · obtain ⟨c', h1, h2⟩ := roundtrip_compression { p with dir := d } (restrict r d) hn (restrict_dirs r d) ha' hfit hraw
    rw [hcr'] at h1; cases h1; exact h2
  · have hf' : (restrict r d).fields = [] := by rw [restrict_fields, hf]; rfl
    obtain ⟨c', h1, h2⟩ := C01_nocompression { p with dir := d } (restrict r d) hn hf' hraw
    rw [hcr'] at h1; cases h1; exact h2

/-- End to end, from the bytes on the wire, for ANY stack of header parsers (any list, classes repeated, prediction on
    or off) without a semantic CoAP parser: every buffer the stack parser accepts and every rule set as in
    `C01_manager` (the condition is on the rules that apply to the packet the parser returns) — `ContextManager.compress`
    followed by `ContextManager.decompress` with the same direction returns the buffer, bit for bit. Joins C07 (the
    parsed fields and payload tile the buffer) with `C01_manager`. -/
theorem C01_end_to_end_stack (ps : List ParserInst) (hm : ∀ q ∈ ps, q.coapMode = .syntactic)
    (rules : List Rule) (b : ABuf) (d : Dir) (st : Strategy)
    (hT : ∀ r ∈ rules, RuleTypeOK r) (hpf : PrefixFreeIds rules)
    (hgood : ∀ p, packetParse (fuelFor b) ps b = .ok p → ∀ r ∈ rules, Spec.applicable { p with dir := d } r = true →
      (r.nature = .compression ∧ AllFits p.fields (restrict r d).fields)
      ∨ (r.nature = .noCompression ∧ r.fields = []))
    (c : ABuf) (hc : managerCompress ps rules b d st = .ok c) :
    managerDecompress rules c (some d) = .ok ⟨b.bits, .right⟩ := by
  unfold managerCompress at hc
  cases hp : packetParse (fuelFor b) ps b with
  | error e => simp [hp, bind, Except.bind] at hc
  | ok p =>
    simp only [hp, bind, Except.bind] at hc
    obtain ⟨t1, t2⟩ := packetParse_tiles (fuelFor b) ps hm b p hp
    have hraw : p.raw.bits = p.fields.flatMap (·.value.bits) ++ p.payload.bits := by rw [t2, ← t1]; rfl
    have := C01_manager rules p d st hT hpf (hgood p hp) hraw c hc
    rw [this, t2]

/-- … in particular for every stack configuration `factory` builds -/
theorem C01_end_to_end (cfg : String) (hcfg : cfg ∈ supportedConfigs) (ps : List ParserInst) (hf : factory cfg = .ok ps)
    (rules : List Rule) (b : ABuf) (d : Dir) (st : Strategy)
    (hT : ∀ r ∈ rules, RuleTypeOK r) (hpf : PrefixFreeIds rules)
    (hgood : ∀ p, packetParse (fuelFor b) ps b = .ok p → ∀ r ∈ rules, Spec.applicable { p with dir := d } r = true →
      (r.nature = .compression ∧ AllFits p.fields (restrict r d).fields)
      ∨ (r.nature = .noCompression ∧ r.fields = []))
    (c : ABuf) (hc : managerCompress ps rules b d st = .ok c) :
    managerDecompress rules c (some d) = .ok ⟨b.bits, .right⟩ := by
  have hm : ∀ q ∈ ps, q.coapMode = .syntactic := by
    have htab : supportedConfigs.all (fun c => match factory c with | .ok l => l.all (fun q => q.coapMode == .syntactic) | .error _ => false) = true := by decide
    have := List.all_eq_true.mp htab cfg hcfg
    rw [hf] at this
    intro q hq
    simpa using List.all_eq_true.mp this q hq
  exact C01_end_to_end_stack ps hm rules b d st hT hpf hgood c hc

/-- With an unparser (`decompress(schc_packet, rule, unparser=parser)`, the path a receiver takes when the packet
    was parsed with CoAP options in semantic mode): whatever `PacketParser.unparse` makes of the parsed fields followed
    by the payload, the concatenation of exactly that comes back — rules of lossless pairings that fit, no compute
    fields. That the un-parsed list spells the original packet on the IP / UDP / CoAP stacks is `C19_stack_unparse`;
    joined: `C19_stack_roundtrip`. -/
theorem C01_unparser_roundtrip (p : Packet) (r : Rule) (hn : r.nature = .compression)
    (hdir : ∀ rf ∈ r.fields, Spec.dirApplies p.dir rf.dir = true)
    (happ : Spec.applicable p r = true) (hfit : AllFits p.fields r.fields)
    (ps : List ParserInst) (target : Compute.Fields)
    (hun : packetUnparse ps (pairs p.fields ++ [(Gen.payloadId, p.payload)]) = .ok target) :
    ∃ c, compress p r = .ok c ∧ decompressU c r (some ps) none = .ok ⟨(strip target).flatMap (·.2), .right⟩ :=
  roundtrip_unparser p r hn hdir happ hfit ps target hun

namespace EndToEndExample
def bytesBits (l : List Nat) : Bits := l.flatMap (Bits.ofNat 8)
def exBuf : ABuf := ⟨bytesBits [0x03,0xe8, 0x07,0xd0, 0x00,0x09, 0xab,0xcd, 0x41], .left⟩
def exRule : Rule := ⟨⟨[true,false,true], .left⟩, .compression,
  [⟨"UDP:Source Port", 16, 0, .bi, .buf ⟨bytesBits [0x03,0xe8], .left⟩, .equal, .notSent⟩,
   ⟨"UDP:Destination Port", 16, 0, .up, .buf ⟨bytesBits [0x07], .left⟩, .msb, .lsb⟩,
   ⟨"UDP:Destination Port", 16, 0, .dw, .buf ⟨bytesBits [0x08], .left⟩, .msb, .lsb⟩,
   ⟨"UDP:Length", 16, 0, .bi, .buf ⟨[], .left⟩, .ignore, .valueSent⟩,
   ⟨"UDP:Checksum", 0, 0, .bi, .buf ⟨[], .left⟩, .ignore, .valueSent⟩]⟩

/-- non-vacuity of `C01_end_to_end`: a UDP datagram (ports 1000 → 2000, payload "A") through the "UDP" stack with a rule
    mixing equal/not-sent, MSB/LSB (one descriptor per direction), fixed and variable-length value-sent: every
    hypothesis holds, so compress → decompress returns the nine bytes -/
example : ∃ ps c, factory "UDP" = .ok ps ∧ managerCompress ps [exRule] exBuf .up .best = .ok c ∧
    managerDecompress [exRule] c (some .up) = .ok ⟨exBuf.bits, .right⟩ := by
  obtain ⟨ps, hps⟩ : ∃ ps, factory "UDP" = .ok ps := ⟨_, rfl⟩
  obtain ⟨c, hc⟩ : ∃ c, managerCompress ps [exRule] exBuf .up .best = .ok c := by
    have : factory "UDP" = .ok ps := hps
    cases this; exact ⟨_, rfl⟩
  refine ⟨ps, c, hps, hc, ?_⟩
  · refine C01_end_to_end "UDP" (by decide) ps hps [exRule] exBuf .up .best ?_ ?_ ?_ c hc
    · intro r hr rf hrf
      simp only [List.mem_singleton] at hr; subst hr
      simp only [exRule, List.mem_cons, List.not_mem_nil, or_false] at hrf
      rcases hrf with h | h | h | h | h <;> subst h <;> simp [MoTypeOK]
    · intro a ha b hb _
      simp only [List.mem_singleton] at ha hb; rw [ha, hb]
    · intro p hp r hr _
      simp only [List.mem_singleton] at hr; subst hr
      cases hps
      cases hp
      left
      refine ⟨rfl, ?_⟩
      show AllFits (_ :: _ :: _ :: _ :: []) (_ :: _ :: _ :: _ :: [])
      refine ⟨?_, ?_, ?_, ?_, trivial⟩
      · trivial
      · exact ⟨rfl, by intro h; cases h⟩
      · show (16 : Nat) = _; decide
      · show _ < 65536; decide
end EndToEndExample

/-- non-vacuity: all four lossless pairings, a variable-length LSB field, 3-bit rule ID, unaligned payload -/
example :
    let a : ABuf := ⟨[true, false, true, true, false], .left⟩
    let b : ABuf := ⟨[false, true], .left⟩
    let c : ABuf := ⟨[true, true, true], .left⟩
    let e : ABuf := ⟨[false, false, false, true], .left⟩
    let p : Packet := ⟨.up, [⟨"a", a, 0⟩, ⟨"b", b, 0⟩, ⟨"c", c, 0⟩, ⟨"e", e, 0⟩], ⟨[true, false, true], .left⟩,
      ⟨a.bits ++ b.bits ++ c.bits ++ e.bits ++ [true, false, true], .left⟩⟩
    let r : Rule := ⟨⟨[true, true, false], .left⟩, .compression,
      [⟨"a", 0, 0, .bi, .buf ⟨[true, false], .left⟩, .msb, .lsb⟩, ⟨"b", 2, 0, .up, .map [(⟨[true, true], .left⟩, ⟨[true], .left⟩), (b, ⟨[false], .left⟩)], .matchMapping, .mappingSent⟩,
       ⟨"c", 3, 0, .bi, .buf c, .equal, .notSent⟩, ⟨"e", 0, 0, .bi, .buf ⟨[], .left⟩, .ignore, .valueSent⟩]⟩
    Spec.applicable p r = true ∧ ((compress p r).bind fun s => decompress s r) = .ok ⟨p.raw.bits, .right⟩ := by
  decide

/-- Rules WITH compute fields, abstractly: whenever running the compute functions over the rebuilt field list (zero
    placeholders at the compute positions, everything else as C03 rebuilds it) gives the packet's bits back, the
    round trip holds. The hypothesis is discharged for the IPv6 / UDP stack by `C01_ipv6_udp_compute`. -/
theorem C01_roundtrip_compute (p : Packet) (r : Rule) (hn : r.nature = .compression)
    (hdir : ∀ rf ∈ r.fields, Spec.dirApplies p.dir rf.dir = true)
    (happ : Spec.applicable p r = true) (hfit : AllFitsC p.fields r.fields)
    (hraw : p.raw.bits = p.fields.flatMap (·.value.bits) ++ p.payload.bits)
    (fs' : Compute.Fields)
    (hrun : runComputes (sortEntries (computeEntries r.fields 0))
        (assemble r.fields (zeroed p.fields r.fields) ++ [(Gen.payloadId, ⟨p.payload.bits, .right⟩)]) = .ok fs')
    (hbits : fs'.flatMap (·.2.bits) = p.fields.flatMap (·.value.bits) ++ p.payload.bits) :
    ∃ c, compress p r = .ok c ∧ decompress c r = .ok ⟨p.raw.bits, .right⟩ :=
  roundtrip_compute p r hn hdir happ hfit hraw fs' hrun hbits

/-- The IPv6 / UDP stack with computed fields. For every packet whose first twelve fields are the IPv6 and UDP header
    fields (whatever follows: CoAP fields, payload), every rule the matcher selects for it whose pairings are
    lossless and which marks ANY SUBSET of IPv6 payload length, UDP length and UDP checksum as *compute*: if the
    packet's two length fields and its checksum are what RFC 8200 / RFC 768 prescribe (`Valid6`, stated with the
    model's own arithmetic, which C09 equates with the RFC formulas), decompress ∘ compress returns the packet bit
    for bit. The compute functions run in the order `compute_function_sort` leaves them. -/
theorem C01_ipv6_udp_compute (p : Packet) (r : Rule) (pf12 restF : List Field) (rf12 restR : List RuleField)
    (hp : p.fields = pf12 ++ restF) (hr : r.fields = rf12 ++ restR) (h12p : pf12.length = 12) (h12r : rf12.length = 12)
    (hids : pf12.map (·.id) = ids6)
    (hn : r.nature = .compression) (hdir : ∀ rf ∈ r.fields, Spec.dirApplies p.dir rf.dir = true)
    (happ : Spec.applicable p r = true) (hfit : AllFitsC p.fields r.fields)
    (hraw : p.raw.bits = p.fields.flatMap (·.value.bits) ++ p.payload.bits)
    (hncR : ∀ rf ∈ restR, rf.cda ≠ .compute)
    (hvalid : Valid6 (fv pf12 3) (fv pf12 6) (fv pf12 7) (fv pf12 8) (fv pf12 9) (fv pf12 10) (fv pf12 11) (restOf restF restR p.payload)) :
    ∃ c, compress p r = .ok c ∧ decompress c r = .ok ⟨p.raw.bits, .right⟩ :=
  roundtrip_ipv6_udp p r pf12 restF rf12 restR hp hr h12p h12r hids hn hdir happ hfit hraw hncR hvalid

/-- non-vacuity of `Valid6`: fe80::1 → fe80::2, ports 1000 → 2000, payload "hi": UDP length 10, checksum 0x8eb4 -/
example :
    let R (w v : Nat) : ABuf := ⟨Bits.ofNat w v, .right⟩
    Valid6 (R 16 10) (R 128 338288524927261089654018896841347694593) (R 128 338288524927261089654018896841347694594)
      (R 16 1000) (R 16 2000) (R 16 10) (R 16 0x8eb4) [(Gen.payloadId, R 16 0x6869)] := by
  refine ⟨by decide +kernel, by decide +kernel, by decide +kernel, by decide +kernel, by decide +kernel, ⟨ABuf.ofNat 16 0x8eb4, by decide +kernel, by decide +kernel⟩⟩

/-- The IPv4 / UDP stack with computed fields: any subset of IPv4 total length, IPv4 header checksum, UDP length and
    UDP checksum may be *compute*; for packets in which those four fields are what RFC 791 / RFC 768 prescribe
    (`Valid4`), decompress ∘ compress returns the packet bit for bit. The header checksum is computed after the total
    length and the UDP checksum after the UDP length, as `compute_function_sort` orders them. -/
theorem C01_ipv4_udp_compute (p : Packet) (r : Rule) (pf16 restF : List Field) (rf16 restR : List RuleField)
    (hp : p.fields = pf16 ++ restF) (hr : r.fields = rf16 ++ restR) (h16p : pf16.length = 16) (h16r : rf16.length = 16)
    (hids : pf16.map (·.id) = ids4)
    (hn : r.nature = .compression) (hdir : ∀ rf ∈ r.fields, Spec.dirApplies p.dir rf.dir = true)
    (happ : Spec.applicable p r = true) (hfit : AllFitsC p.fields r.fields)
    (hraw : p.raw.bits = p.fields.flatMap (·.value.bits) ++ p.payload.bits)
    (hncR : ∀ rf ∈ restR, rf.cda ≠ .compute)
    (hvalid : Valid4 (fv pf16 0) (fv pf16 1) (fv pf16 2) (fv pf16 3) (fv pf16 4) (fv pf16 5) (fv pf16 6) (fv pf16 7) (fv pf16 8) (fv pf16 9)
      (fv pf16 10) (fv pf16 11) (fv pf16 12) (fv pf16 13) (fv pf16 14) (fv pf16 15) (restOf restF restR p.payload)) :
    ∃ c, compress p r = .ok c ∧ decompress c r = .ok ⟨p.raw.bits, .right⟩ :=
  roundtrip_ipv4_udp p r pf16 restF rf16 restR hp hr h16p h16r hids hn hdir happ hfit hraw hncR hvalid

/-- non-vacuity of `Valid4`: 192.168.1.10 → 10.0.0.254, DF, TTL 64, id 0x1234, ports 1000 → 2000, payload "hi":
    total length 30, header checksum 0x5beb, UDP length 10, UDP checksum 0xbf08 -/
example :
    let R (w v : Nat) : ABuf := ⟨Bits.ofNat w v, .right⟩
    Valid4 (R 4 4) (R 4 5) (R 8 0) (R 16 30) (R 16 0x1234) (R 3 2) (R 13 0) (R 8 64) (R 8 17) (R 16 0x5beb) (R 32 3232235786) (R 32 167772414)
      (R 16 1000) (R 16 2000) (R 16 10) (R 16 0xbf08) [(Gen.payloadId, R 16 0x6869)] := by
  refine ⟨by decide +kernel, by decide +kernel, by decide +kernel, by decide +kernel, by decide +kernel, by decide +kernel,
    by decide +kernel, by decide +kernel, by decide +kernel, ⟨ABuf.ofNat 16 0xbf08, by decide +kernel, by decide +kernel⟩⟩

/-- SCTP packets with the checksum as a *compute* field: for packets carrying the CRC-32c RFC 9260 prescribes
    (`ValidS`; C09 equates the model's arithmetic with the bit-by-bit CRC) the round trip holds -/
theorem C01_sctp_compute (p : Packet) (r : Rule) (pf4 restF : List Field) (rf4 restR : List RuleField)
    (hp : p.fields = pf4 ++ restF) (hr : r.fields = rf4 ++ restR) (h4p : pf4.length = 4) (h4r : rf4.length = 4)
    (hids : pf4.map (·.id) = idsS)
    (hn : r.nature = .compression) (hdir : ∀ rf ∈ r.fields, Spec.dirApplies p.dir rf.dir = true)
    (happ : Spec.applicable p r = true) (hfit : AllFitsC p.fields r.fields)
    (hraw : p.raw.bits = p.fields.flatMap (·.value.bits) ++ p.payload.bits)
    (hncR : ∀ rf ∈ restR, rf.cda ≠ .compute)
    (hvalid : ValidS (fv pf4 0) (fv pf4 1) (fv pf4 2) (fv pf4 3) (restOf restF restR p.payload)) :
    ∃ c, compress p r = .ok c ∧ decompress c r = .ok ⟨p.raw.bits, .right⟩ :=
  roundtrip_sctp p r pf4 restF rf4 restR hp hr h4p h4r hids hn hdir happ hfit hraw hncR hvalid

/-- non-vacuity of `ValidS`: ports 1000 → 2000, tag 0x01020304, one COOKIE ACK chunk: checksum bytes 3e 57 62 66 -/
example :
    let R (w v : Nat) : ABuf := ⟨Bits.ofNat w v, .right⟩
    ValidS (R 16 1000) (R 16 2000) (R 32 0x01020304) (R 32 0x3e576266)
      [(Gen.SCTPF.CHUNK_TYPE, R 8 11), (Gen.SCTPF.CHUNK_FLAGS, R 8 0), (Gen.SCTPF.CHUNK_LENGTH, R 16 4), (Gen.payloadId, R 0 0)] := by
  refine ⟨by decide +kernel, ⟨⟨Bits.ofNat 32 0x3e576266, .left⟩, by decide +kernel, by decide +kernel⟩⟩

end Schc
