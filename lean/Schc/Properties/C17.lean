/-
C17 — Variable-length size prefix is a bijection with RFC 8724 widths.
Property theorems only; lemmas live in Schc/Proofs.
-/
import Schc.Proofs.Len

namespace Schc

/-- announced on 4 bits iff n ≤ 14, on 12 iff 15 ≤ n ≤ 254, on 28 iff 255 ≤ n, with the RFC's bit patterns -/
theorem C17_width (n : Nat) :
    (Spec.encLen n).length = (if n < 15 then 4 else if n < 255 then 12 else 28) ∧
    (n < 15 → Spec.encLen n = Bits.ofNat 4 n) ∧
    (15 ≤ n → n < 255 → Spec.encLen n = [true, true, true, true] ++ Bits.ofNat 8 n) ∧
    (255 ≤ n → Spec.encLen n = List.replicate 12 true ++ Bits.ofNat 16 n) := by
  refine ⟨encLen_length n, ?_, ?_, ?_⟩
  · intro h; simp [Spec.encLen, h]
  · intro h1 h2
    have : ¬ n < 15 := by omega
    simp only [Spec.encLen, this, h2, if_true, if_false]; rfl
  · intro h
    have h1 : ¬ n < 15 := by omega
    have h2 : ¬ n < 255 := by omega
    simp only [Spec.encLen, h1, h2, if_false]; rfl

/-- the library's encoder emits exactly that announcement for every size below 2^16 … -/
theorem C17_encode (n : Nat) (h : n < 65536) : encodeLength n = .ok ⟨Spec.encLen n, .left⟩ :=
  encodeLength_eq n h

/-- … and rejects larger sizes (the real code asserts) -/
theorem C17_encode_reject (n : Nat) (h : 65536 ≤ n) : encodeLength n = .error .assertionError :=
  encodeLength_too_big n h

/-- decoding the announcement returns n and consumes exactly its bits, whatever follows, whatever the padding side -/
theorem C17_decode_encode (n : Nat) (h : n < 65536) (rest : Bits) (side : Pad) :
    decodeLength ⟨Spec.encLen n ++ rest, side⟩ = (n, (Spec.encLen n).length) := by
  rw [encLen_length]; exact decodeLength_encLen n h rest side

/-- non-vacuity: a concrete size in each class -/
example : decodeLength ⟨Spec.encLen 14 ++ [true, false], .right⟩ = (14, 4)
    ∧ decodeLength ⟨Spec.encLen 254 ++ [true], .right⟩ = (254, 12)
    ∧ decodeLength ⟨Spec.encLen 65535, .left⟩ = (65535, 28) := by decide

end Schc
