/-
C05 — Buffer slicing, concatenation, padding and iteration act on the bit sequence.

`Schc.Buf` is the byte-level model of buffer.py (content / length / padding / padding_length, the same loops,
masks, carries and case analyses, with Python's `bytes([...])` range check and IndexError as error results).
`ABuf = ⟨bits, side⟩` is the plain bit sequence with a padding side, and `Buf.ofABuf a` is THE canonical Buffer
of `a` (`C05_canonical_form`). Every theorem below has the shape

    op (ofABuf a) … = ok (ofABuf (the same operation on the bit list), operands afterwards)

for ALL bit lists, both sides of every operand and all cut points — no bound on lengths. Since every result is
again an `ofABuf`, the theorems compose: any expression built from these operations denotes what the bit-list
expression denotes, and is canonical.
-/
import Schc.Proofs.BufAdd

namespace Schc

/-- canonical form: minimal byte length, declared length / side / padding length, and the content spells the
    bits with all padding bits zero on the buffer's side -/
theorem C05_canonical_form (a : ABuf) :
    (Buf.ofABuf a).content.length = byteLenOf a.length ∧ 8 * byteLenOf a.length = a.length + padLenOf a.length ∧ padLenOf a.length < 8 ∧
    (Buf.ofABuf a).length = a.bits.length ∧ (Buf.ofABuf a).padding = a.side ∧ (Buf.ofABuf a).padLen = padLenOf a.length ∧
    AllBytes (Buf.ofABuf a).content ∧
    ABuf.bytesBits (Buf.ofABuf a).content = (match a.side with
      | .left => Bits.zeros (padLenOf a.bits.length) ++ a.bits
      | .right => a.bits ++ Bits.zeros (padLenOf a.bits.length)) :=
  ⟨ofABuf_content_length a, byteLen_eq _, padLen_lt _, rfl, rfl, rfl, allBytes_content a, bytesBits_content a⟩

/-- two canonical Buffers with the same bits and side are the same Buffer (the representation is unique) -/
theorem C05_canonical_unique (a b : ABuf) (h : a = b) : Buf.ofABuf a = Buf.ofABuf b := by rw [h]

/-- construction: `Buffer(content, length, padding)` for ANY byte content (too short, too long, dirty padding bits)
    is the canonical Buffer of the last (LEFT) / first (RIGHT) `length` bits of the zero-extended content -/
theorem C05_ctor (c : List Nat) (n : Nat) (p : Pad) (hc : AllBytes c) : Buf.new c n p = .ok (Buf.ofABuf (ABuf.ofBytes c n p)) :=
  new_spec c n p hc

/-- iteration yields the bits in order -/
theorem C05_iter (a : ABuf) : (Buf.ofABuf a).iter = .ok (a.bits.map bitNat) := iter_spec a

/-- length -/
theorem C05_length (a : ABuf) : (Buf.ofABuf a).length = a.bits.length := rfl

/-- copying -/
theorem C05_copy (a : ABuf) : (Buf.ofABuf a).copy = .ok (Buf.ofABuf a) := copy_spec a

/-- slicing with resolved bounds `0 ≤ s ≤ e ≤ len` -/
theorem C05_getitem_range (a : ABuf) (s e : Nat) (hse : s ≤ e) (hen : e ≤ a.length) :
    Buf.getRange (Buf.ofABuf a) s e = .ok (Buf.ofABuf ⟨(a.bits.drop s).take (e - s), a.side⟩) :=
  getRange_spec a s e hse hen

/-- slicing with optional / negative / over-long bounds, clamped as `slice.indices` does -/
theorem C05_getitem_slice (a : ABuf) (start stop : Option Int)
    (h : Buf.sliceBound a.length start 0 ≤ Buf.sliceBound a.length stop a.length) :
    Buf.getSlice (Buf.ofABuf a) start stop =
      .ok (Buf.ofABuf (a.slice (Buf.sliceBound a.length start 0) (Buf.sliceBound a.length stop a.length))) :=
  getSlice_spec a start stop h

/-- a stop beyond the length is clamped to the length -/
theorem C05_slice_clamp (len : Nat) (j : Nat) (h : len ≤ j) : Buf.sliceBound len (some (j : Int)) len = len := by
  simp only [Buf.sliceBound]
  have : ¬ ((j : Int) < 0) := by omega
  simp only [this, if_false, Int.toNat_natCast]
  omega

/-- single-bit indexing -/
theorem C05_getitem_bit (a : ABuf) (i : Nat) (hi : i < a.length) :
    Buf.getBit (Buf.ofABuf a) i = .ok (Buf.ofABuf ⟨(a.bits.drop i).take 1, a.side⟩) := by
  have := getBit_spec a i hi
  simp only [ABuf.slice, Bits.slice, Nat.add_sub_cancel_left] at this
  exact this

/-- concatenation, all nine branches: bits of `a` then bits of `b`, on `a`'s side … -/
theorem C05_add (a b : ABuf) :
    (Buf.add (Buf.ofABuf a) (Buf.ofABuf b)).map (·.1) = .ok (Buf.ofABuf ⟨a.bits ++ b.bits, a.side⟩) :=
  add_val a b

/-- … and both operands are left unchanged (this half needs the two internal re-paddings of `__add__` to be
    `inplace=False`, which is what the regenerated flags say) -/
theorem C05_add_operands (a b : ABuf) :
    Buf.add (Buf.ofABuf a) (Buf.ofABuf b) = .ok (Buf.ofABuf ⟨a.bits ++ b.bits, a.side⟩, Buf.ofABuf a, Buf.ofABuf b) := by
  have h : addAfter a b = b := by
    obtain ⟨A, sa⟩ := a; obtain ⟨B, sb⟩ := b
    have h1 : Gen.addPadInplace1 = false := rfl
    have h2 : Gen.addPadInplace2 = false := rfl
    unfold addAfter
    cases sa <;> simp [h1, h2]
  rw [add_spec, h]; rfl

/-- re-padding keeps the bits and moves the padding; not in place, the operand is unchanged; in place, the operand
    becomes the result -/
theorem C05_pad (a : ABuf) (p : Pad) (ip : Bool) :
    (Buf.ofABuf a).pad p ip = .ok (Buf.ofABuf ⟨a.bits, p⟩, if ip then Buf.ofABuf ⟨a.bits, p⟩ else Buf.ofABuf a) :=
  pad_spec a p ip

/-- slice assignment: prefix, the values, suffix; the target keeps its side -/
theorem C05_setitem (a v : ABuf) (s e : Nat) (hse : s ≤ e) (hen : e ≤ a.length) :
    Buf.setRange (Buf.ofABuf a) s e (Buf.ofABuf v) = .ok (Buf.ofABuf ⟨a.bits.take s ++ v.bits ++ a.bits.drop e, a.side⟩) :=
  setRange_spec a v s e hse hen

/-- composition example: slicing a concatenation at the seam gives the operands back, whatever their sides -/
theorem C05_add_then_slice (a b : ABuf) :
    (do let (r, _, _) ← Buf.add (Buf.ofABuf a) (Buf.ofABuf b)
        let x ← Buf.getRange r 0 a.length
        let y ← Buf.getRange r a.length r.length
        pure (x, y)) = .ok (Buf.ofABuf ⟨a.bits, a.side⟩, Buf.ofABuf ⟨b.bits, a.side⟩) := by
  simp only [bind, Except.bind, add_spec, ABuf.add, pure, Except.pure]
  have hl : (Buf.ofABuf ⟨a.bits ++ b.bits, a.side⟩).length = a.length + b.length := by simp [Buf.ofABuf, ABuf.length]
  rw [getRange_spec _ 0 a.length (Nat.zero_le _) (by simp [ABuf.length])]
  simp only [hl]
  rw [getRange_spec _ a.length (a.length + b.length) (by omega) (by simp [ABuf.length])]
  simp [ABuf.slice, Bits.slice, ABuf.length]

/-- non-vacuity on concrete Buffers: 3 + 7 bits across sides, an unaligned slice, a slice assignment -/
example :
    let a : Buf := ⟨[0x05], 3, .left, 5⟩
    let b : Buf := ⟨[0xfe], 7, .right, 1⟩
    a = Buf.ofABuf ⟨[true, false, true], .left⟩ ∧ b = Buf.ofABuf ⟨[true, true, true, true, true, true, true], .right⟩ ∧
    (Buf.add a b).map (·.1) = .ok ⟨[0x02, 0xff], 10, .left, 6⟩ ∧
    (Buf.add b a).map (·.1) = .ok ⟨[0xff, 0x40], 10, .right, 6⟩ ∧
    Buf.getRange ⟨[0x02, 0xff], 10, .left, 6⟩ 1 4 = .ok ⟨[0x03], 3, .left, 5⟩ ∧
    Buf.setRange ⟨[0x02, 0xff], 10, .left, 6⟩ 1 2 ⟨[0x02], 2, .left, 6⟩ = .ok ⟨[0x06, 0xff], 11, .left, 5⟩ := by decide

/-- composition: cutting a Buffer anywhere and concatenating the two parts gives it back -/
theorem C05_split_join (a : ABuf) (k : Nat) (hk : k ≤ a.length) :
    (do let x ← Buf.getRange (Buf.ofABuf a) 0 k
        let y ← Buf.getRange (Buf.ofABuf a) k a.length
        let (r, _, _) ← Buf.add x y
        pure r) = .ok (Buf.ofABuf a) := by
  simp only [bind, Except.bind, getRange_spec a 0 k (Nat.zero_le _) hk, getRange_spec a k a.length hk (Nat.le_refl _), add_spec, pure, Except.pure]
  congr 2
  obtain ⟨bits, side⟩ := a
  simp only [ABuf.add, ABuf.slice, Bits.slice, ABuf.length, List.drop_zero, Nat.sub_zero, ABuf.mk.injEq, and_true]
  rw [List.take_of_length_le (l := List.drop k bits) (by simp), List.take_append_drop]

end Schc
