/-
C19 — CoAP semantic option view is a lossless re-encoding of the options.

Model: `coapParse` (both option modes; the option walk of `_parse_options` with its cursor, occurrence counters,
running option number and the `option_delta_extended` variable that survives iterations) and `coapUnparse`
(`CoAPParser.unparse`: name → number through the tables read from coap.py, the `OPTION_UNKNOWN(n)` regex, delta /
length nibbles, extended fields with `to_bytes` overflow). Messages are LEFT-padded Buffers (what `Buffer(bytes)`
gives); the theorem is for every such message of any length, any number of options, any option numbers, deltas
and value lengths, with or without payload — the only requirement is that no option uses the reserved nibble 15
(RFC 7252 §3.1: "reserved for the payload marker / message format error"), which is exactly what "can encode"
means in the property.
-/
import Schc.Proofs.CoapSemantic

namespace Schc

/-- the property: semantic parse, then un-parse = the syntactic (id, value) sequence; the two parses succeed
    together and cover the same bytes -/
theorem C19_lossless (fuel : Nat) (b : ABuf) (hside : b.side = .left) (hs : Header)
    (h : coapParse .syntactic fuel b = .ok hs) (hwf : WfNibbles (pairs hs.fields)) :
    ∃ hm, coapParse .semantic fuel b = .ok hm ∧ hm.length = hs.length ∧
      coapUnparse .semantic (pairs hm.fields) = .ok (pairs hs.fields) :=
  coap_semantic_lossless fuel b hside hs h hwf

/-- with enough fuel (`fuelFor`) the syntactic parse never hangs, so the theorem applies to every message the
    syntactic parser accepts -/
theorem C19_parse_decided (b : ABuf) :
    (∃ h, coapParse .syntactic (fuelFor b) b = .ok h) ∨ coapParse .syntactic (fuelFor b) b = .error .parserError :=
  coapParse_total .syntactic (fuelFor b) b (by unfold fuelFor; omega)

/-- one option, every range: delta / length < 13, 13..268 (8-bit extension), ≥ 269 (16-bit extension), including
    the boundaries 12/13 and 268/269, empty and non-empty values -/
theorem C19_option (ob : ABuf) (hs : ob.side = .left) (hoff : (optionHeader ob).off ≤ ob.length)
    (hd15 : (optionHeader ob).delta.value ≠ 15) (hl15 : (optionHeader ob).len.value ≠ 15) :
    encodeOption (optTotal (optionHeader ob).delta.value (optionHeader ob).deltaExt.value) (optionHeader ob).value
      = .ok (synPairs (optionHeader ob)) :=
  encode_option ob hs hoff hd15 hl15

/-- every option number, known to the library or not, survives the trip through its semantic field id -/
theorem C19_field_id (index : Nat) (ln : Option Nat) :
    optionNumber (semFid index) ln = .ok index ∧ coapFixedIds.contains (semFid index) = false :=
  semFid_number index ln

/-- boundary arithmetic of RFC 7252 §3.1 as re-encoded by `unparse` -/
theorem C19_boundaries :
    nibbleOf 12 = 12 ∧ nibbleOf 13 = 13 ∧ nibbleOf 268 = 13 ∧ nibbleOf 269 = 14 ∧
    optTotal 13 0 = 13 ∧ optTotal 13 255 = 268 ∧ optTotal 14 0 = 269 ∧ optTotal 14 65535 = 65804 := by decide

instance (ps : List (String × ABuf)) : Decidable (WfNibbles ps) := by unfold WfNibbles; infer_instance

/-- non-vacuity: GET with Uri-Path "ab" (delta 11), an unknown option 24 (delta 13 through the 8-bit extension,
    ext = 0, empty value) and a payload; the hypotheses hold and both sides are computed -/
example :
    let b : ABuf := ABuf.ofBytes [0x40, 0x01, 0x12, 0x34, 0xb2, 0x61, 0x62, 0xd0, 0x00, 0xff, 0x99] 88 .left
    b.side = .left ∧
    ((coapParse .syntactic (fuelFor b) b).map fun hs => (decide (WfNibbles (pairs hs.fields)), hs.length, (pairs hs.fields).length)) =
      .ok (true, 80, 5 + 3 + 3 + 1) ∧
    ((coapParse .semantic (fuelFor b) b).map (fun h => h.fields.map (·.id))) =
      .ok ["CoAP:Version", "CoAP:Type", "CoAP:Token Length", "CoAP:Code", "CoAP:Message ID", "CoAP:Option Uri-Path",
           "CoAPFields.OPTION_UNKNOWN(24)", "CoAP:Payload Marker"] := by
  refine ⟨rfl, by decide +kernel, by decide +kernel⟩

/-- the exclusion is needed: the library reads a length nibble 15 literally (15 bytes), and `unparse` re-encodes
    15 as 13 + extension — outside what RFC 7252 can encode, outside the property -/
example :
    let b : ABuf := ABuf.ofBytes ([0x40, 0x01, 0x12, 0x34, 0x1f] ++ List.replicate 15 0x41) 160 .left
    (do let hm ← coapParse .semantic (fuelFor b) b
        let u ← coapUnparse .semantic (pairs hm.fields)
        let hs ← coapParse .syntactic (fuelFor b) b
        pure (u == pairs hs.fields)) = .ok false := by decide +kernel

end Schc
