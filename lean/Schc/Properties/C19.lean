/-
C19 — CoAP semantic option view is a lossless re-encoding of the options.

Model: `coapParse` (both option modes; the option walk of `_parse_options` with its cursor, occurrence counters,
running option number and the `option_delta_extended` variable that survives iterations) and `coapUnparse`
(`CoAPParser.unparse`: name → number through the tables read from coap.py, the `OPTION_UNKNOWN(n)` regex, delta /
length nibbles, extended fields with `to_bytes` overflow). Messages are LEFT-padded Buffers (what `Buffer(bytes)`
gives); the theorem is for every such message of any length, any number of options, any option numbers, deltas
and value lengths, with or without payload — the only requirement is that no option uses the reserved nibble 15
(RFC 7252 §3.1: "reserved for the payload marker / message format error"), which is exactly what "can encode"
means in the property.
-/
import Schc.Proofs.CoapSemantic
import Schc.Proofs.UnparseStack
import Schc.Proofs.UnparseCompute
import Schc.Proofs.Recipe

namespace Schc

/-- the property: semantic parse, then un-parse = the syntactic (id, value) sequence; the two parses succeed
    together and cover the same bytes -/
theorem C19_lossless (fuel : Nat) (b : ABuf) (hside : b.side = .left) (hs : Header)
    (h : coapParse .syntactic fuel b = .ok hs) (hwf : WfNibbles (pairs hs.fields)) :
    ∃ hm, coapParse .semantic fuel b = .ok hm ∧ hm.length = hs.length ∧
      coapUnparse .semantic (pairs hm.fields) = .ok (pairs hs.fields) :=
  coap_semantic_lossless fuel b hside hs h hwf

/-- with enough fuel (`fuelFor`) the syntactic parse never hangs, so the theorem applies to every message the
    syntactic parser accepts -/
theorem C19_parse_decided (b : ABuf) :
    (∃ h, coapParse .syntactic (fuelFor b) b = .ok h) ∨ coapParse .syntactic (fuelFor b) b = .error .parserError :=
  coapParse_total .syntactic (fuelFor b) b (by unfold fuelFor; omega)

/-- one option, every range: delta / length < 13, 13..268 (8-bit extension), ≥ 269 (16-bit extension), including
    the boundaries 12/13 and 268/269, empty and non-empty values -/
theorem C19_option (ob : ABuf) (hs : ob.side = .left) (hoff : (optionHeader ob).off ≤ ob.length)
    (hd15 : (optionHeader ob).delta.value ≠ 15) (hl15 : (optionHeader ob).len.value ≠ 15) :
    encodeOption (optTotal (optionHeader ob).delta.value (optionHeader ob).deltaExt.value) (optionHeader ob).value
      = .ok (synPairs (optionHeader ob)) :=
  encode_option ob hs hoff hd15 hl15

/-- every option number, known to the library or not, survives the trip through its semantic field id -/
theorem C19_field_id (index : Nat) (ln : Option Nat) :
    optionNumber (semFid index) ln = .ok index ∧ coapFixedIds.contains (semFid index) = false :=
  semFid_number index ln

/-- boundary arithmetic of RFC 7252 §3.1 as re-encoded by `unparse` -/
theorem C19_boundaries :
    nibbleOf 12 = 12 ∧ nibbleOf 13 = 13 ∧ nibbleOf 268 = 13 ∧ nibbleOf 269 = 14 ∧
    optTotal 13 0 = 13 ∧ optTotal 13 255 = 268 ∧ optTotal 14 0 = 269 ∧ optTotal 14 65535 = 65804 := by decide

instance (ps : List (String × ABuf)) : Decidable (WfNibbles ps) := by unfold WfNibbles; infer_instance

/-- non-vacuity: GET with Uri-Path "ab" (delta 11), an unknown option 24 (delta 13 through the 8-bit extension,
    ext = 0, empty value) and a payload; the hypotheses hold and both sides are computed -/
example :
    let b : ABuf := ABuf.ofBytes [0x40, 0x01, 0x12, 0x34, 0xb2, 0x61, 0x62, 0xd0, 0x00, 0xff, 0x99] 88 .left
    b.side = .left ∧
    ((coapParse .syntactic (fuelFor b) b).map fun hs => (decide (WfNibbles (pairs hs.fields)), hs.length, (pairs hs.fields).length)) =
      .ok (true, 80, 5 + 3 + 3 + 1) ∧
    ((coapParse .semantic (fuelFor b) b).map (fun h => h.fields.map (·.id))) =
      .ok ["CoAP:Version", "CoAP:Type", "CoAP:Token Length", "CoAP:Code", "CoAP:Message ID", "CoAP:Option Uri-Path",
           "CoAPFields.OPTION_UNKNOWN(24)", "CoAP:Payload Marker"] := by
  refine ⟨rfl, by decide +kernel, by decide +kernel⟩

/-- the exclusion is needed: the library reads a length nibble 15 literally (15 bytes), and `unparse` re-encodes
    15 as 13 + extension — outside what RFC 7252 can encode, outside the property -/
example :
    let b : ABuf := ABuf.ofBytes ([0x40, 0x01, 0x12, 0x34, 0x1f] ++ List.replicate 15 0x41) 160 .left
    (do let hm ← coapParse .semantic (fuelFor b) b
        let u ← coapUnparse .semantic (pairs hm.fields)
        let hs ← coapParse .syntactic (fuelFor b) b
        pure (u == pairs hs.fields)) = .ok false := by decide +kernel

/-! ### through `PacketParser.unparse` and `decompress(…, unparser=…)` -/

/-- the stack level: on IP / UDP / CoAP with the options in semantic mode the stack parser accepts what the syntactic
    stack accepts and cuts the same payload, and `PacketParser.unparse` — which hands each header parser the fields
    whose id contains its name and lets the rest (the payload) follow — turns its fields back into the syntactic field
    sequence. Every option number (named or `OPTION_UNKNOWN(n)`), any number of options. -/
theorem C19_stack_unparse {ip : ParserInst} {name : String} {layout : Layout} (hip : IsIp ip name layout)
    (udp : ParserInst) (hu : udp.cls = "UDPParser") (hunp : udp.predict = false)
    (cs : ParserInst) (hc : cs.cls = "CoAPParser") (hsem : cs.coapMode = .semantic)
    (fuel : Nat) (b : ABuf) (hside : b.side = .left) (h1 h2 hs : Header)
    (hp1 : runParser fuel ip b = .ok h1) (hp2 : runParser fuel udp (b.from_ h1.length) = .ok h2)
    (hp3 : coapParse .syntactic fuel ((b.from_ h1.length).from_ h2.length) = .ok hs) (hwf : WfNibbles (pairs hs.fields)) :
    ∃ hm : Header,
      packetParse fuel [ip, udp, cs] b =
        .ok ⟨.dw, h1.fields ++ h2.fields ++ hm.fields, ((b.from_ h1.length).from_ h2.length).from_ hs.length, b⟩ ∧
      ∀ pl : ABuf, packetUnparse [ip, udp, cs] (pairs (h1.fields ++ h2.fields ++ hm.fields) ++ [(Gen.payloadId, pl)]) =
        .ok (pairs (h1.fields ++ h2.fields ++ hs.fields) ++ [(Gen.payloadId, pl)]) :=
  unparse_semantic_stack hip udp hu hunp cs hc hsem fuel b hside h1 h2 hs hp1 hp2 hp3 hwf

/-- … so a packet parsed by the semantic stack, compressed with any rule of lossless pairings that fit its (semantic)
    fields, and decompressed with the parser as unparser, is the original packet, bit for bit -/
theorem C19_stack_roundtrip {ip : ParserInst} {name : String} {layout : Layout} (hip : IsIp ip name layout) (hipm : ip.coapMode = .syntactic)
    (udp : ParserInst) (hu : udp.cls = "UDPParser") (hunp : udp.predict = false) (hum : udp.coapMode = .syntactic)
    (cs : ParserInst) (hc : cs.cls = "CoAPParser") (hsem : cs.coapMode = .semantic)
    (fuel : Nat) (b : ABuf) (hside : b.side = .left) (h1 h2 hs : Header)
    (hp1 : runParser fuel ip b = .ok h1) (hp2 : runParser fuel udp (b.from_ h1.length) = .ok h2)
    (hp3 : coapParse .syntactic fuel ((b.from_ h1.length).from_ h2.length) = .ok hs) (hwf : WfNibbles (pairs hs.fields))
    (d : Dir) (r : Rule) (hn : r.nature = .compression) (hdir : ∀ rf ∈ r.fields, Spec.dirApplies d rf.dir = true) :
    ∃ pm : Packet, packetParse fuel [ip, udp, cs] b = .ok pm ∧
      (Spec.applicable { pm with dir := d } r = true → AllFits pm.fields r.fields →
        ∃ c, compress { pm with dir := d } r = .ok c ∧ decompressU c r (some [ip, udp, cs]) none = .ok ⟨b.bits, .right⟩) := by
  obtain ⟨hm, hpp, hun⟩ := unparse_semantic_stack hip udp hu hunp cs hc hsem fuel b hside h1 h2 hs hp1 hp2 hp3 hwf
  refine ⟨_, hpp, ?_⟩
  intro happ hfit
  obtain ⟨c, hc1, hc2⟩ := roundtrip_unparser { (⟨.dw, h1.fields ++ h2.fields ++ hm.fields, ((b.from_ h1.length).from_ h2.length).from_ hs.length, b⟩ : Packet) with dir := d }
    r hn hdir happ hfit [ip, udp, cs] _ (hun _)
  refine ⟨c, hc1, ?_⟩
  rw [hc2]
  congr 2
  obtain ⟨t1, l1⟩ := runParser_tiles fuel ip hipm b h1 hp1
  obtain ⟨t2, l2⟩ := runParser_tiles fuel udp hum _ h2 hp2
  obtain ⟨t3, l3⟩ := coapParse_tiles fuel _ hs hp3
  have e : (strip (pairs (h1.fields ++ h2.fields ++ hs.fields) ++ [(Gen.payloadId, ((b.from_ h1.length).from_ h2.length).from_ hs.length)])).flatMap (·.2)
      = fbits h1.fields ++ fbits h2.fields ++ fbits hs.fields ++ (((b.from_ h1.length).from_ h2.length).from_ hs.length).bits := by
    simp [strip, pairs, fbits, List.flatMap_map, List.flatMap_append]
  rw [e, t1, t2, t3]
  simp only [ABuf.from_, List.append_assoc, List.take_append_drop]

/-- … and with compute fields: the rule may also mark IPv6 payload length, UDP length and UDP checksum as *compute*
    (any subset). `decompress` un-parses first and computes afterwards (fix 858b849), so the lengths and the checksum
    are regenerated over the re-encoded options; for packets in which those fields are what RFC 8200 / RFC 768
    prescribe (`Valid6`, stated on the packet's own syntactic fields) the packet comes back bit for bit. -/
theorem C19_stack_roundtrip_compute
    (ip : ParserInst) (hi6 : ip.cls = "IPv6Parser") (hinp : ip.predict = false) (hipm : ip.coapMode = .syntactic)
    (udp : ParserInst) (hu : udp.cls = "UDPParser") (hunp : udp.predict = false) (hum : udp.coapMode = .syntactic)
    (cs : ParserInst) (hc : cs.cls = "CoAPParser") (hsem : cs.coapMode = .semantic)
    (fuel : Nat) (b : ABuf) (hside : b.side = .left) (h1 h2 hs : Header)
    (hp1 : runParser fuel ip b = .ok h1) (hp2 : runParser fuel udp (b.from_ h1.length) = .ok h2)
    (hp3 : coapParse .syntactic fuel ((b.from_ h1.length).from_ h2.length) = .ok hs) (hwf : WfNibbles (pairs hs.fields))
    (d : Dir) (r : Rule) (rf12 restR : List RuleField) (hr : r.fields = rf12 ++ restR) (h12r : rf12.length = 12)
    (hn : r.nature = .compression) (hdir : ∀ rf ∈ r.fields, Spec.dirApplies d rf.dir = true)
    (hncR : ∀ rf ∈ restR, rf.cda ≠ .compute) :
    ∃ pm : Packet, packetParse fuel [ip, udp, cs] b = .ok pm ∧
      (Spec.applicable { pm with dir := d } r = true → AllFitsC pm.fields r.fields →
        Valid6 (fv (h1.fields ++ h2.fields) 3) (fv (h1.fields ++ h2.fields) 6) (fv (h1.fields ++ h2.fields) 7)
          (fv (h1.fields ++ h2.fields) 8) (fv (h1.fields ++ h2.fields) 9) (fv (h1.fields ++ h2.fields) 10) (fv (h1.fields ++ h2.fields) 11)
          (pairs hs.fields ++ [(Gen.payloadId, pm.payload)]) →
        ∃ c, compress { pm with dir := d } r = .ok c ∧ decompressU c r (some [ip, udp, cs]) none = .ok ⟨b.bits, .right⟩) :=
  roundtrip_ipv6_udp_coap_semantic ip hi6 hinp hipm udp hu hunp hum cs hc hsem fuel b hside h1 h2 hs hp1 hp2 hp3 hwf d r rf12 restR hr h12r hn hdir hncR

/-- the IPv4 / UDP / CoAP-semantic variant: total length, header checksum, UDP length and UDP checksum may be compute (any
    subset); the header checksum is computed after the total length and the UDP checksum after the UDP length, over the
    re-encoded options -/
theorem C19_stack_roundtrip_compute4
    (ip : ParserInst) (hi4 : ip.cls = "IPv4Parser") (hinp : ip.predict = false) (hipm : ip.coapMode = .syntactic)
    (udp : ParserInst) (hu : udp.cls = "UDPParser") (hunp : udp.predict = false) (hum : udp.coapMode = .syntactic)
    (cs : ParserInst) (hc : cs.cls = "CoAPParser") (hsem : cs.coapMode = .semantic)
    (fuel : Nat) (b : ABuf) (hside : b.side = .left) (h1 h2 hs : Header)
    (hp1 : runParser fuel ip b = .ok h1) (hp2 : runParser fuel udp (b.from_ h1.length) = .ok h2)
    (hp3 : coapParse .syntactic fuel ((b.from_ h1.length).from_ h2.length) = .ok hs) (hwf : WfNibbles (pairs hs.fields))
    (d : Dir) (r : Rule) (rf16 restR : List RuleField) (hr : r.fields = rf16 ++ restR) (h16r : rf16.length = 16)
    (hn : r.nature = .compression) (hdir : ∀ rf ∈ r.fields, Spec.dirApplies d rf.dir = true)
    (hncR : ∀ rf ∈ restR, rf.cda ≠ .compute) :
    ∃ pm : Packet, packetParse fuel [ip, udp, cs] b = .ok pm ∧
      (Spec.applicable { pm with dir := d } r = true → AllFitsC pm.fields r.fields →
        Valid4 (fv (h1.fields ++ h2.fields) 0) (fv (h1.fields ++ h2.fields) 1) (fv (h1.fields ++ h2.fields) 2) (fv (h1.fields ++ h2.fields) 3) (fv (h1.fields ++ h2.fields) 4) (fv (h1.fields ++ h2.fields) 5) (fv (h1.fields ++ h2.fields) 6) (fv (h1.fields ++ h2.fields) 7) (fv (h1.fields ++ h2.fields) 8) (fv (h1.fields ++ h2.fields) 9) (fv (h1.fields ++ h2.fields) 10) (fv (h1.fields ++ h2.fields) 11) (fv (h1.fields ++ h2.fields) 12) (fv (h1.fields ++ h2.fields) 13) (fv (h1.fields ++ h2.fields) 14) (fv (h1.fields ++ h2.fields) 15)
          (pairs hs.fields ++ [(Gen.payloadId, pm.payload)]) →
        ∃ c, compress { pm with dir := d } r = .ok c ∧ decompressU c r (some [ip, udp, cs]) none = .ok ⟨b.bits, .right⟩) :=
  roundtrip_ipv4_udp_coap_semantic ip hi4 hinp hipm udp hu hunp hum cs hc hsem fuel b hside h1 h2 hs hp1 hp2 hp3 hwf d r rf16 restR hr h16r hn hdir hncR

/-- the CoAP parser alone as a one-header stack, options in semantic mode -/
theorem C19_single_unparse (cs : ParserInst) (hc : cs.cls = "CoAPParser") (hsem : cs.coapMode = .semantic)
    (fuel : Nat) (b : ABuf) (hside : b.side = .left) (hs : Header)
    (hp3 : coapParse .syntactic fuel b = .ok hs) (hwf : WfNibbles (pairs hs.fields)) :
    ∃ hm : Header,
      packetParse fuel [cs] b = .ok ⟨.dw, hm.fields, b.from_ hs.length, b⟩ ∧
      ∀ pl : ABuf, packetUnparse [cs] (pairs hm.fields ++ [(Gen.payloadId, pl)]) = .ok (pairs hs.fields ++ [(Gen.payloadId, pl)]) :=
  unparse_semantic_single cs hc hsem fuel b hside hs hp3 hwf

/-- the dispatch of `PacketParser.unparse` in general — any number of header parsers, header classes repeated or not,
    CoAP parsers in either mode: a field list made of one run per parser of the stack (every field of a run carries that
    parser's name, the field right after it does not), followed by anything, is un-parsed run by run with each parser's
    own `unparse`, and what follows is kept -/
theorem C19_unparse_runs (ts : List (ParserInst × String × Compute.Fields)) (fs rest : Compute.Fields)
    (hn : (ts.map (·.1)).mapM parserNameOf = .ok (ts.map (·.2.1))) (h : RunsOf fs ts rest) :
    packetUnparse (ts.map (·.1)) fs = (unparseSegs (ts.map fun t => (t.1, t.2.2))).map (· ++ rest) :=
  packetUnparse_runs ts fs rest hn h

/-- whatever the shape of the stack — a header class listed twice or again after another header (IP in IP, IP in UDP
    in IP), next-header prediction —, as long as no CoAP parser is in semantic mode `PacketParser.unparse` is the
    identity: every field once, in the order given (each parser takes the leading run of fields carrying its name, the
    rest follows; repairs d76d13d and its successor) -/
theorem C19_unparse_identity (ps : List ParserInst) (names : List String) (hn : ps.mapM parserNameOf = .ok names)
    (h : ∀ p ∈ ps, PlainUnparse p) (fs : Compute.Fields) : packetUnparse ps fs = .ok fs :=
  packetUnparse_plain ps names hn h fs

/-- non-vacuity: IPv6 in UDP in IPv6 — both header classes twice, interleaved — comes back in order -/
example :
    let ip : ParserInst := ⟨"IPv6Parser", false, .syntactic⟩
    let udp : ParserInst := ⟨"UDPParser", false, .syntactic⟩
    let v : ABuf := ⟨[false, true, true, false], .left⟩
    packetUnparse [ip, udp, ip, udp] [("IPv6:Version", v), ("UDP:Length", v), ("IPv6:Hop Limit", v), ("UDP:Checksum", v), ("Payload", v)] =
      .ok [("IPv6:Version", v), ("UDP:Length", v), ("IPv6:Hop Limit", v), ("UDP:Checksum", v), ("Payload", v)] := by decide +kernel

/-- the rules the `uroundtrip` correspondence stream derives from a parsed packet — for EVERY recipe string — lie within
    the hypotheses of the round-trip theorems above: compression rules whose descriptors apply to every direction,
    match the packet, and are lossless pairings that fit (compute only on fields with a registered compute function);
    parsed field values are LEFT-padded slices shorter than 64 Kibit -/
theorem C19_recipe_rules_fit (p : Packet) (recipe : String) (rid : ABuf)
    (h : ∀ f ∈ p.fields, f.value.side = .left ∧ f.value.length < 65536) :
    (Drv.recipeRule p.fields recipe rid).nature = .compression ∧
    (∀ rf ∈ (Drv.recipeRule p.fields recipe rid).fields, Spec.dirApplies p.dir rf.dir = true) ∧
    Spec.applicable p (Drv.recipeRule p.fields recipe rid) = true ∧
    AllFitsC p.fields (Drv.recipeRule p.fields recipe rid).fields :=
  recipeRule_ok p recipe rid h

/-- non-vacuity of the stack theorems: IPv6 / UDP / CoAP GET with Uri-Path "a" and payload "abc" -/
example :
    let b : ABuf := ABuf.ofBytes ([0x60, 0, 0, 0, 0, 0x12, 17, 64] ++ List.replicate 15 0 ++ [1] ++ List.replicate 15 0 ++ [2] ++
      [0x03, 0xe8, 0x16, 0x33, 0x00, 0x12, 0x80, 0x50, 0x40, 0x01, 0x12, 0x34, 0xb1, 0x61, 0xff, 0x61, 0x62, 0x63]) 464 .left
    let ip : ParserInst := ⟨"IPv6Parser", false, .syntactic⟩
    let udp : ParserInst := ⟨"UDPParser", false, .syntactic⟩
    (do let h1 ← runParser (fuelFor b) ip b
        let h2 ← runParser (fuelFor b) udp (b.from_ h1.length)
        let hs ← coapParse .syntactic (fuelFor b) ((b.from_ h1.length).from_ h2.length)
        pure (decide (WfNibbles (pairs hs.fields)), h1.length, h2.length, hs.length)) = .ok (true, 320, 64, 56) := by decide +kernel

/-- non-vacuity of `Valid6` in `C19_stack_roundtrip_compute`: the same packet (::1 → ::2, ports 1000 → 5683, UDP length 18,
    checksum 0x8050), its CoAP part as the syntactic fields + payload "abc" -/
example :
    let R (w v : Nat) : ABuf := ⟨Bits.ofNat w v, .right⟩
    let L (w v : Nat) : ABuf := ⟨Bits.ofNat w v, .left⟩
    Valid6 (R 16 18) (R 128 1) (R 128 2) (R 16 1000) (R 16 5683) (R 16 18) (R 16 0x8050)
      [(Gen.CoAPF.VERSION, L 2 1), (Gen.CoAPF.TYPE, L 2 0), (Gen.CoAPF.TOKEN_LENGTH, L 4 0), (Gen.CoAPF.CODE, L 8 1),
       (Gen.CoAPF.MESSAGE_ID, L 16 0x1234), (Gen.CoAPF.OPTION_DELTA, L 4 11), (Gen.CoAPF.OPTION_LENGTH, L 4 1),
       (Gen.CoAPF.OPTION_VALUE, L 8 0x61), (Gen.CoAPF.PAYLOAD_MARKER, L 8 0xff), (Gen.payloadId, L 24 0x616263)] := by
  refine ⟨by decide +kernel, by decide +kernel, by decide +kernel, by decide +kernel, by decide +kernel, ⟨ABuf.ofNat 16 0x8050, by decide +kernel, by decide +kernel⟩⟩

end Schc
