/-
C10 — Rule selection: FIRST takes the first matching rule, BEST the shortest result.
(`managerCompressPacket` is `ContextManager.compress` after parsing; `p'` is the packet with the caller's direction;
`compressD p r (some d)` is `compress(packet, rule, direction=d)`: the rule's descriptors that apply to `d`.)
-/
import Schc.Proofs.Select

namespace Schc

/-- FIRST compresses with the first rule of the set, in order, that applies to the packet; without one it raises
    the rule-match error -/
theorem C10_first (rules : List Rule) (p : Packet) (d : Dir) (h : ∀ r ∈ rules, RuleTypeOK r) :
    managerCompressPacket rules p d .first =
      match rules.find? (Spec.applicable { p with dir := d }) with
      | some r => compressD { p with dir := d } r (some d)
      | none => .error .ruleDescriptorMatchError :=
  first_spec rules p d h

/-- BEST returns the output of an applicable rule … -/
theorem C10_best_member (rules : List Rule) (p : Packet) (d : Dir) (h : ∀ r ∈ rules, RuleTypeOK r) (c : ABuf)
    (hc : managerCompressPacket rules p d .best = .ok c) :
    ∃ r ∈ rules, Spec.applicable { p with dir := d } r = true ∧ compressD { p with dir := d } r (some d) = .ok c := by
  rw [best_spec] at hc
  cases hb : bestLoop { p with dir := d } rules none with
  | error e => simp [hb] at hc
  | ok res =>
    cases res with
    | none => simp [hb] at hc
    | some c' =>
      simp only [hb, Except.ok.injEq] at hc; subst hc
      rcases (bestLoop_spec _ rules none h _ hb).1 c' rfl with h1 | h1
      · cases h1
      · exact h1

/-- … and no applicable rule produces a shorter one -/
theorem C10_best_min (rules : List Rule) (p : Packet) (d : Dir) (h : ∀ r ∈ rules, RuleTypeOK r) (c : ABuf)
    (hc : managerCompressPacket rules p d .best = .ok c) (r : Rule) (hr : r ∈ rules)
    (ha : Spec.applicable { p with dir := d } r = true) :
    ∃ o, compressD { p with dir := d } r (some d) = .ok o ∧ c.length ≤ o.length := by
  rw [best_spec] at hc
  cases hb : bestLoop { p with dir := d } rules none with
  | error e => simp [hb] at hc
  | ok res =>
    obtain ⟨c', o, h1, h2, h3⟩ := (bestLoop_spec _ rules none h _ hb).2.2 r hr ha
    subst h1
    simp only [hb, Except.ok.injEq] at hc; subst hc
    exact ⟨o, h2, h3⟩

/-- so BEST is never longer than FIRST -/
theorem C10_best_le_first (rules : List Rule) (p : Packet) (d : Dir) (h : ∀ r ∈ rules, RuleTypeOK r) (f b : ABuf)
    (hf : managerCompressPacket rules p d .first = .ok f) (hb : managerCompressPacket rules p d .best = .ok b) :
    b.length ≤ f.length := by
  rw [first_spec rules p d h] at hf
  cases hfind : rules.find? (Spec.applicable { p with dir := d }) with
  | none => simp [hfind] at hf
  | some r =>
    simp only [hfind] at hf
    obtain ⟨o, h1, h2⟩ := C10_best_min rules p d h b hb r (List.mem_of_find?_eq_some hfind) (List.find?_some hfind)
    rw [hf] at h1; cases h1; exact h2

/-- when nothing applies both strategies raise the rule-match error (never StopIteration / None) -/
theorem C10_no_match (rules : List Rule) (p : Packet) (d : Dir) (h : ∀ r ∈ rules, RuleTypeOK r) (st : Strategy)
    (hn : ∀ r ∈ rules, Spec.applicable { p with dir := d } r = false) :
    managerCompressPacket rules p d st = .error .ruleDescriptorMatchError := by
  cases st
  · rw [first_spec rules p d h]
    have : rules.find? (Spec.applicable { p with dir := d }) = none := by
      rw [List.find?_eq_none]; intro r hr; simp [hn r hr]
    rw [this]
  · rw [best_spec]
    obtain ⟨res, hres⟩ := bestLoop_total { p with dir := d } rules none h (fun r hr ha => by rw [hn r hr] at ha; cases ha)
    rw [hres]
    cases res with
    | none => rfl
    | some c =>
      rcases (bestLoop_spec _ rules none h _ hres).1 c rfl with h1 | ⟨r, hr, ha, _⟩
      · cases h1
      · rw [hn r hr] at ha; cases ha

/-- when the rule set ends with a no-compression rule every packet is compressed by both strategies (provided
    each applicable rule can encode it), and BEST's output has at most |default ID| + |packet| bits. The bound is
    not claimed for FIRST: an expanding first rule (variable-length value-sent fields add 4–28 bits each) may
    legitimately be the first matching rule. -/
theorem C10_default (rs : List Rule) (dflt : Rule) (p : Packet) (d : Dir) (h : ∀ r ∈ rs ++ [dflt], RuleTypeOK r)
    (hd : dflt.nature = .noCompression)
    (hc : ∀ r ∈ rs ++ [dflt], Spec.applicable { p with dir := d } r = true → ∃ o, compressD { p with dir := d } r (some d) = .ok o) :
    (∃ f, managerCompressPacket (rs ++ [dflt]) p d .first = .ok f) ∧
    (∃ b, managerCompressPacket (rs ++ [dflt]) p d .best = .ok b ∧
      b.length ≤ dflt.id.length + (p.fields.flatMap (·.value.bits)).length + p.payload.length) := by
  have hda : Spec.applicable { p with dir := d } dflt = true := by unfold Spec.applicable; rw [hd]
  have hmem : dflt ∈ rs ++ [dflt] := by simp
  constructor
  · rw [first_spec _ p d h]
    cases hfind : (rs ++ [dflt]).find? (Spec.applicable { p with dir := d }) with
    | none => rw [List.find?_eq_none] at hfind; exact absurd hda (hfind dflt hmem)
    | some r => exact hc r (List.mem_of_find?_eq_some hfind) (List.find?_some hfind)
  · obtain ⟨res, hres⟩ := bestLoop_total { p with dir := d } (rs ++ [dflt]) none h hc
    obtain ⟨c, o, h1, h2, h3⟩ := (bestLoop_spec _ _ none h _ hres).2.2 dflt hmem hda
    subst h1
    refine ⟨c, by rw [best_spec, hres], ?_⟩
    have ho : o = ⟨dflt.id.bits ++ p.fields.flatMap (·.value.bits) ++ p.payload.bits, .right⟩ := by
      have := C02_nocompression' { p with dir := d } (restrict dflt d) hd
      have h2' : compress { p with dir := d } (restrict dflt d) = .ok o := h2
      rw [h2'] at this; cases this; rfl
    rw [ho] at h3
    simpa [ABuf.length, Nat.add_assoc] using h3

/-- non-vacuity: a generic rule before a better one; FIRST and BEST differ, BEST is shorter -/
example :
    let p : Packet := ⟨.dw, [⟨"a", ⟨[true, false, true, true], .left⟩, 0⟩], ⟨[false], .left⟩, ⟨[], .left⟩⟩
    let r1 : Rule := ⟨⟨[false], .left⟩, .compression, [⟨"a", 4, 0, .bi, .buf ⟨[], .left⟩, .ignore, .valueSent⟩]⟩
    let r2 : Rule := ⟨⟨[true, false], .left⟩, .compression, [⟨"a", 4, 0, .bi, .buf ⟨[true, false, true, true], .left⟩, .equal, .notSent⟩]⟩
    managerCompressPacket [r1, r2] p .up .first = .ok ⟨[false, true, false, true, true, false], .right⟩ ∧
    managerCompressPacket [r1, r2] p .up .best = .ok ⟨[true, false, false], .right⟩ := by decide

end Schc
