/-
C14 — Parsers terminate on any input and reject bad input only with ParserError.

In the model every data-dependent walk (CoAP options, SCTP chunks and parameters) takes fuel and answers `hang`
when it runs out; a model function answers any other `PyErr` where the Python would raise that exception.
"Terminates promptly and raises nothing but ParserError" is therefore: with the linear fuel the parsers are
given (`fuelFor b = |b| + 2`), the result is `ok _` or `error parserError` — for EVERY bit string.
-/
import Schc.Proofs.ParseTotal

namespace Schc

/-- every parser configuration the library offers (explicit stacks IPv6-UDP-CoAP and IPv4-UDP-CoAP; single-protocol
    parsers with next-protocol prediction IPv4, IPv6, UDP, CoAP, SCTP), every buffer of any length and alignment:
    a packet descriptor or the parser error — no hang, no index / type / key / overflow error -/
theorem C14_total (cfg : String) (hcfg : cfg ∈ supportedConfigs) (b : ABuf) :
    ∃ ps, factory cfg = .ok ps ∧ ((∃ p, packetParse (fuelFor b) ps b = .ok p) ∨ packetParse (fuelFor b) ps b = .error .parserError) := by
  obtain ⟨ps, h1, h2⟩ := factory_known cfg hcfg
  exact ⟨ps, h1, packetParse_total ps b h2⟩

/-- … and every stack a caller builds by hand from the library's header parsers — any number of them, in any order,
    classes repeated, with or without prediction, CoAP in either option mode -/
theorem C14_any_stack (ps : List ParserInst) (hk : ∀ p ∈ ps, KnownParser p) (b : ABuf) :
    (∃ p, packetParse (fuelFor b) ps b = .ok p) ∨ packetParse (fuelFor b) ps b = .error .parserError :=
  packetParse_total ps b hk

/-- each header parser on its own, with or without prediction, CoAP in either option mode -/
theorem C14_header (p : ParserInst) (hk : KnownParser p) (b : ABuf) :
    (∃ h, runParser (fuelFor b) p b = .ok h) ∨ runParser (fuelFor b) p b = .error .parserError :=
  runParser_total (fuelFor b) p b hk (by simp [fuelFor])

/-- the CoAP option walk makes progress: each iteration consumes at least 8 bits and never overruns the buffer -/
theorem C14_coap_progress (buffer : ABuf) (mode : CoapMode) (st st' : OptState) (h : optionStep buffer mode st = .ok (some st')) :
    st.cursor + 8 ≤ st'.cursor ∧ st'.cursor ≤ buffer.length := by
  obtain ⟨h1, h2, h3⟩ := optionStep_progress buffer mode st st' h
  have := optionHeader_off_ge (buffer.from_ st.cursor)
  rw [from_length] at h3
  omega

/-- each SCTP chunk and parameter consumes at least 32 bits (lengths below 4 are rejected) -/
theorem C14_sctp_progress (fuel : Nat) (b : ABuf) (fs : List Field) (c : Nat) (h : sctpChunk fuel b = .ok (fs, c)) (hf : b.length < 32 * fuel) : 32 ≤ c := by
  rcases sctpChunk_spec fuel b hf with ⟨fs', c', h1, h2⟩ | h1
  · rw [h] at h1; cases h1; exact h2
  · rw [h] at h1; cases h1

/-- the registry tables regenerated from the source: every next-protocol number a parser chains on has a registered parser -/
theorem C14_registry :
    (∀ p ∈ Gen.udpNextProtocols, parserName p = some "CoAPParser" ∨ parserName p = some "SCTPParser") ∧
    (∀ p ∈ Gen.ipv4NextProtocols ++ Gen.ipv6NextProtocols, parserName p = some "UDPParser" ∨ parserName p = some "SCTPParser" ∨ parserName p = some "CoAPParser") :=
  ⟨udp_next_registered, ip_next_registered⟩

/-- non-vacuity: a zero-length SCTP chunk, a truncated CoAP option and a 3-bit buffer are rejected with the parser error -/
example :
    sctpParse 200 ⟨List.replicate 96 false ++ Bits.ofNat 32 0x0e000000, .left⟩ = .error .parserError ∧
    coapParse .syntactic 100 ⟨Bits.ofNat 32 0x40011234 ++ Bits.ofNat 8 0xb5 ++ Bits.ofNat 16 0xaabb, .left⟩ = .error .parserError ∧
    ((factory "IPv6-UDP-CoAP").bind fun ps => packetParse 5 ps ⟨[true, false, true], .left⟩) = .error .parserError := by
  decide +kernel

end Schc
