/-
C03 — Decompress rebuilds the packet from any well-formed SCHC packet.
-/
import Schc.Proofs.Decompress2
import Schc.Proofs.SortUnique

namespace Schc

/-- For every rule and every list of values admissible for its descriptors (`AllAdm`: any value-sent /
    LSB size below 2^16, any mapped value of a mapping with prefix-free indices of any widths, zero
    placeholders for compute fields), every payload (empty, unaligned, …) and either padding side of the
    SCHC packet: `decompress` on  rule ID ++ residues ++ payload  — whoever produced it — consumes exactly
    the residues and yields target values / residues / mapped values in rule order, then the payload,
    and then runs the compute functions over that rebuilt list (dependencies first). -/
theorem C03_decompress (r : Rule) (vs : List Bits) (h : AllAdm r.fields vs) (payload : Bits) (side : Pad) :
    ∃ res, residuesV r.fields vs = some res ∧
      decompressToFields ⟨r.id.bits ++ res ++ payload, side⟩ r
        = runComputes (sortEntries (computeEntries r.fields 0)) (assemble r.fields vs ++ [(Gen.payloadId, ⟨payload, side⟩)]) :=
  decompressToFields_spec r vs h payload side

/-- … and "regenerated" does not depend on the sorting algorithm: where `compute_function_sort` orders the rule's compute
    entries consistently (`Rule.orderOk`, tested by the model driver), the compute functions run in the order of ANY
    permutation of the entries that is sorted for the comparator — `list.sort` is only assumed to sort -/
theorem C03_decompress_any_sort (r : Rule) (vs : List Bits) (h : AllAdm r.fields vs) (hok : r.orderOk = true) (payload : Bits) (side : Pad)
    (p : List ComputeEntry) (hp : p.Perm (computeEntries r.fields 0)) (hs : p.Pairwise entryLt) :
    ∃ res, residuesV r.fields vs = some res ∧
      decompressToFields ⟨r.id.bits ++ res ++ payload, side⟩ r
        = runComputes p (assemble r.fields vs ++ [(Gen.payloadId, ⟨payload, side⟩)]) := by
  have hu : p = sortEntries (computeEntries r.fields 0) :=
    sort_unique _ (orderedB_sound _ (by rw [← entriesOf_eq]; exact hok)) (computeEntries_nodup _ _) p hp hs
  rw [hu]
  exact C03_decompress r vs h payload side

/-- without compute fields the result is, bit for bit, the values in rule order followed by the payload (right-padded) -/
theorem C03_decompress_nocompute (r : Rule) (vs : List Bits) (h : AllAdm r.fields vs) (hnc : ∀ rf ∈ r.fields, rf.cda ≠ .compute)
    (payload : Bits) (side : Pad) :
    ∃ res, residuesV r.fields vs = some res ∧
      decompress ⟨r.id.bits ++ res ++ payload, side⟩ r = .ok ⟨vs.flatten ++ payload, .right⟩ :=
  C03_nocompute r vs h hnc payload side

/-- mapping indices are resolved to the mapped value whose index is a prefix of the remaining residue, for any
    prefix-free index set (mixed widths, any dict order) -/
theorem C03_mapping_prefix (rf : RuleField) (fwd : List (ABuf × ABuf)) (hcda : rf.cda = .mappingSent) (htv : rf.tv = .map fwd)
    (hwf : MappingWF fwd) (e : ABuf × ABuf) (he : e ∈ fwd) (rest : Bits) (side : Pad) (pos : Nat) :
    decompressField ⟨e.2.bits ++ rest, side⟩ pos rf = .ok (⟨e.1.bits, .right⟩, e.2.bits.length, none) := by
  have hadm : Adm rf e.1.bits := by unfold Adm; rw [hcda, htv]; exact ⟨hwf, e, he, rfl⟩
  obtain ⟨res, h1, h2⟩ := decompressField_residue rf e.1.bits hadm rest side pos
  have : res = e.2.bits := by
    unfold Spec.residue at h1; rw [hcda, htv] at h1
    simp only [Spec.mappingIndex] at h1
    rw [find_unique fwd _ e he (by simp) (fun x hx hpx => hwf.2.1 x hx e he (by simpa using hpx))] at h1
    simpa using h1.symm
  subst this
  simpa [hcda] using h2

/-- non-vacuity: a rule with a variable-length LSB field and a mapping with mixed-width indices {0, 10, 11} -/
example :
    let m : List (ABuf × ABuf) := [(⟨[true, true], .left⟩, ⟨[true, false], .left⟩), (⟨[false, false], .left⟩, ⟨[false], .right⟩), (⟨[false, true], .left⟩, ⟨[true, true], .left⟩)]
    let r : Rule := ⟨⟨[true], .left⟩, .compression,
      [⟨"a", 0, 0, .bi, .buf ⟨[true], .left⟩, .msb, .lsb⟩, ⟨"b", 2, 0, .bi, .map m, .matchMapping, .mappingSent⟩]⟩
    decompress ⟨[true] ++ ([false, false, true, false] ++ [false, true]) ++ [true, true] ++ [false], .right⟩ r
      = .ok ⟨[true, false, true] ++ [false, true] ++ [false], .right⟩ := by decide

end Schc
