/-
C06 — Buffer shifts, bitwise operators, value() and chunking follow the bit model.

Same refinement shape as C05: each operation of the byte-level model of buffer.py, applied to canonical Buffers,
returns the canonical Buffer of the bit-list operation — for all bit lists, both sides, every shift amount and
chunk size.
-/
import Schc.Proofs.BufChunks
import Schc.Proofs.ChunksTile
import Schc.Proofs.BufBitwise
import Schc.Proofs.BufValue

namespace Schc

/-- `shift(s)`: negative `s` appends `|s|` zero bits, positive `s` drops the last `s` bits (all of them when
    `s ≥ length`), independently of the padding side; `inplace` decides whether the operand becomes the result -/
theorem C06_shift (a : ABuf) (s : Int) (ip : Bool) :
    (Buf.ofABuf a).shift s ip = .ok (Buf.ofABuf (specShift a s), if ip then Buf.ofABuf (specShift a s) else Buf.ofABuf a) :=
  shift_spec a s ip

theorem C06_shift_left_bits (a : ABuf) (s : Nat) (hs : 0 < s) : (specShift a (-(s : Int))).bits = a.bits ++ Bits.zeros s := by
  simp [specShift, hs]

theorem C06_shift_right_bits (a : ABuf) (s : Nat) : (specShift a (s : Int)).bits = a.bits.take (a.bits.length - s) := by
  have : ¬ ((s : Int) < 0) := by omega
  simp [specShift, this]

theorem C06_shift_right_all (a : ABuf) (s : Nat) (h : a.bits.length ≤ s) : (specShift a (s : Int)).bits = [] := by
  rw [C06_shift_right_bits]
  have : a.bits.length - s = 0 := by omega
  rw [this]; rfl

/-- `&`, `|`, `^`: bit-wise over equal-length operands (either sides), ValueError otherwise. (That the right operand
    is left as it was is C16's `C16_pure_and/or/xor`; these statements hold whatever the internal re-padding does
    to it.) -/
theorem C06_and (a b : ABuf) : (Buf.band (Buf.ofABuf a) (Buf.ofABuf b)).map (·.1) =
    if a.bits.length = b.bits.length then .ok (Buf.ofABuf ⟨List.zipWith (· && ·) a.bits b.bits, a.side⟩) else .error .valueError := by
  rw [band_spec, map_fst_ite]

theorem C06_or (a b : ABuf) : (Buf.bor (Buf.ofABuf a) (Buf.ofABuf b)).map (·.1) =
    if a.bits.length = b.bits.length then .ok (Buf.ofABuf ⟨List.zipWith (· || ·) a.bits b.bits, a.side⟩) else .error .valueError := by
  rw [bor_spec, map_fst_ite]

theorem C06_xor (a b : ABuf) : (Buf.bxor (Buf.ofABuf a) (Buf.ofABuf b)).map (·.1) =
    if a.bits.length = b.bits.length then .ok (Buf.ofABuf ⟨List.zipWith (fun x y => x != y) a.bits b.bits, a.side⟩) else .error .valueError := by
  rw [bxor_spec, map_fst_ite]

/-- `~` flips every bit and nothing else -/
theorem C06_invert (a : ABuf) : (Buf.ofABuf a).invert = .ok (Buf.ofABuf ⟨a.bits.map not, a.side⟩) := invert_spec a

/-- `value()` is the unsigned big-endian integer the bits spell (the Buffer being unchanged is `C16_pure_value`) -/
theorem C06_value (a : ABuf) : (Buf.ofABuf a).value.map (·.1) = .ok (Bits.toNat a.bits) := value_val a

/-- `chunks(n, padding)`: consecutive `n`-bit pieces, the last zero-extended when padding is requested -/
theorem C06_chunks (a : ABuf) (n : Nat) (hn : 0 < n) (pad : Bool) :
    Buf.chunks (Buf.ofABuf a) n pad = .ok ((a.chunks n pad).map Buf.ofABuf) := chunks_spec a n hn pad

/-- the pieces are what the property says: `count - 1` full `n`-bit pieces in order, then the remainder
    (zero-extended to `n` bits when padding) -/
theorem C06_chunks_pieces (bits : Bits) (n : Nat) (hn : 0 < n) (pad : Bool) :
    Bits.chunks n pad bits =
      (List.range (chunkCount bits.length n - 1)).map (fun i => (bits.drop (i * n)).take n) ++
        [padIf n pad (bits.drop ((chunkCount bits.length n - 1) * n))] :=
  chunksAux_closed n pad hn bits.length bits (Nat.le_refl _)

/-- `chunks(0)` raises ZeroDivisionError -/
theorem C06_chunks_zero (b : Buf) (pad : Bool) : Buf.chunks b 0 pad = .error .zeroDivision := by
  unfold Buf.chunks; rfl

/-- non-vacuity: right shift of a RIGHT-padded buffer, xor across sides, value, 4-bit chunks with padding -/
example :
    let b : Buf := ⟨[0xb4], 6, .right, 2⟩
    b = Buf.ofABuf ⟨[true, false, true, true, false, true], .right⟩ ∧
    (b.shift 2 false).map (·.1) = .ok ⟨[0xb0], 4, .right, 4⟩ ∧
    (b.shift (-3) false).map (·.1) = .ok ⟨[0xb4, 0x00], 9, .right, 7⟩ ∧
    (Buf.bxor b ⟨[0x3f], 6, .left, 2⟩).map (·.1) = .ok ⟨[0x48], 6, .right, 2⟩ ∧
    b.value.map (·.1) = .ok 0x2d ∧
    b.chunks 4 true = .ok [⟨[0xb0], 4, .right, 4⟩, ⟨[0x40], 4, .right, 4⟩] := by decide

/-- the pieces tile the sequence: without padding their concatenation is the Buffer's bits again, for every chunk size -/
theorem C06_chunks_tile (n : Nat) (bits : Bits) : (Bits.chunks n false bits).flatten = bits := chunks_flatten n bits

/-- with padding every piece has exactly `n` bits, and the pieces spell the bits followed only by zeros -/
theorem C06_chunks_padded (n : Nat) (hn : 0 < n) (bits : Bits) :
    (∀ c ∈ Bits.chunks n true bits, c.length = n) ∧ ∃ k, (Bits.chunks n true bits).flatten = bits ++ Bits.zeros k :=
  chunks_padded n hn bits

/-! ### compositions (results are canonical, so operations chain) -/

/-- `~~b == b` -/
theorem C06_invert_twice (a : ABuf) : (do let x ← (Buf.ofABuf a).invert; x.invert) = .ok (Buf.ofABuf a) := by
  simp only [bind, Except.bind, invert_spec, List.map_map]
  congr 2
  obtain ⟨bits, side⟩ := a
  simp only [ABuf.mk.injEq, and_true]
  have : (not ∘ not) = id := by funext b; cases b <;> rfl
  rw [this, List.map_id]

/-- shifting left by `s` and back right by `s` gives the Buffer back, whatever its side and alignment -/
theorem C06_shift_left_right (a : ABuf) (s : Nat) :
    (do let (x, _) ← (Buf.ofABuf a).shift (-(s : Int)) false
        let (y, _) ← x.shift (s : Int) false
        pure y) = .ok (Buf.ofABuf a) := by
  simp only [bind, Except.bind, shift_spec, pure, Except.pure]
  congr 2
  obtain ⟨bits, side⟩ := a
  unfold specShift
  by_cases h0 : s = 0
  · subst h0; simp
  · have h1 : (-(s : Int)) < 0 := by omega
    have h2 : ¬ ((s : Int) < 0) := by omega
    simp only [h1, h2, if_true, if_false, Int.natAbs_neg, Int.natAbs_natCast, List.length_append, Bits.zeros, List.length_replicate,
      Nat.add_sub_cancel, List.take_left']

end Schc
