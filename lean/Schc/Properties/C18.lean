/-
C18 — Direction indicators select the same field descriptors in all three stages.

Status on the current code: only the MATCHER filters descriptors by direction; `compress` zips the packet with
the whole descriptor list and `decompress` (which has no direction argument) walks the whole list. The
full statement is therefore FALSE of the code for rules that carry a descriptor not applicable to the packet's
direction — `C18_witness` below is the machine-checked counter-example (finding F-C18-1, replayed on the real
code on every run) — and is proved in the `_partial` form whose hypothesis is exactly the complement of that
failure domain.

Full statement (not provable, kept visible):
  theorem C18_same_descriptors (p r) : the descriptors used by matching, compression and decompression of a
    packet of direction d are all  r.fields.filter (fun f => f.dir = d ∨ f.dir = Bi)
-/
import Schc.Proofs.Roundtrip

namespace Schc

/-- stage 1 (matching) does use exactly the descriptors marked d or Bi, in rule order, for every rule -/
theorem C18_matcher (p : Packet) (r : Rule) (hT : RuleTypeOK r) (hn : r.nature = .compression) :
    ruleMatches p r = .ok (let rfs := r.fields.filter (fun f => f.dir == p.dir || f.dir == .bi)
                           p.fields.length == rfs.length && Spec.allMatch p.fields rfs) := by
  rw [ruleMatches_spec p r hT]; unfold Spec.applicable; rw [hn]; rfl

/-- stages 2 and 3 use the same descriptors whenever the direction filter is the identity on the rule (every
    descriptor is d or Bi): such a rule compresses and restores packets of direction d losslessly -/
theorem C18_same_descriptors_partial (p : Packet) (r : Rule) (hn : r.nature = .compression)
    (hdir : ∀ rf ∈ r.fields, Spec.dirApplies p.dir rf.dir = true)
    (happ : Spec.applicable p r = true) (hfit : AllFits p.fields r.fields)
    (hraw : p.raw.bits = p.fields.flatMap (·.value.bits) ++ p.payload.bits) :
    r.fields.filter (fun f => Spec.dirApplies p.dir f.dir) = r.fields ∧
    ∃ c, compress p r = .ok c ∧ decompress c r = .ok ⟨p.raw.bits, .right⟩ :=
  ⟨by rw [List.filter_eq_self]; exact hdir, roundtrip_compression p r hn hdir happ hfit hraw⟩

/-- the counter-example: one field with a Dw descriptor (ignore / value-sent) followed by an Up descriptor
    (equal / not-sent). The rule is offered for the Up packet (its Up descriptor matches), yet `compress` pairs the
    field with the Dw descriptor and sends the value, and `decompress` emits both descriptors' fields: the packet
    comes back doubled. -/
theorem C18_witness :
    let p : Packet := ⟨.up, [⟨"f0", ⟨[true, false, true, false], .left⟩, 0⟩], ⟨[], .left⟩, ⟨[true, false, true, false], .left⟩⟩
    let r : Rule := ⟨⟨[true], .left⟩, .compression,
      [⟨"f0", 4, 0, .dw, .buf ⟨[], .left⟩, .ignore, .valueSent⟩, ⟨"f0", 4, 0, .up, .buf ⟨[true, false, true, false], .left⟩, .equal, .notSent⟩]⟩
    Spec.applicable p r = true ∧ ((compress p r).bind fun s => decompress s r) ≠ .ok ⟨p.raw.bits, .right⟩ := by
  decide

/-- non-vacuity of the partial theorem: a rule whose descriptors are Up or Bi, on an Up packet -/
example :
    let p : Packet := ⟨.up, [⟨"f0", ⟨[true, false, true, false], .left⟩, 0⟩, ⟨"f1", ⟨[true], .left⟩, 0⟩], ⟨[false], .left⟩, ⟨[true, false, true, false, true, false], .left⟩⟩
    let r : Rule := ⟨⟨[true], .left⟩, .compression,
      [⟨"f0", 4, 0, .up, .buf ⟨[true, false], .left⟩, .msb, .lsb⟩, ⟨"f1", 1, 0, .bi, .buf ⟨[], .left⟩, .ignore, .valueSent⟩]⟩
    (∀ rf ∈ r.fields, Spec.dirApplies p.dir rf.dir = true) ∧ ((compress p r).bind fun s => decompress s r) = .ok ⟨p.raw.bits, .right⟩ := by
  decide

end Schc
