/-
C18 — Direction indicators select the same field descriptors in all three stages.

`compress`, `decompress` and `ContextManager.decompress` take the packet's direction (an optional argument; the
manager's `compress` always passes it): with it, all three stages use `restrict r d` — the descriptors marked `d`
or bidirectional, in rule order, the very list the matcher builds. Before the repair (finding F-C18-1, now
`fixed`) only the matcher filtered; `C18_no_direction` records what a caller who omits the argument still gets.
-/
import Schc.Proofs.Direction
import Schc.Proofs.Select

namespace Schc

/-- stage 1 (matching) uses exactly the descriptors marked d or Bi, in rule order, for every rule -/
theorem C18_matcher (p : Packet) (r : Rule) (hT : RuleTypeOK r) (hn : r.nature = .compression) :
    ruleMatches p r = .ok (let rfs := (restrict r p.dir).fields
                           p.fields.length == rfs.length && Spec.allMatch p.fields rfs) := by
  rw [ruleMatches_spec p r hT]; unfold Spec.applicable; rw [hn]; rfl

/-- the descriptors of direction `d`: those marked `d` or bidirectional, in rule order, nothing else -/
theorem C18_descriptors (r : Rule) (d : Dir) :
    (restrict r d).fields = r.fields.filter (fun f => f.dir == d || f.dir == .bi) ∧ (restrict r d).id = r.id ∧ (restrict r d).nature = r.nature :=
  ⟨rfl, rfl, rfl⟩

/-- stages 2 and 3 (compression, decompression) with the direction given run on that same list -/
theorem C18_same_descriptors (p : Packet) (r : Rule) (s : ABuf) (d : Dir) :
    compressD p r (some d) = compress p (restrict r d) ∧ decompressD s r (some d) = decompress s (restrict r d) :=
  ⟨rfl, rfl⟩

/-- the context manager passes the direction to the compressor: what it sends was compressed with the descriptors
    the matcher selected the rule by -/
theorem C18_manager (rules : List Rule) (p : Packet) (d : Dir) (st : Strategy) (hT : ∀ r ∈ rules, RuleTypeOK r) (c : ABuf)
    (hc : managerCompressPacket rules p d st = .ok c) :
    ∃ r ∈ rules, Spec.applicable { p with dir := d } r = true ∧ compress { p with dir := d } (restrict r d) = .ok c :=
  selected_rule rules p d st hT c hc

/-- such a rule therefore compresses and restores uplink and downlink packets losslessly, each with its own
    descriptors: for every rule (any mix of Up, Dw and Bi descriptors, any positions) offered for the packet whose
    descriptors for the packet's direction are lossless pairings that fit -/
theorem C18_roundtrip (p : Packet) (r : Rule) (hn : r.nature = .compression)
    (happ : Spec.applicable p r = true) (hfit : AllFits p.fields (restrict r p.dir).fields)
    (hraw : p.raw.bits = p.fields.flatMap (·.value.bits) ++ p.payload.bits) :
    ∃ c, compressD p r (some p.dir) = .ok c ∧ decompressD c r (some p.dir) = .ok ⟨p.raw.bits, .right⟩ :=
  roundtrip_dir p r hn happ hfit hraw

/-- when every descriptor applies to the direction the argument changes nothing -/
theorem C18_all_apply (r : Rule) (d : Dir) (h : ∀ rf ∈ r.fields, Spec.dirApplies d rf.dir = true) : restrict r d = r :=
  restrict_of_all r d h

/-- the former counter-example of F-C18-1 (one field with a Dw descriptor ignore / value-sent followed by an Up
    descriptor equal / not-sent, an Up packet): with the direction it round-trips, the Up packet elided to the
    rule ID alone, and the same rule serves a Dw packet with the other descriptor -/
theorem C18_witness_repaired :
    let r : Rule := ⟨⟨[true], .left⟩, .compression,
      [⟨"f0", 4, 0, .dw, .buf ⟨[], .left⟩, .ignore, .valueSent⟩, ⟨"f0", 4, 0, .up, .buf ⟨[true, false, true, false], .left⟩, .equal, .notSent⟩]⟩
    let up : Packet := ⟨.up, [⟨"f0", ⟨[true, false, true, false], .left⟩, 0⟩], ⟨[], .left⟩, ⟨[true, false, true, false], .left⟩⟩
    let dw : Packet := ⟨.dw, [⟨"f0", ⟨[false, true, true, false], .left⟩, 0⟩], ⟨[], .left⟩, ⟨[false, true, true, false], .left⟩⟩
    Spec.applicable up r = true ∧ Spec.applicable dw r = true ∧
    compressD up r (some .up) = .ok ⟨[true], .right⟩ ∧ decompressD ⟨[true], .right⟩ r (some .up) = .ok ⟨up.raw.bits, .right⟩ ∧
    compressD dw r (some .dw) = .ok ⟨[true, false, true, true, false], .right⟩ ∧
    decompressD ⟨[true, false, true, true, false], .right⟩ r (some .dw) = .ok ⟨dw.raw.bits, .right⟩ := by
  decide

/-- what a caller who does not pass the direction gets (the argument is optional for compatibility): all
    descriptors, as before the repair — on the same rule the Up packet then comes back doubled. Not a violation of
    the property, which speaks of a packet travelling in a direction `d`; recorded so that the limit is visible. -/
theorem C18_no_direction :
    let r : Rule := ⟨⟨[true], .left⟩, .compression,
      [⟨"f0", 4, 0, .dw, .buf ⟨[], .left⟩, .ignore, .valueSent⟩, ⟨"f0", 4, 0, .up, .buf ⟨[true, false, true, false], .left⟩, .equal, .notSent⟩]⟩
    let up : Packet := ⟨.up, [⟨"f0", ⟨[true, false, true, false], .left⟩, 0⟩], ⟨[], .left⟩, ⟨[true, false, true, false], .left⟩⟩
    ((compressD up r none).bind fun s => decompressD s r none) ≠ .ok ⟨up.raw.bits, .right⟩ := by
  decide

end Schc
