/-
C08 — Parsers cut headers at the field boundaries their RFCs define.

Part proved here: the FIXED layouts. The tables `Schc.Gen.*Layout` are extracted from the parsers' source (AST)
by the translator on every run; each must equal the table written from the RFC (`Schc.Spec.Layouts`), and the
model parsers are interpreters of exactly these tables. Variable parts (CoAP options, SCTP chunk walks,
next-protocol chaining) are tied to the RFC encoders by the `parse` correspondence stream (structured
generators for every delta / length class and every chunk type) — theorems for them are C07 (tiling), C14
(totality) and, for the option arithmetic, C19.
-/
import Schc.Proofs.Fixed

namespace Schc

theorem C08_ipv4_layout : Gen.ipv4Layout = Spec.layoutFrom 0 Spec.rfc791 ∧ Gen.ipv4HeaderLength = 160 ∧ Gen.ipv4MinLength = 160 ∧ Gen.ipv4Version = [4] := by decide
theorem C08_ipv6_layout : Gen.ipv6Layout = Spec.layoutFrom 0 Spec.rfc8200 ∧ Gen.ipv6HeaderLength = 320 ∧ Gen.ipv6MinLength = 320 ∧ Gen.ipv6Version = [6] := by decide
theorem C08_udp_layout : Gen.udpLayout = Spec.layoutFrom 0 Spec.rfc768 ∧ Gen.udpHeaderLength = 64 ∧ Gen.udpMinLength = 64 := by decide
theorem C08_coap_fixed_layout : Gen.coapFixedLayout = Spec.layoutFrom 0 Spec.rfc7252Fixed ∧ Gen.coapMinLength = 32 := by decide
theorem C08_sctp_layouts :
    Gen.sctpCommonLayout = Spec.layoutFrom 0 Spec.rfc9260Common ∧ Gen.sctpMinLength = 96 ∧
    Gen.sctpChunkHeaderLayout = Spec.layoutFrom 0 Spec.rfc9260ChunkHeader ∧
    Gen.sctpDataLayout = Spec.layoutFrom 0 Spec.rfc9260Data ++ [("SCTP:Data Payload", 96, none, 0)] ∧
    Gen.sctpInitLayout = Spec.layoutFrom 0 (Spec.rfc9260Init "SCTP:Init ") ∧
    Gen.sctpInitAckLayout = Spec.layoutFrom 0 (Spec.rfc9260Init "SCTP:Init Ack ") ∧
    Gen.sctpSackLayout = Spec.layoutFrom 0 Spec.rfc9260Sack ∧
    Gen.sctpShutdownLayout = Spec.layoutFrom 0 Spec.rfc9260Shutdown ∧
    Gen.sctpParameterLayout = Spec.layoutFrom 0 Spec.rfc9260Parameter := by
  refine ⟨by decide, by decide, by decide, by decide, by decide, by decide, by decide, by decide, by decide⟩

/-- next-protocol chaining tables: IPv4/IPv6 chain on protocol 17 (UDP) and 132 (SCTP); UDP on port 5683 (CoAP)
    and 132; the explicit stacks are IPv6|IPv4, UDP, CoAP -/
theorem C08_chaining :
    Gen.ipv4NextProtocols = [17, 132] ∧ Gen.ipv6NextProtocols = [17, 132] ∧ Gen.udpNextProtocols = [5683, 132] ∧ Gen.sctpNextProtocols = [] ∧
    Gen.stacks = [("IPv6-UDP-CoAP", [6, 17, 5683]), ("IPv4-UDP-CoAP", [4, 17, 5683])] ∧
    Gen.registeredParsers = [(4, "IPv4Parser"), (6, "IPv6Parser"), (17, "UDPParser"), (132, "SCTPParser"), (5683, "CoAPParser")] := by decide

/-- a fixed-offset parser without prediction returns exactly the RFC's field list: names, order, positions, widths -/
theorem C08_ipv6_fields (fuel : Nat) (b : ABuf) (hl : 320 ≤ b.length) (hv : (b.slice 0 4).content = [6]) :
    ipv6Parse fuel false b = .ok ⟨320, parseFixed (Spec.layoutFrom 0 Spec.rfc8200) b⟩ := by
  unfold ipv6Parse ipParse
  have h1 : ¬ b.length < Gen.ipv6MinLength := by simp [Gen.ipv6MinLength]; omega
  have h2 : ¬ (b.slice 0 4).content ≠ Gen.ipv6Version := by simp [Gen.ipv6Version, hv]
  simp only [h1, h2, if_false, bind, Except.bind, pure, Except.pure, Bool.false_eq_true]
  rw [C08_ipv6_layout.1]; rfl

theorem C08_ipv4_fields (fuel : Nat) (b : ABuf) (hl : 160 ≤ b.length) (hv : (b.slice 0 4).content = [4]) :
    ipv4Parse fuel false b = .ok ⟨160, parseFixed (Spec.layoutFrom 0 Spec.rfc791) b⟩ := by
  unfold ipv4Parse ipParse
  have h1 : ¬ b.length < Gen.ipv4MinLength := by simp [Gen.ipv4MinLength]; omega
  have h2 : ¬ (b.slice 0 4).content ≠ Gen.ipv4Version := by simp [Gen.ipv4Version, hv]
  simp only [h1, h2, if_false, bind, Except.bind, pure, Except.pure, Bool.false_eq_true]
  rw [C08_ipv4_layout.1]; rfl

theorem C08_udp_fields (fuel : Nat) (b : ABuf) (hl : 64 ≤ b.length) :
    udpParse fuel false b = .ok ⟨64, parseFixed (Spec.layoutFrom 0 Spec.rfc768) b⟩ := by
  unfold udpParse
  have h1 : ¬ b.length < Gen.udpMinLength := by simp [Gen.udpMinLength]; omega
  simp only [h1, if_false, bind, Except.bind, pure, Except.pure, Bool.false_eq_true]
  rw [C08_udp_layout.1]; rfl

end Schc
