/-
C08 — Parsers cut headers at the field boundaries their RFCs define.

Proved here:
* the FIXED layouts. The tables `Schc.Gen.*Layout` are extracted from the parsers' source (AST) by the translator
  on every run; each must equal the table written from the RFC (`Schc.Spec.Layouts`), and the model parsers are
  interpreters of exactly these tables;
* the CoAP option walk against RFC 7252 §3.1 written as an encoder (`Schc.Spec.wireOption`): for ANY list of
  options (every delta / length class, empty values, any count) the parser returns exactly the RFC's field list in
  wire order, with occurrence positions, and the right header length (`C08_coap_message`, `C08_coap_positions`).
* the SCTP walks against RFC 9260 §3 written as an encoder (`Schc.Spec.SctpChunk.wire`, `ChunkValue`, `SctpParam`):
  for ANY list of chunks — DATA, INIT, INIT ACK (with any parameter list), SACK (any numbers of gap-ack blocks and
  duplicate TSNs), HEARTBEAT / HEARTBEAT ACK / ABORT / ERROR (parameter lists), SHUTDOWN, the value-less types,
  COOKIE ECHO, and every other type with an opaque value — the parser returns exactly the RFC's field list in wire
  order including chunk and parameter padding (`C08_sctp_packet`, `C08_sctp_chunk`, `C08_sctp_parameters`).
Agreement of the next-protocol-predicting parsers with the explicit stacks is by the chaining tables
(`C08_chaining`) and the `parse` correspondence stream.
-/
import Schc.Proofs.Fixed
import Schc.Proofs.CoapWalk
import Schc.Proofs.SctpWalk
import Schc.Proofs.Predict

namespace Schc

theorem C08_ipv4_layout : Gen.ipv4Layout = Spec.layoutFrom 0 Spec.rfc791 ∧ Gen.ipv4HeaderLength = 160 ∧ Gen.ipv4MinLength = 160 ∧ Gen.ipv4Version = [4] := by decide
theorem C08_ipv6_layout : Gen.ipv6Layout = Spec.layoutFrom 0 Spec.rfc8200 ∧ Gen.ipv6HeaderLength = 320 ∧ Gen.ipv6MinLength = 320 ∧ Gen.ipv6Version = [6] := by decide
theorem C08_udp_layout : Gen.udpLayout = Spec.layoutFrom 0 Spec.rfc768 ∧ Gen.udpHeaderLength = 64 ∧ Gen.udpMinLength = 64 := by decide
theorem C08_coap_fixed_layout : Gen.coapFixedLayout = Spec.layoutFrom 0 Spec.rfc7252Fixed ∧ Gen.coapMinLength = 32 := by decide
theorem C08_sctp_layouts :
    Gen.sctpCommonLayout = Spec.layoutFrom 0 Spec.rfc9260Common ∧ Gen.sctpMinLength = 96 ∧
    Gen.sctpChunkHeaderLayout = Spec.layoutFrom 0 Spec.rfc9260ChunkHeader ∧
    Gen.sctpDataLayout = Spec.layoutFrom 0 Spec.rfc9260Data ++ [("SCTP:Data Payload", 96, none, 0)] ∧
    Gen.sctpInitLayout = Spec.layoutFrom 0 (Spec.rfc9260Init "SCTP:Init ") ∧
    Gen.sctpInitAckLayout = Spec.layoutFrom 0 (Spec.rfc9260Init "SCTP:Init Ack ") ∧
    Gen.sctpSackLayout = Spec.layoutFrom 0 Spec.rfc9260Sack ∧
    Gen.sctpShutdownLayout = Spec.layoutFrom 0 Spec.rfc9260Shutdown ∧
    Gen.sctpParameterLayout = Spec.layoutFrom 0 Spec.rfc9260Parameter := by
  refine ⟨by decide, by decide, by decide, by decide, by decide, by decide, by decide, by decide, by decide⟩

/-- next-protocol chaining tables: IPv4/IPv6 chain on protocol 17 (UDP) and 132 (SCTP); UDP on port 5683 (CoAP)
    and 132; the explicit stacks are IPv6|IPv4, UDP, CoAP -/
theorem C08_chaining :
    Gen.ipv4NextProtocols = [17, 132] ∧ Gen.ipv6NextProtocols = [17, 132] ∧ Gen.udpNextProtocols = [5683, 132] ∧ Gen.sctpNextProtocols = [] ∧
    Gen.stacks = [("IPv6-UDP-CoAP", [6, 17, 5683]), ("IPv4-UDP-CoAP", [4, 17, 5683])] ∧
    Gen.registeredParsers = [(4, "IPv4Parser"), (6, "IPv6Parser"), (17, "UDPParser"), (132, "SCTPParser"), (5683, "CoAPParser")] := by decide

/-- a fixed-offset parser without prediction returns exactly the RFC's field list: names, order, positions, widths -/
theorem C08_ipv6_fields (fuel : Nat) (b : ABuf) (hl : 320 ≤ b.length) (hv : (b.slice 0 4).content = [6]) :
    ipv6Parse fuel false b = .ok ⟨320, parseFixed (Spec.layoutFrom 0 Spec.rfc8200) b⟩ := by
  unfold ipv6Parse ipParse
  have h1 : ¬ b.length < Gen.ipv6MinLength := by simp [Gen.ipv6MinLength]; omega
  have h2 : ¬ (b.slice 0 4).content ≠ Gen.ipv6Version := by simp [Gen.ipv6Version, hv]
  simp only [h1, h2, if_false, bind, Except.bind, pure, Except.pure, Bool.false_eq_true]
  rw [C08_ipv6_layout.1]; rfl

theorem C08_ipv4_fields (fuel : Nat) (b : ABuf) (hl : 160 ≤ b.length) (hv : (b.slice 0 4).content = [4]) :
    ipv4Parse fuel false b = .ok ⟨160, parseFixed (Spec.layoutFrom 0 Spec.rfc791) b⟩ := by
  unfold ipv4Parse ipParse
  have h1 : ¬ b.length < Gen.ipv4MinLength := by simp [Gen.ipv4MinLength]; omega
  have h2 : ¬ (b.slice 0 4).content ≠ Gen.ipv4Version := by simp [Gen.ipv4Version, hv]
  simp only [h1, h2, if_false, bind, Except.bind, pure, Except.pure, Bool.false_eq_true]
  rw [C08_ipv4_layout.1]; rfl

theorem C08_udp_fields (fuel : Nat) (b : ABuf) (hl : 64 ≤ b.length) :
    udpParse fuel false b = .ok ⟨64, parseFixed (Spec.layoutFrom 0 Spec.rfc768) b⟩ := by
  unfold udpParse
  have h1 : ¬ b.length < Gen.udpMinLength := by simp [Gen.udpMinLength]; omega
  simp only [h1, if_false, bind, Except.bind, pure, Except.pure, Bool.false_eq_true]
  rw [C08_udp_layout.1]; rfl

/-- CoAP, the variable part: a whole RFC 7252 message (4-byte header whose TKL nibble announces the token, token,
    any options encoded as §3.1 prescribes, then nothing or 0xFF + payload) parses to the fixed fields, the token
    (if any), every option's delta / length / extended delta / extended length / value fields in wire order, and the
    payload marker; the reported header length stops right after the marker -/
theorem C08_coap_message (hdr token : Bits) (os : List Spec.CoapOption) (tail : Bits) (hh : hdr.length = 32)
    (htk : Bits.toNat ((hdr.drop 4).take 4) * 8 = token.length) (hwf : ∀ o ∈ os, Spec.WfOption o)
    (htail : tail = [] ∨ ∃ p, tail = List.replicate 8 true ++ p) (fuel : Nat) (hf : os.length < fuel) :
    let b : ABuf := ⟨hdr ++ (token ++ (Spec.wireOptions os ++ tail)), .left⟩
    ∃ h, coapParse .syntactic fuel b = .ok h ∧
      h.length = 32 + token.length + (Spec.wireOptions os).length + (if tail = [] then 0 else 8) ∧
      pairs h.fields = pairs (parseFixed (Spec.layoutFrom 0 Spec.rfc7252Fixed) b) ++ (if token = [] then [] else [(Gen.CoAPF.TOKEN, ⟨token, .left⟩)])
        ++ os.flatMap optPairs ++ (if tail = [] then [] else [(Gen.CoAPF.PAYLOAD_MARKER, ABuf.ofNat 8 0xff)]) := by
  have := coapParse_encoded hdr token os tail hh htk hwf htail fuel hf
  rw [C08_coap_fixed_layout.1] at this
  exact this

/-- one option in isolation: the slices the parser cuts from an RFC-encoded option are the RFC's fields -/
theorem C08_coap_option (o : Spec.CoapOption) (hw : Spec.WfOption o) (rest : Bits) :
    synPairs (optionHeader ⟨Spec.wireOption o ++ rest, .left⟩) = optPairs o ∧
    (optionHeader ⟨Spec.wireOption o ++ rest, .left⟩).off = (Spec.wireOption o).length :=
  ⟨synPairs_of_encoded o hw rest, (header_of_encoded o hw rest).2.2.2.2.2.2.2.2⟩

/-- occurrence positions: in whatever the syntactic option parser returns, the k-th field with a given id has
    position k (the payload marker, if present, has position 0) -/
theorem C08_coap_positions (ob : ABuf) (fuel : Nat) (fs : List Field) (c : Nat) (h : parseOptions ob .syntactic fuel = .ok (fs, c)) :
    ∃ opts, opts = numberFrom [] (pairs opts) ∧ (fs = opts ∨ fs = opts ++ [⟨Gen.CoAPF.PAYLOAD_MARKER, ABuf.ofNat 8 0xff, 0⟩]) :=
  parseOptions_numbered ob fuel fs c h

/-- non-vacuity: delta 11 / 2-byte value, delta 13 (boundary, 8-bit extension holding 0) / empty value,
    delta 269 (boundary, 16-bit extension holding 0) / 13-byte value (8-bit length extension holding 0) -/
example :
    let os : List Spec.CoapOption := [⟨11, Bits.ofNat 16 0x6162⟩, ⟨13, []⟩, ⟨269, Bits.ofNat 104 7⟩]
    (∀ o ∈ os, Spec.WfOption o) ∧
    Spec.wireOptions os = Bits.ofNat 16 0xb261 ++ Bits.ofNat 8 0x62 ++ Bits.ofNat 16 0xd000 ++ Bits.ofNat 32 0xed000000 ++ Bits.ofNat 104 7 := by
  refine ⟨by decide +kernel, by decide +kernel⟩

/-- SCTP, the variable part: a whole RFC 9260 packet (common header, any chunks of any types, each padded to a
    multiple of 4 bytes) parses to the common header fields followed by every chunk's header, value and padding
    fields in wire order; the whole packet is header -/
theorem C08_sctp_packet (sport dport vtag cksum : Nat) (cs : List Spec.SctpChunk) (hw : ∀ c ∈ cs, c.Wf) (fuel : Nat)
    (hf : cs.length ≤ fuel) (hpf : ∀ c ∈ cs, paramCount c.value ≤ fuel) :
    let b : ABuf := ⟨Spec.rowsBits (commonRows sport dport vtag cksum) ++ chunksWire cs, .left⟩
    ∃ h, sctpParse fuel b = .ok h ∧ h.length = b.length ∧
      pairs h.fields = leftPairs (Spec.rowsFields (commonRows sport dport vtag cksum) ++ chunksFields cs) :=
  sctpParse_encoded sport dport vtag cksum cs hw fuel hf hpf

/-- one chunk of any type, followed by anything -/
theorem C08_sctp_chunk (c : Spec.SctpChunk) (hw : c.Wf) (rest : Bits) (fuel : Nat) (hf : paramCount c.value ≤ fuel) :
    ∃ fs, sctpChunk fuel ⟨c.wire ++ rest, .left⟩ = .ok (fs, c.wire.length) ∧ pairs fs = leftPairs c.fields :=
  sctpChunk_encoded c hw rest fuel hf

/-- a parameter list (type, length, value, padding to 4 bytes) -/
theorem C08_sctp_parameters (ps : List Spec.SctpParam) (hw : ∀ p ∈ ps, p.Wf) (fuel : Nat) (hf : ps.length ≤ fuel) :
    ∃ fs, sctpParameters fuel ⟨Spec.paramsWire ps, .left⟩ = .ok fs ∧ pairs fs = leftPairs (Spec.paramsFields ps) :=
  sctpParameters_encoded ps hw fuel hf

/-- the spec is self-consistent: the RFC fields of a chunk value spell exactly its encoding -/
theorem C08_sctp_value_tiles (v : Spec.ChunkValue) : v.fields.flatMap (·.2) = v.wire := value_tile v

/-- non-vacuity: DATA with a 1-byte payload (3 bytes of chunk padding), a SACK with one gap block and one duplicate,
    an INIT ACK with a 5-byte parameter (3 bytes of parameter padding), and an unknown chunk type -/
example :
    let cs : List Spec.SctpChunk := [⟨0, 3, .data 1 2 3 4 (Bits.ofNat 8 0x41)⟩, ⟨3, 0, .sack 7 8 [(1, 2)] [9]⟩,
      ⟨2, 0, .init true 1 2 3 4 5 [⟨7, Bits.ofNat 40 0x0102030405⟩]⟩, ⟨200, 1, .other (Bits.ofNat 32 5)⟩]
    (∀ c ∈ cs, c.Wf) ∧ (chunksWire cs).length = 8 * (20 + 24 + 32 + 8) := by
  refine ⟨?_, by decide +kernel⟩
  intro c hc
  simp only [List.mem_cons, List.not_mem_nil, or_false] at hc
  rcases hc with h | h | h | h <;> subst h <;>
    refine ⟨by decide, by simp [Spec.ChunkValue.fitsType], ?_, by decide +kernel, by decide +kernel⟩
  · simp [Spec.ChunkValue.Wf]
  · simp [Spec.ChunkValue.Wf]
  · intro p hp
    simp only [List.mem_cons, List.not_mem_nil, or_false] at hp
    subst hp
    exact ⟨by decide +kernel, by decide +kernel⟩
  · simp [Spec.ChunkValue.Wf]

/-- what `factory` builds: the explicit stacks are three non-predicting parsers, the single-protocol ids one
    predicting parser -/
theorem C08_factory :
    factory "IPv6-UDP-CoAP" = .ok [⟨"IPv6Parser", false, .syntactic⟩, ⟨"UDPParser", false, .syntactic⟩, ⟨"CoAPParser", false, .syntactic⟩] ∧
    factory "IPv4-UDP-CoAP" = .ok [⟨"IPv4Parser", false, .syntactic⟩, ⟨"UDPParser", false, .syntactic⟩, ⟨"CoAPParser", false, .syntactic⟩] ∧
    factory "IPv6" = .ok [⟨"IPv6Parser", true, .syntactic⟩] ∧ factory "IPv4" = .ok [⟨"IPv4Parser", true, .syntactic⟩] := by
  refine ⟨rfl, rfl, rfl, rfl⟩

/-- parsers with next-protocol prediction agree with the explicit stack parsers: whenever the explicit IPv6|IPv4 /
    UDP / CoAP stack parses a packet whose next-header (protocol) field says UDP and whose destination port is the
    CoAP port, the single predicting IP parser returns the same packet descriptor -/
theorem C08_predict_agrees (ipcls : String) (hcls : ipcls = "IPv6Parser" ∨ ipcls = "IPv4Parser") (fuel : Nat) (b : ABuf) (p : Packet)
    (hexp : packetParse fuel [⟨ipcls, false, .syntactic⟩, ⟨"UDPParser", false, .syntactic⟩, ⟨"CoAPParser", false, .syntactic⟩] b = .ok p)
    (hproto : ∀ hi, runParser fuel ⟨ipcls, false, .syntactic⟩ b = .ok hi →
      (fieldValue hi.fields (if ipcls = "IPv6Parser" then Gen.IPv6F.NEXT_HEADER else Gen.IPv4F.PROTOCOL)).value = 17)
    (hport : ∀ hi hu, runParser fuel ⟨ipcls, false, .syntactic⟩ b = .ok hi → udpParse fuel false (b.from_ hi.length) = .ok hu →
      (fieldValue hu.fields Gen.UDPF.DESTINATION_PORT).value = 5683) :
    packetParse fuel [⟨ipcls, true, .syntactic⟩] b = .ok p :=
  stack_agrees ipcls hcls fuel b p hexp hproto hport

end Schc
