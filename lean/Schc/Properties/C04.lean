/-
C04 — A rule is offered for a packet iff every field satisfies its matching operator.
-/
import Schc.Proofs.Match

namespace Schc

/-- Soundness, completeness and order in one equation: for every rule set whose target values have the type
    their matching operator demands (`RuleTypeOK`: equal/MSB carry a Buffer, match-mapping a mapping) and every
    packet, the matcher yields exactly the rules of the set, in rule-set order, for which `Spec.applicable`
    holds: descriptors of the packet's direction or Bi are as many as the packet's fields, same ids in order,
    every matching operator holds; a no-compression rule always. -/
theorem C04_match (rules : List Rule) (p : Packet) (h : ∀ r ∈ rules, RuleTypeOK r) :
    matchAll rules p = .ok (rules.filter (Spec.applicable p)) :=
  matchAll_spec rules p h

/-- one field against one descriptor (equal: same bits and length; ignore: always; MSB(x): FL = 0 or FL = |v|,
    x ≤ |v| and the first x bits equal the pattern; match-mapping: the value is one of the mapped values) -/
theorem C04_field (pf : Field) (rf : RuleField) (h : MoTypeOK rf) : fieldMatch pf rf = .ok (Spec.fieldMatches pf rf) :=
  fieldMatch_spec pf rf h

/-- the first rule yielded (what the FIRST strategy consumes) is the first applicable rule -/
theorem C04_first (rules : List Rule) (p : Packet) (h : ∀ r ∈ rules, RuleTypeOK r) :
    matchFirst rules p = .ok (rules.find? (Spec.applicable p)) :=
  matchFirst_spec rules p h

/-- an MSB pattern longer than the field never matches -/
theorem C04_msb_longer (pf : Field) (rf : RuleField) (t : ABuf) (hm : rf.mo = .msb) (ht : rf.tv = .buf t)
    (hl : pf.value.bits.length < t.bits.length) : fieldMatch pf rf = .ok false := by
  rw [fieldMatch_spec pf rf (by unfold MoTypeOK; rw [hm, ht]; trivial)]
  unfold Spec.fieldMatches; rw [hm, ht]
  have : decide (t.bits.length ≤ pf.value.bits.length) = false := by simp; omega
  simp [this]

/-- a no-compression rule is always yielded -/
theorem C04_default (p : Packet) (r : Rule) (h : r.nature = .noCompression) : ruleMatches p r = .ok true := by
  unfold ruleMatches; rw [h]; rfl

/-- non-vacuity: a direction-filtered rule with an MSB and a mapping field matches an Up packet, not a Dw one -/
example :
    let p : Packet := ⟨.up, [⟨"a", ⟨[true, false, true], .left⟩, 0⟩, ⟨"b", ⟨[false, true], .left⟩, 0⟩], ⟨[], .left⟩, ⟨[], .left⟩⟩
    let r : Rule := ⟨⟨[true], .left⟩, .compression,
      [⟨"a", 3, 0, .up, .buf ⟨[true, false], .right⟩, .msb, .lsb⟩, ⟨"a", 3, 0, .dw, .buf ⟨[false], .left⟩, .msb, .lsb⟩,
       ⟨"b", 2, 0, .bi, .map [(⟨[false, true], .right⟩, ⟨[false], .left⟩)], .matchMapping, .mappingSent⟩]⟩
    RuleTypeOK r ∧ matchAll [r] p = .ok [r] ∧ matchAll [r] { p with dir := .dw } = .ok [] := by
  refine ⟨by intro rf hrf; simp at hrf; rcases hrf with h | h | h <;> subst h <;> trivial, by decide, by decide⟩

end Schc
