/-
C11 — A SCHC packet is dispatched to the rule whose ID it starts with.
-/
import Schc.Proofs.Select

namespace Schc

/-- for a prefix-free rule-ID set (IDs of any lengths, any order, either padding side), the rule whose ID is a
    prefix of the bit string is returned, whatever bits follow -/
theorem C11_dispatch (rules : List Rule) (s : ABuf) (r : Rule) (hr : r ∈ rules) (hpre : r.id.bits <+: s.bits)
    (hpf : PrefixFreeIds rules) : matchSchc rules s = .ok r :=
  matchSchc_hit rules s r hr hpre hpf

/-- when no ID is a prefix — including a string shorter than every ID, or empty — the rule-ID error is raised -/
theorem C11_no_match (rules : List Rule) (s : ABuf) (hne : rules ≠ []) (h : ∀ r ∈ rules, ¬ r.id.bits <+: s.bits) :
    matchSchc rules s = .error .ruleIDMatchError :=
  matchSchc_miss rules s hne h

theorem compressFields_prefix (pfs : List Field) (rfs : List RuleField) (acc c : ABuf)
    (h : compressFields pfs rfs acc = .ok c) : acc.bits <+: c.bits := by
  induction pfs generalizing rfs acc with
  | nil => simp only [compressFields, pure, Except.pure, Except.ok.injEq] at h; subst h; exact List.prefix_refl _
  | cons pf pfs ih =>
    cases rfs with
    | nil => simp only [compressFields, pure, Except.pure, Except.ok.injEq] at h; subst h; exact List.prefix_refl _
    | cons rf rfs =>
      simp only [compressFields, bind, Except.bind] at h
      cases hf : fieldResidue pf rf with
      | error e => simp [hf] at h
      | ok rs =>
        simp only [hf] at h
        have := ih rfs _ h
        rw [foldl_add_bits] at this
        exact List.IsPrefix.trans (List.prefix_append _ _) this

/-- every SCHC packet produced with rule R of the set is dispatched to R -/
theorem C11_own_output (rules : List Rule) (p : Packet) (r : Rule) (hr : r ∈ rules) (hpf : PrefixFreeIds rules) (c : ABuf)
    (hc : compress p r = .ok c) : matchSchc rules c = .ok r := by
  apply matchSchc_hit rules c r hr _ hpf
  unfold compress at hc
  cases hn : r.nature <;> simp only [hn, bind, Except.bind, pure, Except.pure] at hc
  · cases hf : compressFields p.fields r.fields ((ABuf.empty Pad.right).add r.id) with
    | error e => simp [hf] at hc
    | ok s =>
      simp only [hf, Except.ok.injEq] at hc
      have := compressFields_prefix _ _ _ _ hf
      subst hc
      simp only [ABuf.add, ABuf.empty, List.nil_append] at this ⊢
      exact List.IsPrefix.trans this (List.prefix_append _ _)
  · simp only [Except.ok.injEq] at hc
    subst hc
    have : ∀ (fs : List Field) (acc : ABuf), acc.bits <+: (fs.foldl (fun acc f => acc.add f.value) acc).bits := by
      intro fs; induction fs with
      | nil => intro acc; exact List.prefix_refl _
      | cons f fs ih => intro acc; exact List.IsPrefix.trans (by simp [ABuf.add]) (ih _)
    have h2 := this p.fields ((ABuf.empty Pad.right).add r.id)
    simp only [ABuf.add, ABuf.empty, List.nil_append] at h2 ⊢
    exact List.IsPrefix.trans h2 (List.prefix_append _ _)

/-- non-vacuity: IDs 0, 10, 110 in a scrambled order; a string equal to an ID, a longer one, and a miss -/
example :
    let rs : List Rule := [⟨⟨[true, true, false], .left⟩, .compression, []⟩, ⟨⟨[false], .right⟩, .noCompression, []⟩, ⟨⟨[true, false], .left⟩, .compression, []⟩]
    PrefixFreeIds rs ∧ matchSchc rs ⟨[true, false], .right⟩ = .ok ⟨⟨[true, false], .left⟩, .compression, []⟩
      ∧ matchSchc rs ⟨[false, true, true], .left⟩ = .ok ⟨⟨[false], .right⟩, .noCompression, []⟩
      ∧ matchSchc rs ⟨[true, true], .left⟩ = .error .ruleIDMatchError ∧ matchSchc rs ⟨[], .left⟩ = .error .ruleIDMatchError := by
  refine ⟨?_, by decide, by decide, by decide, by decide⟩
  intro a ha b hb hp
  simp only [List.mem_cons, List.mem_singleton, List.not_mem_nil, or_false] at ha hb
  rcases ha with h | h | h <;> rcases hb with h' | h' | h' <;> subst h <;> subst h' <;> first | rfl | (exfalso; revert hp; decide)

end Schc
