/-
C09 — Compute actions regenerate lengths and checksums exactly as the RFCs define.

`fields` is the decompressor's rebuilt list of (field id, value) with zero placeholders for the fields still to be
computed; `pos` the index of the computed field. Spec side: `Schc.Spec.onesSum` / `inetChecksum` (RFC 1071,
arithmetic), `Schc.Spec.crcBitwise` (RFC 9260 appendix A, bit by bit).
-/
import Schc.Proofs.Checksum
import Schc.Proofs.SortUnique
import Schc.Proofs.SortForward
import Schc.Py.Core

namespace Schc
open Compute

/-- the add-then-fold-each-step loop over 16-bit chunks is the one's-complement sum of the words (odd last chunk
    zero-padded when `pad`) -/
theorem C09_fold (x : ABuf) (pad : Bool) : foldSum (x.chunks 16 pad) = Spec.onesSum ((x.chunks 16 pad).map ABuf.value) :=
  foldSum_spec x pad

/-- IPv4 header checksum (RFC 791 / RFC 1071): complement of the one's-complement sum of the header words; 0x0000 is
    NOT replaced by 0xFFFF -/
theorem C09_ipv4_header_checksum (fields : Fields) (pos : Nat) :
    ipv4HeaderChecksum fields pos =
      let hdr := concat (ABuf.empty .left) ((pySlice fields ((pos : Int) - 9) (some ((pos : Int) + 3))).map (·.2))
      natBuf 2 (Spec.inetChecksum ((hdr.chunks 16 false).map ABuf.value)) := by
  unfold ipv4HeaderChecksum Spec.inetChecksum
  simp only [bind, Except.bind, pure, Except.pure, foldSum_spec]
  congr 1
  generalize hs : Spec.onesSum _ = s
  have : s ≤ 65535 := by rw [← hs]; exact onesSum_le _
  rw [Nat.mod_eq_of_lt (by omega), show (0xffff : Nat) = 2 ^ 16 - 1 by rfl, Nat.and_two_pow_sub_one_eq_mod]
  omega

/-- UDP checksum (RFC 768, RFC 8200 §8.1): complement of the one's-complement sum over pseudo-header, UDP header and
    payload (odd payload zero-padded); a zero result is sent as 0xFFFF -/
theorem C09_udp_checksum (pseudo up : ABuf) :
    udpChecksumOf pseudo up =
      let c := Spec.inetChecksum ((pseudo.chunks 16 false).map ABuf.value ++ (up.chunks 16 true).map ABuf.value)
      natBuf 2 (if c = 0 then 0xffff else c) := by
  unfold udpChecksumOf Spec.inetChecksum
  simp only [foldSum_spec]
  have h := combine_spec ((pseudo.chunks 16 false).map ABuf.value) ((up.chunks 16 true).map ABuf.value)
  simp only at h
  rw [h]
  generalize hs : Spec.onesSum _ = s
  have : s ≤ 65535 := by rw [← hs]; exact onesSum_le _
  have e : (0xffff - s) &&& 0xffff = 0xffff - s := by
    rw [show (0xffff : Nat) = 2 ^ 16 - 1 by rfl, Nat.and_two_pow_sub_one_eq_mod]; omega
  simp only [e]

/-- the IPv6 pseudo-header the code assembles is RFC 8200 §8.1: source, destination, 32-bit upper-layer length,
    24 zero bits, next header 17; the IPv4 one is RFC 768: source, destination, zero, protocol 17, 16-bit UDP length -/
theorem C09_pseudo_headers (src dst : ABuf) (n : Nat) :
    ((((src.add dst).add (ABuf.ofNat 32 n)).add (ABuf.ofNat 24 0)).add (ABuf.ofNat 8 0x11)).bits
        = src.bits ++ dst.bits ++ Bits.ofNat 32 n ++ Bits.zeros 24 ++ Bits.ofNat 8 17 ∧
    ((((src.add dst).add (ABuf.ofNat 8 0)).add (ABuf.ofNat 8 0x11)).add (ABuf.ofNat 16 n)).bits
        = src.bits ++ dst.bits ++ Bits.zeros 8 ++ Bits.ofNat 8 17 ++ Bits.ofNat 16 n := by
  constructor <;> simp [ABuf.add, ABuf.ofNat] <;> decide

theorem concat_bits (init : ABuf) (l : List ABuf) : (concat init l).bits = init.bits ++ l.flatMap (·.bits) := by
  unfold concat
  induction l generalizing init with
  | nil => simp
  | cons x xs ih => rw [List.foldl_cons, ih]; simp [ABuf.add, List.append_assoc]

/-- lengths in octets: IPv6 payload length counts what follows the IPv6 header (5 fields after Payload Length), IPv4
    total length counts from the Version field (2 before), UDP length from the source port (2 before) -/
theorem C09_lengths (fields : Fields) (pos : Nat) :
    ipv6PayloadLength fields pos = natBuf 2 (ceilBytes (((fields.drop (pos + 5)).map (·.2)).flatMap (·.bits)).length) ∧
    ipv4TotalLength fields pos = natBuf 2 (ceilBytes (((pySlice fields ((pos : Int) - 2) none).map (·.2)).flatMap (·.bits)).length) ∧
    (∀ all, concat1 ((pySlice fields ((pos : Int) - 2) none).map (·.2)) = .ok all → udpLength fields pos = natBuf 2 (ceilBytes all.bits.length)) := by
  refine ⟨?_, ?_, ?_⟩
  · unfold ipv6PayloadLength
    simp only [bind, Except.bind, pure, Except.pure, ABuf.length, concat_bits, ABuf.empty, List.nil_append]
  · unfold ipv4TotalLength
    simp only [bind, Except.bind, pure, Except.pure, ABuf.length, concat_bits, ABuf.empty, List.nil_append]
  · intro all hall
    unfold udpLength
    simp only [hall, bind, Except.bind, ABuf.length]

/-- the 256-entry table of crc.py (regenerated from the source on every run) is the table of the reflected
    polynomial 0x82F63B78 -/
theorem C09_crc_table : Gen.crcTable = (List.range 256).map Spec.crcTableEntry := crcTable_eq

/-- the table-driven byte loop computes the bit-by-bit CRC-32c -/
theorem C09_crc_loop (b : ABuf) (init : Nat) (hi : init < 2 ^ 32) :
    crc32c b init = .ok (ABuf.ofNat 32 (Spec.crcBitwise ((b.chunks 8 true).map ABuf.value) init)) := by
  unfold crc32c
  have hb : ∀ x ∈ (b.chunks 8 true).map ABuf.value, x < 256 := by
    intro w hw
    simp only [ABuf.chunks, List.map_map, List.mem_map, Function.comp] at hw
    obtain ⟨c, hc, rfl⟩ := hw
    have hl := chunks_length_le 8 true b.bits (by decide) c hc
    have h1 := Bits.toNat_lt c
    have h2 : 2 ^ c.length ≤ 2 ^ 8 := Nat.pow_le_pow_right (by decide) hl
    simp only [ABuf.value]; omega
  obtain ⟨h1, h2⟩ := crc_loop ((b.chunks 8 true).map ABuf.value) init hb hi
  rw [List.foldlM_map] at h1
  simp only [bind, Except.bind]
  generalize hg : List.foldlM (m := Py) _ init (b.chunks 8 true) = g
  have hgv : g = .ok (Spec.crcBitwise ((b.chunks 8 true).map ABuf.value) init) := by rw [← hg]; exact h1
  rw [hgv]
  simp only [natBuf]
  have : Spec.crcBitwise (List.map ABuf.value (b.chunks 8 true)) init < 256 ^ 4 := by simpa using h2
  simp [this, pure, Except.pure]

/-- the SCTP checksum: CRC-32c of the packet with a zero checksum field, initial value all ones, final complement,
    stored least-significant byte first (RFC 9260 appendix A) -/
theorem C09_sctp (fields : Fields) (pos : Nat) (all : ABuf) (h : concat1 ((pySlice fields ((pos : Int) - 3) none).map (·.2)) = .ok all) :
    sctpChecksum fields pos =
      let crc := ABuf.ofNat 32 (Spec.crcBitwise ((all.chunks 8 true).map ABuf.value) 0xffffffff)
      concat1 ((⟨crc.bits.map not, crc.side⟩ : ABuf).chunks 8 false).reverse := by
  unfold sctpChecksum
  simp only [h, bind, Except.bind, C09_crc_loop all 0xffffffff (by decide)]

/-- dependencies are evaluated before dependants: compute entries that are already in an order the comparator
    accepts (what protocol order gives: lengths before the checksums that cover them) are run in that order -/
theorem C09_order (l : List ComputeEntry) (h : List.Pairwise (fun a b => ¬ computeCmp b a < 0) l) : sortEntries l = l := by
  unfold sortEntries
  have gen : ∀ (acc rest : List ComputeEntry), List.Pairwise (fun a b => ¬ computeCmp b a < 0) (acc ++ rest) →
      rest.foldl (fun acc e => insertEntry e acc) acc = acc ++ rest := by
    intro acc rest
    induction rest generalizing acc with
    | nil => intro _; simp
    | cons e rest ih =>
      intro hp
      have hins : insertEntry e acc = acc ++ [e] := by
        have hacc : ∀ x ∈ acc, ¬ computeCmp e x < 0 := by
          intro x hx
          have := List.pairwise_append.mp hp
          exact this.2.2 x hx e (by simp)
        clear hp ih
        induction acc with
        | nil => rfl
        | cons x xs ihx =>
          simp only [insertEntry, hacc x (by simp), if_false, List.cons_append]
          rw [ihx (fun y hy => hacc y (List.mem_cons_of_mem _ hy))]
      rw [List.foldl_cons, hins, ih (acc ++ [e]) (by simpa [List.append_assoc] using hp)]
      simp [List.append_assoc]
  simpa using gen [] l (by simpa using h)

/-- non-vacuity: the IPv4 header of the finding (Identification 0xb979) has checksum 0x0000, and it stays 0x0000 -/
example :
    let hdr : ABuf := ⟨Bits.ofNat 160 0x45000020b979400040110000c0a80001c0a80002, .left⟩
    Spec.inetChecksum ((hdr.chunks 16 false).map ABuf.value) = 0 := by decide +kernel

/-- The order in which the compute fields are regenerated does not depend on the sorting algorithm. Where
    `compute_function_sort` orders the rule's compute entries consistently (`Rule.orderOk`: one direction per pair, no
    cycle — what the model driver tests before it answers), EVERY permutation of the entries that is sorted for the
    comparator is the list the model's insertion sort returns: `list.sort` is only assumed to sort. -/
theorem C09_compute_order_unique (r : Rule) (h : r.orderOk = true) (p : List ComputeEntry)
    (hp : p.Perm (computeEntries r.fields 0)) (hs : p.Pairwise entryLt) : p = sortEntries (computeEntries r.fields 0) :=
  sort_unique _ (orderedB_sound _ (by rw [← entriesOf_eq]; exact h)) (computeEntries_nodup _ _) p hp hs

/-- … and the model's own result is such a permutation -/
theorem C09_compute_order_sorted (r : Rule) (h : r.orderOk = true) :
    (sortEntries (computeEntries r.fields 0)).Perm (computeEntries r.fields 0) ∧
    (sortEntries (computeEntries r.fields 0)).Pairwise entryLt :=
  ⟨sortEntries_perm _, sortEntries_sorted _ (orderedB_sound _ (by rw [← entriesOf_eq]; exact h)) (computeEntries_nodup _ _)⟩

/-- the driver's test covers every call: whatever `direction=` is passed, the rule `decompress` works on passes `orderOk` -/
theorem C09_order_test_covers_directions (r : Rule) (d : Option Dir) (h : r.orderOkAll = true) : (restrictO r d).orderOk = true := by
  simp only [Rule.orderOkAll, Bool.and_eq_true] at h
  match d with
  | none => exact h.1.1.1
  | some .up => exact h.1.1.2
  | some .dw => exact h.1.2
  | some .bi => exact h.2

/-- The driver's test never fires inside the properties' quantifiers: a rule whose compute fields are written in
    dependency order — none before a compute field it depends on, none depending on itself — passes it, for the rule as
    written and for what every `direction=` keeps of it. -/
theorem C09_order_test_passes (r : Rule)
    (hf : ForwardDeps ((r.fields.filter (fun rf => decide (rf.cda = .compute))).map (·.id))) : r.orderOkAll = true :=
  orderOkAll_of_forward r hf

/-- the computable fields in the order the protocols lay them out (IPv6 or IPv4, then UDP or SCTP) -/
def protocolOrder : List String :=
  ["IPv6:Payload Length", "IPv4:Total Length", "IPv4:Header Checksum", "UDP:Length", "UDP:Checksum", "SCTP:Checksum"]

/-- … are in dependency order for the dependency sets read from the source (kernel-evaluated on the regenerated table) -/
theorem C09_protocol_order_forward : ForwardDeps protocolOrder := by
  unfold ForwardDeps NoDep protocolOrder
  exact ⟨by decide +kernel, by decide +kernel⟩

/-- … so every rule whose compute fields follow the protocol layout (any subset, other descriptors anywhere) passes the test -/
theorem C09_order_test_passes_protocol (r : Rule)
    (h : ((r.fields.filter (fun rf => decide (rf.cda = .compute))).map (·.id)).Sublist protocolOrder) : r.orderOkAll = true :=
  C09_order_test_passes r (ForwardDeps.sublist h C09_protocol_order_forward)

/-- non-vacuity, both ways: lengths and checksums in protocol order are ordered consistently; a header checksum BEFORE a UDP
    length BEFORE the total length the checksum depends on is a cycle (each precedes the next), which the test rejects -/
example :
    let co (id : String) : RuleField := ⟨id, 16, 0, .bi, .buf ⟨[], .left⟩, .ignore, .compute⟩
    (Rule.orderOk ⟨⟨[true], .left⟩, .compression, [co "IPv4:Total Length", co "IPv4:Header Checksum", co "UDP:Length", co "UDP:Checksum"]⟩ = true) ∧
    (Rule.orderOk ⟨⟨[true], .left⟩, .compression, [co "IPv4:Header Checksum", co "UDP:Length", co "IPv4:Total Length"]⟩ = false) := by
  decide +kernel

end Schc
