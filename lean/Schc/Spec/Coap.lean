/-
RFC 7252 §3.1 option format, written from the RFC: an option is (delta to the previous option number, value bytes);
on the wire: 4-bit delta nibble, 4-bit length nibble, 0/1/2 bytes of extended delta, 0/1/2 bytes of extended
length, the value. Nibble 13 announces an 8-bit extension holding x - 13, nibble 14 a 16-bit extension holding
x - 269, nibble 15 is reserved.
-/
import Schc.Spec.Bits

namespace Schc.Spec

structure CoapOption where
  delta : Nat
  value : Bits
  deriving DecidableEq, Repr

def nib (x : Nat) : Nat := if x < 13 then x else if x < 269 then 13 else 14

def ext (x : Nat) : Bits := if x < 13 then [] else if x < 269 then Bits.ofNat 8 (x - 13) else Bits.ofNat 16 (x - 269)

def CoapOption.len (o : CoapOption) : Nat := o.value.length / 8

def wireOption (o : CoapOption) : Bits :=
  Bits.ofNat 4 (nib o.delta) ++ (Bits.ofNat 4 (nib o.len) ++ (ext o.delta ++ (ext o.len ++ o.value)))

def wireOptions (os : List CoapOption) : Bits := os.flatMap wireOption

/-- what RFC 7252 can encode: whole bytes, delta and length within the 16-bit extension -/
def WfOption (o : CoapOption) : Prop := o.delta < 269 + 65536 ∧ o.value.length % 8 = 0 ∧ o.len < 269 + 65536

instance (o : CoapOption) : Decidable (WfOption o) := by unfold WfOption; infer_instance

/-- the fields of one option in wire order: (field name, bits) -/
def optionFields (o : CoapOption) : List (String × Bits) :=
  [("CoAP:Option Delta", Bits.ofNat 4 (nib o.delta)), ("CoAP:Option Length", Bits.ofNat 4 (nib o.len))]
    ++ (if 13 ≤ o.delta then [("CoAP:Option Delta Extended", ext o.delta)] else [])
    ++ (if 13 ≤ o.len then [("CoAP:Option Length Extended", ext o.len)] else [])
    ++ (if o.value ≠ [] then [("CoAP:Option Value", o.value)] else [])

end Schc.Spec
