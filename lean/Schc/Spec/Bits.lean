/-
L0 specification layer: bit sequences.
A buffer *denotes* a `Bits`; every property of the Buffer type is stated against the plain list
operations below (`++`, `take`, `drop`, `zipWith`, `map not`, `replicate`).
-/
namespace Schc

abbrev Bits := List Bool

namespace Bits

/-- `n`-bit big-endian expansion of `v` (most significant bit first). -/
def ofNat (n v : Nat) : Bits := (List.range n).map (fun i => v.testBit (n - 1 - i))

/-- unsigned big-endian integer spelled by the bits -/
def toNat (b : Bits) : Nat := b.foldl (fun acc x => 2 * acc + (if x then 1 else 0)) 0

def zeros (n : Nat) : Bits := List.replicate n false

/-- Python-style clamped slice `b[i:j]` for `0 ≤ i`, any `j`. -/
def slice (b : Bits) (i j : Nat) : Bits := (b.drop i).take (j - i)

/-- consecutive `n`-bit pieces; the last one is zero-extended to `n` bits when `pad`. The empty
sequence gives one (empty, or all-zero when `pad`) piece, as the library does. `fuel` bounds the
recursion (any `fuel ≥ b.length` gives the same result). -/
def chunksAux (n : Nat) (pad : Bool) : Nat → Bits → List Bits
  | 0, b => [if pad then b ++ zeros (n - b.length) else b]
  | fuel + 1, b =>
    if b.length ≤ n then [if pad then b ++ zeros (n - b.length) else b]
    else b.take n :: chunksAux n pad fuel (b.drop n)

def chunks (n : Nat) (pad : Bool) (b : Bits) : List Bits := chunksAux n pad b.length b

def toString (b : Bits) : String := String.ofList (b.map (fun x => if x then '1' else '0'))

def ofString (s : String) : Bits := s.toList.map (· == '1')

end Bits
end Schc
