/-
L0 specification of SCHC compression (RFC 8724 §7), written from the RFC text over plain bit
sequences — independent of the Python control flow. The property theorems relate `Schc.Py.*`
(the model of the code) to these definitions.
-/
import Schc.Spec.Bits
import Schc.Py.Model

namespace Schc.Spec

/-- §7.4.2: the size of a variable-length residue, on 4, 12 or 28 bits -/
def encLen (n : Nat) : Bits :=
  if n < 15 then Bits.ofNat 4 n
  else if n < 255 then Bits.ofNat 4 15 ++ Bits.ofNat 8 n
  else Bits.ofNat 12 4095 ++ Bits.ofNat 16 n

def encLenWidth (n : Nat) : Nat := if n < 15 then 4 else if n < 255 then 12 else 28

/-- the index a mapping sends for a value (first entry, in dict order, whose value has these bits) -/
def mappingIndex (fwd : List (ABuf × ABuf)) (v : Bits) : Option Bits :=
  (fwd.find? fun e => e.1.bits == v).map (·.2.bits)

/-- §7.4: residue of one field; `none` where the rule cannot encode the value -/
def residue (rf : RuleField) (v : Bits) : Option Bits :=
  match rf.cda with
  | .notSent | .compute => some []
  | .valueSent => some (if rf.length = 0 then encLen v.length ++ v else v)
  | .lsb =>
    match rf.tv with
    | .buf p => let r := v.drop p.bits.length
                some (if rf.length = 0 then encLen r.length ++ r else r)
    | .map _ => none
  | .mappingSent =>
    match rf.tv with
    | .map fwd => mappingIndex fwd v
    | .buf _ => none

/-- residues of aligned (packet field, rule field) lists, in rule order -/
def residues : List Field → List RuleField → Option Bits
  | pf :: pfs, rf :: rfs => do
    let r ← residue rf pf.value.bits
    let rs ← residues pfs rfs
    pure (r ++ rs)
  | _, _ => some []

/-- §7.2 / figure 7: rule ID, residues in rule order, payload; rule ID followed by the packet for a
    no-compression rule -/
def compress (p : Packet) (r : Rule) : Option Bits :=
  match r.nature with
  | .noCompression => some (r.id.bits ++ (p.fields.flatMap (·.value.bits)) ++ p.payload.bits)
  | .compression => do
    let rs ← residues p.fields r.fields
    pure (r.id.bits ++ rs ++ p.payload.bits)

/-- §7.3 matching operators, as the property states them -/
def fieldMatches (pf : Field) (rf : RuleField) : Bool :=
  pf.id == rf.id &&
  match rf.mo, rf.tv with
  | .ignore, _ => true
  | .equal, .buf t => pf.value.bits == t.bits
  | .msb, .buf t => (rf.length == 0 || rf.length == pf.value.bits.length)
                     && t.bits.length ≤ pf.value.bits.length && pf.value.bits.take t.bits.length == t.bits
  | .matchMapping, .map fwd => fwd.any fun e => e.1.bits == pf.value.bits
  | _, _ => false

def dirApplies (pd d : Dir) : Bool := d == pd || d == .bi

def allMatch : List Field → List RuleField → Bool
  | pf :: pfs, rf :: rfs => fieldMatches pf rf && allMatch pfs rfs
  | _, _ => true

/-- a rule is offered for a packet -/
def applicable (p : Packet) (r : Rule) : Bool :=
  match r.nature with
  | .noCompression => true
  | .compression =>
    let rfs := r.fields.filter fun f => dirApplies p.dir f.dir
    p.fields.length == rfs.length && allMatch p.fields rfs

end Schc.Spec
