/-
RFC 9260 §3 packet format, written from the RFC as an encoder: common header, chunks (type, flags, length = 4 + value
bytes, value, zero padding to a multiple of 4 bytes that the length does not count), and the value layouts of
§3.3.1 DATA, §3.3.2 INIT, §3.3.3 INIT ACK, §3.3.4 SACK, §3.3.5–3.3.7/3.3.10 (parameter lists), §3.3.8 SHUTDOWN,
§3.3.9/3.3.12/3.3.13 (no value), §3.3.11 COOKIE ECHO, and opaque values for every other type. Parameters are
type-length-value with the same padding rule; this encoder pads every parameter inside the chunk value (what
implementations emit; RFC 9260 lets the last parameter's padding count as chunk padding instead).
-/
import Schc.Spec.Bits
import Schc.Spec.Layouts

namespace Schc.Spec

/-- zero bits needed to reach the next multiple of 32 -/
def pad32 (n : Nat) : Nat := (32 - n % 32) % 32

/-- (field name, width, value) rows; on the wire: the values in order, each in its width -/
abbrev Rows := List (String × Nat × Nat)
def rowsBits (rows : Rows) : Bits := rows.flatMap fun r => Bits.ofNat r.2.1 r.2.2
def rowsFields (rows : Rows) : List (String × Bits) := rows.map fun r => (r.1, Bits.ofNat r.2.1 r.2.2)
def rowsWidths (rows : Rows) : List (String × Nat) := rows.map fun r => (r.1, r.2.1)

structure SctpParam where
  type : Nat
  value : Bits
  deriving DecidableEq, Repr

namespace SctpParam
def len (p : SctpParam) : Nat := 4 + p.value.length / 8
def Wf (p : SctpParam) : Prop := p.value.length % 8 = 0 ∧ p.len < 65536
def wire (p : SctpParam) : Bits :=
  Bits.ofNat 16 p.type ++ (Bits.ofNat 16 p.len ++ (p.value ++ Bits.zeros (pad32 p.value.length)))
def fields (p : SctpParam) : List (String × Bits) :=
  [("SCTP:Parameter Type", Bits.ofNat 16 p.type), ("SCTP:Parameter Length", Bits.ofNat 16 p.len)]
    ++ (if p.value ≠ [] then [("SCTP:Parameter Value", p.value)] else [])
    ++ (if pad32 p.value.length > 0 then [("SCTP:Parameter Padding", Bits.zeros (pad32 p.value.length))] else [])
end SctpParam

def paramsWire (ps : List SctpParam) : Bits := ps.flatMap SctpParam.wire
def paramsFields (ps : List SctpParam) : List (String × Bits) := ps.flatMap SctpParam.fields

inductive ChunkValue
  | data (tsn sid ssn ppid : Nat) (user : Bits)
  | init (ack : Bool) (tag rwnd os is tsn : Nat) (params : List SctpParam)
  | sack (cum rwnd : Nat) (gaps : List (Nat × Nat)) (dups : List Nat)
  | params (ps : List SctpParam)
  | shutdown (cum : Nat)
  | none
  | cookie (c : Bits)
  | other (v : Bits)

def dataRows (tsn sid ssn ppid : Nat) : Rows :=
  [("SCTP:Data TSN", 32, tsn), ("SCTP:Data Stream Identifier S", 16, sid), ("SCTP:Data Stream Sequence Number n", 16, ssn),
   ("SCTP:Data Payload Protocol Identifier", 32, ppid)]

def initRows (ack : Bool) (tag rwnd os is tsn : Nat) : Rows :=
  let pre := if ack then "SCTP:Init Ack " else "SCTP:Init "
  [(pre ++ "Initiate Tag", 32, tag), (pre ++ "Advertised Receiver Window Credit", 32, rwnd), (pre ++ "Number of Outbound Streams", 16, os),
   (pre ++ "Number of Inbound Streams", 16, is), (pre ++ "Initial TSN", 32, tsn)]

def sackRows (cum rwnd ngaps ndups : Nat) : Rows :=
  [("SCTP:Selective Ack Cumulative TSN Ack", 32, cum), ("SCTP:Selective Ack Advertised Receiver Window Credit", 32, rwnd),
   ("SCTP:Selective Ack Number Gap Ack Blocks", 16, ngaps), ("SCTP:Selective Ack Number Duplicate TSNs", 16, ndups)]

def gapRows (gaps : List (Nat × Nat)) : Rows :=
  gaps.flatMap fun g => [("SCTP:Selective Ack Gap Ack BLock Start", 16, g.1), ("SCTP:Selective Ack Gap Ack BLock End", 16, g.2)]

def dupRows (dups : List Nat) : Rows := dups.map fun d => ("SCTP:Selective Ack Duplicate TSN", 32, d)

namespace ChunkValue
def wire : ChunkValue → Bits
  | data tsn sid ssn ppid user => rowsBits (dataRows tsn sid ssn ppid) ++ user
  | init ack tag rwnd os is tsn ps => rowsBits (initRows ack tag rwnd os is tsn) ++ paramsWire ps
  | sack cum rwnd gaps dups => rowsBits (sackRows cum rwnd gaps.length dups.length) ++ (rowsBits (gapRows gaps) ++ rowsBits (dupRows dups))
  | params ps => paramsWire ps
  | shutdown cum => Bits.ofNat 32 cum
  | none => []
  | cookie c => c
  | other v => v

def fields : ChunkValue → List (String × Bits)
  | data tsn sid ssn ppid user => rowsFields (dataRows tsn sid ssn ppid) ++ [("SCTP:Data Payload", user)]
  | init ack tag rwnd os is tsn ps => rowsFields (initRows ack tag rwnd os is tsn) ++ paramsFields ps
  | sack cum rwnd gaps dups => rowsFields (sackRows cum rwnd gaps.length dups.length) ++ (rowsFields (gapRows gaps) ++ rowsFields (dupRows dups))
  | params ps => paramsFields ps
  | shutdown cum => [("SCTP:Shutdown Cumulative TSN", Bits.ofNat 32 cum)]
  | none => []
  | cookie c => [("SCTP:Cookie Echo Cookie", c)]
  | other v => if v ≠ [] then [("SCTP:Chunk Value", v)] else []

/-- which values a chunk type carries (RFC 9260 §3.2 type table) -/
def fitsType : ChunkValue → Nat → Prop
  | data .., t => t = 0
  | init ack .., t => t = (if ack then 2 else 1)
  | sack .., t => t = 3
  | params _, t => t = 4 ∨ t = 5 ∨ t = 6 ∨ t = 9
  | shutdown _, t => t = 7
  | none, t => t = 8 ∨ t = 11 ∨ t = 14
  | cookie _, t => t = 10
  | other _, t => t = 12 ∨ t = 13 ∨ 15 ≤ t

def Wf : ChunkValue → Prop
  | data _ _ _ _ user => user.length % 8 = 0
  | init _ _ _ _ _ _ ps => ∀ p ∈ ps, p.Wf
  | sack _ _ gaps dups => gaps.length < 65536 ∧ dups.length < 65536
  | params ps => ∀ p ∈ ps, p.Wf
  | shutdown _ => True
  | none => True
  | cookie c => c ≠ [] ∧ c.length % 8 = 0
  | other v => v.length % 8 = 0
end ChunkValue

structure SctpChunk where
  type : Nat
  flags : Nat
  value : ChunkValue

namespace SctpChunk
def len (c : SctpChunk) : Nat := 4 + c.value.wire.length / 8
def Wf (c : SctpChunk) : Prop := c.type < 256 ∧ c.value.fitsType c.type ∧ c.value.Wf ∧ c.value.wire.length % 8 = 0 ∧ c.len < 65536
def wire (c : SctpChunk) : Bits :=
  Bits.ofNat 8 c.type ++ (Bits.ofNat 8 c.flags ++ (Bits.ofNat 16 c.len ++ (c.value.wire ++ Bits.zeros (pad32 c.value.wire.length))))
def fields (c : SctpChunk) : List (String × Bits) :=
  [("SCTP:Chunk Type", Bits.ofNat 8 c.type), ("SCTP:Chunk Flags", Bits.ofNat 8 c.flags), ("SCTP:Chunk Length", Bits.ofNat 16 c.len)]
    ++ c.value.fields
    ++ (if pad32 c.value.wire.length > 0 then [("SCTP:Chunk Padding", Bits.zeros (pad32 c.value.wire.length))] else [])
end SctpChunk

end Schc.Spec
