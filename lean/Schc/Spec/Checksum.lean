/-
RFC 1071 one's-complement sum and RFC 9260 (appendix A) CRC-32c, written arithmetically / bit by bit —
independent of the loops in the Python code.
-/
namespace Schc.Spec

/-- one's-complement sum of 16-bit words: the ordinary sum reduced modulo 65535 into 1..65535 when it is not zero
    (0xFFFF and 0x0000 are the two representations of zero; the folded sum of non-zero data never shows 0x0000) -/
def onesSum (ws : List Nat) : Nat :=
  let s := ws.sum
  if s = 0 then 0 else (s - 1) % 65535 + 1

/-- the Internet checksum: one's complement of the one's-complement sum -/
def inetChecksum (ws : List Nat) : Nat := 0xffff - onesSum ws

/-- one step of the reflected CRC-32c division (polynomial 0x1EDC6F41, reflected 0x82F63B78) -/
def crcStep (c : Nat) : Nat := if c % 2 = 1 then (c >>> 1) ^^^ 0x82F63B78 else c >>> 1

def crcSteps : Nat → Nat → Nat
  | 0, c => c
  | n + 1, c => crcSteps n (crcStep c)

/-- table entry i: eight division steps of i -/
def crcTableEntry (i : Nat) : Nat := crcSteps 8 i

/-- bit-by-bit CRC over a byte string -/
def crcBitwise (bytes : List Nat) (init : Nat) : Nat := bytes.foldl (fun c b => crcSteps 8 (c ^^^ b)) init

end Schc.Spec
