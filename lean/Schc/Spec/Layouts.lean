/-
RFC header layouts as (field name, width in bits) tables, written from RFC 791 §3.1, RFC 8200 §3, RFC 768,
RFC 7252 §3 (first 32 bits), RFC 9260 §3.1 / §3.2 / §3.3.x (fixed parts). The property theorems compare the
tables the translator extracts from the parsers' source on every run against these.
-/
namespace Schc.Spec

def rfc791 : List (String × Nat) :=
  [("IPv4:Version", 4), ("IPv4:Header Length", 4), ("IPv4:Type of Service", 8), ("IPv4:Total Length", 16),
   ("IPv4:Identification", 16), ("IPv4:Flags", 3), ("IPv4:Fragment Offset", 13), ("IPv4:Time To Live", 8),
   ("IPv4:Protocol", 8), ("IPv4:Header Checksum", 16), ("IPv4:Source Address", 32), ("IPv4:Destination Address", 32)]

def rfc8200 : List (String × Nat) :=
  [("IPv6:Version", 4), ("IPv6:Traffic Class", 8), ("IPv6:Flow Label", 20), ("IPv6:Payload Length", 16),
   ("IPv6:Next Header", 8), ("IPv6:Hop Limit", 8), ("IPv6:Source Address", 128), ("IPv6:Destination Address", 128)]

def rfc768 : List (String × Nat) :=
  [("UDP:Source Port", 16), ("UDP:Destination Port", 16), ("UDP:Length", 16), ("UDP:Checksum", 16)]

def rfc7252Fixed : List (String × Nat) :=
  [("CoAP:Version", 2), ("CoAP:Type", 2), ("CoAP:Token Length", 4), ("CoAP:Code", 8), ("CoAP:Message ID", 16)]

def rfc9260Common : List (String × Nat) :=
  [("SCTP:Source Port", 16), ("SCTP:Destination Port", 16), ("SCTP:Verification Tag", 32), ("SCTP:Checksum", 32)]

def rfc9260ChunkHeader : List (String × Nat) := [("SCTP:Chunk Type", 8), ("SCTP:Chunk Flags", 8), ("SCTP:Chunk Length", 16)]

def rfc9260Data : List (String × Nat) :=
  [("SCTP:Data TSN", 32), ("SCTP:Data Stream Identifier S", 16), ("SCTP:Data Stream Sequence Number n", 16),
   ("SCTP:Data Payload Protocol Identifier", 32)]

def rfc9260Init (pre : String) : List (String × Nat) :=
  [(pre ++ "Initiate Tag", 32), (pre ++ "Advertised Receiver Window Credit", 32), (pre ++ "Number of Outbound Streams", 16),
   (pre ++ "Number of Inbound Streams", 16), (pre ++ "Initial TSN", 32)]

def rfc9260Sack : List (String × Nat) :=
  [("SCTP:Selective Ack Cumulative TSN Ack", 32), ("SCTP:Selective Ack Advertised Receiver Window Credit", 32),
   ("SCTP:Selective Ack Number Gap Ack Blocks", 16), ("SCTP:Selective Ack Number Duplicate TSNs", 16)]

def rfc9260Shutdown : List (String × Nat) := [("SCTP:Shutdown Cumulative TSN", 32)]
def rfc9260Parameter : List (String × Nat) := [("SCTP:Parameter Type", 16), ("SCTP:Parameter Length", 16)]

/-- (name, start, stop, position 0) rows of a width table laid out contiguously from bit `start` -/
def layoutFrom : Nat → List (String × Nat) → List (String × Nat × Option Nat × Nat)
  | _, [] => []
  | s, (n, w) :: rest => (n, s, some (s + w), 0) :: layoutFrom (s + w) rest

def totalWidth (l : List (String × Nat)) : Nat := (l.map (·.2)).sum

end Schc.Spec
