/-
Which header parser claims which field: `PacketParser.unparse` hands a parser the fields whose id CONTAINS its name
(`parser.name in f[0]`). For the stacks of the registry every field id contains the name of its own header parser
and of no other registered parser, and the payload id contains none — for the fixed layouts that is a finite check
over the regenerated tables; for the option ids of the semantic CoAP view (table names and `OPTION_UNKNOWN(n)` for
every `n`) it is a lemma about strings.
-/
import Schc.Proofs.Unparse
import Schc.Proofs.CoapSemantic
import Schc.Proofs.Tiling

namespace Schc

/-- the names of the registered header parsers (regenerated) -/
def stackNames : List String := Gen.parserNames.map (·.2)

/-- `id` contains `own` and no other registered parser name -/
def claims (own id : String) : Bool := stackNames.all (fun n => strContains id n == (n == own))

/-! ### strings -/

theorem listContains_prefix (pat rest : List Char) : listContains pat (pat ++ rest) = true := by
  cases h : pat ++ rest with
  | nil =>
    have : pat = [] := by
      cases pat with
      | nil => rfl
      | cons _ _ => simp at h
    simp [listContains, this]
  | cons c cs =>
    unfold listContains
    rw [← h]
    simp [List.isPrefixOf_iff_prefix]

theorem listContains_absent (pat : List Char) (c : Char) (hc : c ∈ pat) (s : List Char) (hs : c ∉ s) : listContains pat s = false := by
  induction s with
  | nil =>
    unfold listContains
    cases pat with
    | nil => simp at hc
    | cons _ _ => rfl
  | cons x xs ih =>
    unfold listContains
    have h1 : pat.isPrefixOf (x :: xs) = false := by
      cases hp : pat.isPrefixOf (x :: xs) with
      | false => rfl
      | true =>
        rw [List.isPrefixOf_iff_prefix] at hp
        exact absurd (hp.subset hc) hs
    rw [h1, ih (fun h => hs (List.mem_cons_of_mem _ h))]
    rfl

/-- a character of a parser name that can occur in no `OPTION_UNKNOWN(n)` id: not a digit, not a parenthesis, not in
    the rendered prefix -/
def foreignChar (c : Char) : Bool :=
  !c.isDigit && c != '(' && c != ')' && !Gen.coapUnknownPrefix.toList.contains c

theorem names_vs_unknown : stackNames.all (fun n => n == Gen.coapHeaderId || n.toList.any foreignChar) = true ∧
    Gen.coapHeaderId.toList.isPrefixOf Gen.coapUnknownPrefix.toList = true := by decide +kernel

theorem unknown_claims (n : Nat) : claims Gen.coapHeaderId (Gen.coapUnknownPrefix ++ "(" ++ natToString n ++ ")") = true := by
  unfold claims
  rw [List.all_eq_true]
  intro name hname
  have h1 := List.all_eq_true.mp names_vs_unknown.1 name hname
  unfold strContains
  rw [unknown_toList]
  by_cases hown : name = Gen.coapHeaderId
  · subst hown
    have hp := names_vs_unknown.2
    rw [List.isPrefixOf_iff_prefix] at hp
    obtain ⟨t, ht⟩ := hp
    rw [← ht, List.append_assoc, listContains_prefix]
    simp
  · have hne : (name == Gen.coapHeaderId) = false := by simpa using hown
    rw [hne] at h1 ⊢
    simp only [Bool.false_or, List.any_eq_true] at h1
    obtain ⟨c, hc, hf⟩ := h1
    unfold foreignChar at hf
    simp only [Bool.and_eq_true, Bool.not_eq_true', bne_iff_ne, ne_eq] at hf
    obtain ⟨⟨⟨hd, hl⟩, hr⟩, hp⟩ := hf
    rw [listContains_absent name.toList c hc]
    · rfl
    · intro hmem
      simp only [List.mem_append, List.mem_cons, List.mem_singleton, List.not_mem_nil, or_false] at hmem
      rcases hmem with h | h | h | h
      · have : Gen.coapUnknownPrefix.toList.contains c = true := by simpa using h
        rw [this] at hp; cases hp
      · exact hl h
      · have := Nat.isDigit_of_mem_toDigits (by decide) (by decide) h
        rw [this] at hd; cases hd
      · exact hr h

theorem table_claims : Gen.coapOptionNames.all (fun e => claims Gen.coapHeaderId e.2) = true := by decide +kernel

/-- every semantic option field id, for every option number, is claimed by the CoAP parser and by no other -/
theorem semFid_claims (index : Nat) : claims Gen.coapHeaderId (semFid index) = true := by
  unfold semFid
  cases hf : Gen.coapOptionNames.find? (·.1 == index) with
  | some e =>
    obtain ⟨k, name⟩ := e
    exact List.all_eq_true.mp table_claims (k, name) (List.mem_of_find?_eq_some hf)
  | none => exact unknown_claims index

/-! ### fixed layouts -/

theorem parseFixed_ids (layout : Layout) (b : ABuf) : (parseFixed layout b).map (·.id) = layout.map (·.1) := by
  unfold parseFixed
  simp only [List.map_map]
  apply List.map_congr_left
  intro e _
  obtain ⟨i, lo, hi, pos⟩ := e
  rfl

theorem layouts_claim :
    Gen.ipv6Layout.all (fun e => claims Gen.ipv6HeaderId e.1) = true ∧
    Gen.ipv4Layout.all (fun e => claims Gen.ipv4HeaderId e.1) = true ∧
    Gen.udpLayout.all (fun e => claims Gen.udpHeaderId e.1) = true ∧
    Gen.coapFixedLayout.all (fun e => claims Gen.coapHeaderId e.1) = true ∧
    claims Gen.coapHeaderId Gen.CoAPF.TOKEN = true ∧ claims Gen.coapHeaderId Gen.CoAPF.PAYLOAD_MARKER = true ∧
    stackNames.all (fun n => !strContains Gen.payloadId n) = true := by decide +kernel

theorem parseFixed_claims (layout : Layout) (own : String) (h : layout.all (fun e => claims own e.1) = true) (b : ABuf) :
    ∀ f ∈ parseFixed layout b, claims own f.id = true := by
  intro f hf
  have : f.id ∈ (parseFixed layout b).map (·.id) := List.mem_map_of_mem hf
  rw [parseFixed_ids] at this
  obtain ⟨e, he, hid⟩ := List.mem_map.mp this
  rw [← hid]
  exact List.all_eq_true.mp h e he

end Schc

namespace Schc

/-! ### the semantic CoAP view: every field id is claimed by the CoAP parser only -/

def AllClaimed (own : String) (fs : List Field) : Prop := ∀ f ∈ fs, claims own f.id = true

theorem allClaimed_append {own : String} {a b : List Field} (ha : AllClaimed own a) (hb : AllClaimed own b) : AllClaimed own (a ++ b) := by
  intro f hf
  rcases List.mem_append.mp hf with h | h
  · exact ha f h
  · exact hb f h

theorem step_claims (buffer : ABuf) (st st' : OptState) (h : optionStep buffer .semantic st = .ok (some st'))
    (hinv : AllClaimed Gen.coapHeaderId st.fields) : AllClaimed Gen.coapHeaderId st'.fields := by
  unfold optionStep at h
  split at h
  · simp [pure, Except.pure] at h
  · simp only [bind, Except.bind] at h
    split at h
    · simp [throw, throwThe, MonadExceptOf.throw] at h
    · have fin : ∀ (idx : Nat) (v : ABuf) (pos : Nat), AllClaimed Gen.coapHeaderId (st.fields ++ [⟨semFid idx, v, pos⟩]) := by
        intro idx v pos
        apply allClaimed_append hinv
        intro f hf
        simp only [List.mem_singleton] at hf
        subst hf
        exact semFid_claims _
      split at h
      · simp only [pure, Except.pure, Except.ok.injEq, Option.some.injEq] at h
        subst h
        exact fin _ _ _
      · split at h
        · simp only [pure, Except.pure, Except.ok.injEq, Option.some.injEq] at h
          subst h
          exact fin _ _ _
        · simp [throw, throwThe, MonadExceptOf.throw] at h

theorem loop_claims (buffer : ABuf) (fuel : Nat) (st r : OptState) (h : optionLoop buffer .semantic fuel st = .ok r)
    (hinv : AllClaimed Gen.coapHeaderId st.fields) : AllClaimed Gen.coapHeaderId r.fields := by
  induction fuel generalizing st with
  | zero => simp [optionLoop, throw, throwThe, MonadExceptOf.throw] at h
  | succ n ih =>
    unfold optionLoop at h
    simp only [bind, Except.bind] at h
    cases hs : optionStep buffer .semantic st with
    | error e => simp [hs] at h
    | ok o =>
      simp only [hs] at h
      cases o with
      | none => simp only [pure, Except.pure, Except.ok.injEq] at h; subst h; exact hinv
      | some st' => exact ih st' h (step_claims buffer st st' hs hinv)

theorem parseOptions_claims (ob : ABuf) (fuel : Nat) (fs : List Field) (c : Nat) (h : parseOptions ob .semantic fuel = .ok (fs, c)) :
    AllClaimed Gen.coapHeaderId fs := by
  unfold parseOptions at h
  simp only [bind, Except.bind] at h
  cases hl : optionLoop ob .semantic fuel {} with
  | error e => simp [hl] at h
  | ok st =>
    simp only [hl] at h
    have hst := loop_claims ob fuel {} st hl (by intro f hf; cases hf)
    split at h
    · simp only [pure, Except.pure, Except.ok.injEq, Prod.mk.injEq] at h
      rw [← h.1]
      apply allClaimed_append hst
      intro f hf
      simp only [List.mem_singleton] at hf
      subst hf
      exact layouts_claim.2.2.2.2.2.1
    · simp only [pure, Except.pure, Except.ok.injEq, Prod.mk.injEq] at h
      rw [← h.1]; exact hst

/-- every field of the semantic CoAP view is claimed by the CoAP parser and by no other registered parser -/
theorem coapParse_claims (fuel : Nat) (b : ABuf) (hm : Header) (h : coapParse .semantic fuel b = .ok hm) :
    AllClaimed Gen.coapHeaderId hm.fields := by
  unfold coapParse at h
  by_cases hlen : b.length < Gen.coapMinLength
  · simp [hlen, bind, Except.bind, throw, throwThe, MonadExceptOf.throw] at h
  · simp only [hlen, if_false, bind, Except.bind] at h
    have hfixed : AllClaimed Gen.coapHeaderId (parseFixed Gen.coapFixedLayout b) :=
      parseFixed_claims _ _ layouts_claim.2.2.2.1 b
    cases hi : idx (fieldValue (parseFixed Gen.coapFixedLayout b) Gen.CoAPF.TOKEN_LENGTH).content 0 with
    | error e => simp [hi] at h
    | ok v =>
      simp only [hi] at h
      have hhf : AllClaimed Gen.coapHeaderId (if v > 0 then parseFixed Gen.coapFixedLayout b ++ [⟨Gen.CoAPF.TOKEN, b.slice 32 (32 + v * 8), 0⟩] else parseFixed Gen.coapFixedLayout b) := by
        split
        · apply allClaimed_append hfixed
          intro f hf
          simp only [List.mem_singleton] at hf
          subst hf
          exact layouts_claim.2.2.2.2.1
        · exact hfixed
      by_cases hob : (b.from_ (32 + v * 8)).length > 0
      · simp only [hob, if_true] at h
        cases hpo : asParserError (parseOptions (b.from_ (32 + v * 8)) .semantic fuel) with
        | error e => simp [hpo] at h
        | ok r =>
          obtain ⟨ofs, consumed⟩ := r
          simp only [hpo, pure, Except.pure, Except.ok.injEq] at h
          subst h
          exact allClaimed_append hhf (parseOptions_claims _ _ _ _ (asParserError_ok _ _ hpo))
      · simp only [hob, if_false, pure, Except.pure, Except.ok.injEq] at h
        subst h
        simpa using hhf

end Schc
