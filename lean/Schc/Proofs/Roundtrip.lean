/- C01: compress then decompress (bare functions and through the context manager). -/
import Schc.Proofs.Decompress2
import Schc.Proofs.Select

namespace Schc
open Bits

/-- a descriptor whose MO/CDA pairing is lossless by construction, with the side conditions the matcher does not
    check (`Fits`): a fixed-length value-sent field has the declared length; sizes of variable residues fit the
    16-bit announcement; LSB fields are left-padded (what parsers deliver); mappings are invertible -/
def FieldFits (pf : Field) (rf : RuleField) : Prop :=
  match rf.mo, rf.cda, rf.tv with
  | .equal, .notSent, .buf _ => True
  | .ignore, .valueSent, .buf _ => if rf.length = 0 then pf.value.length < 65536 else rf.length = pf.value.length
  | .msb, .lsb, .buf t => pf.value.side = .left ∧ (rf.length = 0 → pf.value.length - t.length < 65536)
  | .matchMapping, .mappingSent, .map fwd => MappingWF fwd
  | _, _, _ => False

def AllFits : List Field → List RuleField → Prop
  | pf :: pfs, rf :: rfs => FieldFits pf rf ∧ AllFits pfs rfs
  | _, _ => True

theorem adm_ok_of_match (pf : Field) (rf : RuleField) (hm : Spec.fieldMatches pf rf = true) (hf : FieldFits pf rf) :
    Adm rf pf.value.bits ∧ FieldOK pf rf ∧ MoTypeOK rf := by
  unfold FieldFits at hf
  unfold Spec.fieldMatches at hm
  unfold Adm FieldOK MoTypeOK
  cases hmo : rf.mo <;> cases hc : rf.cda <;> cases ht : rf.tv <;> simp only [hmo, hc, ht] at hf hm ⊢
  · -- equal / not-sent
    simp only [Bool.and_eq_true, beq_iff_eq] at hm
    exact ⟨hm.2, trivial, trivial⟩
  · -- ignore / value-sent
    refine ⟨?_, ?_, trivial⟩
    · by_cases h0 : rf.length = 0
      · simp only [h0, if_true] at hf ⊢; exact hf
      · simp only [h0, if_false] at hf ⊢; exact hf.symm
    · intro h0; simp only [h0, if_true] at hf; exact hf
  · -- MSB / LSB
    rename_i t
    simp only [Bool.and_eq_true, Bool.or_eq_true, beq_iff_eq, decide_eq_true_eq] at hm
    obtain ⟨_, ⟨hfl, hle⟩, htake⟩ := hm
    have hpre : t.bits <+: pf.value.bits := by rw [← htake]; exact List.take_prefix _ _
    refine ⟨⟨hpre, ?_⟩, ⟨hf.1, hle, hf.2⟩, trivial⟩
    by_cases h0 : rf.length = 0
    · simp only [h0, if_true]; exact hf.2 h0
    · simp only [h0, if_false]
      rcases hfl with h | h
      · exact absurd h h0
      · exact h.symm
  · -- match-mapping / mapping-sent
    rename_i fwd
    simp only [Bool.and_eq_true, List.any_eq_true, beq_iff_eq] at hm
    obtain ⟨_, e, he, hev⟩ := hm
    exact ⟨⟨hf, e, he, hev⟩, ⟨e, he, hev⟩, trivial⟩

theorem all_of_match (pfs : List Field) (rfs : List RuleField) (hl : pfs.length = rfs.length)
    (hm : Spec.allMatch pfs rfs = true) (hf : AllFits pfs rfs) :
    AllAdm rfs (pfs.map (·.value.bits)) ∧ AllOK pfs rfs ∧ (∀ rf ∈ rfs, MoTypeOK rf) ∧ (∀ rf ∈ rfs, rf.cda ≠ .compute) := by
  induction pfs generalizing rfs with
  | nil =>
    cases rfs with
    | nil => exact ⟨AllAdm.nil, trivial, by simp, by simp⟩
    | cons _ _ => simp at hl
  | cons pf pfs ih =>
    cases rfs with
    | nil => simp at hl
    | cons rf rfs =>
      simp only [Spec.allMatch, Bool.and_eq_true] at hm
      obtain ⟨h1, h2, h3⟩ := adm_ok_of_match pf rf hm.1 hf.1
      obtain ⟨i1, i2, i3, i4⟩ := ih rfs (by simpa using hl) hm.2 hf.2
      refine ⟨AllAdm.cons h1 i1, ⟨h2, i2⟩, ?_, ?_⟩
      · intro x hx; rcases List.mem_cons.mp hx with e | e
        · subst e; exact h3
        · exact i3 x e
      · intro x hx; rcases List.mem_cons.mp hx with e | e
        · subst e
          have := hf.1; unfold FieldFits at this
          intro hcc; rw [hcc] at this
          cases x.mo <;> cases x.tv <;> simp at this
        · exact i4 x e

/-- the bare round trip for a compression rule all of whose descriptors apply to the packet's direction -/
theorem roundtrip_compression (p : Packet) (r : Rule) (hn : r.nature = .compression)
    (hdir : ∀ rf ∈ r.fields, Spec.dirApplies p.dir rf.dir = true)
    (happ : Spec.applicable p r = true) (hfit : AllFits p.fields r.fields)
    (hraw : p.raw.bits = p.fields.flatMap (·.value.bits) ++ p.payload.bits) :
    ∃ c, compress p r = .ok c ∧ decompress c r = .ok ⟨p.raw.bits, .right⟩ := by
  unfold Spec.applicable at happ
  rw [hn] at happ
  have hfilter : r.fields.filter (fun f => Spec.dirApplies p.dir f.dir) = r.fields := by
    rw [List.filter_eq_self]; exact hdir
  simp only [hfilter, Bool.and_eq_true, beq_iff_eq] at happ
  obtain ⟨hl, hm⟩ := happ
  obtain ⟨hadm, hok, _, hnc⟩ := all_of_match p.fields r.fields hl hm hfit
  obtain ⟨rs, h1, h2⟩ := compressFields_spec p.fields r.fields ((ABuf.empty .right).add r.id) hok
  obtain ⟨res, h3, h4⟩ := C03_nocompute r (p.fields.map (·.value.bits)) hadm hnc p.payload.bits .right
  have hres : rs = res := by
    rw [residues_eq _ _ hl] at h1; rw [h1] at h3; exact Option.some.inj h3
  refine ⟨⟨r.id.bits ++ rs ++ p.payload.bits, .right⟩, ?_, ?_⟩
  · unfold compress
    simp only [hn, h2, bind, Except.bind, pure, Except.pure]
    simp [ABuf.add, ABuf.empty]
  · rw [hres, h4, hraw]
    congr 2

end Schc
