/- C05 / C13: re-padding, equality, hashing, value() on canonical Buffers. -/
import Schc.Proofs.BufShift

namespace Schc
open Bits

theorem byteLen_ceil (n : Nat) : (n + 7) / 8 = byteLenOf n := by
  unfold byteLenOf padLenOf; split <;> omega

theorem ofABuf_content_length (a : ABuf) : (Buf.ofABuf a).content.length = byteLenOf a.length := by
  simp only [Buf.ofABuf, ABuf.length]
  rw [content_length]
  have := byteLen_eq a.bits.length
  omega

theorem append_inj_left' {α} {a b c d : List α} (h : a ++ b = c ++ d) (hl : a.length = c.length) : b = d :=
  (List.append_inj h hl).2

theorem append_inj_right' {α} {a b c d : List α} (h : a ++ b = c ++ d) (hl : b.length = d.length) : a = c :=
  (List.append_inj' h hl).1

/-- left → right: the content moves to the top of its bytes -/
theorem pad_left_to_right (bits : Bits) :
    ∃ out, Buf.shiftLeftRaw (Buf.ofABuf ⟨bits, .left⟩) (padLenOf bits.length) = .ok ⟨out, bits.length + padLenOf bits.length, .left, 0⟩ ∧
      out = (⟨bits, .right⟩ : ABuf).content := by
  have hpl := padLen_lt bits.length
  have hbl := byteLen_eq bits.length
  have hcl := ofABuf_content_length ⟨bits, .left⟩
  simp only [Buf.ofABuf, ABuf.length] at hcl
  obtain ⟨s1, s2, s3, s4⟩ := shlLoop_spec (padLenOf bits.length) (by omega) (⟨bits, .left⟩ : ABuf).content (allBytes_content _)
  refine ⟨(Buf.shlLoop (padLenOf bits.length) (⟨bits, .left⟩ : ABuf).content).1, ?_, ?_⟩
  · unfold Buf.shiftLeftRaw
    simp only [Buf.ofABuf, ABuf.length, bind, Except.bind, pure, Except.pure]
    have e1 : padLenOf bits.length % 8 = padLenOf bits.length := Nat.mod_eq_of_lt hpl
    have e2 : padLenOf bits.length / 8 = 0 := Nat.div_eq_of_lt hpl
    rw [e1, e2]
    simp only [List.replicate_zero, List.append_nil]
    have hnl : ¬ ((Buf.shlLoop (padLenOf bits.length) (⟨bits, .left⟩ : ABuf).content).1.length < (bits.length + padLenOf bits.length + 7) / 8) := by
      rw [s2, hcl]; omega
    simp only [hnl, if_false]
    congr 2
    unfold padLenOf; omega
  · apply content_right_of_bits _ s1
    rw [bytesBits_content] at s4
    simp only at s4
    have := append_inj_left' (s4.trans (List.append_assoc _ _ _)) (by simp [zeros_length])
    exact this

/-- right → left: the content moves to the bottom of its bytes -/
theorem pad_right_to_left (bits : Bits) (hp : 0 < padLenOf bits.length) :
    ∃ out, Buf.shiftRightRaw ⟨(⟨bits, .right⟩ : ABuf).content, bits.length + padLenOf bits.length, .left, padLenOf bits.length⟩ (padLenOf bits.length)
        = .ok ⟨out, bits.length, .left, padLenOf bits.length⟩ ∧ out = (⟨bits, .left⟩ : ABuf).content := by
  have hpl := padLen_lt bits.length
  have hbl := byteLen_eq bits.length
  have hcl := ofABuf_content_length ⟨bits, .right⟩
  simp only [Buf.ofABuf, ABuf.length] at hcl
  have hn : 0 < bits.length := by
    by_contra h0; have : bits.length = 0 := by omega
    rw [this] at hp; simp [padLenOf] at hp
  obtain ⟨out, s1, s2, s3, s4⟩ := shrLoopL_spec (padLenOf bits.length) (by omega) 0 (⟨bits, .right⟩ : ABuf).content (allBytes_content _)
  refine ⟨out, ?_, ?_⟩
  · unfold Buf.shiftRightRaw
    have hge : ¬ (padLenOf bits.length ≥ bits.length + padLenOf bits.length) := by omega
    simp only [hge, if_false, bind, Except.bind, pure, Except.pure]
    have e1 : padLenOf bits.length % 8 = padLenOf bits.length := Nat.mod_eq_of_lt hpl
    have e2 : padLenOf bits.length / 8 = 0 := Nat.div_eq_of_lt hpl
    rw [e1, e2]
    simp only [Nat.sub_zero, List.take_length, hp, if_true, s1]
    have hlast : lastN out ((bits.length + padLenOf bits.length - padLenOf bits.length + 7) / 8) = out := by
      unfold lastN
      rw [s3, hcl, Nat.add_sub_cancel, byteLen_ceil]; simp
    rw [hlast, Nat.add_sub_cancel]
  · apply content_left_of_bits _ s2
    rw [bytesBits_content] at s4
    simp only at s4
    have hz : (Bits.ofNat 8 0).drop (8 - padLenOf bits.length) = Bits.zeros (padLenOf bits.length) := by
      have : Bits.ofNat 8 0 = Bits.zeros 8 := by decide
      rw [this]; simp only [Bits.zeros, List.drop_replicate]; congr 1; omega
    rw [hz, ← List.append_assoc] at s4
    exact append_inj_right' s4 (by simp [zeros_length]; omega)

end Schc

namespace Schc
open Bits

theorem content_pl_zero (bits : Bits) (h : padLenOf bits.length = 0) : (⟨bits, .left⟩ : ABuf).content = (⟨bits, .right⟩ : ABuf).content := by
  simp [ABuf.content, h, Bits.zeros]

/-- `pad(padding, inplace)` on a canonical Buffer: the same bits on the requested side; the operand becomes that
    Buffer when `inplace`, and is untouched otherwise -/
theorem pad_spec (a : ABuf) (p : Pad) (ip : Bool) :
    (Buf.ofABuf a).pad p ip = .ok (Buf.ofABuf ⟨a.bits, p⟩, if ip then Buf.ofABuf ⟨a.bits, p⟩ else Buf.ofABuf a) := by
  obtain ⟨bits, side⟩ := a
  unfold Buf.pad
  by_cases hps : p = side
  · subst hps
    have : (p = (Buf.ofABuf ⟨bits, p⟩).padding) := rfl
    simp only [Buf.ofABuf, if_true]
    cases ip
    · simp only [Bool.false_eq_true, if_false, bind, Except.bind, pure, Except.pure]
      have := copy_spec ⟨bits, p⟩
      unfold Buf.copy at this
      simp only [Buf.ofABuf] at this
      rw [this]
    · simp [pure, Except.pure]
  · have hne : ¬ (p = (Buf.ofABuf ⟨bits, side⟩).padding) := hps
    simp only [hne, if_false, bind, Except.bind, copy_spec]
    have hf : Gen.padShiftInplace = true := rfl
    rw [hf]
    cases p <;> cases side <;> simp only [reduceCtorEq, not_true_eq_false, not_false_eq_true] at hps
    · -- target LEFT, self RIGHT
      simp only
      by_cases hp0 : padLenOf bits.length = 0
      · -- nothing to move
        simp only [Buf.ofABuf, ABuf.length, hp0, Buf.shift, Int.natCast_zero, if_true, pure, Except.pure, Nat.add_zero]
        cases ip <;> simp [content_pl_zero bits hp0, hp0]
      · have hp : 0 < padLenOf bits.length := Nat.pos_of_ne_zero hp0
        obtain ⟨out, h1, h2⟩ := pad_right_to_left bits hp
        have hsv : ¬ ((padLenOf bits.length : Int) = 0) := by omega
        have hneg : ¬ ((padLenOf bits.length : Int) < 0) := by omega
        simp only [Buf.ofABuf, ABuf.length, Buf.shift, hsv, if_false, if_true, hneg, Int.natAbs_natCast, bind, Except.bind, h1, pure, Except.pure, h2]
        cases ip <;> rfl
    · -- target RIGHT, self LEFT
      simp only
      by_cases hp0 : padLenOf bits.length = 0
      · simp only [Buf.ofABuf, ABuf.length, hp0, Buf.shift, Int.natCast_zero, Int.neg_zero, if_true, pure, Except.pure]
        cases ip <;> simp [content_pl_zero bits hp0, hp0]
      · have hp : 0 < padLenOf bits.length := Nat.pos_of_ne_zero hp0
        obtain ⟨out, h1, h2⟩ := pad_left_to_right bits
        have hsv : ¬ (-(padLenOf bits.length : Int) = 0) := by omega
        have hneg : (-(padLenOf bits.length : Int) < 0) := by omega
        simp only [Buf.ofABuf, ABuf.length] at h1
        simp only [Buf.ofABuf, ABuf.length, Buf.shift, hsv, if_false, if_true, hneg, Int.natAbs_neg, Int.natAbs_natCast, bind, Except.bind, h1,
          pure, Except.pure, h2]
        cases ip <;> rfl

end Schc

namespace Schc
open Bits

theorem content_inj (x y : Bits) (side : Pad) (hl : x.length = y.length)
    (h : (⟨x, side⟩ : ABuf).content = (⟨y, side⟩ : ABuf).content) : x = y := by
  have hx := bytesBits_content ⟨x, side⟩
  have hy := bytesBits_content ⟨y, side⟩
  rw [h, hy] at hx
  cases side <;> simp only [hl] at hx
  · exact (append_inj_left' hx rfl).symm
  · exact (append_inj_right' hx rfl).symm

/-- `==` between canonical Buffers is bit equality, whatever the padding sides; the operand is untouched -/
theorem eq_spec (a b : ABuf) : Buf.eq (Buf.ofABuf a) (Buf.ofABuf b) = .ok (a.beq b, Buf.ofABuf b) := by
  unfold Buf.eq
  have hf : Gen.eqPadInplace = false := rfl
  by_cases hl : (Buf.ofABuf a).length ≠ (Buf.ofABuf b).length
  · rw [if_pos hl]
    simp only [pure, Except.pure]
    congr 2
    simp only [Buf.ofABuf, ABuf.length] at hl
    simp only [ABuf.beq]
    have : ¬ a.bits = b.bits := fun e => hl (by rw [e])
    simp [this]
  · rw [if_neg hl, hf]
    simp only [bind, Except.bind, pure, Except.pure, pad_spec, Bool.false_eq_true, if_false]
    congr 2
    simp only [Buf.ofABuf, ABuf.length, ne_eq, Decidable.not_not] at hl ⊢
    simp only [ABuf.beq]
    by_cases he : a.bits = b.bits
    · simp [he]
      obtain ⟨ab, as⟩ := a
      simp only at he; subst he; rfl
    · have : ¬ (a.content = (⟨b.bits, a.side⟩ : ABuf).content) := by
        intro hc; apply he
        obtain ⟨ab, as⟩ := a
        exact content_inj ab b.bits as hl hc
      simp [he, this]

/-- what `__hash__` hashes is the left-padded canonical content: a function of the bits alone -/
theorem hashKey_spec (a : ABuf) : (Buf.ofABuf a).hashKey = .ok ((⟨a.bits, .left⟩ : ABuf).content, Buf.ofABuf a) := by
  unfold Buf.hashKey
  have hf : Gen.hashPadInplace = false := rfl
  rw [hf]
  simp only [bind, Except.bind, pure, Except.pure, pad_spec, Bool.false_eq_true, if_false]
  rfl

theorem toNat_zeros_append (k : Nat) (x : Bits) : Bits.toNat (Bits.zeros k ++ x) = Bits.toNat x := by
  rw [toNat_append]
  have : Bits.toNat (Bits.zeros k) = 0 := by
    induction k with
    | zero => rfl
    | succ k ih =>
      have : Bits.zeros (k + 1) = Bits.zeros k ++ [false] := by simp [Bits.zeros, List.replicate_succ']
      rw [this, toNat_append_single, ih]; simp
  rw [this]; simp

theorem bytesToNat_eq (c : List Nat) (hc : AllBytes c) : Buf.bytesToNat c = Bits.toNat (ABuf.bytesBits c) := by
  induction c with
  | nil => rfl
  | cons b bs ih =>
    rw [Buf.bytesToNat, bytesBits_cons, toNat_append, toNat_ofNat 8 b (hc b (by simp)), bytesBits_length, ih (fun x hx => hc x (List.mem_cons_of_mem _ hx))]
    congr 2
    rw [show (256 : Nat) = 2 ^ 8 by rfl, ← Nat.pow_mul]

/-- the tail of `value()`: mask the first byte of the left-padded content and read the bytes big-endian -/
theorem value_tail (bits : Bits) (s : Buf) :
    (if (Buf.ofABuf ⟨bits, .left⟩).length > 0 then (do
        let c0 ← idx (Buf.ofABuf ⟨bits, .left⟩).content 0
        pure (Buf.bytesToNat ((c0 &&& ((0xff >>> (Buf.ofABuf ⟨bits, .left⟩).padLen) &&& 0xff)) :: (Buf.ofABuf ⟨bits, .left⟩).content.drop 1), s) : Py (Nat × Buf))
      else pure (Buf.bytesToNat ((Buf.ofABuf ⟨bits, .left⟩).content.drop 1), s)) = .ok (Bits.toNat bits, s) := by
  have hcb := bytesBits_content ⟨bits, .left⟩
  simp only at hcb
  by_cases hn : (Buf.ofABuf ⟨bits, .left⟩).length > 0
  · simp only [hn, if_true]
    have hne : 0 < (⟨bits, .left⟩ : ABuf).bits.length := by simpa [Buf.ofABuf, ABuf.length] using hn
    obtain ⟨v, hv⟩ := idx_content_zero ⟨bits, .left⟩ hne
    simp only [Buf.ofABuf] at hv ⊢
    rw [hv]
    simp only [bind, Except.bind, pure, Except.pure]
    congr 2
    have hc : (⟨bits, .left⟩ : ABuf).content = v :: (⟨bits, .left⟩ : ABuf).content.drop 1 := by
      unfold idx at hv
      cases hcc : (⟨bits, .left⟩ : ABuf).content with
      | nil => rw [hcc] at hv; simp at hv
      | cons x xs =>
        rw [hcc] at hv
        have : x = v := by simpa [pure, Except.pure] using hv
        simp [this]
    have hab := allBytes_content ⟨bits, .left⟩
    have hmb : AllBytes ((v &&& ((0xff >>> padLenOf (⟨bits, .left⟩ : ABuf).length) &&& 0xff)) :: (⟨bits, .left⟩ : ABuf).content.drop 1) := by
      intro x hx
      rcases List.mem_cons.mp hx with h | h
      · subst h; exact Nat.lt_of_le_of_lt Nat.and_le_left (hab v (by rw [hc]; simp))
      · exact hab x (List.mem_of_mem_drop h)
    rw [bytesToNat_eq _ hmb, mask_first v _ _ (by have := padLen_lt (⟨bits, .left⟩ : ABuf).length; omega), ← hc, hcb]
    simp only [ABuf.length]
    rw [List.drop_append_of_le_length (by simp [zeros_length]), List.drop_of_length_le (by simp [zeros_length]), List.nil_append,
      toNat_zeros_append]
  · simp only [hn, if_false, pure, Except.pure]
    have h0 : bits = [] := by
      have : bits.length = 0 := by simp only [Buf.ofABuf, ABuf.length] at hn; omega
      exact List.length_eq_zero_iff.mp this
    congr 2
    simp [Buf.ofABuf, h0, ABuf.content, ABuf.packBytes, Buf.bytesToNat, Bits.toNat, padLenOf, Bits.zeros]

/-- `value()` is the unsigned big-endian integer the bits spell; the operand is untouched -/
theorem value_spec (a : ABuf) : (Buf.ofABuf a).value = .ok (Bits.toNat a.bits, Buf.ofABuf a) := by
  obtain ⟨bits, side⟩ := a
  have hf : Gen.valuePadInplace = false := rfl
  unfold Buf.value
  cases side
  · simp only [Buf.ofABuf, bind, Except.bind, pure, Except.pure]
    exact value_tail bits _
  · have hp := pad_spec ⟨bits, .right⟩ .left false
    simp only [Buf.ofABuf, Bool.false_eq_true, if_false] at hp
    simp only [Buf.ofABuf, hf, bind, Except.bind, hp]
    exact value_tail bits _

end Schc
