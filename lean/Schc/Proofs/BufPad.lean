/- C05 / C13: re-padding, equality, hashing, value() on canonical Buffers. -/
import Schc.Proofs.BufShift

namespace Schc
open Bits

theorem byteLen_ceil (n : Nat) : (n + 7) / 8 = byteLenOf n := by
  unfold byteLenOf padLenOf; split <;> omega

theorem ofABuf_content_length (a : ABuf) : (Buf.ofABuf a).content.length = byteLenOf a.length := by
  simp only [Buf.ofABuf, ABuf.length]
  rw [content_length]
  have := byteLen_eq a.bits.length
  omega

theorem append_inj_left' {α} {a b c d : List α} (h : a ++ b = c ++ d) (hl : a.length = c.length) : b = d :=
  (List.append_inj h hl).2

theorem append_inj_right' {α} {a b c d : List α} (h : a ++ b = c ++ d) (hl : b.length = d.length) : a = c :=
  (List.append_inj' h hl).1

/-- left → right: the content moves to the top of its bytes -/
theorem pad_left_to_right (bits : Bits) :
    ∃ out, Buf.shiftLeftRaw (Buf.ofABuf ⟨bits, .left⟩) (padLenOf bits.length) = .ok ⟨out, bits.length + padLenOf bits.length, .left, 0⟩ ∧
      out = (⟨bits, .right⟩ : ABuf).content := by
  have hpl := padLen_lt bits.length
  have hbl := byteLen_eq bits.length
  have hcl := ofABuf_content_length ⟨bits, .left⟩
  simp only [Buf.ofABuf, ABuf.length] at hcl
  obtain ⟨s1, s2, s3, s4⟩ := shlLoop_spec (padLenOf bits.length) (by omega) (⟨bits, .left⟩ : ABuf).content (allBytes_content _)
  refine ⟨(Buf.shlLoop (padLenOf bits.length) (⟨bits, .left⟩ : ABuf).content).1, ?_, ?_⟩
  · unfold Buf.shiftLeftRaw
    simp only [Buf.ofABuf, ABuf.length, bind, Except.bind, pure, Except.pure]
    have e1 : padLenOf bits.length % 8 = padLenOf bits.length := Nat.mod_eq_of_lt hpl
    have e2 : padLenOf bits.length / 8 = 0 := Nat.div_eq_of_lt hpl
    rw [e1, e2]
    simp only [List.replicate_zero, List.append_nil]
    have hnl : ¬ ((Buf.shlLoop (padLenOf bits.length) (⟨bits, .left⟩ : ABuf).content).1.length < (bits.length + padLenOf bits.length + 7) / 8) := by
      rw [s2, hcl]; omega
    simp only [hnl, if_false]
    congr 2
    unfold padLenOf; omega
  · apply content_right_of_bits _ s1
    rw [bytesBits_content] at s4
    simp only at s4
    have := append_inj_left' (s4.trans (List.append_assoc _ _ _)) (by simp [zeros_length])
    exact this

/-- right → left: the content moves to the bottom of its bytes -/
theorem pad_right_to_left (bits : Bits) (hp : 0 < padLenOf bits.length) :
    ∃ out, Buf.shiftRightRaw ⟨(⟨bits, .right⟩ : ABuf).content, bits.length + padLenOf bits.length, .left, padLenOf bits.length⟩ (padLenOf bits.length)
        = .ok ⟨out, bits.length, .left, padLenOf bits.length⟩ ∧ out = (⟨bits, .left⟩ : ABuf).content := by
  have hpl := padLen_lt bits.length
  have hbl := byteLen_eq bits.length
  have hcl := ofABuf_content_length ⟨bits, .right⟩
  simp only [Buf.ofABuf, ABuf.length] at hcl
  have hn : 0 < bits.length := by
    by_contra h0; have : bits.length = 0 := by omega
    rw [this] at hp; simp [padLenOf] at hp
  obtain ⟨out, s1, s2, s3, s4⟩ := shrLoopL_spec (padLenOf bits.length) (by omega) 0 (⟨bits, .right⟩ : ABuf).content (allBytes_content _)
  refine ⟨out, ?_, ?_⟩
  · unfold Buf.shiftRightRaw
    have hge : ¬ (padLenOf bits.length ≥ bits.length + padLenOf bits.length) := by omega
    simp only [hge, if_false, bind, Except.bind, pure, Except.pure]
    have e1 : padLenOf bits.length % 8 = padLenOf bits.length := Nat.mod_eq_of_lt hpl
    have e2 : padLenOf bits.length / 8 = 0 := Nat.div_eq_of_lt hpl
    rw [e1, e2]
    simp only [Nat.sub_zero, List.take_length, hp, if_true, s1]
    have hlast : lastN out ((bits.length + padLenOf bits.length - padLenOf bits.length + 7) / 8) = out := by
      unfold lastN
      rw [s3, hcl, Nat.add_sub_cancel, byteLen_ceil]; simp
    rw [hlast, Nat.add_sub_cancel]
  · apply content_left_of_bits _ s2
    rw [bytesBits_content] at s4
    simp only at s4
    have hz : (Bits.ofNat 8 0).drop (8 - padLenOf bits.length) = Bits.zeros (padLenOf bits.length) := by
      have : Bits.ofNat 8 0 = Bits.zeros 8 := by decide
      rw [this]; simp only [Bits.zeros, List.drop_replicate]; congr 1; omega
    rw [hz, ← List.append_assoc] at s4
    exact append_inj_right' s4 (by simp [zeros_length]; omega)

end Schc

namespace Schc
open Bits

theorem content_pl_zero (bits : Bits) (h : padLenOf bits.length = 0) : (⟨bits, .left⟩ : ABuf).content = (⟨bits, .right⟩ : ABuf).content := by
  simp [ABuf.content, h, Bits.zeros]

/-- `pad(padding, inplace)` on a canonical Buffer: the same bits on the requested side; the operand becomes that
    Buffer when `inplace`, and is untouched otherwise -/
theorem pad_spec (a : ABuf) (p : Pad) (ip : Bool) :
    (Buf.ofABuf a).pad p ip = .ok (Buf.ofABuf ⟨a.bits, p⟩, if ip then Buf.ofABuf ⟨a.bits, p⟩ else Buf.ofABuf a) := by
  obtain ⟨bits, side⟩ := a
  unfold Buf.pad
  by_cases hps : p = side
  · subst hps
    have : (p = (Buf.ofABuf ⟨bits, p⟩).padding) := rfl
    simp only [Buf.ofABuf, if_true]
    cases ip
    · simp only [Bool.false_eq_true, if_false, bind, Except.bind, pure, Except.pure]
      have := copy_spec ⟨bits, p⟩
      unfold Buf.copy at this
      simp only [Buf.ofABuf] at this
      rw [this]
    · simp [pure, Except.pure]
  · have hne : ¬ (p = (Buf.ofABuf ⟨bits, side⟩).padding) := hps
    simp only [hne, if_false, bind, Except.bind, copy_spec]
    have hf : Gen.padShiftInplace = true := rfl
    rw [hf]
    cases p <;> cases side <;> simp only [reduceCtorEq, not_true_eq_false, not_false_eq_true] at hps
    · -- target LEFT, self RIGHT
      simp only
      by_cases hp0 : padLenOf bits.length = 0
      · -- nothing to move
        simp only [Buf.ofABuf, ABuf.length, hp0, Buf.shift, Int.natCast_zero, if_true, pure, Except.pure, Nat.add_zero]
        cases ip <;> simp [content_pl_zero bits hp0, hp0]
      · have hp : 0 < padLenOf bits.length := Nat.pos_of_ne_zero hp0
        obtain ⟨out, h1, h2⟩ := pad_right_to_left bits hp
        have hsv : ¬ ((padLenOf bits.length : Int) = 0) := by omega
        have hneg : ¬ ((padLenOf bits.length : Int) < 0) := by omega
        simp only [Buf.ofABuf, ABuf.length, Buf.shift, hsv, if_false, if_true, hneg, Int.natAbs_natCast, bind, Except.bind, h1, pure, Except.pure, h2]
        cases ip <;> rfl
    · -- target RIGHT, self LEFT
      simp only
      by_cases hp0 : padLenOf bits.length = 0
      · simp only [Buf.ofABuf, ABuf.length, hp0, Buf.shift, Int.natCast_zero, Int.neg_zero, if_true, pure, Except.pure]
        cases ip <;> simp [content_pl_zero bits hp0, hp0]
      · have hp : 0 < padLenOf bits.length := Nat.pos_of_ne_zero hp0
        obtain ⟨out, h1, h2⟩ := pad_left_to_right bits
        have hsv : ¬ (-(padLenOf bits.length : Int) = 0) := by omega
        have hneg : (-(padLenOf bits.length : Int) < 0) := by omega
        simp only [Buf.ofABuf, ABuf.length] at h1
        simp only [Buf.ofABuf, ABuf.length, Buf.shift, hsv, if_false, if_true, hneg, Int.natAbs_neg, Int.natAbs_natCast, bind, Except.bind, h1,
          pure, Except.pure, h2]
        cases ip <;> rfl

end Schc

namespace Schc
open Bits

end Schc
