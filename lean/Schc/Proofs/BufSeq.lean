/-
Operation sequences on ONE Buffer: observations (`value()`, hash key, iteration, `len`, `==`, slices) interleaved with
in-place changes (slice assignment, in-place shift, in-place pad). The byte-level model, started from any Buffer the
constructor can return, is simulated step by step by a bit-list interpreter: what an observation returns after any
history is a function of the bits that history spells — nothing else of the past survives.
-/
import Schc.Proofs.BufAdd
import Schc.Proofs.BufEq
import Schc.Proofs.BufValue
import Schc.Proofs.BufIter
import Schc.Proofs.BufShiftGen

namespace Schc

inductive BOp
  | value | hash | iter | len
  | eq (o : ABuf)
  | slice (s e : Nat)
  | setRange (s e : Nat) (v : ABuf)
  | shiftIn (k : Int)
  | padIn (p : Pad)

inductive Obs
  | nat (n : Nat) | key (k : List Nat) | bits (l : List Nat) | bool (b : Bool) | buf (b : Buf) | none

/-- one step on the byte-level model (what `buf seq` drives on the real code) -/
def cstep (b : Buf) : BOp → Py (Buf × Obs)
  | .value => do let (v, b') ← b.value; pure (b', .nat v)
  | .hash => do let (k, b') ← b.hashKey; pure (b', .key k)
  | .iter => do let l ← b.iter; pure (b, .bits l)
  | .len => pure (b, .nat b.length)
  | .eq o => do let (r, _) ← Buf.eq b (Buf.ofABuf o); pure (b, .bool r)
  | .slice s e => do let r ← b.getRange s e; pure (b, .buf r)
  | .setRange s e v => do let b' ← b.setRange s e (Buf.ofABuf v); pure (b', .none)
  | .shiftIn k => do let (_, b') ← b.shift k true; pure (b', .none)
  | .padIn p => do let (_, b') ← b.pad p true; pure (b', .none)

/-- the same step on the bit list -/
def astep (a : ABuf) : BOp → ABuf × Obs
  | .value => (a, .nat (Bits.toNat a.bits))
  | .hash => (a, .key (⟨a.bits, .left⟩ : ABuf).content)
  | .iter => (a, .bits (a.bits.map bitNat))
  | .len => (a, .nat a.bits.length)
  | .eq o => (a, .bool (a.beq o))
  | .slice s e => (a, .buf (Buf.ofABuf (a.slice s e)))
  | .setRange s e v => (⟨a.bits.take s ++ v.bits ++ a.bits.drop e, a.side⟩, .none)
  | .shiftIn k => (specShift a k, .none)
  | .padIn p => (⟨a.bits, p⟩, .none)

/-- bounds the real code is used with (0 ≤ start ≤ stop ≤ length) -/
def OpOK (a : ABuf) : BOp → Prop
  | .slice s e => s ≤ e ∧ e ≤ a.length
  | .setRange s e _ => s ≤ e ∧ e ≤ a.length
  | _ => True

theorem cstep_sim (a : ABuf) (op : BOp) (h : OpOK a op) :
    cstep (Buf.ofABuf a) op = .ok (Buf.ofABuf (astep a op).1, (astep a op).2) := by
  cases op with
  | value =>
    have hf : Gen.valuePadInplace = false := rfl
    simp [cstep, astep, value_spec, bind, Except.bind, pure, Except.pure, hf]
  | hash =>
    have hf : Gen.hashPadInplace = false := rfl
    simp [cstep, astep, hashKey_spec, bind, Except.bind, pure, Except.pure, hf]
  | iter => simp [cstep, astep, iter_spec, bind, Except.bind, pure, Except.pure]
  | len => simp [cstep, astep, pure, Except.pure, Buf.ofABuf, ABuf.length]
  | eq o => simp [cstep, astep, eq_spec, bind, Except.bind, pure, Except.pure]
  | slice s e => simp [cstep, astep, getRange_spec a s e h.1 h.2, bind, Except.bind, pure, Except.pure]
  | setRange s e v => simp [cstep, astep, setRange_spec a v s e h.1 h.2, bind, Except.bind, pure, Except.pure]
  | shiftIn k => simp [cstep, astep, shift_spec, bind, Except.bind, pure, Except.pure]
  | padIn p => simp [cstep, astep, pad_spec, bind, Except.bind, pure, Except.pure]

/-- run a sequence, collecting the observations -/
def cseq : Buf → List BOp → Py (Buf × List Obs)
  | b, [] => pure (b, [])
  | b, op :: ops => do
    let (b', o) ← cstep b op
    let (b'', os) ← cseq b' ops
    pure (b'', o :: os)

def aseq : ABuf → List BOp → ABuf × List Obs
  | a, [] => (a, [])
  | a, op :: ops => let r := astep a op; let q := aseq r.1 ops; (q.1, r.2 :: q.2)

def SeqOK : ABuf → List BOp → Prop
  | _, [] => True
  | a, op :: ops => OpOK a op ∧ SeqOK (astep a op).1 ops

/-- the simulation, for sequences of any length -/
theorem cseq_sim (a : ABuf) (ops : List BOp) (h : SeqOK a ops) :
    cseq (Buf.ofABuf a) ops = .ok (Buf.ofABuf (aseq a ops).1, (aseq a ops).2) := by
  induction ops generalizing a with
  | nil => rfl
  | cons op ops ih =>
    obtain ⟨h1, h2⟩ := h
    simp only [cseq, aseq, cstep_sim a op h1, ih _ h2, bind, Except.bind, pure, Except.pure]

/-- results are independent of history: two histories that spell the same bits on the same side leave Buffers on which
    every further sequence of operations returns the same observations -/
theorem history_independent (a₁ a₂ : ABuf) (h₁ h₂ ops : List BOp) (ok₁ : SeqOK a₁ (h₁ ++ ops)) (ok₂ : SeqOK a₂ (h₂ ++ ops))
    (same : (aseq a₁ h₁).1 = (aseq a₂ h₂).1) :
    (cseq (Buf.ofABuf a₁) (h₁ ++ ops)).map (fun r => r.2.drop h₁.length) =
    (cseq (Buf.ofABuf a₂) (h₂ ++ ops)).map (fun r => r.2.drop h₂.length) := by
  have key : ∀ (a : ABuf) (h : List BOp), (aseq a (h ++ ops)).2.drop h.length = (aseq (aseq a h).1 ops).2 := by
    intro a h
    induction h generalizing a with
    | nil => rfl
    | cons op h ih => simp only [List.cons_append, aseq, List.length_cons, List.drop_succ_cons]; exact ih _
  rw [cseq_sim a₁ _ ok₁, cseq_sim a₂ _ ok₂]
  simp only [Except.map, key, same]

end Schc
