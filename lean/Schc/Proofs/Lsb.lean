/- `least_significant_bits` (byte slicing + bitmask on the content) returns the last k bits of a
   left-padded field value (used by C02 / C01). -/
import Schc.Proofs.Content

namespace Schc
open Bits

theorem packBytes_drop (m : Nat) (x : Bits) (j : Nat) (hj : j ≤ m) :
    (ABuf.packBytes m x).drop j = ABuf.packBytes (m - j) (x.drop (8 * j)) := by
  induction j generalizing m x with
  | zero => simp
  | succ j ih =>
    cases m with
    | zero => omega
    | succ m =>
      simp only [ABuf.packBytes, List.drop_succ_cons]
      rw [ih m (x.drop 8) (by omega), List.drop_drop]
      have e1 : m + 1 - (j + 1) = m - j := by omega
      have e2 : 8 + 8 * j = 8 * (j + 1) := by omega
      rw [e1, e2]

theorem mask_drop (b l : Nat) (h1 : 1 ≤ l) (h2 : l ≤ 7) :
    (Bits.ofNat 8 (b &&& (0xff >>> (8 - l)))).drop (8 - l) = (Bits.ofNat 8 b).drop (8 - l) := by
  apply List.ext_getElem
  · simp
  · intro i h3 h4
    simp only [List.length_drop, ofNat_length] at h3
    simp only [Bits.ofNat, List.getElem_drop, List.getElem_map, List.getElem_range, Nat.testBit_and]
    have : (0xff >>> (8 - l)).testBit (8 - 1 - (8 - l + i)) = true := by
      rw [Nat.testBit_shiftRight, show (0xff : Nat) = 2 ^ 8 - 1 by rfl, Nat.testBit_two_pow_sub_one]
      simp; omega
    rw [this, Bool.and_true]

theorem drop_append_zeros (pl : Nat) (bits : Bits) (d : Nat) (h : pl ≤ d) : (Bits.zeros pl ++ bits).drop d = bits.drop (d - pl) := by
  rw [List.drop_append, List.drop_of_length_le (by simp [zeros_length]; exact h)]
  simp [zeros_length]

/-- the byte-level residue extraction on a left-padded value is "the last k bits" -/
theorem leastSignificantBits_left (v : ABuf) (k : Nat) (hs : v.side = .left) (hk : k ≤ v.length) :
    leastSignificantBits v k = .ok ⟨v.bits.drop (v.length - k), .left⟩ := by
  obtain ⟨bits, side⟩ := v
  simp only at hs; subst hs
  simp only [ABuf.length] at hk ⊢
  generalize hn : bits.length = n at *
  have hpl := padLen_add n
  have hpl8 := padLen_lt n
  generalize hpv : padLenOf n = pl at *
  -- the content is the packing of zeros ++ bits, `m` bytes
  have hlen : (Bits.zeros pl ++ bits).length = pl + n := by simp [zeros_length, hn]
  obtain ⟨m, hm⟩ : ∃ m, n + pl = 8 * m := ⟨(n + pl) / 8, by omega⟩
  have hc : (⟨bits, .left⟩ : ABuf).content = ABuf.packBytes m (Bits.zeros pl ++ bits) := by
    simp only [ABuf.content, hn, hpv, hlen]; congr 1; omega
  have hall8 : (Bits.zeros pl ++ bits).length = 8 * m := by rw [hlen]; omega
  unfold leastSignificantBits
  rw [hc]
  have hclen : (ABuf.packBytes m (Bits.zeros pl ++ bits)).length = m := packBytes_length _ _
  by_cases hl : k % 8 > 0
  · -- a partial leading byte
    have hfull : k / 8 + 1 ≤ m := by omega
    simp only [hl, if_true, hclen, bind, Except.bind, pure, Except.pure]
    have hnot : ¬ m < k / 8 + 1 := by omega
    simp only [hnot, if_false]
    -- the byte at index m - (k/8+1)
    have hdrop := packBytes_drop m (Bits.zeros pl ++ bits) (m - (k / 8 + 1)) (by omega)
    have hmm : m - (m - (k / 8 + 1)) = k / 8 + 1 := by omega
    rw [hmm] at hdrop
    simp only [ABuf.packBytes] at hdrop
    have hidx : idx (ABuf.packBytes m (Bits.zeros pl ++ bits)) (m - (k / 8 + 1))
        = .ok (Bits.toNat (((Bits.zeros pl ++ bits).drop (8 * (m - (k / 8 + 1)))).take 8)) := by
      unfold idx
      have : (ABuf.packBytes m (Bits.zeros pl ++ bits))[m - (k / 8 + 1)]? = some (Bits.toNat (((Bits.zeros pl ++ bits).drop (8 * (m - (k / 8 + 1)))).take 8)) := by
        rw [← List.head?_drop, hdrop]; rfl
      rw [this]; rfl
    rw [hidx]
    simp only []
    -- the full bytes after it
    have hlast : (if k / 8 > 0 then lastN (ABuf.packBytes m (Bits.zeros pl ++ bits)) (k / 8) else [])
        = ABuf.packBytes (k / 8) (((Bits.zeros pl ++ bits).drop (8 * (m - (k / 8 + 1)))).drop 8) := by
      have htail := congrArg List.tail hdrop
      simp only [List.tail_cons, List.tail_drop] at htail
      split
      · unfold lastN; rw [hclen, ← htail]; congr 1; omega
      · rename_i h0
        have : k / 8 = 0 := by omega
        rw [this]; rfl
    rw [hlast]
    congr 1
    simp only [ABuf.ofBytes, bytesBits_cons]
    generalize hy : (Bits.zeros pl ++ bits).drop (8 * (m - (k / 8 + 1))) = y at *
    have hylen : y.length = 8 * (k / 8 + 1) := by rw [← hy, List.length_drop, hall8]; omega
    rw [bytesBits_packBytes (k / 8) (y.drop 8) (by simp [hylen]; omega)]
    have h8 : (y.take 8).length = 8 := by simp [hylen]; omega
    have hb := ofNat_toNat (y.take 8); rw [h8] at hb
    have hsl : (Bits.ofNat 8 (Bits.toNat (List.take 8 y) &&& 255 >>> (8 - k % 8)) ++ List.drop 8 y).length = 8 * (k / 8 + 1) := by
      simp [hylen]; omega
    have hz : k - 8 * (k / 8 + 1) = 0 := by omega
    have hd : 8 * (k / 8 + 1) - k = 8 - k % 8 := by omega
    simp only [hsl, hz, hd, Bits.zeros, List.replicate_zero, List.nil_append]
    rw [List.drop_append_of_le_length (by simp <;> omega), mask_drop _ _ (by omega) (by omega), hb]
    rw [← List.drop_append_of_le_length (by simp [h8]), List.take_append_drop, ← hy, List.drop_drop]
    have hz2 := drop_append_zeros pl bits (8 * (m - (k / 8 + 1)) + (8 - k % 8)) (by omega)
    rw [hz2]
    have e : 8 * (m - (k / 8 + 1)) + (8 - k % 8) - pl = n - k := by omega
    rw [e]
  · -- only whole bytes
    have hl0 : k % 8 = 0 := by omega
    simp only [hl, if_false, bind, Except.bind, pure, Except.pure]
    congr 1
    have hfull : k / 8 ≤ m := by omega
    have hres : (if k / 8 > 0 then lastN (ABuf.packBytes m (Bits.zeros pl ++ bits)) (k / 8) else [])
        = ABuf.packBytes (k / 8) ((Bits.zeros pl ++ bits).drop (8 * (m - k / 8))) := by
      split
      · unfold lastN; rw [hclen, packBytes_drop _ _ _ (by omega)]; congr 1; omega
      · rename_i h0
        have : k / 8 = 0 := by omega
        rw [this]; rfl
    rw [hres]
    simp only [ABuf.ofBytes]
    rw [bytesBits_packBytes _ _ (by simp [hall8]; omega)]
    have hl2 : ((Bits.zeros pl ++ bits).drop (8 * (m - k / 8))).length = k := by simp [hall8]; omega
    rw [hl2]
    simp only [Nat.sub_self, Bits.zeros, List.replicate_zero, List.nil_append, List.drop_zero]
    have := drop_append_zeros pl bits (8 * (m - k / 8)) (by omega)
    simp only [Bits.zeros] at this
    rw [this]
    have e : 8 * (m - k / 8) - pl = n - k := by omega
    rw [e]
    have e3 : (List.drop (n - k) bits).length - k = 0 := by simp [hn]; omega
    rw [e3, List.drop_zero]

end Schc
