/- C01 / C09: on an IPv6 / UDP field list the compute functions regenerate length and checksum fields. -/
import Schc.Proofs.RoundtripCompute
import Schc.Proofs.ComputeTotal

namespace Schc
open Bits Compute

/-- the field list of an IPv6 / UDP packet (what follows UDP — CoAP fields, payload — is `rest`) -/
def stack6 (a0 a1 a2 a3 a4 a5 a6 a7 u0 u1 u2 u3 : ABuf) (rest : Fields) : Fields :=
  (Gen.IPv6F.VERSION, a0) :: (Gen.IPv6F.TRAFFIC_CLASS, a1) :: (Gen.IPv6F.FLOW_LABEL, a2) :: (Gen.IPv6F.PAYLOAD_LENGTH, a3) ::
  (Gen.IPv6F.NEXT_HEADER, a4) :: (Gen.IPv6F.HOP_LIMIT, a5) :: (Gen.IPv6F.SRC_ADDRESS, a6) :: (Gen.IPv6F.DST_ADDRESS, a7) ::
  (Gen.UDPF.SOURCE_PORT, u0) :: (Gen.UDPF.DESTINATION_PORT, u1) :: (Gen.UDPF.LENGTH, u2) :: (Gen.UDPF.CHECKSUM, u3) :: rest

/-- the UDP header and what follows it, as one buffer -/
def upOf (u0 u1 u2 u3 : ABuf) (rest : Fields) : ABuf := (rest.map (·.2)).foldl ABuf.add (((u0.add u1).add u2).add u3)

theorem compute_pl (fs : Fields) (pos : Nat) : Compute.compute Gen.IPv6F.PAYLOAD_LENGTH fs pos = ipv6PayloadLength fs pos := rfl
theorem compute_ul (fs : Fields) (pos : Nat) : Compute.compute Gen.UDPF.LENGTH fs pos = udpLength fs pos := rfl
theorem compute_uc (fs : Fields) (pos : Nat) : Compute.compute Gen.UDPF.CHECKSUM fs pos = udpChecksum fs pos := rfl

theorem upOf_length (u0 u1 u2 u3 : ABuf) (rest : Fields) :
    (upOf u0 u1 u2 u3 rest).length = u0.length + u1.length + u2.length + u3.length + (rest.map (·.2.length)).sum := by
  unfold upOf
  have := concat_length (((u0.add u1).add u2).add u3) (rest.map (·.2))
  unfold concat at this
  rw [this, List.map_map]
  have e : List.map (ABuf.length ∘ fun x : String × ABuf => x.snd) rest = List.map (fun x => x.snd.length) rest := rfl
  rw [e]
  simp only [add_length]

/-- IPv6 payload length at position 3 -/
theorem step_pl (a0 a1 a2 a3 a4 a5 a6 a7 u0 u1 u2 u3 : ABuf) (rest : Fields) :
    Compute.compute Gen.IPv6F.PAYLOAD_LENGTH (stack6 a0 a1 a2 a3 a4 a5 a6 a7 u0 u1 u2 u3 rest) 3 =
      natBuf 2 (ceilBytes (upOf u0 u1 u2 u3 rest).length) := by
  rw [compute_pl]
  unfold ipv6PayloadLength
  have hd : (stack6 a0 a1 a2 a3 a4 a5 a6 a7 u0 u1 u2 u3 rest).drop (3 + 5) =
      (Gen.UDPF.SOURCE_PORT, u0) :: (Gen.UDPF.DESTINATION_PORT, u1) :: (Gen.UDPF.LENGTH, u2) :: (Gen.UDPF.CHECKSUM, u3) :: rest := rfl
  rw [hd]
  have hl : (concat (ABuf.empty .left) (((Gen.UDPF.SOURCE_PORT, u0) :: (Gen.UDPF.DESTINATION_PORT, u1) :: (Gen.UDPF.LENGTH, u2) :: (Gen.UDPF.CHECKSUM, u3) :: rest).map (·.2))).length
      = (upOf u0 u1 u2 u3 rest).length := by
    rw [concat_length, upOf_length]
    have e : List.map (ABuf.length ∘ fun x : String × ABuf => x.snd) rest = List.map (fun x => x.snd.length) rest := rfl
    simp only [List.map_cons, List.sum_cons, List.map_map, e]
    have : (ABuf.empty .left).length = 0 := rfl
    omega
  simp only [hl, bind, Except.bind]

end Schc

namespace Schc
open Bits Compute

theorem stack6_length (a0 a1 a2 a3 a4 a5 a6 a7 u0 u1 u2 u3 : ABuf) (rest : Fields) :
    (stack6 a0 a1 a2 a3 a4 a5 a6 a7 u0 u1 u2 u3 rest).length = 12 + rest.length := by simp [stack6]; omega

theorem stack6_drop8 (a0 a1 a2 a3 a4 a5 a6 a7 u0 u1 u2 u3 : ABuf) (rest : Fields) :
    (stack6 a0 a1 a2 a3 a4 a5 a6 a7 u0 u1 u2 u3 rest).drop 8 =
      (Gen.UDPF.SOURCE_PORT, u0) :: (Gen.UDPF.DESTINATION_PORT, u1) :: (Gen.UDPF.LENGTH, u2) :: (Gen.UDPF.CHECKSUM, u3) :: rest := rfl

theorem concat1_up (u0 u1 u2 u3 : ABuf) (rest : Fields) :
    concat1 (((Gen.UDPF.SOURCE_PORT, u0) :: (Gen.UDPF.DESTINATION_PORT, u1) :: (Gen.UDPF.LENGTH, u2) :: (Gen.UDPF.CHECKSUM, u3) :: rest).map (·.2))
      = .ok (upOf u0 u1 u2 u3 rest) := by
  simp [concat1, upOf, pure, Except.pure]

/-- UDP length at position 10 -/
theorem step_ul (a0 a1 a2 a3 a4 a5 a6 a7 u0 u1 u2 u3 : ABuf) (rest : Fields) :
    Compute.compute Gen.UDPF.LENGTH (stack6 a0 a1 a2 a3 a4 a5 a6 a7 u0 u1 u2 u3 rest) 10 =
      natBuf 2 (ceilBytes (upOf u0 u1 u2 u3 rest).length) := by
  rw [compute_ul]
  unfold udpLength
  have hs : pySlice (stack6 a0 a1 a2 a3 a4 a5 a6 a7 u0 u1 u2 u3 rest) ((10 : Nat) - 2 : Int) none =
      (stack6 a0 a1 a2 a3 a4 a5 a6 a7 u0 u1 u2 u3 rest).drop 8 := by
    have hl := stack6_length a0 a1 a2 a3 a4 a5 a6 a7 u0 u1 u2 u3 rest
    simp only [pySlice, hl]
    have h1 : ¬ (((10 : Nat) : Int) - 2 < 0) := by omega
    simp only [h1, if_false]
    have h2 : (min (((10 : Nat) : Int) - 2) ((12 + rest.length : Nat) : Int)).toNat = 8 := by omega
    rw [h2]
    exact List.take_of_length_le (by simp [hl])
  rw [hs, stack6_drop8, concat1_up]
  simp only [bind, Except.bind]

theorem strContains_dst6 : strContains Gen.IPv6F.DST_ADDRESS Gen.ipv6HeaderId = true := by decide

/-- UDP checksum at position 11: the pseudo-header is built from fields 6 and 7 (source, destination) and the UDP length -/
theorem step_uc (a0 a1 a2 a3 a4 a5 a6 a7 u0 u1 u2 u3 : ABuf) (rest : Fields) :
    Compute.compute Gen.UDPF.CHECKSUM (stack6 a0 a1 a2 a3 a4 a5 a6 a7 u0 u1 u2 u3 rest) 11 =
      (do let len ← natBuf 4 (ceilBytes (upOf u0 u1 u2 u3 rest).length)
          udpChecksumOf ((((a6.add a7).add len).add (ABuf.ofNat 24 0)).add (ABuf.ofNat 8 0x11)) (upOf u0 u1 u2 u3 rest)) := by
  rw [compute_uc]
  unfold udpChecksum
  have h4 : ¬ ((11 : Nat) < 4) := by decide
  simp only [h4, if_false, bind, Except.bind]
  have hids : ((stack6 a0 a1 a2 a3 a4 a5 a6 a7 u0 u1 u2 u3 rest).map (·.1))[11 - 4]? = some Gen.IPv6F.DST_ADDRESS := rfl
  rw [hids]
  simp only [pure, Except.pure]
  have hd : (stack6 a0 a1 a2 a3 a4 a5 a6 a7 u0 u1 u2 u3 rest).drop (11 - 3) =
      (Gen.UDPF.SOURCE_PORT, u0) :: (Gen.UDPF.DESTINATION_PORT, u1) :: (Gen.UDPF.LENGTH, u2) :: (Gen.UDPF.CHECKSUM, u3) :: rest := rfl
  rw [hd, concat1_up]
  simp only [strContains_dst6, if_true]
  have hfb : findBackwards ((stack6 a0 a1 a2 a3 a4 a5 a6 a7 u0 u1 u2 u3 rest).map (·.1)) (11 - 4) Gen.IPv6F.SRC_ADDRESS = .ok 1 := by
    unfold findBackwards
    have : (List.range (11 - 4)).find? (fun off => ((stack6 a0 a1 a2 a3 a4 a5 a6 a7 u0 u1 u2 u3 rest).map (·.1))[11 - 4 - off]? == some Gen.IPv6F.SRC_ADDRESS) = some 1 := by
      rfl
    rw [this]; rfl
  rw [hfb]
  simp only
  have g6 : getField (stack6 a0 a1 a2 a3 a4 a5 a6 a7 u0 u1 u2 u3 rest) (11 - 4 - 1) = .ok a6 := rfl
  have g7 : getField (stack6 a0 a1 a2 a3 a4 a5 a6 a7 u0 u1 u2 u3 rest) (11 - 4 - 1 + 1) = .ok a7 := rfl
  rw [g6, g7]

end Schc

namespace Schc
open Bits Compute

/-! ### the checksum arithmetic only looks at bits -/

theorem foldSum_bits (x y : ABuf) (h : x.bits = y.bits) (p : Bool) : foldSum (x.chunks 16 p) = foldSum (y.chunks 16 p) := by
  unfold foldSum ABuf.chunks
  rw [List.foldl_map, List.foldl_map, h]
  rfl

theorem udpChecksumOf_bits (ps ps' up up' : ABuf) (h1 : ps.bits = ps'.bits) (h2 : up.bits = up'.bits) :
    udpChecksumOf ps up = udpChecksumOf ps' up' := by
  unfold udpChecksumOf
  rw [foldSum_bits ps ps' h1, foldSum_bits up up' h2]

theorem upOf_bits (u0 u1 u2 u3 : ABuf) (rest : Fields) :
    (upOf u0 u1 u2 u3 rest).bits = u0.bits ++ u1.bits ++ u2.bits ++ u3.bits ++ rest.flatMap (·.2.bits) := by
  unfold upOf
  rw [foldl_add_bits]
  simp [ABuf.add, List.flatMap_map]

/-- the one-bit-pattern placeholder the decompressor puts at a compute position -/
def ph (n : Nat) : ABuf := ⟨Bits.zeros n, .left⟩

/-- an IPv6 / UDP packet whose length fields and UDP checksum are what RFC 8200 / RFC 768 prescribe -/
structure Valid6 (a3 a6 a7 u0 u1 u2 u3 : ABuf) (rest : Fields) : Prop where
  n_lt : ceilBytes (upOf u0 u1 u2 u3 rest).length < 65536
  l2 : u2.bits.length = 16
  l3 : u3.bits.length = 16
  pl : a3.bits = Bits.ofNat 16 (ceilBytes (upOf u0 u1 u2 u3 rest).length)
  ul : u2.bits = Bits.ofNat 16 (ceilBytes (upOf u0 u1 u2 u3 rest).length)
  ck : ∃ c, udpChecksumOf ((((a6.add a7).add (ABuf.ofNat 32 (ceilBytes (upOf u0 u1 u2 u3 rest).length))).add (ABuf.ofNat 24 0)).add (ABuf.ofNat 8 0x11))
        (upOf u0 u1 u2 (ph 16) rest) = .ok c ∧ c.bits = u3.bits

theorem natBuf2 (n : Nat) (h : n < 65536) : natBuf 2 n = .ok (ABuf.ofNat 16 n) := natBuf_ok 2 n (by simpa using h)
theorem natBuf4 (n : Nat) (h : n < 65536) : natBuf 4 n = .ok (ABuf.ofNat 32 n) := natBuf_ok 4 n (by simp; omega)

theorem upOf_len_congr (u0 u1 u2 u3 u2' u3' : ABuf) (rest : Fields) (h2 : u2'.length = u2.length) (h3 : u3'.length = u3.length) :
    (upOf u0 u1 u2' u3' rest).length = (upOf u0 u1 u2 u3 rest).length := by
  rw [upOf_length, upOf_length, h2, h3]

end Schc

namespace Schc
open Bits Compute

theorem ofNat_bits (n v : Nat) : (ABuf.ofNat n v).bits = Bits.ofNat n v := rfl

theorem run_pl (es : List ComputeEntry) (a0 a1 a2 a3 a4 a5 a6 a7 u0 u1 u2 u3 : ABuf) (rest : Fields)
    (hn : ceilBytes (upOf u0 u1 u2 u3 rest).length < 65536) :
    runComputes (⟨3, Gen.IPv6F.PAYLOAD_LENGTH⟩ :: es) (stack6 a0 a1 a2 a3 a4 a5 a6 a7 u0 u1 u2 u3 rest) =
      runComputes es (stack6 a0 a1 a2 (ABuf.ofNat 16 (ceilBytes (upOf u0 u1 u2 u3 rest).length)) a4 a5 a6 a7 u0 u1 u2 u3 rest) := by
  simp only [runComputes, step_pl, natBuf2 _ hn, bind, Except.bind]
  rfl

theorem run_ul (es : List ComputeEntry) (a0 a1 a2 a3 a4 a5 a6 a7 u0 u1 u2 u3 : ABuf) (rest : Fields)
    (hn : ceilBytes (upOf u0 u1 u2 u3 rest).length < 65536) :
    runComputes (⟨10, Gen.UDPF.LENGTH⟩ :: es) (stack6 a0 a1 a2 a3 a4 a5 a6 a7 u0 u1 u2 u3 rest) =
      runComputes es (stack6 a0 a1 a2 a3 a4 a5 a6 a7 u0 u1 (ABuf.ofNat 16 (ceilBytes (upOf u0 u1 u2 u3 rest).length)) u3 rest) := by
  simp only [runComputes, step_ul, natBuf2 _ hn, bind, Except.bind]
  rfl

theorem run_uc (es : List ComputeEntry) (a0 a1 a2 a3 a4 a5 a6 a7 u0 u1 u2 u3 c : ABuf) (rest : Fields)
    (hn : ceilBytes (upOf u0 u1 u2 u3 rest).length < 65536)
    (hc : udpChecksumOf ((((a6.add a7).add (ABuf.ofNat 32 (ceilBytes (upOf u0 u1 u2 u3 rest).length))).add (ABuf.ofNat 24 0)).add (ABuf.ofNat 8 0x11))
        (upOf u0 u1 u2 u3 rest) = .ok c) :
    runComputes (⟨11, Gen.UDPF.CHECKSUM⟩ :: es) (stack6 a0 a1 a2 a3 a4 a5 a6 a7 u0 u1 u2 u3 rest) =
      runComputes es (stack6 a0 a1 a2 a3 a4 a5 a6 a7 u0 u1 u2 c rest) := by
  simp only [runComputes, step_uc, natBuf4 _ hn, bind, Except.bind, hc]
  rfl

theorem stack6_bits (a0 a1 a2 a3 a4 a5 a6 a7 u0 u1 u2 u3 : ABuf) (rest : Fields) :
    (stack6 a0 a1 a2 a3 a4 a5 a6 a7 u0 u1 u2 u3 rest).flatMap (·.2.bits) =
      a0.bits ++ (a1.bits ++ (a2.bits ++ (a3.bits ++ (a4.bits ++ (a5.bits ++ (a6.bits ++ (a7.bits ++
        (u0.bits ++ (u1.bits ++ (u2.bits ++ (u3.bits ++ rest.flatMap (·.2.bits)))))))))))) := by
  simp [stack6]

/-- on a valid IPv6 / UDP packet, whichever of payload length, UDP length and UDP checksum were elided (zero
    placeholders of 16 bits), running their compute functions in the decompressor's order gives the packet's bits back -/
theorem restore6 (a0 a1 a2 a3 a4 a5 a6 a7 u0 u1 u2 u3 : ABuf) (rest : Fields) (hv : Valid6 a3 a6 a7 u0 u1 u2 u3 rest)
    (c3 c10 c11 : Bool) :
    ∃ res, runComputes (sortEntries ((if c3 then [(⟨3, Gen.IPv6F.PAYLOAD_LENGTH⟩ : ComputeEntry)] else []) ++
          ((if c10 then [⟨10, Gen.UDPF.LENGTH⟩] else []) ++ (if c11 then [⟨11, Gen.UDPF.CHECKSUM⟩] else []))))
        (stack6 a0 a1 a2 (if c3 then ph 16 else a3) a4 a5 a6 a7 u0 u1 (if c10 then ph 16 else u2) (if c11 then ph 16 else u3) rest) = .ok res ∧
      res.flatMap (·.2.bits) = (stack6 a0 a1 a2 a3 a4 a5 a6 a7 u0 u1 u2 u3 rest).flatMap (·.2.bits) := by
  obtain ⟨hn, l2, l3, hpl, hul, c, hck, hcb⟩ := hv
  have hph : (ph 16).length = 16 := by simp [ph, ABuf.length, zeros_length]
  have hl2 : u2.length = 16 := l2
  have hl3 : u3.length = 16 := l3
  have hon : ∀ k, (ABuf.ofNat 16 k).length = 16 := fun k => ofNat_len 16 k
  -- every variant of the list has the same UDP length
  have hlen : ∀ x y : ABuf, x.length = 16 → y.length = 16 → (upOf u0 u1 x y rest).length = (upOf u0 u1 u2 u3 rest).length :=
    fun x y hx hy => upOf_len_congr u0 u1 u2 u3 x y rest (by rw [hx, hl2]) (by rw [hy, hl3])
  -- the checksum over any variant whose length field spells the right bits and whose checksum field is zero
  have hck' : ∀ x : ABuf, x.bits = u2.bits →
      udpChecksumOf ((((a6.add a7).add (ABuf.ofNat 32 (ceilBytes (upOf u0 u1 u2 u3 rest).length))).add (ABuf.ofNat 24 0)).add (ABuf.ofNat 8 0x11))
        (upOf u0 u1 x (ph 16) rest) = .ok c := by
    intro x hx
    rw [← hck]
    exact udpChecksumOf_bits _ _ _ _ rfl (by rw [upOf_bits, upOf_bits, hx])
  have hbU : (ABuf.ofNat 16 (ceilBytes (upOf u0 u1 u2 u3 rest).length)).bits = u2.bits := by rw [hul]; rfl
  have hbP : (ABuf.ofNat 16 (ceilBytes (upOf u0 u1 u2 u3 rest).length)).bits = a3.bits := by rw [hpl]; rfl
  cases c3 <;> cases c10 <;> cases c11 <;>
    simp only [Bool.false_eq_true, if_false, if_true, List.nil_append, List.append_nil, List.singleton_append]
  · exact ⟨_, rfl, rfl⟩
  · have hs : sortEntries [(⟨11, Gen.UDPF.CHECKSUM⟩ : ComputeEntry)] = [⟨11, Gen.UDPF.CHECKSUM⟩] := rfl
    rw [hs, run_uc [] _ _ _ _ _ _ _ _ _ _ _ _ c rest (by rw [hlen _ _ hl2 hph]; exact hn) (by rw [hlen _ _ hl2 hph]; exact hck' u2 rfl)]
    exact ⟨_, rfl, by simp only [stack6_bits, ofNat_bits, hpl, hul, hcb]⟩
  · have hs : sortEntries [(⟨10, Gen.UDPF.LENGTH⟩ : ComputeEntry)] = [⟨10, Gen.UDPF.LENGTH⟩] := rfl
    rw [hs, run_ul [] _ _ _ _ _ _ _ _ _ _ _ _ rest (by rw [hlen _ _ hph hl3]; exact hn), hlen _ _ hph hl3]
    exact ⟨_, rfl, by simp only [stack6_bits, ofNat_bits, hpl, hul]⟩
  · have hs : sortEntries [(⟨10, Gen.UDPF.LENGTH⟩ : ComputeEntry), ⟨11, Gen.UDPF.CHECKSUM⟩] = [⟨10, Gen.UDPF.LENGTH⟩, ⟨11, Gen.UDPF.CHECKSUM⟩] := rfl
    rw [hs, run_ul _ _ _ _ _ _ _ _ _ _ _ _ _ rest (by rw [hlen _ _ hph hph]; exact hn), hlen _ _ hph hph,
      run_uc [] _ _ _ _ _ _ _ _ _ _ _ _ c rest (by rw [hlen _ _ (hon _) hph]; exact hn) (by rw [hlen _ _ (hon _) hph]; exact hck' _ hbU)]
    exact ⟨_, rfl, by simp only [stack6_bits, ofNat_bits, hpl, hul, hcb]⟩
  · have hs : sortEntries [(⟨3, Gen.IPv6F.PAYLOAD_LENGTH⟩ : ComputeEntry)] = [⟨3, Gen.IPv6F.PAYLOAD_LENGTH⟩] := rfl
    rw [hs, run_pl [] _ _ _ _ _ _ _ _ _ _ _ _ rest hn]
    exact ⟨_, rfl, by simp only [stack6_bits, ofNat_bits, hpl, hul]⟩
  · have hs : sortEntries [(⟨3, Gen.IPv6F.PAYLOAD_LENGTH⟩ : ComputeEntry), ⟨11, Gen.UDPF.CHECKSUM⟩] = [⟨3, Gen.IPv6F.PAYLOAD_LENGTH⟩, ⟨11, Gen.UDPF.CHECKSUM⟩] := rfl
    rw [hs, run_pl _ _ _ _ _ _ _ _ _ _ _ _ _ rest (by rw [hlen _ _ hl2 hph]; exact hn), hlen _ _ hl2 hph,
      run_uc [] _ _ _ _ _ _ _ _ _ _ _ _ c rest (by rw [hlen _ _ hl2 hph]; exact hn) (by rw [hlen _ _ hl2 hph]; exact hck' u2 rfl)]
    exact ⟨_, rfl, by simp only [stack6_bits, ofNat_bits, hpl, hul, hcb]⟩
  · have hs : sortEntries [(⟨3, Gen.IPv6F.PAYLOAD_LENGTH⟩ : ComputeEntry), ⟨10, Gen.UDPF.LENGTH⟩] = [⟨3, Gen.IPv6F.PAYLOAD_LENGTH⟩, ⟨10, Gen.UDPF.LENGTH⟩] := rfl
    rw [hs, run_pl _ _ _ _ _ _ _ _ _ _ _ _ _ rest (by rw [hlen _ _ hph hl3]; exact hn), hlen _ _ hph hl3,
      run_ul [] _ _ _ _ _ _ _ _ _ _ _ _ rest (by rw [hlen _ _ hph hl3]; exact hn), hlen _ _ hph hl3]
    exact ⟨_, rfl, by simp only [stack6_bits, ofNat_bits, hpl, hul]⟩
  · have hs : sortEntries [(⟨3, Gen.IPv6F.PAYLOAD_LENGTH⟩ : ComputeEntry), ⟨10, Gen.UDPF.LENGTH⟩, ⟨11, Gen.UDPF.CHECKSUM⟩] =
        [⟨3, Gen.IPv6F.PAYLOAD_LENGTH⟩, ⟨10, Gen.UDPF.LENGTH⟩, ⟨11, Gen.UDPF.CHECKSUM⟩] := rfl
    rw [hs, run_pl _ _ _ _ _ _ _ _ _ _ _ _ _ rest (by rw [hlen _ _ hph hph]; exact hn), hlen _ _ hph hph,
      run_ul _ _ _ _ _ _ _ _ _ _ _ _ _ rest (by rw [hlen _ _ hph hph]; exact hn), hlen _ _ hph hph,
      run_uc [] _ _ _ _ _ _ _ _ _ _ _ _ c rest (by rw [hlen _ _ (hon _) hph]; exact hn) (by rw [hlen _ _ (hon _) hph]; exact hck' _ hbU)]
    exact ⟨_, rfl, by simp only [stack6_bits, ofNat_bits, hpl, hul, hcb]⟩

end Schc
