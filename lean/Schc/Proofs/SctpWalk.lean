/- C08: the SCTP walks (chunks, parameters, SACK blocks) cut RFC 9260 packets at their field boundaries. -/
import Schc.Proofs.CoapWalk
import Schc.Spec.Sctp

namespace Schc
open Bits Spec

/-- RFC (name, bits) fields as (id, LEFT-padded Buffer) pairs -/
def leftPairs (fs : List (String × Bits)) : List (String × ABuf) := fs.map fun p => (p.1, ⟨p.2, .left⟩)

@[simp] theorem leftPairs_append (a b : List (String × Bits)) : leftPairs (a ++ b) = leftPairs a ++ leftPairs b := by simp [leftPairs]
@[simp] theorem leftPairs_nil : leftPairs [] = [] := rfl

/-- a fixed layout laid over its own encoding: every slice is the row's value -/
theorem parseFixed_rows (rows : Rows) (pre rest : Bits) :
    pairs (parseFixed (Spec.layoutFrom pre.length (rowsWidths rows)) ⟨pre ++ (rowsBits rows ++ rest), .left⟩) = leftPairs (rowsFields rows) := by
  induction rows generalizing pre with
  | nil => rfl
  | cons r rs ih =>
    obtain ⟨n, w, v⟩ := r
    have hb : pre ++ (rowsBits ((n, w, v) :: rs) ++ rest) = (pre ++ Bits.ofNat w v) ++ (rowsBits rs ++ rest) := by
      simp [rowsBits, List.append_assoc]
    have ih' := ih (pre ++ Bits.ofNat w v)
    rw [← hb] at ih'
    simp only [List.length_append, ofNat_length] at ih'
    generalize hB : (⟨pre ++ (rowsBits ((n, w, v) :: rs) ++ rest), .left⟩ : ABuf) = B at *
    have e1 : parseFixed (Spec.layoutFrom pre.length (rowsWidths ((n, w, v) :: rs))) B =
        ⟨n, B.slice pre.length (pre.length + w), 0⟩ :: parseFixed (Spec.layoutFrom (pre.length + w) (rowsWidths rs)) B := by
      simp [rowsWidths, Spec.layoutFrom, parseFixed]
    have e2 : B.slice pre.length (pre.length + w) = ⟨Bits.ofNat w v, .left⟩ := by
      rw [← hB]
      simp only [ABuf.slice]
      congr 1
      have : pre ++ (rowsBits ((n, w, v) :: rs) ++ rest) = pre ++ (Bits.ofNat w v ++ (rowsBits rs ++ rest)) := by simp [rowsBits, List.append_assoc]
      rw [this]
      exact slice_mid pre _ _ _ _ rfl (by simp)
    rw [e1, e2]
    show (n, (⟨Bits.ofNat w v, .left⟩ : ABuf)) :: pairs _ = _
    rw [ih']
    rfl

theorem pad32_lt (n : Nat) : pad32 n < 32 := by unfold pad32; omega
theorem pad32_add32 (n : Nat) : pad32 (32 + n) = pad32 n := by unfold pad32; omega
theorem pad32_dvd (n : Nat) : (n + pad32 n) % 32 = 0 := by unfold pad32; omega

end Schc

namespace Schc
open Bits Spec

theorem zeros_len (n : Nat) : (Bits.zeros n).length = n := zeros_length n

theorem value_ofNat (w v : Nat) (side : Pad) (h : v < 2 ^ w) : (⟨Bits.ofNat w v, side⟩ : ABuf).value = v := toNat_ofNat w v h

/-- `_parse_parameter` on an RFC-encoded parameter followed by anything -/
theorem sctpParameter_encoded (p : SctpParam) (hw : p.Wf) (rest : Bits) :
    ∃ fs, sctpParameter ⟨p.wire ++ rest, .left⟩ = .ok (fs, p.wire.length) ∧ pairs fs = leftPairs p.fields := by
  obtain ⟨w1, w2⟩ := hw
  have hlen8 : p.value.length = (p.len - 4) * 8 := by unfold SctpParam.len; omega
  generalize hB : (⟨p.wire ++ rest, .left⟩ : ABuf) = B
  have hbits : B.bits = Bits.ofNat 16 p.type ++ (Bits.ofNat 16 p.len ++ (p.value ++ (Bits.zeros (pad32 p.value.length) ++ rest))) := by
    rw [← hB]; simp [SctpParam.wire, List.append_assoc]
  have hside : B.side = .left := by rw [← hB]
  have hBl : B.length = 32 + p.value.length + pad32 p.value.length + rest.length := by
    simp only [ABuf.length, hbits, List.length_append, ofNat_length, zeros_len]; omega
  -- the two header slices
  have hty : B.slice 0 16 = ⟨Bits.ofNat 16 p.type, .left⟩ := by
    simp only [ABuf.slice, hside, hbits]; congr 1
    all_goals first
      | rfl
      | (have := slice_head (Bits.ofNat 16 p.type) (Bits.ofNat 16 p.len ++ (p.value ++ (Bits.zeros (pad32 p.value.length) ++ rest)))
         simpa using this)
  have hln : B.slice 16 32 = ⟨Bits.ofNat 16 p.len, .left⟩ := by
    simp only [ABuf.slice, hside, hbits]; congr 1
    all_goals first
      | rfl
      | exact slice_mid _ _ _ 16 32 (by simp) (by simp)
  have hhdr : parseFixed Gen.sctpParameterLayout B = [⟨Gen.SCTPF.PARAMETER_TYPE, B.slice 0 16, 0⟩, ⟨Gen.SCTPF.PARAMETER_LENGTH, B.slice 16 32, 0⟩] := by
    simp [parseFixed, Gen.sctpParameterLayout]; constructor <;> rfl
  have hfv : fieldValue (parseFixed Gen.sctpParameterLayout B) Gen.SCTPF.PARAMETER_LENGTH = B.slice 16 32 := by
    rw [hhdr]; rfl
  have hplv : (B.slice 16 32).value * 8 = 32 + p.value.length := by
    rw [hln, value_ofNat 16 p.len .left w2]; unfold SctpParam.len; omega
  unfold sctpParameter
  simp only [hfv, hplv, bind, Except.bind]
  have hg : ¬ (B.length < 32 ∨ 32 + p.value.length < 32) := by omega
  rw [if_neg hg]
  simp only [Nat.add_sub_cancel_left, pure, Except.pure]
  have hval : B.slice 32 (32 + p.value.length) = ⟨p.value, .left⟩ := by
    simp only [ABuf.slice, hside, hbits]; congr 1
    rw [← List.append_assoc (Bits.ofNat 16 p.type)]
    exact slice_mid _ _ _ _ _ (by simp) (by simp <;> omega)
  have hpad : B.slice (32 + p.value.length) (32 + p.value.length + pad32 p.value.length) = ⟨Bits.zeros (pad32 p.value.length), .left⟩ := by
    simp only [ABuf.slice, hside, hbits]; congr 1
    rw [← List.append_assoc (Bits.ofNat 16 p.type), ← List.append_assoc (_ ++ _) p.value]
    exact slice_mid _ _ _ _ _ (by simp <;> omega) (by simp [zeros_len] <;> omega)
  have hwl : p.wire.length = 32 + p.value.length + (32 - p.value.length % 32) % 32 := by
    simp only [SctpParam.wire, List.length_append, ofNat_length, zeros_len, pad32]; omega
  rw [hwl]
  refine ⟨_, rfl, ?_⟩
  · have hpad' : B.slice (32 + p.value.length) (32 + p.value.length + (32 - p.value.length % 32) % 32) = ⟨Bits.zeros (pad32 p.value.length), .left⟩ := hpad
    have hp32 : (32 - p.value.length % 32) % 32 = pad32 p.value.length := rfl
    rw [hhdr, hty, hln, hval, hpad', hp32]
    unfold SctpParam.fields
    have e1 : Gen.SCTPF.PARAMETER_TYPE = "SCTP:Parameter Type" := rfl
    have e2 : Gen.SCTPF.PARAMETER_LENGTH = "SCTP:Parameter Length" := rfl
    have e3 : Gen.SCTPF.PARAMETER_VALUE = "SCTP:Parameter Value" := rfl
    have e4 : Gen.SCTPF.PARAMETER_PADDING = "SCTP:Parameter Padding" := rfl
    rw [e1, e2, e3, e4]
    have hv : (p.value.length > 0) ↔ p.value ≠ [] := ⟨fun h e => by rw [e] at h; simp at h, fun h => List.length_pos_iff.mpr h⟩
    by_cases c1 : p.value = []
    · have p0 : pad32 0 = 0 := by decide
      simp [c1, p0, pairs, leftPairs]
    · have : p.value.length > 0 := hv.mpr c1
      by_cases c2 : pad32 p.value.length > 0 <;> simp [c1, c2, this, pairs, leftPairs]

end Schc

namespace Schc
open Bits Spec

theorem param_wire_len (p : SctpParam) : 32 ≤ p.wire.length := by
  simp only [SctpParam.wire, List.length_append, ofNat_length]; omega

/-- the parameter walk over RFC-encoded parameters: consumes them all, emits their fields in order -/
theorem sctpParameters_encoded (ps : List SctpParam) (hw : ∀ p ∈ ps, p.Wf) (fuel : Nat) (hf : ps.length ≤ fuel) :
    ∃ fs, sctpParameters fuel ⟨paramsWire ps, .left⟩ = .ok fs ∧ pairs fs = leftPairs (paramsFields ps) := by
  induction ps generalizing fuel with
  | nil =>
    have hl : ¬ ((⟨paramsWire [], .left⟩ : ABuf).length > 0) := by simp [paramsWire, ABuf.length]
    cases fuel with
    | zero => exact ⟨[], by simp only [sctpParameters, hl, if_false]; rfl, rfl⟩
    | succ f => exact ⟨[], by simp only [sctpParameters, hl, if_false]; rfl, rfl⟩
  | cons p ps ih =>
    cases fuel with
    | zero => simp at hf
    | succ f =>
      have hb : paramsWire (p :: ps) = p.wire ++ paramsWire ps := by simp [paramsWire]
      have hl : (⟨paramsWire (p :: ps), .left⟩ : ABuf).length > 0 := by
        have := param_wire_len p
        simp only [ABuf.length, hb, List.length_append]; omega
      obtain ⟨fs1, h1, h2⟩ := sctpParameter_encoded p (hw p (by simp)) (paramsWire ps)
      obtain ⟨fs2, h3, h4⟩ := ih (fun q hq => hw q (List.mem_cons_of_mem _ hq)) f (by simp at hf; omega)
      have hfrom : (⟨p.wire ++ paramsWire ps, .left⟩ : ABuf).from_ p.wire.length = ⟨paramsWire ps, .left⟩ := by
        simp [ABuf.from_]
      rw [hb] at hl
      refine ⟨fs1 ++ fs2, ?_, ?_⟩
      · simp only [sctpParameters, hb, hl, if_true, bind, Except.bind, h1, hfrom, h3, pure, Except.pure]
      · simp [pairs_append, h2, h4, paramsFields]

/-- the gap-ack-block loop of the SACK chunk -/
theorem sackBlocks_encoded (gaps : List (Nat × Nat)) (rest : Bits) :
    (sackBlocks gaps.length ⟨rowsBits (gapRows gaps) ++ rest, .left⟩).2 = ⟨rest, .left⟩ ∧
    pairs (sackBlocks gaps.length ⟨rowsBits (gapRows gaps) ++ rest, .left⟩).1 = leftPairs (rowsFields (gapRows gaps)) := by
  induction gaps with
  | nil => simp [sackBlocks, gapRows, rowsBits, rowsFields, leftPairs, pairs]
  | cons g gs ih =>
    have hb : rowsBits (gapRows (g :: gs)) ++ rest = Bits.ofNat 16 g.1 ++ (Bits.ofNat 16 g.2 ++ (rowsBits (gapRows gs) ++ rest)) := by
      simp [gapRows, rowsBits, List.append_assoc]
    generalize hR : (⟨rowsBits (gapRows (g :: gs)) ++ rest, .left⟩ : ABuf) = R
    have hbits : R.bits = Bits.ofNat 16 g.1 ++ (Bits.ofNat 16 g.2 ++ (rowsBits (gapRows gs) ++ rest)) := by rw [← hR]; exact hb
    have hside : R.side = .left := by rw [← hR]
    have h1 : R.slice 0 16 = ⟨Bits.ofNat 16 g.1, .left⟩ := by
      simp only [ABuf.slice, hside, hbits]; congr 1
      all_goals first
        | rfl
        | (have := slice_head (Bits.ofNat 16 g.1) (Bits.ofNat 16 g.2 ++ (rowsBits (gapRows gs) ++ rest)); simpa using this)
    have h2 : R.slice 16 32 = ⟨Bits.ofNat 16 g.2, .left⟩ := by
      simp only [ABuf.slice, hside, hbits]; congr 1
      all_goals first
        | rfl
        | exact slice_mid _ _ _ 16 32 (by simp) (by simp)
    have h3 : R.from_ 32 = ⟨rowsBits (gapRows gs) ++ rest, .left⟩ := by
      simp only [ABuf.from_, hside, hbits]; congr 1
      all_goals first
        | rfl
        | (rw [← List.append_assoc]; exact List.drop_left' (by simp))
    simp only [List.length_cons, sackBlocks, h1, h2, h3]
    refine ⟨ih.1, ?_⟩
    have e1 : Gen.SCTPF.CHUNK_SACK_GAP_ACK_BLOCK_START = "SCTP:Selective Ack Gap Ack BLock Start" := rfl
    have e2 : Gen.SCTPF.CHUNK_SACK_GAP_ACK_BLOCK_END = "SCTP:Selective Ack Gap Ack BLock End" := rfl
    simp only [pairs, List.map_cons, e1, e2] at ih ⊢
    rw [ih.2]
    simp [gapRows, rowsFields, leftPairs]

/-- the duplicate-TSN loop of the SACK chunk -/
theorem sackDups_encoded (dups : List Nat) (rest : Bits) :
    pairs (sackDups dups.length ⟨rowsBits (dupRows dups) ++ rest, .left⟩) = leftPairs (rowsFields (dupRows dups)) := by
  induction dups with
  | nil => simp [sackDups, dupRows, rowsFields, leftPairs, pairs]
  | cons d ds ih =>
    have hb : rowsBits (dupRows (d :: ds)) ++ rest = Bits.ofNat 32 d ++ (rowsBits (dupRows ds) ++ rest) := by
      simp [dupRows, rowsBits, List.append_assoc]
    generalize hR : (⟨rowsBits (dupRows (d :: ds)) ++ rest, .left⟩ : ABuf) = R
    have hbits : R.bits = Bits.ofNat 32 d ++ (rowsBits (dupRows ds) ++ rest) := by rw [← hR]; exact hb
    have hside : R.side = .left := by rw [← hR]
    have h1 : R.slice 0 32 = ⟨Bits.ofNat 32 d, .left⟩ := by
      simp only [ABuf.slice, hside, hbits]; congr 1
      all_goals first
        | rfl
        | (have := slice_head (Bits.ofNat 32 d) (rowsBits (dupRows ds) ++ rest); simpa using this)
    have h3 : R.from_ 32 = ⟨rowsBits (dupRows ds) ++ rest, .left⟩ := by
      simp only [ABuf.from_, hside, hbits]; congr 1
      all_goals first
        | rfl
        | exact List.drop_left' (by simp)
    have e1 : Gen.SCTPF.CHUNK_SACK_DUPLICATE_TSN = "SCTP:Selective Ack Duplicate TSN" := rfl
    simp only [List.length_cons, sackDups, h1, h3, pairs, List.map_cons, e1] at ih ⊢
    rw [ih]
    simp [dupRows, rowsFields, leftPairs]

/-! ### the RFC fields of a chunk value spell the value -/

theorem rows_tile (rows : Rows) : (rowsFields rows).flatMap (·.2) = rowsBits rows := by
  simp [rowsFields, rowsBits, List.flatMap_map]

theorem param_tile (p : SctpParam) : p.fields.flatMap (·.2) = p.wire := by
  unfold SctpParam.fields SctpParam.wire
  have hv : (if p.value ≠ [] then [("SCTP:Parameter Value", p.value)] else []).flatMap (·.2) = p.value := by
    by_cases c : p.value = [] <;> simp [c]
  have hp : (if pad32 p.value.length > 0 then [("SCTP:Parameter Padding", Bits.zeros (pad32 p.value.length))] else []).flatMap (·.2)
      = Bits.zeros (pad32 p.value.length) := by
    by_cases c : pad32 p.value.length > 0
    · simp [c]
    · have : pad32 p.value.length = 0 := by omega
      simp [this, Bits.zeros]
  rw [List.flatMap_append, List.flatMap_append, hv, hp]
  simp [List.flatMap_cons]

theorem params_tile (ps : List SctpParam) : (paramsFields ps).flatMap (·.2) = paramsWire ps := by
  induction ps with
  | nil => rfl
  | cons p ps ih =>
    show (p.fields ++ paramsFields ps).flatMap (·.2) = p.wire ++ paramsWire ps
    rw [List.flatMap_append, param_tile, ih]

theorem value_tile (v : ChunkValue) : v.fields.flatMap (·.2) = v.wire := by
  cases v with
  | data tsn sid ssn ppid user =>
    show (rowsFields _ ++ [("SCTP:Data Payload", user)]).flatMap (·.2) = rowsBits _ ++ user
    rw [List.flatMap_append, rows_tile]; simp
  | init ack tag rwnd os is tsn ps =>
    show (rowsFields _ ++ paramsFields ps).flatMap (·.2) = rowsBits _ ++ paramsWire ps
    rw [List.flatMap_append, rows_tile, params_tile]
  | sack cum rwnd gaps dups =>
    show (rowsFields _ ++ (rowsFields _ ++ rowsFields _)).flatMap (·.2) = rowsBits _ ++ (rowsBits _ ++ rowsBits _)
    rw [List.flatMap_append, List.flatMap_append, rows_tile, rows_tile, rows_tile]
  | params ps => exact params_tile ps
  | shutdown cum => simp [ChunkValue.fields, ChunkValue.wire]
  | none => rfl
  | cookie c => simp [ChunkValue.fields, ChunkValue.wire]
  | other w =>
    show (if w ≠ [] then [("SCTP:Chunk Value", w)] else []).flatMap (·.2) = w
    by_cases c : w = [] <;> simp [c]

theorem sum_lengths_flatMap (fs : List (String × Bits)) : (fs.map (·.2.length)).sum = (fs.flatMap (·.2)).length := by
  induction fs with
  | nil => rfl
  | cons f fs ih =>
    simp only [List.map_cons, List.sum_cons, List.flatMap_cons, List.length_append]
    rw [ih]

theorem sumFieldBits_of_pairs (cf : List Field) (fs : List (String × Bits)) (h : pairs cf = leftPairs fs) :
    sumFieldBits cf = (fs.flatMap (·.2)).length := by
  rw [← sum_lengths_flatMap]
  have : (pairs cf).map (·.2.length) = (leftPairs fs).map (·.2.length) := by rw [h]
  simp only [pairs, leftPairs, List.map_map] at this
  unfold sumFieldBits
  have e1 : (cf.map (·.value.length)) = List.map ((fun x : String × ABuf => x.2.length) ∘ fun f : Field => (f.id, f.value)) cf := by
    apply List.map_congr_left; intro f _; rfl
  have e2 : (fs.map (·.2.length)) = List.map ((fun x : String × ABuf => x.2.length) ∘ fun p : String × Bits => (p.1, (⟨p.2, .left⟩ : ABuf))) fs := by
    apply List.map_congr_left; intro f _; rfl
  rw [e1, e2, this]

theorem fieldValue_pairs (fs : List Field) (id : String) :
    fieldValue fs id = match (pairs fs).find? (·.1 == id) with
      | some p => p.2
      | none => ABuf.empty .left := by
  unfold fieldValue pairs
  induction fs with
  | nil => rfl
  | cons f fs ih =>
    simp only [List.find?_cons, List.map_cons]
    by_cases c : (f.id == id) = true
    · simp [c]
    · simp only [c]; exact ih

theorem parseFixed_append (l1 l2 : Layout) (b : ABuf) : parseFixed (l1 ++ l2) b = parseFixed l1 b ++ parseFixed l2 b := by
  simp [parseFixed]

def paramCount : ChunkValue → Nat
  | .init _ _ _ _ _ _ ps => ps.length
  | .params ps => ps.length
  | _ => 0

theorem ct_DATA : chunkTypeNo "DATA" = 0 := by decide
theorem ct_INIT : chunkTypeNo "INIT" = 1 := by decide
theorem ct_INIT_ACK : chunkTypeNo "INIT_ACK" = 2 := by decide
theorem ct_SACK : chunkTypeNo "SACK" = 3 := by decide
theorem ct_HEARTBEAT : chunkTypeNo "HEARTBEAT" = 4 := by decide
theorem ct_HEARTBEAT_ACK : chunkTypeNo "HEARTBEAT_ACK" = 5 := by decide
theorem ct_ABORT : chunkTypeNo "ABORT" = 6 := by decide
theorem ct_SHUTDOWN : chunkTypeNo "SHUTDOWN" = 7 := by decide
theorem ct_SHUTDOWN_ACK : chunkTypeNo "SHUTDOWN_ACK" = 8 := by decide
theorem ct_ERROR : chunkTypeNo "ERROR" = 9 := by decide
theorem ct_COOKIE_ECHO : chunkTypeNo "COOKIE_ECHO" = 10 := by decide
theorem ct_COOKIE_ACK : chunkTypeNo "COOKIE_ACK" = 11 := by decide
theorem ct_SHUTDOWN_COMPLETE : chunkTypeNo "SHUTDOWN_COMPLETE" = 14 := by decide

/-- a fixed layout (as generated from sctp.py) laid over its RFC encoding at the start of a chunk value -/
theorem fixed_rows (layout : Layout) (rows : Rows) (hl : layout = Spec.layoutFrom 0 (rowsWidths rows)) (rest : Bits) :
    pairs (parseFixed layout ⟨rowsBits rows ++ rest, .left⟩) = leftPairs (rowsFields rows) := by
  rw [hl]
  have := parseFixed_rows rows [] rest
  simpa using this

theorem from_after_rows (rows : Rows) (rest : Bits) (n : Nat) (hn : n = (rowsBits rows).length) :
    (⟨rowsBits rows ++ rest, .left⟩ : ABuf).from_ n = ⟨rest, .left⟩ := by
  subst hn; simp [ABuf.from_]

theorem rowsBits_length (rows : Rows) : (rowsBits rows).length = ((rowsWidths rows).map (·.2)).sum := by
  induction rows with
  | nil => rfl
  | cons r rs ih => simp [rowsBits, rowsWidths] at ih ⊢; omega

end Schc

namespace Schc
open Bits Spec

theorem data_payload_slice (tsn sid ssn ppid : Nat) (user : Bits) :
    pairs (parseFixed [(Gen.SCTPF.CHUNK_DATA_PAYLOAD, 96, none, 0)] ⟨rowsBits (dataRows tsn sid ssn ppid) ++ user, .left⟩)
      = leftPairs [("SCTP:Data Payload", user)] := by
  have hlen : (rowsBits (dataRows tsn sid ssn ppid)).length = 96 := by rw [rowsBits_length]; rfl
  simp only [parseFixed, List.map_cons, List.map_nil, pairs, leftPairs, Option.getD_none]
  have hs : (⟨rowsBits (dataRows tsn sid ssn ppid) ++ user, .left⟩ : ABuf).slice 96 (⟨rowsBits (dataRows tsn sid ssn ppid) ++ user, .left⟩ : ABuf).length
      = ⟨user, .left⟩ := by
    simp only [ABuf.slice, ABuf.length]
    have := slice_mid (rowsBits (dataRows tsn sid ssn ppid)) user [] 96 ((rowsBits (dataRows tsn sid ssn ppid) ++ user).length) hlen.symm (by simp [hlen])
    rw [List.append_nil] at this
    rw [this]
  rw [hs]; rfl

/-- the per-type chunk value parsers on RFC-encoded values -/
theorem sctpChunkValue_encoded (v : ChunkValue) (t : Nat) (hfit : v.fitsType t) (hwf : v.Wf) (hne : v.wire ≠ [])
    (fuel : Nat) (hf : paramCount v ≤ fuel) :
    ∃ cf, sctpChunkValue fuel t ⟨v.wire, .left⟩ = .ok cf ∧ pairs cf = leftPairs v.fields := by
  unfold sctpChunkValue
  simp only [ct_DATA, ct_INIT, ct_INIT_ACK, ct_SACK, ct_HEARTBEAT, ct_HEARTBEAT_ACK, ct_ABORT, ct_SHUTDOWN, ct_SHUTDOWN_ACK, ct_ERROR,
    ct_COOKIE_ECHO, ct_COOKIE_ACK, ct_SHUTDOWN_COMPLETE]
  cases v with
  | data tsn sid ssn ppid user =>
    simp only [ChunkValue.fitsType] at hfit; subst hfit
    simp only [if_true, pure, Except.pure, ChunkValue.wire, ChunkValue.fields]
    refine ⟨_, rfl, ?_⟩
    have hl : Gen.sctpDataLayout = Spec.layoutFrom 0 (rowsWidths (dataRows tsn sid ssn ppid)) ++ [(Gen.SCTPF.CHUNK_DATA_PAYLOAD, 96, none, 0)] := rfl
    rw [hl, parseFixed_append, pairs_append, leftPairs_append,
      fixed_rows (Spec.layoutFrom 0 (rowsWidths (dataRows tsn sid ssn ppid))) (dataRows tsn sid ssn ppid) rfl user, data_payload_slice]
  | init ack tag rwnd os is tsn ps =>
    simp only [ChunkValue.Wf] at hwf
    simp only [paramCount] at hf
    have hlen : ∀ a, (rowsBits (initRows a tag rwnd os is tsn)).length = 128 := by
      intro a; rw [rowsBits_length]; cases a <;> rfl
    obtain ⟨pf, p1, p2⟩ := sctpParameters_encoded ps hwf fuel hf
    cases ack
    · simp only [ChunkValue.fitsType, Bool.false_eq_true, if_false] at hfit; subst hfit
      simp only [show ¬ ((1 : Nat) = 0) by decide, if_false, if_true, ChunkValue.wire, ChunkValue.fields, bind, Except.bind]
      rw [from_after_rows _ _ 128 (hlen false).symm, p1]
      refine ⟨_, rfl, ?_⟩
      rw [pairs_append, leftPairs_append, p2, fixed_rows Gen.sctpInitLayout (initRows false tag rwnd os is tsn) rfl _]
    · simp only [ChunkValue.fitsType, if_true] at hfit; subst hfit
      simp only [show ¬ ((2 : Nat) = 0) by decide, show ¬ ((2 : Nat) = 1) by decide, if_false, if_true, ChunkValue.wire, ChunkValue.fields, bind, Except.bind]
      rw [from_after_rows _ _ 128 (hlen true).symm, p1]
      refine ⟨_, rfl, ?_⟩
      rw [pairs_append, leftPairs_append, p2, fixed_rows Gen.sctpInitAckLayout (initRows true tag rwnd os is tsn) rfl _]
  | sack cum rwnd gaps dups =>
    simp only [ChunkValue.fitsType] at hfit; subst hfit
    obtain ⟨hg, hd⟩ := hwf
    simp only [show ¬ ((3 : Nat) = 0) by decide, show ¬ ((3 : Nat) = 1) by decide, show ¬ ((3 : Nat) = 2) by decide, if_false, if_true,
      ChunkValue.wire, ChunkValue.fields, pure, Except.pure]
    refine ⟨_, rfl, ?_⟩
    generalize hcv : (⟨rowsBits (sackRows cum rwnd gaps.length dups.length) ++ (rowsBits (gapRows gaps) ++ rowsBits (dupRows dups)), .left⟩ : ABuf) = cv
    have hfixed : pairs (parseFixed Gen.sctpSackLayout cv) = leftPairs (rowsFields (sackRows cum rwnd gaps.length dups.length)) := by
      rw [← hcv]; exact fixed_rows _ _ rfl _
    have hng : (fieldValue (parseFixed Gen.sctpSackLayout cv) Gen.SCTPF.CHUNK_SACK_NUMBER_GAP_ACK_BLOCKS).value = gaps.length := by
      rw [fieldValue_pairs, hfixed]
      show (⟨Bits.ofNat 16 gaps.length, .left⟩ : ABuf).value = _
      exact value_ofNat 16 _ _ hg
    have hnd : (fieldValue (parseFixed Gen.sctpSackLayout cv) Gen.SCTPF.CHUNK_SACK_NUMBER_DUPLICATE_TSNS).value = dups.length := by
      rw [fieldValue_pairs, hfixed]
      show (⟨Bits.ofNat 16 dups.length, .left⟩ : ABuf).value = _
      exact value_ofNat 16 _ _ hd
    have hlen : (rowsBits (sackRows cum rwnd gaps.length dups.length)).length = 96 := by rw [rowsBits_length]; rfl
    have hfrom : cv.from_ 96 = ⟨rowsBits (gapRows gaps) ++ rowsBits (dupRows dups), .left⟩ := by
      rw [← hcv]; exact from_after_rows _ _ 96 hlen.symm
    rw [hng, hnd, hfrom]
    obtain ⟨b1, b2⟩ := sackBlocks_encoded gaps (rowsBits (dupRows dups))
    have hd2 := sackDups_encoded dups []
    rw [List.append_nil] at hd2
    generalize hsb : sackBlocks gaps.length ⟨rowsBits (gapRows gaps) ++ rowsBits (dupRows dups), .left⟩ = sb at *
    obtain ⟨gfs, r'⟩ := sb
    simp only at b1 b2 ⊢
    subst b1
    rw [pairs_append, pairs_append, hfixed, b2, hd2, leftPairs_append, leftPairs_append, List.append_assoc]
  | params ps =>
    simp only [ChunkValue.Wf] at hwf
    simp only [paramCount] at hf
    obtain ⟨pf, p1, p2⟩ := sctpParameters_encoded ps hwf fuel hf
    have hc : t = 4 ∨ t = 5 ∨ t = 6 ∨ t = 9 := hfit
    have n0 : ¬ t = 0 := by omega
    have n1 : ¬ t = 1 := by omega
    have n2 : ¬ t = 2 := by omega
    have n3 : ¬ t = 3 := by omega
    simp only [n0, n1, n2, n3, if_false, hc, if_true, ChunkValue.wire, ChunkValue.fields]
    exact ⟨pf, p1, p2⟩
  | shutdown cum =>
    simp only [ChunkValue.fitsType] at hfit; subst hfit
    simp only [show ¬ ((7 : Nat) = 0) by decide, show ¬ ((7 : Nat) = 1) by decide, show ¬ ((7 : Nat) = 2) by decide, show ¬ ((7 : Nat) = 3) by decide,
      show ¬ ((7 : Nat) = 4 ∨ (7 : Nat) = 5 ∨ (7 : Nat) = 6 ∨ (7 : Nat) = 9) by decide, if_false, if_true, ChunkValue.wire, ChunkValue.fields, pure, Except.pure]
    refine ⟨_, rfl, ?_⟩
    have := fixed_rows Gen.sctpShutdownLayout [("SCTP:Shutdown Cumulative TSN", 32, cum)] rfl []
    simpa [rowsBits, rowsFields, leftPairs] using this
  | none => exact absurd rfl hne
  | cookie c =>
    simp only [ChunkValue.fitsType] at hfit; subst hfit
    simp only [show ¬ ((10 : Nat) = 0) by decide, show ¬ ((10 : Nat) = 1) by decide, show ¬ ((10 : Nat) = 2) by decide, show ¬ ((10 : Nat) = 3) by decide,
      show ¬ ((10 : Nat) = 4 ∨ (10 : Nat) = 5 ∨ (10 : Nat) = 6 ∨ (10 : Nat) = 9) by decide, show ¬ ((10 : Nat) = 7) by decide,
      show ¬ ((10 : Nat) = 8 ∨ (10 : Nat) = 11 ∨ (10 : Nat) = 14) by decide, if_false, if_true, ChunkValue.wire, ChunkValue.fields, pure, Except.pure]
    exact ⟨_, rfl, rfl⟩
  | other w =>
    have hc : t = 12 ∨ t = 13 ∨ 15 ≤ t := hfit
    have n0 : ¬ t = 0 := by omega
    have n1 : ¬ t = 1 := by omega
    have n2 : ¬ t = 2 := by omega
    have n3 : ¬ t = 3 := by omega
    have n4 : ¬ (t = 4 ∨ t = 5 ∨ t = 6 ∨ t = 9) := by omega
    have n7 : ¬ t = 7 := by omega
    have n8 : ¬ (t = 8 ∨ t = 11 ∨ t = 14) := by omega
    have n10 : ¬ t = 10 := by omega
    have hw : w ≠ [] := hne
    simp only [n0, n1, n2, n3, n4, n7, n8, n10, if_false, ChunkValue.wire, ChunkValue.fields, pure, Except.pure, hw, ne_eq, not_false_eq_true, if_true]
    exact ⟨_, rfl, rfl⟩

end Schc

namespace Schc
open Bits Spec

theorem paramsWire_nil (ps : List SctpParam) (h : paramsWire ps = []) : ps = [] := by
  cases ps with
  | nil => rfl
  | cons p ps =>
    have := param_wire_len p
    have hl : (paramsWire (p :: ps)).length = 0 := by rw [h]; rfl
    simp only [paramsWire, List.flatMap_cons, List.length_append] at hl
    omega

/-- an empty value has no fields -/
theorem value_fields_nil (v : ChunkValue) (hwf : v.Wf) (h : v.wire = []) : v.fields = [] := by
  cases v with
  | data tsn sid ssn ppid user =>
    have := congrArg List.length h
    simp [ChunkValue.wire, rowsBits, dataRows] at this
  | init ack tag rwnd os is tsn ps =>
    have := congrArg List.length h
    cases ack <;> simp [ChunkValue.wire, rowsBits, initRows] at this
  | sack cum rwnd gaps dups =>
    have := congrArg List.length h
    simp [ChunkValue.wire, rowsBits, sackRows] at this
  | params ps =>
    have := paramsWire_nil ps h
    subst this; rfl
  | shutdown cum =>
    have := congrArg List.length h
    simp [ChunkValue.wire] at this
  | none => rfl
  | cookie c => exact absurd h hwf.1
  | other w =>
    have hw : w = [] := h
    simp [ChunkValue.fields, hw]

def chunkHeaderRows (c : SctpChunk) : Rows :=
  [("SCTP:Chunk Type", 8, c.type), ("SCTP:Chunk Flags", 8, c.flags), ("SCTP:Chunk Length", 16, c.len)]

/-- `_parse_chunk` on an RFC-encoded chunk followed by anything -/
theorem sctpChunk_encoded (c : SctpChunk) (hw : c.Wf) (rest : Bits) (fuel : Nat) (hf : paramCount c.value ≤ fuel) :
    ∃ fs, sctpChunk fuel ⟨c.wire ++ rest, .left⟩ = .ok (fs, c.wire.length) ∧ pairs fs = leftPairs c.fields := by
  obtain ⟨w1, w2, w3, w4, w5⟩ := hw
  generalize hwl : c.value.wire.length = wl at *
  have hlen8 : c.len * 8 = 32 + wl := by unfold SctpChunk.len; omega
  have hwire : c.wire ++ rest = rowsBits (chunkHeaderRows c) ++ (c.value.wire ++ (Bits.zeros (pad32 wl) ++ rest)) := by
    simp [SctpChunk.wire, chunkHeaderRows, rowsBits, List.append_assoc, hwl]
  have hcw : c.wire.length = 32 + wl + pad32 wl := by
    simp only [SctpChunk.wire, List.length_append, ofNat_length, zeros_len, hwl]; omega
  generalize hB : (⟨c.wire ++ rest, .left⟩ : ABuf) = B
  have hB' : B = ⟨rowsBits (chunkHeaderRows c) ++ (c.value.wire ++ (Bits.zeros (pad32 wl) ++ rest)), .left⟩ := by rw [← hB, hwire]
  have hrl : (rowsBits (chunkHeaderRows c)).length = 32 := by rw [rowsBits_length]; rfl
  have hhdr : pairs (parseFixed Gen.sctpChunkHeaderLayout B) = leftPairs (rowsFields (chunkHeaderRows c)) := by
    rw [hB']; exact fixed_rows _ _ rfl _
  have hlenv : (fieldValue (parseFixed Gen.sctpChunkHeaderLayout B) Gen.SCTPF.CHUNK_LENGTH).value = c.len := by
    rw [fieldValue_pairs, hhdr]
    show (⟨Bits.ofNat 16 c.len, .left⟩ : ABuf).value = _
    exact value_ofNat 16 _ _ w5
  have htyv : (fieldValue (parseFixed Gen.sctpChunkHeaderLayout B) Gen.SCTPF.CHUNK_TYPE).value = c.type := by
    rw [fieldValue_pairs, hhdr]
    show (⟨Bits.ofNat 8 c.type, .left⟩ : ABuf).value = _
    exact value_ofNat 8 _ _ w1
  have hBl : B.length = 32 + wl + pad32 wl + rest.length := by
    rw [hB']; simp only [ABuf.length, List.length_append, hrl, zeros_len, hwl]; omega
  have hcv : B.slice 32 (32 + wl) = ⟨c.value.wire, .left⟩ := by
    rw [hB']; simp only [ABuf.slice]; congr 1
    exact slice_mid _ _ _ _ _ hrl.symm (by rw [hrl, hwl])
  have hcp : B.slice (32 + wl) (32 + wl + pad32 wl) = ⟨Bits.zeros (pad32 wl), .left⟩ := by
    rw [hB']; simp only [ABuf.slice]; congr 1
    rw [← List.append_assoc]
    exact slice_mid _ _ _ _ _ (by simp [hrl, hwl]) (by simp [hrl, hwl, zeros_len])
  have hpad : (32 - (32 + wl) % 32) % 32 = pad32 wl := by unfold pad32; omega
  unfold sctpChunk
  simp only [hlenv, hlen8, bind, Except.bind]
  have hg : ¬ (B.length < 32 ∨ 32 + wl < 32) := by omega
  rw [if_neg hg]
  -- the body
  have hbody : ∃ bf, sctpChunkBody fuel B (parseFixed Gen.sctpChunkHeaderLayout B) (32 + wl) = .ok bf ∧
      pairs bf = leftPairs (rowsFields (chunkHeaderRows c)) ++ leftPairs c.value.fields := by
    unfold sctpChunkBody
    simp only [Nat.add_sub_cancel_left]
    by_cases h0 : wl > 0
    · have hne : c.value.wire ≠ [] := by intro e; rw [e] at hwl; simp at hwl; omega
      obtain ⟨cf, c1, c2⟩ := sctpChunkValue_encoded c.value c.type w2 w3 hne fuel hf
      have hsum : sumFieldBits cf = (⟨c.value.wire, .left⟩ : ABuf).length := by
        rw [sumFieldBits_of_pairs cf _ c2, value_tile]; rfl
      simp only [h0, if_true, hcv, htyv, c1, bind, Except.bind]
      have : ¬ (sumFieldBits cf ≠ (⟨c.value.wire, .left⟩ : ABuf).length) := by rw [hsum]; simp
      rw [if_neg this]
      exact ⟨_, rfl, by rw [pairs_append, hhdr, c2]⟩
    · have hnil : c.value.wire = [] := List.eq_nil_of_length_eq_zero (by omega)
      simp only [h0, if_false, pure, Except.pure]
      exact ⟨_, rfl, by rw [hhdr, value_fields_nil c.value w3 hnil]; simp⟩
  obtain ⟨bf, b1, b2⟩ := hbody
  simp only [b1, hpad, hcp, pure, Except.pure]
  rw [hcw]
  refine ⟨_, rfl, ?_⟩
  unfold SctpChunk.fields
  have e1 : Gen.SCTPF.CHUNK_PADDING = "SCTP:Chunk Padding" := rfl
  have hzl : (⟨Bits.zeros (pad32 wl), .left⟩ : ABuf).length = pad32 wl := by simp [ABuf.length, zeros_len]
  rw [hwl]
  by_cases hp : pad32 wl > 0
  · have : pad32 wl > 0 ∧ (⟨Bits.zeros (pad32 wl), .left⟩ : ABuf).length > 0 := ⟨hp, by rw [hzl]; exact hp⟩
    simp only [this, and_self, if_true, hp, pairs_append, b2, leftPairs_append, e1]
    simp [pairs, leftPairs, chunkHeaderRows, rowsFields]
  · have : ¬ (pad32 wl > 0 ∧ (⟨Bits.zeros (pad32 wl), .left⟩ : ABuf).length > 0) := fun h => hp h.1
    simp only [hp, false_and, if_false, leftPairs_append, List.append_nil]
    rw [b2]
    simp [leftPairs, chunkHeaderRows, rowsFields]

end Schc

namespace Schc
open Bits Spec

def chunksWire (cs : List SctpChunk) : Bits := cs.flatMap SctpChunk.wire
def chunksFields (cs : List SctpChunk) : List (String × Bits) := cs.flatMap SctpChunk.fields

theorem chunk_wire_len (c : SctpChunk) : 32 ≤ c.wire.length := by
  simp only [SctpChunk.wire, List.length_append, ofNat_length]; omega

/-- the chunk walk over RFC-encoded chunks: every chunk's fields in order, the whole buffer consumed -/
theorem sctpChunks_encoded (cs : List SctpChunk) (hw : ∀ c ∈ cs, c.Wf) (fuel pf : Nat) (hf : cs.length ≤ fuel)
    (hpf : ∀ c ∈ cs, paramCount c.value ≤ pf) :
    ∃ fs, sctpChunks fuel pf ⟨chunksWire cs, .left⟩ = .ok fs ∧ pairs fs = leftPairs (chunksFields cs) := by
  induction cs generalizing fuel with
  | nil =>
    have hl : ¬ ((⟨chunksWire [], .left⟩ : ABuf).length > 0) := by simp [chunksWire, ABuf.length]
    cases fuel with
    | zero => exact ⟨[], by simp only [sctpChunks, hl, if_false]; rfl, rfl⟩
    | succ f => exact ⟨[], by simp only [sctpChunks, hl, if_false]; rfl, rfl⟩
  | cons c cs ih =>
    cases fuel with
    | zero => simp at hf
    | succ f =>
      have hb : chunksWire (c :: cs) = c.wire ++ chunksWire cs := by simp [chunksWire]
      have hl : (⟨c.wire ++ chunksWire cs, .left⟩ : ABuf).length > 0 := by
        have := chunk_wire_len c
        simp only [ABuf.length, List.length_append]; omega
      obtain ⟨fs1, h1, h2⟩ := sctpChunk_encoded c (hw c (by simp)) (chunksWire cs) pf (hpf c (by simp))
      obtain ⟨fs2, h3, h4⟩ := ih (fun q hq => hw q (List.mem_cons_of_mem _ hq)) f (by simp at hf; omega)
        (fun q hq => hpf q (List.mem_cons_of_mem _ hq))
      have hfrom : (⟨c.wire ++ chunksWire cs, .left⟩ : ABuf).from_ c.wire.length = ⟨chunksWire cs, .left⟩ := by
        simp [ABuf.from_]
      refine ⟨fs1 ++ fs2, ?_, ?_⟩
      · simp only [sctpChunks, hb, hl, if_true, bind, Except.bind, h1, hfrom, h3, pure, Except.pure]
      · simp [pairs_append, h2, h4, chunksFields]

def commonRows (sport dport vtag cksum : Nat) : Rows :=
  [("SCTP:Source Port", 16, sport), ("SCTP:Destination Port", 16, dport), ("SCTP:Verification Tag", 32, vtag), ("SCTP:Checksum", 32, cksum)]

/-- a whole RFC 9260 packet: common header, then chunks of any types — the parser returns the RFC's field list and
    reports the whole packet as header -/
theorem sctpParse_encoded (sport dport vtag cksum : Nat) (cs : List SctpChunk) (hw : ∀ c ∈ cs, c.Wf) (fuel : Nat)
    (hf : cs.length ≤ fuel) (hpf : ∀ c ∈ cs, paramCount c.value ≤ fuel) :
    let b : ABuf := ⟨rowsBits (commonRows sport dport vtag cksum) ++ chunksWire cs, .left⟩
    ∃ h, sctpParse fuel b = .ok h ∧ h.length = b.length ∧
      pairs h.fields = leftPairs (rowsFields (commonRows sport dport vtag cksum) ++ chunksFields cs) := by
  intro b
  have hrl : (rowsBits (commonRows sport dport vtag cksum)).length = 96 := by rw [rowsBits_length]; rfl
  unfold sctpParse
  have hmin : ¬ (b.length < Gen.sctpMinLength) := by
    simp only [b, ABuf.length, List.length_append, hrl, Gen.sctpMinLength]; omega
  simp only [hmin, if_false, bind, Except.bind]
  have hfrom : b.from_ 96 = ⟨chunksWire cs, .left⟩ := from_after_rows _ _ 96 hrl.symm
  obtain ⟨fs, h1, h2⟩ := sctpChunks_encoded cs hw fuel fuel hf hpf
  rw [hfrom, h1]
  refine ⟨_, rfl, rfl, ?_⟩
  rw [pairs_append, leftPairs_append, h2, fixed_rows Gen.sctpCommonLayout (commonRows sport dport vtag cksum) rfl _]

end Schc
