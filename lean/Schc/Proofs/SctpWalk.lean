/- C08: the SCTP walks (chunks, parameters, SACK blocks) cut RFC 9260 packets at their field boundaries. -/
import Schc.Proofs.CoapWalk
import Schc.Spec.Sctp

namespace Schc
open Bits Spec

/-- RFC (name, bits) fields as (id, LEFT-padded Buffer) pairs -/
def leftPairs (fs : List (String × Bits)) : List (String × ABuf) := fs.map fun p => (p.1, ⟨p.2, .left⟩)

@[simp] theorem leftPairs_append (a b : List (String × Bits)) : leftPairs (a ++ b) = leftPairs a ++ leftPairs b := by simp [leftPairs]
@[simp] theorem leftPairs_nil : leftPairs [] = [] := rfl

/-- a fixed layout laid over its own encoding: every slice is the row's value -/
theorem parseFixed_rows (rows : Rows) (pre rest : Bits) :
    pairs (parseFixed (Spec.layoutFrom pre.length (rowsWidths rows)) ⟨pre ++ (rowsBits rows ++ rest), .left⟩) = leftPairs (rowsFields rows) := by
  induction rows generalizing pre with
  | nil => rfl
  | cons r rs ih =>
    obtain ⟨n, w, v⟩ := r
    have hb : pre ++ (rowsBits ((n, w, v) :: rs) ++ rest) = (pre ++ Bits.ofNat w v) ++ (rowsBits rs ++ rest) := by
      simp [rowsBits, List.append_assoc]
    have ih' := ih (pre ++ Bits.ofNat w v)
    rw [← hb] at ih'
    simp only [List.length_append, ofNat_length] at ih'
    generalize hB : (⟨pre ++ (rowsBits ((n, w, v) :: rs) ++ rest), .left⟩ : ABuf) = B at *
    have e1 : parseFixed (Spec.layoutFrom pre.length (rowsWidths ((n, w, v) :: rs))) B =
        ⟨n, B.slice pre.length (pre.length + w), 0⟩ :: parseFixed (Spec.layoutFrom (pre.length + w) (rowsWidths rs)) B := by
      simp [rowsWidths, Spec.layoutFrom, parseFixed]
    have e2 : B.slice pre.length (pre.length + w) = ⟨Bits.ofNat w v, .left⟩ := by
      rw [← hB]
      simp only [ABuf.slice]
      congr 1
      have : pre ++ (rowsBits ((n, w, v) :: rs) ++ rest) = pre ++ (Bits.ofNat w v ++ (rowsBits rs ++ rest)) := by simp [rowsBits, List.append_assoc]
      rw [this]
      exact slice_mid pre _ _ _ _ rfl (by simp)
    rw [e1, e2]
    show (n, (⟨Bits.ofNat w v, .left⟩ : ABuf)) :: pairs _ = _
    rw [ih']
    rfl

theorem pad32_lt (n : Nat) : pad32 n < 32 := by unfold pad32; omega
theorem pad32_add32 (n : Nat) : pad32 (32 + n) = pad32 n := by unfold pad32; omega
theorem pad32_dvd (n : Nat) : (n + pad32 n) % 32 = 0 := by unfold pad32; omega

end Schc

namespace Schc
open Bits Spec

theorem zeros_len (n : Nat) : (Bits.zeros n).length = n := zeros_length n

theorem value_ofNat (w v : Nat) (side : Pad) (h : v < 2 ^ w) : (⟨Bits.ofNat w v, side⟩ : ABuf).value = v := toNat_ofNat w v h

/-- `_parse_parameter` on an RFC-encoded parameter followed by anything -/
theorem sctpParameter_encoded (p : SctpParam) (hw : p.Wf) (rest : Bits) :
    ∃ fs, sctpParameter ⟨p.wire ++ rest, .left⟩ = .ok (fs, p.wire.length) ∧ pairs fs = leftPairs p.fields := by
  obtain ⟨w1, w2⟩ := hw
  have hlen8 : p.value.length = (p.len - 4) * 8 := by unfold SctpParam.len; omega
  generalize hB : (⟨p.wire ++ rest, .left⟩ : ABuf) = B
  have hbits : B.bits = Bits.ofNat 16 p.type ++ (Bits.ofNat 16 p.len ++ (p.value ++ (Bits.zeros (pad32 p.value.length) ++ rest))) := by
    rw [← hB]; simp [SctpParam.wire, List.append_assoc]
  have hside : B.side = .left := by rw [← hB]
  have hBl : B.length = 32 + p.value.length + pad32 p.value.length + rest.length := by
    simp only [ABuf.length, hbits, List.length_append, ofNat_length, zeros_len]; omega
  -- the two header slices
  have hty : B.slice 0 16 = ⟨Bits.ofNat 16 p.type, .left⟩ := by
    simp only [ABuf.slice, hside, hbits]; congr 1
    all_goals first
      | rfl
      | (have := slice_head (Bits.ofNat 16 p.type) (Bits.ofNat 16 p.len ++ (p.value ++ (Bits.zeros (pad32 p.value.length) ++ rest)))
         simpa using this)
  have hln : B.slice 16 32 = ⟨Bits.ofNat 16 p.len, .left⟩ := by
    simp only [ABuf.slice, hside, hbits]; congr 1
    all_goals first
      | rfl
      | exact slice_mid _ _ _ 16 32 (by simp) (by simp)
  have hhdr : parseFixed Gen.sctpParameterLayout B = [⟨Gen.SCTPF.PARAMETER_TYPE, B.slice 0 16, 0⟩, ⟨Gen.SCTPF.PARAMETER_LENGTH, B.slice 16 32, 0⟩] := by
    simp [parseFixed, Gen.sctpParameterLayout]; constructor <;> rfl
  have hfv : fieldValue (parseFixed Gen.sctpParameterLayout B) Gen.SCTPF.PARAMETER_LENGTH = B.slice 16 32 := by
    rw [hhdr]; rfl
  have hplv : (B.slice 16 32).value * 8 = 32 + p.value.length := by
    rw [hln, value_ofNat 16 p.len .left w2]; unfold SctpParam.len; omega
  unfold sctpParameter
  simp only [hfv, hplv, bind, Except.bind]
  have hg : ¬ (B.length < 32 ∨ 32 + p.value.length < 32) := by omega
  rw [if_neg hg]
  simp only [Nat.add_sub_cancel_left, pure, Except.pure]
  have hval : B.slice 32 (32 + p.value.length) = ⟨p.value, .left⟩ := by
    simp only [ABuf.slice, hside, hbits]; congr 1
    rw [← List.append_assoc (Bits.ofNat 16 p.type)]
    exact slice_mid _ _ _ _ _ (by simp) (by simp <;> omega)
  have hpad : B.slice (32 + p.value.length) (32 + p.value.length + pad32 p.value.length) = ⟨Bits.zeros (pad32 p.value.length), .left⟩ := by
    simp only [ABuf.slice, hside, hbits]; congr 1
    rw [← List.append_assoc (Bits.ofNat 16 p.type), ← List.append_assoc (_ ++ _) p.value]
    exact slice_mid _ _ _ _ _ (by simp <;> omega) (by simp [zeros_len] <;> omega)
  have hwl : p.wire.length = 32 + p.value.length + (32 - p.value.length % 32) % 32 := by
    simp only [SctpParam.wire, List.length_append, ofNat_length, zeros_len, pad32]; omega
  rw [hwl]
  refine ⟨_, rfl, ?_⟩
  · have hpad' : B.slice (32 + p.value.length) (32 + p.value.length + (32 - p.value.length % 32) % 32) = ⟨Bits.zeros (pad32 p.value.length), .left⟩ := hpad
    have hp32 : (32 - p.value.length % 32) % 32 = pad32 p.value.length := rfl
    rw [hhdr, hty, hln, hval, hpad', hp32]
    unfold SctpParam.fields
    have e1 : Gen.SCTPF.PARAMETER_TYPE = "SCTP:Parameter Type" := rfl
    have e2 : Gen.SCTPF.PARAMETER_LENGTH = "SCTP:Parameter Length" := rfl
    have e3 : Gen.SCTPF.PARAMETER_VALUE = "SCTP:Parameter Value" := rfl
    have e4 : Gen.SCTPF.PARAMETER_PADDING = "SCTP:Parameter Padding" := rfl
    rw [e1, e2, e3, e4]
    have hv : (p.value.length > 0) ↔ p.value ≠ [] := ⟨fun h e => by rw [e] at h; simp at h, fun h => List.length_pos_iff.mpr h⟩
    by_cases c1 : p.value = []
    · have p0 : pad32 0 = 0 := by decide
      simp [c1, p0, pairs, leftPairs]
    · have : p.value.length > 0 := hv.mpr c1
      by_cases c2 : pad32 p.value.length > 0 <;> simp [c1, c2, this, pairs, leftPairs]

end Schc
