/- C05: slicing (`__getitem__`) on canonical Buffers. -/
import Schc.Proofs.BufShiftGen

namespace Schc
open Bits

/-- the explicit-carry loop of `__getitem__` / `__add__` is the right-shift loop started from the previous byte -/
theorem shrCarryLoop_eq (k : Nat) (l : List Nat) (p : Nat) :
    Buf.shrCarryLoop k l ((p &&& ((1 <<< k) - 1)) <<< (8 - k)) =
      (Buf.shrLoopL k p l).map fun out => (out, ((lastByte p l) &&& ((1 <<< k) - 1)) <<< (8 - k)) := by
  induction l generalizing p with
  | nil => rfl
  | cons b bs ih =>
    simp only [Buf.shrCarryLoop, Buf.shrLoopL, bind, Except.bind, lastByte]
    have e : (b >>> k) + ((p &&& ((1 <<< k) - 1)) <<< (8 - k)) = ((p &&& ((1 <<< k) - 1)) <<< (8 - k)) + (b >>> k) := Nat.add_comm _ _
    rw [e]
    cases toByte (((p &&& ((1 <<< k) - 1)) <<< (8 - k)) + (b >>> k)) with
    | error err => rfl
    | ok v =>
      simp only [ih b]
      cases Buf.shrLoopL k b bs <;> rfl

theorem new_nil (side : Pad) : Buf.new [] 0 side = .ok (Buf.ofABuf ⟨[], side⟩) := by
  rw [new_spec [] 0 side (fun x hx => by cases hx)]
  cases side <;> rfl

/-- bits of a byte after masking the top `r` bits and shifting right by `k` -/
theorem first_byte_bits (c0 r k : Nat) (hc : c0 < 256) (hr : r < 8) (hk : k < 8) :
    ((c0 &&& ((1 <<< (8 - r)) - 1)) >>> k) < 256 ∧
    (Bits.ofNat 8 ((c0 &&& ((1 <<< (8 - r)) - 1)) >>> k)).drop (k + r) = ((Bits.ofNat 8 c0).take (8 - k)).drop r := by
  have hm : c0 &&& ((1 <<< (8 - r)) - 1) = c0 % 2 ^ (8 - r) := by rw [Nat.shiftLeft_eq, Nat.one_mul, Nat.and_two_pow_sub_one_eq_mod]
  rw [hm, Nat.shiftRight_eq_div_pow]
  constructor
  · exact Nat.lt_of_le_of_lt (Nat.div_le_self _ _) (Nat.lt_of_le_of_lt (Nat.mod_le _ _) hc)
  · apply List.ext_getElem
    · simp only [List.length_drop, List.length_take, ofNat_length]; omega
    · intro i h1 h2
      simp only [List.length_drop, ofNat_length] at h1
      simp only [Bits.ofNat, List.getElem_drop, List.getElem_map, List.getElem_range, List.getElem_take, Nat.testBit_div_two_pow,
        Nat.testBit_mod_two_pow]
      have : 8 - 1 - (k + r + i) + k < 8 - r := by omega
      simp only [this, decide_true, Bool.true_and]
      congr 1; omega

end Schc

namespace Schc
open Bits

theorem take_drop_add' (l : Bits) (s a b : Nat) : (l.drop s).take a ++ (l.drop (s + a)).take b = (l.drop s).take (a + b) := by
  rw [List.take_add, List.drop_drop]

/-- list algebra of the LEFT-side extraction: masked-and-shifted first byte, then the carry-shifted middle bytes -/
theorem getL_bits (Bc0 Bmid X Y : Bits) (hc : Bc0.length = 8) (k r : Nat) (hk : k < 8) (hr : r < 8) (hX : X.length = 8)
    (hXd : X.drop (k + r) = (Bc0.take (8 - k)).drop r) (hY : Y = (Bc0.drop (8 - k) ++ Bmid).take Bmid.length) :
    (X ++ Y).drop (k + r) = ((Bc0 ++ Bmid).drop r).take (8 + Bmid.length - k - r) := by
  have hB : Bc0.drop (8 - k) ++ Bmid = (Bc0 ++ Bmid).drop (8 - k) := by
    rw [List.drop_append_of_le_length (by omega)]
  rw [hB] at hY
  generalize hZ : Bc0 ++ Bmid = Z at *
  have hZl : Z.length = 8 + Bmid.length := by rw [← hZ, List.length_append, hc]
  subst hY
  by_cases hkr : k + r ≤ 8
  · have hA : (Bc0.take (8 - k)).drop r = (Z.drop r).take (8 - k - r) := by
      rw [List.drop_take, ← hZ, List.drop_append_of_le_length (by omega), List.take_append_of_le_length (by simp [hc]; omega)]
    rw [List.drop_append_of_le_length (by omega), hXd, hA]
    have := take_drop_add' Z r (8 - k - r) Bmid.length
    have e : r + (8 - k - r) = 8 - k := by omega
    rw [e] at this
    rw [this]
    congr 1; omega
  · have hkr' : 8 < k + r := by omega
    rw [List.drop_append, hX, List.drop_of_length_le (by omega), List.nil_append, List.drop_take, List.drop_drop]
    have e2 : 8 - k + (k + r - 8) = r := by omega
    rw [e2]
    congr 1; omega

end Schc

namespace Schc
open Bits

theorem idx_getElem (c : List Nat) (i : Nat) (h : i < c.length) : idx c i = .ok c[i] := by
  unfold idx; rw [List.getElem?_eq_getElem h]; rfl

theorem drop_eq_cons (c : List Nat) (i : Nat) (h : i < c.length) : c.drop i = c[i] :: c.drop (i + 1) := by
  rw [List.drop_eq_getElem_cons h]

/-- slicing a left-padded canonical Buffer -/
theorem getRange_left (bits : Bits) (s e : Nat) (hse : s < e) (hen : e ≤ bits.length) :
    Buf.getRange (Buf.ofABuf ⟨bits, .left⟩) s e = .ok (Buf.ofABuf ⟨Bits.slice bits s e, .left⟩) := by
  have hpl := padLen_lt bits.length
  have hbl := byteLen_eq bits.length
  have hcl := ofABuf_content_length ⟨bits, .left⟩
  have hcb := bytesBits_content ⟨bits, .left⟩
  have hab := allBytes_content ⟨bits, .left⟩
  simp only [Buf.ofABuf, ABuf.length] at hcl hcb
  generalize hC : (⟨bits, .left⟩ : ABuf).content = C at *
  generalize hplv : padLenOf bits.length = pl at *
  generalize hblv : byteLenOf bits.length = bl at *
  unfold Buf.getRange
  have hnl : ¬ (e - s = 0) := by omega
  simp only [Buf.ofABuf, ABuf.length, hC, hplv, hnl, if_false, bind, Except.bind]
  -- positions
  generalize hsb : (s + pl) / 8 = sb
  generalize hr : (s + pl) % 8 = r
  generalize heb : (e + pl + 7) / 8 = eb
  generalize hk : (8 - (e + pl) % 8) % 8 = k
  have f1 : s + pl = 8 * sb + r := by omega
  have f2 : 8 * eb = e + pl + k := by omega
  have f3 : r < 8 := by omega
  have f4 : k < 8 := by omega
  have f5 : sb < eb := by omega
  have f6 : eb ≤ bl := by omega
  have hsbl : sb < C.length := by omega
  rw [idx_getElem C sb hsbl]
  simp only
  generalize hc0 : C[sb] = c0
  have hc0lt : c0 < 256 := by rw [← hc0]; exact hab _ (List.getElem_mem _)
  obtain ⟨hfirst, hfbits⟩ := first_byte_bits c0 r k hc0lt f3 f4
  rw [toByte_ok _ hfirst]
  simp only
  generalize hmid : (C.drop (sb + 1)).take (eb - (sb + 1)) = mid
  have hmidl : mid.length = eb - (sb + 1) := by rw [← hmid]; simp; omega
  have hmidb : AllBytes mid := by rw [← hmid]; exact allBytes_take (allBytes_drop hab _) _
  have hnlt : ¬ (mid.length < eb - (sb + 1)) := by omega
  simp only [hnlt, if_false]
  -- the loop
  rw [shrCarryLoop_eq k mid c0]
  obtain ⟨out, l1, l2, l3, l4⟩ := shrLoopL_spec k (by omega) c0 mid hmidb
  rw [l1]
  simp only [Except.map]
  have hfo : AllBytes (((c0 &&& ((1 <<< (8 - r)) - 1)) >>> k) :: out) := by
    intro x hx
    rcases List.mem_cons.mp hx with h | h
    · subst h; exact hfirst
    · exact l2 x h
  rw [new_spec _ _ _ hfo]
  congr 2
  -- the bits kept by the constructor: drop (k + r) of the assembled bytes
  have hm : 8 * (out.length + 1) = (e - s) + (k + r) := by rw [l3, hmidl]; omega
  simp only [ABuf.ofBytes, bytesBits_cons, List.length_append, ofNat_length, bytesBits_length]
  have e0 : e - s - (8 + 8 * out.length) = 0 := by omega
  rw [e0]
  simp only [Bits.zeros, List.replicate_zero, List.nil_append, List.length_append, ofNat_length, bytesBits_length]
  have e1 : ([] : List Bool).length + (8 + 8 * out.length) - (e - s) = k + r := by simp only [List.length_nil]; omega
  rw [e1]
  have hout : ABuf.bytesBits out = ((Bits.ofNat 8 c0).drop (8 - k) ++ ABuf.bytesBits mid).take (ABuf.bytesBits mid).length := by
    have := lastByte_zero_tail k c0 mid out _ l4 (by omega) l3
    rw [this, bytesBits_length]
  rw [getL_bits (Bits.ofNat 8 c0) (ABuf.bytesBits mid) _ _ (by simp) k r f4 f3 (by simp) hfbits hout]
  -- the window is a slice of the padded content
  have hwin : Bits.ofNat 8 c0 ++ ABuf.bytesBits mid = ((Bits.zeros pl ++ bits).drop (8 * sb)).take (8 * (eb - sb)) := by
    rw [← hcb, ← bytesBits_drop, ← bytesBits_take, drop_eq_cons C sb hsbl, hc0]
    have : (c0 :: C.drop (sb + 1)).take (eb - sb) = c0 :: mid := by
      have e : eb - sb = (eb - (sb + 1)) + 1 := by omega
      rw [e, List.take_succ_cons, hmid]
    rw [this, bytesBits_cons]
  rw [hwin, bytesBits_length, hmidl]
  simp only [Bits.slice]
  rw [List.drop_take, List.drop_drop, List.take_take]
  have e2 : 8 * sb + r = pl + s := by omega
  rw [e2, List.drop_append, zeros_length, List.drop_of_length_le (by rw [zeros_length]; omega), List.nil_append]
  have e3 : pl + s - pl = s := by omega
  rw [e3]
  have e4 : min (8 + 8 * (eb - (sb + 1)) - k - r) (8 * (eb - sb) - r) = e - s := by
    clear hwin hout l4 hfbits hcb
    omega
  rw [e4]

end Schc

namespace Schc
open Bits

theorem shl_or_eq_add (b c k : Nat) (hk : k ≤ 8) (hc : c < 2 ^ k) : ((b <<< k) &&& 0xff) ||| c = ((b <<< k) &&& 0xff) + c := by
  have h256 : 2 ^ (8 - k) * 2 ^ k = 256 := by
    rw [← Nat.pow_add]; have : 8 - k + k = 8 := by omega
    rw [this]
  have hmask : (b <<< k) &&& 0xff = (b % 2 ^ (8 - k)) <<< k := by
    rw [show (0xff : Nat) = 2 ^ 8 - 1 by rfl, Nat.and_two_pow_sub_one_eq_mod, Nat.shiftLeft_eq, Nat.shiftLeft_eq, show (2 : Nat) ^ 8 = 256 by rfl, ← h256,
      Nat.mul_mod_mul_right]
  rw [hmask, Nat.shiftLeft_add_eq_or_of_lt hc]

/-- the left-shift loop with an incoming carry (`__getitem__` RIGHT side, `__add__`): carry-out bits followed by the new
    bytes = the stream followed by the `k` carry-in bits -/
theorem shlCarryLoop_spec (k : Nat) (hk : k ≤ 8) (mc : Bool) (c : List Nat) (hc : AllBytes c) (carry0 : Nat) (h0 : carry0 < 2 ^ k) :
    ∃ out cout, Buf.shlCarryLoop k mc c carry0 = .ok (out, cout) ∧ AllBytes out ∧ out.length = c.length ∧
      (c ≠ [] → cout < 2 ^ k) ∧ (c = [] → cout = carry0) ∧
      Bits.ofNat k cout ++ ABuf.bytesBits out = ABuf.bytesBits c ++ Bits.ofNat k carry0 := by
  induction c with
  | nil => exact ⟨[], carry0, rfl, (fun x hx => by cases hx), rfl, (fun h => absurd rfl h), (fun _ => rfl), by simp [ABuf.bytesBits]⟩
  | cons b bs ih =>
    obtain ⟨out, cin, i1, i2, i3, i4, i5, i6⟩ := ih (fun x hx => hc x (List.mem_cons_of_mem _ hx))
    have hcin : cin < 2 ^ k := by
      by_cases hbs : bs = []
      · rw [i5 hbs]; exact h0
      · exact i4 hbs
    have hb := hc b (by simp)
    obtain ⟨b1, b2, b3, b4⟩ := shl_byte b cin k hk hb hcin
    rw [shl_or_eq_add b cin k hk hcin] at b1 b2
    have hcout : (if mc then (b >>> (8 - k)) &&& ((1 <<< k) - 1) else b >>> (8 - k)) = (b >>> (8 - k)) &&& ((1 <<< k) - 1) := by
      cases mc
      · simp only [Bool.false_eq_true, if_false]
        -- unmasked: b < 256 so the shift is already below 2^k
        rw [Nat.shiftLeft_eq, Nat.one_mul, Nat.and_two_pow_sub_one_eq_mod, Nat.shiftRight_eq_div_pow]
        symm; apply Nat.mod_eq_of_lt
        have h256 : 2 ^ (8 - k) * 2 ^ k = 256 := by
          rw [← Nat.pow_add]; have : 8 - k + k = 8 := by omega
          rw [this]
        rw [Nat.div_lt_iff_lt_mul (Nat.pow_pos (by decide)), Nat.mul_comm, h256]; exact hb
      · rfl
    refine ⟨(((b <<< k) &&& 0xff) + cin) :: out, (b >>> (8 - k)) &&& ((1 <<< k) - 1), ?_, ?_, by simp [i3], (fun _ => b3), (fun h => by cases h), ?_⟩
    · simp only [Buf.shlCarryLoop, i1, bind, Except.bind, toByte_ok _ b1, pure, Except.pure, hcout]
    · intro x hx
      rcases List.mem_cons.mp hx with h | h
      · subst h; exact b1
      · exact i2 x h
    · rw [b4, bytesBits_cons, b2, bytesBits_cons, List.append_assoc, ← List.append_assoc (List.take _ _), List.take_append_drop,
        List.append_assoc, i6]

/-- slicing a right-padded canonical Buffer -/
theorem getRange_right (bits : Bits) (s e : Nat) (hse : s < e) (hen : e ≤ bits.length) :
    Buf.getRange (Buf.ofABuf ⟨bits, .right⟩) s e = .ok (Buf.ofABuf ⟨Bits.slice bits s e, .right⟩) := by
  have hpl := padLen_lt bits.length
  have hbl := byteLen_eq bits.length
  have hcl := ofABuf_content_length ⟨bits, .right⟩
  have hcb := bytesBits_content ⟨bits, .right⟩
  have hab := allBytes_content ⟨bits, .right⟩
  simp only [Buf.ofABuf, ABuf.length] at hcl hcb
  generalize hC : (⟨bits, .right⟩ : ABuf).content = C at *
  generalize hplv : padLenOf bits.length = pl at *
  generalize hblv : byteLenOf bits.length = bl at *
  unfold Buf.getRange
  have hnl : ¬ (e - s = 0) := by omega
  simp only [Buf.ofABuf, ABuf.length, hC, hnl, if_false, bind, Except.bind]
  generalize hsb : s / 8 = sb
  generalize hk : s % 8 = k
  generalize heb : (e + 7) / 8 = eb
  have f1 : s = 8 * sb + k := by omega
  have f2 : e ≤ 8 * eb := by omega
  have f3 : k < 8 := by omega
  have f5 : sb < eb := by omega
  have f6 : eb ≤ bl := by omega
  have f7 : eb ≠ 0 := by omega
  simp only [f7, if_false]
  have hebl : eb - 1 < C.length := by omega
  rw [idx_getElem C (eb - 1) hebl]
  simp only
  generalize hlast : C[eb - 1] = last
  generalize hmid : (C.drop sb).take (eb - sb) = mid
  have hmidl : mid.length = eb - sb := by rw [← hmid]; simp; omega
  have hmidb : AllBytes mid := by rw [← hmid]; exact allBytes_take (allBytes_drop hab _) _
  have hcarry : (last >>> (8 - k)) &&& ((1 <<< k) - 1) < 2 ^ k := by
    rw [Nat.shiftLeft_eq, Nat.one_mul, Nat.and_two_pow_sub_one_eq_mod]; exact Nat.mod_lt _ (Nat.pow_pos (by decide))
  obtain ⟨out, cout, l1, l2, l3, _, _, l6⟩ := shlCarryLoop_spec k (by omega) true mid hmidb _ hcarry
  rw [l1]
  simp only
  have htail : ((last &&& ((0xff <<< (8 - e % 8)) &&& 0xff)) <<< k) &&& 0xff < 256 :=
    Nat.lt_of_le_of_lt Nat.and_le_right (by decide)
  have hob : AllBytes (out ++ [((last &&& ((0xff <<< (8 - e % 8)) &&& 0xff)) <<< k) &&& 0xff]) := by
    intro x hx
    rcases List.mem_append.mp hx with h | h
    · exact l2 x h
    · simp only [List.mem_singleton] at h; subst h; exact htail
  rw [new_spec _ _ _ hob]
  congr 2
  simp only [ABuf.ofBytes, bytesBits_append, bytesBits_cons, bytesBits_nil, List.append_nil]
  -- the first e - s bits lie inside `out`
  have hout : ABuf.bytesBits out = (ABuf.bytesBits mid ++ Bits.ofNat k ((last >>> (8 - k)) &&& ((1 <<< k) - 1))).drop k := by
    have := congrArg (List.drop k) l6
    rw [List.drop_append_of_le_length (by simp), List.drop_of_length_le (by simp), List.nil_append] at this
    exact this
  have hlen : e - s ≤ (ABuf.bytesBits out).length := by rw [bytesBits_length, l3, hmidl]; omega
  rw [List.take_append_of_le_length (by simp only [List.length_append]; omega), List.take_append_of_le_length hlen, hout]
  have hmidbits : ABuf.bytesBits mid = ((bits ++ Bits.zeros pl).drop (8 * sb)).take (8 * (eb - sb)) := by
    rw [← hmid, bytesBits_take, bytesBits_drop, hcb]
  rw [List.drop_append_of_le_length (by rw [bytesBits_length, hmidl]; omega), List.take_append_of_le_length (by
    rw [List.length_drop, bytesBits_length, hmidl]; omega), hmidbits]
  simp only [Bits.slice]
  rw [List.drop_take, List.drop_drop, List.take_take]
  have e2 : 8 * sb + k = s := by omega
  rw [e2, List.drop_append_of_le_length (by omega), List.take_append_of_le_length (by rw [List.length_drop]; omega)]
  congr 1
  have : min (e - s) (8 * (eb - sb) - k) = e - s := by omega
  rw [this]

end Schc
