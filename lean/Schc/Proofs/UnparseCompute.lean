/-
The un-parsing path with compute fields, on IPv6 / UDP / CoAP with the CoAP options in semantic mode: the decompressor
un-parses the rebuilt fields first and runs the compute functions on the result (fix 858b849), so the lengths and the
checksum are regenerated over the re-encoded options — and the packet comes back.
-/
import Schc.Proofs.UnparseStack
import Schc.Proofs.StackRoundtrip
import Schc.Proofs.StackRoundtrip4

namespace Schc
open Bits Compute

/-- the bare round trip through an unparser for a rule WITH compute fields: whatever `PacketParser.unparse` makes of
    the rebuilt field list (zero placeholders at the compute positions), the compute functions run on THAT list, at the
    positions recorded while walking the rule, and their result is concatenated -/
theorem roundtrip_compute_unparser (p : Packet) (r : Rule) (hn : r.nature = .compression)
    (hdir : ∀ rf ∈ r.fields, Spec.dirApplies p.dir rf.dir = true)
    (happ : Spec.applicable p r = true) (hfit : AllFitsC p.fields r.fields)
    (ps : List ParserInst) (U res : Compute.Fields)
    (hun : packetUnparse ps (assemble r.fields (zeroed p.fields r.fields) ++ [(Gen.payloadId, ⟨p.payload.bits, .right⟩)]) = .ok U)
    (hrun : runComputes (sortEntries (computeEntries r.fields 0)) U = .ok res) :
    ∃ c, compress p r = .ok c ∧ decompressU c r (some ps) none = .ok ⟨res.flatMap (·.2.bits), .right⟩ := by
  unfold Spec.applicable at happ
  rw [hn] at happ
  have hfilter : r.fields.filter (fun f => Spec.dirApplies p.dir f.dir) = r.fields := by
    rw [List.filter_eq_self]; exact hdir
  simp only [hfilter, Bool.and_eq_true, beq_iff_eq] at happ
  obtain ⟨hl, hm⟩ := happ
  obtain ⟨hadm, hok, hres⟩ := all_of_match_c p.fields r.fields hl hm hfit
  obtain ⟨rs, h1, h2⟩ := compressFields_spec p.fields r.fields ((ABuf.empty .right).add r.id) hok
  obtain ⟨res', h3, h4⟩ := decompressFields_spec r.fields (zeroed p.fields r.fields) hadm p.payload.bits .right 0
  have hrr : rs = res' := by
    rw [hres, h1] at h3; exact Option.some.inj h3
  refine ⟨⟨r.id.bits ++ rs ++ p.payload.bits, .right⟩, ?_, ?_⟩
  · unfold compress
    simp only [hn, h2, bind, Except.bind, pure, Except.pure]
    simp [ABuf.add, ABuf.empty]
  · unfold decompressU decompressToFieldsU restrictO
    have : (⟨r.id.bits ++ rs ++ p.payload.bits, .right⟩ : ABuf).from_ r.id.length = ⟨res' ++ p.payload.bits, .right⟩ := by
      simp [ABuf.from_, ABuf.length, List.append_assoc, hrr]
    simp only [this, h4, hun, hrun, bind, Except.bind, pure, Except.pure]
    rw [foldl_add_fields]
    simp [ABuf.empty]

/-- `Valid6` only looks at lengths and bits -/
theorem Valid6_congr {a3 a6 a7 u0 u1 u2 u3 a3' a6' a7' u0' u1' u2' u3' : ABuf} {rest rest' : Fields}
    (e3 : a3.bits = a3'.bits) (e6 : a6.bits = a6'.bits) (e7 : a7.bits = a7'.bits)
    (f0 : u0.bits = u0'.bits) (f1 : u1.bits = u1'.bits) (f2 : u2.bits = u2'.bits) (f3 : u3.bits = u3'.bits)
    (er : rest.flatMap (·.2.bits) = rest'.flatMap (·.2.bits))
    (h : Valid6 a3 a6 a7 u0 u1 u2 u3 rest) : Valid6 a3' a6' a7' u0' u1' u2' u3' rest' := by
  obtain ⟨hn, l2, l3, hpl, hul, c, hck, hcb⟩ := h
  have hlen : (upOf u0' u1' u2' u3' rest').length = (upOf u0 u1 u2 u3 rest).length := by
    simp only [ABuf.length, upOf_bits, ← f0, ← f1, ← f2, ← f3, ← er]
  have hb : ∀ x : ABuf, (upOf u0' u1' u2' x rest').bits = (upOf u0 u1 u2 x rest).bits := by
    intro x; simp only [upOf_bits, ← f0, ← f1, ← f2, ← er]
  refine ⟨by rw [hlen]; exact hn, by rw [← f2]; exact l2, by rw [← f3]; exact l3, by rw [← e3, hlen]; exact hpl,
    by rw [← f2, hlen]; exact hul, c, ?_, by rw [← f3]; exact hcb⟩
  rw [hlen, ← hck]
  apply udpChecksumOf_bits
  · simp only [ABuf.add, e6, e7]
  · exact hb _

theorem ip6_fields (ip : ParserInst) (hc : ip.cls = "IPv6Parser") (hnp : ip.predict = false) (fuel : Nat) (b : ABuf) (h : Header)
    (hp : runParser fuel ip b = .ok h) : h.fields = parseFixed Gen.ipv6Layout b := by
  unfold runParser at hp
  simp only [hc] at hp
  have : ("IPv6Parser" == "IPv4Parser") = false := by decide
  simp only [this, Bool.false_eq_true, if_false, beq_self_eq_true, if_true, hnp, ipv6Parse, ipParse, bind, Except.bind] at hp
  split at hp
  · simp [throw, throwThe, MonadExceptOf.throw] at hp
  · split at hp
    · simp [throw, throwThe, MonadExceptOf.throw] at hp
    · simp only [pure, Except.pure, Except.ok.injEq] at hp
      subst hp; rfl

theorem udp_fields (udp : ParserInst) (hc : udp.cls = "UDPParser") (hnp : udp.predict = false) (fuel : Nat) (b : ABuf) (h : Header)
    (hp : runParser fuel udp b = .ok h) : h.fields = parseFixed Gen.udpLayout b := by
  unfold runParser at hp
  simp only [hc] at hp
  have e1 : ("UDPParser" == "IPv4Parser") = false := by decide
  have e2 : ("UDPParser" == "IPv6Parser") = false := by decide
  simp only [e1, e2, Bool.false_eq_true, if_false, beq_self_eq_true, if_true, hnp, udpParse, bind, Except.bind] at hp
  split at hp
  · simp [throw, throwThe, MonadExceptOf.throw] at hp
  · simp only [pure, Except.pure, Except.ok.injEq] at hp
    subst hp; rfl

theorem layout_ids6 : Gen.ipv6Layout.map (·.1) ++ Gen.udpLayout.map (·.1) = ids6 ∧
    Gen.IPv6F.all.all (fun i => claims Gen.ipv6HeaderId i) = true ∧ Gen.UDPF.all.all (fun i => claims Gen.udpHeaderId i) = true := by
  decide +kernel

theorem zeroed_nocompute (pfs : List Field) (rfs : List RuleField) (h : pfs.length = rfs.length) (hnc : ∀ rf ∈ rfs, rf.cda ≠ .compute) :
    zeroed pfs rfs = pfs.map (·.value.bits) := by
  induction pfs generalizing rfs with
  | nil => cases rfs <;> simp_all [zeroed]
  | cons pf pfs ih =>
    cases rfs with
    | nil => simp at h
    | cons rf rfs =>
      simp only [zeroed, hnc rf (by simp), if_false, List.map_cons]
      rw [ih rfs (by simpa using h) (fun x hx => hnc x (List.mem_cons_of_mem _ hx))]

theorem strip_ids (a b : Compute.Fields) (h : strip a = strip b) : a.map (·.1) = b.map (·.1) := by
  have := congrArg (List.map (·.1)) h
  simp only [strip, List.map_map] at this
  exact this

theorem claimedBy_of_ids {own : String} {a b : Compute.Fields} (h : a.map (·.1) = b.map (·.1)) (hb : ClaimedBy own b) : ClaimedBy own a := by
  intro x hx
  have : x.1 ∈ b.map (·.1) := by rw [← h]; exact List.mem_map_of_mem hx
  obtain ⟨y, hy, hxy⟩ := List.mem_map.mp this
  rw [← hxy]; exact hb y hy


theorem fv_bits12 (l : List Field) (h : l.length = 12) :
    (fv l 0).bits ++ ((fv l 1).bits ++ ((fv l 2).bits ++ ((fv l 3).bits ++ ((fv l 4).bits ++ ((fv l 5).bits ++ ((fv l 6).bits ++
      ((fv l 7).bits ++ ((fv l 8).bits ++ ((fv l 9).bits ++ ((fv l 10).bits ++ (fv l 11).bits)))))))))) = l.flatMap (·.value.bits) := by
  obtain ⟨x0, x1, x2, x3, x4, x5, x6, x7, x8, x9, x10, x11, rfl⟩ := length12 l h
  simp [fv]

theorem claimedBy_of_idlist {own : String} (l : Compute.Fields) (ids : List String) (h : l.map (·.1) = ids)
    (hall : ids.all (fun i => claims own i) = true) : ClaimedBy own l := by
  intro x hx
  have : x.1 ∈ ids := by rw [← h]; exact List.mem_map_of_mem hx
  exact List.all_eq_true.mp hall _ this

theorem strip_flat (a b : Compute.Fields) (h : strip a = strip b) : a.flatMap (·.2.bits) = b.flatMap (·.2.bits) := by
  have := congrArg (fun l => l.flatMap (·.2)) h
  simpa [strip, List.flatMap_map] using this

/-- C01 / C09 / C19 joined on IPv6 / UDP / CoAP with the options in semantic mode and compute fields: parse with the
    semantic stack, compress with a rule that may mark IPv6 payload length, UDP length and UDP checksum as *compute*
    (any subset) and treats the semantic CoAP fields with lossless pairings, decompress with the parser as unparser —
    the lengths and the checksum are regenerated over the re-encoded options and the packet comes back bit for bit -/
theorem roundtrip_ipv6_udp_coap_semantic
    (ip : ParserInst) (hi6 : ip.cls = "IPv6Parser") (hinp : ip.predict = false) (hipm : ip.coapMode = .syntactic)
    (udp : ParserInst) (hu : udp.cls = "UDPParser") (hunp : udp.predict = false) (hum : udp.coapMode = .syntactic)
    (cs : ParserInst) (hc : cs.cls = "CoAPParser") (hsem : cs.coapMode = .semantic)
    (fuel : Nat) (b : ABuf) (hside : b.side = .left) (h1 h2 hs : Header)
    (hp1 : runParser fuel ip b = .ok h1) (hp2 : runParser fuel udp (b.from_ h1.length) = .ok h2)
    (hp3 : coapParse .syntactic fuel ((b.from_ h1.length).from_ h2.length) = .ok hs) (hwf : WfNibbles (pairs hs.fields))
    (d : Dir) (r : Rule) (rf12 restR : List RuleField) (hr : r.fields = rf12 ++ restR) (h12r : rf12.length = 12)
    (hn : r.nature = .compression) (hdir : ∀ rf ∈ r.fields, Spec.dirApplies d rf.dir = true)
    (hncR : ∀ rf ∈ restR, rf.cda ≠ .compute) :
    ∃ pm : Packet, packetParse fuel [ip, udp, cs] b = .ok pm ∧
      (Spec.applicable { pm with dir := d } r = true → AllFitsC pm.fields r.fields →
        Valid6 (fv (h1.fields ++ h2.fields) 3) (fv (h1.fields ++ h2.fields) 6) (fv (h1.fields ++ h2.fields) 7)
          (fv (h1.fields ++ h2.fields) 8) (fv (h1.fields ++ h2.fields) 9) (fv (h1.fields ++ h2.fields) 10) (fv (h1.fields ++ h2.fields) 11)
          (pairs hs.fields ++ [(Gen.payloadId, pm.payload)]) →
        ∃ c, compress { pm with dir := d } r = .ok c ∧ decompressU c r (some [ip, udp, cs]) none = .ok ⟨b.bits, .right⟩) := by
  have hip : IsIp ip Gen.ipv6HeaderId Gen.ipv6Layout := ⟨.inl ⟨hi6, rfl, rfl⟩, hinp⟩
  obtain ⟨hm, hpm, hlen, hun⟩ := coap_semantic_lossless fuel ((b.from_ h1.length).from_ h2.length) hside hs hp3 hwf
  have c3' := coapParse_claims fuel _ hm hpm
  refine ⟨⟨.dw, h1.fields ++ h2.fields ++ hm.fields, ((b.from_ h1.length).from_ h2.length).from_ hs.length, b⟩, ?_, ?_⟩
  · unfold packetParse
    simp only [packetParse.go, bind, Except.bind, hp1, hp2, coap_runParser cs hc, hsem, hpm, pure, Except.pure, List.nil_append, hlen,
      List.append_assoc]
  intro happ hfit hvalid
  have e1 := ip6_fields ip hi6 hinp fuel b h1 hp1
  have e2 := udp_fields udp hu hunp fuel _ h2 hp2
  have h12p : (h1.fields ++ h2.fields).length = 12 := by rw [e1, e2]; rfl
  have hids : (h1.fields ++ h2.fields).map (·.id) = ids6 := by
    rw [List.map_append, e1, e2, parseFixed_ids, parseFixed_ids]; exact layout_ids6.1
  generalize hpf : h1.fields ++ h2.fields = pf12 at *
  generalize hpl : ((b.from_ h1.length).from_ h2.length).from_ hs.length = payload at *
  have l3 : (fv pf12 3).bits.length = 16 := by
    have := congrArg List.length hvalid.pl; simpa using this
  obtain ⟨c3, c10, c11, hcur, hent, hlrest, hfitR, mrest⟩ :=
    ipv6_udp_shape ⟨d, pf12 ++ hm.fields, payload, b⟩ r pf12 hm.fields rf12 restR rfl hr h12p h12r hids hn hdir happ hfit hncR
      l3 hvalid.l2 hvalid.l3
  -- the CoAP segment the decompressor rebuilt, and what `CoAPParser.unparse` makes of it
  have hseg : strip (assemble restR (zeroed hm.fields restR)) = strip (pairs hm.fields) := by
    rw [zeroed_nocompute _ _ hlrest hncR]; exact strip_assemble hm.fields restR hlrest mrest
  have hC : ClaimedBy Gen.coapHeaderId (assemble restR (zeroed hm.fields restR)) :=
    claimedBy_of_ids (strip_ids _ _ hseg) (claimedBy_pairs c3')
  have hcu := coapUnparseSemantic_strip _ _ hseg none 0
  have hun' : coapUnparseSemantic (pairs hm.fields) none 0 = .ok (pairs hs.fields) := hun
  rw [hun'] at hcu
  obtain ⟨Uc, hUc, hUs⟩ : ∃ Uc, coapUnparseSemantic (assemble restR (zeroed hm.fields restR)) none 0 = .ok Uc ∧ strip Uc = strip (pairs hs.fields) := by
    cases hx : coapUnparseSemantic (assemble restR (zeroed hm.fields restR)) none 0 with
    | error e => rw [hx] at hcu; simp [Except.map] at hcu
    | ok Uc => rw [hx] at hcu; simp only [Except.map, Except.ok.injEq] at hcu; exact ⟨Uc, rfl, hcu⟩
  have hhu : headerUnparse cs (assemble restR (zeroed hm.fields restR)) = .ok Uc := by
    unfold headerUnparse; rw [hc]; simp only [beq_self_eq_true, if_true, hsem, coapUnparse]; exact hUc
  -- the dispatch
  let A : Compute.Fields := [(Gen.IPv6F.VERSION, fv pf12 0), (Gen.IPv6F.TRAFFIC_CLASS, fv pf12 1), (Gen.IPv6F.FLOW_LABEL, fv pf12 2),
    (Gen.IPv6F.PAYLOAD_LENGTH, if c3 then ph 16 else fv pf12 3), (Gen.IPv6F.NEXT_HEADER, fv pf12 4), (Gen.IPv6F.HOP_LIMIT, fv pf12 5),
    (Gen.IPv6F.SRC_ADDRESS, fv pf12 6), (Gen.IPv6F.DST_ADDRESS, fv pf12 7)]
  let B : Compute.Fields := [(Gen.UDPF.SOURCE_PORT, fv pf12 8), (Gen.UDPF.DESTINATION_PORT, fv pf12 9),
    (Gen.UDPF.LENGTH, if c10 then ph 16 else fv pf12 10), (Gen.UDPF.CHECKSUM, if c11 then ph 16 else fv pf12 11)]
  have hA : ClaimedBy Gen.ipv6HeaderId A := claimedBy_of_idlist A Gen.IPv6F.all rfl layout_ids6.2.1
  have hB : ClaimedBy Gen.udpHeaderId B := claimedBy_of_idlist B Gen.UDPF.all rfl layout_ids6.2.2
  have h3 := packetUnparse_three hip udp hu cs hc A B _ ⟨payload.bits, .right⟩ hA hB hC
  rw [hhu] at h3
  have hU : packetUnparse [ip, udp, cs]
      (assemble r.fields (zeroed (pf12 ++ hm.fields) r.fields) ++ [(Gen.payloadId, (⟨payload.bits, .right⟩ : ABuf))]) =
      .ok (stack6 (fv pf12 0) (fv pf12 1) (fv pf12 2) (if c3 then ph 16 else fv pf12 3) (fv pf12 4) (fv pf12 5) (fv pf12 6) (fv pf12 7)
        (fv pf12 8) (fv pf12 9) (if c10 then ph 16 else fv pf12 10) (if c11 then ph 16 else fv pf12 11)
        (Uc ++ [(Gen.payloadId, (⟨payload.bits, .right⟩ : ABuf))])) := by
    have := hcur
    simp only at this
    rw [this]
    have e : stack6 (fv pf12 0) (fv pf12 1) (fv pf12 2) (if c3 then ph 16 else fv pf12 3) (fv pf12 4) (fv pf12 5) (fv pf12 6) (fv pf12 7)
        (fv pf12 8) (fv pf12 9) (if c10 then ph 16 else fv pf12 10) (if c11 then ph 16 else fv pf12 11) (restOf hm.fields restR payload) =
        A ++ B ++ assemble restR (zeroed hm.fields restR) ++ [(Gen.payloadId, (⟨payload.bits, .right⟩ : ABuf))] := by
      simp [stack6, restOf, A, B]
    rw [e, h3]
    simp [Except.map, stack6, A, B]
  -- validity carries over to the un-parsed tail
  have er : (pairs hs.fields ++ [(Gen.payloadId, payload)]).flatMap (·.2.bits) =
      (Uc ++ [(Gen.payloadId, (⟨payload.bits, .right⟩ : ABuf))]).flatMap (·.2.bits) := by
    simp only [List.flatMap_append, strip_flat _ _ hUs]
    simp
  have hv' := Valid6_congr rfl rfl rfl rfl rfl rfl rfl er hvalid
  obtain ⟨res, hrun, hbits⟩ := restore6 (fv pf12 0) (fv pf12 1) (fv pf12 2) (fv pf12 3) (fv pf12 4) (fv pf12 5) (fv pf12 6) (fv pf12 7)
    (fv pf12 8) (fv pf12 9) (fv pf12 10) (fv pf12 11) _ hv' c3 c10 c11
  obtain ⟨c, hc1, hc2⟩ := roundtrip_compute_unparser ⟨d, pf12 ++ hm.fields, payload, b⟩ r hn hdir happ hfit [ip, udp, cs] _ res hU
    (by rw [hent]; exact hrun)
  refine ⟨c, hc1, ?_⟩
  rw [hc2, hbits, stack6_bits]
  congr 2
  obtain ⟨t1, _⟩ := runParser_tiles fuel ip hipm b h1 hp1
  obtain ⟨t2, _⟩ := runParser_tiles fuel udp hum _ h2 hp2
  obtain ⟨t3, _⟩ := coapParse_tiles fuel _ hs hp3
  have e12 := fv_bits12 pf12 h12p
  rw [List.flatMap_append, strip_flat _ _ hUs]
  have hpf' : pf12.flatMap (·.value.bits) = fbits h1.fields ++ fbits h2.fields := by rw [← hpf]; simp [fbits]
  have hsb : (pairs hs.fields).flatMap (·.2.bits) = fbits hs.fields := by simp [pairs, fbits, List.flatMap_map]
  refine Eq.trans (b := pf12.flatMap (·.value.bits) ++ ((pairs hs.fields).flatMap (·.2.bits) ++ payload.bits)) ?_ ?_
  · rw [← e12]; simp [List.append_assoc]
  · rw [hpf', hsb, t1, t2, t3, ← hpl]
    simp only [ABuf.from_, List.append_assoc, List.take_append_drop]

/-! ### the IPv4 variant -/

theorem Valid4_rest_congr {a0 a1 a2 a3 a4 a5 a6 a7 a8 a9 a10 a11 u0 u1 u2 u3 : ABuf} {rest rest' : Fields}
    (er : rest.flatMap (·.2.bits) = rest'.flatMap (·.2.bits))
    (h : Valid4 a0 a1 a2 a3 a4 a5 a6 a7 a8 a9 a10 a11 u0 u1 u2 u3 rest) : Valid4 a0 a1 a2 a3 a4 a5 a6 a7 a8 a9 a10 a11 u0 u1 u2 u3 rest' := by
  obtain ⟨hnu, hnt, l3, l9, l14, l15, htl, hul, hhc, c, hck, hcb⟩ := h
  have hlen : ∀ x y : ABuf, (upOf u0 u1 x y rest').length = (upOf u0 u1 x y rest).length := by
    intro x y; simp only [ABuf.length, upOf_bits, ← er]
  have hb : ∀ x : ABuf, (upOf u0 u1 u2 x rest').bits = (upOf u0 u1 u2 x rest).bits := by
    intro x; simp only [upOf_bits, ← er]
  have htail : tailLen4 a1 a2 a3 a4 a5 a6 a7 a8 a9 a10 a11 u0 u1 u2 u3 rest' = tailLen4 a1 a2 a3 a4 a5 a6 a7 a8 a9 a10 a11 u0 u1 u2 u3 rest := by
    unfold tailLen4; rw [hlen]
  refine ⟨by rw [hlen]; exact hnu, by rw [htail]; exact hnt, l3, l9, l14, l15, by rw [htail]; exact htl, by rw [hlen]; exact hul, hhc, c, ?_, hcb⟩
  rw [hlen, ← hck]
  exact udpChecksumOf_bits _ _ _ _ rfl (hb _)

theorem ip4_fields (ip : ParserInst) (hc : ip.cls = "IPv4Parser") (hnp : ip.predict = false) (fuel : Nat) (b : ABuf) (h : Header)
    (hp : runParser fuel ip b = .ok h) : h.fields = parseFixed Gen.ipv4Layout b := by
  unfold runParser at hp
  simp only [hc] at hp
  simp only [beq_self_eq_true, if_true, hnp, ipv4Parse, ipParse, bind, Except.bind, Bool.false_eq_true, if_false] at hp
  split at hp
  · simp [throw, throwThe, MonadExceptOf.throw] at hp
  · split at hp
    · simp [throw, throwThe, MonadExceptOf.throw] at hp
    · simp only [pure, Except.pure, Except.ok.injEq] at hp
      subst hp; rfl

theorem layout_ids4 : Gen.ipv4Layout.map (·.1) ++ Gen.udpLayout.map (·.1) = ids4 ∧
    Gen.IPv4F.all.all (fun i => claims Gen.ipv4HeaderId i) = true := by
  decide +kernel

theorem fv_bits16 (l : List Field) (h : l.length = 16) :
    (fv l 0).bits ++ ((fv l 1).bits ++ ((fv l 2).bits ++ ((fv l 3).bits ++ ((fv l 4).bits ++ ((fv l 5).bits ++ ((fv l 6).bits ++ ((fv l 7).bits ++ ((fv l 8).bits ++ ((fv l 9).bits ++ ((fv l 10).bits ++ ((fv l 11).bits ++ ((fv l 12).bits ++ ((fv l 13).bits ++ ((fv l 14).bits ++ ((fv l 15).bits))))))))))))))) = l.flatMap (·.value.bits) := by
  obtain ⟨x0, x1, x2, x3, x4, x5, x6, x7, x8, x9, x10, x11, x12, x13, x14, x15, rfl⟩ := length16 l h
  simp [fv]

/-- the IPv4 / UDP / CoAP-semantic variant of `roundtrip_ipv6_udp_coap_semantic`: total length, header checksum, UDP
    length and UDP checksum may be compute (any subset) -/
theorem roundtrip_ipv4_udp_coap_semantic
    (ip : ParserInst) (hi4 : ip.cls = "IPv4Parser") (hinp : ip.predict = false) (hipm : ip.coapMode = .syntactic)
    (udp : ParserInst) (hu : udp.cls = "UDPParser") (hunp : udp.predict = false) (hum : udp.coapMode = .syntactic)
    (cs : ParserInst) (hc : cs.cls = "CoAPParser") (hsem : cs.coapMode = .semantic)
    (fuel : Nat) (b : ABuf) (hside : b.side = .left) (h1 h2 hs : Header)
    (hp1 : runParser fuel ip b = .ok h1) (hp2 : runParser fuel udp (b.from_ h1.length) = .ok h2)
    (hp3 : coapParse .syntactic fuel ((b.from_ h1.length).from_ h2.length) = .ok hs) (hwf : WfNibbles (pairs hs.fields))
    (d : Dir) (r : Rule) (rf16 restR : List RuleField) (hr : r.fields = rf16 ++ restR) (h16r : rf16.length = 16)
    (hn : r.nature = .compression) (hdir : ∀ rf ∈ r.fields, Spec.dirApplies d rf.dir = true)
    (hncR : ∀ rf ∈ restR, rf.cda ≠ .compute) :
    ∃ pm : Packet, packetParse fuel [ip, udp, cs] b = .ok pm ∧
      (Spec.applicable { pm with dir := d } r = true → AllFitsC pm.fields r.fields →
        Valid4 (fv (h1.fields ++ h2.fields) 0) (fv (h1.fields ++ h2.fields) 1) (fv (h1.fields ++ h2.fields) 2) (fv (h1.fields ++ h2.fields) 3) (fv (h1.fields ++ h2.fields) 4) (fv (h1.fields ++ h2.fields) 5) (fv (h1.fields ++ h2.fields) 6) (fv (h1.fields ++ h2.fields) 7) (fv (h1.fields ++ h2.fields) 8) (fv (h1.fields ++ h2.fields) 9) (fv (h1.fields ++ h2.fields) 10) (fv (h1.fields ++ h2.fields) 11) (fv (h1.fields ++ h2.fields) 12) (fv (h1.fields ++ h2.fields) 13) (fv (h1.fields ++ h2.fields) 14) (fv (h1.fields ++ h2.fields) 15)
          (pairs hs.fields ++ [(Gen.payloadId, pm.payload)]) →
        ∃ c, compress { pm with dir := d } r = .ok c ∧ decompressU c r (some [ip, udp, cs]) none = .ok ⟨b.bits, .right⟩) := by
  have hip : IsIp ip Gen.ipv4HeaderId Gen.ipv4Layout := ⟨.inr ⟨hi4, rfl, rfl⟩, hinp⟩
  obtain ⟨hm, hpm, hlen, hun⟩ := coap_semantic_lossless fuel ((b.from_ h1.length).from_ h2.length) hside hs hp3 hwf
  have c3' := coapParse_claims fuel _ hm hpm
  refine ⟨⟨.dw, h1.fields ++ h2.fields ++ hm.fields, ((b.from_ h1.length).from_ h2.length).from_ hs.length, b⟩, ?_, ?_⟩
  · unfold packetParse
    simp only [packetParse.go, bind, Except.bind, hp1, hp2, coap_runParser cs hc, hsem, hpm, pure, Except.pure, List.nil_append, hlen,
      List.append_assoc]
  intro happ hfit hvalid
  have e1 := ip4_fields ip hi4 hinp fuel b h1 hp1
  have e2 := udp_fields udp hu hunp fuel _ h2 hp2
  have h16p : (h1.fields ++ h2.fields).length = 16 := by rw [e1, e2]; rfl
  have hids : (h1.fields ++ h2.fields).map (·.id) = ids4 := by
    rw [List.map_append, e1, e2, parseFixed_ids, parseFixed_ids]; exact layout_ids4.1
  generalize hpf : h1.fields ++ h2.fields = pf16 at *
  generalize hpl : ((b.from_ h1.length).from_ h2.length).from_ hs.length = payload at *
  obtain ⟨c3, c9, c14, c15, hcur, hent, hlrest, hfitR, mrest⟩ :=
    ipv4_udp_shape ⟨d, pf16 ++ hm.fields, payload, b⟩ r pf16 hm.fields rf16 restR rfl hr h16p h16r hids hn hdir happ hfit hncR
      hvalid.l3 hvalid.l9 hvalid.l14 hvalid.l15
  have hseg : strip (assemble restR (zeroed hm.fields restR)) = strip (pairs hm.fields) := by
    rw [zeroed_nocompute _ _ hlrest hncR]; exact strip_assemble hm.fields restR hlrest mrest
  have hC : ClaimedBy Gen.coapHeaderId (assemble restR (zeroed hm.fields restR)) :=
    claimedBy_of_ids (strip_ids _ _ hseg) (claimedBy_pairs c3')
  have hcu := coapUnparseSemantic_strip _ _ hseg none 0
  have hun' : coapUnparseSemantic (pairs hm.fields) none 0 = .ok (pairs hs.fields) := hun
  rw [hun'] at hcu
  obtain ⟨Uc, hUc, hUs⟩ : ∃ Uc, coapUnparseSemantic (assemble restR (zeroed hm.fields restR)) none 0 = .ok Uc ∧ strip Uc = strip (pairs hs.fields) := by
    cases hx : coapUnparseSemantic (assemble restR (zeroed hm.fields restR)) none 0 with
    | error e => rw [hx] at hcu; simp [Except.map] at hcu
    | ok Uc => rw [hx] at hcu; simp only [Except.map, Except.ok.injEq] at hcu; exact ⟨Uc, rfl, hcu⟩
  have hhu : headerUnparse cs (assemble restR (zeroed hm.fields restR)) = .ok Uc := by
    unfold headerUnparse; rw [hc]; simp only [beq_self_eq_true, if_true, hsem, coapUnparse]; exact hUc
  let A : Compute.Fields := [(Gen.IPv4F.VERSION, fv pf16 0), (Gen.IPv4F.HEADER_LENGTH, fv pf16 1), (Gen.IPv4F.TYPE_OF_SERVICE, fv pf16 2),
    (Gen.IPv4F.TOTAL_LENGTH, sel c3 (ph 16) (fv pf16 3)), (Gen.IPv4F.IDENTIFICATION, fv pf16 4), (Gen.IPv4F.FLAGS, fv pf16 5),
    (Gen.IPv4F.FRAGMENT_OFFSET, fv pf16 6), (Gen.IPv4F.TIME_TO_LIVE, fv pf16 7), (Gen.IPv4F.PROTOCOL, fv pf16 8),
    (Gen.IPv4F.HEADER_CHECKSUM, sel c9 (ph 16) (fv pf16 9)), (Gen.IPv4F.SRC_ADDRESS, fv pf16 10), (Gen.IPv4F.DST_ADDRESS, fv pf16 11)]
  let B : Compute.Fields := [(Gen.UDPF.SOURCE_PORT, fv pf16 12), (Gen.UDPF.DESTINATION_PORT, fv pf16 13),
    (Gen.UDPF.LENGTH, sel c14 (ph 16) (fv pf16 14)), (Gen.UDPF.CHECKSUM, sel c15 (ph 16) (fv pf16 15))]
  have hA : ClaimedBy Gen.ipv4HeaderId A := claimedBy_of_idlist A Gen.IPv4F.all rfl layout_ids4.2
  have hB : ClaimedBy Gen.udpHeaderId B := claimedBy_of_idlist B Gen.UDPF.all rfl layout_ids6.2.2
  have h3 := packetUnparse_three hip udp hu cs hc A B _ ⟨payload.bits, .right⟩ hA hB hC
  rw [hhu] at h3
  have hU : packetUnparse [ip, udp, cs]
      (assemble r.fields (zeroed (pf16 ++ hm.fields) r.fields) ++ [(Gen.payloadId, (⟨payload.bits, .right⟩ : ABuf))]) =
      .ok (stack4 (fv pf16 0) (fv pf16 1) (fv pf16 2) (sel c3 (ph 16) (fv pf16 3)) (fv pf16 4) (fv pf16 5) (fv pf16 6) (fv pf16 7) (fv pf16 8) (sel c9 (ph 16) (fv pf16 9)) (fv pf16 10) (fv pf16 11) (fv pf16 12) (fv pf16 13) (sel c14 (ph 16) (fv pf16 14)) (sel c15 (ph 16) (fv pf16 15))
        (Uc ++ [(Gen.payloadId, (⟨payload.bits, .right⟩ : ABuf))])) := by
    have := hcur
    simp only at this
    rw [this]
    have e : stack4 (fv pf16 0) (fv pf16 1) (fv pf16 2) (sel c3 (ph 16) (fv pf16 3)) (fv pf16 4) (fv pf16 5) (fv pf16 6) (fv pf16 7) (fv pf16 8) (sel c9 (ph 16) (fv pf16 9)) (fv pf16 10) (fv pf16 11) (fv pf16 12) (fv pf16 13) (sel c14 (ph 16) (fv pf16 14)) (sel c15 (ph 16) (fv pf16 15)) (restOf hm.fields restR payload) =
        A ++ B ++ assemble restR (zeroed hm.fields restR) ++ [(Gen.payloadId, (⟨payload.bits, .right⟩ : ABuf))] := by
      simp [stack4, restOf, A, B]
    rw [e, h3]
    simp [Except.map, stack4, A, B]
  have er : (pairs hs.fields ++ [(Gen.payloadId, payload)]).flatMap (·.2.bits) =
      (Uc ++ [(Gen.payloadId, (⟨payload.bits, .right⟩ : ABuf))]).flatMap (·.2.bits) := by
    simp only [List.flatMap_append, strip_flat _ _ hUs]
    simp
  have hv' := Valid4_rest_congr er hvalid
  obtain ⟨res, hrun, hbits⟩ := restore4 (fv pf16 0) (fv pf16 1) (fv pf16 2) (fv pf16 3) (fv pf16 4) (fv pf16 5) (fv pf16 6) (fv pf16 7) (fv pf16 8) (fv pf16 9) (fv pf16 10) (fv pf16 11) (fv pf16 12) (fv pf16 13) (fv pf16 14) (fv pf16 15) _ hv' c3 c9 c14 c15
  obtain ⟨c, hc1, hc2⟩ := roundtrip_compute_unparser ⟨d, pf16 ++ hm.fields, payload, b⟩ r hn hdir happ hfit [ip, udp, cs] _ res hU
    (by rw [hent]; exact hrun)
  refine ⟨c, hc1, ?_⟩
  rw [hc2, hbits, stack4_bits]
  congr 2
  obtain ⟨t1, _⟩ := runParser_tiles fuel ip hipm b h1 hp1
  obtain ⟨t2, _⟩ := runParser_tiles fuel udp hum _ h2 hp2
  obtain ⟨t3, _⟩ := coapParse_tiles fuel _ hs hp3
  have e16 := fv_bits16 pf16 h16p
  rw [List.flatMap_append, strip_flat _ _ hUs]
  have hpf' : pf16.flatMap (·.value.bits) = fbits h1.fields ++ fbits h2.fields := by rw [← hpf]; simp [fbits]
  have hsb : (pairs hs.fields).flatMap (·.2.bits) = fbits hs.fields := by simp [pairs, fbits, List.flatMap_map]
  refine Eq.trans (b := pf16.flatMap (·.value.bits) ++ ((pairs hs.fields).flatMap (·.2.bits) ++ payload.bits)) ?_ ?_
  · rw [← e16]; simp [List.append_assoc]
  · rw [hpf', hsb, t1, t2, t3, ← hpl]
    simp only [ABuf.from_, List.append_assoc, List.take_append_drop]

end Schc
