/- C09: the add-then-fold loop is the one's-complement sum; the CRC table and loop are the bitwise CRC-32c. -/
import Schc.Spec.Checksum
import Schc.Py.Compute
import Schc.Proofs.BitsLemmas

namespace Schc
open Compute

theorem foldStep_eq (acc v : Nat) (ha : acc ≤ 65535) (hv : v ≤ 65535) :
    foldStep acc v = if acc + v ≤ 65535 then acc + v else acc + v - 65535 := by
  unfold foldStep
  simp only [Nat.shiftRight_eq_div_pow, show (0xffff : Nat) = 2 ^ 16 - 1 by rfl, Nat.and_two_pow_sub_one_eq_mod]
  split <;> omega

/-- the loop invariant: the accumulator is the reduced sum -/
theorem foldl_foldStep (ws : List Nat) (acc s : Nat) (hw : ∀ w ∈ ws, w ≤ 65535)
    (hacc : acc = Spec.onesSum [s]) : ws.foldl foldStep acc = Spec.onesSum [s + ws.sum] := by
  induction ws generalizing acc s with
  | nil => simpa using hacc
  | cons w ws ih =>
    have hwle := hw w (by simp)
    simp only [List.foldl_cons, List.sum_cons]
    rw [ih (foldStep acc w) (s + w) (fun x hx => hw x (List.mem_cons_of_mem _ hx)) ?_]
    · congr 2; omega
    · have hale : acc ≤ 65535 := by
        rw [hacc]; unfold Spec.onesSum; simp only [List.sum_cons, List.sum_nil, Nat.add_zero]
        by_cases hs0 : s = 0 <;> simp only [hs0, if_true, if_false] <;> omega
      rw [foldStep_eq acc w hale hwle, hacc]
      unfold Spec.onesSum
      simp only [List.sum_cons, List.sum_nil, Nat.add_zero]
      by_cases hs : s = 0
      · subst hs; simp only [if_true, Nat.zero_add]
        by_cases hw0 : w = 0
        · subst hw0; simp
        · simp only [hw0, if_false]
          have : w ≤ 65535 := hwle
          rw [if_pos this]; omega
      · simp only [hs, if_false]
        have hne : ¬ s + w = 0 := by omega
        simp only [hne, if_false]
        split <;> omega

theorem foldSum_eq (ws : List Nat) (hw : ∀ w ∈ ws, w ≤ 65535) : ws.foldl foldStep 0 = Spec.onesSum ws := by
  have := foldl_foldStep ws 0 0 hw (by simp [Spec.onesSum])
  simpa [Spec.onesSum] using this

end Schc

namespace Schc
open Spec

/-- the table in crc.py (regenerated on every run) is the table of eight division steps -/
theorem crcTable_eq : Gen.crcTable = (List.range 256).map Spec.crcTableEntry := by decide +kernel

theorem crcStep_alt (x : Nat) : crcStep x = (x >>> 1) ^^^ ((x % 2) * 0x82F63B78) := by
  unfold crcStep
  rcases Nat.mod_two_eq_zero_or_one x with h | h <;> simp [h]

theorem xor_mod_two (x y : Nat) : (x ^^^ y) % 2 = ((x % 2) ^^^ (y % 2)) := by
  have := Nat.xor_mod_two_pow (a := x) (b := y) (n := 1)
  simpa using this

theorem crcStep_xor (x y : Nat) : crcStep (x ^^^ y) = crcStep x ^^^ crcStep y := by
  rw [crcStep_alt, crcStep_alt, crcStep_alt, Nat.shiftRight_xor_distrib, xor_mod_two]
  rcases Nat.mod_two_eq_zero_or_one x with hx | hx <;> rcases Nat.mod_two_eq_zero_or_one y with hy | hy <;>
    simp only [hx, hy, Nat.zero_mul, Nat.one_mul, Nat.xor_zero, Nat.zero_xor, Nat.xor_self] <;>
    (apply Nat.eq_of_testBit_eq; intro i; simp only [Nat.testBit_xor]
     cases (x >>> 1).testBit i <;> cases (y >>> 1).testBit i <;> cases (2197175160 : Nat).testBit i <;> rfl)

theorem crcSteps_xor (n x y : Nat) : crcSteps n (x ^^^ y) = crcSteps n x ^^^ crcSteps n y := by
  induction n generalizing x y with
  | zero => rfl
  | succ n ih => simp only [crcSteps, crcStep_xor, ih]

theorem crcStep_even (m : Nat) : crcStep (2 * m) = m := by
  unfold crcStep
  have : (2 * m) % 2 = 0 := by omega
  simp only [this, Nat.zero_ne_one, if_false, Nat.shiftRight_eq_div_pow]; omega

theorem crcSteps_shift (n h : Nat) : crcSteps n (h * 2 ^ n) = h := by
  induction n generalizing h with
  | zero => simp [crcSteps]
  | succ n ih =>
    simp only [crcSteps]
    have : h * 2 ^ (n + 1) = 2 * (h * 2 ^ n) := by rw [Nat.pow_succ]; ac_rfl
    rw [this, crcStep_even, ih]

theorem split_low (x : Nat) : x = ((x / 256) * 2 ^ 8) ^^^ (x % 256) := by
  apply Nat.eq_of_testBit_eq
  intro i
  rw [Nat.testBit_xor, show (256 : Nat) = 2 ^ 8 by rfl, Nat.testBit_mod_two_pow, Nat.testBit_mul_two_pow, Nat.testBit_div_two_pow]
  by_cases hi : i < 8
  · have : ¬ 8 ≤ i := by omega
    simp [hi, this]
  · have h8 : 8 ≤ i := by omega
    simp only [hi, decide_false, Bool.false_and, Bool.xor_false, h8, decide_true, Bool.true_and]
    congr 1; omega

/-- eight division steps of any value = its high part xor the table entry of its low byte -/
theorem crcSteps8_split (x : Nat) : crcSteps 8 x = (x / 256) ^^^ crcSteps 8 (x % 256) := by
  calc crcSteps 8 x = crcSteps 8 (((x / 256) * 2 ^ 8) ^^^ (x % 256)) := by rw [← split_low x]
    _ = (x / 256) ^^^ crcSteps 8 (x % 256) := by rw [crcSteps_xor, crcSteps_shift]

/-- one iteration of the table-driven loop of crc.py = eight bit-wise division steps -/
theorem crc_byte_step (crc b t : Nat) (hb : b < 256) (ht : Gen.crcTable[(crc ^^^ b) &&& 0xff]? = some t) :
    (crc >>> 8) ^^^ t = crcSteps 8 (crc ^^^ b) := by
  rw [crcTable_eq] at ht
  have hidx : (crc ^^^ b) &&& 0xff = (crc ^^^ b) % 256 := by
    rw [show (0xff : Nat) = 2 ^ 8 - 1 by rfl, Nat.and_two_pow_sub_one_eq_mod]
  rw [hidx] at ht
  have hlt : (crc ^^^ b) % 256 < 256 := Nat.mod_lt _ (by decide)
  simp only [List.getElem?_map, List.getElem?_range hlt, Option.map_some, Option.some.injEq] at ht
  subst ht
  rw [crcSteps8_split (crc ^^^ b)]
  have hhigh : (crc ^^^ b) / 256 = crc >>> 8 := by
    have h1 : (crc ^^^ b) >>> 8 = (crc >>> 8) ^^^ (b >>> 8) := Nat.shiftRight_xor_distrib
    have h2 : b >>> 8 = 0 := by rw [Nat.shiftRight_eq_div_pow]; exact Nat.div_eq_of_lt (by simpa using hb)
    rw [h2, Nat.xor_zero, Nat.shiftRight_eq_div_pow] at h1
    simpa using h1
  rw [hhigh]
  rfl

end Schc

namespace Schc
open Spec Compute

theorem padded_length_le (n : Nat) (pad : Bool) (b : Bits) (h : b.length ≤ n) :
    (if pad = true then b ++ Bits.zeros (n - b.length) else b).length ≤ n := by
  cases pad <;> simp [Bits.zeros] <;> omega

theorem chunksAux_length_le (n : Nat) (pad : Bool) (fuel : Nat) (b : Bits) (hn : 0 < n) (hf : b.length ≤ fuel * n + n) :
    ∀ c ∈ Bits.chunksAux n pad fuel b, c.length ≤ n := by
  induction fuel generalizing b with
  | zero =>
    intro c hc
    simp only [Bits.chunksAux, List.mem_singleton] at hc
    subst hc
    simp only [Nat.zero_mul, Nat.zero_add] at hf
    exact padded_length_le n pad b hf
  | succ fuel ih =>
    intro c hc
    unfold Bits.chunksAux at hc
    split at hc
    · rename_i hle
      simp only [List.mem_singleton] at hc
      subst hc
      exact padded_length_le n pad b hle
    · rename_i hgt
      rcases List.mem_cons.mp hc with h | h
      · subst h; simp; omega
      · apply ih (b.drop n) _ c h
        simp only [List.length_drop, Nat.succ_mul] at hf ⊢; omega

theorem chunks_length_le (n : Nat) (pad : Bool) (b : Bits) (hn : 0 < n) : ∀ c ∈ Bits.chunks n pad b, c.length ≤ n := by
  unfold Bits.chunks
  apply chunksAux_length_le n pad b.length b hn
  have : b.length ≤ b.length * n := Nat.le_mul_of_pos_right _ hn
  omega

theorem chunk_values_le (x : ABuf) (pad : Bool) : ∀ w ∈ (x.chunks 16 pad).map ABuf.value, w ≤ 65535 := by
  intro w hw
  simp only [ABuf.chunks, List.map_map, List.mem_map, Function.comp] at hw
  obtain ⟨c, hc, rfl⟩ := hw
  have hl := chunks_length_le 16 pad x.bits (by decide) c hc
  have h1 := Bits.toNat_lt c
  simp only [ABuf.value]
  have h2 : 2 ^ c.length ≤ 2 ^ 16 := Nat.pow_le_pow_right (by decide) hl
  omega

/-- the checksum loops: add each 16-bit chunk, fold the carry back each step = one's-complement sum of the words -/
theorem foldSum_spec (x : ABuf) (pad : Bool) : foldSum (x.chunks 16 pad) = Spec.onesSum ((x.chunks 16 pad).map ABuf.value) := by
  unfold foldSum
  have : (x.chunks 16 pad).foldl (fun acc c => foldStep acc c.value) 0 = ((x.chunks 16 pad).map ABuf.value).foldl foldStep 0 := by
    rw [List.foldl_map]
  rw [this]
  exact foldSum_eq _ (chunk_values_le x pad)

theorem onesSum_le (ws : List Nat) : Spec.onesSum ws ≤ 65535 := by
  unfold Spec.onesSum; simp only; split <;> omega

theorem onesSum_append (a b : List Nat) : Spec.onesSum [Spec.onesSum a + Spec.onesSum b] = Spec.onesSum (a ++ b) := by
  unfold Spec.onesSum
  simp only [List.sum_cons, List.sum_nil, Nat.add_zero, List.sum_append]
  generalize a.sum = x
  generalize b.sum = y
  by_cases ha : x = 0 <;> by_cases hb : y = 0
  · subst ha; subst hb; rfl
  · subst ha
    have h1 : ¬ ((y - 1) % 65535 + 1 = 0) := by omega
    have h2 : ¬ (0 + y = 0) := by omega
    simp only [hb, h1, h2, if_true, if_false, Nat.zero_add]; omega
  · subst hb
    have h1 : ¬ ((x - 1) % 65535 + 1 = 0) := by omega
    simp only [ha, h1, if_true, if_false, Nat.add_zero]; omega
  · have h1 : ¬ ((x - 1) % 65535 + 1 + ((y - 1) % 65535 + 1) = 0) := by omega
    have h2 : ¬ (x + y = 0) := by omega
    simp only [ha, hb, h1, h2, if_false]; omega

/-- adding two folded partial sums and folding once more = the one's-complement sum of all the words -/
theorem combine_spec (a b : List Nat) :
    (let c := Spec.onesSum a + Spec.onesSum b; (c + (c >>> 16)) &&& 0xffff) = Spec.onesSum (a ++ b) := by
  have h := foldStep_eq (Spec.onesSum a) (Spec.onesSum b) (onesSum_le a) (onesSum_le b)
  unfold foldStep at h
  simp only at h ⊢
  rw [h, ← onesSum_append]
  have ha := onesSum_le a
  have hb := onesSum_le b
  generalize Spec.onesSum a = x at *
  generalize Spec.onesSum b = y at *
  unfold Spec.onesSum
  simp only [List.sum_cons, List.sum_nil, Nat.add_zero]
  by_cases h2 : x + y = 0
  · have hx : x = 0 := by omega
    have hy : y = 0 := by omega
    subst hx; subst hy; simp
  · by_cases h1 : x + y ≤ 65535 <;> simp only [h1, h2, if_true, if_false] <;> omega

end Schc

namespace Schc
open Spec Compute

theorem crcStep_lt (x : Nat) (h : x < 2 ^ 32) : crcStep x < 2 ^ 32 := by
  unfold crcStep
  split
  · apply Nat.xor_lt_two_pow
    · rw [Nat.shiftRight_eq_div_pow]; omega
    · decide
  · rw [Nat.shiftRight_eq_div_pow]; omega

theorem crcSteps_lt (n x : Nat) (h : x < 2 ^ 32) : crcSteps n x < 2 ^ 32 := by
  induction n generalizing x with
  | zero => exact h
  | succ n ih => exact ih _ (crcStep_lt x h)

theorem crcTable_get (i : Nat) (h : i < 256) : Gen.crcTable[i]? = some (crcTableEntry i) := by
  rw [crcTable_eq]; simp [List.getElem?_map, List.getElem?_range h]

/-- the table-driven loop of `crc32c` is the bit-by-bit CRC of the byte values -/
theorem crc_loop (bytes : List Nat) (init : Nat) (hb : ∀ b ∈ bytes, b < 256) (hi : init < 2 ^ 32) :
    bytes.foldlM (fun crc b => match Gen.crcTable[(crc ^^^ b) &&& 0xff]? with
        | some t => (pure ((crc >>> 8) ^^^ t) : Py Nat)
        | none => (throw PyErr.indexError : Py Nat)) init = .ok (crcBitwise bytes init) ∧ crcBitwise bytes init < 2 ^ 32 := by
  induction bytes generalizing init with
  | nil => exact ⟨rfl, hi⟩
  | cons b bs ih =>
    have hidx : (init ^^^ b) &&& 0xff < 256 := by
      rw [show (0xff : Nat) = 2 ^ 8 - 1 by rfl, Nat.and_two_pow_sub_one_eq_mod]; exact Nat.mod_lt _ (by decide)
    have ht := crcTable_get _ hidx
    have hstep := crc_byte_step init b _ (hb b (by simp)) ht
    have hlt : crcSteps 8 (init ^^^ b) < 2 ^ 32 := crcSteps_lt 8 _ (Nat.xor_lt_two_pow hi (by have := hb b (by simp); omega))
    simp only [List.foldlM_cons, ht, bind, Except.bind, pure, Except.pure, crcBitwise, List.foldl_cons]
    rw [hstep]
    exact ih _ (fun x hx => hb x (List.mem_cons_of_mem _ hx)) hlt

end Schc
