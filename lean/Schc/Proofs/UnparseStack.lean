/-
Un-parsing on the IP / UDP / CoAP stacks with the CoAP options in semantic mode: `PacketParser.unparse` of what the
semantic stack parser returns (fields and payload) is what the syntactic stack parser returns — so decompressing with
the parser as unparser rebuilds the packet bit for bit.
-/
import Schc.Proofs.UnparseIds
import Schc.Proofs.UnparseRoundtrip

namespace Schc

theorem filter_const {α} (p : α → Bool) (l : List α) (c : Bool) (h : ∀ x ∈ l, p x = c) : l.filter p = if c then l else [] := by
  cases c
  · simp only [Bool.false_eq_true, if_false]; exact List.filter_eq_nil_iff.mpr (fun x hx => by simp [h x hx])
  · simp only [if_true]; exact List.filter_eq_self.mpr h

theorem claims_contains {own id n : String} (h : claims own id = true) (hn : n ∈ stackNames) : strContains id n = (n == own) := by
  unfold claims at h
  have := List.all_eq_true.mp h n hn
  simpa using this

theorem pairs_contains {own n : String} {fs : List Field} (h : AllClaimed own fs) (hn : n ∈ stackNames) :
    ∀ x ∈ pairs fs, strContains x.1 n = (n == own) := by
  intro x hx
  obtain ⟨f, hf, rfl⟩ := List.mem_map.mp hx
  exact claims_contains (h f hf) hn

theorem seg_filter {own n : String} {fs : List Field} (h : AllClaimed own fs) (hn : n ∈ stackNames) :
    (pairs fs).filter (fun f => strContains f.1 n) = if (n == own) = true then pairs fs else [] :=
  filter_const _ _ _ (pairs_contains h hn)

/-- an IP header parser (either version) without next-header prediction -/
structure IsIp (ip : ParserInst) (name : String) (layout : Layout) : Prop where
  cls : (ip.cls = "IPv6Parser" ∧ name = Gen.ipv6HeaderId ∧ layout = Gen.ipv6Layout) ∨
        (ip.cls = "IPv4Parser" ∧ name = Gen.ipv4HeaderId ∧ layout = Gen.ipv4Layout)
  nopredict : ip.predict = false

theorem names_distinct : Gen.ipv6HeaderId ∈ stackNames ∧ Gen.ipv4HeaderId ∈ stackNames ∧ Gen.udpHeaderId ∈ stackNames ∧
    Gen.coapHeaderId ∈ stackNames ∧
    (Gen.ipv6HeaderId == Gen.udpHeaderId) = false ∧ (Gen.ipv6HeaderId == Gen.coapHeaderId) = false ∧
    (Gen.ipv4HeaderId == Gen.udpHeaderId) = false ∧ (Gen.ipv4HeaderId == Gen.coapHeaderId) = false ∧
    (Gen.udpHeaderId == Gen.coapHeaderId) = false := by decide +kernel

theorem ip_header {ip : ParserInst} {name : String} {layout : Layout} (hip : IsIp ip name layout) (fuel : Nat) (b : ABuf) (h : Header)
    (hp : runParser fuel ip b = .ok h) :
    AllClaimed name h.fields ∧ parserNameOf ip = .ok name ∧ (∀ fs, headerUnparse ip fs = .ok fs) ∧ name ∈ stackNames ∧
    (name == Gen.udpHeaderId) = false ∧ (name == Gen.coapHeaderId) = false := by
  obtain ⟨hcls, hnp⟩ := hip
  rcases hcls with ⟨hc, hn, hl⟩ | ⟨hc, hn, hl⟩
  · subst hn
    refine ⟨?_, ?_, ?_, names_distinct.1, names_distinct.2.2.2.2.1, names_distinct.2.2.2.2.2.1⟩
    · unfold runParser at hp
      simp only [hc] at hp
      have : ("IPv6Parser" == "IPv4Parser") = false := by decide
      simp only [this, Bool.false_eq_true, if_false, beq_self_eq_true, if_true, hnp, ipv6Parse, ipParse, bind, Except.bind] at hp
      split at hp
      · simp [throw, throwThe, MonadExceptOf.throw] at hp
      · split at hp
        · simp [throw, throwThe, MonadExceptOf.throw] at hp
        · simp only [pure, Except.pure, Except.ok.injEq] at hp
          subst hp
          exact parseFixed_claims _ _ layouts_claim.1 b
    · unfold parserNameOf; rw [hc]; rfl
    · intro fs; unfold headerUnparse; rw [hc]; rfl
  · subst hn
    refine ⟨?_, ?_, ?_, names_distinct.2.1, names_distinct.2.2.2.2.2.2.1, names_distinct.2.2.2.2.2.2.2.1⟩
    · unfold runParser at hp
      simp only [hc] at hp
      simp only [beq_self_eq_true, if_true, hnp, ipv4Parse, ipParse, bind, Except.bind, Bool.false_eq_true, if_false] at hp
      split at hp
      · simp [throw, throwThe, MonadExceptOf.throw] at hp
      · split at hp
        · simp [throw, throwThe, MonadExceptOf.throw] at hp
        · simp only [pure, Except.pure, Except.ok.injEq] at hp
          subst hp
          exact parseFixed_claims _ _ layouts_claim.2.1 b
    · unfold parserNameOf; rw [hc]; rfl
    · intro fs; unfold headerUnparse; rw [hc]; rfl

theorem udp_header (udp : ParserInst) (hc : udp.cls = "UDPParser") (hnp : udp.predict = false) (fuel : Nat) (b : ABuf) (h : Header)
    (hp : runParser fuel udp b = .ok h) :
    AllClaimed Gen.udpHeaderId h.fields ∧ parserNameOf udp = .ok Gen.udpHeaderId ∧ (∀ fs, headerUnparse udp fs = .ok fs) := by
  refine ⟨?_, ?_, ?_⟩
  · unfold runParser at hp
    simp only [hc] at hp
    have e1 : ("UDPParser" == "IPv4Parser") = false := by decide
    have e2 : ("UDPParser" == "IPv6Parser") = false := by decide
    simp only [e1, e2, Bool.false_eq_true, if_false, beq_self_eq_true, if_true, hnp, udpParse, bind, Except.bind] at hp
    split at hp
    · simp [throw, throwThe, MonadExceptOf.throw] at hp
    · simp only [pure, Except.pure, Except.ok.injEq] at hp
      subst hp
      exact parseFixed_claims _ _ layouts_claim.2.2.1 b
  · unfold parserNameOf; rw [hc]; rfl
  · intro fs; unfold headerUnparse; rw [hc]; rfl

theorem coap_runParser (cs : ParserInst) (hc : cs.cls = "CoAPParser") (fuel : Nat) (b : ABuf) :
    runParser fuel cs b = coapParse cs.coapMode fuel b := by
  unfold runParser
  rw [hc]
  have e1 : ("CoAPParser" == "IPv4Parser") = false := by decide
  have e2 : ("CoAPParser" == "IPv6Parser") = false := by decide
  have e3 : ("CoAPParser" == "UDPParser") = false := by decide
  simp [e1, e2, e3]

theorem payload_unclaimed (n : String) (hn : n ∈ stackNames) : strContains Gen.payloadId n = false := by
  have := List.all_eq_true.mp layouts_claim.2.2.2.2.2.2 n hn
  simpa using this

/-! ### the dispatch, for arbitrary field lists (what the decompressor rebuilds) -/

def ClaimedBy (own : String) (l : Compute.Fields) : Prop := ∀ x ∈ l, claims own x.1 = true

theorem claimedBy_pairs {own : String} {fs : List Field} (h : AllClaimed own fs) : ClaimedBy own (pairs fs) := by
  intro x hx
  obtain ⟨f, hf, rfl⟩ := List.mem_map.mp hx
  exact h f hf

theorem claimedBy_filter {own n : String} {l : Compute.Fields} (h : ClaimedBy own l) (hn : n ∈ stackNames) :
    l.filter (fun f => strContains f.1 n) = if (n == own) = true then l else [] :=
  filter_const _ _ _ (fun x hx => claims_contains (h x hx) hn)

theorem claimedBy_filter_not {own n : String} {l : Compute.Fields} (h : ClaimedBy own l) (hn : n ∈ stackNames) :
    l.filter (fun f => !strContains f.1 n) = if (n == own) = true then [] else l := by
  have := filter_const (fun f : String × ABuf => !strContains f.1 n) l (!(n == own)) (fun x hx => by rw [claims_contains (h x hx) hn])
  rw [this]
  cases (n == own) <;> rfl

theorem takeWhile_run {α} (p : α → Bool) (A R : List α) (hA : ∀ a ∈ A, p a = true) (hR : ∀ r ∈ R, p r = false) :
    (A ++ R).takeWhile p = A ∧ (A ++ R).dropWhile p = R := by
  induction A with
  | nil =>
    cases R with
    | nil => exact ⟨rfl, rfl⟩
    | cons r rs => simp [List.takeWhile_cons, List.dropWhile_cons, hR r (by simp)]
  | cons a as ih =>
    have := ih (fun x hx => hA x (List.mem_cons_of_mem _ hx))
    simp [List.takeWhile_cons, List.dropWhile_cons, hA a (by simp), this.1, this.2]

theorem claimedBy_has {own : String} {l : Compute.Fields} (h : ClaimedBy own l) (hs : own ∈ stackNames) :
    ∀ x ∈ l, strContains x.1 own = true := by
  intro x hx; rw [claims_contains (h x hx) hs]; simp

theorem claimedBy_hasnot {own n : String} {l : Compute.Fields} (h : ClaimedBy own l) (hn : n ∈ stackNames) (hne : (n == own) = false) :
    ∀ x ∈ l, strContains x.1 n = false := by
  intro x hx; rw [claims_contains (h x hx) hn]; exact hne

theorem payload_filter (n : String) (hn : n ∈ stackNames) (pl : ABuf) :
    [(Gen.payloadId, pl)].filter (fun f => strContains f.1 n) = [] ∧ [(Gen.payloadId, pl)].filter (fun f => !strContains f.1 n) = [(Gen.payloadId, pl)] := by
  simp [payload_unclaimed n hn]

/-- IP / UDP / CoAP: a field list made of a segment claimed by the IP parser, one claimed by UDP, one claimed by CoAP and
    the payload is un-parsed segment by segment; only the CoAP parser changes its segment -/
theorem packetUnparse_three {ip : ParserInst} {name : String} {layout : Layout} (hip : IsIp ip name layout)
    (udp : ParserInst) (hu : udp.cls = "UDPParser") (cs : ParserInst) (hc : cs.cls = "CoAPParser")
    (A B C : Compute.Fields) (pl : ABuf) (hA : ClaimedBy name A) (hB : ClaimedBy Gen.udpHeaderId B) (hC : ClaimedBy Gen.coapHeaderId C) :
    packetUnparse [ip, udp, cs] (A ++ B ++ C ++ [(Gen.payloadId, pl)]) =
      (headerUnparse cs C).map (fun c => A ++ B ++ c ++ [(Gen.payloadId, pl)]) := by
  obtain ⟨hcls, _⟩ := hip
  have ipfacts : parserNameOf ip = .ok name ∧ (∀ fs, headerUnparse ip fs = .ok fs) ∧ name ∈ stackNames ∧
      (name == Gen.udpHeaderId) = false ∧ (name == Gen.coapHeaderId) = false := by
    rcases hcls with ⟨h1, h2, _⟩ | ⟨h1, h2, _⟩
    · subst h2
      exact ⟨by unfold parserNameOf; rw [h1]; rfl, fun fs => by unfold headerUnparse; rw [h1]; rfl, names_distinct.1,
        names_distinct.2.2.2.2.1, names_distinct.2.2.2.2.2.1⟩
    · subst h2
      exact ⟨by unfold parserNameOf; rw [h1]; rfl, fun fs => by unfold headerUnparse; rw [h1]; rfl, names_distinct.2.1,
        names_distinct.2.2.2.2.2.2.1, names_distinct.2.2.2.2.2.2.2.1⟩
  obtain ⟨n1, u1, m1, d1u, d1c⟩ := ipfacts
  have n2 : parserNameOf udp = .ok Gen.udpHeaderId := by unfold parserNameOf; rw [hu]; rfl
  have u2 : ∀ fs, headerUnparse udp fs = .ok fs := by intro fs; unfold headerUnparse; rw [hu]; rfl
  have n3 : parserNameOf cs = .ok Gen.coapHeaderId := by unfold parserNameOf; rw [hc]; rfl
  have mu := names_distinct.2.2.1
  have mc := names_distinct.2.2.2.1
  have duc := names_distinct.2.2.2.2.2.2.2.2
  have sym : ∀ {x y : String}, (x == y) = false → (y == x) = false := by
    intro x y h; rw [beq_eq_false_iff_ne] at h ⊢; exact fun e => h e.symm
  have hpl : ∀ n ∈ stackNames, ∀ x ∈ [(Gen.payloadId, pl)], strContains x.1 n = false := by
    intro n hn x hx; simp only [List.mem_singleton] at hx; subst hx; exact payload_unclaimed n hn
  have r1 := takeWhile_run (fun f : String × ABuf => strContains f.1 name) A (B ++ (C ++ [(Gen.payloadId, pl)])) (claimedBy_has hA m1)
    (by intro r hr
        rcases List.mem_append.mp hr with h | h
        · exact claimedBy_hasnot hB m1 d1u r h
        · rcases List.mem_append.mp h with h | h
          · exact claimedBy_hasnot hC m1 d1c r h
          · exact hpl name m1 r h)
  have r2 := takeWhile_run (fun f : String × ABuf => strContains f.1 Gen.udpHeaderId) B (C ++ [(Gen.payloadId, pl)]) (claimedBy_has hB mu)
    (by intro r hr
        rcases List.mem_append.mp hr with h | h
        · exact claimedBy_hasnot hC mu duc r h
        · exact hpl _ mu r h)
  have r3 := takeWhile_run (fun f : String × ABuf => strContains f.1 Gen.coapHeaderId) C [(Gen.payloadId, pl)] (claimedBy_has hC mc) (hpl _ mc)
  have hsegs : SegsOf (A ++ B ++ C ++ [(Gen.payloadId, pl)])
      [(ip, name, A), (udp, Gen.udpHeaderId, B), (cs, Gen.coapHeaderId, C)] ∧
      leftOver (A ++ B ++ C ++ [(Gen.payloadId, pl)]) [(ip, name, A), (udp, Gen.udpHeaderId, B), (cs, Gen.coapHeaderId, C)] = [(Gen.payloadId, pl)] := by
    simp only [SegsOf, leftOver, List.append_assoc, r1.1, r1.2, r2.1, r2.2, r3.1, r3.2, and_self]
  unfold packetUnparse
  simp only [List.mapM_cons, List.mapM_nil, n1, n2, n3, bind, Except.bind, pure, Except.pure]
  have hz : [ip, udp, cs].zip [name, Gen.udpHeaderId, Gen.coapHeaderId] =
      ([(ip, name, A), (udp, Gen.udpHeaderId, B), (cs, Gen.coapHeaderId, C)] : List (ParserInst × String × Compute.Fields)).map (fun t => (t.1, t.2.1)) := rfl
  rw [hz, unparseClaimed_segments _ _ hsegs.1, hsegs.2]
  simp only [List.map_cons, List.map_nil, unparseSegs, u1, u2, bind, Except.bind, pure, Except.pure, List.append_nil]
  cases headerUnparse cs C with
  | error e => rfl
  | ok c => simp [Except.map, List.append_assoc]

/-- the CoAP parser alone -/
theorem packetUnparse_one (cs : ParserInst) (hc : cs.cls = "CoAPParser") (C : Compute.Fields) (pl : ABuf) (hC : ClaimedBy Gen.coapHeaderId C) :
    packetUnparse [cs] (C ++ [(Gen.payloadId, pl)]) = (headerUnparse cs C).map (fun c => c ++ [(Gen.payloadId, pl)]) := by
  have n3 : parserNameOf cs = .ok Gen.coapHeaderId := by unfold parserNameOf; rw [hc]; rfl
  have mc := names_distinct.2.2.2.1
  have r3 := takeWhile_run (fun f : String × ABuf => strContains f.1 Gen.coapHeaderId) C [(Gen.payloadId, pl)] (claimedBy_has hC mc)
    (by intro x hx; simp only [List.mem_singleton] at hx; subst hx; exact payload_unclaimed _ mc)
  have hsegs : SegsOf (C ++ [(Gen.payloadId, pl)]) [(cs, Gen.coapHeaderId, C)] ∧
      leftOver (C ++ [(Gen.payloadId, pl)]) [(cs, Gen.coapHeaderId, C)] = [(Gen.payloadId, pl)] := by
    simp only [SegsOf, leftOver, r3.1, r3.2, and_self]
  unfold packetUnparse
  simp only [List.mapM_cons, List.mapM_nil, n3, bind, Except.bind, pure, Except.pure]
  have hz : [cs].zip [Gen.coapHeaderId] =
      ([(cs, Gen.coapHeaderId, C)] : List (ParserInst × String × Compute.Fields)).map (fun t => (t.1, t.2.1)) := rfl
  rw [hz, unparseClaimed_segments _ _ hsegs.1, hsegs.2]
  simp only [List.map_cons, List.map_nil, unparseSegs, bind, Except.bind, pure, Except.pure, List.append_nil]
  cases headerUnparse cs C with
  | error e => rfl
  | ok c => simp [Except.map]

/-- IP / UDP / CoAP with the options in semantic mode: the stack parser accepts what the syntactic stack accepts, cuts
    the same payload, and `PacketParser.unparse` of its fields (followed by the payload, as `decompress` passes them)
    is the syntactic field list followed by the payload -/
theorem unparse_semantic_stack {ip : ParserInst} {name : String} {layout : Layout} (hip : IsIp ip name layout)
    (udp : ParserInst) (hu : udp.cls = "UDPParser") (hunp : udp.predict = false)
    (cs : ParserInst) (hc : cs.cls = "CoAPParser") (hsem : cs.coapMode = .semantic)
    (fuel : Nat) (b : ABuf) (hside : b.side = .left) (h1 h2 hs : Header)
    (hp1 : runParser fuel ip b = .ok h1) (hp2 : runParser fuel udp (b.from_ h1.length) = .ok h2)
    (hp3 : coapParse .syntactic fuel ((b.from_ h1.length).from_ h2.length) = .ok hs) (hwf : WfNibbles (pairs hs.fields)) :
    ∃ hm : Header,
      packetParse fuel [ip, udp, cs] b =
        .ok ⟨.dw, h1.fields ++ h2.fields ++ hm.fields, ((b.from_ h1.length).from_ h2.length).from_ hs.length, b⟩ ∧
      ∀ pl : ABuf, packetUnparse [ip, udp, cs] (pairs (h1.fields ++ h2.fields ++ hm.fields) ++ [(Gen.payloadId, pl)]) =
        .ok (pairs (h1.fields ++ h2.fields ++ hs.fields) ++ [(Gen.payloadId, pl)]) := by
  obtain ⟨hm, hpm, hlen, hun⟩ := coap_semantic_lossless fuel ((b.from_ h1.length).from_ h2.length) hside hs hp3 hwf
  obtain ⟨c1, _, _, _, _, _⟩ := ip_header hip fuel b h1 hp1
  obtain ⟨c2, _, _⟩ := udp_header udp hu hunp fuel _ h2 hp2
  have c3 := coapParse_claims fuel _ hm hpm
  have u3 : headerUnparse cs (pairs hm.fields) = .ok (pairs hs.fields) := by
    unfold headerUnparse; rw [hc]; simp only [beq_self_eq_true, if_true, hsem]; exact hun
  refine ⟨hm, ?_, ?_⟩
  · unfold packetParse
    simp only [packetParse.go, bind, Except.bind, hp1, hp2, coap_runParser cs hc, hsem, hpm, pure, Except.pure, List.nil_append, hlen,
      List.append_assoc]
  · intro pl
    have := packetUnparse_three hip udp hu cs hc (pairs h1.fields) (pairs h2.fields) (pairs hm.fields) pl
      (claimedBy_pairs c1) (claimedBy_pairs c2) (claimedBy_pairs c3)
    simp only [pairs_append]
    rw [this, u3]
    rfl

/-- the CoAP parser alone, options in semantic mode -/
theorem unparse_semantic_single (cs : ParserInst) (hc : cs.cls = "CoAPParser") (hsem : cs.coapMode = .semantic)
    (fuel : Nat) (b : ABuf) (hside : b.side = .left) (hs : Header)
    (hp3 : coapParse .syntactic fuel b = .ok hs) (hwf : WfNibbles (pairs hs.fields)) :
    ∃ hm : Header,
      packetParse fuel [cs] b = .ok ⟨.dw, hm.fields, b.from_ hs.length, b⟩ ∧
      ∀ pl : ABuf, packetUnparse [cs] (pairs hm.fields ++ [(Gen.payloadId, pl)]) = .ok (pairs hs.fields ++ [(Gen.payloadId, pl)]) := by
  obtain ⟨hm, hpm, hlen, hun⟩ := coap_semantic_lossless fuel b hside hs hp3 hwf
  have c3 := coapParse_claims fuel _ hm hpm
  have u3 : headerUnparse cs (pairs hm.fields) = .ok (pairs hs.fields) := by
    unfold headerUnparse; rw [hc]; simp only [beq_self_eq_true, if_true, hsem]; exact hun
  refine ⟨hm, ?_, ?_⟩
  · unfold packetParse
    simp only [packetParse.go, bind, Except.bind, coap_runParser cs hc, hsem, hpm, pure, Except.pure, List.nil_append, hlen]
  · intro pl
    rw [packetUnparse_one cs hc (pairs hm.fields) pl (claimedBy_pairs c3), u3]
    rfl

end Schc
