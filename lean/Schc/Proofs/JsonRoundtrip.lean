/- C12: from-JSON ∘ to-JSON is the identity on the data model. -/
import Schc.Py.Json
import Schc.Proofs.Content
import Schc.Proofs.Decompress

namespace Schc

theorem hex_digit_roundtrip : ∀ n : Fin 16, hexValJ (hexDigitJ n.val) = some n.val := by decide

theorem hex_go_roundtrip (l : List Nat) (h : ∀ b ∈ l, b < 256) :
    bytesOfHexJ.go (l.flatMap fun b => [hexDigitJ ((b / 16) % 16), hexDigitJ (b % 16)]) = some l := by
  induction l with
  | nil => rfl
  | cons b bs ih =>
    have hb := h b (by simp)
    simp only [List.flatMap_cons, List.cons_append, List.nil_append, bytesOfHexJ.go]
    have h1 := hex_digit_roundtrip ⟨(b / 16) % 16, by omega⟩
    have h2 := hex_digit_roundtrip ⟨b % 16, by omega⟩
    simp only at h1 h2
    rw [h1, h2, ih (fun x hx => h x (List.mem_cons_of_mem _ hx))]
    simp only [Option.bind_eq_bind, Option.bind_some, pure]
    congr 2
    omega

theorem hex_roundtrip (l : List Nat) (h : ∀ b ∈ l, b < 256) : bytesOfHexJ (hexOf l) = .ok l := by
  unfold bytesOfHexJ hexOf
  rw [String.toList_ofList, hex_go_roundtrip l h]
  rfl

theorem packBytes_lt (n : Nat) (x : Bits) : ∀ b ∈ ABuf.packBytes n x, b < 256 := by
  induction n generalizing x with
  | zero => intro b hb; cases hb
  | succ n ih =>
    intro b hb
    simp only [ABuf.packBytes, List.mem_cons] at hb
    rcases hb with h | h
    · subst h
      have := Bits.toNat_lt (x.take 8)
      have hl : (x.take 8).length ≤ 8 := by simp; omega
      have : 2 ^ (x.take 8).length ≤ 2 ^ 8 := Nat.pow_le_pow_right (by decide) hl
      omega
    · exact ih _ b h

theorem content_lt (b : ABuf) : ∀ x ∈ b.content, x < 256 := by
  unfold ABuf.content; exact packBytes_lt _ _

theorem getD3_1 (k1 k2 k3 : String) (a b c : Json) : (Json.obj [(k1, a), (k2, b), (k3, c)]).getD k1 = .ok a := by
  simp [Json.getD, Json.get?, List.find?]; rfl
theorem getD3_2 (k1 k2 k3 : String) (a b c : Json) (h : (k1 == k2) = false) : (Json.obj [(k1, a), (k2, b), (k3, c)]).getD k2 = .ok b := by
  simp [Json.getD, Json.get?, List.find?, h]; rfl
theorem getD3_3 (k1 k2 k3 : String) (a b c : Json) (h1 : (k1 == k3) = false) (h2 : (k2 == k3) = false) :
    (Json.obj [(k1, a), (k2, b), (k3, c)]).getD k3 = .ok c := by
  simp [Json.getD, Json.get?, List.find?, h1, h2]; rfl

/-- a buffer survives the JSON round trip literally (bits and padding side) -/
theorem abuf_roundtrip (b : ABuf) : ABuf.fromJson b.toJson = .ok b := by
  unfold ABuf.fromJson ABuf.toJson
  rw [getD3_1, getD3_2 _ _ _ _ _ _ (by decide), getD3_3 _ _ _ _ _ _ (by decide) (by decide)]
  simp only [bind, Except.bind, pure, Except.pure, Json.asStr, Json.asNat]
  rw [hex_roundtrip _ (content_lt b)]
  simp only
  have hc := ofBytes_content b
  cases hs : b.side
  · have : enumMember Gen.paddingValues (enumValue Gen.paddingValues (padName Pad.left)) = some "LEFT" := by decide
    rw [this]; rw [hs] at hc; exact congrArg Except.ok hc
  · have : enumMember Gen.paddingValues (enumValue Gen.paddingValues (padName Pad.right)) = some "RIGHT" := by decide
    rw [this]; rw [hs] at hc; exact congrArg Except.ok hc

end Schc

namespace Schc

def encEntry (e : ABuf × ABuf) : Json := .obj [("index", e.1.toJson), ("value", e.2.toJson)]

theorem mapping_fold (l : List (ABuf × ABuf)) (acc : List (ABuf × ABuf)) :
    (l.map encEntry).foldlM (fun fwd e => do
      let i ← ABuf.fromJson (← e.getD "index")
      let v ← ABuf.fromJson (← e.getD "value")
      pure (dictSet fwd v i)) acc = (.ok (l.foldl (fun d e => dictSet d e.2 e.1) acc) : Py _) := by
  induction l generalizing acc with
  | nil => rfl
  | cons e l ih =>
    simp only [List.map_cons, List.foldlM_cons, List.foldl_cons, encEntry]
    have h1 : (Json.obj [("index", e.1.toJson), ("value", e.2.toJson)]).getD "index" = .ok e.1.toJson := by
      simp [Json.getD, Json.get?, List.find?]; rfl
    have h2 : (Json.obj [("index", e.1.toJson), ("value", e.2.toJson)]).getD "value" = .ok e.2.toJson := by
      simp [Json.getD, Json.get?, List.find?]; rfl
    simp only [h1, h2, abuf_roundtrip, bind, Except.bind, pure, Except.pure]
    exact ih _

/-- rebuilding the forward dict from the dumped reverse dict gives the mapping back (invertible mappings) -/
theorem mapping_roundtrip (fwd : List (ABuf × ABuf)) (h : MappingWF fwd) : mappingFromJson (mappingToJson fwd) = .ok fwd := by
  unfold mappingFromJson mappingToJson
  simp only [Json.asArr, bind, Except.bind, pure, Except.pure]
  rw [reverseOf_wf fwd h]
  have : (fwd.map fun e => (e.2, e.1)).map (fun (x : ABuf × ABuf) => Json.obj [("index", x.1.toJson), ("value", x.2.toJson)])
      = (fwd.map fun e => (e.2, e.1)).map encEntry := rfl
  rw [this]
  have hf := mapping_fold (fwd.map fun e => (e.2, e.1)) []
  simp only [bind, Except.bind, pure, Except.pure] at hf
  rw [hf]
  congr 1
  -- dict insertion of pairwise different keys appends
  have gen : ∀ (l acc : List (ABuf × ABuf)), (∀ a ∈ l, ∀ b ∈ acc, ¬ b.1.bits = a.1.bits) →
      List.Pairwise (fun a b => ¬ a.1.bits = b.1.bits) l →
      (l.map fun e => (e.2, e.1)).foldl (fun d e => dictSet d e.2 e.1) acc = acc ++ l := by
    intro l
    induction l with
    | nil => intro acc _ _; simp
    | cons e l ih =>
      intro acc h1 h2
      rw [List.pairwise_cons] at h2
      have hnone : acc.any (fun x => x.1.beq e.1) = false := by
        rw [List.any_eq_false]; intro x hx
        simpa [ABuf.beq] using h1 e (by simp) x hx
      have hset : dictSet acc e.1 e.2 = acc ++ [e] := by simp [dictSet, hnone]
      simp only [List.map_cons, List.foldl_cons, hset]
      rw [ih (acc ++ [e]) ?_ h2.2]
      · simp
      · intro a ha b hb
        rcases List.mem_append.mp hb with hb | hb
        · exact h1 a (List.mem_cons_of_mem _ ha) b hb
        · simp only [List.mem_singleton] at hb; subst hb; exact h2.1 a ha
  have := gen fwd [] (by simp) (by
    apply pairwise_of_inj _ _ (fun _ _ _ _ _ => trivial) _ h.1
    intro a ha b hb hne heq
    exact hne (h.2.1 a ha b hb heq))
  simpa using this

end Schc

namespace Schc

def TvWF : TV → Prop
  | .buf _ => True
  | .map fwd => MappingWF fwd

theorem tv_cases (tv : TV) (h : TvWF tv) :
    (match tv.toJson with
      | .arr _ => (do pure (TV.map (← mappingFromJson tv.toJson)) : Py TV)
      | _ => do pure (TV.buf (← ABuf.fromJson tv.toJson))) = .ok tv := by
  cases tv with
  | buf b => simp only [TV.toJson, ABuf.toJson]; rw [← ABuf.toJson, abuf_roundtrip]; rfl
  | map fwd =>
    simp only [TV.toJson, mappingToJson]
    rw [← mappingToJson, mapping_roundtrip fwd h]; rfl

theorem dir_rt (d : Dir) : dirOfStr (enumValue Gen.directionValues (dirName d)) = .ok d := by cases d <;> decide
theorem mo_rt (m : MO) : moOfStr (enumValue Gen.matchingOperatorValues (moName m)) = .ok m := by cases m <;> decide
theorem cda_rt (c : CDA) : cdaOfStr (enumValue Gen.cdaValues (cdaName c)) = .ok c := by cases c <;> decide

theorem rulefield_roundtrip (f : RuleField) (h : TvWF f.tv) : RuleField.fromJson f.toJson = .ok f := by
  unfold RuleField.fromJson RuleField.toJson
  have g : ∀ k v, (Json.obj [("id", .str f.id), ("length", .num f.length), ("position", .num f.position),
        ("direction", .str (enumValue Gen.directionValues (dirName f.dir))), ("target_value", f.tv.toJson),
        ("matching_operator", .str (enumValue Gen.matchingOperatorValues (moName f.mo))),
        ("compression_decompression_action", .str (enumValue Gen.cdaValues (cdaName f.cda)))]).get? k = some v →
      (Json.obj [("id", .str f.id), ("length", .num f.length), ("position", .num f.position),
        ("direction", .str (enumValue Gen.directionValues (dirName f.dir))), ("target_value", f.tv.toJson),
        ("matching_operator", .str (enumValue Gen.matchingOperatorValues (moName f.mo))),
        ("compression_decompression_action", .str (enumValue Gen.cdaValues (cdaName f.cda)))]).getD k = .ok v := by
    intro k v hk; simp only [Json.getD, hk]; rfl
  rw [g "target_value" f.tv.toJson (by simp [Json.get?, List.find?]),
      g "id" (.str f.id) (by simp [Json.get?, List.find?]),
      g "length" (.num f.length) (by simp [Json.get?, List.find?]),
      g "position" (.num f.position) (by simp [Json.get?, List.find?]),
      g "direction" (.str (enumValue Gen.directionValues (dirName f.dir))) (by simp [Json.get?, List.find?]),
      g "matching_operator" (.str (enumValue Gen.matchingOperatorValues (moName f.mo))) (by simp [Json.get?, List.find?]),
      g "compression_decompression_action" (.str (enumValue Gen.cdaValues (cdaName f.cda))) (by simp [Json.get?, List.find?])]
  simp only [bind, Except.bind, pure, Except.pure, Json.asStr, Json.asNat, dir_rt, mo_rt, cda_rt]
  have := tv_cases f.tv h
  cases hj : f.tv.toJson <;> simp only [hj, bind, Except.bind, pure, Except.pure] at this ⊢ <;>
    (split at this <;> simp_all)

end Schc

namespace Schc

theorem mapM_roundtrip {α} (toJ : α → Json) (fromJ : Json → Py α) (l : List α) (h : ∀ x ∈ l, fromJ (toJ x) = .ok x) :
    (l.map toJ).mapM fromJ = .ok l := by
  induction l with
  | nil => rfl
  | cons x xs ih =>
    simp only [List.map_cons, List.mapM_cons, h x (by simp), bind, Except.bind, ih (fun y hy => h y (List.mem_cons_of_mem _ hy)),
      pure, Except.pure]

def RuleWF (r : Rule) : Prop := (∀ f ∈ r.fields, TvWF f.tv) ∧ (r.nature = .noCompression → r.fields = [])

theorem rule_roundtrip (r : Rule) (h : RuleWF r) : Rule.fromJson r.toJson = .ok r := by
  obtain ⟨id, nature, fields⟩ := r
  unfold Rule.fromJson Rule.toJson
  cases nature
  · have g1 : (Json.obj ([("id", id.toJson), ("nature", Json.str (enumValue Gen.ruleNatureValues (natureName Nature.compression)))] ++
        [("field_descriptors", .arr (fields.map RuleField.toJson))])).getD "nature" = .ok (Json.str (enumValue Gen.ruleNatureValues (natureName Nature.compression))) := by
      simp [Json.getD, Json.get?, List.find?]; rfl
    have g2 : (Json.obj ([("id", id.toJson), ("nature", Json.str (enumValue Gen.ruleNatureValues (natureName Nature.compression)))] ++
        [("field_descriptors", .arr (fields.map RuleField.toJson))])).getD "id" = .ok id.toJson := by
      simp [Json.getD, Json.get?, List.find?]; rfl
    have g3 : (Json.obj ([("id", id.toJson), ("nature", Json.str (enumValue Gen.ruleNatureValues (natureName Nature.compression)))] ++
        [("field_descriptors", .arr (fields.map RuleField.toJson))])).getD "field_descriptors" = .ok (.arr (fields.map RuleField.toJson)) := by
      simp [Json.getD, Json.get?, List.find?]; rfl
    simp only [g1, g2, g3, bind, Except.bind, pure, Except.pure, Json.asStr, Json.asArr, abuf_roundtrip]
    have hn : (enumValue Gen.ruleNatureValues (natureName Nature.compression) == enumValue Gen.ruleNatureValues "COMPRESSION") = true := by decide
    simp only [hn, if_true]
    rw [mapM_roundtrip RuleField.toJson RuleField.fromJson fields (fun f hf => rulefield_roundtrip f (h.1 f hf))]
  · have hf : fields = [] := h.2 rfl
    subst hf
    have g1 : (Json.obj [("id", id.toJson), ("nature", Json.str (enumValue Gen.ruleNatureValues (natureName Nature.noCompression)))]).getD "nature"
        = .ok (Json.str (enumValue Gen.ruleNatureValues (natureName Nature.noCompression))) := by
      simp [Json.getD, Json.get?, List.find?]; rfl
    have g2 : (Json.obj [("id", id.toJson), ("nature", Json.str (enumValue Gen.ruleNatureValues (natureName Nature.noCompression)))]).getD "id" = .ok id.toJson := by
      simp [Json.getD, Json.get?, List.find?]; rfl
    simp only [g1, g2, bind, Except.bind, pure, Except.pure, Json.asStr, abuf_roundtrip]
    have hn1 : (enumValue Gen.ruleNatureValues (natureName Nature.noCompression) == enumValue Gen.ruleNatureValues "COMPRESSION") = false := by decide
    have hn2 : (enumValue Gen.ruleNatureValues (natureName Nature.noCompression) == enumValue Gen.ruleNatureValues "NO_COMPRESSION") = true := by decide
    simp [hn1, hn2]

theorem context_roundtrip (c : Context) (h : ∀ r ∈ c.ruleset, RuleWF r) : Context.fromJson c.toJson = .ok c := by
  obtain ⟨id, ifc, pid, rs⟩ := c
  unfold Context.fromJson Context.toJson
  have g : ∀ k v, (Json.obj [("id", .str id), ("description", .str ""), ("interface_id", .str ifc), ("parser_id", .str pid),
        ("ruleset", .arr (rs.map Rule.toJson))]).get? k = some v →
      (Json.obj [("id", .str id), ("description", .str ""), ("interface_id", .str ifc), ("parser_id", .str pid),
        ("ruleset", .arr (rs.map Rule.toJson))]).getD k = .ok v := by
    intro k v hk; simp only [Json.getD, hk]; rfl
  rw [g "id" (.str id) (by simp [Json.get?, List.find?]), g "interface_id" (.str ifc) (by simp [Json.get?, List.find?]),
      g "parser_id" (.str pid) (by simp [Json.get?, List.find?]), g "ruleset" (.arr (rs.map Rule.toJson)) (by simp [Json.get?, List.find?])]
  simp only [bind, Except.bind, pure, Except.pure, Json.asStr, Json.asArr]
  rw [mapM_roundtrip Rule.toJson Rule.fromJson rs (fun r hr => rule_roundtrip r (h r hr))]

end Schc

namespace Schc

theorem field_roundtrip (f : Field) : Field.fromJson f.toJson = .ok f := by
  obtain ⟨id, v, pos⟩ := f
  unfold Field.fromJson Field.toJson
  rw [getD3_1, getD3_2 _ _ _ _ _ _ (by decide), getD3_3 _ _ _ _ _ _ (by decide) (by decide)]
  simp only [bind, Except.bind, pure, Except.pure, Json.asStr, Json.asNat, abuf_roundtrip]

theorem dir_roundtrip (d : Dir) : dirOfStr (enumValue Gen.directionValues (dirName d)) = .ok d := by
  cases d <;> decide

theorem packet_roundtrip (p : Packet) : Packet.fromJson p.toJson = .ok p := by
  obtain ⟨dir, fields, payload, raw⟩ := p
  unfold Packet.fromJson Packet.toJson
  have g : ∀ k v, (Json.obj [("direction", .str (enumValue Gen.directionValues (dirName dir))), ("fields", .arr (fields.map Field.toJson)),
        ("payload", payload.toJson), ("raw", raw.toJson), ("length", .num raw.length)]).get? k = some v →
      (Json.obj [("direction", .str (enumValue Gen.directionValues (dirName dir))), ("fields", .arr (fields.map Field.toJson)),
        ("payload", payload.toJson), ("raw", raw.toJson), ("length", .num raw.length)]).getD k = .ok v := by
    intro k v hk; simp only [Json.getD, hk]; rfl
  rw [g "direction" (.str (enumValue Gen.directionValues (dirName dir))) (by simp [Json.get?, List.find?]), g "fields" (.arr (fields.map Field.toJson)) (by simp [Json.get?, List.find?]),
      g "payload" payload.toJson (by simp [Json.get?, List.find?]), g "raw" raw.toJson (by simp [Json.get?, List.find?])]
  simp only [bind, Except.bind, pure, Except.pure, Json.asStr, Json.asArr, dir_roundtrip, abuf_roundtrip]
  rw [mapM_roundtrip Field.toJson Field.fromJson fields (fun f _ => field_roundtrip f)]

theorem header_roundtrip (h : HeaderDesc) : HeaderDesc.fromJson h.toJson = .ok h := by
  obtain ⟨id, length, fields⟩ := h
  unfold HeaderDesc.fromJson HeaderDesc.toJson
  have g : ∀ k v, (Json.obj [("id", .str id), ("length", .num length), ("fields", .arr (fields.map Field.toJson))]).get? k = some v →
      (Json.obj [("id", .str id), ("length", .num length), ("fields", .arr (fields.map Field.toJson))]).getD k = .ok v := by
    intro k v hk; simp only [Json.getD, hk]; rfl
  rw [g "id" (.str id) (by simp [Json.get?, List.find?]), g "length" (.num length) (by simp [Json.get?, List.find?]),
      g "fields" (.arr (fields.map Field.toJson)) (by simp [Json.get?, List.find?])]
  simp only [bind, Except.bind, pure, Except.pure, Json.asStr, Json.asNat, Json.asArr]
  rw [mapM_roundtrip Field.toJson Field.fromJson fields (fun f _ => field_roundtrip f)]

end Schc
