/- fixed-offset parsers: a contiguous layout tiles the first H bits (C07), and equals the RFC table (C08). -/
import Schc.Spec.Layouts
import Schc.Py.Parsers

namespace Schc

/-- fields cut by a contiguous width table spell the first `total` bits of any buffer that has them -/
theorem parseFixed_prefix (ws : List (String × Nat)) (s : Nat) (b : ABuf) :
    (parseFixed (Spec.layoutFrom s ws) b).flatMap (·.value.bits) = (b.bits.drop s).take (Spec.totalWidth ws) := by
  induction ws generalizing s with
  | nil => simp [Spec.layoutFrom, parseFixed, Spec.totalWidth]
  | cons x ws ih =>
    obtain ⟨n, w⟩ := x
    simp only [Spec.totalWidth, List.map_cons, List.sum_cons]
    have ih' := ih (s + w)
    have hcons : parseFixed (Spec.layoutFrom s ((n, w) :: ws)) b
        = ⟨n, b.slice s (s + w), 0⟩ :: parseFixed (Spec.layoutFrom (s + w) ws) b := by
      simp [parseFixed, Spec.layoutFrom]
    rw [hcons, List.flatMap_cons, ih']
    simp only [ABuf.slice, Bits.slice, Spec.totalWidth]
    have e : s + w - s = w := by omega
    rw [e, List.take_add, List.drop_drop]

theorem parseFixed_tiles (ws : List (String × Nat)) (s : Nat) (b : ABuf) (_h : s + Spec.totalWidth ws ≤ b.length) :
    (parseFixed (Spec.layoutFrom s ws) b).flatMap (·.value.bits) = (b.bits.drop s).take (Spec.totalWidth ws) :=
  parseFixed_prefix ws s b

theorem parseFixed_sum (ws : List (String × Nat)) (s : Nat) (b : ABuf) (h : s + Spec.totalWidth ws ≤ b.length) :
    sumFieldBits (parseFixed (Spec.layoutFrom s ws) b) = Spec.totalWidth ws := by
  have := congrArg List.length (parseFixed_tiles ws s b h)
  simp only [List.length_take, List.length_drop] at this
  unfold sumFieldBits
  rw [List.length_flatMap] at this
  simp only [ABuf.length] at h ⊢
  rw [Nat.min_eq_left (by omega)] at this
  exact this

end Schc
