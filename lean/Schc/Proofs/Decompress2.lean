/- C03 / C01: the descriptor-list induction and the round trip. -/
import Schc.Proofs.Decompress

namespace Schc
open Bits

inductive AllAdm : List RuleField → List Bits → Prop
  | nil : AllAdm [] []
  | cons {rf v rfs vs} : Adm rf v → AllAdm rfs vs → AllAdm (rf :: rfs) (v :: vs)

/-- residues of a value list under a descriptor list (what any conforming peer sends) -/
def residuesV : List RuleField → List Bits → Option Bits
  | rf :: rfs, v :: vs => do
    let r ← Spec.residue rf v
    let rs ← residuesV rfs vs
    pure (r ++ rs)
  | _, _ => some []

def sideOf (rf : RuleField) : Pad := if rf.cda = .compute then .left else .right

/-- the decompressor's field list before compute functions run: target values / residues / mapped values /
    zero placeholders, in rule order -/
def assemble : List RuleField → List Bits → Compute.Fields
  | rf :: rfs, v :: vs => (rf.id, ⟨v, sideOf rf⟩) :: assemble rfs vs
  | _, _ => []

def computeEntries : List RuleField → Nat → List ComputeEntry
  | [], _ => []
  | rf :: rfs, pos => if rf.cda = .compute then ⟨pos, rf.id⟩ :: computeEntries rfs (pos + 1) else computeEntries rfs (pos + 1)

theorem decompressFields_spec (rfs : List RuleField) (vs : List Bits) (h : AllAdm rfs vs) (payload : Bits) (side : Pad) (pos : Nat) :
    ∃ res, residuesV rfs vs = some res ∧
      decompressFields rfs pos ⟨res ++ payload, side⟩ = .ok (assemble rfs vs, computeEntries rfs pos, ⟨payload, side⟩) := by
  induction h generalizing pos with
  | nil => exact ⟨[], rfl, by simp [decompressFields, assemble, computeEntries, pure, Except.pure]⟩
  | @cons rf v rfs vs hd _ ih =>
    obtain ⟨rs, h1, h2⟩ := ih (pos + 1)
    obtain ⟨r, h3, h4⟩ := decompressField_residue rf v hd (rs ++ payload) side pos
    refine ⟨r ++ rs, by simp [residuesV, h1, h3], ?_⟩
    simp only [decompressFields, List.append_assoc, h4, bind, Except.bind, ABuf.from_, List.drop_left, h2, pure, Except.pure,
      assemble, computeEntries, sideOf]
    by_cases hc : rf.cda = .compute <;> simp [hc]

theorem foldl_add_fields (fs : Compute.Fields) (acc : ABuf) :
    fs.foldl (fun acc f => acc.add f.2) acc = ⟨acc.bits ++ fs.flatMap (·.2.bits), acc.side⟩ := by
  induction fs generalizing acc with
  | nil => simp
  | cons f fs ih => rw [List.foldl_cons, ih]; simp [ABuf.add, List.append_assoc]

theorem assemble_bits (rfs : List RuleField) (vs : List Bits) (h : AllAdm rfs vs) :
    (assemble rfs vs).flatMap (·.2.bits) = vs.flatten := by
  induction h with
  | nil => rfl
  | cons _ _ ih => simp [assemble, ih]

theorem computeEntries_nil (rfs : List RuleField) (pos : Nat) (h : ∀ rf ∈ rfs, rf.cda ≠ .compute) : computeEntries rfs pos = [] := by
  induction rfs generalizing pos with
  | nil => rfl
  | cons rf rfs ih =>
    have := h rf (by simp)
    simp only [computeEntries, this, if_false]
    exact ih _ (fun x hx => h x (List.mem_cons_of_mem _ hx))

/-- the residues of aligned packet fields are the residues of their values -/
theorem residues_eq (pfs : List Field) (rfs : List RuleField) (h : pfs.length = rfs.length) :
    Spec.residues pfs rfs = residuesV rfs (pfs.map (·.value.bits)) := by
  induction pfs generalizing rfs with
  | nil => cases rfs <;> simp [Spec.residues, residuesV]
  | cons pf pfs ih =>
    cases rfs with
    | nil => simp at h
    | cons rf rfs =>
      simp only [Spec.residues, residuesV, List.map_cons]
      rw [ih rfs (by simpa using h)]


theorem decompressToFields_spec (r : Rule) (vs : List Bits) (h : AllAdm r.fields vs) (payload : Bits) (side : Pad) :
    ∃ res, residuesV r.fields vs = some res ∧
      decompressToFields ⟨r.id.bits ++ res ++ payload, side⟩ r
        = runComputes (sortEntries (computeEntries r.fields 0)) (assemble r.fields vs ++ [(Gen.payloadId, ⟨payload, side⟩)]) := by
  obtain ⟨res, h1, h2⟩ := decompressFields_spec r.fields vs h payload side 0
  refine ⟨res, h1, ?_⟩
  unfold decompressToFields
  have : (⟨r.id.bits ++ res ++ payload, side⟩ : ABuf).from_ r.id.length = ⟨res ++ payload, side⟩ := by
    simp [ABuf.from_, ABuf.length, List.append_assoc]
  rw [this]
  simp only [h2, bind, Except.bind]

theorem C03_nocompute (r : Rule) (vs : List Bits) (h : AllAdm r.fields vs) (hnc : ∀ rf ∈ r.fields, rf.cda ≠ .compute)
    (payload : Bits) (side : Pad) :
    ∃ res, residuesV r.fields vs = some res ∧
      decompress ⟨r.id.bits ++ res ++ payload, side⟩ r = .ok ⟨vs.flatten ++ payload, .right⟩ := by
  obtain ⟨res, h1, h2⟩ := decompressToFields_spec r vs h payload side
  refine ⟨res, h1, ?_⟩
  unfold decompress
  rw [h2, computeEntries_nil _ _ hnc]
  simp only [sortEntries, List.foldl_nil, runComputes, pure, Except.pure, bind, Except.bind]
  rw [foldl_add_fields]
  simp [ABuf.empty, assemble_bits _ _ h]

end Schc
