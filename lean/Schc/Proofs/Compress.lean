/- C02: `compress` produces the RFC 8724 §7 layout. -/
import Schc.Proofs.Lsb

namespace Schc
open Bits

/-- the rule field can encode the packet field (what `Aligned` asks of each pair) -/
def FieldOK (pf : Field) (rf : RuleField) : Prop :=
  match rf.cda, rf.tv with
  | .notSent, _ => True
  | .compute, _ => True
  | .valueSent, _ => rf.length = 0 → pf.value.length < 65536
  | .lsb, .buf t => pf.value.side = .left ∧ t.length ≤ pf.value.length ∧ (rf.length = 0 → pf.value.length - t.length < 65536)
  | .mappingSent, .map fwd => ∃ e ∈ fwd, e.1.bits = pf.value.bits
  | _, _ => False

def AllOK : List Field → List RuleField → Prop
  | pf :: pfs, rf :: rfs => FieldOK pf rf ∧ AllOK pfs rfs
  | _, _ => True

theorem foldl_add_bits (rs : List ABuf) (acc : ABuf) :
    rs.foldl ABuf.add acc = ⟨acc.bits ++ rs.flatMap (·.bits), acc.side⟩ := by
  induction rs generalizing acc with
  | nil => simp
  | cons r rs ih => simp [List.foldl_cons, ih, ABuf.add, List.append_assoc]

theorem dictGet_eq (fwd : List (ABuf × ABuf)) (v : ABuf) :
    (dictGet fwd v).map (·.bits) = Spec.mappingIndex fwd v.bits := by
  unfold dictGet Spec.mappingIndex ABuf.beq
  cases fwd.find? (fun e => e.1.bits == v.bits) <;> simp

/-- one field: the model's residue buffers spell the RFC residue -/
theorem fieldResidue_spec (pf : Field) (rf : RuleField) (h : FieldOK pf rf) :
    ∃ rs, fieldResidue pf rf = .ok rs ∧ Spec.residue rf pf.value.bits = some (rs.flatMap (·.bits)) := by
  unfold FieldOK at h
  unfold fieldResidue Spec.residue
  cases hc : rf.cda <;> simp only [hc] at h ⊢
  · exact ⟨[], rfl, rfl⟩
  · -- lsb
    cases ht : rf.tv with
    | map fwd => simp [ht] at h
    | buf t =>
      simp only [ht] at h ⊢
      obtain ⟨hs, hle, hsz⟩ := h
      have hnot : ¬ t.length > pf.value.length := by omega
      simp only [hnot, if_false, bind, Except.bind, pure, Except.pure]
      rw [leastSignificantBits_left pf.value _ hs (by omega)]
      simp only []
      have hd : pf.value.length - (pf.value.length - t.length) = t.length := by omega
      rw [hd]
      have hrl : (⟨List.drop t.length pf.value.bits, Pad.left⟩ : ABuf).length = pf.value.length - t.length := by
        simp [ABuf.length]
      by_cases h0 : rf.length = 0
      · simp only [h0, if_true]
        rw [hrl, encodeLength_eq _ (hsz h0)]
        refine ⟨_, rfl, ?_⟩
        simp [ABuf.length]
      · simp only [h0, if_false]
        exact ⟨_, rfl, by simp [ABuf.length]⟩
  · -- mapping-sent
    cases ht : rf.tv with
    | buf t => simp [ht] at h
    | map fwd =>
      simp only [ht] at h ⊢
      obtain ⟨e, he, hev⟩ := h
      have := dictGet_eq fwd pf.value
      cases hg : dictGet fwd pf.value with
      | none =>
        exfalso
        unfold dictGet at hg
        simp only [Option.map_eq_none_iff, List.find?_eq_none] at hg
        have := hg e he
        simp [ABuf.beq, hev] at this
      | some i =>
        rw [hg] at this
        simp only [Option.map_some] at this
        exact ⟨[i], rfl, by simp [← this]⟩
  · -- value-sent
    by_cases h0 : rf.length = 0
    · simp only [h0, if_true, bind, Except.bind, pure, Except.pure]
      rw [encodeLength_eq _ (h h0)]
      exact ⟨_, rfl, by simp [ABuf.length]⟩
    · simp only [h0, if_false]
      exact ⟨_, rfl, by simp⟩
  · exact ⟨[], rfl, rfl⟩

theorem compressFields_spec (pfs : List Field) (rfs : List RuleField) (acc : ABuf) (h : AllOK pfs rfs) :
    ∃ rs, Spec.residues pfs rfs = some rs ∧ compressFields pfs rfs acc = .ok ⟨acc.bits ++ rs, acc.side⟩ := by
  induction pfs generalizing rfs acc with
  | nil => exact ⟨[], by simp [Spec.residues], by simp [compressFields, pure, Except.pure]⟩
  | cons pf pfs ih =>
    cases rfs with
    | nil => exact ⟨[], by simp [Spec.residues], by simp [compressFields, pure, Except.pure]⟩
    | cons rf rfs =>
      obtain ⟨hf, hr⟩ := h
      obtain ⟨rs1, h1, h2⟩ := fieldResidue_spec pf rf hf
      obtain ⟨rs, h3, h4⟩ := ih rfs (rs1.foldl ABuf.add acc) hr
      refine ⟨rs1.flatMap (·.bits) ++ rs, ?_, ?_⟩
      · simp [Spec.residues, h2, h3]
      · simp only [compressFields, h1, bind, Except.bind]
        rw [h4, foldl_add_bits]
        simp [List.append_assoc]

end Schc
