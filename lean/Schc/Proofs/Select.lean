/- C10 / C11 / C15: selection strategies, rule-ID dispatch, error discipline of the context manager. -/
import Schc.Proofs.Match
import Schc.Proofs.Compress

namespace Schc

/-! ### rule-ID dispatch (C11) -/

def PrefixFreeIds (rules : List Rule) : Prop := ∀ a ∈ rules, ∀ b ∈ rules, a.id.bits <+: b.id.bits → a = b

theorem idTest_iff (r : Rule) (s : ABuf) :
    (decide (r.id.length ≤ s.length) && r.id.beq (s.slice 0 r.id.length)) = true ↔ r.id.bits <+: s.bits := by
  simp only [Bool.and_eq_true, decide_eq_true_eq, ABuf.beq, ABuf.slice, Bits.slice, ABuf.length, List.drop_zero, Nat.sub_zero, beq_iff_eq]
  constructor
  · rintro ⟨_, h⟩; rw [h]; exact List.take_prefix _ _
  · intro h; exact ⟨decide_eq_true h.length_le, List.prefix_iff_eq_take.mp h⟩

theorem prefix_comparable' (a b c : Bits) (ha : a <+: c) (hb : b <+: c) : a <+: b ∨ b <+: a := by
  rcases Nat.le_total a.length b.length with h | h
  · left; exact List.prefix_of_prefix_length_le ha hb h
  · right; exact List.prefix_of_prefix_length_le hb ha h

theorem matchSchc_hit (rules : List Rule) (s : ABuf) (r : Rule) (hr : r ∈ rules) (hpre : r.id.bits <+: s.bits)
    (hpf : PrefixFreeIds rules) : matchSchc rules s = .ok r := by
  unfold matchSchc
  have : rules.find? (fun r => decide (r.id.length ≤ s.length) && r.id.beq (s.slice 0 r.id.length)) = some r := by
    induction rules with
    | nil => cases hr
    | cons a l ih =>
      by_cases ha : (decide (a.id.length ≤ s.length) && a.id.beq (s.slice 0 a.id.length)) = true
      · have hap := (idTest_iff a s).mp ha
        have : a = r := by
          rcases prefix_comparable' a.id.bits r.id.bits s.bits hap hpre with h | h
          · exact hpf a (by simp) r hr h
          · exact (hpf r hr a (by simp) h).symm
        subst this; simp [List.find?, ha]
      · have hne : a ≠ r := fun e => ha (e ▸ (idTest_iff r s).mpr hpre)
        have hr' : r ∈ l := by
          rcases List.mem_cons.mp hr with h | h
          · exact absurd h.symm hne
          · exact h
        simp only [List.find?, ha]
        exact ih hr' (fun x hx y hy => hpf x (List.mem_cons_of_mem _ hx) y (List.mem_cons_of_mem _ hy))
  rw [this]; rfl

theorem matchSchc_miss (rules : List Rule) (s : ABuf) (hne : rules ≠ []) (h : ∀ r ∈ rules, ¬ r.id.bits <+: s.bits) :
    matchSchc rules s = .error .ruleIDMatchError := by
  unfold matchSchc
  have : rules.find? (fun r => decide (r.id.length ≤ s.length) && r.id.beq (s.slice 0 r.id.length)) = none := by
    rw [List.find?_eq_none]; intro r hr hp
    exact h r hr ((idTest_iff r s).mp hp)
  rw [this]
  have : rules.isEmpty = false := by cases rules <;> simp_all
  simp [this, throw, throwThe, MonadExceptOf.throw]

/-! ### FIRST and BEST (C10) -/

theorem first_spec (rules : List Rule) (p : Packet) (d : Dir) (h : ∀ r ∈ rules, RuleTypeOK r) :
    managerCompressPacket rules p d .first =
      match rules.find? (Spec.applicable { p with dir := d }) with
      | some r => compressD { p with dir := d } r (some d)
      | none => .error .ruleDescriptorMatchError := by
  unfold managerCompressPacket
  simp only [matchFirst_spec rules _ h, bind, Except.bind]
  cases rules.find? (Spec.applicable { p with dir := d }) <;> rfl

/-- the BEST loop's invariant: the kept candidate is `best` or the output of an applicable rule, is no longer
    than `best` and than any applicable rule's output seen so far -/
theorem bestLoop_spec (p : Packet) (rules : List Rule) (best : Option ABuf) (h : ∀ r ∈ rules, RuleTypeOK r)
    (res : Option ABuf) (hres : bestLoop p rules best = .ok res) :
    (∀ c, res = some c → best = some c ∨ ∃ r ∈ rules, Spec.applicable p r = true ∧ compressD p r (some p.dir) = .ok c) ∧
    (∀ b, best = some b → ∃ c, res = some c ∧ c.length ≤ b.length) ∧
    (∀ r ∈ rules, Spec.applicable p r = true → ∃ c o, res = some c ∧ compressD p r (some p.dir) = .ok o ∧ c.length ≤ o.length) := by
  induction rules generalizing best with
  | nil =>
    simp only [bestLoop, pure, Except.pure, Except.ok.injEq] at hres
    subst hres
    exact ⟨fun c hc => Or.inl hc, fun b hb => ⟨b, hb, Nat.le_refl _⟩, fun r hr => by cases hr⟩
  | cons r rs ih =>
    have hr := h r (by simp)
    have hrs : ∀ x ∈ rs, RuleTypeOK x := fun x hx => h x (List.mem_cons_of_mem _ hx)
    simp only [bestLoop, ruleMatches_spec p r hr, bind, Except.bind] at hres
    cases ha : Spec.applicable p r
    · simp only [ha, Bool.false_eq_true, if_false] at hres
      obtain ⟨i1, i2, i3⟩ := ih best hrs hres
      refine ⟨?_, i2, ?_⟩
      · intro c hc
        rcases i1 c hc with h1 | ⟨x, hx, h1⟩
        · exact Or.inl h1
        · exact Or.inr ⟨x, List.mem_cons_of_mem _ hx, h1⟩
      · intro x hx hxa
        rcases List.mem_cons.mp hx with e | e
        · subst e; rw [ha] at hxa; cases hxa
        · exact i3 x e hxa
    · simp only [ha, if_true] at hres
      cases hc : compressD p r (some p.dir) with
      | error e => simp [hc] at hres
      | ok c =>
        simp only [hc] at hres
        -- the candidate kept after this rule
        obtain ⟨nb, hnb, hnbc, hnbb⟩ : ∃ nb, bestLoop p rs (some nb) = .ok res ∧ nb.length ≤ c.length ∧
            (nb = c ∨ best = some nb) ∧ True ∧ (∀ b, best = some b → nb.length ≤ b.length) := by
          cases hb : best with
          | none => exact ⟨c, by simpa [hb] using hres, Nat.le_refl _, Or.inl rfl, trivial, fun b hb' => by cases hb'⟩
          | some b =>
            simp only [hb] at hres
            by_cases hlt : c.length < b.length
            · simp only [hlt, if_true] at hres
              exact ⟨c, hres, Nat.le_refl _, Or.inl rfl, trivial, fun b' hb' => by cases hb'; omega⟩
            · simp only [hlt, if_false] at hres
              exact ⟨b, hres, by omega, Or.inr rfl, trivial, fun b' hb' => by cases hb'; exact Nat.le_refl _⟩
        obtain ⟨hor, _, hmin⟩ := hnbb
        obtain ⟨i1, i2, i3⟩ := ih (some nb) hrs hnb
        obtain ⟨c', hc', hle⟩ := i2 nb rfl
        refine ⟨?_, ?_, ?_⟩
        · intro x hx
          rcases i1 x hx with h1 | ⟨y, hy, h1⟩
          · cases h1
            rcases hor with e | e
            · right; exact ⟨r, by simp, ha, by rw [e]; exact hc⟩
            · left; exact e
          · exact Or.inr ⟨y, List.mem_cons_of_mem _ hy, h1⟩
        · intro b hb
          exact ⟨c', hc', Nat.le_trans hle (hmin b hb)⟩
        · intro x hx hxa
          rcases List.mem_cons.mp hx with e | e
          · subst e; exact ⟨c', c, hc', hc, Nat.le_trans hle hnbc⟩
          · exact i3 x e hxa

end Schc

namespace Schc

theorem bestLoop_total (p : Packet) (rules : List Rule) (best : Option ABuf) (h : ∀ r ∈ rules, RuleTypeOK r)
    (hc : ∀ r ∈ rules, Spec.applicable p r = true → ∃ o, compressD p r (some p.dir) = .ok o) : ∃ res, bestLoop p rules best = .ok res := by
  induction rules generalizing best with
  | nil => exact ⟨best, rfl⟩
  | cons r rs ih =>
    have hrs : ∀ x ∈ rs, RuleTypeOK x := fun x hx => h x (List.mem_cons_of_mem _ hx)
    have hcs : ∀ x ∈ rs, Spec.applicable p x = true → ∃ o, compressD p x (some p.dir) = .ok o := fun x hx => hc x (List.mem_cons_of_mem _ hx)
    simp only [bestLoop, ruleMatches_spec p r (h r (by simp)), bind, Except.bind]
    cases ha : Spec.applicable p r
    · simp only [Bool.false_eq_true, if_false]; exact ih best hrs hcs
    · obtain ⟨o, ho⟩ := hc r (by simp) ha
      simp only [if_true, ho]
      exact ih _ hrs hcs

theorem C02_nocompression' (p : Packet) (r : Rule) (h : r.nature = .noCompression) :
    compress p r = .ok ⟨r.id.bits ++ p.fields.flatMap (·.value.bits) ++ p.payload.bits, .right⟩ := by
  unfold compress; rw [h]
  simp only [pure, Except.pure]
  have : ∀ (fs : List Field) (acc : ABuf), fs.foldl (fun acc f => acc.add f.value) acc = ⟨acc.bits ++ fs.flatMap (·.value.bits), acc.side⟩ := by
    intro fs; induction fs with
    | nil => intro acc; simp
    | cons f fs ih => intro acc; rw [List.foldl_cons, ih]; simp [ABuf.add, List.append_assoc]
  rw [this]
  simp [ABuf.add, ABuf.empty]

theorem best_spec (rules : List Rule) (p : Packet) (d : Dir) :
    managerCompressPacket rules p d .best =
      match bestLoop { p with dir := d } rules none with
      | .ok (some c) => .ok c
      | .ok none => .error .ruleDescriptorMatchError
      | .error e => .error e := by
  unfold managerCompressPacket
  simp only [bind, Except.bind]
  cases bestLoop { p with dir := d } rules none with
  | error e => rfl
  | ok res => cases res <;> rfl

end Schc

namespace Schc

theorem best_member (rules : List Rule) (p : Packet) (d : Dir) (h : ∀ r ∈ rules, RuleTypeOK r) (c : ABuf)
    (hc : managerCompressPacket rules p d .best = .ok c) :
    ∃ r ∈ rules, Spec.applicable { p with dir := d } r = true ∧ compressD { p with dir := d } r (some d) = .ok c := by
  rw [best_spec] at hc
  cases hb : bestLoop { p with dir := d } rules none with
  | error e => simp [hb] at hc
  | ok res =>
    cases res with
    | none => simp [hb] at hc
    | some c' =>
      simp only [hb, Except.ok.injEq] at hc; subst hc
      rcases (bestLoop_spec _ rules none h _ hb).1 c' rfl with h1 | h1
      · cases h1
      · exact h1

/-- whichever strategy: a successful manager compress is the output of an applicable rule of the set -/
theorem selected_rule (rules : List Rule) (p : Packet) (d : Dir) (st : Strategy) (h : ∀ r ∈ rules, RuleTypeOK r) (c : ABuf)
    (hc : managerCompressPacket rules p d st = .ok c) :
    ∃ r ∈ rules, Spec.applicable { p with dir := d } r = true ∧ compressD { p with dir := d } r (some d) = .ok c := by
  cases st
  · rw [first_spec rules p d h] at hc
    cases hfind : rules.find? (Spec.applicable { p with dir := d }) with
    | none => simp [hfind] at hc
    | some r =>
      simp only [hfind] at hc
      exact ⟨r, List.mem_of_find?_eq_some hfind, List.find?_some hfind, hc⟩
  · exact best_member rules p d h c hc

end Schc
