/- C05 / C06 / C13: the shift loops, re-padding, equality, hashing, value(). -/
import Schc.Proofs.BufIter
import Schc.Proofs.BitsMore

namespace Schc
open Bits

/-- one byte of the right-shift loop: low `sh` bits of the previous byte, then the high `8 - sh` bits of this one -/
theorem shr_byte (prev cur sh : Nat) (hsh : sh ≤ 8) (hc : cur < 256) :
    ((prev &&& ((1 <<< sh) - 1)) <<< (8 - sh)) + (cur >>> sh) < 256 ∧
    Bits.ofNat 8 (((prev &&& ((1 <<< sh) - 1)) <<< (8 - sh)) + (cur >>> sh)) = (Bits.ofNat 8 prev).drop (8 - sh) ++ (Bits.ofNat 8 cur).take (8 - sh) := by
  have hm : prev &&& ((1 <<< sh) - 1) = prev % 2 ^ sh := by rw [Nat.shiftLeft_eq, Nat.one_mul, Nat.and_two_pow_sub_one_eq_mod]
  rw [hm, Nat.shiftLeft_eq, Nat.shiftRight_eq_div_pow]
  have h1 : prev % 2 ^ sh < 2 ^ sh := Nat.mod_lt _ (Nat.pow_pos (by decide))
  have h256 : 2 ^ sh * 2 ^ (8 - sh) = 256 := by
    rw [← Nat.pow_add]; have : sh + (8 - sh) = 8 := by omega
    rw [this]
  have h2 : cur / 2 ^ sh < 2 ^ (8 - sh) := by
    rw [Nat.div_lt_iff_lt_mul (Nat.pow_pos (by decide))]; rw [Nat.mul_comm, h256]; exact hc
  constructor
  · calc prev % 2 ^ sh * 2 ^ (8 - sh) + cur / 2 ^ sh < prev % 2 ^ sh * 2 ^ (8 - sh) + 2 ^ (8 - sh) := by omega
      _ = (prev % 2 ^ sh + 1) * 2 ^ (8 - sh) := by rw [Nat.add_mul, Nat.one_mul]
      _ ≤ 2 ^ sh * 2 ^ (8 - sh) := Nat.mul_le_mul_right _ h1
      _ = 256 := h256
  · have := ofNat_append sh (8 - sh) (prev % 2 ^ sh) (cur / 2 ^ sh) h2
    have e : sh + (8 - sh) = 8 := by omega
    rw [e] at this
    rw [this, ofNat_low 8 sh prev hsh, ofNat_high 8 sh cur hsh]

def lastByte : Nat → List Nat → Nat
  | prev, [] => prev
  | _, x :: xs => lastByte x xs

/-- the right-shift byte loop (`_shift_right`, LEFT side): the stream moves right by `sh` bits; the low `sh` bits of
    the last byte fall off -/
theorem shrLoopL_spec (sh : Nat) (hsh : sh ≤ 8) (prev : Nat) (c : List Nat) (hc : AllBytes c) :
    ∃ out, Buf.shrLoopL sh prev c = .ok out ∧ AllBytes out ∧ out.length = c.length ∧
      ABuf.bytesBits out ++ (Bits.ofNat 8 (lastByte prev c)).drop (8 - sh) = (Bits.ofNat 8 prev).drop (8 - sh) ++ ABuf.bytesBits c := by
  induction c generalizing prev with
  | nil => exact ⟨[], rfl, (fun x hx => by cases hx), rfl, by simp [ABuf.bytesBits, lastByte]⟩
  | cons cur rest ih =>
    obtain ⟨hlt, hb⟩ := shr_byte prev cur sh hsh (hc cur (by simp))
    obtain ⟨out, h1, h2, h3, h4⟩ := ih cur (fun x hx => hc x (List.mem_cons_of_mem _ hx))
    refine ⟨(((prev &&& ((1 <<< sh) - 1)) <<< (8 - sh)) + (cur >>> sh)) :: out, ?_, ?_, ?_, ?_⟩
    · simp only [Buf.shrLoopL, toByte, hlt, if_true, bind, Except.bind, pure, Except.pure, h1]
    · intro x hx
      rcases List.mem_cons.mp hx with h | h
      · subst h; exact hlt
      · exact h2 x h
    · simp [h3]
    · rw [bytesBits_cons, hb, lastByte, List.append_assoc, List.append_assoc, h4, bytesBits_cons, ← List.append_assoc (List.take _ _),
        List.take_append_drop]

end Schc

namespace Schc
open Bits

/-- one byte of the left-shift loop -/
theorem shl_byte (b cin sb : Nat) (hsb : sb ≤ 8) (hb : b < 256) (hc : cin < 2 ^ sb) :
    (((b <<< sb) &&& 0xff) ||| cin) < 256 ∧
    Bits.ofNat 8 (((b <<< sb) &&& 0xff) ||| cin) = (Bits.ofNat 8 b).drop sb ++ Bits.ofNat sb cin ∧
    ((b >>> (8 - sb)) &&& ((1 <<< sb) - 1)) < 2 ^ sb ∧
    Bits.ofNat sb ((b >>> (8 - sb)) &&& ((1 <<< sb) - 1)) = (Bits.ofNat 8 b).take sb := by
  have h256 : 2 ^ (8 - sb) * 2 ^ sb = 256 := by
    rw [← Nat.pow_add]; have : 8 - sb + sb = 8 := by omega
    rw [this]
  have hmask : (b <<< sb) &&& 0xff = (b % 2 ^ (8 - sb)) * 2 ^ sb := by
    rw [show (0xff : Nat) = 2 ^ 8 - 1 by rfl, Nat.and_two_pow_sub_one_eq_mod, Nat.shiftLeft_eq, show (2 : Nat) ^ 8 = 256 by rfl, ← h256,
      Nat.mul_mod_mul_right]
  have hor : ((b % 2 ^ (8 - sb)) * 2 ^ sb) ||| cin = (b % 2 ^ (8 - sb)) * 2 ^ sb + cin := by
    rw [← Nat.shiftLeft_eq, Nat.shiftLeft_add_eq_or_of_lt hc]
  have hlow : b % 2 ^ (8 - sb) < 2 ^ (8 - sb) := Nat.mod_lt _ (Nat.pow_pos (by decide))
  rw [hmask, hor]
  have hc1 : (b >>> (8 - sb)) &&& ((1 <<< sb) - 1) = b / 2 ^ (8 - sb) := by
    rw [Nat.shiftLeft_eq, Nat.one_mul, Nat.and_two_pow_sub_one_eq_mod, Nat.shiftRight_eq_div_pow]
    apply Nat.mod_eq_of_lt
    rw [Nat.div_lt_iff_lt_mul (Nat.pow_pos (by decide)), Nat.mul_comm, h256]; exact hb
  have hdiv : b / 2 ^ (8 - sb) < 2 ^ sb := by
    rw [Nat.div_lt_iff_lt_mul (Nat.pow_pos (by decide)), Nat.mul_comm, h256]; exact hb
  refine ⟨?_, ?_, ?_, ?_⟩
  · calc b % 2 ^ (8 - sb) * 2 ^ sb + cin < b % 2 ^ (8 - sb) * 2 ^ sb + 2 ^ sb := by omega
      _ = (b % 2 ^ (8 - sb) + 1) * 2 ^ sb := by rw [Nat.add_mul, Nat.one_mul]
      _ ≤ 2 ^ (8 - sb) * 2 ^ sb := Nat.mul_le_mul_right _ hlow
      _ = 256 := h256
  · have := ofNat_append (8 - sb) sb (b % 2 ^ (8 - sb)) cin hc
    have e : 8 - sb + sb = 8 := by omega
    rw [e] at this
    rw [this, ofNat_low 8 (8 - sb) b (by omega)]
    have e2 : 8 - (8 - sb) = sb := by omega
    rw [e2]
  · rw [hc1]; exact hdiv
  · rw [hc1]
    have := ofNat_high 8 (8 - sb) b (by omega)
    have e2 : 8 - (8 - sb) = sb := by omega
    rw [e2] at this
    exact this

/-- the left-shift byte loop (`_shift_left`, LEFT side): carry-out bits followed by the new bytes = the stream
    followed by `sb` zero bits -/
theorem shlLoop_spec (sb : Nat) (hsb : sb ≤ 8) (c : List Nat) (hc : AllBytes c) :
    AllBytes (Buf.shlLoop sb c).1 ∧ (Buf.shlLoop sb c).1.length = c.length ∧ (Buf.shlLoop sb c).2 < 2 ^ sb ∧
    Bits.ofNat sb (Buf.shlLoop sb c).2 ++ ABuf.bytesBits (Buf.shlLoop sb c).1 = ABuf.bytesBits c ++ Bits.zeros sb := by
  induction c with
  | nil =>
    refine ⟨?_, rfl, Nat.pow_pos (by decide), ?_⟩
    · intro x hx; cases hx
    simp only [Buf.shlLoop, ABuf.bytesBits, List.flatMap_nil, List.append_nil, List.nil_append]
    apply List.ext_getElem
    · simp [zeros_length]
    · intro i h1 h2; simp [Bits.ofNat, Bits.zeros]
  | cons b bs ih =>
    obtain ⟨i1, i2, i3, i4⟩ := ih (fun x hx => hc x (List.mem_cons_of_mem _ hx))
    obtain ⟨b1, b2, b3, b4⟩ := shl_byte b (Buf.shlLoop sb bs).2 sb hsb (hc b (by simp)) i3
    simp only [Buf.shlLoop]
    refine ⟨?_, by simp [i2], b3, ?_⟩
    · intro x hx
      rcases List.mem_cons.mp hx with h | h
      · subst h; exact b1
      · exact i1 x h
    · rw [b4, bytesBits_cons, b2, bytesBits_cons, List.append_assoc, ← List.append_assoc (List.take _ _), List.take_append_drop,
        List.append_assoc, i4]

end Schc
