/- CoAP option walk: progress, termination (C14) and tiling (C07). -/
import Schc.Proofs.Fixed
import Schc.Proofs.Content

namespace Schc

theorem optionHeader_off_ge (ob : ABuf) : 8 ≤ (optionHeader ob).off := by
  simp only [optionHeader]; omega

/-- what a successful step does to the cursor -/
theorem optionStep_progress (buffer : ABuf) (mode : CoapMode) (st st' : OptState)
    (h : optionStep buffer mode st = .ok (some st')) :
    st.cursor < buffer.length ∧ st'.cursor = st.cursor + (optionHeader (buffer.from_ st.cursor)).off ∧
    (optionHeader (buffer.from_ st.cursor)).off ≤ (buffer.from_ st.cursor).length := by
  unfold optionStep at h
  split at h
  · simp [pure, Except.pure] at h
  · rename_i hc
    have hlt : st.cursor < buffer.length := by
      by_cases hh : st.cursor < buffer.length
      · exact hh
      · exfalso; apply hc; intro hcc; exact absurd hcc.1 hh
    refine ⟨hlt, ?_⟩
    simp only [bind, Except.bind] at h
    split at h
    · simp [throw, throwThe, MonadExceptOf.throw] at h
    · rename_i hoff
      cases mode
      · simp only [pure, Except.pure, Except.ok.injEq, Option.some.injEq] at h
        subst h
        exact ⟨rfl, by omega⟩
      · simp only at h
        split at h
        · simp only [pure, Except.pure, Except.ok.injEq, Option.some.injEq, bind, Except.bind] at h
          subst h; exact ⟨rfl, by omega⟩
        · split at h
          · simp only [pure, Except.pure, Except.ok.injEq, Option.some.injEq, bind, Except.bind] at h
            subst h; exact ⟨rfl, by omega⟩
          · simp [throw, throwThe, MonadExceptOf.throw, bind, Except.bind] at h

/-- a step raises nothing but the parser error -/
theorem optionStep_error (buffer : ABuf) (mode : CoapMode) (st : OptState) (e : PyErr)
    (h : optionStep buffer mode st = .error e) : e = .parserError := by
  unfold optionStep at h
  split at h
  · simp [pure, Except.pure] at h
  · simp only [bind, Except.bind] at h
    split at h
    · simp only [throw, throwThe, MonadExceptOf.throw, Except.error.injEq] at h; exact h.symm
    · cases mode
      · simp [pure, Except.pure] at h
      · simp only at h
        split at h
        · simp [pure, Except.pure, bind, Except.bind] at h
        · split at h
          · simp [pure, Except.pure, bind, Except.bind] at h
          · simp only [throw, throwThe, MonadExceptOf.throw, bind, Except.bind, Except.error.injEq] at h; exact h.symm

/-- the walk terminates within `length/8 + 1` iterations: it never reports `hang` with the fuel the parsers pass -/
theorem optionLoop_no_hang (buffer : ABuf) (mode : CoapMode) (fuel : Nat) (st : OptState)
    (hf : buffer.length - st.cursor < 8 * fuel) : optionLoop buffer mode fuel st ≠ .error .hang := by
  induction fuel generalizing st with
  | zero => omega
  | succ fuel ih =>
    unfold optionLoop
    simp only [bind, Except.bind]
    cases hs : optionStep buffer mode st with
    | error e => have := optionStep_error _ _ _ _ hs; subst this; simp
    | ok r =>
      cases r with
      | none => simp [pure, Except.pure]
      | some st' =>
        simp only
        obtain ⟨h1, h2, h3⟩ := optionStep_progress _ _ _ _ hs
        have h4 := optionHeader_off_ge (buffer.from_ st.cursor)
        have h5 : (buffer.from_ st.cursor).length = buffer.length - st.cursor := by simp [ABuf.from_, ABuf.length]
        apply ih
        omega

theorem optionLoop_error (buffer : ABuf) (mode : CoapMode) (fuel : Nat) (st : OptState) (e : PyErr)
    (h : optionLoop buffer mode fuel st = .error e) : e = .parserError ∨ e = .hang := by
  induction fuel generalizing st with
  | zero => simp only [optionLoop, throw, throwThe, MonadExceptOf.throw, Except.error.injEq] at h; right; exact h.symm
  | succ fuel ih =>
    unfold optionLoop at h
    simp only [bind, Except.bind] at h
    cases hs : optionStep buffer mode st with
    | error e' => simp only [hs, Except.error.injEq] at h; subst h; left; exact optionStep_error _ _ _ _ hs
    | ok r =>
      cases r with
      | none => simp [hs, pure, Except.pure] at h
      | some st' => simp only [hs] at h; exact ih st' h

end Schc

namespace Schc

theorem content_length (x : ABuf) : x.content.length = (x.bits.length + padLenOf x.bits.length) / 8 := by
  unfold ABuf.content
  rw [packBytes_length]
  cases x.side <;> simp [zeros_length, Nat.add_comm]

theorem idx_content_zero (x : ABuf) (h : 0 < x.bits.length) : ∃ v, idx x.content 0 = .ok v := by
  have hl := content_length x
  have : 0 < x.content.length := by
    rw [hl]; have := padLen_add x.bits.length; have := padLen_lt x.bits.length; omega
  unfold idx
  cases hc : x.content with
  | nil => rw [hc] at this; simp at this
  | cons v vs => exact ⟨v, rfl⟩

theorem parseOptions_total (ob : ABuf) (mode : CoapMode) (fuel : Nat) (hf : ob.length < 8 * fuel) :
    (∃ r, asParserError (parseOptions ob mode fuel) = .ok r) ∨ asParserError (parseOptions ob mode fuel) = .error .parserError := by
  unfold parseOptions
  simp only [bind, Except.bind]
  cases hl : optionLoop ob mode fuel {} with
  | error e =>
    rcases optionLoop_error _ _ _ _ _ hl with h | h
    · subst h; right; rfl
    · subst h; exfalso; exact optionLoop_no_hang ob mode fuel {} (by simp; omega) hl
  | ok st =>
    left
    simp only
    split <;> exact ⟨_, rfl⟩

/-- C14 for the CoAP parser: any buffer gives a descriptor or the parser error -/
theorem coapParse_total (mode : CoapMode) (fuel : Nat) (b : ABuf) (hfuel0 : b.length < fuel) :
    (∃ h, coapParse mode fuel b = .ok h) ∨ coapParse mode fuel b = .error .parserError := by
  unfold coapParse
  by_cases hlen : b.length < Gen.coapMinLength
  · right; simp [hlen, bind, Except.bind, throw, throwThe, MonadExceptOf.throw]
  · simp only [hlen, if_false, bind, Except.bind]
    have h32 : 32 ≤ b.bits.length := by simpa [Gen.coapMinLength, ABuf.length] using hlen
    have htkl : fieldValue (parseFixed Gen.coapFixedLayout b) Gen.CoAPF.TOKEN_LENGTH = b.slice 4 8 := by
      simp [parseFixed, Gen.coapFixedLayout, fieldValue, Gen.CoAPF.TOKEN_LENGTH, List.find?]
    rw [htkl]
    obtain ⟨v, hv⟩ := idx_content_zero (b.slice 4 8) (by simp [ABuf.slice, Bits.slice]; omega)
    rw [hv]
    simp only
    by_cases hob : (b.from_ (32 + v * 8)).length > 0
    · simp only [hob, if_true]
      have hfuel : (b.from_ (32 + v * 8)).length < 8 * fuel := by
        simp only [ABuf.from_, ABuf.length, List.length_drop] at hfuel0 ⊢; omega
      rcases parseOptions_total (b.from_ (32 + v * 8)) mode fuel hfuel with ⟨r, hr⟩ | hr
      · left; rw [hr]; exact ⟨_, rfl⟩
      · right; rw [hr]
    · left; simp only [hob, if_false, pure, Except.pure]; exact ⟨_, rfl⟩

end Schc
