/- C03: `decompress` on any conforming SCHC packet (induction over the rule's descriptors). -/
import Schc.Proofs.Compress

namespace Schc
open Bits

/-- a mapping a decompressor can invert: values (dict keys) pairwise different, indices prefix-free -/
def MappingWF (fwd : List (ABuf × ABuf)) : Prop :=
  fwd.Nodup ∧ (∀ a ∈ fwd, ∀ b ∈ fwd, a.1.bits = b.1.bits → a = b) ∧ (∀ a ∈ fwd, ∀ b ∈ fwd, a.2.bits <+: b.2.bits → a = b)

/-- what a conforming peer may have compressed with this descriptor: a value `v` admissible for it -/
def Adm (rf : RuleField) (v : Bits) : Prop :=
  match rf.cda, rf.tv with
  | .notSent, .buf t => v = t.bits
  | .valueSent, .buf _ => if rf.length = 0 then v.length < 65536 else v.length = rf.length
  | .lsb, .buf t => t.bits <+: v ∧ (if rf.length = 0 then v.length - t.bits.length < 65536 else v.length = rf.length)
  | .mappingSent, .map fwd => MappingWF fwd ∧ ∃ e ∈ fwd, e.1.bits = v
  | .compute, _ => v = Bits.zeros rf.length ∧ (Gen.computeFunctions.find? (·.1 == rf.id)).isSome
  | _, _ => False

theorem find_unique {α} (l : List α) (p : α → Bool) (e : α) (he : e ∈ l) (hp : p e = true)
    (hu : ∀ x ∈ l, p x = true → x = e) : l.find? p = some e := by
  induction l with
  | nil => cases he
  | cons a l ih =>
    by_cases ha : p a = true
    · have := hu a (by simp) ha; subst this; simp [List.find?, ha]
    · have hne : a ≠ e := fun h => ha (h ▸ hp)
      have he' : e ∈ l := by
        rcases List.mem_cons.mp he with h | h
        · exact absurd h.symm hne
        · exact h
      simp only [List.find?, ha]
      exact ih he' (fun x hx => hu x (List.mem_cons_of_mem _ hx))

theorem prefix_comparable (a b c : Bits) (ha : a <+: c) (hb : b <+: c) : a <+: b ∨ b <+: a := by
  rcases Nat.le_total a.length b.length with h | h
  · left; exact List.prefix_of_prefix_length_le ha hb h
  · right; exact List.prefix_of_prefix_length_le hb ha h

/-- with pairwise different indices the reverse dict is the forward list with its pairs swapped -/
theorem reverseOf_aux (fwd : List (ABuf × ABuf)) (acc : List (ABuf × ABuf))
    (h1 : ∀ a ∈ fwd, ∀ b ∈ acc, ¬ b.1.bits = a.2.bits)
    (h2 : List.Pairwise (fun a b => ¬ a.2.bits = b.2.bits) fwd) :
    fwd.foldl (fun d e => dictSet d e.2 e.1) acc = acc ++ fwd.map (fun e => (e.2, e.1)) := by
  induction fwd generalizing acc with
  | nil => simp
  | cons e fwd ih =>
    rw [List.pairwise_cons] at h2
    have hnone : acc.any (fun x => x.1.beq e.2) = false := by
      rw [List.any_eq_false]; intro x hx
      have := h1 e (by simp) x hx
      simpa [ABuf.beq] using this
    have hset : dictSet acc e.2 e.1 = acc ++ [(e.2, e.1)] := by simp [dictSet, hnone]
    rw [List.foldl_cons, hset, ih _ ?_ h2.2]
    · simp
    · intro a ha b hb
      rcases List.mem_append.mp hb with hb | hb
      · exact h1 a (List.mem_cons_of_mem _ ha) b hb
      · simp only [List.mem_singleton] at hb; subst hb
        exact h2.1 a ha

theorem pairwise_of_inj {α} (l : List α) (R : α → α → Prop) (hirr : ∀ a ∈ l, ∀ b ∈ l, ¬ R a b → True)
    (h : ∀ a ∈ l, ∀ b ∈ l, a ≠ b → R a b) (hnd : l.Nodup) : l.Pairwise R := by
  induction l with
  | nil => exact List.Pairwise.nil
  | cons x l ih =>
    rw [List.nodup_cons] at hnd
    refine List.Pairwise.cons ?_ (ih (fun _ _ _ _ _ => trivial) (fun a ha b hb => h a (List.mem_cons_of_mem _ ha) b (List.mem_cons_of_mem _ hb)) hnd.2)
    intro b hb
    exact h x (by simp) b (List.mem_cons_of_mem _ hb) (fun e => hnd.1 (e ▸ hb))


theorem reverseOf_wf (fwd : List (ABuf × ABuf)) (h : MappingWF fwd) : reverseOf fwd = fwd.map (fun e => (e.2, e.1)) := by
  unfold reverseOf
  rw [reverseOf_aux fwd [] (by simp)]
  · simp
  · apply pairwise_of_inj _ _ (fun _ _ _ _ _ => trivial) _ h.1
    intro a ha b hb hne heq
    exact hne (h.2.2 a ha b hb (by rw [heq]; exact List.prefix_refl _))

theorem take_append_len (a b : Bits) : (a ++ b).take a.length = a := by simp
theorem drop_append_len (a b : Bits) : (a ++ b).drop a.length = b := by simp

/-- one descriptor: the decompressor consumes exactly the residue and rebuilds the value -/
theorem decompressField_residue (rf : RuleField) (v : Bits) (h : Adm rf v) (rest : Bits) (side : Pad) (pos : Nat) :
    ∃ res, Spec.residue rf v = some res ∧
      decompressField ⟨res ++ rest, side⟩ pos rf
        = .ok (⟨v, if rf.cda = .compute then .left else .right⟩, res.length, if rf.cda = .compute then some ⟨pos, rf.id⟩ else none) := by
  unfold Adm at h
  unfold decompressField Spec.residue
  cases hc : rf.cda <;> cases ht : rf.tv <;> simp only [hc, ht] at h ⊢
  · -- not-sent
    subst h
    exact ⟨[], rfl, by simp [ABuf.add, ABuf.empty, pure, Except.pure]⟩
  · -- lsb
    rename_i t
    obtain ⟨⟨r, hr⟩, hsz⟩ := h
    subst hr
    by_cases h0 : rf.length = 0
    · simp only [h0, if_true, List.length_append, Nat.add_sub_cancel_left] at hsz ⊢
      refine ⟨Spec.encLen r.length ++ r, by simp, ?_⟩
      simp only [List.drop_left, ne_eq, not_true_eq_false, if_false]
      rw [List.append_assoc, decodeLength_encLen _ hsz]
      simp only [pure, Except.pure, ABuf.slice, ABuf.add, ABuf.empty, Bits.slice, List.nil_append, encLen_length]
      rw [← encLen_length, drop_append_len, Nat.add_sub_cancel_left, take_append_len]
      simp [reduceCtorEq]
    · simp only [h0, if_false] at hsz ⊢
      refine ⟨r, by simp, ?_⟩
      simp only [ne_eq, h0, not_false_eq_true, if_true, List.drop_left]
      have hle : ¬ t.length > rf.length := by rw [← hsz]; simp [ABuf.length]
      simp only [hle, if_false, bind, Except.bind, pure, Except.pure]
      have hk : rf.length - t.length = r.length := by rw [← hsz]; simp [ABuf.length]
      simp [hk, ABuf.slice, ABuf.add, ABuf.empty, Bits.slice, reduceCtorEq]
  · -- mapping-sent
    rename_i fwd
    obtain ⟨hwf, e, he, hev⟩ := h
    subst hev
    have hidx : Spec.mappingIndex fwd e.1.bits = some e.2.bits := by
      unfold Spec.mappingIndex
      rw [find_unique fwd _ e he (by simp)]
      · rfl
      · intro x hx hpx
        exact hwf.2.1 x hx e he (by simpa using hpx)
    refine ⟨e.2.bits, hidx, ?_⟩
    rw [reverseOf_wf fwd hwf, List.find?_map]
    have hfind : fwd.find? ((fun kv : ABuf × ABuf => kv.1.beq ((⟨e.2.bits ++ rest, side⟩ : ABuf).slice 0 kv.1.length)) ∘ fun e => (e.2, e.1)) = some e := by
      apply find_unique fwd _ e he
      · simp [ABuf.beq, ABuf.slice, Bits.slice, ABuf.length]
      · intro x hx hpx
        simp only [Function.comp, ABuf.beq, ABuf.slice, Bits.slice, ABuf.length, List.drop_zero, Nat.sub_zero, beq_iff_eq] at hpx
        have hxp : x.2.bits <+: e.2.bits ++ rest := by rw [hpx]; exact List.take_prefix _ _
        rcases prefix_comparable x.2.bits e.2.bits _ hxp (List.prefix_append _ _) with h | h
        · exact hwf.2.2 x hx e he h
        · exact (hwf.2.2 e he x hx h).symm
    rw [hfind]
    simp [ABuf.add, ABuf.empty, ABuf.length, pure, Except.pure, reduceCtorEq]
  · -- value-sent
    by_cases h0 : rf.length = 0
    · simp only [h0, if_true] at h ⊢
      refine ⟨_, rfl, ?_⟩
      simp only [ne_eq, not_true_eq_false, if_false]
      rw [List.append_assoc, decodeLength_encLen _ h]
      simp only [pure, Except.pure, ABuf.slice, ABuf.add, ABuf.empty, Bits.slice, List.nil_append]
      rw [← encLen_length, drop_append_len, Nat.add_sub_cancel_left, take_append_len]
      simp [reduceCtorEq]
    · simp only [h0, if_false] at h ⊢
      refine ⟨_, rfl, ?_⟩
      simp only [ne_eq, h0, not_false_eq_true, if_true, pure, Except.pure]
      simp [← h, ABuf.slice, ABuf.add, ABuf.empty, Bits.slice, reduceCtorEq]
  all_goals
    -- compute (either target-value type): a zero placeholder of the declared length and a compute entry
    obtain ⟨hv, hk⟩ := h
    subst hv
    refine ⟨[], rfl, ?_⟩
    have hnn : ¬ (List.find? (fun x => x.1 == rf.id) Gen.computeFunctions).isNone = true := by
      rw [Option.isNone_iff_eq_none]; intro hn; rw [hn] at hk; simp at hk
    simp only [hnn, if_false, bind, Except.bind, pure, Except.pure]
    simp [ABuf.ofNat, Bits.ofNat, Bits.zeros, List.map_const']

end Schc
