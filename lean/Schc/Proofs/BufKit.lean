/- Toolkit for the Buffer refinement block (C05 / C06 / C13): bytes ↔ bits. -/
import Schc.Proofs.Content
import Schc.Proofs.JsonRoundtrip

namespace Schc
open Bits

def AllBytes (c : List Nat) : Prop := ∀ x ∈ c, x < 256

/-- the canonical byte-level Buffer of an abstract buffer -/
def Buf.ofABuf (a : ABuf) : Buf := ⟨a.content, a.length, a.side, padLenOf a.length⟩

theorem packBytes_bytesBits (c : List Nat) (h : AllBytes c) : ABuf.packBytes c.length (ABuf.bytesBits c) = c := by
  induction c with
  | nil => rfl
  | cons b bs ih =>
    simp only [List.length_cons, ABuf.packBytes, bytesBits_cons]
    rw [List.take_append_of_le_length (by simp), List.take_of_length_le (by simp),
        toNat_ofNat 8 b (h b (by simp)), List.drop_append_of_le_length (by simp), List.drop_of_length_le (by simp), List.nil_append,
        ih (fun x hx => h x (List.mem_cons_of_mem _ hx))]

theorem bytesBits_inj (a b : List Nat) (ha : AllBytes a) (hb : AllBytes b) (h : ABuf.bytesBits a = ABuf.bytesBits b) : a = b := by
  have hl : a.length = b.length := by
    have := congrArg List.length h
    rw [bytesBits_length, bytesBits_length] at this; omega
  rw [← packBytes_bytesBits a ha, ← packBytes_bytesBits b hb, h, hl]

/-- bytes whose bits are `zeros pl ++ bits` are the canonical left content of `bits` -/
theorem content_left_of_bits (c : List Nat) (hc : AllBytes c) (bits : Bits) (h : ABuf.bytesBits c = Bits.zeros (padLenOf bits.length) ++ bits) :
    c = (⟨bits, .left⟩ : ABuf).content := by
  apply bytesBits_inj c _ hc (content_lt _)
  rw [h, bytesBits_content]

theorem content_right_of_bits (c : List Nat) (hc : AllBytes c) (bits : Bits) (h : ABuf.bytesBits c = bits ++ Bits.zeros (padLenOf bits.length)) :
    c = (⟨bits, .right⟩ : ABuf).content := by
  apply bytesBits_inj c _ hc (content_lt _)
  rw [h, bytesBits_content]

theorem allBytes_append {a b : List Nat} (ha : AllBytes a) (hb : AllBytes b) : AllBytes (a ++ b) := by
  intro x hx; rcases List.mem_append.mp hx with h | h; exact ha x h; exact hb x h
theorem allBytes_replicate (n : Nat) : AllBytes (List.replicate n 0) := by
  intro x hx; rw [List.mem_replicate] at hx; omega
theorem allBytes_drop {c : List Nat} (h : AllBytes c) (k : Nat) : AllBytes (c.drop k) := fun x hx => h x (List.mem_of_mem_drop hx)
theorem allBytes_take {c : List Nat} (h : AllBytes c) (k : Nat) : AllBytes (c.take k) := fun x hx => h x (List.mem_of_mem_take hx)
theorem allBytes_content (a : ABuf) : AllBytes a.content := content_lt a

theorem bytesBits_replicate_zero (n : Nat) : ABuf.bytesBits (List.replicate n 0) = Bits.zeros (8 * n) := by
  induction n with
  | zero => rfl
  | succ n ih =>
    rw [List.replicate_succ, bytesBits_cons, ih]
    have : Bits.ofNat 8 0 = Bits.zeros 8 := by decide
    rw [this]
    simp only [Bits.zeros, List.replicate_append_replicate]
    congr 1; omega

theorem bytesBits_drop (c : List Nat) (k : Nat) : ABuf.bytesBits (c.drop k) = (ABuf.bytesBits c).drop (8 * k) := by
  induction c generalizing k with
  | nil => simp [ABuf.bytesBits]
  | cons b bs ih =>
    cases k with
    | zero => simp
    | succ k =>
      rw [List.drop_succ_cons, ih, bytesBits_cons, List.drop_append, ofNat_length]
      have e1 : List.drop (8 * (k + 1)) (Bits.ofNat 8 b) = [] := List.drop_of_length_le (by simp; omega)
      have e2 : 8 * (k + 1) - 8 = 8 * k := by omega
      rw [e1, e2, List.nil_append]

theorem bytesBits_take (c : List Nat) (k : Nat) : ABuf.bytesBits (c.take k) = (ABuf.bytesBits c).take (8 * k) := by
  induction c generalizing k with
  | nil => simp [ABuf.bytesBits]
  | cons b bs ih =>
    cases k with
    | zero => simp [ABuf.bytesBits]
    | succ k =>
      rw [List.take_succ_cons, bytesBits_cons, bytesBits_cons, ih, List.take_append, ofNat_length]
      have e1 : List.take (8 * (k + 1)) (Bits.ofNat 8 b) = Bits.ofNat 8 b := List.take_of_length_le (by simp; omega)
      have e2 : 8 * (k + 1) - 8 = 8 * k := by omega
      rw [e1, e2]

/-- masking the first byte of a byte string with `0xff >> pl` zeroes its first `pl` bits -/
theorem mask_first (c0 : Nat) (rest : List Nat) (pl : Nat) (hpl : pl ≤ 8) :
    ABuf.bytesBits ((c0 &&& ((0xff >>> pl) &&& 0xff)) :: rest) = Bits.zeros pl ++ (ABuf.bytesBits (c0 :: rest)).drop pl := by
  rw [bytesBits_cons, bytesBits_cons, List.drop_append_of_le_length (by simp; omega), ← List.append_assoc]
  congr 1
  apply List.ext_getElem
  · simp [zeros_length]; omega
  · intro i h1 h2
    simp only [ofNat_length] at h1
    simp only [Bits.ofNat, List.getElem_map, List.getElem_range, List.getElem_append, Bits.zeros, List.length_replicate,
      List.getElem_replicate, List.getElem_drop, Nat.testBit_and]
    have hm1 : (255 >>> pl).testBit (8 - 1 - i) = decide (pl ≤ i) := by
      rw [Nat.testBit_shiftRight, show (255 : Nat) = 2 ^ 8 - 1 by rfl, Nat.testBit_two_pow_sub_one]
      by_cases hi : pl ≤ i <;> simp [hi] <;> omega
    have hm2 : Nat.testBit 255 (8 - 1 - i) = true := by
      rw [show (255 : Nat) = 2 ^ 8 - 1 by rfl, Nat.testBit_two_pow_sub_one]; simp; omega
    rw [hm1, hm2, Bool.and_true]
    by_cases hi : i < pl
    · have : ¬ pl ≤ i := by omega
      simp [hi, this]
    · have : pl ≤ i := by omega
      simp only [hi, this, decide_true, Bool.and_true, dite_false]
      congr 1; omega

/-- masking the last byte with `0xff << pl` zeroes its last `pl` bits -/
theorem mask_last_byte (cl pl : Nat) (hpl : pl ≤ 8) :
    Bits.ofNat 8 (cl &&& ((0xff <<< pl) &&& 0xff)) = (Bits.ofNat 8 cl).take (8 - pl) ++ Bits.zeros pl := by
  apply List.ext_getElem
  · simp [zeros_length]; omega
  · intro i h1 h2
    simp only [ofNat_length] at h1
    simp only [Bits.ofNat, List.getElem_map, List.getElem_range, List.getElem_append, Bits.zeros, List.length_take, List.length_map,
      List.length_range, List.getElem_replicate, List.getElem_take, Nat.testBit_and]
    have hm1 : (255 <<< pl).testBit (8 - 1 - i) = decide (i < 8 - pl) := by
      rw [Nat.testBit_shiftLeft, show (255 : Nat) = 2 ^ 8 - 1 by rfl, Nat.testBit_two_pow_sub_one]
      by_cases hi : i < 8 - pl <;> simp [hi] <;> omega
    have hm2 : Nat.testBit 255 (8 - 1 - i) = true := by
      rw [show (255 : Nat) = 2 ^ 8 - 1 by rfl, Nat.testBit_two_pow_sub_one]; simp; omega
    rw [hm1, hm2, Bool.and_true]
    by_cases hi : i < min (8 - pl) 8
    · have : i < 8 - pl := by omega
      simp [hi, this]
    · have : ¬ i < 8 - pl := by omega
      simp [hi, this]

end Schc
