/- C08: next-protocol prediction agrees with the explicit stacks. -/
import Schc.Proofs.Tiling

namespace Schc

theorem from_from (b : ABuf) (i j : Nat) : (b.from_ i).from_ j = b.from_ (i + j) := by
  simp [ABuf.from_, List.drop_drop]

theorem parserName_udp : parserName 17 = some "UDPParser" := by decide
theorem parserName_coap : parserName 5683 = some "CoAPParser" := by decide

/-- UDP with prediction on a datagram to the CoAP port = UDP without prediction followed by the CoAP parser -/
theorem udp_predict_coap (fuel : Nat) (b : ABuf) (hu : Header) (hc : Header)
    (h1 : udpParse fuel false b = .ok hu)
    (hport : (fieldValue hu.fields Gen.UDPF.DESTINATION_PORT).value = 5683)
    (h2 : coapParse .syntactic fuel (b.from_ hu.length) = .ok hc) :
    udpParse fuel true b = .ok ⟨hu.length + hc.length, hu.fields ++ hc.fields⟩ := by
  unfold udpParse at h1 ⊢
  by_cases hmin : b.length < Gen.udpMinLength
  · simp [hmin, throw, throwThe, MonadExceptOf.throw, bind, Except.bind] at h1
  · simp only [hmin, if_false, bind, Except.bind, pure, Except.pure, Bool.false_eq_true, Except.ok.injEq] at h1 ⊢
    subst h1
    simp only at hport h2
    have hin : Gen.udpNextProtocols.contains 5683 = true := by decide
    simp only [if_true, hport, hin, nextFromUdp, parserName_coap, h2]

/-- an IP parser with prediction on a packet carrying UDP to the CoAP port = the explicit IP / UDP / CoAP stack -/
theorem ip_predict_agrees (layout : Layout) (minLen hdrLen : Nat) (version : List Nat) (nextField : String) (nexts : List Nat)
    (hn : nexts.contains 17 = true) (fuel : Nat) (b : ABuf) (hi hu hc : Header)
    (h0 : ipParse layout minLen hdrLen version nextField nexts fuel false b = .ok hi)
    (hproto : (fieldValue hi.fields nextField).value = 17)
    (h1 : udpParse fuel false (b.from_ hi.length) = .ok hu)
    (hport : (fieldValue hu.fields Gen.UDPF.DESTINATION_PORT).value = 5683)
    (h2 : coapParse .syntactic fuel ((b.from_ hi.length).from_ hu.length) = .ok hc) :
    ipParse layout minLen hdrLen version nextField nexts fuel true b =
      .ok ⟨hi.length + (hu.length + hc.length), hi.fields ++ (hu.fields ++ hc.fields)⟩ := by
  have hup := udp_predict_coap fuel (b.from_ hi.length) hu hc h1 hport h2
  unfold ipParse at h0 ⊢
  by_cases hmin : b.length < minLen
  · simp [hmin, throw, throwThe, MonadExceptOf.throw, bind, Except.bind] at h0
  · by_cases hv : (b.slice 0 4).content ≠ version
    · simp [hmin, hv, throw, throwThe, MonadExceptOf.throw, bind, Except.bind] at h0
    · simp only [hmin, hv, if_false, bind, Except.bind, pure, Except.pure, Bool.false_eq_true, Except.ok.injEq] at h0 ⊢
      subst h0
      simp only at hproto hup
      simp only [if_true, hproto, hn, nextFromIp, parserName_udp, hup]

/-- `PacketParser.parse` with the explicit three-parser stack and with the single predicting IP parser return the
    same packet descriptor -/
theorem stack_agrees (ipcls : String) (hcls : ipcls = "IPv6Parser" ∨ ipcls = "IPv4Parser") (fuel : Nat) (b : ABuf) (p : Packet)
    (hexp : packetParse fuel [⟨ipcls, false, .syntactic⟩, ⟨"UDPParser", false, .syntactic⟩, ⟨"CoAPParser", false, .syntactic⟩] b = .ok p)
    (hproto : ∀ hi, runParser fuel ⟨ipcls, false, .syntactic⟩ b = .ok hi →
      (fieldValue hi.fields (if ipcls = "IPv6Parser" then Gen.IPv6F.NEXT_HEADER else Gen.IPv4F.PROTOCOL)).value = 17)
    (hport : ∀ hi hu, runParser fuel ⟨ipcls, false, .syntactic⟩ b = .ok hi → udpParse fuel false (b.from_ hi.length) = .ok hu →
      (fieldValue hu.fields Gen.UDPF.DESTINATION_PORT).value = 5683) :
    packetParse fuel [⟨ipcls, true, .syntactic⟩] b = .ok p := by
  unfold packetParse at hexp ⊢
  simp only [packetParse.go, bind, Except.bind] at hexp ⊢
  cases h0 : runParser fuel ⟨ipcls, false, .syntactic⟩ b with
  | error e => simp [h0] at hexp
  | ok hi =>
    simp only [h0] at hexp
    have hu0 : runParser fuel ⟨"UDPParser", false, .syntactic⟩ (b.from_ hi.length) = udpParse fuel false (b.from_ hi.length) := by
      simp [runParser]
    cases h1 : udpParse fuel false (b.from_ hi.length) with
    | error e => rw [hu0, h1] at hexp; simp at hexp
    | ok hu =>
      rw [hu0, h1] at hexp
      simp only at hexp
      have hc0 : runParser fuel ⟨"CoAPParser", false, .syntactic⟩ ((b.from_ hi.length).from_ hu.length) =
          coapParse .syntactic fuel ((b.from_ hi.length).from_ hu.length) := by simp [runParser]
      cases h2 : coapParse .syntactic fuel ((b.from_ hi.length).from_ hu.length) with
      | error e => rw [hc0, h2] at hexp; simp at hexp
      | ok hc =>
        rw [hc0, h2] at hexp
        simp only [pure, Except.pure, Except.ok.injEq] at hexp
        have hpr := hproto hi h0
        have hpo := hport hi hu h0 h1
        have hpred : runParser fuel ⟨ipcls, true, .syntactic⟩ b =
            .ok ⟨hi.length + (hu.length + hc.length), hi.fields ++ (hu.fields ++ hc.fields)⟩ := by
          rcases hcls with e | e <;> subst e
          · simp only [runParser, show ("IPv6Parser" == "IPv4Parser") = false by decide, show ("IPv6Parser" == "IPv6Parser") = true by decide,
              Bool.false_eq_true, if_false, if_true] at h0 ⊢
            simp only [if_true] at hpr
            exact ip_predict_agrees _ _ _ _ _ _ (by decide) fuel b hi hu hc h0 hpr h1 hpo h2
          · simp only [runParser, show ("IPv4Parser" == "IPv4Parser") = true by decide, if_true] at h0 ⊢
            simp only [show ¬ ("IPv4Parser" = "IPv6Parser") by decide, if_false] at hpr
            exact ip_predict_agrees _ _ _ _ _ _ (by decide) fuel b hi hu hc h0 hpr h1 hpo h2
        rw [hpred]
        simp only [pure, Except.pure, Except.ok.injEq]
        rw [← hexp]
        simp [from_from, Nat.add_assoc, List.append_assoc]

end Schc
