/- The canonical byte content of an abstract buffer and its inverse (used by C02, C12). -/
import Schc.Proofs.Len

namespace Schc
open Bits

theorem packBytes_length (n : Nat) (x : Bits) : (ABuf.packBytes n x).length = n := by
  induction n generalizing x with
  | zero => rfl
  | succ n ih => simp [ABuf.packBytes, ih]

theorem bytesBits_packBytes (n : Nat) (x : Bits) (h : x.length = 8 * n) : ABuf.bytesBits (ABuf.packBytes n x) = x := by
  induction n generalizing x with
  | zero => simp at h; subst h; rfl
  | succ n ih =>
    simp only [ABuf.packBytes, bytesBits_cons]
    have h8 : (x.take 8).length = 8 := by simp; omega
    have := ofNat_toNat (x.take 8)
    rw [h8] at this
    rw [this, ih (x.drop 8) (by simp; omega), List.take_append_drop]

theorem bytesBits_append (a b : List Nat) : ABuf.bytesBits (a ++ b) = ABuf.bytesBits a ++ ABuf.bytesBits b := by
  simp [ABuf.bytesBits]

theorem padLen_add (n : Nat) : (n + padLenOf n) % 8 = 0 := by unfold padLenOf; omega
theorem padLen_lt (n : Nat) : padLenOf n < 8 := by unfold padLenOf; omega

theorem zeros_length (n : Nat) : (Bits.zeros n).length = n := by simp [Bits.zeros]

/-- the bits a canonical content spells: padding zeros on its side, then / before the bits -/
theorem bytesBits_content (b : ABuf) :
    ABuf.bytesBits b.content = match b.side with
      | .left => Bits.zeros (padLenOf b.bits.length) ++ b.bits
      | .right => b.bits ++ Bits.zeros (padLenOf b.bits.length) := by
  unfold ABuf.content
  have hp := padLen_add b.bits.length
  cases hs : b.side <;> simp only [] <;> apply bytesBits_packBytes <;> simp [zeros_length] <;> omega

/-- loading what was dumped gives the buffer back: `Buffer(b.content, b.length, b.padding) = b` -/
theorem ofBytes_content (b : ABuf) : ABuf.ofBytes b.content b.length b.side = b := by
  have hc := bytesBits_content b
  obtain ⟨bits, side⟩ := b
  cases side <;> simp only [ABuf.ofBytes, ABuf.length] at * <;> rw [hc]
  · simp [zeros_length, Bits.zeros]
  · simp [zeros_length, Bits.zeros]

end Schc
