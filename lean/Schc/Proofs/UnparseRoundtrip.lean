/-
Round trip through the un-parsing path, for any unparser: compress, then `decompress(…, unparser=ps)` returns the
concatenation of whatever `PacketParser.unparse` makes of the parsed fields followed by the payload.
-/
import Schc.Proofs.Unparse
import Schc.Proofs.Roundtrip
import Schc.Proofs.Pairs

namespace Schc

/-! ### round trip through the un-parsing path -/

theorem strip_assemble (pfs : List Field) (rfs : List RuleField) (hl : pfs.length = rfs.length) (hm : Spec.allMatch pfs rfs = true) :
    strip (assemble rfs (pfs.map (·.value.bits))) = strip (pairs pfs) := by
  induction pfs generalizing rfs with
  | nil =>
    cases rfs with
    | nil => rfl
    | cons _ _ => simp at hl
  | cons pf pfs ih =>
    cases rfs with
    | nil => simp at hl
    | cons rf rfs =>
      simp only [Spec.allMatch, Bool.and_eq_true] at hm
      have hid : rf.id = pf.id := by
        have := hm.1
        unfold Spec.fieldMatches at this
        simp only [Bool.and_eq_true, beq_iff_eq] at this
        exact this.1.symm
      simp only [List.map_cons, assemble, strip_cons, pairs, hid, List.cons.injEq, true_and]
      exact ih rfs (by simpa using hl) hm.2

/-- compress, then decompress with an unparser: whatever `PacketParser.unparse` makes of the parsed fields followed by
    the payload, its concatenation comes back (rules whose descriptors are lossless pairings that fit; no compute) -/
theorem roundtrip_unparser (p : Packet) (r : Rule) (hn : r.nature = .compression)
    (hdir : ∀ rf ∈ r.fields, Spec.dirApplies p.dir rf.dir = true)
    (happ : Spec.applicable p r = true) (hfit : AllFits p.fields r.fields)
    (ps : List ParserInst) (target : Compute.Fields)
    (hun : packetUnparse ps (pairs p.fields ++ [(Gen.payloadId, p.payload)]) = .ok target) :
    ∃ c, compress p r = .ok c ∧ decompressU c r (some ps) none = .ok ⟨(strip target).flatMap (·.2), .right⟩ := by
  unfold Spec.applicable at happ
  rw [hn] at happ
  have hfilter : r.fields.filter (fun f => Spec.dirApplies p.dir f.dir) = r.fields := by
    rw [List.filter_eq_self]; exact hdir
  simp only [hfilter, Bool.and_eq_true, beq_iff_eq] at happ
  obtain ⟨hl, hm⟩ := happ
  obtain ⟨hadm, hok, _, hnc⟩ := all_of_match p.fields r.fields hl hm hfit
  obtain ⟨rs, h1, h2⟩ := compressFields_spec p.fields r.fields ((ABuf.empty .right).add r.id) hok
  obtain ⟨res, h3, h4⟩ := decompressU_nocompute r (p.fields.map (·.value.bits)) hadm hnc p.payload.bits .right ps
  have hres : rs = res := by
    rw [residues_eq _ _ hl] at h1; rw [h1] at h3; exact Option.some.inj h3
  refine ⟨⟨r.id.bits ++ rs ++ p.payload.bits, .right⟩, ?_, ?_⟩
  · unfold compress
    simp only [hn, h2, bind, Except.bind, pure, Except.pure]
    simp [ABuf.add, ABuf.empty]
  · rw [hres, h4]
    have hs : strip (assemble r.fields (p.fields.map (·.value.bits)) ++ [(Gen.payloadId, (⟨p.payload.bits, .right⟩ : ABuf))]) =
        strip (pairs p.fields ++ [(Gen.payloadId, p.payload)]) := by
      simp only [strip_append, strip_assemble p.fields r.fields hl hm, strip_cons, strip_nil]
    have hc := packetUnparse_strip ps _ _ hs
    rw [hun] at hc
    cases hu : packetUnparse ps (assemble r.fields (p.fields.map (·.value.bits)) ++ [(Gen.payloadId, (⟨p.payload.bits, .right⟩ : ABuf))]) with
    | error e => rw [hu] at hc; simp [Except.map] at hc
    | ok t =>
      rw [hu] at hc
      simp only [Except.map, Except.ok.injEq] at hc
      simp only [Except.map, Except.ok.injEq]
      have hb := fold_strip t
      rw [hc] at hb
      rw [foldl_add_fields] at hb ⊢
      simp only [ABuf.empty, List.nil_append] at hb ⊢
      rw [hb]

end Schc
