/-
`list.sort(key=cmp_to_key(compute_function_sort))`, whatever algorithm implements it, returns a permutation of the
entries that is sorted for the comparator. Where the comparator orders the entries consistently (`orderedB`), there is
exactly one such permutation, and it is what the model's insertion sort returns.
-/
import Schc.Py.Order
import Schc.Proofs.Decompress2

namespace Schc

def entryLt (a b : ComputeEntry) : Prop := computeCmp a b < 0

theorem ltB_iff (a b : ComputeEntry) : ltB a b = true ↔ entryLt a b := by simp [ltB, entryLt]

/-- the comparator is a strict total order on the entries of `l` (told apart by their positions) -/
structure OrderedBy (l : List ComputeEntry) : Prop where
  asymm : ∀ a ∈ l, ∀ b ∈ l, entryLt a b → ¬ entryLt b a
  total : ∀ a ∈ l, ∀ b ∈ l, a.pos ≠ b.pos → entryLt a b ∨ entryLt b a
  trans : ∀ a ∈ l, ∀ b ∈ l, ∀ c ∈ l, entryLt a b → entryLt b c → entryLt a c

theorem orderedB_sound (l : List ComputeEntry) (h : orderedB l = true) : OrderedBy l := by
  simp only [orderedB, List.all_eq_true, Bool.and_eq_true, Bool.or_eq_true, Bool.not_eq_true', beq_iff_eq,
    Bool.and_eq_false_iff, ltB_iff, Bool.not_eq_eq_eq_not, Bool.not_true] at h
  refine ⟨?_, ?_, ?_⟩
  · intro a ha b hb hab hba
    have := (h a ha b hb).1.2
    rcases this with g | g
    · rw [← Bool.not_eq_true, ltB_iff] at g; exact g hab
    · rw [← Bool.not_eq_true, ltB_iff] at g; exact g hba
  · intro a ha b hb hne
    rcases (h a ha b hb).1.1 with (g | g) | g
    · exact absurd g hne
    · exact Or.inl g
    · exact Or.inr g
  · intro a ha b hb c hc hab hbc
    rcases (h a ha b hb).2 c hc with (g | g) | g
    · rw [← Bool.not_eq_true, ltB_iff] at g; exact absurd hab g
    · rw [← Bool.not_eq_true, ltB_iff] at g; exact absurd hbc g
    · exact g

theorem insertEntry_perm (e : ComputeEntry) (l : List ComputeEntry) : (insertEntry e l).Perm (e :: l) := by
  induction l with
  | nil => exact List.Perm.refl _
  | cons x xs ih =>
    unfold insertEntry
    split
    · exact List.Perm.refl _
    · exact (List.Perm.cons x ih).trans (List.Perm.swap e x xs)

theorem foldl_insert_perm (rest acc : List ComputeEntry) :
    (rest.foldl (fun acc e => insertEntry e acc) acc).Perm (rest ++ acc) := by
  induction rest generalizing acc with
  | nil => exact List.Perm.refl _
  | cons e rest ih =>
    simp only [List.foldl_cons, List.cons_append]
    exact (ih _).trans ((List.Perm.append_left rest (insertEntry_perm e acc)).trans List.perm_middle)

theorem sortEntries_perm (l : List ComputeEntry) : (sortEntries l).Perm l := by
  have := foldl_insert_perm l []
  simpa [sortEntries] using this

theorem insertEntry_sorted (u : List ComputeEntry) (hu : OrderedBy u) (e : ComputeEntry) (he : e ∈ u) (l : List ComputeEntry)
    (hl : ∀ x ∈ l, x ∈ u) (hne : ∀ x ∈ l, e.pos ≠ x.pos) (hs : l.Pairwise entryLt) : (insertEntry e l).Pairwise entryLt := by
  induction l with
  | nil => simp [insertEntry]
  | cons x xs ih =>
    have hx : x ∈ u := hl x List.mem_cons_self
    rw [List.pairwise_cons] at hs
    unfold insertEntry
    split
    · rename_i hlt
      rw [List.pairwise_cons]
      refine ⟨?_, List.pairwise_cons.mpr hs⟩
      intro y hy
      rcases List.mem_cons.mp hy with rfl | hy
      · exact hlt
      · exact hu.trans e he x hx y (hl y (List.mem_cons_of_mem _ hy)) hlt (hs.1 y hy)
    · rename_i hnlt
      rw [List.pairwise_cons]
      refine ⟨?_, ih (fun y hy => hl y (List.mem_cons_of_mem _ hy)) (fun y hy => hne y (List.mem_cons_of_mem _ hy)) hs.2⟩
      intro y hy
      rcases List.mem_cons.mp ((insertEntry_perm e xs).subset hy) with rfl | hy
      · rcases hu.total y he x hx (hne x List.mem_cons_self) with g | g
        · exact absurd g hnlt
        · exact g
      · exact hs.1 y hy

theorem foldl_insert_sorted (u : List ComputeEntry) (hu : OrderedBy u) (rest acc : List ComputeEntry)
    (hr : ∀ x ∈ rest, x ∈ u) (ha : ∀ x ∈ acc, x ∈ u) (nd : ((rest ++ acc).map (·.pos)).Nodup) (hs : acc.Pairwise entryLt) :
    (rest.foldl (fun acc e => insertEntry e acc) acc).Pairwise entryLt := by
  induction rest generalizing acc with
  | nil => exact hs
  | cons e rest ih =>
    simp only [List.foldl_cons]
    have he : e ∈ u := hr e List.mem_cons_self
    simp only [List.cons_append, List.map_cons, List.nodup_cons, List.map_append, List.mem_append, List.mem_map, not_or,
      not_exists, not_and] at nd
    apply ih
    · intro x hx; exact hr x (List.mem_cons_of_mem _ hx)
    · intro x hx
      rcases List.mem_cons.mp ((insertEntry_perm e acc).subset hx) with rfl | hx
      · exact he
      · exact ha x hx
    · have hp : ((rest ++ insertEntry e acc).map (·.pos)).Perm ((e :: (rest ++ acc)).map (·.pos)) :=
        ((List.Perm.append_left rest (insertEntry_perm e acc)).trans List.perm_middle).map _
      refine hp.symm.nodup ?_
      simp only [List.map_cons, List.nodup_cons, List.map_append, List.mem_append, List.mem_map, not_or, not_exists, not_and]
      exact nd
    · exact insertEntry_sorted u hu e he acc ha (fun x hx h => nd.1.2 x hx h.symm) hs

theorem sortEntries_sorted (l : List ComputeEntry) (h : OrderedBy l) (nd : (l.map (·.pos)).Nodup) :
    (sortEntries l).Pairwise entryLt := by
  unfold sortEntries
  exact foldl_insert_sorted l h l [] (fun _ hx => hx) (by simp) (by simpa using nd) List.Pairwise.nil

/-- ANY sorted permutation of the entries is the list the model's insertion sort returns -/
theorem sort_unique (l : List ComputeEntry) (h : OrderedBy l) (nd : (l.map (·.pos)).Nodup) (p : List ComputeEntry)
    (hp : p.Perm l) (hs : p.Pairwise entryLt) : p = sortEntries l := by
  refine List.Perm.eq_of_pairwise (le := entryLt) ?_ hs (sortEntries_sorted l h nd) (hp.trans (sortEntries_perm l).symm)
  intro a b ha hb hab hba
  exact absurd hba (h.asymm a (hp.subset ha) b ((sortEntries_perm l).subset hb) hab)

theorem entriesOf_eq (rfs : List RuleField) (pos : Nat) : entriesOf rfs pos = computeEntries rfs pos := by
  induction rfs generalizing pos with
  | nil => rfl
  | cons rf rfs ih => simp only [entriesOf, computeEntries, ih]

theorem computeEntries_pos_ge (rfs : List RuleField) (pos : Nat) : ∀ e ∈ computeEntries rfs pos, pos ≤ e.pos := by
  induction rfs generalizing pos with
  | nil => simp [computeEntries]
  | cons rf rfs ih =>
    intro e he
    unfold computeEntries at he
    split at he
    · rcases List.mem_cons.mp he with rfl | he
      · exact Nat.le_refl _
      · exact Nat.le_of_succ_le (ih _ e he)
    · exact Nat.le_of_succ_le (ih _ e he)

theorem computeEntries_nodup (rfs : List RuleField) (pos : Nat) : ((computeEntries rfs pos).map (·.pos)).Nodup := by
  induction rfs generalizing pos with
  | nil => simp [computeEntries]
  | cons rf rfs ih =>
    unfold computeEntries
    split
    · simp only [List.map_cons, List.nodup_cons, List.mem_map, not_exists, not_and]
      refine ⟨?_, ih _⟩
      intro e he heq
      have := computeEntries_pos_ge rfs (pos + 1) e he
      omega
    · exact ih _

end Schc
