/- C05: copy and iteration on canonical Buffers. -/
import Schc.Proofs.BufNew
import Schc.Proofs.Coap

namespace Schc
open Bits

theorem copy_spec (a : ABuf) : (Buf.ofABuf a).copy = .ok (Buf.ofABuf a) := by
  unfold Buf.copy
  simp only [Buf.ofABuf]
  rw [new_spec a.content a.length a.side (allBytes_content a), ofBytes_content]
  rfl

theorem bytesBits_getElem (c : List Nat) (k : Nat) (hk : k < (ABuf.bytesBits c).length) (hk8 : k / 8 < c.length) :
    (ABuf.bytesBits c)[k] = (c[k / 8]).testBit (7 - k % 8) := by
  induction c generalizing k with
  | nil => simp at hk8
  | cons b bs ih =>
    simp only [bytesBits_cons]
    by_cases h8 : k < 8
    · rw [List.getElem_append_left (by simpa using h8)]
      have e : k / 8 = 0 := by omega
      simp only [e, List.getElem_cons_zero, Bits.ofNat, List.getElem_map, List.getElem_range]
      congr 1; omega
    · rw [List.getElem_append_right (by simp; omega)]
      simp only [ofNat_length]
      have hk' : k - 8 < (ABuf.bytesBits bs).length := by simp only [bytesBits_cons, List.length_append, ofNat_length] at hk; omega
      have hk8' : (k - 8) / 8 < bs.length := by simp only [List.length_cons] at hk8; omega
      rw [ih (k - 8) hk' hk8']
      have e1 : k / 8 = (k - 8) / 8 + 1 := by omega
      have e2 : (k - 8) % 8 = k % 8 := by omega
      simp only [e1, List.getElem_cons_succ, e2]

theorem bit_extract (byte j : Nat) : (byte &&& 2 ^ j) >>> j = if byte.testBit j then 1 else 0 := by
  rw [Nat.shiftRight_and_distrib, Nat.shiftRight_eq_div_pow (2 ^ j), Nat.div_self (Nat.pow_pos (by decide)), Nat.and_one_is_mod,
    Nat.shiftRight_eq_div_pow, ← Nat.toNat_testBit]
  cases byte.testBit j <;> rfl

theorem mapM_range_ok {α} (n : Nat) (f : Nat → Py α) (g : Nat → α) (h : ∀ i < n, f i = .ok (g i)) :
    (List.range n).mapM f = .ok ((List.range n).map g) := by
  have gen : ∀ (l : List Nat), (∀ i ∈ l, i < n) → l.mapM f = .ok (l.map g) := by
    intro l
    induction l with
    | nil => intro _; rfl
    | cons x xs ih =>
      intro hl
      simp only [List.mapM_cons, h x (hl x (by simp)), bind, Except.bind, ih (fun i hi => hl i (List.mem_cons_of_mem _ hi)),
        pure, Except.pure, List.map_cons]
  exact gen _ (fun i hi => List.mem_range.mp hi)

def bitNat (b : Bool) : Nat := if b then 1 else 0

theorem bytesBits_getElem? (c : List Nat) (k : Nat) (hk8 : k / 8 < c.length) :
    (ABuf.bytesBits c)[k]? = some ((c[k / 8]).testBit (7 - k % 8)) := by
  have hk : k < (ABuf.bytesBits c).length := by rw [bytesBits_length]; omega
  rw [List.getElem?_eq_getElem hk, bytesBits_getElem c k hk hk8]

theorem iter_core (c : List Nat) (n off : Nat) (bits : Bits) (hn : bits.length = n) (hlen : n + off ≤ 8 * c.length)
    (hbit : ∀ i, i < n → (ABuf.bytesBits c)[i + off]? = bits[i]?) :
    (List.range n).mapM (fun i => (do
      let byte ← idx c ((i + off) / 8)
      pure ((byte &&& 2 ^ (8 - (i + off) % 8 - 1)) >>> (8 - (i + off) % 8 - 1)) : Py Nat)) = .ok (bits.map bitNat) := by
  rw [mapM_range_ok n _ (fun i => bitNat (bits[i]!))]
  · congr 1
    apply List.ext_getElem
    · simp [hn]
    · intro i h1 h2
      simp only [List.length_map, List.length_range] at h1
      simp [h1, hn]
  · intro i hi
    have hk8 : (i + off) / 8 < c.length := by omega
    have hidx : idx c ((i + off) / 8) = .ok (c[(i + off) / 8]) := by
      unfold idx; rw [List.getElem?_eq_getElem hk8]; rfl
    rw [hidx]
    simp only [bind, Except.bind, pure, Except.pure]
    congr 1
    have e7 : 8 - (i + off) % 8 - 1 = 7 - (i + off) % 8 := by omega
    rw [e7, bit_extract]
    have h1 := bytesBits_getElem? c (i + off) hk8
    rw [hbit i hi] at h1
    have hi' : i < bits.length := by omega
    rw [List.getElem?_eq_getElem hi'] at h1
    have h2 : bits[i]! = bits[i] := by simp [hi']
    rw [h2]
    unfold bitNat
    rw [Option.some.inj h1]

/-- iterating a canonical Buffer yields its bits, in order, for either padding side -/
theorem iter_spec (a : ABuf) : (Buf.ofABuf a).iter = .ok (a.bits.map bitNat) := by
  have hcb := bytesBits_content a
  have hcl := content_length a
  have hpa := padLen_add a.bits.length
  obtain ⟨bits, side⟩ := a
  unfold Buf.iter
  cases side <;> simp only [Buf.ofABuf, ABuf.length] at hcb hcl hpa ⊢
  · apply iter_core _ _ _ _ rfl (by rw [hcl]; omega)
    intro i hi
    rw [hcb, List.getElem?_append_right (by simp [zeros_length])]
    simp [zeros_length]
  · apply iter_core _ _ _ _ rfl (by rw [hcl]; omega)
    intro i hi
    rw [hcb, Nat.add_zero, List.getElem?_append_left hi]

end Schc
