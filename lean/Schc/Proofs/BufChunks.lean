/- C06: `chunks` on canonical Buffers. -/
import Schc.Proofs.BufAdd

namespace Schc
open Bits

/-- number of chunks the library computes (`ceil(len / n)`) -/
def chunkCount (L n : Nat) : Nat := if L % n = 0 then L / n else L / n + 1

def padIf (n : Nat) (pad : Bool) (x : Bits) : Bits := if pad then x ++ Bits.zeros (n - x.length) else x

theorem chunkCount_small (L n : Nat) (h : L ≤ n) : chunkCount L n - 1 = 0 := by
  unfold chunkCount
  by_cases hL : L = n
  · subst hL
    by_cases h0 : L = 0
    · subst h0; simp
    · simp [Nat.div_self (Nat.pos_of_ne_zero h0)]
  · have : L / n = 0 := Nat.div_eq_of_lt (by omega)
    rw [this]; split <;> rfl

theorem chunkCount_step (L n : Nat) (hn : 0 < n) (h : n < L) : chunkCount L n = chunkCount (L - n) n + 1 ∧ 1 ≤ chunkCount (L - n) n := by
  unfold chunkCount
  have e : L = (L - n) + n := by omega
  have h1 : L % n = (L - n) % n := by conv => lhs; rw [e, Nat.add_mod_right]
  have h2 : L / n = (L - n) / n + 1 := by conv => lhs; rw [e, Nat.add_div_right _ hn]
  rw [h1, h2]
  constructor
  · split <;> rfl
  · split
    · rename_i h0
      have := Nat.div_add_mod (L - n) n
      rw [h0, Nat.add_zero] at this
      rcases Nat.eq_zero_or_pos ((L - n) / n) with hz | hz
      · rw [hz, Nat.mul_zero] at this; omega
      · exact hz
    · exact Nat.le_add_left 1 _

/-- closed form of the chunk specification: `count - 1` full pieces and the (possibly padded) remainder -/
theorem chunksAux_closed (n : Nat) (pad : Bool) (hn : 0 < n) (fuel : Nat) (b : Bits) (hf : b.length ≤ fuel) :
    Bits.chunksAux n pad fuel b =
      (List.range (chunkCount b.length n - 1)).map (fun i => (b.drop (i * n)).take n) ++
        [padIf n pad (b.drop ((chunkCount b.length n - 1) * n))] := by
  induction fuel generalizing b with
  | zero =>
    have : b = [] := List.eq_nil_of_length_eq_zero (by omega)
    subst this
    simp [Bits.chunksAux, chunkCount, padIf]
  | succ fuel ih =>
    unfold Bits.chunksAux
    by_cases hs : b.length ≤ n
    · simp only [hs, if_true, chunkCount_small _ _ hs, List.range_zero, List.map_nil, List.nil_append, Nat.zero_mul, List.drop_zero, padIf]
    · simp only [hs, if_false]
      obtain ⟨c1, c2⟩ := chunkCount_step b.length n hn (by omega)
      rw [ih (b.drop n) (by simp; omega)]
      simp only [List.length_drop]
      rw [c1, Nat.add_sub_cancel]
      have hr : chunkCount (b.length - n) n = (chunkCount (b.length - n) n - 1) + 1 := by omega
      conv => rhs; rw [hr, List.range_succ_eq_map, List.map_cons, List.map_map]
      simp only [Nat.zero_mul, List.drop_zero, List.cons_append, List.drop_drop]
      congr 1
      congr 1
      · apply List.map_congr_left
        intro i _
        simp only [Function.comp, Nat.succ_eq_add_one, Nat.add_mul, Nat.one_mul]
        congr 2; omega
      · congr 3
        rw [Nat.add_mul, Nat.one_mul]; omega

theorem chunkCount_bounds (L n : Nat) (hn : 0 < n) (hL : 0 < L) : (chunkCount L n - 1) * n < L ∧ L ≤ (chunkCount L n - 1) * n + n := by
  unfold chunkCount
  have hd := Nat.div_add_mod L n
  have hm := Nat.mod_lt L hn
  split
  · rename_i h0
    rw [h0, Nat.add_zero] at hd
    have hq : 0 < L / n := by
      rcases Nat.eq_zero_or_pos (L / n) with hz | hz
      · rw [hz, Nat.mul_zero] at hd; omega
      · exact hz
    have e : (L / n - 1) * n + n = L := by
      rw [← Nat.succ_mul]; have : (L / n - 1).succ = L / n := by omega
      rw [this, Nat.mul_comm]; exact hd
    omega
  · rw [Nat.add_sub_cancel, Nat.mul_comm]
    omega

end Schc

namespace Schc
open Bits

theorem ofBytes_zeros_right (m k : Nat) : ABuf.ofBytes (List.replicate m 0) k .right = ⟨Bits.zeros k, .right⟩ := by
  simp only [ABuf.ofBytes, bytesBits_replicate_zero, zeros_add]
  simp [Bits.zeros, List.take_replicate]
  omega

/-- `chunks(n, padding)` on a canonical Buffer: consecutive `n`-bit pieces whose concatenation is the Buffer; with
    `padding` the last piece is zero-extended to `n` bits -/
theorem chunks_spec (a : ABuf) (n : Nat) (hn : 0 < n) (pad : Bool) :
    Buf.chunks (Buf.ofABuf a) n pad = .ok ((a.chunks n pad).map Buf.ofABuf) := by
  obtain ⟨A, side⟩ := a
  unfold Buf.chunks
  have hn0 : ¬ (n = 0) := by omega
  have hl : (Buf.ofABuf ⟨A, side⟩).length = A.length := rfl
  simp only [hn0, if_false, hl, bind, Except.bind]
  have hcc : (if A.length % n = 0 then A.length / n else A.length / n + 1) = chunkCount A.length n := rfl
  rw [hcc]
  generalize hcnt : chunkCount A.length n = cnt
  have hb : (cnt - 1) * n ≤ A.length ∧ A.length ≤ (cnt - 1) * n + n := by
    rcases Nat.eq_zero_or_pos A.length with hz | hp
    · have : cnt - 1 = 0 := by rw [← hcnt]; exact chunkCount_small _ _ (by omega)
      rw [this, hz]; omega
    · have := chunkCount_bounds A.length n hn hp
      rw [hcnt] at this; omega
  -- the full pieces
  have hfull : (List.range (cnt - 1)).mapM (fun i => Buf.getRange (Buf.ofABuf ⟨A, side⟩) (min (i * n) A.length) (min (i * n + n) A.length)) =
      .ok ((List.range (cnt - 1)).map (fun i => Buf.ofABuf ⟨(A.drop (i * n)).take n, side⟩)) := by
    apply mapM_range_ok
    intro i hi
    have h1 : (i + 1) * n ≤ (cnt - 1) * n := Nat.mul_le_mul_right _ (by omega)
    rw [Nat.add_mul, Nat.one_mul] at h1
    rw [Nat.min_eq_left (by omega), Nat.min_eq_left (by omega), getRange_spec _ _ _ (by omega) (by simp [ABuf.length]; omega)]
    simp only [ABuf.slice, Bits.slice]
    congr 4; omega
  rw [hfull]
  simp only
  rw [Nat.min_eq_left hb.1, Nat.min_eq_right hb.2, getRange_spec _ _ _ hb.1 (by simp [ABuf.length])]
  simp only [ABuf.slice, Bits.slice]
  have hlast : List.take (A.length - (cnt - 1) * n) (List.drop ((cnt - 1) * n) A) = List.drop ((cnt - 1) * n) A :=
    List.take_of_length_le (by simp)
  simp only [hlast]
  generalize hx : List.drop ((cnt - 1) * n) A = x
  have hxl : (Buf.ofABuf ⟨x, side⟩).length = x.length := rfl
  simp only [hxl, ABuf.chunks, Bits.chunks]
  rw [chunksAux_closed n pad hn A.length A (Nat.le_refl _), hcnt, hx]
  simp only [List.map_append, List.map_map, List.map_cons, List.map_nil]
  by_cases hp : pad = true ∧ x.length < n
  · simp only [hp, and_self, if_true, bind, Except.bind, pure, Except.pure]
    rw [new_spec _ _ _ (allBytes_replicate _), ofBytes_zeros_right]
    simp only [add_spec, ABuf.add, padIf, hp.1, if_true]
    rfl
  · simp only [hp, if_false, pure, Except.pure]
    have : padIf n pad x = x := by
      unfold padIf
      cases pad
      · rfl
      · simp only [if_true]
        have : n - x.length = 0 := by simp at hp; omega
        rw [this]; simp [Bits.zeros]
    rw [this]
    rfl

end Schc
