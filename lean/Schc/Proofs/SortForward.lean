/-
The driver's order test never fires on the rules the properties quantify over: when no compute field is written BEFORE a
compute field it depends on (and no field depends on itself), `compute_function_sort` orders the entries by position, the
test `orderedB` passes — for the rule as written and for what every `direction=` keeps of it.
-/
import Schc.Proofs.SortUnique

namespace Schc

/-- `x` does not list `y` among its dependencies -/
def NoDep (x y : String) : Prop := (Compute.depsOf x).contains y = false

/-- compute fields in dependency order: none depends on a later one, none on itself -/
def ForwardDeps (ids : List String) : Prop := ids.Pairwise NoDep ∧ ∀ x ∈ ids, NoDep x x

theorem ForwardDeps.sublist {l₁ l₂ : List String} (h : l₁.Sublist l₂) (f : ForwardDeps l₂) : ForwardDeps l₁ :=
  ⟨f.1.sublist h, fun x hx => f.2 x (h.subset hx)⟩

theorem computeEntries_ids (rfs : List RuleField) (pos : Nat) :
    (computeEntries rfs pos).map (·.id) = (rfs.filter (fun rf => decide (rf.cda = .compute))).map (·.id) := by
  induction rfs generalizing pos with
  | nil => rfl
  | cons rf rfs ih =>
    unfold computeEntries
    by_cases h : rf.cda = .compute
    · simp [h, ih]
    · simp [h, ih]

theorem computeEntries_increasing (rfs : List RuleField) (pos : Nat) :
    (computeEntries rfs pos).Pairwise (fun a b => a.pos < b.pos) := by
  induction rfs generalizing pos with
  | nil => simp [computeEntries]
  | cons rf rfs ih =>
    unfold computeEntries
    split
    · rw [List.pairwise_cons]
      refine ⟨?_, ih _⟩
      intro e he
      have := computeEntries_pos_ge rfs (pos + 1) e he
      simp only; omega
    · exact ih _

/-- entries listed by increasing position whose ids are in dependency order: the comparator is "by position" -/
theorem lt_iff_pos (l : List ComputeEntry) (hinc : l.Pairwise (fun a b => a.pos < b.pos)) (hf : ForwardDeps (l.map (·.id))) :
    ∀ a ∈ l, ∀ b ∈ l, (entryLt a b ↔ a.pos < b.pos) := by
  -- the symmetric closure of "a before b"
  let S : ComputeEntry → ComputeEntry → Prop := fun a b =>
    (a.pos < b.pos ∧ NoDep a.id b.id) ∨ (b.pos < a.pos ∧ NoDep b.id a.id) ∨ (a.pos = b.pos ∧ NoDep a.id a.id ∧ NoDep b.id a.id ∧ NoDep a.id b.id)
  have hpair : l.Pairwise (fun a b => a.pos < b.pos ∧ NoDep a.id b.id) := by
    have h2 : l.Pairwise (fun a b => NoDep a.id b.id) := (List.pairwise_map.mp hf.1)
    exact hinc.and h2
  have hS : l.Pairwise S := hpair.imp (fun h => Or.inl h)
  have hSf : l.Pairwise (flip S) := hpair.imp (fun h => Or.inr (Or.inl h))
  have hrefl : ∀ x ∈ l, S x x := fun x hx => by
    have := hf.2 x.id (List.mem_map.mpr ⟨x, hx, rfl⟩)
    exact Or.inr (Or.inr ⟨rfl, this, this, this⟩)
  have all := List.Pairwise.forall_of_forall_of_flip hrefl hS hSf
  intro a ha b hb
  have key := all ha hb
  unfold entryLt computeCmp
  rcases key with ⟨hlt, hnd⟩ | ⟨hgt, hnd⟩ | ⟨heq, _, hba, hab⟩
  · unfold NoDep at hnd
    simp only [hnd, Bool.false_eq_true, ↓reduceIte]
    split
    · first | omega | (simp; omega)
    · first | omega | (simp; omega)
  · unfold NoDep at hnd
    simp only [hnd, Bool.false_eq_true, ↓reduceIte]
    split
    · first | omega | (simp; omega)
    · first | omega | (simp; omega)
  · unfold NoDep at hba hab
    simp only [hba, hab, Bool.false_eq_true, ↓reduceIte]
    first | omega | (simp; omega)

theorem orderedBy_of_forward (l : List ComputeEntry) (hinc : l.Pairwise (fun a b => a.pos < b.pos))
    (hf : ForwardDeps (l.map (·.id))) : OrderedBy l := by
  have k := lt_iff_pos l hinc hf
  refine ⟨?_, ?_, ?_⟩
  · intro a ha b hb hab hba
    have := (k a ha b hb).mp hab; have := (k b hb a ha).mp hba; omega
  · intro a ha b hb hne
    rcases Nat.lt_or_gt_of_ne hne with h | h
    · exact Or.inl ((k a ha b hb).mpr h)
    · exact Or.inr ((k b hb a ha).mpr h)
  · intro a ha b hb c hc hab hbc
    have := (k a ha b hb).mp hab; have := (k b hb c hc).mp hbc
    exact (k a ha c hc).mpr (by omega)

theorem orderedB_complete (l : List ComputeEntry) (h : OrderedBy l) : orderedB l = true := by
  simp only [orderedB, List.all_eq_true, Bool.and_eq_true, Bool.or_eq_true, Bool.not_eq_true', beq_iff_eq,
    Bool.and_eq_false_iff, ltB_iff]
  intro a ha b hb
  refine ⟨⟨?_, ?_⟩, ?_⟩
  · by_cases hp : a.pos = b.pos
    · exact Or.inl (Or.inl hp)
    · rcases h.total a ha b hb hp with g | g
      · exact Or.inl (Or.inr g)
      · exact Or.inr g
  · by_cases hab : entryLt a b
    · right; rw [← Bool.not_eq_true, ltB_iff]; exact h.asymm a ha b hb hab
    · left; rw [← Bool.not_eq_true, ltB_iff]; exact hab
  · intro c hc
    by_cases hab : entryLt a b
    · by_cases hbc : entryLt b c
      · exact Or.inr (h.trans a ha b hb c hc hab hbc)
      · left; right; rw [← Bool.not_eq_true, ltB_iff]; exact hbc
    · left; left; rw [← Bool.not_eq_true, ltB_iff]; exact hab

/-- a rule whose compute fields are written in dependency order passes the test -/
theorem orderOk_of_forward (rfs : List RuleField)
    (hf : ForwardDeps ((rfs.filter (fun rf => decide (rf.cda = .compute))).map (·.id))) : orderedB (entriesOf rfs 0) = true := by
  rw [entriesOf_eq]
  have hinc := computeEntries_increasing rfs 0
  have hf' : ForwardDeps ((computeEntries rfs 0).map (·.id)) := by rw [computeEntries_ids]; exact hf
  exact orderedB_complete _ (orderedBy_of_forward _ hinc hf')

theorem orderOkAll_of_forward (r : Rule)
    (hf : ForwardDeps ((r.fields.filter (fun rf => decide (rf.cda = .compute))).map (·.id))) : r.orderOkAll = true := by
  have sub : ∀ d, ForwardDeps ((((restrict r d).fields).filter (fun rf => decide (rf.cda = .compute))).map (·.id)) := by
    intro d
    apply ForwardDeps.sublist _ hf
    apply List.Sublist.map
    apply List.Sublist.filter
    exact List.filter_sublist
  simp only [Rule.orderOkAll, Rule.orderOk, Bool.and_eq_true]
  exact ⟨⟨⟨orderOk_of_forward _ hf, orderOk_of_forward _ (sub .up)⟩, orderOk_of_forward _ (sub .dw)⟩, orderOk_of_forward _ (sub .bi)⟩

end Schc
