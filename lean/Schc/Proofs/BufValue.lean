/- C06: value() on canonical Buffers. -/
import Schc.Proofs.BufPad

namespace Schc
open Bits

theorem bytesToNat_eq (c : List Nat) (hc : AllBytes c) : Buf.bytesToNat c = Bits.toNat (ABuf.bytesBits c) := by
  induction c with
  | nil => rfl
  | cons b bs ih =>
    rw [Buf.bytesToNat, bytesBits_cons, toNat_append, toNat_ofNat 8 b (hc b (by simp)), bytesBits_length, ih (fun x hx => hc x (List.mem_cons_of_mem _ hx))]
    congr 2
    rw [show (256 : Nat) = 2 ^ 8 by rfl, ← Nat.pow_mul]

/-- the tail of `value()`: mask the first byte of the left-padded content and read the bytes big-endian -/
theorem value_tail (bits : Bits) (s : Buf) :
    (if (Buf.ofABuf ⟨bits, .left⟩).length > 0 then (do
        let c0 ← idx (Buf.ofABuf ⟨bits, .left⟩).content 0
        pure (Buf.bytesToNat ((c0 &&& ((0xff >>> (Buf.ofABuf ⟨bits, .left⟩).padLen) &&& 0xff)) :: (Buf.ofABuf ⟨bits, .left⟩).content.drop 1), s) : Py (Nat × Buf))
      else pure (Buf.bytesToNat ((Buf.ofABuf ⟨bits, .left⟩).content.drop 1), s)) = .ok (Bits.toNat bits, s) := by
  have hcb := bytesBits_content ⟨bits, .left⟩
  simp only at hcb
  by_cases hn : (Buf.ofABuf ⟨bits, .left⟩).length > 0
  · simp only [hn, if_true]
    have hne : 0 < (⟨bits, .left⟩ : ABuf).bits.length := by simpa [Buf.ofABuf, ABuf.length] using hn
    obtain ⟨v, hv⟩ := idx_content_zero ⟨bits, .left⟩ hne
    simp only [Buf.ofABuf] at hv ⊢
    rw [hv]
    simp only [bind, Except.bind, pure, Except.pure]
    congr 2
    have hc : (⟨bits, .left⟩ : ABuf).content = v :: (⟨bits, .left⟩ : ABuf).content.drop 1 := by
      unfold idx at hv
      cases hcc : (⟨bits, .left⟩ : ABuf).content with
      | nil => rw [hcc] at hv; simp at hv
      | cons x xs =>
        rw [hcc] at hv
        have : x = v := by simpa [pure, Except.pure] using hv
        simp [this]
    have hab := allBytes_content ⟨bits, .left⟩
    have hmb : AllBytes ((v &&& ((0xff >>> padLenOf (⟨bits, .left⟩ : ABuf).length) &&& 0xff)) :: (⟨bits, .left⟩ : ABuf).content.drop 1) := by
      intro x hx
      rcases List.mem_cons.mp hx with h | h
      · subst h; exact Nat.lt_of_le_of_lt Nat.and_le_left (hab v (by rw [hc]; simp))
      · exact hab x (List.mem_of_mem_drop h)
    rw [bytesToNat_eq _ hmb, mask_first v _ _ (by have := padLen_lt (⟨bits, .left⟩ : ABuf).length; omega), ← hc, hcb]
    simp only [ABuf.length]
    rw [List.drop_append_of_le_length (by simp [zeros_length]), List.drop_of_length_le (by simp [zeros_length]), List.nil_append,
      toNat_zeros_append]
  · simp only [hn, if_false, pure, Except.pure]
    have h0 : bits = [] := by
      have : bits.length = 0 := by simp only [Buf.ofABuf, ABuf.length] at hn; omega
      exact List.length_eq_zero_iff.mp this
    congr 2
    simp [Buf.ofABuf, h0, ABuf.content, ABuf.packBytes, Buf.bytesToNat, Bits.toNat, padLenOf, Bits.zeros]

/-- `value()` is the unsigned big-endian integer the bits spell; the operand is untouched -/
theorem value_spec (a : ABuf) : (Buf.ofABuf a).value =
    .ok (Bits.toNat a.bits, if a.side = .right ∧ Gen.valuePadInplace = true then Buf.ofABuf ⟨a.bits, .left⟩ else Buf.ofABuf a) := by
  obtain ⟨bits, side⟩ := a
  unfold Buf.value
  generalize Gen.valuePadInplace = ip
  cases side
  · simp only [Buf.ofABuf, bind, Except.bind, pure, Except.pure, reduceCtorEq, false_and, if_false]
    exact value_tail bits _
  · have hp := pad_spec ⟨bits, .right⟩ .left ip
    simp only [Buf.ofABuf] at hp
    simp only [Buf.ofABuf, bind, Except.bind, hp, true_and]
    cases ip <;> exact value_tail bits _

/-- the value alone: the unsigned big-endian integer the bits spell (whatever the `inplace` flag of the internal
    re-padding; operand preservation is C16's `C16_pure_value`) -/
theorem value_val (a : ABuf) : (Buf.ofABuf a).value.map (·.1) = .ok (Bits.toNat a.bits) := by
  rw [value_spec]; rfl

end Schc
