/- C18: the optional `direction` argument of compress / decompress selects the descriptors the matcher used. -/
import Schc.Proofs.Roundtrip

namespace Schc

theorem dirApplies_eq (a b : Dir) : dirApplies a b = Spec.dirApplies a b := rfl

theorem restrict_fields (r : Rule) (d : Dir) : (restrict r d).fields = r.fields.filter (fun f => Spec.dirApplies d f.dir) := rfl
theorem restrict_id (r : Rule) (d : Dir) : (restrict r d).id = r.id := rfl
theorem restrict_nature (r : Rule) (d : Dir) : (restrict r d).nature = r.nature := rfl

theorem restrict_dirs (r : Rule) (d : Dir) : ∀ rf ∈ (restrict r d).fields, Spec.dirApplies d rf.dir = true := by
  intro rf h
  rw [restrict_fields] at h
  exact (List.mem_filter.mp h).2

/-- a rule is offered for a packet iff its restriction to the packet's direction is -/
theorem applicable_restrict (p : Packet) (r : Rule) : Spec.applicable p (restrict r p.dir) = Spec.applicable p r := by
  unfold Spec.applicable
  rw [restrict_nature, restrict_fields, List.filter_filter]
  simp only [Bool.and_self]

theorem decompressD_eq (s : ABuf) (r : Rule) (d : Option Dir) : decompressD s r d = decompress s (restrictO r d) := by
  cases d <;> rfl

theorem compressD_eq (p : Packet) (r : Rule) (d : Option Dir) : compressD p r d = compress p (restrictO r d) := by
  cases d <;> rfl

theorem restrict_of_all (r : Rule) (d : Dir) (h : ∀ rf ∈ r.fields, Spec.dirApplies d rf.dir = true) : restrict r d = r := by
  obtain ⟨id, nature, fields⟩ := r
  simp only [restrict, Rule.mk.injEq, true_and]
  rw [List.filter_eq_self]
  exact h

/-- C18, bare functions: with the direction passed to both, compress and decompress use exactly the descriptors
    the matcher used, and a rule with direction-specific alternatives round-trips every packet it is offered for -/
theorem roundtrip_dir (p : Packet) (r : Rule) (hn : r.nature = .compression)
    (happ : Spec.applicable p r = true) (hfit : AllFits p.fields (restrict r p.dir).fields)
    (hraw : p.raw.bits = p.fields.flatMap (·.value.bits) ++ p.payload.bits) :
    ∃ c, compressD p r (some p.dir) = .ok c ∧ decompressD c r (some p.dir) = .ok ⟨p.raw.bits, .right⟩ :=
  roundtrip_compression p (restrict r p.dir) hn (restrict_dirs r p.dir) (by rw [applicable_restrict]; exact happ) hfit hraw

end Schc
