/-
The rules the `uroundtrip` stream derives from a parsed packet (`recipeRule`, the same function on both sides of the
tie) satisfy the hypotheses of the round-trip theorems, for EVERY recipe string and every parsed packet whose field
values are LEFT-padded and shorter than 64 Kibit: they apply to the packet, and every descriptor is a lossless
pairing that fits (compute only where a compute function is registered).
-/
import Schc.Drv.SchcStream
import Schc.Proofs.RoundtripCompute

namespace Schc
open Schc.Drv

/-- the descriptor `recipeRule` gives field `f` at index `k` -/
def recipeField (codes : List Char) (k : Nat) (f : Field) : RuleField :=
  let L := f.value.length
  let code := codes.getD (k % codes.length) 'v'
  let code := if code == 'c' && (Gen.computeFunctions.find? (·.1 == f.id)).isNone then 'v' else code
  if code == 'n' then ⟨f.id, L, f.position, .bi, .buf f.value, .equal, .notSent⟩
  else if code == 'l' then ⟨f.id, L, f.position, .bi, .buf (f.value.slice 0 (L / 2)), .msb, .lsb⟩
  else if code == 'm' then ⟨f.id, L, f.position, .bi, .map [(f.value, ⟨[false], .left⟩)], .matchMapping, .mappingSent⟩
  else if code == 'c' then ⟨f.id, L, f.position, .bi, .buf ⟨[], .left⟩, .ignore, .compute⟩
  else ⟨f.id, if strContains f.id "Option" then 0 else L, f.position, .bi, .buf ⟨[], .left⟩, .ignore, .valueSent⟩

theorem recipeRule_fields (fields : List Field) (recipe : String) (rid : ABuf) :
    (recipeRule fields recipe rid).fields = (List.range fields.length).zipWith (recipeField recipe.toList) fields := rfl

/-- one descriptor: matches its field, applies to every direction, fits -/
theorem recipeField_ok (codes : List Char) (k : Nat) (f : Field) (hs : f.value.side = .left) (hl : f.value.length < 65536) (d : Dir) :
    Spec.fieldMatches f (recipeField codes k f) = true ∧ Spec.dirApplies d (recipeField codes k f).dir = true ∧
    FieldFitsC f (recipeField codes k f) := by
  have hcode : ∀ c : Char, (if (c == 'c' && (List.find? (fun x => x.1 == f.id) Gen.computeFunctions).isNone) = true then 'v' else c) = 'c' →
      (List.find? (fun x => x.1 == f.id) Gen.computeFunctions).isSome = true := by
    intro c h
    by_cases hc : (c == 'c' && (List.find? (fun x => x.1 == f.id) Gen.computeFunctions).isNone) = true
    · rw [if_pos hc] at h; exact absurd h (by decide)
    · rw [if_neg hc] at h
      subst h
      simp only [beq_self_eq_true, Bool.true_and, Bool.not_eq_true] at hc
      cases hf : List.find? (fun x => x.1 == f.id) Gen.computeFunctions with
      | none => rw [hf] at hc; simp at hc
      | some _ => rfl
  unfold recipeField
  simp only
  have hc' := hcode (codes.getD (k % codes.length) 'v')
  generalize (if (codes.getD (k % codes.length) 'v' == 'c' && (List.find? (fun x => x.1 == f.id) Gen.computeFunctions).isNone) = true then 'v'
    else codes.getD (k % codes.length) 'v') = code at hc' ⊢
  have hdir : ∀ x : Dir, Spec.dirApplies x Dir.bi = true := by intro x; cases x <;> rfl
  by_cases h1 : (code == 'n') = true
  · simp only [h1, if_true]
    refine ⟨by simp [Spec.fieldMatches], hdir d, ?_⟩
    simp [FieldFitsC, FieldFits]
  · simp only [h1, if_false]
    by_cases h2 : (code == 'l') = true
    · simp only [h2, if_true]
      refine ⟨?_, hdir d, ?_⟩
      · simp [Spec.fieldMatches, ABuf.slice, Bits.slice, ABuf.length, List.length_take]
        omega
      · simp only [ABuf.length] at hl
        simp [FieldFitsC, FieldFits, hs, ABuf.length]
        intro h0; omega
    · simp only [h2, if_false]
      by_cases h3 : (code == 'm') = true
      · simp only [h3, if_true]
        refine ⟨by simp [Spec.fieldMatches], hdir d, ?_⟩
        simp [FieldFitsC, FieldFits, MappingWF]
      · simp only [h3, if_false]
        by_cases h4 : (code == 'c') = true
        · simp only [h4, if_true]
          refine ⟨by simp [Spec.fieldMatches], hdir d, ?_⟩
          have := hc' (by simpa using h4)
          simp [FieldFitsC, this]
        · simp only [h4, if_false]
          refine ⟨by simp [Spec.fieldMatches], hdir d, ?_⟩
          by_cases ho : strContains f.id "Option" = true
          · simp [FieldFitsC, FieldFits, ho, hl]
          · simp [FieldFitsC, FieldFits, ho]
            intro _; exact hl

theorem zipWith_range'_ok (codes : List Char) (d : Dir) (fields : List Field) (s : Nat)
    (h : ∀ f ∈ fields, f.value.side = .left ∧ f.value.length < 65536) :
    let rfs := (List.range' s fields.length).zipWith (recipeField codes) fields
    rfs.length = fields.length ∧ Spec.allMatch fields rfs = true ∧ (∀ rf ∈ rfs, Spec.dirApplies d rf.dir = true) ∧ AllFitsC fields rfs := by
  induction fields generalizing s with
  | nil => simp [Spec.allMatch, AllFitsC]
  | cons f fs ih =>
    obtain ⟨i1, i2, i3, i4⟩ := ih (s + 1) (fun x hx => h x (List.mem_cons_of_mem _ hx))
    obtain ⟨m, dd, ft⟩ := recipeField_ok codes s f (h f (by simp)).1 (h f (by simp)).2 d
    simp only [List.length_cons, List.range'_succ, List.zipWith_cons_cons, Spec.allMatch, AllFitsC, m, Bool.true_and]
    refine ⟨by simpa using i1, i2, ?_, ft, i4⟩
    intro rf hrf
    rcases List.mem_cons.mp hrf with rfl | hrf
    · exact dd
    · exact i3 rf hrf

/-- every rule the `uroundtrip` stream builds is within the hypotheses of the round-trip theorems -/
theorem recipeRule_ok (p : Packet) (recipe : String) (rid : ABuf)
    (h : ∀ f ∈ p.fields, f.value.side = .left ∧ f.value.length < 65536) :
    (recipeRule p.fields recipe rid).nature = .compression ∧
    (∀ rf ∈ (recipeRule p.fields recipe rid).fields, Spec.dirApplies p.dir rf.dir = true) ∧
    Spec.applicable p (recipeRule p.fields recipe rid) = true ∧
    AllFitsC p.fields (recipeRule p.fields recipe rid).fields := by
  have hr : (recipeRule p.fields recipe rid).fields = (List.range' 0 p.fields.length).zipWith (recipeField recipe.toList) p.fields := by
    rw [recipeRule_fields, List.range_eq_range']
  obtain ⟨l1, l2, l3, l4⟩ := zipWith_range'_ok recipe.toList p.dir p.fields 0 h
  refine ⟨rfl, by rw [hr]; exact l3, ?_, by rw [hr]; exact l4⟩
  unfold Spec.applicable
  have hn : (recipeRule p.fields recipe rid).nature = .compression := rfl
  rw [hn]
  simp only [hr]
  rw [List.filter_eq_self.mpr l3]
  simp [l1, l2]

end Schc
