/- C06: and / or / xor / invert on canonical Buffers. -/
import Schc.Proofs.BufShiftGen

namespace Schc
open Bits

theorem ofNat_zipWith (f : Nat → Nat → Nat) (fb : Bool → Bool → Bool) (h : ∀ x y j, (f x y).testBit j = fb (x.testBit j) (y.testBit j))
    (n x y : Nat) : Bits.ofNat n (f x y) = List.zipWith fb (Bits.ofNat n x) (Bits.ofNat n y) := by
  apply List.ext_getElem
  · simp
  · intro i h1 h2
    simp [Bits.ofNat, h]

theorem bytesBits_zipWith (f : Nat → Nat → Nat) (fb : Bool → Bool → Bool) (h : ∀ x y j, (f x y).testBit j = fb (x.testBit j) (y.testBit j))
    (a b : List Nat) (hl : a.length = b.length) :
    ABuf.bytesBits (List.zipWith f a b) = List.zipWith fb (ABuf.bytesBits a) (ABuf.bytesBits b) := by
  induction a generalizing b with
  | nil => cases b <;> simp [ABuf.bytesBits]
  | cons x xs ih =>
    cases b with
    | nil => simp at hl
    | cons y ys =>
      simp only [List.zipWith_cons_cons, bytesBits_cons]
      rw [ih ys (by simpa using hl), ofNat_zipWith f fb h, List.zipWith_append (by simp)]

theorem zipWith_zeros (fb : Bool → Bool → Bool) (h0 : fb false false = false) (k : Nat) :
    List.zipWith fb (Bits.zeros k) (Bits.zeros k) = Bits.zeros k := by
  induction k with
  | zero => rfl
  | succ k ih => simp only [Bits.zeros, List.replicate_succ, List.zipWith_cons_cons, h0] at ih ⊢; rw [ih]

/-- the byte-wise zip of two canonical contents on the same side, re-normalised by the constructor -/
theorem bitwise_core (f : Nat → Nat → Nat) (fb : Bool → Bool → Bool)
    (hbit : ∀ x y j, (f x y).testBit j = fb (x.testBit j) (y.testBit j)) (h0 : fb false false = false)
    (hlt : ∀ x y, x < 256 → y < 256 → f x y < 256) (abits bbits : Bits) (side : Pad) (hl : abits.length = bbits.length) :
    Buf.new (List.zipWith f (⟨abits, side⟩ : ABuf).content (⟨bbits, side⟩ : ABuf).content) abits.length side
      = .ok (Buf.ofABuf ⟨List.zipWith fb abits bbits, side⟩) := by
  have hca := ofABuf_content_length ⟨abits, side⟩
  have hcb := ofABuf_content_length ⟨bbits, side⟩
  simp only [Buf.ofABuf, ABuf.length] at hca hcb
  have hclen : (⟨abits, side⟩ : ABuf).content.length = (⟨bbits, side⟩ : ABuf).content.length := by rw [hca, hcb, hl]
  have hzb : AllBytes (List.zipWith f (⟨abits, side⟩ : ABuf).content (⟨bbits, side⟩ : ABuf).content) := by
    intro x hx
    rw [List.mem_iff_getElem] at hx
    obtain ⟨i, hi, rfl⟩ := hx
    simp only [List.getElem_zipWith]
    exact hlt _ _ (allBytes_content _ _ (List.getElem_mem _)) (allBytes_content _ _ (List.getElem_mem _))
  rw [new_spec _ _ _ hzb]
  congr 2
  have hbits := bytesBits_zipWith f fb hbit _ _ hclen
  have hA := bytesBits_content ⟨abits, side⟩
  have hB := bytesBits_content ⟨bbits, side⟩
  have hzl : (List.zipWith fb abits bbits).length = abits.length := by simp [hl]
  cases side <;> simp only at hA hB
  · have hcan := canon_left _ hzb (List.zipWith fb abits bbits) (padLenOf abits.length) (padLen_lt _) (by
      rw [hbits, hA, hB, ← hl, List.zipWith_append (by simp [zeros_length]), zipWith_zeros fb h0])
    rw [hcan]
    have := ofBytes_content ⟨List.zipWith fb abits bbits, .left⟩
    simp only [ABuf.length, hzl] at this
    rw [this]
  · have hcan := canon_right _ hzb (List.zipWith fb abits bbits) (padLenOf abits.length) (padLen_lt _) (by
      rw [hbits, hA, hB, ← hl, List.zipWith_append (by simp [hl]), zipWith_zeros fb h0])
    rw [hcan]
    have := ofBytes_content ⟨List.zipWith fb abits bbits, .right⟩
    simp only [ABuf.length, hzl] at this
    rw [this]

/-- what the right operand is afterwards: untouched unless the internal re-padding is done in place (then the same
    bits, padded like the left operand) -/
def afterPad (ip : Bool) (a b : ABuf) : Buf :=
  if ip = true ∧ b.side ≠ a.side then Buf.ofABuf ⟨b.bits, a.side⟩ else Buf.ofABuf b

/-- `&`, `|`, `^` on canonical Buffers of equal length: bit-wise over the bits, side of the left operand; unequal
    lengths raise ValueError -/
theorem bitwise_spec (f : Nat → Nat → Nat) (fb : Bool → Bool → Bool)
    (hbit : ∀ x y j, (f x y).testBit j = fb (x.testBit j) (y.testBit j)) (h0 : fb false false = false)
    (hlt : ∀ x y, x < 256 → y < 256 → f x y < 256) (ip : Bool) (a b : ABuf) :
    Buf.bitwise f ip (Buf.ofABuf a) (Buf.ofABuf b) =
      if a.bits.length = b.bits.length then .ok (Buf.ofABuf ⟨List.zipWith fb a.bits b.bits, a.side⟩, afterPad ip a b)
      else .error .valueError := by
  obtain ⟨abits, aside⟩ := a
  obtain ⟨bbits, bside⟩ := b
  unfold Buf.bitwise afterPad
  by_cases hl : abits.length = bbits.length
  · have hl' : ¬ ((Buf.ofABuf ⟨abits, aside⟩).length ≠ (Buf.ofABuf ⟨bbits, bside⟩).length) := by simp [Buf.ofABuf, ABuf.length, hl]
    rw [if_neg hl', if_pos hl]
    have hcore := bitwise_core f fb hbit h0 hlt abits bbits aside hl
    by_cases hp : (Buf.ofABuf ⟨bbits, bside⟩).padding ≠ (Buf.ofABuf ⟨abits, aside⟩).padding
    · rw [if_pos hp]
      have hs : bside ≠ aside := by simpa [Buf.ofABuf] using hp
      simp only [bind, Except.bind, pure, Except.pure, pad_spec]
      simp only [Buf.ofABuf, ABuf.length] at hcore ⊢
      rw [hcore]
      cases ip <;> simp [hs]
    · rw [if_neg hp]
      have hs : bside = aside := by simpa [Buf.ofABuf] using hp
      subst hs
      simp only [bind, Except.bind, pure, Except.pure]
      simp only [Buf.ofABuf, ABuf.length] at hcore ⊢
      rw [hcore]
      simp
  · have hl' : (Buf.ofABuf ⟨abits, aside⟩).length ≠ (Buf.ofABuf ⟨bbits, bside⟩).length := by simpa [Buf.ofABuf, ABuf.length] using hl
    rw [if_pos hl', if_neg hl]
    rfl

theorem band_spec (a b : ABuf) : Buf.band (Buf.ofABuf a) (Buf.ofABuf b) =
    if a.bits.length = b.bits.length then .ok (Buf.ofABuf ⟨List.zipWith (· && ·) a.bits b.bits, a.side⟩, afterPad Gen.andPadInplace a b) else .error .valueError :=
  bitwise_spec (· &&& ·) (· && ·) (fun x y j => Nat.testBit_and x y j) rfl (fun x y hx _ => Nat.lt_of_le_of_lt Nat.and_le_left hx) _ a b

theorem bor_spec (a b : ABuf) : Buf.bor (Buf.ofABuf a) (Buf.ofABuf b) =
    if a.bits.length = b.bits.length then .ok (Buf.ofABuf ⟨List.zipWith (· || ·) a.bits b.bits, a.side⟩, afterPad Gen.orPadInplace a b) else .error .valueError :=
  bitwise_spec (· ||| ·) (· || ·) (fun x y j => Nat.testBit_or x y j) rfl (fun x y hx hy => Nat.or_lt_two_pow (n := 8) hx hy) _ a b

theorem bxor_spec (a b : ABuf) : Buf.bxor (Buf.ofABuf a) (Buf.ofABuf b) =
    if a.bits.length = b.bits.length then .ok (Buf.ofABuf ⟨List.zipWith (fun x y => x != y) a.bits b.bits, a.side⟩, afterPad Gen.xorPadInplace a b) else .error .valueError :=
  bitwise_spec (· ^^^ ·) (fun x y => x != y) (fun x y j => by rw [Nat.testBit_xor]) rfl
    (fun x y hx hy => Nat.xor_lt_two_pow (n := 8) hx hy) _ a b

/-- the result alone (whatever happens to the right operand — that is C16's `C16_pure_*`) -/
theorem map_fst_ite {α β : Type} (c : Prop) [Decidable c] (r : α) (s : β) :
    (if c then (.ok (r, s) : Py (α × β)) else .error .valueError).map (·.1) = if c then .ok r else .error .valueError := by
  split <;> rfl

end Schc
namespace Schc
open Bits

theorem inv_byte_xor : ∀ b < 256, 255 - b = 255 ^^^ b := by decide +kernel

theorem ofNat_inv (b : Nat) (hb : b < 256) : Bits.ofNat 8 (Buf.invByte b 0xff) = (Bits.ofNat 8 b).map not := by
  unfold Buf.invByte
  rw [Nat.mod_eq_of_lt hb, inv_byte_xor b hb]
  have hm : (255 ^^^ b) &&& 255 = 255 ^^^ b := by
    rw [show (255 : Nat) = 2 ^ 8 - 1 by rfl, Nat.and_two_pow_sub_one_eq_mod]
    exact Nat.mod_eq_of_lt (Nat.xor_lt_two_pow (by decide) hb)
  rw [hm]
  apply List.ext_getElem
  · simp
  · intro i h1 h2
    simp only [ofNat_length] at h1
    simp only [Bits.ofNat, List.getElem_map, List.getElem_range, Nat.testBit_xor]
    have : Nat.testBit 255 (8 - 1 - i) = true := by
      rw [show (255 : Nat) = 2 ^ 8 - 1 by rfl, Nat.testBit_two_pow_sub_one]; simp; omega
    rw [this]; simp

theorem bytesBits_map_inv (c : List Nat) (hc : AllBytes c) : ABuf.bytesBits (c.map (Buf.invByte · 0xff)) = (ABuf.bytesBits c).map not := by
  induction c with
  | nil => rfl
  | cons b bs ih =>
    simp only [List.map_cons, bytesBits_cons, List.map_append]
    rw [ofNat_inv b (hc b (by simp)), ih (fun x hx => hc x (List.mem_cons_of_mem _ hx))]

theorem invByte_lt (b m : Nat) : Buf.invByte b m < 256 := by
  unfold Buf.invByte
  exact Nat.lt_of_le_of_lt Nat.and_le_left (by omega)

theorem map_not_zeros (k : Nat) : (Bits.zeros k).map not = List.replicate k true := by simp [Bits.zeros]

/-- `~b` on a canonical Buffer flips every bit (and nothing else), either side -/
theorem invert_spec (a : ABuf) : (Buf.ofABuf a).invert = .ok (Buf.ofABuf ⟨a.bits.map not, a.side⟩) := by
  obtain ⟨bits, side⟩ := a
  unfold Buf.invert
  by_cases h0 : (Buf.ofABuf ⟨bits, side⟩).length = 0
  · simp only [h0, if_true, copy_spec]
    have : bits = [] := by simp only [Buf.ofABuf, ABuf.length] at h0; exact List.length_eq_zero_iff.mp h0
    subst this; rfl
  · simp only [h0, if_false]
    have hn : 0 < bits.length := by simp only [Buf.ofABuf, ABuf.length] at h0; omega
    have hpl := padLen_lt bits.length
    have hbl := byteLen_eq bits.length
    have hcl := ofABuf_content_length ⟨bits, side⟩
    have hcb := bytesBits_content ⟨bits, side⟩
    have hab := allBytes_content ⟨bits, side⟩
    simp only [Buf.ofABuf, ABuf.length] at hcl
    have hmapb : AllBytes ((⟨bits, side⟩ : ABuf).content.map (Buf.invByte · 0xff)) := by
      intro x hx; rw [List.mem_map] at hx; obtain ⟨y, _, rfl⟩ := hx; exact invByte_lt _ _
    cases side
    · simp only [Buf.ofABuf, ABuf.length] at hcb ⊢
      obtain ⟨v, hv⟩ := idx_content_zero ⟨bits, .left⟩ hn
      rw [hv]
      simp only [bind, Except.bind]
      have hcb' : AllBytes (Buf.invByte v ((1 <<< ((8 - padLenOf bits.length) % 8)) - 1) :: (⟨bits, .left⟩ : ABuf).content.map (Buf.invByte · 0xff)) := by
        intro x hx
        rcases List.mem_cons.mp hx with h | h
        · subst h; exact invByte_lt _ _
        · exact hmapb x h
      rw [new_spec _ _ _ hcb']
      congr 2
      simp only [ABuf.ofBytes, bytesBits_cons, bytesBits_map_inv _ hab, hcb, List.map_append, List.length_append, ofNat_length,
        List.length_map, zeros_length]
      have e0 : bits.length - (8 + (padLenOf bits.length + bits.length)) = 0 := by omega
      rw [e0]
      simp only [Bits.zeros, List.replicate_zero, List.nil_append, List.length_append, ofNat_length, List.length_map, List.length_replicate]
      have e1 : 0 + (8 + (padLenOf bits.length + bits.length)) - bits.length = 8 + padLenOf bits.length := by omega
      rw [e1, List.drop_append, ofNat_length]
      have e2 : List.drop (8 + padLenOf bits.length) (Bits.ofNat 8 (Buf.invByte v ((1 <<< ((8 - padLenOf bits.length) % 8)) - 1))) = [] :=
        List.drop_of_length_le (by simp)
      rw [e2, List.nil_append, List.drop_append]
      simp
    · simp only [Buf.ofABuf, ABuf.length] at hcb ⊢
      have hne : (⟨bits, .right⟩ : ABuf).content ≠ [] := by
        intro h; rw [h] at hcl; simp at hcl; omega
      obtain ⟨ini, lst, hsplit⟩ : ∃ ini lst, (⟨bits, .right⟩ : ABuf).content = ini ++ [lst] :=
        ⟨_, _, (List.dropLast_concat_getLast hne).symm⟩
      rw [hsplit, lastElem_append_single]
      simp only [bind, Except.bind, List.dropLast_concat]
      have hini : ini.length = byteLenOf bits.length - 1 := by rw [hsplit] at hcl; simp at hcl; omega
      have hinib : AllBytes ini := fun x hx => hab x (by rw [hsplit]; exact List.mem_append_left _ hx)
      have hlst : lst < 256 := hab lst (by rw [hsplit]; simp)
      have hcb' : AllBytes (ini.map (Buf.invByte · 0xff) ++ [Buf.invByte lst ((0xff <<< padLenOf bits.length) &&& 0xff)]) := by
        intro x hx
        rcases List.mem_append.mp hx with h | h
        · rw [List.mem_map] at h; obtain ⟨y, _, rfl⟩ := h; exact invByte_lt _ _
        · simp only [List.mem_singleton] at h; subst h; exact invByte_lt _ _
      rw [new_spec _ _ _ hcb']
      congr 2
      -- the masked last byte: the first 8 - pl bits flipped, then zeros
      have hlastb : Bits.ofNat 8 (Buf.invByte lst ((0xff <<< padLenOf bits.length) &&& 0xff))
          = ((Bits.ofNat 8 lst).map not).take (8 - padLenOf bits.length) ++ Bits.zeros (padLenOf bits.length) := by
        have : Buf.invByte lst ((0xff <<< padLenOf bits.length) &&& 0xff) = Buf.invByte lst 0xff &&& ((0xff <<< padLenOf bits.length) &&& 0xff) := by
          unfold Buf.invByte
          rw [Nat.and_assoc]
          congr 1
          rw [Nat.and_comm 255, Nat.and_assoc]
          simp
        rw [this, mask_last_byte _ _ (by omega), ofNat_inv lst hlst]
      rw [hsplit, bytesBits_append, bytesBits_cons, bytesBits_nil, List.append_nil] at hcb
      simp only [ABuf.ofBytes, bytesBits_append, bytesBits_cons, bytesBits_nil, List.append_nil, bytesBits_map_inv _ hinib, hlastb]
      -- take n of (not ini ++ take (8 - pl) (not lst) ++ zeros pl ++ zeros …)
      have hlen1 : ((ABuf.bytesBits ini).map not ++ (((Bits.ofNat 8 lst).map not).take (8 - padLenOf bits.length) ++ Bits.zeros (padLenOf bits.length))).length
          = bits.length + padLenOf bits.length := by
        simp [bytesBits_length, hini, zeros_length]; omega
      rw [hlen1]
      have e0 : bits.length - (bits.length + padLenOf bits.length) = 0 := by omega
      rw [e0]
      simp only [Bits.zeros, List.replicate_zero, List.append_nil]
      have hfirst : (ABuf.bytesBits ini ++ Bits.ofNat 8 lst).take bits.length = bits := by
        rw [hcb, List.take_append_of_le_length (Nat.le_refl _), List.take_length]
      have : (List.map not (ABuf.bytesBits ini) ++ (List.take (8 - padLenOf bits.length) (List.map not (Bits.ofNat 8 lst)) ++ List.replicate (padLenOf bits.length) false)).take bits.length
          = List.map not ((ABuf.bytesBits ini ++ Bits.ofNat 8 lst).take bits.length) := by
        rw [← List.append_assoc, List.take_append_of_le_length (by simp [bytesBits_length, hini]; omega)]
        rw [List.map_take, List.map_append, List.take_append, List.take_append, List.take_take]
        simp only [List.length_map, bytesBits_length, hini]
        congr 2
        omega
      rw [this, hfirst]

end Schc
