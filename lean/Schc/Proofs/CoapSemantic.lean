/- C19: the semantic option view of CoAP re-encodes to the syntactic field sequence. -/
import Schc.Proofs.Tiling
import Schc.Proofs.BitsMore
import Schc.Proofs.Pairs
import Std.Data.String.ToNat

namespace Schc
open Bits

/-! ### nibbles and extended fields -/

theorem content_left4 (x : ABuf) (hs : x.side = .left) (hl : x.bits.length = 4) : x.content = [x.value] := by
  obtain ⟨bits, side⟩ := x
  simp only at hs hl; subst hs
  have hp : padLenOf 4 = 4 := by decide
  simp only [ABuf.content, hl, hp, ABuf.value]
  have hlen : (Bits.zeros 4 ++ bits).length / 8 = 1 := by simp [zeros_length, hl]
  rw [hlen]
  simp only [ABuf.packBytes]
  rw [List.take_of_length_le (by simp [zeros_length, hl]), toNat_zeros_append]

theorem value_lt (x : ABuf) : x.value < 2 ^ x.bits.length := toNat_lt x.bits

theorem ofNat_value (x : ABuf) (hs : x.side = .left) : ABuf.ofNat x.bits.length x.value = x := by
  obtain ⟨bits, side⟩ := x
  simp only at hs; subst hs
  simp only [ABuf.ofNat, ABuf.value, ofNat_toNat]

theorem nibble_value (x : ABuf) (hs : x.side = .left) (hl : x.bits.length = 4) : nibble x.value = x := by
  have hv := value_lt x
  rw [hl] at hv
  have h := ofNat_value x hs
  rw [hl] at h
  conv => rhs; rw [← h]
  simp only [nibble, ABuf.ofBytes, ABuf.ofNat, bytesBits_cons, bytesBits_nil, List.append_nil, ofNat_length]
  congr 1

/-- delta / length as RFC 7252 §3.1 composes it from nibble and extended field -/
def optTotal (nv ev : Nat) : Nat := if nv < 13 then nv else ev + (if nv = 13 then 13 else 269)

/-- re-encoding a composed delta / length gives back the nibble and the extended field it was composed from -/
theorem enc_generic (fid : String) (nib ext : ABuf) (hns : nib.side = .left) (hnl : nib.bits.length = 4) (hn15 : nib.value ≠ 15)
    (hes : ext.side = .left) (h13 : nib.value = 13 → ext.bits.length = 8) (h14 : nib.value = 14 → ext.bits.length = 16) :
    nibble (nibbleOf (optTotal nib.value ext.value)) = nib ∧
    extField fid (optTotal nib.value ext.value) = .ok (if nib.value = 13 ∨ nib.value = 14 then [(fid, ext)] else []) := by
  have hv := value_lt nib
  rw [hnl] at hv
  have hev := value_lt ext
  have hoe := ofNat_value ext hes
  by_cases c1 : nib.value < 13
  · have e : optTotal nib.value ext.value = nib.value := by simp [optTotal, c1]
    rw [e]
    constructor
    · simp only [nibbleOf, c1, if_true]; exact nibble_value nib hns hnl
    · have h1 : ¬ (nib.value > 12 ∧ nib.value < 269) := by omega
      have h2 : ¬ (nib.value > 268) := by omega
      have h3 : ¬ (nib.value = 13 ∨ nib.value = 14) := by omega
      simp only [extField, h1, h2, h3, if_false]; rfl
  · by_cases c2 : nib.value = 13
    · have hl := h13 c2
      rw [hl] at hev hoe
      have e : optTotal nib.value ext.value = ext.value + 13 := by simp [optTotal, c2]
      rw [e]
      constructor
      · have a1 : ¬ (ext.value + 13 < 13) := by omega
        have a2 : ext.value + 13 < 269 := by omega
        simp only [nibbleOf, a1, a2, if_false, if_true]
        have := nibble_value nib hns hnl
        rw [c2] at this; exact this
      · have h1 : ext.value + 13 > 12 ∧ ext.value + 13 < 269 := by omega
        simp only [extField, h1, and_self, if_true, c2, true_or, Nat.add_sub_cancel, hoe]; rfl
    · have c3 : nib.value = 14 := by omega
      have hl := h14 c3
      rw [hl] at hev hoe
      have e : optTotal nib.value ext.value = ext.value + 269 := by simp [optTotal, c3]
      rw [e]
      constructor
      · have a1 : ¬ (ext.value + 269 < 13) := by omega
        have a2 : ¬ (ext.value + 269 < 269) := by omega
        simp only [nibbleOf, a1, a2, if_false]
        have := nibble_value nib hns hnl
        rw [c3] at this; exact this
      · have h1 : ¬ (ext.value + 269 > 12 ∧ ext.value + 269 < 269) := by omega
        have h2 : ext.value + 269 > 268 := by omega
        have h3 : ¬ (ext.value ≥ 65536) := by omega
        simp only [extField, h1, h2, if_false, if_true, c3, or_true, Nat.add_sub_cancel, h3, hoe]; rfl

end Schc

namespace Schc
open Bits

/-! ### one option: the syntactic fields are the re-encoding of the semantic field -/

/-- the (id, value) pairs the syntactic branch emits for one option -/
def synPairs (h : OptHdr) : List (String × ABuf) :=
  [(Gen.CoAPF.OPTION_DELTA, h.delta), (Gen.CoAPF.OPTION_LENGTH, h.len)]
    ++ (if h.d13 || h.d14 then [(Gen.CoAPF.OPTION_DELTA_EXTENDED, h.deltaExt)] else [])
    ++ (if h.l13 || h.l14 then [(Gen.CoAPF.OPTION_LENGTH_EXTENDED, h.lenExt)] else [])
    ++ (if h.vlen > 0 then [(Gen.CoAPF.OPTION_VALUE, h.value)] else [])

theorem slice_len (ob : ABuf) (i j : Nat) (h : j ≤ ob.length) (hij : i ≤ j) : (ob.slice i j).bits.length = j - i := by
  simp only [ABuf.slice, Bits.slice, List.length_take, List.length_drop, ABuf.length] at *; omega

theorem flag_of_value (x : ABuf) (hs : x.side = .left) (hl : x.bits.length = 4) (k : Nat) : (x.content == [k]) = decide (x.value = k) := by
  rw [content_left4 x hs hl]
  by_cases h : x.value = k <;> simp [h]

/-- facts about the header of a LEFT-padded option buffer that fits -/
theorem header_facts (ob : ABuf) (hs : ob.side = .left) (hoff : (optionHeader ob).off ≤ ob.length) :
    let h := optionHeader ob
    h.delta.side = .left ∧ h.delta.bits.length = 4 ∧ h.len.side = .left ∧ h.len.bits.length = 4 ∧
    h.d13 = decide (h.delta.value = 13) ∧ h.d14 = decide (h.delta.value = 14) ∧
    h.l13 = decide (h.len.value = 13) ∧ h.l14 = decide (h.len.value = 14) ∧
    h.deltaExt.side = .left ∧ h.lenExt.side = .left ∧ h.deltaExt.bits.length = h.dw ∧ h.lenExt.bits.length = h.lw ∧
    h.value.side = .left ∧ h.value.bits.length = h.vlen := by
  intro h
  have hoffeq : 8 + h.dw + h.lw + h.vlen ≤ ob.length := hoff
  have hds : h.delta.side = .left := hs
  have hls : h.len.side = .left := hs
  have hdl : h.delta.bits.length = 4 := slice_len ob 0 4 (by omega) (by omega)
  have hll : h.len.bits.length = 4 := slice_len ob 4 8 (by omega) (by omega)
  have hde : h.deltaExt.bits.length = h.dw := by
    have := slice_len ob 8 (8 + h.dw) (by omega) (by omega)
    rw [Nat.add_sub_cancel_left] at this; exact this
  have hle : h.lenExt.bits.length = h.lw := by
    have := slice_len ob (8 + h.dw) (8 + h.dw + h.lw) (by omega) (by omega)
    rw [Nat.add_sub_cancel_left] at this; exact this
  have hval : h.value.side = .left ∧ h.value.bits.length = h.vlen := by
    by_cases hv : h.vlen > 0
    · have e : h.value = ob.slice (8 + h.dw + h.lw) (8 + h.dw + h.lw + h.vlen) := by
        simp only [h, optionHeader] at hv ⊢; simp only [hv, if_true]
      rw [e]
      refine ⟨hs, ?_⟩
      have := slice_len ob (8 + h.dw + h.lw) (8 + h.dw + h.lw + h.vlen) (by omega) (by omega)
      rw [Nat.add_sub_cancel_left] at this; exact this
    · have e : h.value = ABuf.empty .left := by
        simp only [h, optionHeader] at hv ⊢; simp only [hv, if_false]
      rw [e]
      exact ⟨rfl, by simp [ABuf.empty]; omega⟩
  exact ⟨hds, hdl, hls, hll, flag_of_value _ hds hdl 13, flag_of_value _ hds hdl 14, flag_of_value _ hls hll 13, flag_of_value _ hls hll 14,
    hs, hs, hde, hle, hval.1, hval.2⟩

/-- the option number increment the semantic branch computes -/
def semDelta (h : OptHdr) : Nat := optTotal h.delta.value h.deltaExt.value

/-- one well-formed option: re-encoding (its delta, its value) gives exactly the syntactic fields -/
theorem encode_option (ob : ABuf) (hs : ob.side = .left) (hoff : (optionHeader ob).off ≤ ob.length)
    (hd15 : (optionHeader ob).delta.value ≠ 15) (hl15 : (optionHeader ob).len.value ≠ 15) :
    encodeOption (semDelta (optionHeader ob)) (optionHeader ob).value = .ok (synPairs (optionHeader ob)) := by
  obtain ⟨f1, f2, f3, f4, f5, f6, f7, f8, f9, f10, f11, f12, f13, f14⟩ := header_facts ob hs hoff
  generalize hh : optionHeader ob = h at *
  have hdw : h.dw = if h.d13 then 8 else if h.d14 then 16 else 0 := by rw [← hh]; rfl
  have hlw : h.lw = if h.l13 then 8 else if h.l14 then 16 else 0 := by rw [← hh]; rfl
  have hvlen : h.vlen = (h.len.value + (if h.l13 then h.lenExt.value else if h.l14 then h.lenExt.value + 255 else 0)) * 8 := by rw [← hh]; rfl
  -- the byte length of the value is the composed length
  have hl : h.value.length / 8 = optTotal h.len.value h.lenExt.value := by
    simp only [ABuf.length, f14, hvlen, Nat.mul_div_cancel _ (show 0 < 8 by decide), optTotal, f7, f8]
    have hv := value_lt h.len
    rw [f4] at hv
    by_cases c1 : h.len.value = 13
    · simp [c1]; omega
    · by_cases c2 : h.len.value = 14
      · simp [c2]; omega
      · have : h.len.value < 13 := by omega
        simp [c1, c2, this]
  obtain ⟨d1, d2⟩ := enc_generic Gen.CoAPF.OPTION_DELTA_EXTENDED h.delta h.deltaExt f1 f2 hd15 f9
    (by intro c; rw [f11, hdw, f5]; simp [c]) (by intro c; rw [f11, hdw, f5, f6]; simp [c])
  obtain ⟨l1, l2⟩ := enc_generic Gen.CoAPF.OPTION_LENGTH_EXTENDED h.len h.lenExt f3 f4 hl15 f10
    (by intro c; rw [f12, hlw, f7]; simp [c]) (by intro c; rw [f12, hlw, f7, f8]; simp [c])
  unfold encodeOption
  simp only [semDelta, hl, d1, d2, l1, l2, bind, Except.bind, pure, Except.pure, synPairs]
  have g1 : (h.delta.value = 13 ∨ h.delta.value = 14) ↔ (h.d13 || h.d14) = true := by rw [f5, f6]; simp
  have g2 : (h.len.value = 13 ∨ h.len.value = 14) ↔ (h.l13 || h.l14) = true := by rw [f7, f8]; simp
  have g3 : h.value.length > 0 ↔ h.vlen > 0 := by simp only [ABuf.length, f14]
  simp only [g1, g2, g3]

end Schc

namespace Schc

/-! ### field ids: option number → semantic field id → option number -/

/-- the field id the semantic branch gives option number `index` -/
def semFid (index : Nat) : String :=
  match Gen.coapOptionNames.find? (·.1 == index) with
  | some (_, name) => name
  | none => Gen.coapUnknownPrefix ++ "(" ++ natToString index ++ ")"

/-- the name tables read from coap.py are inverse to each other and disjoint from the fixed field ids -/
theorem names_table : Gen.coapOptionNames.all (fun e =>
    (Gen.coapNameToNumber.find? (·.1 == e.2) == some (e.2, e.1)) && !coapFixedIds.contains e.2) = true := by decide +kernel

def startsUnknown (s : String) : Bool :=
  s.toList.take (Gen.coapUnknownPrefix.toList.length + 1) == Gen.coapUnknownPrefix.toList ++ ['(']

theorem table_not_unknown : Gen.coapNameToNumber.all (fun e => !startsUnknown e.1) = true ∧
    coapFixedIds.all (fun s => !startsUnknown s) = true := by decide +kernel

theorem takeWhile_append_stop {α} (p : α → Bool) (l : List α) (y : α) (r : List α) (hl : ∀ x ∈ l, p x = true) (hy : p y = false) :
    (l ++ y :: r).takeWhile p = l := by
  induction l with
  | nil => simp [List.takeWhile, hy]
  | cons a as ih =>
    simp only [List.cons_append, List.takeWhile_cons, hl a (by simp), if_true]
    rw [ih (fun x hx => hl x (List.mem_cons_of_mem _ hx))]

theorem unknown_toList (n : Nat) :
    (Gen.coapUnknownPrefix ++ "(" ++ natToString n ++ ")").toList = Gen.coapUnknownPrefix.toList ++ '(' :: (Nat.toDigits 10 n ++ [')']) := by
  simp only [String.toList_append, natToString]
  have : (toString n : String) = Nat.repr n := rfl
  rw [this, Nat.toList_repr]
  simp

theorem unknown_number (n : Nat) : unknownOptionNumber (Gen.coapUnknownPrefix ++ "(" ++ natToString n ++ ")") = some n := by
  unfold unknownOptionNumber
  simp only [unknown_toList]
  have h1 : List.take Gen.coapUnknownPrefix.toList.length (Gen.coapUnknownPrefix.toList ++ '(' :: (Nat.toDigits 10 n ++ [')'])) = Gen.coapUnknownPrefix.toList :=
    List.take_left' rfl
  have h2 : List.drop Gen.coapUnknownPrefix.toList.length (Gen.coapUnknownPrefix.toList ++ '(' :: (Nat.toDigits 10 n ++ [')'])) = '(' :: (Nat.toDigits 10 n ++ [')']) :=
    List.drop_left' rfl
  rw [h1, h2]
  simp only [beq_self_eq_true, if_true]
  have h3 : (Nat.toDigits 10 n ++ [')']).takeWhile Char.isDigit = Nat.toDigits 10 n :=
    takeWhile_append_stop _ _ _ _ (fun x hx => Nat.isDigit_of_mem_toDigits (by decide) (by decide) hx) (by decide)
  rw [h3]
  have h4 : (Nat.toDigits 10 n).isEmpty = false := by
    cases h : Nat.toDigits 10 n with
    | nil => exact absurd h Nat.toDigits_ne_nil
    | cons _ _ => rfl
  simp only [h4, Bool.false_eq_true, if_false, List.drop_left' rfl]
  rw [← Nat.toList_repr, String.ofList_toList, Nat.toNat?_repr]

theorem unknown_starts (n : Nat) : startsUnknown (Gen.coapUnknownPrefix ++ "(" ++ natToString n ++ ")") = true := by
  unfold startsUnknown
  rw [unknown_toList]
  have : Gen.coapUnknownPrefix.toList ++ '(' :: (Nat.toDigits 10 n ++ [')']) = (Gen.coapUnknownPrefix.toList ++ ['(']) ++ (Nat.toDigits 10 n ++ [')']) := by simp
  rw [this, List.take_left' (by simp)]
  simp

/-- the semantic field id of any option number un-parses to that number, and is not one of the fixed field ids -/
theorem semFid_number (index : Nat) (ln : Option Nat) :
    optionNumber (semFid index) ln = .ok index ∧ coapFixedIds.contains (semFid index) = false := by
  unfold semFid
  cases hf : Gen.coapOptionNames.find? (·.1 == index) with
  | some e =>
    obtain ⟨i, name⟩ := e
    have hm := List.mem_of_find?_eq_some hf
    have hp := List.find?_some hf
    simp only [beq_iff_eq] at hp
    have ht := List.all_eq_true.mp names_table _ hm
    simp only [Bool.and_eq_true, beq_iff_eq, Bool.not_eq_true'] at ht
    subst hp
    simp only [optionNumber, ht.1, pure, Except.pure, ht.2, and_self]
  | none =>
    simp only
    generalize hfid : Gen.coapUnknownPrefix ++ "(" ++ natToString index ++ ")" = fid
    have hs : startsUnknown fid = true := by rw [← hfid]; exact unknown_starts index
    have hnum : unknownOptionNumber fid = some index := by rw [← hfid]; exact unknown_number index
    have hnot : Gen.coapNameToNumber.find? (·.1 == fid) = none := by
      rw [List.find?_eq_none]
      intro e he hc
      simp only [beq_iff_eq] at hc
      have := List.all_eq_true.mp table_not_unknown.1 e he
      rw [hc, hs] at this; simp at this
    have hfix : coapFixedIds.contains fid = false := by
      cases hc : coapFixedIds.contains fid with
      | false => rfl
      | true =>
        have hm : fid ∈ coapFixedIds := List.contains_iff_mem.mp hc
        have := List.all_eq_true.mp table_not_unknown.2 fid hm
        rw [hs] at this; simp at this
    simp only [optionNumber, hnot, hnum, pure, Except.pure, hfix, and_self]

end Schc

namespace Schc

theorem pairs_syn (h : OptHdr) (p1 p2 p3 p4 p5 : Nat) :
    pairs ([⟨Gen.CoAPF.OPTION_DELTA, h.delta, p1⟩, ⟨Gen.CoAPF.OPTION_LENGTH, h.len, p2⟩]
        ++ (if h.d13 || h.d14 then [⟨Gen.CoAPF.OPTION_DELTA_EXTENDED, h.deltaExt, p3⟩] else [])
        ++ (if h.l13 || h.l14 then [⟨Gen.CoAPF.OPTION_LENGTH_EXTENDED, h.lenExt, p4⟩] else [])
        ++ (if h.vlen > 0 then [⟨Gen.CoAPF.OPTION_VALUE, h.value, p5⟩] else [])) = synPairs h := by
  unfold synPairs
  simp only [pairs_append]
  congr 1
  · congr 1
    · congr 1
      split <;> rfl
    · split <;> rfl
  · split <;> rfl

/-- the loop guard and the fit test do not depend on the mode: both modes stop at the same place -/
theorem step_none_sync (buffer : ABuf) (st_s st_m : OptState) (hc : st_s.cursor = st_m.cursor)
    (h : optionStep buffer .syntactic st_s = .ok none) : optionStep buffer .semantic st_m = .ok none := by
  unfold optionStep at h ⊢
  rw [← hc]
  split at h
  · rename_i hg; rw [if_pos hg]; rfl
  · simp only [bind, Except.bind] at h
    split at h
    · simp [throw, throwThe, MonadExceptOf.throw] at h
    · simp [pure, Except.pure] at h

/-- one loop iteration in lockstep: where the syntactic walk emits the fields of an option, the semantic walk emits
    one field whose id un-parses to the accumulated option number and whose value is the option value -/
theorem step_sync (buffer : ABuf) (hside : buffer.side = .left) (st_s st_s' st_m : OptState) (hc : st_s.cursor = st_m.cursor)
    (hl : st_s.lastDeltaExt = st_m.lastDeltaExt)
    (h : optionStep buffer .syntactic st_s = .ok (some st_s'))
    (hd : OptHdr) (hhd : optionHeader (buffer.from_ st_s.cursor) = hd) (hd15 : hd.delta.value ≠ 15) :
    hd.off ≤ (buffer.from_ st_s.cursor).length ∧
    pairs st_s'.fields = pairs st_s.fields ++ synPairs hd ∧
    ∃ st_m', optionStep buffer .semantic st_m = .ok (some st_m') ∧ st_s'.cursor = st_m'.cursor ∧ st_s'.lastDeltaExt = st_m'.lastDeltaExt ∧
      pairs st_m'.fields = pairs st_m.fields ++ [(semFid (st_m.optionIndex + semDelta hd), hd.value)] ∧
      st_m'.optionIndex = st_m.optionIndex + semDelta hd := by
  have hoff := (optionStep_progress buffer .syntactic st_s st_s' h).2.2
  have hfacts := header_facts (buffer.from_ st_s.cursor) hside hoff
  simp only [hhd] at hoff hfacts
  obtain ⟨f1, f2, _, _, f5, f6, _⟩ := hfacts
  have hv := value_lt hd.delta
  rw [f2] at hv
  have hflag : ¬ hd.delta.value < 13 → (hd.d13 || hd.d14) = true := by
    intro c
    rw [f5, f6]
    have : hd.delta.value = 13 ∨ hd.delta.value = 14 := by omega
    rcases this with e | e <;> simp [e]
  clear hv f2 f1
  refine ⟨hoff, ?_, ?_⟩
  · unfold optionStep at h
    split at h
    · simp [pure, Except.pure] at h
    · simp only [bind, Except.bind] at h
      split at h
      · simp [throw, throwThe, MonadExceptOf.throw] at h
      · simp only [pure, Except.pure, Except.ok.injEq, Option.some.injEq] at h
        subst h
        show pairs (st_s.fields ++ _) = _
        rw [pairs_append]
        congr 1
        rw [← hhd]
        exact pairs_syn _ _ _ _ _ _
  · unfold optionStep at h ⊢
    rw [← hc, ← hl]
    split at h
    · simp [pure, Except.pure] at h
    · rename_i hg
      rw [if_neg hg]
      simp only [bind, Except.bind, hhd] at h ⊢
      split at h
      · simp [throw, throwThe, MonadExceptOf.throw] at h
      · rename_i hfit
        rw [if_neg hfit]
        simp only [pure, Except.pure, Except.ok.injEq, Option.some.injEq] at h
        subst h
        simp only
        by_cases c : hd.delta.value < 13
        · simp only [c, if_true]
          refine ⟨_, rfl, rfl, rfl, ?_, ?_⟩
          · simp only [pairs_append, semDelta, optTotal, c, if_true]; rfl
          · simp only [semDelta, optTotal, c, if_true]
        · simp only [c, if_false, hflag c, if_true]
          refine ⟨_, rfl, rfl, rfl, ?_, ?_⟩
          · simp only [pairs_append, semDelta, optTotal, c, if_false, Nat.add_assoc]; rfl
          · simp only [semDelta, optTotal, c, if_false, Nat.add_assoc]

end Schc

namespace Schc

/-- the (id, value) pairs the syntactic walk appends in one iteration (needs no well-formedness) -/
theorem step_syn_pairs (buffer : ABuf) (st_s st_s' : OptState) (h : optionStep buffer .syntactic st_s = .ok (some st_s')) :
    pairs st_s'.fields = pairs st_s.fields ++ synPairs (optionHeader (buffer.from_ st_s.cursor)) := by
  unfold optionStep at h
  split at h
  · simp [pure, Except.pure] at h
  · simp only [bind, Except.bind] at h
    split at h
    · simp [throw, throwThe, MonadExceptOf.throw] at h
    · simp only [pure, Except.pure, Except.ok.injEq, Option.some.injEq] at h
      subst h
      show pairs (st_s.fields ++ _) = _
      rw [pairs_append]
      congr 1
      exact pairs_syn _ _ _ _ _ _

theorem loop_fields_grow (buffer : ABuf) (fuel : Nat) (st r : OptState) (h : optionLoop buffer .syntactic fuel st = .ok r) :
    ∃ extra, pairs r.fields = pairs st.fields ++ extra := by
  induction fuel generalizing st with
  | zero => simp [optionLoop, throw, throwThe, MonadExceptOf.throw] at h
  | succ fuel ih =>
    unfold optionLoop at h
    simp only [bind, Except.bind] at h
    cases hs : optionStep buffer .syntactic st with
    | error e => simp [hs] at h
    | ok o =>
      cases o with
      | none => simp only [hs, pure, Except.pure, Except.ok.injEq] at h; subst h; exact ⟨[], by simp⟩
      | some s2 =>
        simp only [hs] at h
        obtain ⟨extra, he⟩ := ih s2 h
        exact ⟨synPairs (optionHeader (buffer.from_ st.cursor)) ++ extra, by rw [he, step_syn_pairs _ _ _ hs, List.append_assoc]⟩

def AllFixed (l : List (String × ABuf)) : Prop := ∀ p ∈ l, coapFixedIds.contains p.1 = true

theorem unparse_fixed (l : List (String × ABuf)) (hl : AllFixed l) (ln : Option Nat) (prev : Nat) : coapUnparseSemantic l ln prev = .ok l := by
  induction l with
  | nil => rfl
  | cons p ps ih =>
    obtain ⟨fid, v⟩ := p
    have h1 : coapFixedIds.contains fid = true := hl (fid, v) (by simp)
    unfold coapUnparseSemantic
    simp only [h1, if_true, bind, Except.bind, ih (fun q hq => hl q (List.mem_cons_of_mem _ hq)), pure, Except.pure]

/-- un-parsing one semantic option field -/
theorem unparse_option (prev d : Nat) (v : ABuf) (rest : List (String × ABuf)) (ln : Option Nat) :
    coapUnparseSemantic ((semFid (prev + d), v) :: rest) ln prev =
      (do let out ← encodeOption d v
          let r ← coapUnparseSemantic rest (some (prev + d)) (prev + d)
          pure (out ++ r)) := by
  obtain ⟨h1, h2⟩ := semFid_number (prev + d) ln
  have h3 : ¬ (prev + d < prev) := by omega
  conv => lhs; unfold coapUnparseSemantic
  simp only [h2, Bool.false_eq_true, if_false, bind, Except.bind, h1, h3, Nat.add_sub_cancel_left]

def WfNibbles (ps : List (String × ABuf)) : Prop :=
  ∀ p ∈ ps, (p.1 = Gen.CoAPF.OPTION_DELTA ∨ p.1 = Gen.CoAPF.OPTION_LENGTH) → p.2.value ≠ 15

/-- the two option walks in lockstep: the semantic fields un-parse to the syntactic fields -/
theorem loop_sync (buffer : ABuf) (hside : buffer.side = .left) (fuel : Nat) (st_s st_m r_s : OptState)
    (hc : st_s.cursor = st_m.cursor) (hl : st_s.lastDeltaExt = st_m.lastDeltaExt)
    (h : optionLoop buffer .syntactic fuel st_s = .ok r_s) (hwf : WfNibbles (pairs r_s.fields)) :
    ∃ r_m newS newM, optionLoop buffer .semantic fuel st_m = .ok r_m ∧ r_s.cursor = r_m.cursor ∧
      pairs r_s.fields = pairs st_s.fields ++ newS ∧ pairs r_m.fields = pairs st_m.fields ++ newM ∧
      ∀ tail ln, AllFixed tail → coapUnparseSemantic (newM ++ tail) ln st_m.optionIndex = .ok (newS ++ tail) := by
  induction fuel generalizing st_s st_m with
  | zero => simp [optionLoop, throw, throwThe, MonadExceptOf.throw] at h
  | succ fuel ih =>
    unfold optionLoop at h ⊢
    simp only [bind, Except.bind] at h ⊢
    cases hs : optionStep buffer .syntactic st_s with
    | error e => simp [hs] at h
    | ok o =>
      cases o with
      | none =>
        simp only [hs, pure, Except.pure, Except.ok.injEq] at h
        subst h
        rw [step_none_sync buffer st_s st_m hc hs]
        exact ⟨st_m, [], [], rfl, hc, by simp, by simp, fun tail ln ht => by simp [unparse_fixed tail ht]⟩
      | some s2 =>
        simp only [hs] at h
        -- the header of this option is among the final syntactic fields, so it is well-formed
        obtain ⟨extra, hex⟩ := loop_fields_grow buffer fuel s2 r_s h
        have hsp := step_syn_pairs buffer st_s s2 hs
        generalize hhd : optionHeader (buffer.from_ st_s.cursor) = hd at hsp
        have hmem : ∀ p ∈ synPairs hd, p ∈ pairs r_s.fields := by
          intro p hp; rw [hex, hsp]; simp [hp]
        have hd15 : hd.delta.value ≠ 15 := hwf (Gen.CoAPF.OPTION_DELTA, hd.delta) (hmem _ (by simp [synPairs])) (Or.inl rfl)
        have hl15 : hd.len.value ≠ 15 := hwf (Gen.CoAPF.OPTION_LENGTH, hd.len) (hmem _ (by simp [synPairs])) (Or.inr rfl)
        obtain ⟨hoff, _, m2, hm2, c2, l2, pm2, oi2⟩ := step_sync buffer hside st_s s2 st_m hc hl hs hd hhd hd15
        rw [hm2]
        simp only
        obtain ⟨r_m, newS, newM, g1, g2, g3, g4, g5⟩ := ih s2 m2 c2 l2 h
        refine ⟨r_m, synPairs hd ++ newS, (semFid (st_m.optionIndex + semDelta hd), hd.value) :: newM, g1, g2, ?_, ?_, ?_⟩
        · rw [g3, hsp, List.append_assoc]
        · rw [g4, pm2, List.append_assoc]; rfl
        · intro tail ln ht
          rw [List.cons_append, unparse_option]
          have henc := encode_option (buffer.from_ st_s.cursor) hside (by rw [hhd]; exact hoff) (by rw [hhd]; exact hd15) (by rw [hhd]; exact hl15)
          rw [hhd] at henc
          rw [oi2] at g5
          simp only [bind, Except.bind, henc, g5 tail _ ht, pure, Except.pure, List.append_assoc]

end Schc

namespace Schc

theorem unparse_fixed_prefix (pre X Y : List (String × ABuf)) (hp : AllFixed pre) (ln : Option Nat) (prev : Nat)
    (h : coapUnparseSemantic X ln prev = .ok Y) : coapUnparseSemantic (pre ++ X) ln prev = .ok (pre ++ Y) := by
  induction pre with
  | nil => exact h
  | cons p ps ih =>
    obtain ⟨fid, v⟩ := p
    have h1 : coapFixedIds.contains fid = true := hp (fid, v) (by simp)
    rw [List.cons_append]
    unfold coapUnparseSemantic
    simp only [h1, if_true, bind, Except.bind, ih (fun q hq => hp q (List.mem_cons_of_mem _ hq)), pure, Except.pure, List.cons_append]

theorem fixed_layout_ids : Gen.coapFixedLayout.all (fun e => coapFixedIds.contains e.1) = true := by decide +kernel

theorem parseFixed_allFixed (b : ABuf) : AllFixed (pairs (parseFixed Gen.coapFixedLayout b)) := by
  intro p hp
  simp only [pairs, parseFixed, List.map_map, List.mem_map] at hp
  obtain ⟨e, he, rfl⟩ := hp
  exact List.all_eq_true.mp fixed_layout_ids e he

theorem marker_fixed : coapFixedIds.contains Gen.CoAPF.PAYLOAD_MARKER = true := by decide +kernel
theorem token_fixed : coapFixedIds.contains Gen.CoAPF.TOKEN = true := by decide +kernel

/-- `_parse_options` in both modes -/
theorem parseOptions_sync (ob : ABuf) (hside : ob.side = .left) (fuel : Nat) (fs_s : List Field) (c_s : Nat)
    (h : parseOptions ob .syntactic fuel = .ok (fs_s, c_s)) (hwf : WfNibbles (pairs fs_s)) :
    ∃ fs_m, parseOptions ob .semantic fuel = .ok (fs_m, c_s) ∧
      ∀ ln, coapUnparseSemantic (pairs fs_m) ln 0 = .ok (pairs fs_s) := by
  unfold parseOptions at h ⊢
  simp only [bind, Except.bind] at h ⊢
  cases hl : optionLoop ob .syntactic fuel {} with
  | error e => simp [hl] at h
  | ok r_s =>
    simp only [hl] at h
    have hwf' : WfNibbles (pairs r_s.fields) := by
      intro p hp
      apply hwf p
      split at h <;>
        (simp only [pure, Except.pure, Except.ok.injEq, Prod.mk.injEq] at h; rw [← h.1]; simp [hp])
    obtain ⟨r_m, newS, newM, g1, g2, g3, g4, g5⟩ := loop_sync ob hside fuel {} {} r_s rfl rfl hl hwf'
    rw [g1]
    simp only [← g2]
    simp only [pairs_nil, List.nil_append] at g3 g4
    by_cases hcur : r_s.cursor < ob.length
    · simp only [hcur, if_true, pure, Except.pure, Except.ok.injEq, Prod.mk.injEq] at h ⊢
      refine ⟨_, ⟨rfl, h.2⟩, ?_⟩
      intro ln
      rw [← h.1, pairs_append, pairs_append, g3, g4]
      exact g5 _ ln (by intro p hp; simp [pairs] at hp; rw [hp]; exact marker_fixed)
    · simp only [hcur, if_false, pure, Except.pure, Except.ok.injEq, Prod.mk.injEq] at h ⊢
      refine ⟨_, ⟨rfl, h.2⟩, ?_⟩
      intro ln
      rw [← h.1, g3, g4]
      have := g5 [] ln (by intro p hp; cases hp)
      simpa using this

/-- C19 core: for a LEFT-padded message whose syntactic parse succeeds with no reserved nibble (15) in any option
    delta / length, the semantic parse succeeds, covers the same bytes, and un-parsing its fields gives exactly the
    syntactic (id, value) sequence -/
theorem coap_semantic_lossless (fuel : Nat) (b : ABuf) (hside : b.side = .left) (hs : Header)
    (h : coapParse .syntactic fuel b = .ok hs) (hwf : WfNibbles (pairs hs.fields)) :
    ∃ hm, coapParse .semantic fuel b = .ok hm ∧ hm.length = hs.length ∧
      coapUnparse .semantic (pairs hm.fields) = .ok (pairs hs.fields) := by
  unfold coapParse at h ⊢
  by_cases hmin : b.length < Gen.coapMinLength
  · simp [hmin, throw, throwThe, MonadExceptOf.throw, bind, Except.bind] at h
  · simp only [hmin, if_false, bind, Except.bind, pure, Except.pure] at h ⊢
    cases hi : idx (fieldValue (parseFixed Gen.coapFixedLayout b) Gen.CoAPF.TOKEN_LENGTH).content 0 with
    | error e => simp [hi] at h
    | ok tkl =>
      simp only [hi] at h ⊢
      generalize hhf : (if tkl > 0 then parseFixed Gen.coapFixedLayout b ++ [⟨Gen.CoAPF.TOKEN, b.slice 32 (32 + tkl * 8), 0⟩]
        else parseFixed Gen.coapFixedLayout b) = hf at h ⊢
      have hfix : AllFixed (pairs hf) := by
        rw [← hhf]; split
        · intro p hp
          rw [pairs_append] at hp
          rcases List.mem_append.mp hp with q | q
          · exact parseFixed_allFixed b p q
          · simp [pairs] at q; rw [q]; exact token_fixed
        · exact parseFixed_allFixed b
      by_cases hob : (b.from_ (32 + tkl * 8)).length > 0
      · simp only [hob, if_true] at h ⊢
        cases hp : asParserError (parseOptions (b.from_ (32 + tkl * 8)) .syntactic fuel) with
        | error e => simp [hp] at h
        | ok r =>
          obtain ⟨fs_s, c_s⟩ := r
          simp only [hp, Except.ok.injEq] at h
          have hp' := asParserError_ok _ _ hp
          have hwf' : WfNibbles (pairs fs_s) := by
            intro p hpm; apply hwf p; rw [← h]; simp [hpm]
          obtain ⟨fs_m, q1, q2⟩ := parseOptions_sync (b.from_ (32 + tkl * 8)) hside fuel fs_s c_s hp' hwf'
          rw [q1]
          simp only [asParserError]
          refine ⟨_, rfl, by rw [← h], ?_⟩
          simp only [coapUnparse, pairs_append]
          rw [← h]
          simp only [pairs_append]
          exact unparse_fixed_prefix _ _ _ hfix none 0 (q2 none)
      · simp only [hob, if_false, Except.ok.injEq] at h ⊢
        refine ⟨_, rfl, by rw [← h], ?_⟩
        simp only [coapUnparse]
        rw [← h]
        simp only [List.append_nil]
        exact unparse_fixed _ hfix none 0

end Schc
