/- C20: the compute functions are total on any field list at a valid stack position (sizes below 64 KiB). -/
import Schc.Proofs.Total
import Schc.Proofs.Checksum
import Schc.Properties.C09

namespace Schc
open Compute

def totalBits (fs : Fields) : Nat := (fs.map (·.2.length)).sum

theorem add_length (a b : ABuf) : (a.add b).length = a.length + b.length := by simp [ABuf.add, ABuf.length]

theorem concat_length (init : ABuf) (l : List ABuf) : (concat init l).length = init.length + (l.map ABuf.length).sum := by
  unfold concat
  induction l generalizing init with
  | nil => simp
  | cons x xs ih => simp only [List.foldl_cons, ih, add_length, List.map_cons, List.sum_cons]; omega

theorem concat1_ok (l : List ABuf) (h : l ≠ []) : ∃ v, concat1 l = .ok v ∧ v.length = (l.map ABuf.length).sum := by
  cases l with
  | nil => exact absurd rfl h
  | cons x xs =>
    refine ⟨_, rfl, ?_⟩
    have := concat_length x xs
    unfold concat at this
    rw [this]; simp

theorem sum_drop_le (l : List Nat) (k : Nat) : (l.drop k).sum ≤ l.sum := by
  induction l generalizing k with
  | nil => simp
  | cons x xs ih =>
    cases k with
    | zero => simp
    | succ k => simp only [List.drop_succ_cons, List.sum_cons]; have := ih k; omega

theorem sum_take_le (l : List Nat) (k : Nat) : (l.take k).sum ≤ l.sum := by
  induction l generalizing k with
  | nil => simp
  | cons x xs ih =>
    cases k with
    | zero => simp
    | succ k => simp only [List.take_succ_cons, List.sum_cons]; have := ih k; omega

theorem map_sum_drop_le {α} (l : List α) (f : α → Nat) (k : Nat) : ((l.drop k).map f).sum ≤ (l.map f).sum := by
  rw [List.map_drop]; exact sum_drop_le _ _

theorem map_sum_take_le {α} (l : List α) (f : α → Nat) (k : Nat) : ((l.take k).map f).sum ≤ (l.map f).sum := by
  rw [List.map_take]; exact sum_take_le _ _

theorem drop_bits_le (fs : Fields) (k : Nat) : (((fs.drop k).map (·.2)).map ABuf.length).sum ≤ totalBits fs := by
  unfold totalBits
  rw [List.map_map]
  exact map_sum_drop_le fs _ k

theorem pySlice_bits_le (fs : Fields) (a : Int) (b : Option Int) : (((pySlice fs a b).map (·.2)).map ABuf.length).sum ≤ totalBits fs := by
  obtain ⟨s, n, h⟩ : ∃ s n, pySlice fs a b = (fs.drop s).take n := ⟨_, _, rfl⟩
  unfold totalBits
  rw [h, List.map_map]
  exact Nat.le_trans (map_sum_take_le _ _ _) (map_sum_drop_le fs _ s)

theorem pySlice_ne_nil {α} (l : List α) (i : Int) (hn : 0 < l.length) (hi : i < (l.length : Int)) : pySlice l i none ≠ [] := by
  intro h
  have := congrArg List.length h
  simp only [pySlice, List.length_take, List.length_drop, List.length_nil] at this
  by_cases c : i < 0
  · simp only [c, if_true] at this; omega
  · simp only [c, if_false] at this; omega

theorem natBuf_ok (k n : Nat) (h : n < 256 ^ k) : natBuf k n = .ok (ABuf.ofNat (8 * k) n) := by simp [natBuf, h, pure, Except.pure]

theorem ofNat_len (n v : Nat) : (ABuf.ofNat n v).length = n := by simp [ABuf.ofNat, ABuf.length]

theorem ceilBytes_lt (n : Nat) (h : n + 8 ≤ 2 ^ 19) : ceilBytes n < 256 ^ 2 := by
  unfold ceilBytes; split <;> omega

/-! ### the six compute functions -/

theorem ipv6PayloadLength_total (fs : Fields) (pos : Nat) (hsz : totalBits fs + 8 ≤ 2 ^ 19) :
    ∃ v, ipv6PayloadLength fs pos = .ok v ∧ v.length ≤ 32 := by
  unfold ipv6PayloadLength
  have hl := concat_length (ABuf.empty .left) ((fs.drop (pos + 5)).map (·.2))
  have hb := drop_bits_le fs (pos + 5)
  have he : (ABuf.empty .left).length = 0 := rfl
  rw [natBuf_ok _ _ (ceilBytes_lt _ (by omega))]
  exact ⟨_, rfl, by rw [ofNat_len]; omega⟩

theorem ipv4TotalLength_total (fs : Fields) (pos : Nat) (hsz : totalBits fs + 8 ≤ 2 ^ 19) :
    ∃ v, ipv4TotalLength fs pos = .ok v ∧ v.length ≤ 32 := by
  unfold ipv4TotalLength
  have hl := concat_length (ABuf.empty .left) ((pySlice fs ((pos : Int) - 2) none).map (·.2))
  have hb := pySlice_bits_le fs ((pos : Int) - 2) none
  have he : (ABuf.empty .left).length = 0 := rfl
  rw [natBuf_ok _ _ (ceilBytes_lt _ (by omega))]
  exact ⟨_, rfl, by rw [ofNat_len]; omega⟩

theorem ipv4HeaderChecksum_total (fs : Fields) (pos : Nat) : ∃ v, ipv4HeaderChecksum fs pos = .ok v ∧ v.length ≤ 32 := by
  unfold ipv4HeaderChecksum
  have h : ∀ x : Nat, x &&& 0xffff < 256 ^ 2 := fun x => Nat.lt_of_le_of_lt Nat.and_le_right (by decide)
  rw [natBuf_ok _ _ (h _)]
  exact ⟨_, rfl, by rw [ofNat_len]; omega⟩

theorem udpLength_total (fs : Fields) (pos : Nat) (hpos : pos < fs.length) (hsz : totalBits fs + 8 ≤ 2 ^ 19) :
    ∃ v, udpLength fs pos = .ok v ∧ v.length ≤ 32 := by
  unfold udpLength
  have hne : (pySlice fs ((pos : Int) - 2) none).map (·.2) ≠ [] := by
    intro h; exact pySlice_ne_nil fs _ (by omega) (by omega) (List.map_eq_nil_iff.mp h)
  obtain ⟨b, hb1, hb2⟩ := concat1_ok _ hne
  have hb := pySlice_bits_le fs ((pos : Int) - 2) none
  simp only [hb1, bind, Except.bind]
  rw [natBuf_ok _ _ (ceilBytes_lt _ (by omega))]
  exact ⟨_, rfl, by rw [ofNat_len]; omega⟩

end Schc

namespace Schc
open Compute

/-- the source address is found walking back from the field before the UDP header, and the destination follows it -/
def srcOK (ids : List String) (last : Nat) (target : String) : Bool :=
  match (List.range last).find? (fun off => ids[last - off]? == some target) with
  | some off => decide (last - off + 1 < ids.length)
  | none => false

/-- what `udp._compute_checksum` needs of the field ids around position `pos`: four fields back sits an IPv6 / IPv4
    field, and that header's source address is found (the layout every UDP-over-IP rule has) -/
def udpChecksumOK (ids : List String) (pos : Nat) : Bool :=
  decide (4 ≤ pos) && match ids[pos - 4]? with
    | none => false
    | some lastId =>
      if strContains lastId Gen.ipv6HeaderId then srcOK ids (pos - 4) Gen.IPv6F.SRC_ADDRESS
      else if strContains lastId Gen.ipv4HeaderId then srcOK ids (pos - 4) Gen.IPv4F.SRC_ADDRESS
      else false

theorem udpChecksumOf_total (pseudo up : ABuf) : ∃ v, udpChecksumOf pseudo up = .ok v ∧ v.length ≤ 32 := by
  unfold udpChecksumOf
  simp only
  have h : ∀ x : Nat, (if (0xffff - x) &&& 0xffff = 0 then 0xffff else (0xffff - x) &&& 0xffff) < 256 ^ 2 := by
    intro x; split
    · decide
    · exact Nat.lt_of_le_of_lt Nat.and_le_right (by decide)
  rw [natBuf_ok _ _ (h _)]
  exact ⟨_, rfl, by rw [ofNat_len]; omega⟩

theorem getField_ok (fs : Fields) (i : Nat) (h : i < fs.length) : ∃ v, getField fs i = .ok v := by
  unfold getField
  rw [List.getElem?_eq_getElem h]
  exact ⟨_, rfl⟩

theorem pseudo_total (fs : Fields) (last : Nat) (target : String) (h : srcOK (fs.map (·.1)) last target = true) :
    ∃ off src dst, findBackwards (fs.map (·.1)) last target = .ok off ∧ getField fs (last - off) = .ok src ∧
      getField fs (last - off + 1) = .ok dst := by
  unfold srcOK at h
  unfold findBackwards
  cases hf : (List.range last).find? (fun off => (fs.map (·.1))[last - off]? == some target) with
  | none => rw [hf] at h; simp at h
  | some off =>
    rw [hf] at h
    simp only [decide_eq_true_eq, List.length_map] at h
    obtain ⟨src, hs⟩ := getField_ok fs (last - off) (by omega)
    obtain ⟨dst, hd⟩ := getField_ok fs (last - off + 1) h
    exact ⟨off, src, dst, rfl, hs, hd⟩

theorem udpChecksum_total (fs : Fields) (pos : Nat) (hpos : pos < fs.length) (hok : udpChecksumOK (fs.map (·.1)) pos = true)
    (hsz : totalBits fs + 8 ≤ 2 ^ 19) : ∃ v, udpChecksum fs pos = .ok v ∧ v.length ≤ 32 := by
  unfold udpChecksumOK at hok
  simp only [Bool.and_eq_true, decide_eq_true_eq] at hok
  obtain ⟨h4, hm⟩ := hok
  unfold udpChecksum
  have hn4 : ¬ pos < 4 := by omega
  simp only [hn4, if_false, bind, Except.bind]
  cases hl : (fs.map (·.1))[pos - 4]? with
  | none => simp [hl] at hm
  | some lastId =>
    simp only [hl] at hm ⊢
    have hne : (fs.drop (pos - 3)).map (·.2) ≠ [] := by
      intro h
      have := congrArg List.length h
      simp at this; omega
    obtain ⟨up, hu1, hu2⟩ := concat1_ok _ hne
    have hub := drop_bits_le fs (pos - 3)
    simp only [pure, Except.pure, hu1]
    have hc4 : ceilBytes up.length < 256 ^ 4 := Nat.lt_trans (ceilBytes_lt _ (by omega)) (by decide)
    have hc2 : ceilBytes up.length < 256 ^ 2 := ceilBytes_lt _ (by omega)
    by_cases c6 : strContains lastId Gen.ipv6HeaderId = true
    · simp only [c6, if_true] at hm ⊢
      obtain ⟨off, src, dst, p1, p2, p3⟩ := pseudo_total fs (pos - 4) _ hm
      simp only [p1, p2, p3, natBuf_ok _ _ hc4]
      exact udpChecksumOf_total _ _
    · simp only [c6, if_false] at hm ⊢
      by_cases c4 : strContains lastId Gen.ipv4HeaderId = true
      · simp only [c4, if_true] at hm ⊢
        obtain ⟨off, src, dst, p1, p2, p3⟩ := pseudo_total fs (pos - 4) _ hm
        simp only [p1, p2, p3, natBuf_ok _ _ hc2]
        exact udpChecksumOf_total _ _
      · simp [c4] at hm

theorem chunksAux_join (n : Nat) (fuel : Nat) (b : Bits) : (Bits.chunksAux n false fuel b).flatten = b := by
  induction fuel generalizing b with
  | zero => simp [Bits.chunksAux]
  | succ fuel ih =>
    unfold Bits.chunksAux
    split
    · simp
    · simp [ih]

theorem chunksAux_ne_nil (n : Nat) (pad : Bool) (fuel : Nat) (b : Bits) : Bits.chunksAux n pad fuel b ≠ [] := by
  cases fuel <;> unfold Bits.chunksAux <;> (try split) <;> simp

theorem sum_reverse (l : List Nat) : l.reverse.sum = l.sum := by
  induction l with
  | nil => rfl
  | cons x xs ih => simp [ih]; omega

theorem sctpChecksum_total (fs : Fields) (pos : Nat) (hpos : pos < fs.length) : ∃ v, sctpChecksum fs pos = .ok v ∧ v.length ≤ 32 := by
  have hne : (pySlice fs ((pos : Int) - 3) none).map (·.2) ≠ [] := by
    intro h; exact pySlice_ne_nil fs _ (by omega) (by omega) (List.map_eq_nil_iff.mp h)
  obtain ⟨all, ha1, _⟩ := concat1_ok _ hne
  rw [C09_sctp fs pos all ha1]
  simp only
  generalize hcrc : ABuf.ofNat 32 (Spec.crcBitwise ((all.chunks 8 true).map ABuf.value) 0xffffffff) = crc
  have hcl : crc.bits.length = 32 := by rw [← hcrc]; simp [ABuf.ofNat]
  generalize hinv : (⟨crc.bits.map not, crc.side⟩ : ABuf) = inv
  have hil : inv.bits.length = 32 := by rw [← hinv]; simp [hcl]
  have hne2 : (inv.chunks 8 false).reverse ≠ [] := by
    intro h
    have h2 := List.reverse_eq_nil_iff.mp h
    simp only [ABuf.chunks, List.map_eq_nil_iff, Bits.chunks] at h2
    exact chunksAux_ne_nil _ _ _ _ h2
  obtain ⟨v, hv1, hv2⟩ := concat1_ok _ hne2
  refine ⟨v, hv1, ?_⟩
  rw [hv2, List.map_reverse, sum_reverse]
  simp only [ABuf.chunks, List.map_map, Bits.chunks]
  have hj := congrArg List.length (chunksAux_join 8 inv.bits.length inv.bits)
  rw [List.length_flatten] at hj
  have : (List.map (ABuf.length ∘ fun c => ({ bits := c, side := inv.side } : ABuf)) (Bits.chunksAux 8 false inv.bits.length inv.bits)) =
      List.map List.length (Bits.chunksAux 8 false inv.bits.length inv.bits) := by
    apply List.map_congr_left; intro c _; rfl
  rw [this, hj, hil]; decide

end Schc

namespace Schc
open Compute

/-- a compute field sits at a position where its function can run: only the UDP checksum looks at its neighbours -/
def computeOK (ids : List String) (pos : Nat) (fid : String) : Bool :=
  match Gen.computeFunctions.find? (·.1 == fid) with
  | none => false
  | some (_, fn, _) => if fn == "udp._compute_checksum" then udpChecksumOK ids pos else true

theorem compute_fn_known : Gen.computeFunctions.all (fun e =>
    ["ipv4._compute_total_length", "ipv4._compute_checksum", "ipv6._compute_payload_length", "udp._compute_length",
     "udp._compute_checksum", "sctp._compute_checksum"].contains e.2.1) = true := by decide +kernel

/-- every registered compute function returns a buffer of at most 32 bits -/
theorem compute_total (fid : String) (fs : Fields) (pos : Nat) (hpos : pos < fs.length)
    (hok : computeOK (fs.map (·.1)) pos fid = true) (hsz : totalBits fs + 8 ≤ 2 ^ 19) :
    ∃ v, compute fid fs pos = .ok v ∧ v.length ≤ 32 := by
  unfold computeOK at hok
  unfold compute
  cases hf : Gen.computeFunctions.find? (·.1 == fid) with
  | none => rw [hf] at hok; simp at hok
  | some e =>
    obtain ⟨id, fn, deps⟩ := e
    rw [hf] at hok
    simp only at hok ⊢
    have hm := List.mem_of_find?_eq_some hf
    have hk := List.all_eq_true.mp compute_fn_known _ hm
    simp only [List.contains_iff_mem, List.mem_cons, List.not_mem_nil, or_false] at hk
    rcases hk with h | h | h | h | h | h <;> subst h
    · exact ipv4TotalLength_total fs pos hsz
    · exact ipv4HeaderChecksum_total fs pos
    · exact ipv6PayloadLength_total fs pos hsz
    · exact udpLength_total fs pos hpos hsz
    · exact udpChecksum_total fs pos hpos hok hsz
    · exact sctpChecksum_total fs pos hpos

theorem set_sum_le {α} (l : List α) (f : α → Nat) (i : Nat) (x : α) : ((l.set i x).map f).sum ≤ (l.map f).sum + f x := by
  induction l generalizing i with
  | nil => simp
  | cons y ys ih =>
    cases i with
    | zero => simp; omega
    | succ i => simp only [List.set_cons_succ, List.map_cons, List.sum_cons]; have := ih i; omega

theorem set_ids (fs : Fields) (pos : Nat) (id : String) (v : ABuf) (h : (fs.map (·.1))[pos]? = some id) :
    (fs.set pos (id, v)).map (·.1) = fs.map (·.1) := by
  apply List.ext_getElem?
  intro i
  simp only [List.getElem?_map, List.getElem?_set]
  by_cases c : pos = i
  · subst c
    simp only [List.getElem?_map] at h
    simp only [if_true]
    split
    · simp [h]
    · rename_i hlt
      simp only [List.getElem?_eq_none (by omega : fs.length ≤ pos)] at h
      simp at h
  · simp [c]

/-- running any list of compute entries that sit at valid positions -/
theorem runComputes_total (ces : List ComputeEntry) (fs : Fields)
    (hces : ∀ ce ∈ ces, ce.pos < fs.length ∧ (fs.map (·.1))[ce.pos]? = some ce.id ∧ computeOK (fs.map (·.1)) ce.pos ce.id = true)
    (hsz : totalBits fs + 32 * ces.length + 8 ≤ 2 ^ 19) : ∃ out, runComputes ces fs = .ok out := by
  induction ces generalizing fs with
  | nil => exact ⟨_, rfl⟩
  | cons ce ces ih =>
    obtain ⟨h1, h2, h3⟩ := hces ce (by simp)
    simp only [List.length_cons] at hsz
    obtain ⟨v, hv1, hv2⟩ := compute_total ce.id fs ce.pos h1 h3 (by omega)
    simp only [runComputes, hv1, bind, Except.bind]
    have hids := set_ids fs ce.pos ce.id v h2
    apply ih
    · intro c hc
      obtain ⟨g1, g2, g3⟩ := hces c (List.mem_cons_of_mem _ hc)
      rw [hids]
      exact ⟨by simp; exact g1, g2, g3⟩
    · have := set_sum_le fs (·.2.length) ce.pos (ce.id, v)
      unfold totalBits at hsz ⊢
      simp only at this
      omega

theorem insertEntry_mem (e : ComputeEntry) (l : List ComputeEntry) (x : ComputeEntry) (h : x ∈ insertEntry e l) : x = e ∨ x ∈ l := by
  induction l with
  | nil => simp [insertEntry] at h; exact Or.inl h
  | cons y ys ih =>
    unfold insertEntry at h
    split at h
    · simp only [List.mem_cons] at h ⊢; rcases h with h | h | h <;> simp [h]
    · simp only [List.mem_cons] at h ⊢
      rcases h with h | h
      · simp [h]
      · rcases ih h with g | g <;> simp [g]

theorem insertEntry_length (e : ComputeEntry) (l : List ComputeEntry) : (insertEntry e l).length = l.length + 1 := by
  induction l with
  | nil => rfl
  | cons y ys ih => unfold insertEntry; split <;> simp [ih]

theorem sortEntries_mem (l : List ComputeEntry) : (∀ x ∈ sortEntries l, x ∈ l) ∧ (sortEntries l).length = l.length := by
  unfold sortEntries
  have gen : ∀ (rest acc : List ComputeEntry), (∀ x ∈ rest.foldl (fun acc e => insertEntry e acc) acc, x ∈ acc ∨ x ∈ rest) ∧
      (rest.foldl (fun acc e => insertEntry e acc) acc).length = acc.length + rest.length := by
    intro rest
    induction rest with
    | nil => intro acc; simp
    | cons e rest ih =>
      intro acc
      obtain ⟨i1, i2⟩ := ih (insertEntry e acc)
      simp only [List.foldl_cons]
      constructor
      · intro x hx
        rcases i1 x hx with h | h
        · rcases insertEntry_mem e acc x h with g | g
          · right; simp [g]
          · left; exact g
        · right; exact List.mem_cons_of_mem _ h
      · rw [i2, insertEntry_length]; simp; omega
  obtain ⟨g1, g2⟩ := gen l []
  refine ⟨?_, by simpa using g2⟩
  intro x hx
  rcases g1 x hx with h | h
  · cases h
  · exact h

end Schc

namespace Schc
open Compute

/-- bits a rule field contributes whatever the residue says (target value, longest mapping value, placeholder) -/
def staticLen (rf : RuleField) : Nat :=
  match rf.cda, rf.tv with
  | .notSent, .buf t => t.length
  | .lsb, .buf t => t.length
  | .mappingSent, .map fwd => (fwd.map (·.1.length)).sum
  | .compute, _ => rf.length
  | _, _ => 0

def staticBits (rfs : List RuleField) : Nat := (rfs.map staticLen).sum

theorem mem_le_sum {α} (l : List α) (f : α → Nat) (x : α) (h : x ∈ l) : f x ≤ (l.map f).sum := by
  induction l with
  | nil => cases h
  | cons y ys ih =>
    simp only [List.map_cons, List.sum_cons]
    rcases List.mem_cons.mp h with e | e
    · subst e; omega
    · have := ih e; omega

theorem dictSet_values (d : List (ABuf × ABuf)) (k v : ABuf) (P : ABuf → Prop) (hd : ∀ e ∈ d, P e.2) (hv : P v) :
    ∀ e ∈ dictSet d k v, P e.2 := by
  unfold dictSet
  split
  · intro e he
    simp only [List.mem_map] at he
    obtain ⟨e0, h0, rfl⟩ := he
    split
    · exact hv
    · exact hd e0 h0
  · intro e he
    rcases List.mem_append.mp he with h | h
    · exact hd e h
    · simp only [List.mem_singleton] at h; subst h; exact hv

theorem reverse_values (fwd : List (ABuf × ABuf)) : ∀ kv ∈ reverseOf fwd, ∃ e ∈ fwd, kv.2 = e.1 := by
  unfold reverseOf
  have gen : ∀ (rest acc : List (ABuf × ABuf)) (P : ABuf → Prop), (∀ e ∈ acc, P e.2) → (∀ e ∈ rest, P e.1) →
      ∀ kv ∈ rest.foldl (fun d e => dictSet d e.2 e.1) acc, P kv.2 := by
    intro rest
    induction rest with
    | nil => intro acc P h1 _ kv hkv; exact h1 kv hkv
    | cons e rest ih =>
      intro acc P h1 h2
      simp only [List.foldl_cons]
      apply ih
      · exact dictSet_values acc e.2 e.1 P h1 (h2 e (by simp))
      · intro x hx; exact h2 x (List.mem_cons_of_mem _ hx)
  exact gen fwd [] (fun v => ∃ e ∈ fwd, v = e.1) (by intro e he; cases he) (fun e he => ⟨e, he, rfl⟩)

theorem from_len (b : ABuf) (k : Nat) : (b.from_ k).length = b.length - k := by simp [ABuf.from_, ABuf.length]

theorem slice_len_le (s : ABuf) (i j : Nat) : (s.slice i j).length ≤ j - i ∧ (s.slice i j).length ≤ s.length - i := by
  simp only [ABuf.slice, Bits.slice, ABuf.length, List.length_take, List.length_drop]; omega

/-- one field: what it adds plus what is left never exceeds its static part plus what was there; a compute entry
    records this position and id -/
theorem decompressField_facts (s : ABuf) (pos : Nat) (rf : RuleField) (f : ABuf) (k : Nat) (ce : Option ComputeEntry)
    (h : decompressField s pos rf = .ok (f, k, ce)) :
    f.length + (s.from_ k).length ≤ staticLen rf + s.length ∧
    (∀ c, ce = some c → c.pos = pos ∧ c.id = rf.id ∧ rf.cda = .compute) := by
  have he : (ABuf.empty .right).length = 0 := rfl
  unfold decompressField at h
  unfold staticLen
  cases hc : rf.cda <;> cases ht : rf.tv <;> simp only [hc, ht, bind, Except.bind, pure, Except.pure] at h ⊢
  all_goals try (simp [throw, throwThe, MonadExceptOf.throw] at h; done)
  · -- notSent
    simp only [Except.ok.injEq, Prod.mk.injEq] at h
    obtain ⟨rfl, rfl, rfl⟩ := h
    simp only [add_length, he, from_len]
    exact ⟨by omega, by intro c hc; cases hc⟩
  · -- lsb
    rename_i t
    split at h
    · split at h
      · simp [throw, throwThe, MonadExceptOf.throw] at h
      · simp only [Except.ok.injEq, Prod.mk.injEq] at h
        obtain ⟨rfl, rfl, rfl⟩ := h
        have := slice_len_le s 0 (rf.length - t.length)
        simp only [add_length, he, from_len]
        exact ⟨by omega, by intro c hc; cases hc⟩
    · simp only [Except.ok.injEq, Prod.mk.injEq] at h
      obtain ⟨rfl, rfl, rfl⟩ := h
      have := slice_len_le s (decodeLength s).2 ((decodeLength s).2 + (decodeLength s).1)
      simp only [add_length, he, from_len]
      exact ⟨by omega, by intro c hc; cases hc⟩
  · -- mappingSent
    rename_i fwd
    split at h
    · rename_i kk vv hfind
      simp only [Except.ok.injEq, Prod.mk.injEq] at h
      obtain ⟨rfl, rfl, rfl⟩ := h
      obtain ⟨e, he1, he2⟩ := reverse_values fwd _ (List.mem_of_find?_eq_some hfind)
      have := mem_le_sum fwd (·.1.length) e he1
      simp only at he2 this
      simp only [add_length, he, from_len, he2]
      exact ⟨by omega, by intro c hc; cases hc⟩
    · simp only [Except.ok.injEq, Prod.mk.injEq] at h
      obtain ⟨rfl, rfl, rfl⟩ := h
      simp only [he, from_len]
      exact ⟨by omega, by intro c hc; cases hc⟩
  · -- valueSent
    split at h
    · simp only [Except.ok.injEq, Prod.mk.injEq] at h
      obtain ⟨rfl, rfl, rfl⟩ := h
      have := slice_len_le s 0 rf.length
      simp only [add_length, he, from_len]
      exact ⟨by omega, by intro c hc; cases hc⟩
    · simp only [Except.ok.injEq, Prod.mk.injEq] at h
      obtain ⟨rfl, rfl, rfl⟩ := h
      have := slice_len_le s (decodeLength s).2 ((decodeLength s).2 + (decodeLength s).1)
      simp only [add_length, he, from_len]
      exact ⟨by omega, by intro c hc; cases hc⟩
  all_goals
    -- compute (either target-value type)
    split at h
    · simp [throw, throwThe, MonadExceptOf.throw] at h
    · simp only [Except.ok.injEq, Prod.mk.injEq] at h
      obtain ⟨rfl, rfl, rfl⟩ := h
      simp only [ofNat_len, from_len]
      refine ⟨by omega, ?_⟩
      intro c hc'
      simp only [Option.some.injEq] at hc'
      subst hc'
      exact ⟨rfl, rfl, trivial⟩

end Schc

namespace Schc
open Compute

theorem totalBits_cons (p : String × ABuf) (fs : Fields) : totalBits (p :: fs) = p.2.length + totalBits fs := by
  simp [totalBits]

theorem totalBits_append (a b : Fields) : totalBits (a ++ b) = totalBits a + totalBits b := by
  simp [totalBits]

/-- the residue walk: ids are the rule's ids in order, every compute entry names its own position and id, and the
    rebuilt fields plus what is left of the residue never exceed the static bits plus the residue -/
theorem decompressFields_facts (rfs : List RuleField) (pos : Nat) (s : ABuf) (fs : Fields) (ces : List ComputeEntry) (rest : ABuf)
    (h : decompressFields rfs pos s = .ok (fs, ces, rest)) :
    fs.map (·.1) = rfs.map (·.id) ∧
    (∀ c ∈ ces, pos ≤ c.pos ∧ ∃ hlt : c.pos - pos < rfs.length, rfs[c.pos - pos].id = c.id ∧ rfs[c.pos - pos].cda = .compute) ∧
    ces.length ≤ rfs.length ∧
    totalBits fs + rest.length ≤ staticBits rfs + s.length := by
  induction rfs generalizing pos s fs ces rest with
  | nil =>
    simp only [decompressFields, pure, Except.pure, Except.ok.injEq, Prod.mk.injEq] at h
    obtain ⟨rfl, rfl, rfl⟩ := h
    exact ⟨rfl, ⟨(fun c hc => by cases hc), by simp, by simp [totalBits, staticBits]⟩⟩
  | cons rf rfs ih =>
    simp only [decompressFields, bind, Except.bind] at h
    cases h1 : decompressField s pos rf with
    | error e => simp [h1] at h
    | ok y =>
      obtain ⟨f, k, ce⟩ := y
      simp only [h1] at h
      cases h2 : decompressFields rfs (pos + 1) (s.from_ k) with
      | error e => simp [h2] at h
      | ok z =>
        obtain ⟨fs2, ces2, rest2⟩ := z
        simp only [h2, pure, Except.pure, Except.ok.injEq, Prod.mk.injEq] at h
        obtain ⟨rfl, rfl, rfl⟩ := h
        obtain ⟨i1, i2, i3, i4⟩ := ih (pos + 1) (s.from_ k) fs2 ces2 rest2 h2
        obtain ⟨g1, g2⟩ := decompressField_facts s pos rf f k ce h1
        refine ⟨by simp [i1], ?_, ?_, ?_⟩
        · intro c hc
          have hold : c ∈ ces2 → pos ≤ c.pos ∧ ∃ hlt : c.pos - pos < (rf :: rfs).length, (rf :: rfs)[c.pos - pos].id = c.id ∧ (rf :: rfs)[c.pos - pos].cda = .compute := by
            intro hm
            obtain ⟨a1, a2, a3, a4⟩ := i2 c hm
            have e : c.pos - pos = (c.pos - (pos + 1)) + 1 := by omega
            refine ⟨by omega, by simp; omega, ?_⟩
            simp only [e, List.getElem_cons_succ]
            exact ⟨a3, a4⟩
          cases ce with
          | none => exact hold hc
          | some c0 =>
            rcases List.mem_cons.mp hc with e | e
            · subst e
              obtain ⟨b1, b2, b3⟩ := g2 c rfl
              refine ⟨by omega, by simp; omega, ?_⟩
              have e : c.pos - pos = 0 := by omega
              simp only [e, List.getElem_cons_zero]
              exact ⟨b2.symm, b3⟩
            · exact hold e
        · cases ce <;> simp <;> omega
        · rw [totalBits_cons]
          simp only [staticBits, List.map_cons, List.sum_cons] at i4 ⊢
          rw [from_len] at i4 g1
          omega

/-- every compute field of the rule sits where its function can run (checked on the rule's own id list, with the
    payload pseudo-field the decompressor appends) -/
def ComputeStackOK (r : Rule) : Prop :=
  ∀ i (h : i < r.fields.length), r.fields[i].cda = .compute →
    computeOK (r.fields.map (·.id) ++ [Gen.payloadId]) i r.fields[i].id = true

/-- decompression with compute fields is total: for a rule whose descriptors have the asserted types and whose
    compute fields sit at valid stack positions, every bit string short of the 64 KiB datagram limit gives a buffer -/
theorem decompress_total_compute (s : ABuf) (r : Rule) (h : ∀ rf ∈ r.fields, CdaTypeOK rf) (hstack : ComputeStackOK r)
    (hsize : staticBits r.fields + s.length + 32 * r.fields.length + 8 ≤ 2 ^ 19) : ∃ d, decompress s r = .ok d := by
  unfold decompress decompressToFields
  obtain ⟨⟨fs, ces, rest⟩, h1⟩ := decompressFields_total r.fields 0 (s.from_ r.id.length) h
  obtain ⟨f1, f2, f3, f4⟩ := decompressFields_facts _ _ _ _ _ _ h1
  simp only [h1, bind, Except.bind]
  obtain ⟨s1, s2⟩ := sortEntries_mem ces
  have hlen : fs.length = r.fields.length := by
    have := congrArg List.length f1; simpa using this
  have hrun : ∃ out, runComputes (sortEntries ces) (fs ++ [(Gen.payloadId, rest)]) = .ok out := by
    apply runComputes_total
    · intro c hc
      obtain ⟨_, hlt, a1, a2⟩ := f2 c (s1 c hc)
      simp only [Nat.sub_zero] at hlt a1 a2
      have hids : (fs ++ [(Gen.payloadId, rest)]).map (·.1) = r.fields.map (·.id) ++ [Gen.payloadId] := by simp [f1]
      refine ⟨by simp; omega, ?_, ?_⟩
      · rw [hids, List.getElem?_append_left (by simpa using hlt), List.getElem?_map, List.getElem?_eq_getElem hlt]
        simp [a1]
      · rw [hids, ← a1]; exact hstack c.pos hlt a2
    · rw [totalBits_append, s2]
      have : totalBits [(Gen.payloadId, rest)] = rest.length := by simp [totalBits]
      rw [this, from_len] at *
      have : 32 * ces.length ≤ 32 * r.fields.length := Nat.mul_le_mul_left _ f3
      omega
  obtain ⟨out, ho⟩ := hrun
  simp only [ho, pure, Except.pure]
  exact ⟨_, rfl⟩

end Schc

namespace Schc

/-- executable form of `ComputeStackOK` (what the harness evaluates on generated rules) -/
def computeStackOKb (r : Rule) : Bool :=
  (List.range r.fields.length).all fun i =>
    match r.fields[i]? with
    | some rf => rf.cda != .compute || computeOK (r.fields.map (·.id) ++ [Gen.payloadId]) i rf.id
    | none => true

theorem computeStackOK_of_b (r : Rule) (h : computeStackOKb r = true) : ComputeStackOK r := by
  intro i hi hc
  have := List.all_eq_true.mp h i (List.mem_range.mpr hi)
  rw [List.getElem?_eq_getElem hi] at this
  simp only [hc, bne_self_eq_false, Bool.false_or] at this
  exact this

end Schc
