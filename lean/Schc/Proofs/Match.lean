/- C04 / C10 / C11: the rule matcher, rule selection, rule-ID dispatch. -/
import Schc.Spec.Rfc8724
import Schc.Py.Manager

namespace Schc

/-- the target value has the type the matching operator's assert demands -/
def MoTypeOK (rf : RuleField) : Prop :=
  match rf.mo, rf.tv with
  | .ignore, _ => True
  | .equal, .buf _ => True
  | .msb, .buf _ => True
  | .matchMapping, .map _ => True
  | _, _ => False

theorem fieldMatch_spec (pf : Field) (rf : RuleField) (h : MoTypeOK rf) :
    fieldMatch pf rf = .ok (Spec.fieldMatches pf rf) := by
  unfold MoTypeOK at h
  unfold fieldMatch Spec.fieldMatches
  by_cases hid : pf.id = rf.id
  · simp only [hid, ne_eq, not_true_eq_false, if_false, beq_self_eq_true, Bool.true_and]
    cases hm : rf.mo <;> cases ht : rf.tv <;> simp only [hm, ht] at h ⊢
    · simp [pure, Except.pure, ABuf.beq]
    · rfl
    · rfl
    · rename_i t
      simp only [msbMatch, ABuf.length, pure, Except.pure]
      by_cases h1 : rf.length ≠ 0 ∧ rf.length ≠ pf.value.bits.length
      · simp only [h1, and_self, if_true]
        congr 1
        have : (rf.length == 0 || rf.length == pf.value.bits.length) = false := by
          simp only [Bool.or_eq_false_iff, beq_eq_false_iff_ne]; exact h1
        simp [this]
      · simp only [h1, if_false]
        congr 1
        have : (rf.length == 0 || rf.length == pf.value.bits.length) = true := by
          simp only [Bool.or_eq_true, beq_iff_eq]
          by_cases h0 : rf.length = 0
          · left; exact h0
          · right; by_cases h2 : rf.length = pf.value.bits.length
            · exact h2
            · exact absurd ⟨h0, h2⟩ h1
        rw [this, Bool.true_and]
        by_cases h3 : t.bits.length > pf.value.bits.length
        · simp only [h3, if_true]
          have : decide (t.bits.length ≤ pf.value.bits.length) = false := by simp; omega
          simp [this]
        · simp only [h3, if_false]
          have : decide (t.bits.length ≤ pf.value.bits.length) = true := by simp; omega
          simp [this]
    · rename_i fwd
      simp only [pure, Except.pure, dictGet, Option.isSome_map, ABuf.beq]
      congr 1
      rw [Bool.eq_iff_iff]
      simp [List.find?_isSome]
  · have : (pf.id == rf.id) = false := by simpa using hid
    simp [hid, this, pure, Except.pure]

theorem anyMismatch_spec (pfs : List Field) (rfs : List RuleField) (h : ∀ rf ∈ rfs, MoTypeOK rf) :
    anyMismatch pfs rfs = .ok (!Spec.allMatch pfs rfs) := by
  induction pfs generalizing rfs with
  | nil => simp [anyMismatch, Spec.allMatch, pure, Except.pure]
  | cons pf pfs ih =>
    cases rfs with
    | nil => simp [anyMismatch, Spec.allMatch, pure, Except.pure]
    | cons rf rfs =>
      simp only [anyMismatch, Spec.allMatch, fieldMatch_spec pf rf (h rf (by simp)), bind, Except.bind]
      cases hm : Spec.fieldMatches pf rf
      · simp [pure, Except.pure]
      · simp only [if_true, Bool.true_and]
        exact ih rfs (fun x hx => h x (List.mem_cons_of_mem _ hx))

def RuleTypeOK (r : Rule) : Prop := ∀ rf ∈ r.fields, MoTypeOK rf

theorem ruleMatches_spec (p : Packet) (r : Rule) (h : RuleTypeOK r) : ruleMatches p r = .ok (Spec.applicable p r) := by
  unfold ruleMatches Spec.applicable
  cases r.nature
  · simp only [dirApplies, Spec.dirApplies]
    by_cases hl : p.fields.length = (r.fields.filter fun f => f.dir == p.dir || f.dir == Dir.bi).length
    · simp only [hl, ne_eq, not_true_eq_false, if_false, beq_self_eq_true, Bool.true_and, bind, Except.bind]
      rw [anyMismatch_spec _ _ (fun x hx => h x (List.mem_filter.mp hx).1)]
      simp [pure, Except.pure]
    · have : (p.fields.length == (r.fields.filter fun f => f.dir == p.dir || f.dir == Dir.bi).length) = false := by simpa using hl
      simp [hl, this, pure, Except.pure]
  · rfl

theorem matchAll_spec (rules : List Rule) (p : Packet) (h : ∀ r ∈ rules, RuleTypeOK r) :
    matchAll rules p = .ok (rules.filter (Spec.applicable p)) := by
  induction rules with
  | nil => rfl
  | cons r rs ih =>
    simp only [matchAll, ruleMatches_spec p r (h r (by simp)), bind, Except.bind, ih (fun x hx => h x (List.mem_cons_of_mem _ hx)),
      pure, Except.pure, List.filter_cons]

theorem matchFirst_spec (rules : List Rule) (p : Packet) (h : ∀ r ∈ rules, RuleTypeOK r) :
    matchFirst rules p = .ok (rules.find? (Spec.applicable p)) := by
  induction rules with
  | nil => rfl
  | cons r rs ih =>
    simp only [matchFirst, ruleMatches_spec p r (h r (by simp)), bind, Except.bind, List.find?_cons]
    cases Spec.applicable p r
    · simp only [Bool.false_eq_true, if_false]; exact ih (fun x hx => h x (List.mem_cons_of_mem _ hx))
    · rfl

end Schc
