/- C01 with compute fields: the round trip, given that the compute functions regenerate the elided values. -/
import Schc.Proofs.Roundtrip

namespace Schc
open Bits

/-- `FieldFits`, or an ignore / compute pairing on a computable field whose declared length is the field's length -/
def FieldFitsC (pf : Field) (rf : RuleField) : Prop :=
  if rf.cda = .compute then rf.mo = .ignore ∧ pf.value.length = rf.length ∧ (Gen.computeFunctions.find? (·.1 == rf.id)).isSome
  else FieldFits pf rf

def AllFitsC : List Field → List RuleField → Prop
  | pf :: pfs, rf :: rfs => FieldFitsC pf rf ∧ AllFitsC pfs rfs
  | _, _ => True

/-- the values the decompressor starts from: the packet's values, zero placeholders at compute positions -/
def zeroed : List Field → List RuleField → List Bits
  | pf :: pfs, rf :: rfs => (if rf.cda = .compute then Bits.zeros rf.length else pf.value.bits) :: zeroed pfs rfs
  | _, _ => []

theorem all_of_match_c (pfs : List Field) (rfs : List RuleField) (hl : pfs.length = rfs.length)
    (hm : Spec.allMatch pfs rfs = true) (hf : AllFitsC pfs rfs) :
    AllAdm rfs (zeroed pfs rfs) ∧ AllOK pfs rfs ∧ residuesV rfs (zeroed pfs rfs) = Spec.residues pfs rfs := by
  induction pfs generalizing rfs with
  | nil =>
    cases rfs with
    | nil => exact ⟨AllAdm.nil, trivial, rfl⟩
    | cons _ _ => simp at hl
  | cons pf pfs ih =>
    cases rfs with
    | nil => simp at hl
    | cons rf rfs =>
      simp only [Spec.allMatch, Bool.and_eq_true] at hm
      obtain ⟨i1, i2, i3⟩ := ih rfs (by simpa using hl) hm.2 hf.2
      have hf1 := hf.1
      unfold FieldFitsC at hf1
      by_cases hc : rf.cda = .compute
      · simp only [hc, if_true] at hf1
        refine ⟨?_, ⟨?_, i2⟩, ?_⟩
        · simp only [zeroed, hc, if_true]
          refine AllAdm.cons ?_ i1
          unfold Adm; simp only [hc, true_and]; exact hf1.2.2
        · unfold FieldOK; simp only [hc]
        · simp only [zeroed, hc, if_true, residuesV, Spec.residues, Spec.residue, i3]
      · simp only [hc, if_false] at hf1
        obtain ⟨h1, h2, _⟩ := adm_ok_of_match pf rf hm.1 hf1
        refine ⟨?_, ⟨h2, i2⟩, ?_⟩
        · simp only [zeroed, hc, if_false]; exact AllAdm.cons h1 i1
        · simp only [zeroed, hc, if_false, residuesV, Spec.residues, i3]

/-- the bare round trip for a compression rule WITH compute fields: if running the compute functions over the
    rebuilt field list (zero placeholders at the compute positions) gives back the packet's bits, then
    decompress ∘ compress is the identity on the packet -/
theorem roundtrip_compute (p : Packet) (r : Rule) (hn : r.nature = .compression)
    (hdir : ∀ rf ∈ r.fields, Spec.dirApplies p.dir rf.dir = true)
    (happ : Spec.applicable p r = true) (hfit : AllFitsC p.fields r.fields)
    (hraw : p.raw.bits = p.fields.flatMap (·.value.bits) ++ p.payload.bits)
    (fs' : Compute.Fields)
    (hrun : runComputes (sortEntries (computeEntries r.fields 0))
        (assemble r.fields (zeroed p.fields r.fields) ++ [(Gen.payloadId, ⟨p.payload.bits, .right⟩)]) = .ok fs')
    (hbits : fs'.flatMap (·.2.bits) = p.fields.flatMap (·.value.bits) ++ p.payload.bits) :
    ∃ c, compress p r = .ok c ∧ decompress c r = .ok ⟨p.raw.bits, .right⟩ := by
  unfold Spec.applicable at happ
  rw [hn] at happ
  have hfilter : r.fields.filter (fun f => Spec.dirApplies p.dir f.dir) = r.fields := by
    rw [List.filter_eq_self]; exact hdir
  simp only [hfilter, Bool.and_eq_true, beq_iff_eq] at happ
  obtain ⟨hl, hm⟩ := happ
  obtain ⟨hadm, hok, hres⟩ := all_of_match_c p.fields r.fields hl hm hfit
  obtain ⟨rs, h1, h2⟩ := compressFields_spec p.fields r.fields ((ABuf.empty .right).add r.id) hok
  obtain ⟨res, h3, h4⟩ := decompressToFields_spec r (zeroed p.fields r.fields) hadm p.payload.bits .right
  have hrr : rs = res := by
    rw [hres, h1] at h3; exact Option.some.inj h3
  refine ⟨⟨r.id.bits ++ rs ++ p.payload.bits, .right⟩, ?_, ?_⟩
  · unfold compress
    simp only [hn, h2, bind, Except.bind, pure, Except.pure]
    simp [ABuf.add, ABuf.empty]
  · unfold decompress
    rw [hrr, h4, hrun]
    simp only [bind, Except.bind, pure, Except.pure]
    rw [foldl_add_fields, hbits, hraw]
    simp [ABuf.empty]

end Schc
