/- C06: shift left / right by any amount on canonical Buffers. -/
import Schc.Proofs.BufPad

namespace Schc
open Bits

/-- bytes whose bits are `zeros z ++ x` with `z < 8` are the canonical left content of `x` -/
theorem canon_left (c : List Nat) (hc : AllBytes c) (x : Bits) (z : Nat) (hz : z < 8) (h : ABuf.bytesBits c = Bits.zeros z ++ x) :
    c = (⟨x, .left⟩ : ABuf).content := by
  apply content_left_of_bits c hc
  have hl := congrArg List.length h
  rw [bytesBits_length, List.length_append, zeros_length] at hl
  have : z = padLenOf x.length := by unfold padLenOf; omega
  rw [← this]; exact h

theorem canon_right (c : List Nat) (hc : AllBytes c) (x : Bits) (z : Nat) (hz : z < 8) (h : ABuf.bytesBits c = x ++ Bits.zeros z) :
    c = (⟨x, .right⟩ : ABuf).content := by
  apply content_right_of_bits c hc
  have hl := congrArg List.length h
  rw [bytesBits_length, List.length_append, zeros_length] at hl
  have : z = padLenOf x.length := by unfold padLenOf; omega
  rw [← this]; exact h

theorem zeros_append (a b : Nat) : Bits.zeros a ++ Bits.zeros b = Bits.zeros (a + b) := by
  simp [Bits.zeros, List.replicate_append_replicate]

theorem toByte_ok (v : Nat) (h : v < 256) : toByte v = .ok v := by simp [toByte, h]; rfl

/-- `_shift_left(s)` on a canonical Buffer appends `s` zero bits (either side) -/
theorem shiftLeftRaw_spec (a : ABuf) (s : Nat) : Buf.shiftLeftRaw (Buf.ofABuf a) s = .ok (Buf.ofABuf ⟨a.bits ++ Bits.zeros s, a.side⟩) := by
  obtain ⟨bits, side⟩ := a
  have hpl := padLen_lt bits.length
  have hbl := byteLen_eq bits.length
  have hcl := ofABuf_content_length ⟨bits, side⟩
  have hcb := bytesBits_content ⟨bits, side⟩
  have hab := allBytes_content ⟨bits, side⟩
  have hpl' := padLen_lt (bits.length + s)
  have hbl' := byteLen_eq (bits.length + s)
  simp only [Buf.ofABuf, ABuf.length] at hcl
  unfold Buf.shiftLeftRaw
  simp only [Buf.ofABuf, ABuf.length, List.length_append, zeros_length, bind, Except.bind, pure, Except.pure, byteLen_ceil]
  cases side
  · -- LEFT
    simp only at hcb ⊢
    obtain ⟨s1, s2, s3, s4⟩ := shlLoop_spec (s % 8) (by omega) (⟨bits, .left⟩ : ABuf).content hab
    generalize hloop : Buf.shlLoop (s % 8) (⟨bits, .left⟩ : ABuf).content = lp at *
    obtain ⟨out, carry⟩ := lp
    simp only at s1 s2 s3 s4 ⊢
    rw [hcb] at s4
    have htempb : AllBytes (out ++ List.replicate (s / 8) 0) := allBytes_append s1 (allBytes_replicate _)
    have htemp : Bits.ofNat (s % 8) carry ++ ABuf.bytesBits (out ++ List.replicate (s / 8) 0)
        = Bits.zeros (padLenOf bits.length) ++ (bits ++ Bits.zeros s) := by
      rw [bytesBits_append, bytesBits_replicate_zero, ← List.append_assoc, s4, List.append_assoc, List.append_assoc, zeros_append]
      congr 3; omega
    have htl : (out ++ List.replicate (s / 8) 0).length = byteLenOf bits.length + s / 8 := by simp [s2, hcl]
    rw [List.length_append] at htl
    by_cases hlt : out.length + (List.replicate (s / 8) 0).length < byteLenOf (bits.length + s)
    · simp only [hlt, if_true]
      have hcarry : carry < 256 := Nat.lt_of_lt_of_le s3 (by
        have : (2 : Nat) ^ (s % 8) ≤ 2 ^ 8 := Nat.pow_le_pow_right (by decide) (by omega)
        simpa using this)
      rw [toByte_ok carry hcarry]
      simp only
      congr 2
      apply canon_left _ _ _ (8 - s % 8 + padLenOf bits.length)
      · rw [htl] at hlt; omega
      · rw [bytesBits_cons]
        have hsplit : Bits.ofNat 8 carry = Bits.zeros (8 - s % 8) ++ Bits.ofNat (s % 8) carry := by
          have := ofNat_append (8 - s % 8) (s % 8) 0 carry s3
          have e : 8 - s % 8 + s % 8 = 8 := by omega
          rw [e, Nat.zero_mul, Nat.zero_add] at this
          rw [this]; congr 1
          apply List.ext_getElem <;> simp [Bits.ofNat, Bits.zeros]
        rw [hsplit, List.append_assoc, htemp, ← List.append_assoc, zeros_append]
      · intro x hx
        rcases List.mem_cons.mp hx with h | h
        · subst h; exact hcarry
        · exact htempb x h
    · simp only [hlt, if_false]
      congr 2
      rw [htl] at hlt
      have hsb : s % 8 ≤ padLenOf bits.length := by omega
      apply canon_left _ htempb _ (padLenOf bits.length - s % 8) (by omega)
      have hd := congrArg (List.drop (s % 8)) htemp
      rw [List.drop_append_of_le_length (by simp), List.drop_of_length_le (by simp), List.nil_append,
        drop_zeros_append _ _ _ hsb] at hd
      exact hd
  · -- RIGHT
    simp only at hcb ⊢
    congr 2
    apply canon_right _ (allBytes_append hab (allBytes_replicate _)) _ (padLenOf (bits.length + s)) hpl'
    rw [bytesBits_append, hcb, bytesBits_replicate_zero, List.append_assoc, List.append_assoc, zeros_append, zeros_append, hcl]
    congr 2; omega

end Schc

namespace Schc
open Bits

theorem content_nil (side : Pad) : (⟨[], side⟩ : ABuf).content = [] := by
  cases side <;> simp [ABuf.content, padLenOf, Bits.zeros, ABuf.packBytes]

theorem lastByte_zero_tail (sh : Nat) (prev : Nat) (c : List Nat) (out : List Nat) (x : Bits)
    (h : ABuf.bytesBits out ++ (Bits.ofNat 8 (lastByte prev c)).drop (8 - sh) = x) (hsh : sh ≤ 8) (hl : out.length = c.length) :
    ABuf.bytesBits out = x.take (8 * c.length) := by
  rw [← h, List.take_append_of_le_length (by rw [bytesBits_length, hl]; exact Nat.le_refl _), List.take_of_length_le (by rw [bytesBits_length, hl]; exact Nat.le_refl _)]

/-- `_shift_right(s)` on a canonical Buffer drops the `s` last bits (all of them when `s ≥ length`), either side -/
theorem shiftRightRaw_spec (a : ABuf) (s : Nat) :
    Buf.shiftRightRaw (Buf.ofABuf a) s = .ok (Buf.ofABuf ⟨a.bits.take (a.bits.length - s), a.side⟩) := by
  obtain ⟨bits, side⟩ := a
  have hpl := padLen_lt bits.length
  have hbl := byteLen_eq bits.length
  have hcl := ofABuf_content_length ⟨bits, side⟩
  have hcb := bytesBits_content ⟨bits, side⟩
  have hab := allBytes_content ⟨bits, side⟩
  simp only [Buf.ofABuf, ABuf.length] at hcl
  unfold Buf.shiftRightRaw
  by_cases hge : s ≥ (Buf.ofABuf ⟨bits, side⟩).length
  · simp only [hge, if_true, pure, Except.pure]
    simp only [Buf.ofABuf, ABuf.length] at hge ⊢
    have : bits.length - s = 0 := by omega
    simp [this, content_nil]
  · simp only [hge, if_false, bind, Except.bind, pure, Except.pure]
    simp only [Buf.ofABuf, ABuf.length] at hge ⊢
    have hlt : s < bits.length := by omega
    have hnl : (bits.take (bits.length - s)).length = bits.length - s := by simp
    have hpl' := padLen_lt (bits.length - s)
    have hbl' := byteLen_eq (bits.length - s)
    simp only [hnl, byteLen_ceil]
    cases side
    · -- LEFT
      simp only at hcb ⊢
      generalize htemp : (⟨bits, .left⟩ : ABuf).content.take ((⟨bits, .left⟩ : ABuf).content.length - s / 8) = temp
      have htb : AllBytes temp := by rw [← htemp]; exact allBytes_take hab _
      have htl : temp.length = byteLenOf bits.length - s / 8 := by rw [← htemp]; simp [hcl]
      have hq : s / 8 ≤ byteLenOf bits.length := by omega
      have htbits : ABuf.bytesBits temp = Bits.zeros (padLenOf bits.length) ++ bits.take (bits.length - 8 * (s / 8)) := by
        rw [← htemp, bytesBits_take, hcb, hcl, List.take_append, zeros_length]
        have e1 : List.take (8 * (byteLenOf bits.length - s / 8)) (Bits.zeros (padLenOf bits.length)) = Bits.zeros (padLenOf bits.length) :=
          List.take_of_length_le (by rw [zeros_length]; omega)
        rw [e1]; congr 2; omega
      by_cases hsh : s % 8 > 0
      · simp only [hsh, if_true]
        obtain ⟨out, l1, l2, l3, l4⟩ := shrLoopL_spec (s % 8) (by omega) 0 temp htb
        rw [l1]
        simp only
        congr 2
        have hz : (Bits.ofNat 8 0).drop (8 - s % 8) = Bits.zeros (s % 8) := by
          have : Bits.ofNat 8 0 = Bits.zeros 8 := by decide
          rw [this]; simp only [Bits.zeros, List.drop_replicate]; congr 1; omega
        rw [hz, htbits, ← List.append_assoc, zeros_append] at l4
        have hob := lastByte_zero_tail (s % 8) 0 temp out _ l4 (by omega) l3
        -- the bits of `out`: zeros, then the kept bits
        have hob2 : ABuf.bytesBits out = Bits.zeros (s % 8 + padLenOf bits.length) ++ bits.take (bits.length - s) := by
          rw [hob, htl, List.take_append, zeros_length]
          have e1 : List.take (8 * (byteLenOf bits.length - s / 8)) (Bits.zeros (s % 8 + padLenOf bits.length)) = Bits.zeros (s % 8 + padLenOf bits.length) :=
            List.take_of_length_le (by rw [zeros_length]; omega)
          rw [e1, List.take_take]
          congr 2; omega
        have hlb : AllBytes (lastN out (byteLenOf (bits.length - s))) := allBytes_drop l2 _
        apply canon_left _ hlb _ (padLenOf (bits.length - s)) hpl'
        unfold lastN
        rw [bytesBits_drop, hob2, l3, htl]
        have hk : 8 * (byteLenOf bits.length - s / 8 - byteLenOf (bits.length - s)) ≤ s % 8 + padLenOf bits.length := by omega
        rw [drop_zeros_append _ _ _ hk]
        congr 2; omega
      · have h0 : s % 8 = 0 := by omega
        simp only [hsh, if_false]
        congr 2
        have hlb : AllBytes (lastN temp (byteLenOf (bits.length - s))) := allBytes_drop htb _
        apply canon_left _ hlb _ (padLenOf (bits.length - s)) hpl'
        unfold lastN
        rw [bytesBits_drop, htbits, htl]
        have hk : 8 * (byteLenOf bits.length - s / 8 - byteLenOf (bits.length - s)) ≤ padLenOf bits.length := by omega
        rw [drop_zeros_append _ _ _ hk]
        congr 2
        · omega
        · omega
    · -- RIGHT
      simp only at hcb ⊢
      generalize hnc : (⟨bits, .right⟩ : ABuf).content.take (byteLenOf (bits.length - s)) = nc
      have hncb : AllBytes nc := by rw [← hnc]; exact allBytes_take hab _
      have hncl : nc.length = byteLenOf (bits.length - s) := by rw [← hnc]; simp [hcl]; omega
      have hncbits : ABuf.bytesBits nc = (bits ++ Bits.zeros (padLenOf bits.length)).take (8 * byteLenOf (bits.length - s)) := by
        rw [← hnc, bytesBits_take, hcb]
      by_cases hp : padLenOf (bits.length - s) > 0
      · simp only [hp, if_true]
        have hne : nc ≠ [] := by intro h; rw [h] at hncl; simp at hncl; omega
        obtain ⟨ini, lst, hsplit⟩ : ∃ ini lst, nc = ini ++ [lst] := ⟨nc.dropLast, nc.getLast hne, (List.dropLast_concat_getLast hne).symm⟩
        rw [hsplit, lastElem_append_single]
        simp only [List.dropLast_concat]
        have hlst : lst < 256 := hncb lst (by rw [hsplit]; simp)
        have hm : (lst &&& (0xff <<< padLenOf (bits.length - s))) &&& 0xff = lst &&& ((0xff <<< padLenOf (bits.length - s)) &&& 0xff) := by
          rw [Nat.and_assoc]
        rw [toByte_ok _ (by rw [hm]; exact Nat.lt_of_le_of_lt Nat.and_le_left hlst)]
        simp only
        congr 2
        have hini : ini.length = byteLenOf (bits.length - s) - 1 := by rw [hsplit] at hncl; simp at hncl; omega
        apply canon_right _ _ _ (padLenOf (bits.length - s)) hpl'
        · rw [bytesBits_append, bytesBits_cons, bytesBits_nil, List.append_nil, hm, mask_last_byte lst _ (by omega), ← List.append_assoc]
          congr 1
          -- ini ++ the first 8 - pl' bits of lst = the first n - s bits
          have h1 : ABuf.bytesBits ini ++ (Bits.ofNat 8 lst).take (8 - padLenOf (bits.length - s))
              = (ABuf.bytesBits nc).take (bits.length - s) := by
            rw [hsplit, bytesBits_append, bytesBits_cons, bytesBits_nil, List.append_nil, List.take_append, bytesBits_length, hini]
            have e1 : List.take (bits.length - s) (ABuf.bytesBits ini) = ABuf.bytesBits ini := List.take_of_length_le (by rw [bytesBits_length, hini]; omega)
            rw [e1]; congr 2; omega
          rw [h1, hncbits, List.take_take, Nat.min_eq_left (by omega), List.take_append_of_le_length (by omega)]
        · intro y hy
          rcases List.mem_append.mp hy with h | h
          · exact hncb y (by rw [hsplit]; exact List.mem_append_left _ h)
          · simp only [List.mem_singleton] at h; subst h
            rw [hm]; exact Nat.lt_of_le_of_lt Nat.and_le_left hlst
      · have hp0 : padLenOf (bits.length - s) = 0 := by omega
        simp only [hp, if_false]
        congr 2
        apply canon_right _ hncb _ 0 (by decide)
        rw [hncbits, List.take_append_of_le_length (by omega)]
        simp [Bits.zeros]
        congr 1; omega

end Schc

namespace Schc
open Bits

/-- the bit-sequence meaning of `shift(s)`: negative = left shift appends zeros, positive = right shift drops bits -/
def specShift (a : ABuf) (s : Int) : ABuf :=
  if s < 0 then ⟨a.bits ++ Bits.zeros s.natAbs, a.side⟩ else ⟨a.bits.take (a.bits.length - s.natAbs), a.side⟩

/-- `shift(s, inplace)` on a canonical Buffer, both modes, either side, any amount -/
theorem shift_spec (a : ABuf) (s : Int) (ip : Bool) :
    (Buf.ofABuf a).shift s ip = .ok (Buf.ofABuf (specShift a s), if ip then Buf.ofABuf (specShift a s) else Buf.ofABuf a) := by
  unfold Buf.shift specShift
  by_cases h0 : s = 0
  · subst h0
    have e : (⟨a.bits.take (a.bits.length - (0 : Int).natAbs), a.side⟩ : ABuf) = a := by
      obtain ⟨bits, side⟩ := a; simp
    simp only [if_true, Int.lt_irrefl, if_false, e]
    cases ip
    · simp only [Bool.false_eq_true, if_false, bind, Except.bind, copy_spec, pure, Except.pure]
    · simp [pure, Except.pure]
  · simp only [h0, if_false]
    cases ip
    · simp only [Bool.false_eq_true, if_false, bind, Except.bind, copy_spec]
      by_cases hneg : s < 0
      · simp only [hneg, if_true, shiftLeftRaw_spec, pure, Except.pure]
      · simp only [hneg, if_false, shiftRightRaw_spec, pure, Except.pure]
    · simp only [if_true, bind, Except.bind, pure, Except.pure]
      by_cases hneg : s < 0
      · simp only [hneg, if_true, shiftLeftRaw_spec]
      · simp only [hneg, if_false, shiftRightRaw_spec]

end Schc
