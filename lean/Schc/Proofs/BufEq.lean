/- C13: equality and hashing on canonical Buffers. -/
import Schc.Proofs.BufPad

namespace Schc
open Bits

theorem content_inj (x y : Bits) (side : Pad) (hl : x.length = y.length)
    (h : (⟨x, side⟩ : ABuf).content = (⟨y, side⟩ : ABuf).content) : x = y := by
  have hx := bytesBits_content ⟨x, side⟩
  have hy := bytesBits_content ⟨y, side⟩
  rw [h, hy] at hx
  cases side <;> simp only [hl] at hx
  · exact (append_inj_left' hx rfl).symm
  · exact (append_inj_right' hx rfl).symm

/-- `==` between canonical Buffers is bit equality, whatever the padding sides. The second component is the operand
    afterwards: untouched, or (were the internal `pad` call made in place) the same bits re-padded — the verdict does
    not depend on that flag, so this theorem survives a change of it (operand preservation is C16's subject) -/
theorem eq_spec (a b : ABuf) : Buf.eq (Buf.ofABuf a) (Buf.ofABuf b) =
    .ok (a.beq b, if a.bits.length ≠ b.bits.length then Buf.ofABuf b
                  else if Gen.eqPadInplace then Buf.ofABuf ⟨b.bits, a.side⟩ else Buf.ofABuf b) := by
  unfold Buf.eq
  generalize Gen.eqPadInplace = ip
  by_cases hl : (Buf.ofABuf a).length ≠ (Buf.ofABuf b).length
  · rw [if_pos hl]
    have hl2 : a.bits.length ≠ b.bits.length := hl
    simp only [pure, Except.pure, hl2, ne_eq, not_false_eq_true, if_true]
    congr 2
    simp only [ABuf.beq]
    have : ¬ a.bits = b.bits := fun e => hl2 (by rw [e])
    simp [this]
  · rw [if_neg hl]
    have hl2 : ¬ (a.bits.length ≠ b.bits.length) := hl
    simp only [bind, Except.bind, pure, Except.pure, pad_spec, hl2, if_false]
    have hcmp : ((Buf.ofABuf a).content == (Buf.ofABuf ⟨b.bits, (Buf.ofABuf a).padding⟩).content) = a.beq b := by
      simp only [Buf.ofABuf, ABuf.length, ne_eq, Decidable.not_not] at hl ⊢
      simp only [ABuf.beq]
      by_cases he : a.bits = b.bits
      · simp [he]
        obtain ⟨ab, as⟩ := a
        simp only at he; subst he; rfl
      · have : ¬ (a.content = (⟨b.bits, a.side⟩ : ABuf).content) := by
          intro hc; apply he
          obtain ⟨ab, as⟩ := a
          exact content_inj ab b.bits as hl hc
        simp [he, this]
    rw [hcmp]
    rfl

/-- the verdict alone -/
theorem eq_val (a b : ABuf) : (Buf.eq (Buf.ofABuf a) (Buf.ofABuf b)).map (·.1) = .ok (a.beq b) := by
  rw [eq_spec]; rfl

/-- what `__hash__` hashes is the left-padded canonical content: a function of the bits alone (whatever the
    `inplace` flag of its internal `pad` call) -/
theorem hashKey_spec (a : ABuf) : (Buf.ofABuf a).hashKey =
    .ok ((⟨a.bits, .left⟩ : ABuf).content, if Gen.hashPadInplace then Buf.ofABuf ⟨a.bits, .left⟩ else Buf.ofABuf a) := by
  unfold Buf.hashKey
  generalize Gen.hashPadInplace = ip
  simp only [bind, Except.bind, pure, Except.pure, pad_spec]
  rfl

theorem hash_val (a : ABuf) : (Buf.ofABuf a).hashKey.map (·.1) = .ok (⟨a.bits, .left⟩ : ABuf).content := by
  rw [hashKey_spec]; rfl

end Schc
