/- C05: concatenation (`__add__`) on canonical Buffers. -/
import Schc.Proofs.BufGet

namespace Schc
open Bits

theorem ofNat_zero_val (k : Nat) : Bits.ofNat k 0 = Bits.zeros k := by
  apply List.ext_getElem
  · simp [zeros_length]
  · intro i h1 h2; simp [Bits.ofNat, Bits.zeros]

/-- the carry byte of the right-shift loops: the low `k` bits of `x`, moved to the top -/
theorem carry_bits (x k : Nat) (hk : k ≤ 8) :
    (x &&& ((1 <<< k) - 1)) <<< (8 - k) < 256 ∧
    Bits.ofNat 8 ((x &&& ((1 <<< k) - 1)) <<< (8 - k)) = (Bits.ofNat 8 x).drop (8 - k) ++ Bits.zeros (8 - k) := by
  have hm : x &&& ((1 <<< k) - 1) = x % 2 ^ k := by rw [Nat.shiftLeft_eq, Nat.one_mul, Nat.and_two_pow_sub_one_eq_mod]
  have h256 : 2 ^ k * 2 ^ (8 - k) = 256 := by
    rw [← Nat.pow_add]; have : k + (8 - k) = 8 := by omega
    rw [this]
  rw [hm, Nat.shiftLeft_eq]
  constructor
  · have : x % 2 ^ k < 2 ^ k := Nat.mod_lt _ (Nat.pow_pos (by decide))
    calc x % 2 ^ k * 2 ^ (8 - k) < 2 ^ k * 2 ^ (8 - k) := Nat.mul_lt_mul_of_pos_right this (Nat.pow_pos (by decide))
      _ = 256 := h256
  · have := ofNat_append k (8 - k) (x % 2 ^ k) 0 (Nat.pow_pos (by decide))
    have e : k + (8 - k) = 8 := by omega
    rw [e, Nat.add_zero] at this
    rw [this, ofNat_low 8 k x hk, ofNat_zero_val]

/-- the right-shift loop of `__add__` started with no carry: the stream moves right by `k` bits into one more byte -/
theorem shrCarry0_spec (k : Nat) (hk : k ≤ 8) (c : List Nat) (hc : AllBytes c) :
    ∃ out cout, Buf.shrCarryLoop k c 0 = .ok (out, cout) ∧ AllBytes out ∧ out.length = c.length ∧ cout < 256 ∧
      ABuf.bytesBits out ++ Bits.ofNat 8 cout = Bits.zeros k ++ ABuf.bytesBits c ++ Bits.zeros (8 - k) := by
  have h0 := shrCarryLoop_eq k c 0
  rw [Nat.zero_and, Nat.zero_shiftLeft] at h0
  obtain ⟨out, h1, h2, h3, h4⟩ := shrLoopL_spec k hk 0 c hc
  obtain ⟨c1, c2⟩ := carry_bits (lastByte 0 c) k hk
  refine ⟨out, _, ?_, h2, h3, c1, ?_⟩
  · rw [h0, h1]; rfl
  · rw [c2, ← List.append_assoc, h4, ofNat_zero_val]
    congr 2
    simp only [Bits.zeros, List.drop_replicate]
    congr 1; omega

/-- adding two bytes whose set bits do not overlap (`left.content[-1] + new_content[0]`) -/
theorem add_disjoint (x y k : Nat) (X Y : Bits) (hk : k ≤ 8) (hXl : X.length = k)
    (hx : Bits.ofNat 8 x = X ++ Bits.zeros (8 - k)) (hy : Bits.ofNat 8 y = Bits.zeros k ++ Y) (hx8 : x < 256) (hy8 : y < 256) :
    x + y < 256 ∧ Bits.ofNat 8 (x + y) = X ++ Y := by
  have hYl : Y.length = 8 - k := by
    have := congrArg List.length hy
    simp [zeros_length] at this; omega
  have h256 : 2 ^ k * 2 ^ (8 - k) = 256 := by
    rw [← Nat.pow_add]; have : k + (8 - k) = 8 := by omega
    rw [this]
  have ex : x = Bits.toNat X * 2 ^ (8 - k) := by
    have := congrArg Bits.toNat hx
    rw [toNat_ofNat 8 x hx8, toNat_append, zeros_length] at this
    have z : Bits.toNat (Bits.zeros (8 - k)) = 0 := by
      have := toNat_zeros_append (8 - k) []
      simpa [Bits.toNat] using this
    rw [z] at this; omega
  have ey : y = Bits.toNat Y := by
    have := congrArg Bits.toNat hy
    rw [toNat_ofNat 8 y hy8, toNat_zeros_append] at this
    exact this
  have hX := toNat_lt X
  have hY := toNat_lt Y
  rw [hXl] at hX; rw [hYl] at hY
  constructor
  · rw [ex, ey]
    calc Bits.toNat X * 2 ^ (8 - k) + Bits.toNat Y < Bits.toNat X * 2 ^ (8 - k) + 2 ^ (8 - k) := by omega
      _ = (Bits.toNat X + 1) * 2 ^ (8 - k) := by rw [Nat.add_mul, Nat.one_mul]
      _ ≤ 2 ^ k * 2 ^ (8 - k) := Nat.mul_le_mul_right _ hX
      _ = 256 := h256
  · have := ofNat_append k (8 - k) (Bits.toNat X) (Bits.toNat Y) hY
    have e : k + (8 - k) = 8 := by omega
    rw [e] at this
    rw [ex, ey, this]
    have e1 := ofNat_toNat X
    have e2 := ofNat_toNat Y
    rw [hXl] at e1; rw [hYl] at e2
    rw [e1, e2]

theorem ofBytes_left_of (nc : List Nat) (Z X : Bits) (n : Nat) (hn : n = X.length) (h : ABuf.bytesBits nc = Z ++ X) :
    ABuf.ofBytes nc n .left = ⟨X, .left⟩ := by
  subst hn
  simp only [ABuf.ofBytes, h]
  have e : X.length - (Z ++ X).length = 0 := by simp
  rw [e]
  simp [Bits.zeros]

theorem ofBytes_right_of (nc : List Nat) (X Z : Bits) (n : Nat) (hn : n = X.length) (h : ABuf.bytesBits nc = X ++ Z) :
    ABuf.ofBytes nc n .right = ⟨X, .right⟩ := by
  subst hn
  simp only [ABuf.ofBytes, h]
  have e : X.length - (X ++ Z).length = 0 := by simp
  rw [e]
  simp [Bits.zeros]

end Schc

namespace Schc
open Bits

/-- the canonical content of a RIGHT-padded buffer that has padding: all but the last byte, and the last byte's bits -/
theorem content_right_split (A : Bits) (hpa : padLenOf A.length ≠ 0) :
    ∃ ini ll X, (⟨A, .right⟩ : ABuf).content = ini ++ [ll] ∧ ll < 256 ∧ AllBytes ini ∧
      X.length = 8 - padLenOf A.length ∧ ABuf.bytesBits ini ++ X = A ∧ Bits.ofNat 8 ll = X ++ Bits.zeros (padLenOf A.length) := by
  have hpl := padLen_lt A.length
  have hbl := byteLen_eq A.length
  have hcl := ofABuf_content_length ⟨A, .right⟩
  have hcb := bytesBits_content ⟨A, .right⟩
  have hab := allBytes_content ⟨A, .right⟩
  simp only [Buf.ofABuf, ABuf.length] at hcl hcb
  generalize (⟨A, .right⟩ : ABuf).content = C at *
  generalize padLenOf A.length = pl at *
  generalize byteLenOf A.length = bl at *
  have hne : C ≠ [] := by intro h; rw [h] at hcl; simp at hcl; omega
  have hsplit : C = C.dropLast ++ [C.getLast hne] := (List.dropLast_concat_getLast hne).symm
  have hil : C.dropLast.length = bl - 1 := by simp; omega
  refine ⟨C.dropLast, C.getLast hne, A.drop (8 * (bl - 1)), hsplit, hab _ (List.getLast_mem hne), ?_, by simp; omega, ?_, ?_⟩
  · intro x hx; exact hab x (List.dropLast_subset _ hx)
  all_goals
    have h2 : ABuf.bytesBits C.dropLast ++ Bits.ofNat 8 (C.getLast hne) = (A.take (8 * (bl - 1)) ++ A.drop (8 * (bl - 1))) ++ Bits.zeros pl := by
      rw [List.take_append_drop, ← hcb]
      conv => rhs; rw [hsplit]
      rw [bytesBits_append, bytesBits_cons, bytesBits_nil, List.append_nil]
    rw [List.append_assoc] at h2
    have hl : (ABuf.bytesBits C.dropLast).length = (A.take (8 * (bl - 1))).length := by
      rw [bytesBits_length, hil, List.length_take]; omega
  · rw [List.append_inj_left h2 hl, List.take_append_drop]
  · exact List.append_inj_right h2 hl

/-- gluing a byte string whose first `8 - pl` bits are zero onto a RIGHT-padded canonical content with `pl` padding
    bits (the four `left.content[:-1] + [left.content[-1] + new[0]] + new[1:]` branches of `__add__`) -/
theorem merge_right (A BZ : Bits) (M : List Nat) (hpa : padLenOf A.length ≠ 0) (hM : AllBytes M)
    (hbits : ABuf.bytesBits M = Bits.zeros (8 - padLenOf A.length) ++ BZ) :
    ∃ ll n0, lastElem (⟨A, .right⟩ : ABuf).content = .ok ll ∧ idx M 0 = .ok n0 ∧ ll + n0 < 256 ∧
      AllBytes ((⟨A, .right⟩ : ABuf).content.dropLast ++ [ll + n0] ++ M.drop 1) ∧
      ABuf.bytesBits ((⟨A, .right⟩ : ABuf).content.dropLast ++ [ll + n0] ++ M.drop 1) = A ++ BZ := by
  obtain ⟨ini, ll, X, h1, h2, h3, h4, h5, h6⟩ := content_right_split A hpa
  have hpl := padLen_lt A.length
  generalize padLenOf A.length = pl at *
  cases M with
  | nil =>
    have := congrArg List.length hbits
    simp [bytesBits_nil, zeros_length] at this; omega
  | cons n0 rest =>
    have hn0 : n0 < 256 := hM n0 (by simp)
    have hlen := congrArg List.length hbits
    rw [bytesBits_length, List.length_append, zeros_length, List.length_cons] at hlen
    rw [bytesBits_cons] at hbits
    have hb2 : Bits.ofNat 8 n0 ++ ABuf.bytesBits rest = (Bits.zeros (8 - pl) ++ BZ.take pl) ++ BZ.drop pl := by
      rw [List.append_assoc, List.take_append_drop]; exact hbits
    have hl : (Bits.ofNat 8 n0).length = (Bits.zeros (8 - pl) ++ BZ.take pl).length := by
      simp [zeros_length]; omega
    have e1 := List.append_inj_left hb2 hl
    have e2 := List.append_inj_right hb2 hl
    have h6' : Bits.ofNat 8 ll = X ++ Bits.zeros (8 - (8 - pl)) := by
      have : 8 - (8 - pl) = pl := by omega
      rw [this]; exact h6
    obtain ⟨a1, a2⟩ := add_disjoint ll n0 (8 - pl) X (BZ.take pl) (by omega) h4 h6' e1 h2 hn0
    refine ⟨ll, n0, ?_, rfl, a1, ?_, ?_⟩
    · rw [h1, lastElem_append_single]
    · rw [h1, List.dropLast_concat]
      intro x hx
      simp only [List.mem_append, List.mem_singleton, List.drop_succ_cons, List.drop_zero] at hx
      rcases hx with (h | h) | h
      · exact h3 x h
      · subst h; exact a1
      · exact hM x (List.mem_cons_of_mem _ h)
    · rw [h1, List.dropLast_concat]
      simp only [List.drop_succ_cons, List.drop_zero, bytesBits_append, bytesBits_cons, bytesBits_nil, List.append_nil]
      rw [a2, e2, ← h5]
      simp only [List.append_assoc, List.take_append_drop]

end Schc

namespace Schc
open Bits

theorem zeros_add (a b : Nat) : Bits.zeros a ++ Bits.zeros b = Bits.zeros (a + b) := by
  simp [Bits.zeros, List.replicate_append_replicate]

/-- the LEFT-padded canonical content of a non-empty buffer: first byte and the rest -/
theorem content_left_split (B : Bits) (hB : B ≠ []) :
    ∃ r0 rest, (⟨B, .left⟩ : ABuf).content = r0 :: rest ∧ r0 < 256 ∧ AllBytes rest ∧
      Bits.ofNat 8 r0 = Bits.zeros (padLenOf B.length) ++ B.take (8 - padLenOf B.length) ∧
      ABuf.bytesBits rest = B.drop (8 - padLenOf B.length) := by
  have hpl := padLen_lt B.length
  have hbl := byteLen_eq B.length
  have hcl := ofABuf_content_length ⟨B, .left⟩
  have hcb := bytesBits_content ⟨B, .left⟩
  have hab := allBytes_content ⟨B, .left⟩
  have hBl : 0 < B.length := List.length_pos_iff.mpr hB
  simp only [Buf.ofABuf, ABuf.length] at hcl hcb
  generalize (⟨B, .left⟩ : ABuf).content = C at *
  generalize padLenOf B.length = pl at *
  generalize byteLenOf B.length = bl at *
  cases C with
  | nil => simp at hcl; omega
  | cons r0 rest =>
    rw [bytesBits_cons] at hcb
    have hb2 : Bits.ofNat 8 r0 ++ ABuf.bytesBits rest = (Bits.zeros pl ++ B.take (8 - pl)) ++ B.drop (8 - pl) := by
      rw [List.append_assoc, List.take_append_drop]; exact hcb
    have hl : (Bits.ofNat 8 r0).length = (Bits.zeros pl ++ B.take (8 - pl)).length := by
      simp [zeros_length] at hcl ⊢; omega
    exact ⟨r0, rest, rfl, hab r0 (by simp), (fun x hx => hab x (List.mem_cons_of_mem _ hx)), List.append_inj_left hb2 hl,
      List.append_inj_right hb2 hl⟩

/-- the LEFT + (padded right operand) branch of `__add__`: `new_content + [right[0] + carry] + right[1:]` -/
theorem merge_left (W B : Bits) (out : List Nat) (cout : Nat) (hB : B ≠ []) (hout : AllBytes out) (hc : cout < 256)
    (h : ABuf.bytesBits out ++ Bits.ofNat 8 cout = W ++ Bits.zeros (8 - padLenOf B.length))
    (hW : W.length = 8 * out.length + padLenOf B.length) :
    ∃ r0, idx (⟨B, .left⟩ : ABuf).content 0 = .ok r0 ∧ r0 + cout < 256 ∧
      AllBytes (out ++ [r0 + cout] ++ (⟨B, .left⟩ : ABuf).content.drop 1) ∧
      ABuf.bytesBits (out ++ [r0 + cout] ++ (⟨B, .left⟩ : ABuf).content.drop 1) = W ++ B := by
  obtain ⟨r0, rest, h1, h2, h3, h4, h5⟩ := content_left_split B hB
  have hpl := padLen_lt B.length
  generalize padLenOf B.length = pl at *
  have h' : ABuf.bytesBits out ++ Bits.ofNat 8 cout = W.take (8 * out.length) ++ (W.drop (8 * out.length) ++ Bits.zeros (8 - pl)) := by
    rw [← List.append_assoc, List.take_append_drop]; exact h
  have hl : (ABuf.bytesBits out).length = (W.take (8 * out.length)).length := by
    rw [bytesBits_length, List.length_take]; omega
  have e1 := List.append_inj_left h' hl
  have e2 := List.append_inj_right h' hl
  obtain ⟨a1, a2⟩ := add_disjoint cout r0 pl (W.drop (8 * out.length)) (B.take (8 - pl)) (by omega) (by simp; omega) e2 h4 hc h2
  rw [Nat.add_comm] at a1 a2
  refine ⟨r0, by rw [h1]; rfl, a1, ?_, ?_⟩
  · rw [h1]
    intro x hx
    simp only [List.mem_append, List.mem_singleton, List.drop_succ_cons, List.drop_zero] at hx
    rcases hx with (h | h) | h
    · exact hout x h
    · subst h; exact a1
    · exact h3 x h
  · rw [h1]
    simp only [List.drop_succ_cons, List.drop_zero, bytesBits_append, bytesBits_cons, bytesBits_nil, List.append_nil]
    rw [a2, e1, h5]
    simp only [List.append_assoc, List.take_append_drop]
    rw [← List.append_assoc, List.take_append_drop]

end Schc

namespace Schc
open Bits

theorem bits_ne_nil_of_length {B : Bits} (h : ¬ B.length = 0) : B ≠ [] := by
  intro e; rw [e] at h; exact h rfl

/-- `left + right` with a LEFT-padded left operand -/
theorem add_left (A B : Bits) (sb : Pad) (hB : ¬ B.length = 0) :
    Buf.add (Buf.ofABuf ⟨A, .left⟩) (Buf.ofABuf ⟨B, sb⟩) = .ok (Buf.ofABuf ⟨A ++ B, .left⟩, Buf.ofABuf ⟨A, .left⟩,
      Buf.ofABuf ⟨B, if Gen.addPadInplace1 = true ∧ padLenOf B.length ≠ 0 then .left else sb⟩) := by
  have hBn := bits_ne_nil_of_length hB
  have hpa := padLen_lt A.length
  have hpb := padLen_lt B.length
  have hcba := bytesBits_content ⟨A, .left⟩
  have hcbb := bytesBits_content ⟨B, sb⟩
  have haa := allBytes_content ⟨A, .left⟩
  have hab := allBytes_content ⟨B, sb⟩
  have hcla := ofABuf_content_length ⟨A, .left⟩
  have hbla := byteLen_eq A.length
  simp only [Buf.ofABuf, ABuf.length] at hcba hcbb hcla
  generalize hside : (if Gen.addPadInplace1 = true ∧ padLenOf B.length ≠ 0 then Pad.left else sb) = sb'
  unfold Buf.add
  simp only [Buf.ofABuf, ABuf.length, hB, if_false]
  by_cases hp0 : padLenOf B.length = 0
  · have : sb = sb' := by rw [← hside]; simp [hp0]
    subst this
    simp only [hp0, if_true, bind, Except.bind, pure, Except.pure]
    rw [new_spec _ _ _ (allBytes_append haa hab)]
    have hbb : ABuf.bytesBits (⟨B, sb⟩ : ABuf).content = B := by
      rw [hcbb, hp0]; cases sb <;> simp [Bits.zeros]
    rw [ofBytes_left_of _ (Bits.zeros (padLenOf A.length)) (A ++ B) _ (by simp) (by rw [bytesBits_append, hcba, hbb, List.append_assoc])]
    rfl
  · simp only [hp0, if_false, bind, Except.bind, pure, Except.pure]
    have hps : (Buf.ofABuf ⟨B, sb⟩).pad .left Gen.addPadInplace1 = .ok (Buf.ofABuf ⟨B, .left⟩, Buf.ofABuf ⟨B, sb'⟩) := by
      rw [pad_spec, ← hside]; generalize Gen.addPadInplace1 = ip; cases ip <;> simp [hp0]
    simp only [Buf.ofABuf, ABuf.length] at hps
    rw [hps]
    simp only
    obtain ⟨out, cout, l1, l2, l3, l4, l5⟩ := shrCarry0_spec (padLenOf B.length) (by omega) _ haa
    rw [l1]
    simp only
    rw [hcba, ← List.append_assoc] at l5
    obtain ⟨r0, m1, m2, m3, m4⟩ := merge_left (Bits.zeros (padLenOf B.length) ++ Bits.zeros (padLenOf A.length) ++ A) B out cout hBn l2 l4 l5
      (by simp only [List.length_append, zeros_length]; rw [l3, hcla]; omega)
    rw [m1]
    simp only
    rw [toByte_ok _ m2]
    simp only
    generalize hnc : out ++ [r0 + cout] ++ List.drop 1 (⟨B, .left⟩ : ABuf).content = nc at *
    by_cases h7 : padLenOf A.length + padLenOf B.length > 7
    · simp only [h7, if_true]
      rw [new_spec _ _ _ (allBytes_drop m3 1)]
      have hZ : ABuf.bytesBits (List.drop 1 nc) = Bits.zeros (padLenOf B.length + padLenOf A.length - 8) ++ (A ++ B) := by
        rw [bytesBits_drop, m4, zeros_add, List.append_assoc, drop_zeros_append _ _ _ (by omega)]
      rw [ofBytes_left_of _ _ (A ++ B) _ (by simp) hZ]
      rfl
    · simp only [h7, if_false]
      rw [new_spec _ _ _ m3]
      have hZ : ABuf.bytesBits nc = (Bits.zeros (padLenOf B.length) ++ Bits.zeros (padLenOf A.length)) ++ (A ++ B) := by
        rw [m4]; simp only [List.append_assoc]
      rw [ofBytes_left_of _ _ (A ++ B) _ (by simp) hZ]
      rfl

end Schc
namespace Schc
open Bits

theorem content_length_pos (B : Bits) (sb : Pad) (hB : ¬ B.length = 0) : 0 < (⟨B, sb⟩ : ABuf).content.length := by
  have hcl := ofABuf_content_length ⟨B, sb⟩
  have hbl := byteLen_eq B.length
  simp only [Buf.ofABuf, ABuf.length] at hcl
  omega

/-- `merge_right` when the shifted right operand spilled into one more (carry) byte -/
theorem merge_right_carry (A BZ : Bits) (nc0 : List Nat) (cb : Nat) (hpa : padLenOf A.length ≠ 0) (hnc : AllBytes nc0) (hcb : cb < 256)
    (hne : 0 < nc0.length) (hbits : ABuf.bytesBits nc0 ++ Bits.ofNat 8 cb = Bits.zeros (8 - padLenOf A.length) ++ BZ) :
    ∃ ll n0, lastElem (⟨A, .right⟩ : ABuf).content = .ok ll ∧ idx nc0 0 = .ok n0 ∧ ll + n0 < 256 ∧
      AllBytes ((⟨A, .right⟩ : ABuf).content.dropLast ++ [ll + n0] ++ nc0.drop 1 ++ [cb]) ∧
      ABuf.bytesBits ((⟨A, .right⟩ : ABuf).content.dropLast ++ [ll + n0] ++ nc0.drop 1 ++ [cb]) = A ++ BZ := by
  have hM : AllBytes (nc0 ++ [cb]) := by
    intro x hx
    rcases List.mem_append.mp hx with h | h
    · exact hnc x h
    · simp only [List.mem_singleton] at h; subst h; exact hcb
  obtain ⟨ll, n0, m1, m2, m3, m4, m5⟩ := merge_right A BZ (nc0 ++ [cb]) hpa hM
    (by rw [bytesBits_append, bytesBits_cons, bytesBits_nil, List.append_nil]; exact hbits)
  have hd : List.drop 1 (nc0 ++ [cb]) = List.drop 1 nc0 ++ [cb] := List.drop_append_of_le_length (by omega)
  have hi : idx (nc0 ++ [cb]) 0 = idx nc0 0 := by
    unfold idx; rw [List.getElem?_append_left hne]
  rw [hd, ← List.append_assoc] at m4 m5
  rw [hi] at m2
  exact ⟨ll, n0, m1, m2, m3, m4, m5⟩

/-- `left + right` with a RIGHT-padded left operand -/
theorem add_right (A B : Bits) (sb : Pad) (hB : ¬ B.length = 0) :
    Buf.add (Buf.ofABuf ⟨A, .right⟩) (Buf.ofABuf ⟨B, sb⟩) = .ok (Buf.ofABuf ⟨A ++ B, .right⟩, Buf.ofABuf ⟨A, .right⟩,
      Buf.ofABuf ⟨B, if Gen.addPadInplace2 = true ∧ padLenOf A.length = 0 ∧ ¬ (padLenOf B.length = 0 ∨ sb = .right) then .right else sb⟩) := by
  have hBn := bits_ne_nil_of_length hB
  have hpa := padLen_lt A.length
  have hpb := padLen_lt B.length
  have hcba := bytesBits_content ⟨A, .right⟩
  have hcbb := bytesBits_content ⟨B, sb⟩
  have haa := allBytes_content ⟨A, .right⟩
  have hab := allBytes_content ⟨B, sb⟩
  have hclb := content_length_pos B sb hB
  simp only [Buf.ofABuf, ABuf.length] at hcba hcbb
  generalize hside : (if Gen.addPadInplace2 = true ∧ padLenOf A.length = 0 ∧ ¬ (padLenOf B.length = 0 ∨ sb = .right) then Pad.right else sb) = sb'
  unfold Buf.add
  simp only [Buf.ofABuf, ABuf.length, hB, if_false]
  by_cases hpa0 : padLenOf A.length = 0
  · simp only [hpa0, if_true]
    rw [hpa0] at hcba
    by_cases hc : padLenOf B.length = 0 ∨ sb = .right
    · have : sb = sb' := by rw [← hside]; simp [hc]
      subst this
      simp only [hc, if_true, bind, Except.bind, pure, Except.pure]
      rw [new_spec _ _ _ (allBytes_append haa hab)]
      have : ∃ Z, ABuf.bytesBits (⟨B, sb⟩ : ABuf).content = B ++ Z := by
        rw [hcbb]
        rcases hc with h | h
        · rw [h]; exact ⟨[], by cases sb <;> simp [Bits.zeros]⟩
        · subst h; exact ⟨_, rfl⟩
      obtain ⟨Z, hZ⟩ := this
      rw [ofBytes_right_of _ (A ++ B) Z _ (by simp) (by rw [bytesBits_append, hcba, hZ]; simp [Bits.zeros])]
      rfl
    · simp only [hc, if_false, bind, Except.bind, pure, Except.pure]
      have hps : (Buf.ofABuf ⟨B, sb⟩).pad .right Gen.addPadInplace2 = .ok (Buf.ofABuf ⟨B, .right⟩, Buf.ofABuf ⟨B, sb'⟩) := by
        rw [pad_spec, ← hside]; generalize Gen.addPadInplace2 = ip; cases ip <;> simp [hpa0, hc]
      simp only [Buf.ofABuf, ABuf.length] at hps
      rw [hps]
      simp only
      rw [new_spec _ _ _ (allBytes_append haa (allBytes_content _))]
      have hbr := bytesBits_content ⟨B, .right⟩
      simp only at hbr
      rw [ofBytes_right_of _ (A ++ B) (Bits.zeros (padLenOf B.length)) _ (by simp) (by rw [bytesBits_append, hcba, hbr]; simp [Bits.zeros])]
      rfl
  · have : sb = sb' := by rw [← hside]; simp [hpa0]
    subst this
    simp only [hpa0, if_false]
    have hmod : A.length % 8 = 8 - padLenOf A.length := by
      have := padLen_add A.length; omega
    cases sb with
    | left =>
      simp only at hcbb ⊢
      by_cases h8 : padLenOf A.length + padLenOf B.length = 8
      · simp only [h8, if_true, bind, Except.bind, pure, Except.pure]
        obtain ⟨ll, n0, m1, m2, m3, m4, m5⟩ := merge_right A B _ hpa0 hab (by
          rw [hcbb]; congr 2; omega)
        rw [m1]; simp only
        rw [m2]; simp only
        rw [toByte_ok _ m3]; simp only
        rw [new_spec _ _ _ m4, ofBytes_right_of _ (A ++ B) [] _ (by simp) (by rw [m5]; simp)]
        rfl
      · simp only [h8, if_false]
        by_cases hgt : padLenOf B.length > A.length % 8
        · simp only [hgt, if_true, bind, Except.bind, pure, Except.pure]
          generalize hk : padLenOf B.length - A.length % 8 = k
          obtain ⟨nc0, cout, l1, l2, l3, _, _, l6⟩ := shlCarryLoop_spec k (by omega) false _ hab 0 (Nat.pow_pos (by decide))
          rw [l1]; simp only
          have hnb : ABuf.bytesBits nc0 = Bits.zeros (8 - padLenOf A.length) ++ (B ++ Bits.zeros k) := by
            have := congrArg (List.drop k) l6
            rw [List.drop_append_of_le_length (by simp), List.drop_of_length_le (by simp), List.nil_append, hcbb, ofNat_zero_val,
              List.append_assoc, drop_zeros_append _ _ _ (by omega)] at this
            rw [this]; congr 2; omega
          obtain ⟨ll, n0, m1, m2, m3, m4, m5⟩ := merge_right A _ nc0 hpa0 l2 hnb
          rw [m1]; simp only
          rw [m2]; simp only
          rw [toByte_ok _ m3]; simp only
          rw [new_spec _ _ _ m4, ofBytes_right_of _ (A ++ B) (Bits.zeros k) _ (by simp) (by rw [m5]; simp)]
          rfl
        · simp only [hgt, if_false, bind, Except.bind, pure, Except.pure]
          generalize hk : 8 - padLenOf A.length - padLenOf B.length = k
          obtain ⟨nc0, cb, l1, l2, l3, l4, l5⟩ := shrCarry0_spec k (by omega) _ hab
          rw [l1]; simp only
          have hnb : ABuf.bytesBits nc0 ++ Bits.ofNat 8 cb = Bits.zeros (8 - padLenOf A.length) ++ (B ++ Bits.zeros (8 - k)) := by
            rw [l5, hcbb, ← List.append_assoc (Bits.zeros k), zeros_add, List.append_assoc]
            congr 2; omega
          obtain ⟨ll, n0, m1, m2, m3, m4, m5⟩ := merge_right_carry A _ nc0 cb hpa0 l2 l4 (by omega) hnb
          rw [m1]; simp only
          rw [m2]; simp only
          rw [toByte_ok _ m3]; simp only
          rw [toByte_ok _ l4]; simp only
          rw [new_spec _ _ _ m4, ofBytes_right_of _ (A ++ B) (Bits.zeros (8 - k)) _ (by simp) (by rw [m5]; simp)]
          rfl
    | right =>
      simp only [bind, Except.bind, pure, Except.pure] at hcbb ⊢
      generalize hk : 8 - padLenOf A.length = k
      obtain ⟨nc0, cb, l1, l2, l3, l4, l5⟩ := shrCarry0_spec k (by omega) _ hab
      rw [l1]; simp only
      have hnb : ABuf.bytesBits nc0 ++ Bits.ofNat 8 cb = Bits.zeros (8 - padLenOf A.length) ++ (B ++ (Bits.zeros (padLenOf B.length) ++ Bits.zeros (8 - k))) := by
        rw [l5, hcbb, hk]; simp only [List.append_assoc]
      obtain ⟨ll, n0, m1, m2, m3, m4, m5⟩ := merge_right_carry A _ nc0 cb hpa0 l2 l4 (by omega) hnb
      rw [m1]; simp only
      rw [m2]; simp only
      rw [toByte_ok _ m3]; simp only
      rw [toByte_ok _ l4]; simp only
      rw [new_spec _ _ _ m4, ofBytes_right_of _ (A ++ B) _ _ (by simp) (by rw [m5, List.append_assoc])]
      rfl

/-- what the right operand of `a + b` is afterwards: itself, unless one of the two internal re-paddings is done in
    place (regenerated flags; both `False` in the library, see `C16_pure_add`) — then the same bits on the other
    side -/
def addAfter (a b : ABuf) : ABuf :=
  ⟨b.bits,
    if b.bits.length = 0 then b.side
    else match a.side with
      | .left => if Gen.addPadInplace1 = true ∧ padLenOf b.bits.length ≠ 0 then .left else b.side
      | .right => if Gen.addPadInplace2 = true ∧ padLenOf a.bits.length = 0 ∧ ¬ (padLenOf b.bits.length = 0 ∨ b.side = .right)
                  then .right else b.side⟩

/-- `a + b` on canonical Buffers: the bits of `a` followed by the bits of `b`, on the side of `a` (all nine
    branches of `__add__`); `a` unchanged, `b` as `addAfter` says -/
theorem add_spec (a b : ABuf) : Buf.add (Buf.ofABuf a) (Buf.ofABuf b) = .ok (Buf.ofABuf (a.add b), Buf.ofABuf a, Buf.ofABuf (addAfter a b)) := by
  obtain ⟨A, sa⟩ := a
  obtain ⟨B, sb⟩ := b
  by_cases hB : B.length = 0
  · have hBn : B = [] := List.eq_nil_of_length_eq_zero hB
    subst hBn
    unfold Buf.add
    have : (Buf.ofABuf ⟨[], sb⟩).length = 0 := rfl
    simp only [this, if_true, bind, Except.bind, copy_spec, pure, Except.pure, ABuf.add, List.append_nil, addAfter, List.length_nil]
  · cases sa
    · simpa only [addAfter, ABuf.add, hB, if_false] using add_left A B sb hB
    · simpa only [addAfter, ABuf.add, hB, if_false] using add_right A B sb hB

/-- the concatenation alone -/
theorem add_val (a b : ABuf) : (Buf.add (Buf.ofABuf a) (Buf.ofABuf b)).map (·.1) = .ok (Buf.ofABuf (a.add b)) := by
  rw [add_spec]; rfl

end Schc

namespace Schc
open Bits

/-- `b[s:e]` for resolved bounds `s ≤ e ≤ len(b)` on a canonical Buffer: bits `s..e`, same side -/
theorem getRange_spec (a : ABuf) (s e : Nat) (hse : s ≤ e) (hen : e ≤ a.length) :
    Buf.getRange (Buf.ofABuf a) s e = .ok (Buf.ofABuf (a.slice s e)) := by
  obtain ⟨bits, side⟩ := a
  by_cases h : s = e
  · subst h
    unfold Buf.getRange
    simp only [Nat.sub_self, if_true, Buf.ofABuf, ABuf.slice, Bits.slice, List.take_zero]
    exact new_nil side
  · cases side
    · exact getRange_left bits s e (by omega) hen
    · exact getRange_right bits s e (by omega) hen

/-- `b[i]` (one-bit Buffer) -/
theorem getBit_spec (a : ABuf) (i : Nat) (hi : i < a.length) :
    Buf.getBit (Buf.ofABuf a) i = .ok (Buf.ofABuf (a.slice i (i + 1))) := by
  unfold Buf.getBit
  have : ¬ (i ≥ (Buf.ofABuf a).length) := by simp [Buf.ofABuf]; omega
  simp only [this, if_false, bind, Except.bind]
  exact getRange_spec a i (i + 1) (by omega) (by omega)

theorem sliceBound_le (len : Nat) (x : Option Int) (d : Nat) (hd : d ≤ len) : Buf.sliceBound len x d ≤ len := by
  unfold Buf.sliceBound
  cases x with
  | none => exact hd
  | some i =>
    simp only
    split
    · omega
    · exact Nat.min_le_right _ _

/-- `b[start:stop]` with optional, possibly negative bounds (`slice.indices`), `start ≤ stop` after resolution -/
theorem getSlice_spec (a : ABuf) (start stop : Option Int)
    (h : Buf.sliceBound a.length start 0 ≤ Buf.sliceBound a.length stop a.length) :
    Buf.getSlice (Buf.ofABuf a) start stop =
      .ok (Buf.ofABuf (a.slice (Buf.sliceBound a.length start 0) (Buf.sliceBound a.length stop a.length))) := by
  unfold Buf.getSlice
  have hl : (Buf.ofABuf a).length = a.length := rfl
  have : ¬ (Buf.sliceBound a.length start 0 > Buf.sliceBound a.length stop a.length) := by omega
  simp only [hl, this, if_false, bind, Except.bind]
  exact getRange_spec a _ _ h (sliceBound_le _ _ _ (Nat.le_refl _))

/-- `b[s:e] = values` (`__setitem__`): prefix, the values, postfix; side and identity of `b` kept -/
theorem setRange_spec (a v : ABuf) (s e : Nat) (hse : s ≤ e) (hen : e ≤ a.length) :
    Buf.setRange (Buf.ofABuf a) s e (Buf.ofABuf v) = .ok (Buf.ofABuf ⟨a.bits.take s ++ v.bits ++ a.bits.drop e, a.side⟩) := by
  unfold Buf.setRange
  have hl : (Buf.ofABuf a).length = a.length := rfl
  simp only [hl, bind, Except.bind, getRange_spec a 0 s (by omega) (by omega), getRange_spec a e a.length hen (Nat.le_refl _),
    add_spec, pure, Except.pure]
  obtain ⟨A, side⟩ := a
  simp only [Buf.ofABuf, ABuf.add, ABuf.slice, Bits.slice, List.drop_zero, Nat.sub_zero, ABuf.length]
  have : List.take (A.length - e) (List.drop e A) = List.drop e A := List.take_of_length_le (by simp)
  rw [this]

end Schc
