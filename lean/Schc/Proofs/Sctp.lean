/- SCTP chunk / parameter walks: termination and error kinds (C14). -/
import Schc.Proofs.Coap

namespace Schc

theorem sctpParameter_spec (b : ABuf) :
    (∃ fs c, sctpParameter b = .ok (fs, c) ∧ 32 ≤ c) ∨ sctpParameter b = .error .parserError := by
  unfold sctpParameter
  simp only [bind, Except.bind]
  split
  · right; rfl
  · rename_i h
    left
    refine ⟨_, _, rfl, ?_⟩
    have : ¬ ((fieldValue (parseFixed Gen.sctpParameterLayout b) Gen.SCTPF.PARAMETER_LENGTH).value * 8 < 32) := fun hh => h (Or.inr hh)
    omega

theorem from_length (b : ABuf) (k : Nat) : (b.from_ k).length = b.length - k := by simp [ABuf.from_, ABuf.length]
theorem slice_length_le (b : ABuf) (i j : Nat) : (b.slice i j).length ≤ b.length := by
  simp [ABuf.slice, Bits.slice, ABuf.length]; omega

theorem sctpParameters_spec (fuel : Nat) (b : ABuf) (hf : b.length ≤ 32 * fuel) :
    (∃ fs, sctpParameters fuel b = .ok fs) ∨ sctpParameters fuel b = .error .parserError := by
  induction fuel generalizing b with
  | zero =>
    left; unfold sctpParameters
    have : ¬ b.length > 0 := by omega
    simp only [this, if_false, pure, Except.pure]; exact ⟨_, rfl⟩
  | succ fuel ih =>
    unfold sctpParameters
    by_cases hb : b.length > 0
    · simp only [hb, if_true, bind, Except.bind]
      rcases sctpParameter_spec b with ⟨fs, c, h1, h2⟩ | h1
      · rw [h1]
        simp only
        rcases ih (b.from_ c) (by rw [from_length]; omega) with ⟨r, hr⟩ | hr
        · left; rw [hr]; exact ⟨_, rfl⟩
        · right; rw [hr]
      · right; rw [h1]
    · left; simp only [hb, if_false, pure, Except.pure]; exact ⟨_, rfl⟩

theorem sctpChunkValue_spec (fuel : Nat) (t : Nat) (cv : ABuf) (hf : cv.length < 32 * fuel) :
    (∃ fs, sctpChunkValue fuel t cv = .ok fs) ∨ sctpChunkValue fuel t cv = .error .parserError := by
  unfold sctpChunkValue
  have hp : ∀ x : ABuf, x.length ≤ cv.length → (∃ fs, sctpParameters fuel x = .ok fs) ∨ sctpParameters fuel x = .error .parserError :=
    fun x hx => sctpParameters_spec fuel x (by omega)
  have h128 : (cv.from_ 128).length ≤ cv.length := by rw [from_length]; omega
  simp only [bind, Except.bind, pure, Except.pure]
  split
  · left; exact ⟨_, rfl⟩
  · split
    · rcases hp _ h128 with ⟨r, hr⟩ | hr
      · left; rw [hr]; exact ⟨_, rfl⟩
      · right; rw [hr]
    · split
      · rcases hp _ h128 with ⟨r, hr⟩ | hr
        · left; rw [hr]; exact ⟨_, rfl⟩
        · right; rw [hr]
      · split
        · left; exact ⟨_, rfl⟩
        · split
          · exact hp cv (Nat.le_refl _)
          · split
            · left; exact ⟨_, rfl⟩
            · split
              · left; exact ⟨_, rfl⟩
              · split
                · left; exact ⟨_, rfl⟩
                · left; exact ⟨_, rfl⟩

theorem sctpChunkBody_spec (fuel : Nat) (b : ABuf) (hdr : List Field) (clv : Nat) (hf : b.length < 32 * fuel) :
    (∃ fs, sctpChunkBody fuel b hdr clv = .ok fs) ∨ sctpChunkBody fuel b hdr clv = .error .parserError := by
  unfold sctpChunkBody
  simp only [bind, Except.bind]
  split
  · have hcv : (b.slice 32 (32 + (clv - 32))).length < 32 * fuel := by
      have := slice_length_le b 32 (32 + (clv - 32)); omega
    rcases sctpChunkValue_spec fuel (fieldValue hdr Gen.SCTPF.CHUNK_TYPE).value _ hcv with ⟨cf, hr⟩ | hr
    · rw [hr]
      simp only
      split
      · right; rfl
      · left; exact ⟨_, rfl⟩
    · right; rw [hr]
  · left; exact ⟨_, rfl⟩

theorem sctpChunk_spec (fuel : Nat) (b : ABuf) (hf : b.length < 32 * fuel) :
    (∃ fs c, sctpChunk fuel b = .ok (fs, c) ∧ 32 ≤ c) ∨ sctpChunk fuel b = .error .parserError := by
  unfold sctpChunk
  simp only [bind, Except.bind]
  split
  · right; rfl
  · rename_i h
    have hclv : ¬ ((fieldValue (parseFixed Gen.sctpChunkHeaderLayout b) Gen.SCTPF.CHUNK_LENGTH).value * 8 < 32) := fun hh => h (Or.inr hh)
    rcases sctpChunkBody_spec fuel b (parseFixed Gen.sctpChunkHeaderLayout b) _ hf with ⟨fs, hr⟩ | hr
    · rw [hr]; left; exact ⟨_, _, rfl, by omega⟩
    · rw [hr]; right; rfl

theorem sctpChunks_spec (fuel pf : Nat) (b : ABuf) (hf : b.length ≤ 32 * fuel) (hp : b.length < 32 * pf) :
    (∃ fs, sctpChunks fuel pf b = .ok fs) ∨ sctpChunks fuel pf b = .error .parserError := by
  induction fuel generalizing b with
  | zero =>
    left; unfold sctpChunks
    have : ¬ b.length > 0 := by omega
    simp only [this, if_false, pure, Except.pure]; exact ⟨_, rfl⟩
  | succ fuel ih =>
    unfold sctpChunks
    by_cases hb : b.length > 0
    · simp only [hb, if_true, bind, Except.bind]
      rcases sctpChunk_spec pf b hp with ⟨fs, c, h1, h2⟩ | h1
      · rw [h1]
        simp only
        rcases ih (b.from_ c) (by rw [from_length]; omega) (by rw [from_length]; omega) with ⟨r, hr⟩ | hr
        · left; rw [hr]; exact ⟨_, rfl⟩
        · right; rw [hr]
      · right; rw [h1]
    · left; simp only [hb, if_false, pure, Except.pure]; exact ⟨_, rfl⟩

/-- C14 for the SCTP parser -/
theorem sctpParse_total (fuel : Nat) (b : ABuf) (hf : b.length < fuel) :
    (∃ h, sctpParse fuel b = .ok h) ∨ sctpParse fuel b = .error .parserError := by
  unfold sctpParse
  by_cases hlen : b.length < Gen.sctpMinLength
  · right; simp [hlen, bind, Except.bind, throw, throwThe, MonadExceptOf.throw]
  · simp only [hlen, if_false, bind, Except.bind]
    have h1 : (b.from_ 96).length < 32 * fuel := by rw [from_length]; omega
    rcases sctpChunks_spec fuel fuel (b.from_ 96) (by omega) h1 with ⟨r, hr⟩ | hr
    · left; rw [hr]; exact ⟨_, rfl⟩
    · right; rw [hr]

end Schc
