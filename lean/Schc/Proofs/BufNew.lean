/- C05: the constructor normalises any content to the canonical Buffer of the bits it denotes. -/
import Schc.Proofs.BufKit

namespace Schc
open Bits

theorem byteLen_eq (n : Nat) : 8 * byteLenOf n = n + padLenOf n := by
  unfold byteLenOf padLenOf; split <;> omega

theorem drop_zeros_append (a : Nat) (x : Bits) (k : Nat) (hk : k ≤ a) : (Bits.zeros a ++ x).drop k = Bits.zeros (a - k) ++ x := by
  rw [List.drop_append, zeros_length]
  have e : k - a = 0 := by omega
  rw [e, List.drop_zero]
  simp [Bits.zeros, List.drop_replicate]

/-- the last `k` bits of a zero-extended string do not depend on how far it was extended -/
theorem last_bits_ext (a a' : Nat) (x : Bits) (k : Nat) (h1 : k ≤ a + x.length) (h2 : k ≤ a' + x.length) :
    (Bits.zeros a ++ x).drop (a + x.length - k) = (Bits.zeros a' ++ x).drop (a' + x.length - k) := by
  by_cases hx : k ≤ x.length
  · rw [List.drop_append, List.drop_append, zeros_length, zeros_length]
    have e1 : List.drop (a + x.length - k) (Bits.zeros a) = [] := List.drop_of_length_le (by rw [zeros_length]; omega)
    have e2 : List.drop (a' + x.length - k) (Bits.zeros a') = [] := List.drop_of_length_le (by rw [zeros_length]; omega)
    rw [e1, e2, List.nil_append, List.nil_append]
    congr 1; omega
  · rw [drop_zeros_append a x _ (by omega), drop_zeros_append a' x _ (by omega)]
    congr 2; omega

theorem take_append_zeros (x : Bits) (a a' k : Nat) (h1 : k ≤ x.length + a) (h2 : k ≤ x.length + a') :
    (x ++ Bits.zeros a).take k = (x ++ Bits.zeros a').take k := by
  rw [List.take_append, List.take_append]
  congr 1
  simp only [Bits.zeros, List.take_replicate]
  congr 1; omega

end Schc

namespace Schc
open Bits

theorem ofBytes_length (c : List Nat) (n : Nat) (p : Pad) : (ABuf.ofBytes c n p).bits.length = n := by
  cases p <;> simp [ABuf.ofBytes, bytesBits_length, zeros_length] <;> omega

theorem idx_zero_cons (x : Nat) (xs : List Nat) : idx (x :: xs) 0 = .ok x := rfl

theorem lastElem_append_single (l : List Nat) (x : Nat) : lastElem (l ++ [x]) = .ok x := by
  unfold lastElem; simp; rfl

theorem bytesBits_dropLast (c : List Nat) : ABuf.bytesBits c.dropLast = (ABuf.bytesBits c).take (8 * (c.length - 1)) := by
  rw [List.dropLast_eq_take, bytesBits_take]

/-- `Buffer(content, length, padding)` is the canonical Buffer of the bits the property says it denotes: the last
    (left) / first (right) `length` bits of the zero-extended content — for ANY byte content, short, long or with
    non-zero padding bits -/
theorem new_spec (c : List Nat) (n : Nat) (p : Pad) (hc : AllBytes c) : Buf.new c n p = .ok (Buf.ofABuf (ABuf.ofBytes c n p)) := by
  have hbl := byteLen_eq n
  have hpl := padLen_lt n
  generalize hplv : padLenOf n = pl at *
  generalize hblv : byteLenOf n = bl at *
  have hlen := ofBytes_length c n p
  unfold Buf.new
  simp only [hplv, hblv, bind, Except.bind, pure, Except.pure]
  cases p
  · -- LEFT
    simp only
    generalize hc1 : (if c.length < bl then List.replicate (bl - c.length) 0 ++ c else c) = c1
    have hc1b : AllBytes c1 := by
      rw [← hc1]; split
      · exact allBytes_append (allBytes_replicate _) hc
      · exact hc
    have hc1l : bl ≤ c1.length := by rw [← hc1]; split <;> (try simp) <;> omega
    have hB1 : ABuf.bytesBits c1 = Bits.zeros (8 * (c1.length - c.length)) ++ ABuf.bytesBits c := by
      rw [← hc1]; split
      · rename_i h
        rw [bytesBits_append, bytesBits_replicate_zero]; simp
      · simp [Bits.zeros]
    have hc1ge : c.length ≤ c1.length := by rw [← hc1]; split <;> (try simp) <;> omega
    generalize hc2 : c1.drop (c1.length - bl) = c2
    have hc2b : AllBytes c2 := by rw [← hc2]; exact allBytes_drop hc1b _
    have hc2l : c2.length = bl := by rw [← hc2]; simp; omega
    -- the bits of c2: the last 8*bl bits of the zero-extended content
    have hB2 : ABuf.bytesBits c2 = (Bits.zeros (8 * (c1.length - c.length)) ++ ABuf.bytesBits c).drop (8 * (c1.length - bl)) := by
      rw [← hc2, bytesBits_drop, hB1]
    -- the expected bits
    have hbits : (ABuf.ofBytes c n .left).bits = (ABuf.bytesBits c2).drop pl := by
      simp only [ABuf.ofBytes]
      rw [hB2, List.drop_drop]
      have hBc : (ABuf.bytesBits c).length = 8 * c.length := bytesBits_length c
      have e1 := last_bits_ext (n - (ABuf.bytesBits c).length) (8 * (c1.length - c.length)) (ABuf.bytesBits c) n (by omega) (by omega)
      have e2 : (Bits.zeros (n - (ABuf.bytesBits c).length) ++ ABuf.bytesBits c).length - n = n - (ABuf.bytesBits c).length + (ABuf.bytesBits c).length - n := by
        simp [zeros_length]
      rw [e2, e1]
      congr 1; omega
    have hexp : Buf.ofABuf (ABuf.ofBytes c n .left) = ⟨(⟨(ABuf.bytesBits c2).drop pl, .left⟩ : ABuf).content, n, .left, pl⟩ := by
      have hl' := hlen
      simp only [Buf.ofABuf, ABuf.length, hlen, hplv]
      congr 1
      rw [← hbits]
      show (ABuf.ofBytes c n Pad.left).content = _
      have : ABuf.ofBytes c n Pad.left = ⟨(ABuf.ofBytes c n Pad.left).bits, .left⟩ := by simp [ABuf.ofBytes]
      rw [this]
    rw [hexp]
    have hdl : ((ABuf.bytesBits c2).drop pl).length = n := by rw [List.length_drop, bytesBits_length, hc2l]; omega
    by_cases hp : pl > 0
    · simp only [hp, if_true]
      cases hc2c : c2 with
      | nil => rw [hc2c] at hc2l; simp at hc2l; omega
      | cons x xs =>
        rw [hc2c] at hdl
        rw [idx_zero_cons]
        simp only [List.drop_succ_cons, List.drop_zero]
        congr 2
        apply content_left_of_bits _ _ _ _
        · intro y hy
          rcases List.mem_cons.mp hy with h | h
          · subst h
            have := hc2b x (by rw [hc2c]; simp)
            exact Nat.lt_of_le_of_lt (Nat.and_le_left) this
          · exact hc2b y (by rw [hc2c]; exact List.mem_cons_of_mem _ h)
        · rw [mask_first x xs pl (by omega), hdl, hplv]
    · have hp0 : pl = 0 := by omega
      simp only [hp, if_false]
      congr 2
      apply content_left_of_bits _ hc2b
      rw [hdl, hplv, hp0]; simp [Bits.zeros]
  · -- RIGHT
    simp only
    generalize hc1 : (if c.length < bl then c ++ List.replicate (bl - c.length) 0 else c) = c1
    have hc1b : AllBytes c1 := by
      rw [← hc1]; split
      · exact allBytes_append hc (allBytes_replicate _)
      · exact hc
    have hc1l : bl ≤ c1.length := by rw [← hc1]; split <;> (try simp) <;> omega
    have hc1ge : c.length ≤ c1.length := by rw [← hc1]; split <;> (try simp) <;> omega
    have hB1 : ABuf.bytesBits c1 = ABuf.bytesBits c ++ Bits.zeros (8 * (c1.length - c.length)) := by
      rw [← hc1]; split
      · rw [bytesBits_append, bytesBits_replicate_zero]; simp
      · simp [Bits.zeros]
    generalize hc2 : c1.take bl = c2
    have hc2b : AllBytes c2 := by rw [← hc2]; exact allBytes_take hc1b _
    have hc2l : c2.length = bl := by rw [← hc2]; simp; omega
    have hB2 : ABuf.bytesBits c2 = (ABuf.bytesBits c ++ Bits.zeros (8 * (c1.length - c.length))).take (8 * bl) := by
      rw [← hc2, bytesBits_take, hB1]
    have hBc : (ABuf.bytesBits c).length = 8 * c.length := bytesBits_length c
    have hbits : (ABuf.ofBytes c n .right).bits = (ABuf.bytesBits c2).take n := by
      simp only [ABuf.ofBytes]
      rw [hB2, List.take_take, Nat.min_eq_left (by omega)]
      exact take_append_zeros _ _ _ _ (by omega) (by omega)
    have hexp : Buf.ofABuf (ABuf.ofBytes c n .right) = ⟨(⟨(ABuf.bytesBits c2).take n, .right⟩ : ABuf).content, n, .right, pl⟩ := by
      simp only [Buf.ofABuf, ABuf.length, hlen, hplv]
      congr 1
      rw [← hbits]
      have : ABuf.ofBytes c n Pad.right = ⟨(ABuf.ofBytes c n Pad.right).bits, .right⟩ := by simp [ABuf.ofBytes]
      rw [this]
    rw [hexp]
    have hdl : ((ABuf.bytesBits c2).take n).length = n := by rw [List.length_take, bytesBits_length, hc2l]; omega
    by_cases hp : pl > 0
    · simp only [hp, if_true]
      have hne : c2 ≠ [] := by intro h; rw [h] at hc2l; simp at hc2l; omega
      obtain ⟨ini, lst, hsplit⟩ : ∃ ini lst, c2 = ini ++ [lst] := ⟨c2.dropLast, c2.getLast hne, (List.dropLast_concat_getLast hne).symm⟩
      rw [hsplit] at hdl
      rw [hsplit, lastElem_append_single]
      simp only [List.dropLast_concat]
      congr 2
      have hini : ini.length = bl - 1 := by rw [hsplit] at hc2l; simp at hc2l; omega
      apply content_right_of_bits _ _ _ _
      · intro y hy
        rcases List.mem_append.mp hy with h | h
        · exact hc2b y (by rw [hsplit]; exact List.mem_append_left _ h)
        · simp only [List.mem_singleton] at h; subst h
          exact Nat.lt_of_le_of_lt (Nat.and_le_left) (hc2b lst (by rw [hsplit]; simp))
      · rw [bytesBits_append, bytesBits_cons, bytesBits_nil, List.append_nil, mask_last_byte lst pl (by omega), hdl, hplv,
          ← List.append_assoc]
        congr 1
        rw [bytesBits_append, bytesBits_cons, bytesBits_nil, List.append_nil, List.take_append, bytesBits_length, hini]
        have e1 : List.take n (ABuf.bytesBits ini) = ABuf.bytesBits ini := List.take_of_length_le (by rw [bytesBits_length, hini]; omega)
        rw [e1]; congr 2; omega
    · have hp0 : pl = 0 := by omega
      simp only [hp, if_false]
      congr 2
      apply content_right_of_bits _ hc2b
      rw [hdl, hplv, hp0]
      have : List.take n (ABuf.bytesBits c2) = ABuf.bytesBits c2 := List.take_of_length_le (by rw [bytesBits_length, hc2l]; omega)
      rw [this]; simp [Bits.zeros]

end Schc
