/- Lemmas on `Bits.ofNat` / `Bits.toNat` (core Lean only). -/
import Schc.Spec.Bits
import Mathlib.Data.List.Induction

namespace Schc.Bits

@[simp] theorem ofNat_length (n v : Nat) : (ofNat n v).length = n := by simp [ofNat]

theorem ofNat_zero (v : Nat) : ofNat 0 v = [] := by simp [ofNat]

theorem ofNat_succ (n v : Nat) : ofNat (n + 1) v = ofNat n (v / 2) ++ [v.testBit 0] := by
  apply List.ext_getElem
  · simp
  · intro i h1 h2
    simp only [ofNat_length] at h1
    simp only [ofNat, List.getElem_map, List.getElem_range, List.getElem_append, List.length_map, List.length_range]
    split
    · rename_i hi
      rw [Nat.testBit_div_two]
      congr 1; omega
    · rename_i hi
      have : i = n := by omega
      subst this
      simp

theorem toNat_append_single (b : Bits) (x : Bool) : toNat (b ++ [x]) = 2 * toNat b + (if x then 1 else 0) := by
  simp [toNat, List.foldl_append]

theorem toNat_ofNat (n v : Nat) (h : v < 2 ^ n) : toNat (ofNat n v) = v := by
  induction n generalizing v with
  | zero => simp at h; subst h; simp [ofNat, toNat]
  | succ n ih =>
    rw [ofNat_succ, toNat_append_single, ih (v / 2) (by rw [Nat.pow_succ] at h; omega)]
    rw [Nat.testBit_zero]
    by_cases hv : v % 2 = 1 <;> simp [hv] <;> omega

theorem toNat_lt (b : Bits) : toNat b < 2 ^ b.length := by
  induction b using List.reverseRecOn with
  | nil => simp [toNat]
  | append_singleton b x ih =>
    rw [toNat_append_single, List.length_append, List.length_singleton, Nat.pow_succ]
    split <;> omega

/-- concatenation law -/
theorem ofNat_append (n m a b : Nat) (hb : b < 2 ^ m) :
    ofNat (n + m) (a * 2 ^ m + b) = ofNat n a ++ ofNat m b := by
  apply List.ext_getElem
  · simp
  · intro i h1 h2
    simp only [ofNat, List.getElem_map, List.getElem_range, List.getElem_append, List.length_map, List.length_range]
    simp at h1
    split
    · rename_i hi
      have : n + m - 1 - i = (n - 1 - i) + m := by omega
      rw [this, Nat.mul_comm, Nat.testBit_two_pow_mul_add _ hb]
      simp; intro h; omega
    · rename_i hi
      have hlt : n + m - 1 - i < m := by omega
      rw [Nat.mul_comm, Nat.testBit_two_pow_mul_add _ hb]
      simp [hlt]; congr 1; omega

theorem toNat_append (a b : Bits) : toNat (a ++ b) = toNat a * 2 ^ b.length + toNat b := by
  induction b using List.reverseRecOn generalizing a with
  | nil => simp [toNat]
  | append_singleton b x ih =>
    rw [← List.append_assoc, toNat_append_single, ih, toNat_append_single, List.length_append, List.length_singleton, Nat.pow_succ]
    split <;> simp [Nat.mul_add, Nat.add_mul, Nat.mul_assoc, Nat.mul_comm, Nat.mul_left_comm, Nat.add_assoc]

/-- every bit list is the expansion of its value -/
theorem ofNat_toNat (b : Bits) : ofNat b.length (toNat b) = b := by
  induction b using List.reverseRecOn with
  | nil => simp [ofNat]
  | append_singleton b x ih =>
    rw [List.length_append, List.length_singleton, ofNat_succ, toNat_append_single]
    have h1 : (2 * toNat b + if x = true then 1 else 0) / 2 = toNat b := by split <;> omega
    have h2 : (2 * toNat b + if x = true then 1 else 0).testBit 0 = x := by
      rw [Nat.testBit_zero]; cases x <;> simp <;> omega
    rw [h1, h2, ih]

theorem take_append_ofNat (w v : Nat) (r : Bits) : (ofNat w v ++ r).take w = ofNat w v := by
  rw [List.take_append_of_le_length (by simp), List.take_of_length_le (by simp)]

theorem drop_append_ofNat (w v : Nat) (r : Bits) : (ofNat w v ++ r).drop w = r := by
  rw [List.drop_append_of_le_length (by simp), List.drop_of_length_le (by simp), List.nil_append]

end Schc.Bits
