/- C01 / C09: on an SCTP field list the checksum compute function regenerates the CRC-32c. -/
import Schc.Proofs.StackRoundtrip4

namespace Schc
open Bits Compute

/-- the field list of an SCTP packet: common header, then whatever the chunks parsed to -/
def stackS (s0 s1 s2 s3 : ABuf) (rest : Fields) : Fields :=
  (Gen.SCTPF.SOURCE_PORT, s0) :: (Gen.SCTPF.DESTINATION_PORT, s1) :: (Gen.SCTPF.VERIFICATION_TAG, s2) :: (Gen.SCTPF.CHECKSUM, s3) :: rest

/-- the whole packet as one buffer -/
def allOf (s0 s1 s2 s3 : ABuf) (rest : Fields) : ABuf := (rest.map (·.2)).foldl ABuf.add (((s0.add s1).add s2).add s3)

/-- what `sctp._compute_checksum` returns for the packet `all` (checksum field zero): C09_sctp spells it out as the
    complemented CRC-32c, least significant byte first -/
def sctpCk (all : ABuf) : Py ABuf :=
  let crc := ABuf.ofNat 32 (Spec.crcBitwise ((all.chunks 8 true).map ABuf.value) 0xffffffff)
  concat1 ((⟨crc.bits.map not, crc.side⟩ : ABuf).chunks 8 false).reverse

theorem compute_sc (fs : Fields) (pos : Nat) : Compute.compute Gen.SCTPF.CHECKSUM fs pos = sctpChecksum fs pos := rfl

theorem step_sc (s0 s1 s2 s3 : ABuf) (rest : Fields) :
    Compute.compute Gen.SCTPF.CHECKSUM (stackS s0 s1 s2 s3 rest) 3 = sctpCk (allOf s0 s1 s2 s3 rest) := by
  rw [compute_sc]
  have hs : pySlice (stackS s0 s1 s2 s3 rest) ((3 : Nat) - 3 : Int) none = stackS s0 s1 s2 s3 rest := by
    have := pySlice_from (stackS s0 s1 s2 s3 rest) 0 (Nat.zero_le _)
    have e : ((3 : Nat) - 3 : Int) = ((0 : Nat) : Int) := by omega
    rw [e, this]; rfl
  have hall : concat1 ((pySlice (stackS s0 s1 s2 s3 rest) ((3 : Nat) - 3 : Int) none).map (·.2)) = .ok (allOf s0 s1 s2 s3 rest) := by
    rw [hs]; simp [stackS, concat1, allOf, pure, Except.pure]
  rw [C09_sctp _ _ _ hall]
  rfl

theorem allOf_bits (s0 s1 s2 s3 : ABuf) (rest : Fields) :
    (allOf s0 s1 s2 s3 rest).bits = s0.bits ++ s1.bits ++ s2.bits ++ s3.bits ++ rest.flatMap (·.2.bits) := by
  unfold allOf
  rw [foldl_add_bits]
  simp [ABuf.add, List.flatMap_map]

theorem sctpCk_bits (x y : ABuf) (h : x.bits = y.bits) : sctpCk x = sctpCk y := by
  unfold sctpCk
  have : (x.chunks 8 true).map ABuf.value = (y.chunks 8 true).map ABuf.value := by
    simp only [ABuf.chunks, List.map_map, h]; rfl
  rw [this]

/-- an SCTP packet whose checksum field is the CRC-32c RFC 9260 prescribes -/
structure ValidS (s0 s1 s2 s3 : ABuf) (rest : Fields) : Prop where
  l3 : s3.bits.length = 32
  ck : ∃ c, sctpCk (allOf s0 s1 s2 (ph 32) rest) = .ok c ∧ c.bits = s3.bits

theorem stackS_bits (s0 s1 s2 s3 : ABuf) (rest : Fields) :
    (stackS s0 s1 s2 s3 rest).flatMap (·.2.bits) = s0.bits ++ (s1.bits ++ (s2.bits ++ (s3.bits ++ rest.flatMap (·.2.bits)))) := by
  simp [stackS]

theorem restoreS (s0 s1 s2 s3 : ABuf) (rest : Fields) (hv : ValidS s0 s1 s2 s3 rest) (c : Bool) :
    ∃ res, runComputes (sortEntries (if c then [(⟨3, Gen.SCTPF.CHECKSUM⟩ : ComputeEntry)] else []))
        (stackS s0 s1 s2 (sel c (ph 32) s3) rest) = .ok res ∧
      res.flatMap (·.2.bits) = (stackS s0 s1 s2 s3 rest).flatMap (·.2.bits) := by
  obtain ⟨l3, ck, hck, hcb⟩ := hv
  cases c
  · exact ⟨_, rfl, rfl⟩
  · have hs : sortEntries [(⟨3, Gen.SCTPF.CHECKSUM⟩ : ComputeEntry)] = [⟨3, Gen.SCTPF.CHECKSUM⟩] := rfl
    simp only [if_true, hs, sel, runComputes, step_sc, hck, bind, Except.bind, pure, Except.pure]
    refine ⟨_, rfl, ?_⟩
    have : (stackS s0 s1 s2 (ph 32) rest).set 3 (Gen.SCTPF.CHECKSUM, ck) = stackS s0 s1 s2 ck rest := rfl
    rw [this, stackS_bits, stackS_bits, hcb]

theorem length4 {α} (l : List α) (h : l.length = 4) : ∃ x0 x1 x2 x3, l = [x0, x1, x2, x3] := by
  match l, h with
  | [x0, x1, x2, x3], _ => exact ⟨x0, x1, x2, x3, rfl⟩

def idsS : List String := [Gen.SCTPF.SOURCE_PORT, Gen.SCTPF.DESTINATION_PORT, Gen.SCTPF.VERIFICATION_TAG, Gen.SCTPF.CHECKSUM]

/-- C01 on SCTP packets: the checksum may be *compute*; for packets carrying the right CRC-32c the round trip holds -/
theorem roundtrip_sctp (p : Packet) (r : Rule) (pf4 restF : List Field) (rf4 restR : List RuleField)
    (hp : p.fields = pf4 ++ restF) (hr : r.fields = rf4 ++ restR) (h4p : pf4.length = 4) (h4r : rf4.length = 4)
    (hids : pf4.map (·.id) = idsS)
    (hn : r.nature = .compression) (hdir : ∀ rf ∈ r.fields, Spec.dirApplies p.dir rf.dir = true)
    (happ : Spec.applicable p r = true) (hfit : AllFitsC p.fields r.fields)
    (hraw : p.raw.bits = p.fields.flatMap (·.value.bits) ++ p.payload.bits)
    (hncR : ∀ rf ∈ restR, rf.cda ≠ .compute)
    (hvalid : ValidS (fv pf4 0) (fv pf4 1) (fv pf4 2) (fv pf4 3) (restOf restF restR p.payload)) :
    ∃ c, compress p r = .ok c ∧ decompress c r = .ok ⟨p.raw.bits, .right⟩ := by
  obtain ⟨x0, x1, x2, x3, rfl⟩ := length4 pf4 h4p
  obtain ⟨g0, g1, g2, g3, rfl⟩ := length4 rf4 h4r
  simp only [idsS, List.map_cons, List.map_nil, List.cons.injEq, and_true] at hids
  obtain ⟨i0, i1, i2, i3⟩ := hids
  have happ' := happ
  unfold Spec.applicable at happ'
  rw [hn] at happ'
  have hfilter : r.fields.filter (fun f => Spec.dirApplies p.dir f.dir) = r.fields := by
    rw [List.filter_eq_self]; exact hdir
  simp only [hfilter, Bool.and_eq_true, beq_iff_eq] at happ'
  obtain ⟨hl, hm⟩ := happ'
  rw [hp, hr] at hl hm hfit
  have hlrest : restF.length = restR.length := by simpa using hl
  simp only [List.cons_append, List.nil_append, Spec.allMatch, Spec.fieldMatches, Bool.and_eq_true, beq_iff_eq] at hm
  obtain ⟨⟨j0, _⟩, ⟨j1, _⟩, ⟨j2, _⟩, ⟨j3, _⟩, _⟩ := hm
  simp only [List.cons_append, List.nil_append] at hfit
  obtain ⟨f0, hfit⟩ := fitsC_cons _ _ _ _ hfit
  obtain ⟨f1, hfit⟩ := fitsC_cons _ _ _ _ hfit
  obtain ⟨f2, hfit⟩ := fitsC_cons _ _ _ _ hfit
  obtain ⟨f3, hfit⟩ := fitsC_cons _ _ _ _ hfit
  have n0 : g0.cda ≠ .compute := not_compute_of_id x0 g0 f0 (by rw [← j0, i0]; decide)
  have n1 : g1.cda ≠ .compute := not_compute_of_id x1 g1 f1 (by rw [← j1, i1]; decide)
  have n2 : g2.cda ≠ .compute := not_compute_of_id x2 g2 f2 (by rw [← j2, i2]; decide)
  simp only [fv, List.getElem?_cons_succ, List.getElem?_cons_zero, Option.map_some, Option.getD_some] at hvalid
  have hv := hvalid
  obtain ⟨l3, _⟩ := hvalid
  have hcur : assemble r.fields (zeroed p.fields r.fields) ++ [(Gen.payloadId, ⟨p.payload.bits, .right⟩)] =
      stackS ⟨x0.value.bits, .right⟩ ⟨x1.value.bits, .right⟩ ⟨x2.value.bits, .right⟩
        (sel (decide (g3.cda = .compute)) (ph 32) ⟨x3.value.bits, .right⟩) (restOf restF restR p.payload) := by
    rw [hp, hr]
    have e3 : g3.cda = .compute → g3.length = 32 := fun hc => by rw [compute_len x3 g3 f3 hc]; exact l3
    simp only [List.cons_append, List.nil_append, zeroed, assemble, sideOf, n0, n1, n2, if_false, stackS, restOf,
      ← j0, ← j1, ← j2, ← j3, i0, i1, i2, i3]
    by_cases c3 : g3.cda = .compute <;> simp [c3, ph, sel, e3]
  have hent : computeEntries r.fields 0 = (if decide (g3.cda = .compute) = true then [(⟨3, Gen.SCTPF.CHECKSUM⟩ : ComputeEntry)] else []) := by
    rw [hr, computeEntries_append, computeEntries_nil restR _ hncR, List.append_nil]
    simp only [computeEntries, n0, n1, n2, if_false, ← j3, i3]
    by_cases c3 : g3.cda = .compute <;> simp [c3]
  obtain ⟨res, hrun, hbits⟩ := restoreS ⟨x0.value.bits, .right⟩ ⟨x1.value.bits, .right⟩ ⟨x2.value.bits, .right⟩ ⟨x3.value.bits, .right⟩
    (restOf restF restR p.payload) hv (decide (g3.cda = .compute))
  refine roundtrip_compute p r hn hdir happ (by rw [hp, hr]; exact ⟨f0, f1, f2, f3, hfit⟩) hraw res ?_ ?_
  · rw [hcur, hent]; exact hrun
  · rw [hbits, stackS_bits, hp]
    simp only [restOf, List.flatMap_append, List.flatMap_cons, List.flatMap_nil, List.append_nil, List.cons_append, List.nil_append]
    rw [assemble_nocompute_bits restF restR hlrest hncR]
    simp [List.append_assoc]

end Schc
