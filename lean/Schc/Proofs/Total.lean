/- C20 / C15: totality and error discipline of decompression. -/
import Schc.Proofs.Select

namespace Schc

/-- the target value has the type the decompressor asserts for the action, the fixed LSB pattern is not longer
    than the field, and only computable ids are marked compute -/
def CdaTypeOK (rf : RuleField) : Prop :=
  match rf.cda, rf.tv with
  | .notSent, .buf _ => True
  | .lsb, .buf t => rf.length ≠ 0 → t.length ≤ rf.length
  | .mappingSent, .map _ => True
  | .valueSent, .buf _ => True
  | .compute, _ => (Gen.computeFunctions.find? (·.1 == rf.id)).isSome
  | _, _ => False

theorem decompressField_total (s : ABuf) (pos : Nat) (rf : RuleField) (h : CdaTypeOK rf) : ∃ x, decompressField s pos rf = .ok x := by
  unfold CdaTypeOK at h
  unfold decompressField
  cases hc : rf.cda <;> cases ht : rf.tv <;> simp only [hc, ht] at h ⊢
  · exact ⟨_, rfl⟩
  · rename_i t
    by_cases h0 : rf.length ≠ 0
    · have : ¬ t.length > rf.length := by have := h h0; omega
      simp only [h0, ne_eq, not_false_eq_true, if_true, this, if_false, bind, Except.bind, pure, Except.pure]
      exact ⟨_, rfl⟩
    · simp only [h0, if_false]; exact ⟨_, rfl⟩
  · rename_i fwd
    cases (reverseOf fwd).find? (fun kv => kv.1.beq (s.slice 0 kv.1.length)) with
    | none => exact ⟨_, rfl⟩
    | some kv => exact ⟨_, rfl⟩
  · by_cases h0 : rf.length ≠ 0
    · simp only [h0, ne_eq, not_false_eq_true, if_true, pure, Except.pure]; exact ⟨_, rfl⟩
    · simp only [h0, if_false]; exact ⟨_, rfl⟩
  all_goals
    have hnn : ¬ (List.find? (fun x => x.1 == rf.id) Gen.computeFunctions).isNone = true := by
      rw [Option.isNone_iff_eq_none]; intro hn; rw [hn] at h; simp at h
    simp only [hnn, if_false, bind, Except.bind, pure, Except.pure]
    exact ⟨_, rfl⟩

theorem decompressFields_total (rfs : List RuleField) (pos : Nat) (s : ABuf) (h : ∀ rf ∈ rfs, CdaTypeOK rf) :
    ∃ x, decompressFields rfs pos s = .ok x := by
  induction rfs generalizing pos s with
  | nil => exact ⟨_, rfl⟩
  | cons rf rfs ih =>
    obtain ⟨⟨f, k, ce⟩, h1⟩ := decompressField_total s pos rf (h rf (by simp))
    obtain ⟨⟨fs, ces, rest⟩, h2⟩ := ih (pos + 1) (s.from_ k) (fun x hx => h x (List.mem_cons_of_mem _ hx))
    simp only [decompressFields, h1, h2, bind, Except.bind, pure, Except.pure]
    exact ⟨_, rfl⟩

theorem decompressFields_entries (rfs : List RuleField) (pos : Nat) (s : ABuf) (x : Compute.Fields × List ComputeEntry × ABuf)
    (hx : decompressFields rfs pos s = .ok x) (hnc : ∀ rf ∈ rfs, rf.cda ≠ .compute) : x.2.1 = [] := by
  induction rfs generalizing pos s x with
  | nil => simp only [decompressFields, pure, Except.pure, Except.ok.injEq] at hx; subst hx; rfl
  | cons rf rfs ih =>
    simp only [decompressFields, bind, Except.bind] at hx
    cases h1 : decompressField s pos rf with
    | error e => simp [h1] at hx
    | ok y =>
      obtain ⟨f, k, ce⟩ := y
      simp only [h1] at hx
      cases h2 : decompressFields rfs (pos + 1) (s.from_ k) with
      | error e => simp [h2] at hx
      | ok z =>
        obtain ⟨fs, ces, rest⟩ := z
        simp only [h2, pure, Except.pure, Except.ok.injEq] at hx
        have hces := ih (pos + 1) (s.from_ k) _ h2 (fun r hr => hnc r (List.mem_cons_of_mem _ hr))
        simp only at hces
        have hce : ce = none := by
          have hne := hnc rf (by simp)
          unfold decompressField at h1
          cases hc : rf.cda <;> cases ht : rf.tv <;> simp only [hc, ht, bind, Except.bind, pure, Except.pure] at h1 <;>
            (try (repeat' split at h1)) <;> simp_all
        subst hx; subst hce; simp [hces]

/-- for a rule without compute fields decompression is total -/
theorem decompress_total_nocompute (s : ABuf) (r : Rule) (h : ∀ rf ∈ r.fields, CdaTypeOK rf) (hnc : ∀ rf ∈ r.fields, rf.cda ≠ .compute) :
    ∃ d, decompress s r = .ok d := by
  unfold decompress decompressToFields
  obtain ⟨⟨fs, ces, rest⟩, h1⟩ := decompressFields_total r.fields 0 (s.from_ r.id.length) h
  have hces := decompressFields_entries _ _ _ _ h1 hnc
  simp only at hces
  subst hces
  simp only [h1, bind, Except.bind, sortEntries, List.foldl_nil, runComputes, pure, Except.pure]
  exact ⟨_, rfl⟩

end Schc
