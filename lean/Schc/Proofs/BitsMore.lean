/- bit-list lemmas shared by the Buffer block and the parsers (no dependency on the Buffer model's Gen tables) -/
import Schc.Proofs.BitsLemmas
import Schc.Spec.Bits

namespace Schc
open Bits

/-- the low `k` bits of an `n`-bit expansion -/
theorem ofNat_low (n k x : Nat) (hk : k ≤ n) : Bits.ofNat k (x % 2 ^ k) = (Bits.ofNat n x).drop (n - k) := by
  apply List.ext_getElem
  · simp; omega
  · intro i h1 h2
    simp only [ofNat_length] at h1
    simp only [Bits.ofNat, List.getElem_map, List.getElem_range, List.getElem_drop, Nat.testBit_mod_two_pow]
    have : k - 1 - i < k := by omega
    simp only [this, decide_true, Bool.true_and]
    congr 1; omega

/-- the high `n - k` bits of an `n`-bit expansion -/
theorem ofNat_high (n k x : Nat) (hk : k ≤ n) : Bits.ofNat (n - k) (x / 2 ^ k) = (Bits.ofNat n x).take (n - k) := by
  apply List.ext_getElem
  · simp
  · intro i h1 h2
    simp only [ofNat_length] at h1
    simp only [Bits.ofNat, List.getElem_map, List.getElem_range, List.getElem_take, Nat.testBit_div_two_pow]
    congr 1; omega

theorem toNat_zeros_append (k : Nat) (x : Bits) : Bits.toNat (Bits.zeros k ++ x) = Bits.toNat x := by
  rw [toNat_append]
  have : Bits.toNat (Bits.zeros k) = 0 := by
    induction k with
    | zero => rfl
    | succ k ih =>
      have : Bits.zeros (k + 1) = Bits.zeros k ++ [false] := by simp [Bits.zeros, List.replicate_succ']
      rw [this, toNat_append_single, ih]; simp
  rw [this]; simp


end Schc
