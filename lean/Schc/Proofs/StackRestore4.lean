/- C01 / C09: on an IPv4 / UDP field list the compute functions regenerate total length, header checksum, UDP length
   and UDP checksum. -/
import Schc.Proofs.StackRestore

namespace Schc
open Bits Compute

/-- the field list of an IPv4 / UDP packet (what follows UDP is `rest`) -/
def stack4 (a0 a1 a2 a3 a4 a5 a6 a7 a8 a9 a10 a11 u0 u1 u2 u3 : ABuf) (rest : Fields) : Fields :=
  (Gen.IPv4F.VERSION, a0) :: (Gen.IPv4F.HEADER_LENGTH, a1) :: (Gen.IPv4F.TYPE_OF_SERVICE, a2) :: (Gen.IPv4F.TOTAL_LENGTH, a3) ::
  (Gen.IPv4F.IDENTIFICATION, a4) :: (Gen.IPv4F.FLAGS, a5) :: (Gen.IPv4F.FRAGMENT_OFFSET, a6) :: (Gen.IPv4F.TIME_TO_LIVE, a7) ::
  (Gen.IPv4F.PROTOCOL, a8) :: (Gen.IPv4F.HEADER_CHECKSUM, a9) :: (Gen.IPv4F.SRC_ADDRESS, a10) :: (Gen.IPv4F.DST_ADDRESS, a11) ::
  (Gen.UDPF.SOURCE_PORT, u0) :: (Gen.UDPF.DESTINATION_PORT, u1) :: (Gen.UDPF.LENGTH, u2) :: (Gen.UDPF.CHECKSUM, u3) :: rest

/-- the twelve header fields as one buffer (what the header checksum covers) -/
def hdr4 (a0 a1 a2 a3 a4 a5 a6 a7 a8 a9 a10 a11 : ABuf) : ABuf :=
  concat (ABuf.empty .left) [a0, a1, a2, a3, a4, a5, a6, a7, a8, a9, a10, a11]

/-- the number of bits `_compute_total_length` counts: everything from the second field on -/
def tailLen4 (a1 a2 a3 a4 a5 a6 a7 a8 a9 a10 a11 u0 u1 u2 u3 : ABuf) (rest : Fields) : Nat :=
  a1.length + a2.length + a3.length + a4.length + a5.length + a6.length + a7.length + a8.length + a9.length + a10.length + a11.length +
    (upOf u0 u1 u2 u3 rest).length

theorem compute_tl (fs : Fields) (pos : Nat) : Compute.compute Gen.IPv4F.TOTAL_LENGTH fs pos = ipv4TotalLength fs pos := rfl
theorem compute_hc (fs : Fields) (pos : Nat) : Compute.compute Gen.IPv4F.HEADER_CHECKSUM fs pos = ipv4HeaderChecksum fs pos := rfl

theorem stack4_length (a0 a1 a2 a3 a4 a5 a6 a7 a8 a9 a10 a11 u0 u1 u2 u3 : ABuf) (rest : Fields) :
    (stack4 a0 a1 a2 a3 a4 a5 a6 a7 a8 a9 a10 a11 u0 u1 u2 u3 rest).length = 16 + rest.length := by simp [stack4]; omega

theorem pySlice_from {α} (l : List α) (k : Nat) (hk : k ≤ l.length) : pySlice l (k : Int) none = l.drop k := by
  simp only [pySlice]
  have h1 : ¬ ((k : Int) < 0) := by omega
  simp only [h1, if_false]
  have h2 : (min (k : Int) (l.length : Int)).toNat = k := by omega
  rw [h2]
  exact List.take_of_length_le (by simp)

theorem pySlice_range {α} (l : List α) (a b : Nat) (hb : b ≤ l.length) (hab : a ≤ b) : pySlice l (a : Int) (some (b : Int)) = (l.drop a).take (b - a) := by
  simp only [pySlice]
  have h1 : ¬ ((a : Int) < 0) := by omega
  have h2 : ¬ ((b : Int) < 0) := by omega
  simp only [h1, h2, if_false]
  have e1 : (min (a : Int) (l.length : Int)).toNat = a := by omega
  have e2 : (min (b : Int) (l.length : Int)).toNat = b := by omega
  rw [e1, e2]

/-- IPv4 total length at position 3 -/
theorem step_tl (a0 a1 a2 a3 a4 a5 a6 a7 a8 a9 a10 a11 u0 u1 u2 u3 : ABuf) (rest : Fields) :
    Compute.compute Gen.IPv4F.TOTAL_LENGTH (stack4 a0 a1 a2 a3 a4 a5 a6 a7 a8 a9 a10 a11 u0 u1 u2 u3 rest) 3 =
      natBuf 2 (ceilBytes (tailLen4 a1 a2 a3 a4 a5 a6 a7 a8 a9 a10 a11 u0 u1 u2 u3 rest)) := by
  rw [compute_tl]
  unfold ipv4TotalLength
  have hs : pySlice (stack4 a0 a1 a2 a3 a4 a5 a6 a7 a8 a9 a10 a11 u0 u1 u2 u3 rest) ((3 : Nat) - 2 : Int) none =
      (stack4 a0 a1 a2 a3 a4 a5 a6 a7 a8 a9 a10 a11 u0 u1 u2 u3 rest).drop 1 := by
    have := pySlice_from (stack4 a0 a1 a2 a3 a4 a5 a6 a7 a8 a9 a10 a11 u0 u1 u2 u3 rest) 1 (by rw [stack4_length]; omega)
    simpa using this
  rw [hs]
  have hl : (concat (ABuf.empty .left) (((stack4 a0 a1 a2 a3 a4 a5 a6 a7 a8 a9 a10 a11 u0 u1 u2 u3 rest).drop 1).map (·.2))).length =
      tailLen4 a1 a2 a3 a4 a5 a6 a7 a8 a9 a10 a11 u0 u1 u2 u3 rest := by
    rw [concat_length, tailLen4, upOf_length]
    have e : List.map (ABuf.length ∘ fun x : String × ABuf => x.snd) rest = List.map (fun x => x.snd.length) rest := rfl
    simp only [stack4, List.drop_succ_cons, List.drop_zero, List.map_cons, List.sum_cons, List.map_map, e]
    have : (ABuf.empty .left).length = 0 := rfl
    omega
  simp only [hl, bind, Except.bind]

/-- IPv4 header checksum at position 9: over the twelve header fields -/
theorem step_hc (a0 a1 a2 a3 a4 a5 a6 a7 a8 a9 a10 a11 u0 u1 u2 u3 : ABuf) (rest : Fields) :
    Compute.compute Gen.IPv4F.HEADER_CHECKSUM (stack4 a0 a1 a2 a3 a4 a5 a6 a7 a8 a9 a10 a11 u0 u1 u2 u3 rest) 9 =
      natBuf 2 ((0xffff - foldSum ((hdr4 a0 a1 a2 a3 a4 a5 a6 a7 a8 a9 a10 a11).chunks 16 false) % 0x10000) &&& 0xffff) := by
  rw [compute_hc]
  unfold ipv4HeaderChecksum
  have hs : pySlice (stack4 a0 a1 a2 a3 a4 a5 a6 a7 a8 a9 a10 a11 u0 u1 u2 u3 rest) ((9 : Nat) - 9 : Int) (some ((9 : Nat) + 3 : Int)) =
      [(Gen.IPv4F.VERSION, a0), (Gen.IPv4F.HEADER_LENGTH, a1), (Gen.IPv4F.TYPE_OF_SERVICE, a2), (Gen.IPv4F.TOTAL_LENGTH, a3),
       (Gen.IPv4F.IDENTIFICATION, a4), (Gen.IPv4F.FLAGS, a5), (Gen.IPv4F.FRAGMENT_OFFSET, a6), (Gen.IPv4F.TIME_TO_LIVE, a7),
       (Gen.IPv4F.PROTOCOL, a8), (Gen.IPv4F.HEADER_CHECKSUM, a9), (Gen.IPv4F.SRC_ADDRESS, a10), (Gen.IPv4F.DST_ADDRESS, a11)] := by
    have := pySlice_range (stack4 a0 a1 a2 a3 a4 a5 a6 a7 a8 a9 a10 a11 u0 u1 u2 u3 rest) 0 12 (by rw [stack4_length]; omega) (by omega)
    have e : ((9 : Nat) - 9 : Int) = ((0 : Nat) : Int) := by omega
    have e2 : ((9 : Nat) + 3 : Int) = ((12 : Nat) : Int) := by omega
    rw [e, e2, this]
    rfl
  rw [hs]
  simp only [bind, Except.bind, hdr4, List.map_cons, List.map_nil]

/-- UDP length at position 14 -/
theorem step_ul4 (a0 a1 a2 a3 a4 a5 a6 a7 a8 a9 a10 a11 u0 u1 u2 u3 : ABuf) (rest : Fields) :
    Compute.compute Gen.UDPF.LENGTH (stack4 a0 a1 a2 a3 a4 a5 a6 a7 a8 a9 a10 a11 u0 u1 u2 u3 rest) 14 =
      natBuf 2 (ceilBytes (upOf u0 u1 u2 u3 rest).length) := by
  rw [compute_ul]
  unfold udpLength
  have hs : pySlice (stack4 a0 a1 a2 a3 a4 a5 a6 a7 a8 a9 a10 a11 u0 u1 u2 u3 rest) ((14 : Nat) - 2 : Int) none =
      (Gen.UDPF.SOURCE_PORT, u0) :: (Gen.UDPF.DESTINATION_PORT, u1) :: (Gen.UDPF.LENGTH, u2) :: (Gen.UDPF.CHECKSUM, u3) :: rest := by
    have := pySlice_from (stack4 a0 a1 a2 a3 a4 a5 a6 a7 a8 a9 a10 a11 u0 u1 u2 u3 rest) 12 (by rw [stack4_length]; omega)
    have e : ((14 : Nat) - 2 : Int) = ((12 : Nat) : Int) := by omega
    rw [e, this]; rfl
  rw [hs, concat1_up]
  simp only [bind, Except.bind]

theorem strContains_dst4 : strContains Gen.IPv4F.DST_ADDRESS Gen.ipv4HeaderId = true := by decide
theorem strContains_dst4_6 : strContains Gen.IPv4F.DST_ADDRESS Gen.ipv6HeaderId = false := by decide

/-- UDP checksum at position 15: the RFC 768 pseudo-header from fields 10 and 11 and the UDP length -/
theorem step_uc4 (a0 a1 a2 a3 a4 a5 a6 a7 a8 a9 a10 a11 u0 u1 u2 u3 : ABuf) (rest : Fields) :
    Compute.compute Gen.UDPF.CHECKSUM (stack4 a0 a1 a2 a3 a4 a5 a6 a7 a8 a9 a10 a11 u0 u1 u2 u3 rest) 15 =
      (do let len ← natBuf 2 (ceilBytes (upOf u0 u1 u2 u3 rest).length)
          udpChecksumOf ((((a10.add a11).add (ABuf.ofNat 8 0)).add (ABuf.ofNat 8 0x11)).add len) (upOf u0 u1 u2 u3 rest)) := by
  rw [compute_uc]
  unfold udpChecksum
  have h4 : ¬ ((15 : Nat) < 4) := by decide
  simp only [h4, if_false, bind, Except.bind]
  have hids : ((stack4 a0 a1 a2 a3 a4 a5 a6 a7 a8 a9 a10 a11 u0 u1 u2 u3 rest).map (·.1))[15 - 4]? = some Gen.IPv4F.DST_ADDRESS := rfl
  rw [hids]
  simp only [pure, Except.pure]
  have hd : (stack4 a0 a1 a2 a3 a4 a5 a6 a7 a8 a9 a10 a11 u0 u1 u2 u3 rest).drop (15 - 3) =
      (Gen.UDPF.SOURCE_PORT, u0) :: (Gen.UDPF.DESTINATION_PORT, u1) :: (Gen.UDPF.LENGTH, u2) :: (Gen.UDPF.CHECKSUM, u3) :: rest := rfl
  rw [hd, concat1_up]
  simp only [strContains_dst4, strContains_dst4_6, Bool.false_eq_true, if_false, if_true]
  have hfb : findBackwards ((stack4 a0 a1 a2 a3 a4 a5 a6 a7 a8 a9 a10 a11 u0 u1 u2 u3 rest).map (·.1)) (15 - 4) Gen.IPv4F.SRC_ADDRESS = .ok 1 := by
    unfold findBackwards
    have : (List.range (15 - 4)).find? (fun off => ((stack4 a0 a1 a2 a3 a4 a5 a6 a7 a8 a9 a10 a11 u0 u1 u2 u3 rest).map (·.1))[15 - 4 - off]? == some Gen.IPv4F.SRC_ADDRESS) = some 1 := by
      rfl
    rw [this]; rfl
  rw [hfb]
  simp only
  have g10 : getField (stack4 a0 a1 a2 a3 a4 a5 a6 a7 a8 a9 a10 a11 u0 u1 u2 u3 rest) (15 - 4 - 1) = .ok a10 := rfl
  have g11 : getField (stack4 a0 a1 a2 a3 a4 a5 a6 a7 a8 a9 a10 a11 u0 u1 u2 u3 rest) (15 - 4 - 1 + 1) = .ok a11 := rfl
  rw [g10, g11]

end Schc

namespace Schc
open Bits Compute

theorem run_tl (es : List ComputeEntry) (a0 a1 a2 a3 a4 a5 a6 a7 a8 a9 a10 a11 u0 u1 u2 u3 : ABuf) (rest : Fields)
    (hn : ceilBytes (tailLen4 a1 a2 a3 a4 a5 a6 a7 a8 a9 a10 a11 u0 u1 u2 u3 rest) < 65536) :
    runComputes (⟨3, Gen.IPv4F.TOTAL_LENGTH⟩ :: es) (stack4 a0 a1 a2 a3 a4 a5 a6 a7 a8 a9 a10 a11 u0 u1 u2 u3 rest) =
      runComputes es (stack4 a0 a1 a2 (ABuf.ofNat 16 (ceilBytes (tailLen4 a1 a2 a3 a4 a5 a6 a7 a8 a9 a10 a11 u0 u1 u2 u3 rest)))
        a4 a5 a6 a7 a8 a9 a10 a11 u0 u1 u2 u3 rest) := by
  simp only [runComputes, step_tl, natBuf2 _ hn, bind, Except.bind]
  rfl

def hcVal (a0 a1 a2 a3 a4 a5 a6 a7 a8 a9 a10 a11 : ABuf) : Nat :=
  (0xffff - foldSum ((hdr4 a0 a1 a2 a3 a4 a5 a6 a7 a8 a9 a10 a11).chunks 16 false) % 0x10000) &&& 0xffff

theorem hcVal_lt (a0 a1 a2 a3 a4 a5 a6 a7 a8 a9 a10 a11 : ABuf) : hcVal a0 a1 a2 a3 a4 a5 a6 a7 a8 a9 a10 a11 < 65536 :=
  Nat.lt_of_le_of_lt Nat.and_le_right (by decide)

theorem run_hc (es : List ComputeEntry) (a0 a1 a2 a3 a4 a5 a6 a7 a8 a9 a10 a11 u0 u1 u2 u3 : ABuf) (rest : Fields) :
    runComputes (⟨9, Gen.IPv4F.HEADER_CHECKSUM⟩ :: es) (stack4 a0 a1 a2 a3 a4 a5 a6 a7 a8 a9 a10 a11 u0 u1 u2 u3 rest) =
      runComputes es (stack4 a0 a1 a2 a3 a4 a5 a6 a7 a8 (ABuf.ofNat 16 (hcVal a0 a1 a2 a3 a4 a5 a6 a7 a8 a9 a10 a11)) a10 a11 u0 u1 u2 u3 rest) := by
  have := natBuf2 _ (hcVal_lt a0 a1 a2 a3 a4 a5 a6 a7 a8 a9 a10 a11)
  unfold hcVal at this
  simp only [runComputes, step_hc, this, bind, Except.bind]
  rfl

theorem run_ul4 (es : List ComputeEntry) (a0 a1 a2 a3 a4 a5 a6 a7 a8 a9 a10 a11 u0 u1 u2 u3 : ABuf) (rest : Fields)
    (hn : ceilBytes (upOf u0 u1 u2 u3 rest).length < 65536) :
    runComputes (⟨14, Gen.UDPF.LENGTH⟩ :: es) (stack4 a0 a1 a2 a3 a4 a5 a6 a7 a8 a9 a10 a11 u0 u1 u2 u3 rest) =
      runComputes es (stack4 a0 a1 a2 a3 a4 a5 a6 a7 a8 a9 a10 a11 u0 u1 (ABuf.ofNat 16 (ceilBytes (upOf u0 u1 u2 u3 rest).length)) u3 rest) := by
  simp only [runComputes, step_ul4, natBuf2 _ hn, bind, Except.bind]
  rfl

theorem run_uc4 (es : List ComputeEntry) (a0 a1 a2 a3 a4 a5 a6 a7 a8 a9 a10 a11 u0 u1 u2 u3 c : ABuf) (rest : Fields)
    (hn : ceilBytes (upOf u0 u1 u2 u3 rest).length < 65536)
    (hc : udpChecksumOf ((((a10.add a11).add (ABuf.ofNat 8 0)).add (ABuf.ofNat 8 0x11)).add (ABuf.ofNat 16 (ceilBytes (upOf u0 u1 u2 u3 rest).length)))
        (upOf u0 u1 u2 u3 rest) = .ok c) :
    runComputes (⟨15, Gen.UDPF.CHECKSUM⟩ :: es) (stack4 a0 a1 a2 a3 a4 a5 a6 a7 a8 a9 a10 a11 u0 u1 u2 u3 rest) =
      runComputes es (stack4 a0 a1 a2 a3 a4 a5 a6 a7 a8 a9 a10 a11 u0 u1 u2 c rest) := by
  simp only [runComputes, step_uc4, natBuf2 _ hn, bind, Except.bind, hc]
  rfl

/-- choose the placeholder or the original -/
def sel (c : Bool) (x y : ABuf) : ABuf := if c then x else y

theorem sel_len (c : Bool) (x y : ABuf) (n : Nat) (hx : x.length = n) (hy : y.length = n) : (sel c x y).length = n := by
  cases c <;> simp [sel, hx, hy]

theorem hdr4_bits (a0 a1 a2 a3 a4 a5 a6 a7 a8 a9 a10 a11 : ABuf) :
    (hdr4 a0 a1 a2 a3 a4 a5 a6 a7 a8 a9 a10 a11).bits =
      a0.bits ++ a1.bits ++ a2.bits ++ a3.bits ++ a4.bits ++ a5.bits ++ a6.bits ++ a7.bits ++ a8.bits ++ a9.bits ++ a10.bits ++ a11.bits := by
  unfold hdr4
  rw [concat_bits]
  simp [ABuf.empty]

theorem hcVal_congr (a0 a1 a2 a3 a4 a5 a6 a7 a8 a9 a10 a11 a3' a9' : ABuf) (h3 : a3'.bits = a3.bits) (h9 : a9'.bits = a9.bits) :
    hcVal a0 a1 a2 a3' a4 a5 a6 a7 a8 a9' a10 a11 = hcVal a0 a1 a2 a3 a4 a5 a6 a7 a8 a9 a10 a11 := by
  unfold hcVal
  rw [foldSum_bits _ (hdr4 a0 a1 a2 a3 a4 a5 a6 a7 a8 a9 a10 a11) (by rw [hdr4_bits, hdr4_bits, h3, h9])]

/-- an IPv4 / UDP packet whose total length, header checksum, UDP length and UDP checksum are what RFC 791 / 768 prescribe -/
structure Valid4 (a0 a1 a2 a3 a4 a5 a6 a7 a8 a9 a10 a11 u0 u1 u2 u3 : ABuf) (rest : Fields) : Prop where
  n_up : ceilBytes (upOf u0 u1 u2 u3 rest).length < 65536
  n_tot : ceilBytes (tailLen4 a1 a2 a3 a4 a5 a6 a7 a8 a9 a10 a11 u0 u1 u2 u3 rest) < 65536
  l3 : a3.bits.length = 16
  l9 : a9.bits.length = 16
  l14 : u2.bits.length = 16
  l15 : u3.bits.length = 16
  tl : a3.bits = Bits.ofNat 16 (ceilBytes (tailLen4 a1 a2 a3 a4 a5 a6 a7 a8 a9 a10 a11 u0 u1 u2 u3 rest))
  ul : u2.bits = Bits.ofNat 16 (ceilBytes (upOf u0 u1 u2 u3 rest).length)
  hc : Bits.ofNat 16 (hcVal a0 a1 a2 a3 a4 a5 a6 a7 a8 (ph 16) a10 a11) = a9.bits
  ck : ∃ c, udpChecksumOf ((((a10.add a11).add (ABuf.ofNat 8 0)).add (ABuf.ofNat 8 0x11)).add (ABuf.ofNat 16 (ceilBytes (upOf u0 u1 u2 u3 rest).length)))
        (upOf u0 u1 u2 (ph 16) rest) = .ok c ∧ c.bits = u3.bits

end Schc

namespace Schc
open Bits Compute

theorem sel_bits (c : Bool) (x y : ABuf) (h : x.bits = y.bits) : (sel c x y).bits = y.bits := by
  cases c <;> simp [sel, h]

theorem stage_tl (c : Bool) (es : List ComputeEntry) (a0 a1 a2 a3 a4 a5 a6 a7 a8 a9 a10 a11 u0 u1 u2 u3 : ABuf) (rest : Fields)
    (hn : ceilBytes (tailLen4 a1 a2 (ph 16) a4 a5 a6 a7 a8 a9 a10 a11 u0 u1 u2 u3 rest) < 65536) :
    runComputes ((if c then [(⟨3, Gen.IPv4F.TOTAL_LENGTH⟩ : ComputeEntry)] else []) ++ es)
        (stack4 a0 a1 a2 (sel c (ph 16) a3) a4 a5 a6 a7 a8 a9 a10 a11 u0 u1 u2 u3 rest) =
      runComputes es (stack4 a0 a1 a2 (sel c (ABuf.ofNat 16 (ceilBytes (tailLen4 a1 a2 (ph 16) a4 a5 a6 a7 a8 a9 a10 a11 u0 u1 u2 u3 rest))) a3)
        a4 a5 a6 a7 a8 a9 a10 a11 u0 u1 u2 u3 rest) := by
  cases c
  · simp [sel]
  · simp only [sel, if_true, List.singleton_append]
    exact run_tl es _ _ _ _ _ _ _ _ _ _ _ _ _ _ _ _ rest hn

theorem stage_hc (c : Bool) (es : List ComputeEntry) (a0 a1 a2 a3 a4 a5 a6 a7 a8 a9 a10 a11 u0 u1 u2 u3 : ABuf) (rest : Fields) :
    runComputes ((if c then [(⟨9, Gen.IPv4F.HEADER_CHECKSUM⟩ : ComputeEntry)] else []) ++ es)
        (stack4 a0 a1 a2 a3 a4 a5 a6 a7 a8 (sel c (ph 16) a9) a10 a11 u0 u1 u2 u3 rest) =
      runComputes es (stack4 a0 a1 a2 a3 a4 a5 a6 a7 a8 (sel c (ABuf.ofNat 16 (hcVal a0 a1 a2 a3 a4 a5 a6 a7 a8 (ph 16) a10 a11)) a9)
        a10 a11 u0 u1 u2 u3 rest) := by
  cases c
  · simp [sel]
  · simp only [sel, if_true, List.singleton_append]
    exact run_hc es _ _ _ _ _ _ _ _ _ _ _ _ _ _ _ _ rest

theorem stage_ul (c : Bool) (es : List ComputeEntry) (a0 a1 a2 a3 a4 a5 a6 a7 a8 a9 a10 a11 u0 u1 u2 u3 : ABuf) (rest : Fields)
    (hn : ceilBytes (upOf u0 u1 (ph 16) u3 rest).length < 65536) :
    runComputes ((if c then [(⟨14, Gen.UDPF.LENGTH⟩ : ComputeEntry)] else []) ++ es)
        (stack4 a0 a1 a2 a3 a4 a5 a6 a7 a8 a9 a10 a11 u0 u1 (sel c (ph 16) u2) u3 rest) =
      runComputes es (stack4 a0 a1 a2 a3 a4 a5 a6 a7 a8 a9 a10 a11 u0 u1
        (sel c (ABuf.ofNat 16 (ceilBytes (upOf u0 u1 (ph 16) u3 rest).length)) u2) u3 rest) := by
  cases c
  · simp [sel]
  · simp only [sel, if_true, List.singleton_append]
    exact run_ul4 es _ _ _ _ _ _ _ _ _ _ _ _ _ _ _ _ rest hn

theorem stage_uc (c : Bool) (a0 a1 a2 a3 a4 a5 a6 a7 a8 a9 a10 a11 u0 u1 u2 u3 ck : ABuf) (rest : Fields)
    (hn : ceilBytes (upOf u0 u1 u2 (ph 16) rest).length < 65536)
    (hc : udpChecksumOf ((((a10.add a11).add (ABuf.ofNat 8 0)).add (ABuf.ofNat 8 0x11)).add (ABuf.ofNat 16 (ceilBytes (upOf u0 u1 u2 (ph 16) rest).length)))
        (upOf u0 u1 u2 (ph 16) rest) = .ok ck) :
    runComputes (if c then [(⟨15, Gen.UDPF.CHECKSUM⟩ : ComputeEntry)] else [])
        (stack4 a0 a1 a2 a3 a4 a5 a6 a7 a8 a9 a10 a11 u0 u1 u2 (sel c (ph 16) u3) rest) =
      .ok (stack4 a0 a1 a2 a3 a4 a5 a6 a7 a8 a9 a10 a11 u0 u1 u2 (sel c ck u3) rest) := by
  cases c
  · simp [sel, runComputes, pure, Except.pure]
  · simp only [sel, if_true]
    rw [run_uc4 [] _ _ _ _ _ _ _ _ _ _ _ _ _ _ _ _ ck rest hn hc]
    rfl

theorem stack4_bits (a0 a1 a2 a3 a4 a5 a6 a7 a8 a9 a10 a11 u0 u1 u2 u3 : ABuf) (rest : Fields) :
    (stack4 a0 a1 a2 a3 a4 a5 a6 a7 a8 a9 a10 a11 u0 u1 u2 u3 rest).flatMap (·.2.bits) =
      a0.bits ++ (a1.bits ++ (a2.bits ++ (a3.bits ++ (a4.bits ++ (a5.bits ++ (a6.bits ++ (a7.bits ++ (a8.bits ++ (a9.bits ++ (a10.bits ++ (a11.bits ++
        (u0.bits ++ (u1.bits ++ (u2.bits ++ (u3.bits ++ rest.flatMap (·.2.bits)))))))))))))))) := by
  simp [stack4]

/-- on a valid IPv4 / UDP packet, whichever of total length, header checksum, UDP length and UDP checksum were elided
    (16-bit zero placeholders), running their compute functions in the decompressor's order gives the packet back -/
theorem restore4 (a0 a1 a2 a3 a4 a5 a6 a7 a8 a9 a10 a11 u0 u1 u2 u3 : ABuf) (rest : Fields)
    (hv : Valid4 a0 a1 a2 a3 a4 a5 a6 a7 a8 a9 a10 a11 u0 u1 u2 u3 rest) (c3 c9 c14 c15 : Bool) :
    ∃ res, runComputes (sortEntries ((if c3 then [(⟨3, Gen.IPv4F.TOTAL_LENGTH⟩ : ComputeEntry)] else []) ++
          ((if c9 then [⟨9, Gen.IPv4F.HEADER_CHECKSUM⟩] else []) ++ ((if c14 then [⟨14, Gen.UDPF.LENGTH⟩] else []) ++
            (if c15 then [⟨15, Gen.UDPF.CHECKSUM⟩] else [])))))
        (stack4 a0 a1 a2 (sel c3 (ph 16) a3) a4 a5 a6 a7 a8 (sel c9 (ph 16) a9) a10 a11 u0 u1 (sel c14 (ph 16) u2) (sel c15 (ph 16) u3) rest) = .ok res ∧
      res.flatMap (·.2.bits) = (stack4 a0 a1 a2 a3 a4 a5 a6 a7 a8 a9 a10 a11 u0 u1 u2 u3 rest).flatMap (·.2.bits) := by
  obtain ⟨hnu, hnt, l3, l9, l14, l15, htl, hul, hhc, ck, hck, hckb⟩ := hv
  have hph : (ph 16).length = 16 := by simp [ph, ABuf.length, zeros_length]
  have hl3 : a3.length = 16 := l3
  have hl9 : a9.length = 16 := l9
  have hl14 : u2.length = 16 := l14
  have hl15 : u3.length = 16 := l15
  have hon : ∀ k, (ABuf.ofNat 16 k).length = 16 := fun k => ofNat_len 16 k
  -- lengths do not depend on which 16-bit value sits in the four slots
  have hU : ∀ X Y : ABuf, X.length = 16 → Y.length = 16 → (upOf u0 u1 X Y rest).length = (upOf u0 u1 u2 u3 rest).length := by
    intro X Y hX hY; rw [upOf_length, upOf_length, hX, hY, hl14, hl15]
  have hT : ∀ A3 A9 X Y : ABuf, A3.length = 16 → A9.length = 16 → X.length = 16 → Y.length = 16 →
      tailLen4 a1 a2 A3 a4 a5 a6 a7 a8 A9 a10 a11 u0 u1 X Y rest = tailLen4 a1 a2 a3 a4 a5 a6 a7 a8 a9 a10 a11 u0 u1 u2 u3 rest := by
    intro A3 A9 X Y h1 h2 h3 h4
    unfold tailLen4
    rw [hU X Y h3 h4, h1, h2, hl3, hl9]
  have hs : sortEntries ((if c3 then [(⟨3, Gen.IPv4F.TOTAL_LENGTH⟩ : ComputeEntry)] else []) ++
          ((if c9 then [⟨9, Gen.IPv4F.HEADER_CHECKSUM⟩] else []) ++ ((if c14 then [⟨14, Gen.UDPF.LENGTH⟩] else []) ++
            (if c15 then [⟨15, Gen.UDPF.CHECKSUM⟩] else [])))) =
      (if c3 then [(⟨3, Gen.IPv4F.TOTAL_LENGTH⟩ : ComputeEntry)] else []) ++
          ((if c9 then [⟨9, Gen.IPv4F.HEADER_CHECKSUM⟩] else []) ++ ((if c14 then [⟨14, Gen.UDPF.LENGTH⟩] else []) ++
            (if c15 then [⟨15, Gen.UDPF.CHECKSUM⟩] else []))) := by
    cases c3 <;> cases c9 <;> cases c14 <;> cases c15 <;> rfl
  rw [hs]
  -- stage 1: total length
  have s9 : (sel c9 (ph 16) a9).length = 16 := sel_len _ _ _ 16 hph hl9
  have s14 : (sel c14 (ph 16) u2).length = 16 := sel_len _ _ _ 16 hph hl14
  have s15 : (sel c15 (ph 16) u3).length = 16 := sel_len _ _ _ 16 hph hl15
  rw [stage_tl c3 _ _ _ _ _ _ _ _ _ _ _ _ _ _ _ _ _ rest (by rw [hT _ _ _ _ hph s9 s14 s15]; exact hnt), hT _ _ _ _ hph s9 s14 s15]
  generalize hA3 : sel c3 (ABuf.ofNat 16 (ceilBytes (tailLen4 a1 a2 a3 a4 a5 a6 a7 a8 a9 a10 a11 u0 u1 u2 u3 rest))) a3 = A3
  have hA3b : A3.bits = a3.bits := by rw [← hA3]; exact sel_bits _ _ _ (by rw [htl]; rfl)
  -- stage 2: header checksum (total length already restored)
  rw [stage_hc c9]
  rw [hcVal_congr a0 a1 a2 a3 a4 a5 a6 a7 a8 (ph 16) a10 a11 A3 (ph 16) hA3b rfl]
  generalize hA9 : sel c9 (ABuf.ofNat 16 (hcVal a0 a1 a2 a3 a4 a5 a6 a7 a8 (ph 16) a10 a11)) a9 = A9
  have hA9b : A9.bits = a9.bits := by rw [← hA9]; exact sel_bits _ _ _ (by rw [← hhc]; rfl)
  -- stage 3: UDP length
  rw [stage_ul c14 _ _ _ _ _ _ _ _ _ _ _ _ _ _ _ _ _ rest (by rw [hU _ _ hph s15]; exact hnu), hU _ _ hph s15]
  generalize hU2 : sel c14 (ABuf.ofNat 16 (ceilBytes (upOf u0 u1 u2 u3 rest).length)) u2 = U2
  have hU2b : U2.bits = u2.bits := by rw [← hU2]; exact sel_bits _ _ _ (by rw [hul]; rfl)
  have hU2l : U2.length = 16 := by rw [← hU2]; exact sel_len _ _ _ 16 (hon _) hl14
  -- stage 4: UDP checksum
  have hck' : udpChecksumOf ((((a10.add a11).add (ABuf.ofNat 8 0)).add (ABuf.ofNat 8 0x11)).add (ABuf.ofNat 16 (ceilBytes (upOf u0 u1 U2 (ph 16) rest).length)))
      (upOf u0 u1 U2 (ph 16) rest) = .ok ck := by
    rw [hU _ _ hU2l hph, ← hck]
    exact udpChecksumOf_bits _ _ _ _ rfl (by rw [upOf_bits, upOf_bits, hU2b])
  rw [stage_uc c15 _ _ _ _ _ _ _ _ _ _ _ _ _ _ _ _ ck rest (by rw [hU _ _ hU2l hph]; exact hnu) hck']
  refine ⟨_, rfl, ?_⟩
  simp only [stack4_bits, hA3b, hA9b, hU2b, sel_bits c15 ck u3 hckb]

end Schc
