/- C01 on the IPv4 / UDP stack with compute fields. -/
import Schc.Proofs.StackRoundtrip
import Schc.Proofs.StackRestore4

namespace Schc
open Bits Compute

theorem length16 {α} (l : List α) (h : l.length = 16) :
    ∃ x0 x1 x2 x3 x4 x5 x6 x7 x8 x9 x10 x11 x12 x13 x14 x15, l = [x0, x1, x2, x3, x4, x5, x6, x7, x8, x9, x10, x11, x12, x13, x14, x15] := by
  match l, h with
  | [x0, x1, x2, x3, x4, x5, x6, x7, x8, x9, x10, x11, x12, x13, x14, x15], _ =>
    exact ⟨x0, x1, x2, x3, x4, x5, x6, x7, x8, x9, x10, x11, x12, x13, x14, x15, rfl⟩

/-- the sixteen IPv4 / UDP field ids in header order -/
def ids4 : List String := Gen.IPv4F.all ++ Gen.UDPF.all

/-- the shape of the decompressor's state on the IPv4 / UDP stack (see `ipv6_udp_shape`) -/
theorem ipv4_udp_shape (p : Packet) (r : Rule) (pf16 restF : List Field) (rf16 restR : List RuleField)
    (hp : p.fields = pf16 ++ restF) (hr : r.fields = rf16 ++ restR) (h16p : pf16.length = 16) (h16r : rf16.length = 16)
    (hids : pf16.map (·.id) = ids4)
    (hn : r.nature = .compression) (hdir : ∀ rf ∈ r.fields, Spec.dirApplies p.dir rf.dir = true)
    (happ : Spec.applicable p r = true) (hfit : AllFitsC p.fields r.fields)
    (hncR : ∀ rf ∈ restR, rf.cda ≠ .compute)
    (l3 : (fv pf16 3).bits.length = 16) (l9 : (fv pf16 9).bits.length = 16) (l14 : (fv pf16 14).bits.length = 16) (l15 : (fv pf16 15).bits.length = 16) :
    ∃ c3 c9 c14 c15 : Bool,
      assemble r.fields (zeroed p.fields r.fields) ++ [(Gen.payloadId, ⟨p.payload.bits, .right⟩)] =
        stack4 (fv pf16 0) (fv pf16 1) (fv pf16 2) (sel c3 (ph 16) (fv pf16 3)) (fv pf16 4) (fv pf16 5) (fv pf16 6) (fv pf16 7) (fv pf16 8) (sel c9 (ph 16) (fv pf16 9)) (fv pf16 10) (fv pf16 11) (fv pf16 12) (fv pf16 13) (sel c14 (ph 16) (fv pf16 14)) (sel c15 (ph 16) (fv pf16 15)) (restOf restF restR p.payload) ∧
      computeEntries r.fields 0 =
        (if c3 then [(⟨3, Gen.IPv4F.TOTAL_LENGTH⟩ : ComputeEntry)] else []) ++
          ((if c9 then [⟨9, Gen.IPv4F.HEADER_CHECKSUM⟩] else []) ++
            ((if c14 then [⟨14, Gen.UDPF.LENGTH⟩] else []) ++ (if c15 then [⟨15, Gen.UDPF.CHECKSUM⟩] else []))) ∧
      restF.length = restR.length ∧ AllFitsC restF restR ∧ Spec.allMatch restF restR = true := by
  obtain ⟨x0, x1, x2, x3, x4, x5, x6, x7, x8, x9, x10, x11, x12, x13, x14, x15, rfl⟩ := length16 pf16 h16p
  obtain ⟨g0, g1, g2, g3, g4, g5, g6, g7, g8, g9, g10, g11, g12, g13, g14, g15, rfl⟩ := length16 rf16 h16r
  simp only [ids4, Gen.IPv4F.all, Gen.UDPF.all, List.map_cons, List.map_nil, List.cons_append, List.nil_append, List.cons.injEq, and_true] at hids
  obtain ⟨i0, i1, i2, i3, i4, i5, i6, i7, i8, i9, i10, i11, i12, i13, i14, i15⟩ := hids
  have happ' := happ
  unfold Spec.applicable at happ'
  rw [hn] at happ'
  have hfilter : r.fields.filter (fun f => Spec.dirApplies p.dir f.dir) = r.fields := by
    rw [List.filter_eq_self]; exact hdir
  simp only [hfilter, Bool.and_eq_true, beq_iff_eq] at happ'
  obtain ⟨hl, hm⟩ := happ'
  rw [hp, hr] at hl hm hfit
  have hlrest : restF.length = restR.length := by simpa using hl
  simp only [List.cons_append, List.nil_append, Spec.allMatch, Bool.and_eq_true] at hm
  obtain ⟨m0, m1, m2, m3, m4, m5, m6, m7, m8, m9, m10, m11, m12, m13, m14, m15, mrest⟩ := hm
  have idof : ∀ (pf : Field) (rf : RuleField), Spec.fieldMatches pf rf = true → pf.id = rf.id := by
    intro pf rf h; unfold Spec.fieldMatches at h; simp only [Bool.and_eq_true, beq_iff_eq] at h; exact h.1
  have j0 := idof _ _ m0; have j1 := idof _ _ m1; have j2 := idof _ _ m2; have j3 := idof _ _ m3
  have j4 := idof _ _ m4; have j5 := idof _ _ m5; have j6 := idof _ _ m6; have j7 := idof _ _ m7
  have j8 := idof _ _ m8; have j9 := idof _ _ m9; have j10 := idof _ _ m10; have j11 := idof _ _ m11
  have j12 := idof _ _ m12; have j13 := idof _ _ m13; have j14 := idof _ _ m14; have j15 := idof _ _ m15
  simp only [List.cons_append, List.nil_append] at hfit
  obtain ⟨f0, hfit⟩ := fitsC_cons _ _ _ _ hfit
  obtain ⟨f1, hfit⟩ := fitsC_cons _ _ _ _ hfit
  obtain ⟨f2, hfit⟩ := fitsC_cons _ _ _ _ hfit
  obtain ⟨f3, hfit⟩ := fitsC_cons _ _ _ _ hfit
  obtain ⟨f4, hfit⟩ := fitsC_cons _ _ _ _ hfit
  obtain ⟨f5, hfit⟩ := fitsC_cons _ _ _ _ hfit
  obtain ⟨f6, hfit⟩ := fitsC_cons _ _ _ _ hfit
  obtain ⟨f7, hfit⟩ := fitsC_cons _ _ _ _ hfit
  obtain ⟨f8, hfit⟩ := fitsC_cons _ _ _ _ hfit
  obtain ⟨f9, hfit⟩ := fitsC_cons _ _ _ _ hfit
  obtain ⟨f10, hfit⟩ := fitsC_cons _ _ _ _ hfit
  obtain ⟨f11, hfit⟩ := fitsC_cons _ _ _ _ hfit
  obtain ⟨f12, hfit⟩ := fitsC_cons _ _ _ _ hfit
  obtain ⟨f13, hfit⟩ := fitsC_cons _ _ _ _ hfit
  obtain ⟨f14, hfit⟩ := fitsC_cons _ _ _ _ hfit
  obtain ⟨f15, hfit⟩ := fitsC_cons _ _ _ _ hfit
  have n0 : g0.cda ≠ .compute := not_compute_of_id x0 g0 f0 (by rw [← j0, i0]; decide)
  have n1 : g1.cda ≠ .compute := not_compute_of_id x1 g1 f1 (by rw [← j1, i1]; decide)
  have n2 : g2.cda ≠ .compute := not_compute_of_id x2 g2 f2 (by rw [← j2, i2]; decide)
  have n4 : g4.cda ≠ .compute := not_compute_of_id x4 g4 f4 (by rw [← j4, i4]; decide)
  have n5 : g5.cda ≠ .compute := not_compute_of_id x5 g5 f5 (by rw [← j5, i5]; decide)
  have n6 : g6.cda ≠ .compute := not_compute_of_id x6 g6 f6 (by rw [← j6, i6]; decide)
  have n7 : g7.cda ≠ .compute := not_compute_of_id x7 g7 f7 (by rw [← j7, i7]; decide)
  have n8 : g8.cda ≠ .compute := not_compute_of_id x8 g8 f8 (by rw [← j8, i8]; decide)
  have n10 : g10.cda ≠ .compute := not_compute_of_id x10 g10 f10 (by rw [← j10, i10]; decide)
  have n11 : g11.cda ≠ .compute := not_compute_of_id x11 g11 f11 (by rw [← j11, i11]; decide)
  have n12 : g12.cda ≠ .compute := not_compute_of_id x12 g12 f12 (by rw [← j12, i12]; decide)
  have n13 : g13.cda ≠ .compute := not_compute_of_id x13 g13 f13 (by rw [← j13, i13]; decide)
  simp only [fv, List.getElem?_cons_succ, List.getElem?_cons_zero, Option.map_some, Option.getD_some] at l3 l9 l14 l15 ⊢
  refine ⟨decide (g3.cda = .compute), decide (g9.cda = .compute), decide (g14.cda = .compute), decide (g15.cda = .compute), ?_, ?_, hlrest, hfit, mrest⟩
  · rw [hp, hr]
    have e3 : g3.cda = .compute → g3.length = 16 := fun hc => by rw [compute_len x3 g3 f3 hc]; exact l3
    have e9 : g9.cda = .compute → g9.length = 16 := fun hc => by rw [compute_len x9 g9 f9 hc]; exact l9
    have e14 : g14.cda = .compute → g14.length = 16 := fun hc => by rw [compute_len x14 g14 f14 hc]; exact l14
    have e15 : g15.cda = .compute → g15.length = 16 := fun hc => by rw [compute_len x15 g15 f15 hc]; exact l15
    simp only [List.cons_append, List.nil_append, zeroed, assemble, sideOf, n0, n1, n2, n4, n5, n6, n7, n8, n10, n11, n12, n13, if_false, stack4, restOf,
      ← j0, ← j1, ← j2, ← j3, ← j4, ← j5, ← j6, ← j7, ← j8, ← j9, ← j10, ← j11, ← j12, ← j13, ← j14, ← j15,
      i0, i1, i2, i3, i4, i5, i6, i7, i8, i9, i10, i11, i12, i13, i14, i15]
    by_cases c3 : g3.cda = .compute <;> by_cases c9 : g9.cda = .compute <;> by_cases c14 : g14.cda = .compute <;> by_cases c15 : g15.cda = .compute <;>
      simp [c3, c9, c14, c15, ph, sel, e3, e9, e14, e15] <;>
      exact ⟨rfl, rfl, rfl, rfl, rfl, rfl, rfl, rfl, rfl, rfl, rfl, rfl, rfl, rfl, rfl, rfl⟩
  · rw [hr, computeEntries_append, computeEntries_nil restR _ hncR, List.append_nil]
    simp only [computeEntries, n0, n1, n2, n4, n5, n6, n7, n8, n10, n11, n12, n13, if_false, ← j3, ← j9, ← j14, ← j15, i3, i9, i14, i15]
    have q1 : Gen.IPv4F.TOTAL_LENGTH = "IPv4:Total Length" := rfl
    have q2 : Gen.IPv4F.HEADER_CHECKSUM = "IPv4:Header Checksum" := rfl
    have q3 : Gen.UDPF.LENGTH = "UDP:Length" := rfl
    have q4 : Gen.UDPF.CHECKSUM = "UDP:Checksum" := rfl
    by_cases c3 : g3.cda = .compute <;> by_cases c9 : g9.cda = .compute <;> by_cases c14 : g14.cda = .compute <;> by_cases c15 : g15.cda = .compute <;>
      simp [c3, c9, c14, c15, q1, q2, q3, q4]

/-- C01 on the IPv4 / UDP stack: any subset of total length, header checksum, UDP length and UDP checksum may be
    *compute*; for packets whose four fields are valid (`Valid4`) decompress ∘ compress is the identity -/
theorem roundtrip_ipv4_udp (p : Packet) (r : Rule) (pf16 restF : List Field) (rf16 restR : List RuleField)
    (hp : p.fields = pf16 ++ restF) (hr : r.fields = rf16 ++ restR) (h16p : pf16.length = 16) (h16r : rf16.length = 16)
    (hids : pf16.map (·.id) = ids4)
    (hn : r.nature = .compression) (hdir : ∀ rf ∈ r.fields, Spec.dirApplies p.dir rf.dir = true)
    (happ : Spec.applicable p r = true) (hfit : AllFitsC p.fields r.fields)
    (hraw : p.raw.bits = p.fields.flatMap (·.value.bits) ++ p.payload.bits)
    (hncR : ∀ rf ∈ restR, rf.cda ≠ .compute)
    (hvalid : Valid4 (fv pf16 0) (fv pf16 1) (fv pf16 2) (fv pf16 3) (fv pf16 4) (fv pf16 5) (fv pf16 6) (fv pf16 7) (fv pf16 8) (fv pf16 9)
      (fv pf16 10) (fv pf16 11) (fv pf16 12) (fv pf16 13) (fv pf16 14) (fv pf16 15) (restOf restF restR p.payload)) :
    ∃ c, compress p r = .ok c ∧ decompress c r = .ok ⟨p.raw.bits, .right⟩ := by
  obtain ⟨x0, x1, x2, x3, x4, x5, x6, x7, x8, x9, x10, x11, x12, x13, x14, x15, rfl⟩ := length16 pf16 h16p
  obtain ⟨g0, g1, g2, g3, g4, g5, g6, g7, g8, g9, g10, g11, g12, g13, g14, g15, rfl⟩ := length16 rf16 h16r
  simp only [ids4, Gen.IPv4F.all, Gen.UDPF.all, List.map_cons, List.map_nil, List.cons_append, List.nil_append, List.cons.injEq, and_true] at hids
  obtain ⟨i0, i1, i2, i3, i4, i5, i6, i7, i8, i9, i10, i11, i12, i13, i14, i15⟩ := hids
  have happ' := happ
  unfold Spec.applicable at happ'
  rw [hn] at happ'
  have hfilter : r.fields.filter (fun f => Spec.dirApplies p.dir f.dir) = r.fields := by
    rw [List.filter_eq_self]; exact hdir
  simp only [hfilter, Bool.and_eq_true, beq_iff_eq] at happ'
  obtain ⟨hl, hm⟩ := happ'
  rw [hp, hr] at hl hm hfit
  have hlrest : restF.length = restR.length := by simpa using hl
  simp only [List.cons_append, List.nil_append, Spec.allMatch, Spec.fieldMatches, Bool.and_eq_true, beq_iff_eq] at hm
  obtain ⟨⟨j0, _⟩, ⟨j1, _⟩, ⟨j2, _⟩, ⟨j3, _⟩, ⟨j4, _⟩, ⟨j5, _⟩, ⟨j6, _⟩, ⟨j7, _⟩, ⟨j8, _⟩, ⟨j9, _⟩, ⟨j10, _⟩, ⟨j11, _⟩,
    ⟨j12, _⟩, ⟨j13, _⟩, ⟨j14, _⟩, ⟨j15, _⟩, _⟩ := hm
  simp only [List.cons_append, List.nil_append] at hfit
  obtain ⟨f0, hfit⟩ := fitsC_cons _ _ _ _ hfit
  obtain ⟨f1, hfit⟩ := fitsC_cons _ _ _ _ hfit
  obtain ⟨f2, hfit⟩ := fitsC_cons _ _ _ _ hfit
  obtain ⟨f3, hfit⟩ := fitsC_cons _ _ _ _ hfit
  obtain ⟨f4, hfit⟩ := fitsC_cons _ _ _ _ hfit
  obtain ⟨f5, hfit⟩ := fitsC_cons _ _ _ _ hfit
  obtain ⟨f6, hfit⟩ := fitsC_cons _ _ _ _ hfit
  obtain ⟨f7, hfit⟩ := fitsC_cons _ _ _ _ hfit
  obtain ⟨f8, hfit⟩ := fitsC_cons _ _ _ _ hfit
  obtain ⟨f9, hfit⟩ := fitsC_cons _ _ _ _ hfit
  obtain ⟨f10, hfit⟩ := fitsC_cons _ _ _ _ hfit
  obtain ⟨f11, hfit⟩ := fitsC_cons _ _ _ _ hfit
  obtain ⟨f12, hfit⟩ := fitsC_cons _ _ _ _ hfit
  obtain ⟨f13, hfit⟩ := fitsC_cons _ _ _ _ hfit
  obtain ⟨f14, hfit⟩ := fitsC_cons _ _ _ _ hfit
  obtain ⟨f15, hfit⟩ := fitsC_cons _ _ _ _ hfit
  have n0 : g0.cda ≠ .compute := not_compute_of_id x0 g0 f0 (by rw [← j0, i0]; decide)
  have n1 : g1.cda ≠ .compute := not_compute_of_id x1 g1 f1 (by rw [← j1, i1]; decide)
  have n2 : g2.cda ≠ .compute := not_compute_of_id x2 g2 f2 (by rw [← j2, i2]; decide)
  have n4 : g4.cda ≠ .compute := not_compute_of_id x4 g4 f4 (by rw [← j4, i4]; decide)
  have n5 : g5.cda ≠ .compute := not_compute_of_id x5 g5 f5 (by rw [← j5, i5]; decide)
  have n6 : g6.cda ≠ .compute := not_compute_of_id x6 g6 f6 (by rw [← j6, i6]; decide)
  have n7 : g7.cda ≠ .compute := not_compute_of_id x7 g7 f7 (by rw [← j7, i7]; decide)
  have n8 : g8.cda ≠ .compute := not_compute_of_id x8 g8 f8 (by rw [← j8, i8]; decide)
  have n10 : g10.cda ≠ .compute := not_compute_of_id x10 g10 f10 (by rw [← j10, i10]; decide)
  have n11 : g11.cda ≠ .compute := not_compute_of_id x11 g11 f11 (by rw [← j11, i11]; decide)
  have n12 : g12.cda ≠ .compute := not_compute_of_id x12 g12 f12 (by rw [← j12, i12]; decide)
  have n13 : g13.cda ≠ .compute := not_compute_of_id x13 g13 f13 (by rw [← j13, i13]; decide)
  simp only [fv, List.getElem?_cons_succ, List.getElem?_cons_zero, Option.map_some, Option.getD_some] at hvalid
  have hv := hvalid
  obtain ⟨_, _, l3, l9, l14, l15, _, _, _, _⟩ := hvalid
  have hcur : assemble r.fields (zeroed p.fields r.fields) ++ [(Gen.payloadId, ⟨p.payload.bits, .right⟩)] =
      stack4 ⟨x0.value.bits, .right⟩ ⟨x1.value.bits, .right⟩ ⟨x2.value.bits, .right⟩
        (sel (decide (g3.cda = .compute)) (ph 16) ⟨x3.value.bits, .right⟩) ⟨x4.value.bits, .right⟩ ⟨x5.value.bits, .right⟩
        ⟨x6.value.bits, .right⟩ ⟨x7.value.bits, .right⟩ ⟨x8.value.bits, .right⟩
        (sel (decide (g9.cda = .compute)) (ph 16) ⟨x9.value.bits, .right⟩) ⟨x10.value.bits, .right⟩ ⟨x11.value.bits, .right⟩
        ⟨x12.value.bits, .right⟩ ⟨x13.value.bits, .right⟩
        (sel (decide (g14.cda = .compute)) (ph 16) ⟨x14.value.bits, .right⟩) (sel (decide (g15.cda = .compute)) (ph 16) ⟨x15.value.bits, .right⟩)
        (restOf restF restR p.payload) := by
    rw [hp, hr]
    have e3 : g3.cda = .compute → g3.length = 16 := fun hc => by rw [compute_len x3 g3 f3 hc]; exact l3
    have e9 : g9.cda = .compute → g9.length = 16 := fun hc => by rw [compute_len x9 g9 f9 hc]; exact l9
    have e14 : g14.cda = .compute → g14.length = 16 := fun hc => by rw [compute_len x14 g14 f14 hc]; exact l14
    have e15 : g15.cda = .compute → g15.length = 16 := fun hc => by rw [compute_len x15 g15 f15 hc]; exact l15
    simp only [List.cons_append, List.nil_append, zeroed, assemble, sideOf, n0, n1, n2, n4, n5, n6, n7, n8, n10, n11, n12, n13, if_false, stack4, restOf,
      ← j0, ← j1, ← j2, ← j3, ← j4, ← j5, ← j6, ← j7, ← j8, ← j9, ← j10, ← j11, ← j12, ← j13, ← j14, ← j15,
      i0, i1, i2, i3, i4, i5, i6, i7, i8, i9, i10, i11, i12, i13, i14, i15]
    by_cases c3 : g3.cda = .compute <;> by_cases c9 : g9.cda = .compute <;> by_cases c14 : g14.cda = .compute <;> by_cases c15 : g15.cda = .compute <;>
      simp [c3, c9, c14, c15, ph, sel, e3, e9, e14, e15] <;>
      exact ⟨rfl, rfl, rfl, rfl, rfl, rfl, rfl, rfl, rfl, rfl, rfl, rfl, rfl, rfl, rfl, rfl⟩
  have hent : computeEntries r.fields 0 =
      (if decide (g3.cda = .compute) = true then [(⟨3, Gen.IPv4F.TOTAL_LENGTH⟩ : ComputeEntry)] else []) ++
        ((if decide (g9.cda = .compute) = true then [⟨9, Gen.IPv4F.HEADER_CHECKSUM⟩] else []) ++
          ((if decide (g14.cda = .compute) = true then [⟨14, Gen.UDPF.LENGTH⟩] else []) ++
            (if decide (g15.cda = .compute) = true then [⟨15, Gen.UDPF.CHECKSUM⟩] else []))) := by
    rw [hr, computeEntries_append, computeEntries_nil restR _ hncR, List.append_nil]
    simp only [computeEntries, n0, n1, n2, n4, n5, n6, n7, n8, n10, n11, n12, n13, if_false, ← j3, ← j9, ← j14, ← j15, i3, i9, i14, i15]
    have q1 : Gen.IPv4F.TOTAL_LENGTH = "IPv4:Total Length" := rfl
    have q2 : Gen.IPv4F.HEADER_CHECKSUM = "IPv4:Header Checksum" := rfl
    have q3 : Gen.UDPF.LENGTH = "UDP:Length" := rfl
    have q4 : Gen.UDPF.CHECKSUM = "UDP:Checksum" := rfl
    by_cases c3 : g3.cda = .compute <;> by_cases c9 : g9.cda = .compute <;> by_cases c14 : g14.cda = .compute <;> by_cases c15 : g15.cda = .compute <;>
      simp [c3, c9, c14, c15, q1, q2, q3, q4]
  obtain ⟨res, hrun, hbits⟩ := restore4 ⟨x0.value.bits, .right⟩ ⟨x1.value.bits, .right⟩ ⟨x2.value.bits, .right⟩ ⟨x3.value.bits, .right⟩
    ⟨x4.value.bits, .right⟩ ⟨x5.value.bits, .right⟩ ⟨x6.value.bits, .right⟩ ⟨x7.value.bits, .right⟩ ⟨x8.value.bits, .right⟩
    ⟨x9.value.bits, .right⟩ ⟨x10.value.bits, .right⟩ ⟨x11.value.bits, .right⟩ ⟨x12.value.bits, .right⟩ ⟨x13.value.bits, .right⟩
    ⟨x14.value.bits, .right⟩ ⟨x15.value.bits, .right⟩ (restOf restF restR p.payload) hv
    (decide (g3.cda = .compute)) (decide (g9.cda = .compute)) (decide (g14.cda = .compute)) (decide (g15.cda = .compute))
  refine roundtrip_compute p r hn hdir happ
    (by rw [hp, hr]; exact ⟨f0, f1, f2, f3, f4, f5, f6, f7, f8, f9, f10, f11, f12, f13, f14, f15, hfit⟩) hraw res ?_ ?_
  · rw [hcur, hent]; exact hrun
  · rw [hbits, stack4_bits, hp]
    simp only [restOf, List.flatMap_append, List.flatMap_cons, List.flatMap_nil, List.append_nil, List.cons_append, List.nil_append]
    rw [assemble_nocompute_bits restF restR hlrest hncR]
    simp [List.append_assoc]

end Schc
